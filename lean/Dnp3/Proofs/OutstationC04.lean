import Dnp3.Model.OutstationTrace
import Dnp3.Proofs.FreezeAtTime
/-!
# C04 — OPERATE actuates only after its own matching, fresh, directly preceding SELECT

Shared infrastructure (`Frame`, `Pass`) is also used by `Dnp3.Proofs.OutstationC05`.
Every `Db.*` function is treated as opaque: nothing here unfolds them.
-/
namespace Dnp3.Proofs.C04
open Dnp3
open Dnp3.Proofs.FreezeAtTime

/-! ## 1. `matchOperate` -/

/-- **C04.1** `matchOperate` accepts iff sequence, frame id, object bytes and age all match. -/
theorem match_operate_iff (sel : Sel) (timeout now seq frameId : Nat) (objs : List Nat) :
    matchOperate sel timeout now seq frameId objs = none ↔
      (seq = seq4Next sel.seq ∧ frameId = (sel.frameId + 1) % 2 ^ 32 ∧ objs = sel.objects ∧
        now - sel.time ≤ timeout) := by
  unfold matchOperate
  constructor
  · intro h
    split at h <;> try contradiction
    split at h <;> try contradiction
    split at h <;> try contradiction
    split at h <;> try contradiction
    rename_i h1 h2 h3 h4
    refine ⟨?_, ?_, ?_, ?_⟩
    · exact (Classical.not_not.mp h1).symm
    · exact (Classical.not_not.mp h2).symm
    · exact (Classical.not_not.mp h3).symm
    · omega
  · rintro ⟨h1, h2, h3, h4⟩
    subst h1 h2 h3
    simp
    omega

/-- the status of a rejected OPERATE: `1` (Timeout) exactly when only the age check fails,
    `2` (NoSelect) when sequence, frame id or object bytes differ. -/
theorem match_operate_status (sel : Sel) (timeout now seq frameId : Nat) (objs : List Nat) (st : Nat)
    (h : matchOperate sel timeout now seq frameId objs = some st) :
    (st = 1 ∧ seq = seq4Next sel.seq ∧ frameId = (sel.frameId + 1) % 2 ^ 32 ∧ objs = sel.objects ∧
        timeout < now - sel.time) ∨
    (st = 2 ∧ ¬ (seq = seq4Next sel.seq ∧ frameId = (sel.frameId + 1) % 2 ^ 32 ∧ objs = sel.objects)) := by
  have e32 : (2:Nat) ^ 32 = 4294967296 := by decide
  rw [e32]
  unfold matchOperate at h
  split at h
  · right; refine ⟨by simpa using h.symm, fun hh => ?_⟩; rename_i h1; exact h1 hh.1.symm
  · split at h
    · right; refine ⟨by simpa using h.symm, fun hh => ?_⟩; rename_i h1; exact h1 hh.2.1.symm
    · split at h
      · right; refine ⟨by simpa using h.symm, fun hh => ?_⟩; rename_i h1; exact h1 hh.2.2.symm
      · split at h
        · rename_i h1 h2 h3 h4
          left
          exact ⟨by simpa using h.symm, (Classical.not_not.mp h1).symm, (Classical.not_not.mp h2).symm,
            (Classical.not_not.mp h3).symm, by omega⟩
        · contradiction

/-- a rejected OPERATE is never answered with status 0 (success) -/
theorem match_operate_status_ne_zero (sel : Sel) (timeout now seq frameId : Nat) (objs : List Nat) (st : Nat)
    (h : matchOperate sel timeout now seq frameId objs = some st) : st = 1 ∨ st = 2 := by
  rcases match_operate_status _ _ _ _ _ _ _ h with h | h <;> simp [h.1]

example : matchOperate ⟨3, 7, 100, [12, 1]⟩ 5000 5100 4 8 [12, 1] = none := by decide
example : matchOperate ⟨3, 7, 100, [12, 1]⟩ 5000 5101 4 8 [12, 1] = some 1 := by decide
example : matchOperate ⟨3, 7, 100, [12, 1]⟩ 5000 200 4 9 [12, 1] = some 2 := by decide

/-! ## 2. Infrastructure: executing callbacks, `Frame` (benign infrastructure steps) -/

/-- the "executing" outputs: callbacks that run a request against the application / control handler -/
def isExec : OOut → Bool
  | .cb (.control ..) => true
  | .cb (.writeTime _) => true
  | .cb .clearRestartIin => true
  | .cb .coldRestart => true
  | .cb .warmRestart => true
  | .cb (.freezeAll _) => true
  | .cb (.freezeRange ..) => true
  | .cb .beginFragment => true
  | .cb .endFragment => true
  | _ => false

/-- the accumulator a pass ends with -/
def accOf : StepRes → Acc
  | .blocked a => a
  | .panicked a => a

theorem finishStep_eq (r : StepRes) : finishStep r = accOf r := by cases r <;> rfl

/-- what duplicate detection (`classify`) reads of the last recorded request: its sequence number and
    fragment octets.  (The stored `response` is replaced by the continuation fragment when a
    multi-fragment response series advances during the solicited confirm wait.) -/
def lrKey (o : Option LastReq) : Option (Nat × List Nat) := o.map (fun lr => (lr.seq, lr.frag))

@[simp] theorem lrKey_map_response (o : Option LastReq) (r : Option Resp) :
    lrKey (o.map (fun lr => { lr with response := r })) = lrKey o := by
  cases o <;> rfl

/-- "the last recorded request has this sequence number and these octets" only depends on `lrKey` -/
theorem lrKey_dup {x y : Option LastReq} (h : lrKey x = lrKey y) (q : Nat) (d : List Nat) :
    (∃ l, x = some l ∧ l.seq = q ∧ l.frag = d) ↔ (∃ l, y = some l ∧ l.seq = q ∧ l.frag = d) := by
  cases x with
  | none =>
    cases y with
    | none => simp
    | some ly => simp [lrKey] at h
  | some lx =>
    cases y with
    | none => simp [lrKey] at h
    | some ly =>
      simp only [lrKey, Option.map_some, Option.some.injEq, Prod.mk.injEq] at h
      constructor
      · rintro ⟨l, hl, h1, h2⟩
        simp only [Option.some.injEq] at hl; subst hl
        exact ⟨ly, rfl, h.1 ▸ h1, h.2 ▸ h2⟩
      · rintro ⟨l, hl, h1, h2⟩
        simp only [Option.some.injEq] at hl; subst hl
        exact ⟨lx, rfl, h.1 ▸ h1, h.2 ▸ h2⟩

/-- `a'` extends `a` by infrastructure work only: the fields the control logic depends on are
    untouched, the retained fragment is kept or consumed, the sequence number and octets of `lastReq`
    (`lrKey`) are only rewritten by a deferred read, and every new output is benign (not an executing
    callback). -/
structure Frame (a a' : Acc) : Prop where
  select : a'.1.select = a.1.select
  now : a'.1.now = a.1.now
  cfg : a'.1.cfg = a.1.cfg
  frameId : a'.1.frameId = a.1.frameId
  pending : a'.1.pending = a.1.pending ∨ a'.1.pending = none
  keep : a.1.deferred = none → lrKey a'.1.lastReq = lrKey a.1.lastReq ∧ a'.1.deferred = none
  outs : ∃ l, a'.2 = a.2 ++ l ∧ ∀ o ∈ l, isExec o = false

theorem Frame.refl (a : Acc) : Frame a a :=
  ⟨rfl, rfl, rfl, rfl, .inl rfl, fun h => ⟨rfl, h⟩, [], by simp, by simp⟩

theorem Frame.trans {a b c : Acc} (h1 : Frame a b) (h2 : Frame b c) : Frame a c := by
  refine ⟨h2.select.trans h1.select, h2.now.trans h1.now, h2.cfg.trans h1.cfg,
    h2.frameId.trans h1.frameId, ?_, ?_, ?_⟩
  · rcases h2.pending with h | h
    · rcases h1.pending with h' | h'
      · exact .inl (h.trans h')
      · exact .inr (h.trans h')
    · exact .inr h
  · intro hd
    have k1 := h1.keep hd
    have k2 := h2.keep k1.2
    exact ⟨k2.1.trans k1.1, k2.2⟩
  · obtain ⟨l1, e1, p1⟩ := h1.outs
    obtain ⟨l2, e2, p2⟩ := h2.outs
    refine ⟨l1 ++ l2, by rw [e2, e1, List.append_assoc], ?_⟩
    intro o ho
    rcases List.mem_append.mp ho with h | h
    · exact p1 o h
    · exact p2 o h

/-- a pure state update that leaves the framed fields alone -/
theorem Frame.state {a : Acc} {s' : OState} (h1 : s'.select = a.1.select) (h2 : s'.now = a.1.now)
    (h3 : s'.cfg = a.1.cfg) (h4 : s'.frameId = a.1.frameId)
    (h5 : s'.pending = a.1.pending ∨ s'.pending = none)
    (h6 : a.1.deferred = none → lrKey s'.lastReq = lrKey a.1.lastReq ∧ s'.deferred = none) : Frame a (s', a.2) :=
  ⟨h1, h2, h3, h4, h5, h6, [], by simp, by simp⟩

theorem Frame.emit (a : Acc) (o : OOut) (h : isExec o = false) : Frame a (emit a o) :=
  ⟨rfl, rfl, rfl, rfl, .inl rfl, fun hd => ⟨rfl, hd⟩, [o], rfl, by simpa using h⟩

theorem Frame.emitCb (a : Acc) (c : Cb) (h : isExec (.cb c) = false) : Frame a (emitCb a c) :=
  Frame.emit a _ h


/-- close a `Frame` goal whose right-hand side is an explicit update/emit chain -/
macro "frame_simp" : tactic =>
  `(tactic| (refine ⟨?_, ?_, ?_, ?_, ?_, ?_, ?_⟩ <;> simp [Dnp3.emit, Dnp3.emitCb, isExec, onLinkActivity, accOf]))

theorem Frame.repeatSolicited (a : Acc) (dst : Nat) (r : Resp) : Frame a (repeatSolicited a dst r) := by
  unfold Dnp3.repeatSolicited
  frame_simp

theorem getResponseIin_frame {s s' : OState} {i1 i2 : Nat} (l : List OOut)
    (h : getResponseIin s = some (s', i1, i2)) : Frame (s, l) (s', l) := by
  unfold getResponseIin at h
  split at h
  · contradiction
  · rename_i c1 c2 c3 _
    simp only [Option.some.injEq, Prod.mk.injEq] at h
    obtain ⟨rfl, -, -⟩ := h
    split <;> (try split) <;> frame_simp

theorem Frame.writeSolicited {a a' : Acc} {dst : Nat} {r r' : Resp}
    (h : writeSolicited a dst r = some (a', r')) : Frame a a' := by
  unfold Dnp3.writeSolicited at h
  split at h
  · contradiction
  · rename_i s i1 i2 hg
    simp only [Option.some.injEq, Prod.mk.injEq] at h
    obtain ⟨rfl, -⟩ := h
    exact Frame.trans (getResponseIin_frame a.2 hg) (Frame.repeatSolicited _ _ _)


theorem Frame.repeatUnsolicited (a : Acc) (r : Resp) : Frame a (repeatUnsolicited a r) := by
  unfold Dnp3.repeatUnsolicited
  frame_simp

theorem Frame.writeUnsolicited {a a' : Acc} {r r' : Resp}
    (h : writeUnsolicited a r = some (a', r')) : Frame a a' := by
  unfold Dnp3.writeUnsolicited at h
  split at h
  · contradiction
  · rename_i s i1 i2 hg
    simp only [Option.some.injEq, Prod.mk.injEq] at h
    obtain ⟨rfl, -⟩ := h
    exact Frame.trans (getResponseIin_frame a.2 hg) (Frame.repeatUnsolicited _ _)

theorem formatReadResponse_frame (s : OState) (fir : Bool) (seq iin2 : Nat) (l : List OOut) :
    Frame (s, l) ((formatReadResponse s fir seq iin2).1, l) := by
  unfold formatReadResponse
  frame_simp

theorem foldl_emit_frame (ids : List Nat) (a : Acc) :
    Frame a (ids.foldl (fun a id => Dnp3.emitCb a (.eventCleared id)) a) := by
  induction ids generalizing a with
  | nil => exact Frame.refl a
  | cons x xs ih => exact Frame.trans (Frame.emitCb a _ rfl) (ih _)

theorem Frame.clearWrittenEvents (a : Acc) : Frame a (clearWrittenEvents a) := by
  unfold Dnp3.clearWrittenEvents
  refine Frame.trans (Frame.emitCb a .beginConfirm rfl) ?_
  refine Frame.trans ?_ (Frame.emitCb _ _ rfl)
  refine Frame.trans ?_ (foldl_emit_frame _ _)
  frame_simp

theorem Frame.writeErrorResponse {a a' : Acc} {dst : Nat} {bc : Bool} {seq : Option Nat}
    (h : writeErrorResponse a dst bc seq = some a') : Frame a a' := by
  unfold Dnp3.writeErrorResponse at h
  split at h
  · simp at h; subst h; exact Frame.refl _
  split at h
  · simp at h; subst h; exact Frame.refl _
  · split at h
    · contradiction
    · rename_i hw
      simp at h; subst h
      exact Frame.writeSolicited hw

theorem Frame.enterSolWait (a : Acc) (sr : Series) (c : SolCont) : Frame a (enterSolWait a sr c) := by
  unfold Dnp3.enterSolWait
  frame_simp

theorem Frame.startUnsolSeries {a a' : Acc} {r : Resp} {n : Bool}
    (h : startUnsolSeries a r n = some a') : Frame a a' := by
  unfold Dnp3.startUnsolSeries at h
  split at h
  · contradiction
  · rename_i a1 r1 hw
    simp at h; subst h
    refine Frame.trans (Frame.writeUnsolicited hw) ?_
    frame_simp

/-- a predicate on whatever accumulator a `checkUnsolicited`-shaped result carries -/
def OptSumP (P : Acc → Prop) : Option (Acc ⊕ (Acc × NextIdle)) → Prop
  | none => True
  | some (.inl a) => P a
  | some (.inr (a, _)) => P a

theorem checkUnsolicited_frame (a : Acc) : OptSumP (Frame a) (checkUnsolicited a) := by
  unfold Dnp3.checkUnsolicited
  dsimp only
  repeat' split
  all_goals first
    | trivial
    | exact Frame.refl _
    | (rename_i hs; refine Frame.trans ?_ (Frame.startUnsolSeries hs); frame_simp)
    | (simp only [OptSumP]; frame_simp)

theorem Frame.checkUnsolicited_inl {a a' : Acc} (h : checkUnsolicited a = some (.inl a')) : Frame a a' := by
  have := checkUnsolicited_frame a
  rw [h] at this; exact this

theorem Frame.checkUnsolicited_inr {a a' : Acc} {n : NextIdle}
    (h : checkUnsolicited a = some (.inr (a', n))) : Frame a a' := by
  have := checkUnsolicited_frame a
  rw [h] at this; exact this

theorem Frame.afterUnsolSeries (a : Acc) (n c : Bool) : Frame a (afterUnsolSeries a n c).1 := by
  unfold Dnp3.afterUnsolSeries
  split
  · frame_simp
  · split
    · refine Frame.trans (Frame.clearWrittenEvents a) ?_
      frame_simp
    · frame_simp


def OptSum2P (P : Acc → Prop) : Option (Acc ⊕ Acc) → Prop
  | none => True
  | some (.inl a) => P a
  | some (.inr a) => P a

theorem handleDeferredRead_frame (a : Acc) (next : NextIdle) :
    OptSum2P (Frame a) (handleDeferredRead a next) := by
  unfold Dnp3.handleDeferredRead
  split
  · exact Frame.refl _
  · rename_i d hd
    dsimp only
    split
    · trivial
    · rename_i a1 r1 hw
      have f1 := Frame.writeSolicited hw
      have hdn : ¬ a.1.deferred = none := by rw [hd]; simp
      split
      · refine Frame.trans ?_ (Frame.enterSolWait _ _ _)
        refine ⟨f1.select, f1.now, f1.cfg, f1.frameId, f1.pending, fun h => absurd h hdn, f1.outs⟩
      · refine ⟨f1.select, f1.now, f1.cfg, f1.frameId, f1.pending, fun h => absurd h hdn, f1.outs⟩

theorem Frame.finishPass (a : Acc) (next : NextIdle) : Frame a (finishPass a next) := by
  unfold Dnp3.finishPass
  repeat' split
  all_goals frame_simp

theorem popRequest_frame (s : OState) (l : List OOut) : Frame (s, l) ((popRequest s).1, l) := by
  unfold popRequest
  repeat' split
  all_goals frame_simp

theorem Frame.die (a : Acc) : Frame a (accOf (die a)) := by
  unfold Dnp3.die accOf
  frame_simp

/-! ## 3. The control-object loop (`ctlHeader.go`, `ctlAll`) -/

/-- what one run of the control loop does to a `CtlRun`: the state changes in `script` only,
    outputs are `beginFragment` / control callbacks of the given kind, a zero final status means
    every handler status was zero, and with `kind = none` nothing is called at all -/
structure CRel (kind : Option CtlKind) (r r' : CtlRun) : Prop where
  state : ∃ sc, r'.acc.1 = { r.acc.1 with script := sc }
  status : kind ≠ some .donr → r'.status = 0 → r.status = 0
  outs : ∃ l, r'.acc.2 = r.acc.2 ++ l ∧ ∀ o ∈ l, o = .cb .beginFragment ∨
    ∃ k g v i obj st, kind = some k ∧ o = .cb (.control k g v i obj st) ∧
      (kind ≠ some .donr → r'.status = 0 → st = 0)
  noCall : kind = none → r'.acc = r.acc
  cap : r'.cap = r.cap
  started : kind = none → r'.started = r.started

theorem CRel.refl (kind : Option CtlKind) (r : CtlRun) : CRel kind r r :=
  ⟨⟨r.acc.1.script, rfl⟩, fun _ h => h, ⟨[], by simp, by simp⟩, fun _ => rfl, rfl, fun _ => rfl⟩

theorem CRel.trans {kind : Option CtlKind} {a b c : CtlRun} (h1 : CRel kind a b) (h2 : CRel kind b c) :
    CRel kind a c := by
  refine ⟨?_, fun hk h => h1.status hk (h2.status hk h), ?_, fun hk => (h2.noCall hk).trans (h1.noCall hk),
    h2.cap.trans h1.cap, fun hk => (h2.started hk).trans (h1.started hk)⟩
  · obtain ⟨s1, e1⟩ := h1.state
    obtain ⟨s2, e2⟩ := h2.state
    exact ⟨s2, by rw [e2, e1]⟩
  · obtain ⟨l1, e1, p1⟩ := h1.outs
    obtain ⟨l2, e2, p2⟩ := h2.outs
    refine ⟨l1 ++ l2, by rw [e2, e1, List.append_assoc], ?_⟩
    intro o ho
    rcases List.mem_append.mp ho with h | h
    · rcases p1 o h with h | ⟨k, g, v, i, obj, st, hk, ho, hs⟩
      · exact .inl h
      · exact .inr ⟨k, g, v, i, obj, st, hk, ho, fun hd hc => hs hd (h2.status hd hc)⟩
    · exact p2 o h

theorem firstError_eq_zero {a b : Nat} (h : firstError a b = 0) : a = 0 ∧ b = 0 := by
  unfold firstError at h
  split at h
  · exact ⟨by assumption, h⟩
  · exact absurd h (by assumption)

theorem nextStatus_state (s : OState) : ∃ sc, (nextStatus s).1 = { s with script := sc } := by
  unfold nextStatus
  split
  · exact ⟨s.script, rfl⟩
  · exact ⟨_, rfl⟩

/-- `max_controls_per_request` not yet reached -/
def ctlAllowed (maxctl : Option Nat) (num : Nat) : Bool :=
  match maxctl with | none => true | some m => decide (num < m)

/-- the handler call for one control object (the `(r, st, called)` triple of `ctlHeader.go`) -/
def ctlCall (kind : Option CtlKind) (fs : Nat) (maxctl : Option Nat) (h : ObjHdr) (ix obj : List Nat)
    (r : CtlRun) : CtlRun × Nat :=
  match kind with
  | none => (r, fs)
  | some k =>
    if ctlAllowed maxctl r.num then
      let (s', st) := nextStatus r.acc.1
      let acc : Acc := (s', r.acc.2)
      let acc := if r.started then acc else emitCb acc .beginFragment
      let acc := emitCb acc (.control k h.group h.var (idxVal ix) obj st)
      ({ r with acc := acc, started := true }, st)
    else (r, 8)

theorem ctlHeader_go_nil (kind : Option CtlKind) (fs : Nat) (maxctl : Option Nat) (h : ObjHdr) (isz : Nat)
    (hb : List Nat) (r : CtlRun) (count : Nat) (ho body : List Nat) :
    ctlHeader.go kind fs maxctl h isz hb [] r count ho body = { r with out := r.out ++ ho ++ body } := by
  unfold ctlHeader.go; rfl

/-- the object header as first written by `PrefixWriter` (count patched later) -/
def ctlNewHdr (isz count : Nat) (hb ho : List Nat) : List Nat :=
  if count = 0 then hb ++ (if isz = 1 then [0] else [0, 0]) else ho

def ctlCnt (isz c : Nat) : List Nat := if isz = 1 then [c % 256] else [c % 256, c / 256 % 256]

theorem ctlHeader_go_cons (kind : Option CtlKind) (fs : Nat) (maxctl : Option Nat) (h : ObjHdr) (isz : Nat)
    (hb : List Nat) (ix obj : List Nat) (rest : List (List Nat × List Nat)) (r : CtlRun) (count : Nat)
    (ho body : List Nat) :
    ctlHeader.go kind fs maxctl h isz hb ((ix, obj) :: rest) r count ho body =
      if r.overflow = true then { r with out := r.out ++ ho ++ body } else
      if kind = some .donr then
        ctlHeader.go kind fs maxctl h isz hb rest
          { (ctlCall kind fs maxctl h ix obj r).1 with num := (ctlCall kind fs maxctl h ix obj r).1.num + 1 }
          count ho body
      else if (ctlCall kind fs maxctl h ix obj r).1.out.length + (ctlNewHdr isz count hb ho).length + body.length +
          (ix ++ withStatus obj (ctlCall kind fs maxctl h ix obj r).2).length >
            (ctlCall kind fs maxctl h ix obj r).1.cap then
        { (ctlCall kind fs maxctl h ix obj r).1 with
            overflow := true, out := (ctlCall kind fs maxctl h ix obj r).1.out ++ ho ++ body,
            num := (ctlCall kind fs maxctl h ix obj r).1.num + 1,
            status := firstError (ctlCall kind fs maxctl h ix obj r).1.status (ctlCall kind fs maxctl h ix obj r).2 }
      else
        ctlHeader.go kind fs maxctl h isz hb rest
          { (ctlCall kind fs maxctl h ix obj r).1 with
              num := (ctlCall kind fs maxctl h ix obj r).1.num + 1,
              status := firstError (ctlCall kind fs maxctl h ix obj r).1.status (ctlCall kind fs maxctl h ix obj r).2 }
          (count + 1) (hb ++ ctlCnt isz (count + 1))
          (body ++ (ix ++ withStatus obj (ctlCall kind fs maxctl h ix obj r).2)) := by
  conv => lhs; unfold ctlHeader.go
  unfold ctlCall ctlAllowed ctlNewHdr ctlCnt
  cases kind with
  | none => rfl
  | some k =>
    cases maxctl with
    | none => rfl
    | some m =>
      dsimp only
      by_cases hlt : r.num < m
      · simp only [hlt, decide_true, if_true]
      · simp only [hlt, decide_false, if_false, Bool.false_eq_true]

theorem ctlCall_spec (kind : Option CtlKind) (fs : Nat) (maxctl : Option Nat) (h : ObjHdr) (ix obj : List Nat)
    (r : CtlRun) :
    (∃ sc, (ctlCall kind fs maxctl h ix obj r).1.acc.1 = { r.acc.1 with script := sc }) ∧
    (ctlCall kind fs maxctl h ix obj r).1.status = r.status ∧
    (ctlCall kind fs maxctl h ix obj r).1.cap = r.cap ∧
    (kind = none → ctlCall kind fs maxctl h ix obj r = (r, fs)) ∧
    ∃ l, (ctlCall kind fs maxctl h ix obj r).1.acc.2 = r.acc.2 ++ l ∧ ∀ o ∈ l, o = .cb .beginFragment ∨
      ∃ k, kind = some k ∧
        o = .cb (.control k h.group h.var (idxVal ix) obj (ctlCall kind fs maxctl h ix obj r).2) := by
  unfold ctlCall
  cases kind with
  | none => exact ⟨⟨_, rfl⟩, rfl, rfl, fun _ => rfl, [], by simp, by simp⟩
  | some k =>
    dsimp only
    by_cases ha : ctlAllowed maxctl r.num = true
    · simp only [ha, if_true]
      obtain ⟨sc, hsc⟩ := nextStatus_state r.acc.1
      cases hs : r.started
      · refine ⟨⟨sc, by simpa [emitCb, emit] using hsc⟩, by simp, by simp, fun hk => by simp at hk, ?_⟩
        exact ⟨[.cb .beginFragment, .cb (.control k h.group h.var (idxVal ix) obj (nextStatus r.acc.1).2)],
          by simp [emitCb, emit], by simp⟩
      · refine ⟨⟨sc, by simpa [emitCb, emit] using hsc⟩, by simp, by simp, fun hk => by simp at hk, ?_⟩
        exact ⟨[.cb (.control k h.group h.var (idxVal ix) obj (nextStatus r.acc.1).2)],
          by simp [emitCb, emit], by simp⟩
    · simp only [ha, if_false, Bool.false_eq_true]
      exact ⟨⟨_, rfl⟩, by simp, by simp, fun hk => by simp at hk, [], by simp, by simp⟩

theorem ctlHeader_go_crel (kind : Option CtlKind) (fs : Nat) (maxctl : Option Nat) (h : ObjHdr) (isz : Nat)
    (hb : List Nat) (items : List (List Nat × List Nat)) (r : CtlRun) (count : Nat) (ho body : List Nat) :
    CRel kind r (ctlHeader.go kind fs maxctl h isz hb items r count ho body) := by
  induction items generalizing r count ho body with
  | nil =>
    rw [ctlHeader_go_nil]
    exact ⟨⟨r.acc.1.script, rfl⟩, fun _ h => h, ⟨[], by simp, by simp⟩, fun _ => rfl, rfl, fun _ => rfl⟩
  | cons it rest ih =>
    obtain ⟨ix, obj⟩ := it
    rw [ctlHeader_go_cons]
    obtain ⟨hst, hstatus, hcap, hnone, l, hl, hlp⟩ := ctlCall_spec kind fs maxctl h ix obj r
    generalize ctlCall kind fs maxctl h ix obj r = p at *
    by_cases h1 : r.overflow = true
    · rw [if_pos h1]
      exact ⟨⟨r.acc.1.script, rfl⟩, fun _ h => h, ⟨[], by simp, by simp⟩, fun _ => rfl, rfl, fun _ => rfl⟩
    rw [if_neg h1]
    by_cases hk : kind = some .donr
    · rw [if_pos hk]
      refine CRel.trans ?_ (ih _ _ _ _)
      refine ⟨hst, fun hd => absurd hk hd, ⟨l, hl, ?_⟩, fun hn => by rw [hnone hn], hcap, fun hn => by rw [hnone hn]⟩
      intro o ho
      rcases hlp o ho with h | ⟨k, hk', ho'⟩
      · exact .inl h
      · exact .inr ⟨k, _, _, _, _, _, hk', ho', fun hd => absurd hk hd⟩
    rw [if_neg hk]
    have step : ∀ (num : Nat) (out : List Nat) (ov : Bool),
        CRel kind r { p.1 with overflow := ov, out := out, num := num, status := firstError p.1.status p.2 } := by
      intro num out ov
      refine ⟨hst, fun _ hs => ?_, ⟨l, hl, ?_⟩, fun hn => by rw [hnone hn], hcap, fun hn => by rw [hnone hn]⟩
      · rw [← hstatus]; exact (firstError_eq_zero hs).1
      · intro o ho
        rcases hlp o ho with h | ⟨k, hk', ho'⟩
        · exact .inl h
        · exact .inr ⟨k, _, _, _, _, _, hk', ho', fun _ hs => (firstError_eq_zero hs).2⟩
    split
    · exact step _ _ _
    · exact CRel.trans (step _ _ _) (ih _ _ _ _)

theorem ctlHeader_crel (kind : Option CtlKind) (fs : Nat) (maxctl : Option Nat) (h : ObjHdr) (r : CtlRun) :
    CRel kind r (ctlHeader kind fs maxctl h r) := by
  unfold ctlHeader
  exact ctlHeader_go_crel ..

theorem ctlAll_crel (kind : Option CtlKind) (fs : Nat) (maxctl : Option Nat) (hs : List ObjHdr) (r : CtlRun) :
    CRel kind r (ctlAll kind fs maxctl hs r) := by
  unfold ctlAll
  induction hs generalizing r with
  | nil => exact CRel.refl _ _
  | cons h hs ih =>
    rw [List.foldl_cons]
    refine CRel.trans ?_ (ih _)
    split
    · exact CRel.refl _ _
    · exact ctlHeader_crel ..

/-! ## 4. Request handlers: what they leave alone (`HFrame`) -/

/-- control-handler callbacks (`ControlSupport::select` / `operate`) -/
def isControl : OOut → Bool
  | .cb (.control ..) => true
  | _ => false

/-- handler-level frame: the handlers of the non-control functions never touch these fields and only
    append outputs, none of which is a control callback -/
structure HFrame (a a' : Acc) : Prop where
  select : a'.1.select = a.1.select
  now : a'.1.now = a.1.now
  cfg : a'.1.cfg = a.1.cfg
  frameId : a'.1.frameId = a.1.frameId
  pending : a'.1.pending = a.1.pending
  unsolBuf : a'.1.unsolBuf = a.1.unsolBuf
  mode : a'.1.mode = a.1.mode
  deferred : a'.1.deferred = a.1.deferred
  lastReq : a'.1.lastReq = a.1.lastReq
  outs : ∃ l, a'.2 = a.2 ++ l ∧ ∀ o ∈ l, isControl o = false

theorem HFrame.refl (a : Acc) : HFrame a a := ⟨rfl, rfl, rfl, rfl, rfl, rfl, rfl, rfl, rfl, [], by simp, by simp⟩

theorem HFrame.trans {a b c : Acc} (h1 : HFrame a b) (h2 : HFrame b c) : HFrame a c := by
  refine ⟨h2.select.trans h1.select, h2.now.trans h1.now, h2.cfg.trans h1.cfg, h2.frameId.trans h1.frameId,
    h2.pending.trans h1.pending, h2.unsolBuf.trans h1.unsolBuf, h2.mode.trans h1.mode,
    h2.deferred.trans h1.deferred, h2.lastReq.trans h1.lastReq, ?_⟩
  obtain ⟨l1, e1, p1⟩ := h1.outs
  obtain ⟨l2, e2, p2⟩ := h2.outs
  refine ⟨l1 ++ l2, by rw [e2, e1, List.append_assoc], ?_⟩
  intro o ho
  rcases List.mem_append.mp ho with h | h
  · exact p1 o h
  · exact p2 o h

macro "hframe_simp" : tactic =>
  `(tactic| (refine ⟨?_, ?_, ?_, ?_, ?_, ?_, ?_, ?_, ?_, ?_⟩ <;> simp [Dnp3.emit, Dnp3.emitCb, onLinkActivity, isControl]))

theorem HFrame.emitCb (a : Acc) (c : Cb) (h : isControl (.cb c) = false) : HFrame a (emitCb a c) := by
  hframe_simp
  exact h

theorem foldl_hframe {α β : Type} (f : Acc × β → α → Acc × β) (hf : ∀ p x, HFrame p.1 (f p x).1)
    (l : List α) (p : Acc × β) : HFrame p.1 (l.foldl f p).1 := by
  induction l generalizing p with
  | nil => exact HFrame.refl _
  | cons x xs ih => exact HFrame.trans (hf p x) (ih _)

theorem handleWriteIin_hframe (a : Acc) (start stop : Nat) (data : List Nat) :
    HFrame a (handleWriteIin a start stop data).1 := by
  unfold handleWriteIin
  refine foldl_hframe _ ?_ _ (a, 0)
  intro p x
  dsimp only
  repeat' split
  all_goals hframe_simp

theorem handleWriteHeader_hframe (a : Acc) (h : ObjHdr) : HFrame a (handleWriteHeader a h).1 := by
  unfold handleWriteHeader
  repeat' split
  all_goals first | exact handleWriteIin_hframe .. | (hframe_simp; done) | (dsimp only; split <;> hframe_simp)

theorem handleWrite_hframe (a : Acc) (seq : Nat) (hs : List ObjHdr) : HFrame a (handleWrite a seq hs).1 := by
  unfold handleWrite
  show HFrame (a, 0).1 (List.foldl _ (a, 0) hs).1
  refine foldl_hframe _ (fun p x => ?_) hs (a, 0)
  exact handleWriteHeader_hframe p.1 x

theorem handleFreezeHeader_hframe (a : Acc) (k : FreezeKind) (h : ObjHdr) :
    HFrame a (handleFreezeHeader a k h).1 := by
  unfold handleFreezeHeader
  repeat' split
  all_goals hframe_simp

theorem handleFreeze_hframe (a : Acc) (seq : Nat) (k : FreezeKind) (hs : List ObjHdr) :
    HFrame a (handleFreeze a seq k hs).1 := by
  unfold handleFreeze
  show HFrame (a, 0).1 (List.foldl _ (a, 0) hs).1
  refine foldl_hframe _ (fun p x => ?_) hs (a, 0)
  exact handleFreezeHeader_hframe p.1 k x

theorem handleFreezeAtTime_hframe (a : Acc) (seq : Nat) (hs : List ObjHdr) :
    HFrame a (handleFreezeAtTime a seq hs).1 :=
  handleFreezeAtTime_inv (fun b => HFrame a b)
    (fun b h hb => HFrame.trans hb (handleFreezeHeader_hframe b .atTime h)) a seq hs (HFrame.refl _)

theorem handleEnableDisable_hframe (a : Acc) (en : Bool) (seq : Nat) (hs : List ObjHdr) :
    HFrame a (handleEnableDisable a en seq hs).1 := by
  unfold handleEnableDisable
  split
  · exact HFrame.refl _
  · dsimp only
    have key : ∀ (l : List ObjHdr) (p : OState × Nat), HFrame (p.1, a.2)
        ((l.foldl (fun (p : OState × Nat) h =>
          if h.group = 60 ∧ h.qual = 0x06 ∧ h.var = 2 then ({ p.1 with en1 := en }, p.2)
          else if h.group = 60 ∧ h.qual = 0x06 ∧ h.var = 3 then ({ p.1 with en2 := en }, p.2)
          else if h.group = 60 ∧ h.qual = 0x06 ∧ h.var = 4 then ({ p.1 with en3 := en }, p.2)
          else (p.1, p.2 ||| iin2NoFunc)) p).1, a.2) := by
      intro l
      induction l with
      | nil => intro p; exact HFrame.refl _
      | cons x xs ih =>
        intro p
        rw [List.foldl_cons]
        refine HFrame.trans ?_ (ih _)
        repeat' split
        all_goals hframe_simp
    exact key hs (a.1, 0)

theorem countOfOne_hframe (a : Acc) (seq g v value : Nat) : HFrame a (countOfOne a seq g v value).1 := by
  unfold countOfOne
  hframe_simp

theorem handleRestart_hframe (a : Acc) (seq : Nat) (name : Cb) (hn : isControl (.cb name) = false) :
    HFrame a (handleRestart a seq name).1 := by
  unfold handleRestart
  dsimp only
  repeat' split
  all_goals first
    | exact HFrame.trans (HFrame.emitCb a name hn) (countOfOne_hframe ..)
    | exact HFrame.emitCb a name hn

/-! ## 5. `handleControls` -/

/-- the callback kind each control function uses -/
def kindOf (func : Nat) : CtlKind :=
  if func = 3 then .select else if func = 4 then .sbo else if func = 5 then .dop else .donr

/-- the OPERATE in `a`'s state is accepted: a SELECT is stored and it matches -/
def OperateOk (s : OState) (seq frameId : Nat) (raw : List Nat) : Prop :=
  ∃ sel, s.select = some sel ∧ matchOperate sel s.cfg.stimeout s.now seq frameId raw = none

/-- outputs a control function may emit -/
def CtlOut (func : Nat) (zero : Prop) (o : OOut) : Prop :=
  o = .cb .beginFragment ∨ o = .cb .endFragment ∨
    ∃ g v i obj st, o = .cb (.control (kindOf func) g v i obj st) ∧ (zero → st = 0)

theorem ctlFinish_spec (r : CtlRun) :
    (ctlFinish r).acc.1 = r.acc.1 ∧ (ctlFinish r).out = r.out ∧ (ctlFinish r).status = r.status ∧
    (ctlFinish r).overflow = r.overflow ∧
    ((ctlFinish r).acc.2 = r.acc.2 ∨ (r.started = true ∧ (ctlFinish r).acc.2 = r.acc.2 ++ [.cb .endFragment])) := by
  unfold ctlFinish
  split
  · rename_i h
    exact ⟨rfl, rfl, rfl, rfl, .inr ⟨h, rfl⟩⟩
  · exact ⟨rfl, rfl, rfl, rfl, .inl rfl⟩

/-- run the loop of kind `k` from a fresh `CtlRun` and finish: state shape and outputs -/
theorem ctl_run_spec (k : Option CtlKind) (fs : Nat) (maxctl : Option Nat) (hs : List ObjHdr) (a : Acc) (cap : Nat) :
    let r := ctlFinish (ctlAll k fs maxctl hs { acc := a, cap := cap })
    (∃ sc, r.acc.1 = { a.1 with script := sc }) ∧
    (k = none → r.acc = a) ∧
    ∃ l, r.acc.2 = a.2 ++ l ∧ ∀ o ∈ l, o = .cb .beginFragment ∨ o = .cb .endFragment ∨
      ∃ k' g v i obj st, k = some k' ∧ o = .cb (.control k' g v i obj st) ∧
        (k ≠ some .donr → r.status = 0 → st = 0) := by
  intro r
  have c := ctlAll_crel k fs maxctl hs { acc := a, cap := cap }
  obtain ⟨e1, e2, e3, e4, e5⟩ := ctlFinish_spec (ctlAll k fs maxctl hs { acc := a, cap := cap })
  obtain ⟨sc, hsc⟩ := c.state
  obtain ⟨l, hl, hlp⟩ := c.outs
  have hlp' : ∀ o ∈ l, o = .cb .beginFragment ∨ o = .cb .endFragment ∨
      ∃ k' g v i obj st, k = some k' ∧ o = .cb (.control k' g v i obj st) ∧
        (k ≠ some .donr → r.status = 0 → st = 0) := by
    intro o ho
    rcases hlp o ho with h | ⟨k', g, v, i, obj, st, h1, h2, h3⟩
    · exact .inl h
    · exact .inr (.inr ⟨k', g, v, i, obj, st, h1, h2, fun hd hz => h3 hd (e3 ▸ hz)⟩)
  refine ⟨⟨sc, e1.trans hsc⟩, ?_, ?_⟩
  · intro hk
    have hacc := c.noCall hk
    have hst := c.started hk
    rcases e5 with h | ⟨h, _⟩
    · show (r.acc.1, r.acc.2) = a
      rw [e1, h, hacc]
    · rw [hst] at h; simp at h
  · rcases e5 with h | ⟨_, h⟩
    · exact ⟨l, h.trans hl, hlp'⟩
    · refine ⟨l ++ [.cb .endFragment], by rw [h, hl, List.append_assoc], ?_⟩
      intro o ho
      rcases List.mem_append.mp ho with h | h
      · exact hlp' o h
      · simp at h; exact .inr (.inl h)

/-- **state, select and outputs of `handleControls`** (any state):
    * only `script`, `solBuf` and `select` change;
    * `select` is set (`ok = true`) only by function 3 and then to `⟨seq, frameId, now, raw⟩`, and in that
      case every handler status was 0;
    * outputs are `beginFragment`/`endFragment`/control callbacks of the function's own kind;
    * a function-4 request that is not `OperateOk` emits nothing at all. -/
theorem handleControls_spec {a a' : Acc} {func seq frameId : Nat} {hs : List ObjHdr} {raw : List Nat}
    {r : Option Resp} (h : handleControls a func seq frameId hs raw = some (a', r)) :
    ∃ (sc : Script) (sb : List Nat) (ok : Bool),
      a'.1 = { a.1 with script := sc, solBuf := sb,
                        select := if ok then some ⟨seq, frameId, a.1.now, raw⟩ else a.1.select } ∧
      (ok = true → func = 3) ∧
      ∃ l, a'.2 = a.2 ++ l ∧ (∀ o ∈ l, CtlOut func (ok = true) o) ∧
        (func = 4 → ¬ OperateOk a.1 seq frameId raw → l = []) := by
  unfold handleControls at h
  split at h
  · simp only [Option.some.injEq, Prod.mk.injEq] at h
    obtain ⟨rfl, -⟩ := h
    exact ⟨a.1.script, a.1.solBuf, false, rfl, by simp, [], by simp, by simp, fun _ _ => rfl⟩
  · dsimp only at h
    split at h
    · -- SELECT
      rename_i hf
      obtain ⟨⟨sc, hsc⟩, -, l, hl, hlp⟩ := ctl_run_spec (some .select) 0 a.1.cfg.maxctl hs a (a.1.cfg.sol - 4)
      simp only [Option.some.injEq, Prod.mk.injEq] at h
      obtain ⟨rfl, -⟩ := h
      dsimp only at hsc hl hlp ⊢
      generalize ctlFinish (ctlAll (some .select) 0 a.1.cfg.maxctl hs { acc := a, cap := a.1.cfg.sol - 4 }) = R at *
      by_cases hok : ((!R.overflow) = true ∧ R.status = 0)
      · refine ⟨sc, writeAt a.1.solBuf 4 R.out, true, ?_, fun _ => hf, l, hl, ?_, fun h4 => by omega⟩
        · rw [if_pos hok, hsc]; rfl
        · intro o ho
          rcases hlp o ho with h | h | ⟨k', g, v, i, obj, st, h1, h2, h3⟩
          · exact .inl h
          · exact .inr (.inl h)
          · simp only [Option.some.injEq] at h1; subst h1
            refine .inr (.inr ⟨g, v, i, obj, st, ?_, fun _ => h3 (by simp) hok.2⟩)
            rw [h2]; simp [kindOf, hf]
      · refine ⟨sc, writeAt a.1.solBuf 4 R.out, false, ?_, by simp, l, hl, ?_, fun h4 => by omega⟩
        · rw [if_neg hok, hsc]; rfl
        · intro o ho
          rcases hlp o ho with h | h | ⟨k', g, v, i, obj, st, h1, h2, h3⟩
          · exact .inl h
          · exact .inr (.inl h)
          · simp only [Option.some.injEq] at h1; subst h1
            refine .inr (.inr ⟨g, v, i, obj, st, ?_, by simp⟩)
            rw [h2]; simp [kindOf, hf]
    · rename_i hf3
      split at h
      · -- OPERATE
        rename_i hf
        split at h
        · -- rejected
          rename_i st hv
          obtain ⟨⟨sc, hsc⟩, hnone, l, hl, hlp⟩ := ctl_run_spec none st none hs a (a.1.cfg.sol - 4)
          simp only [Option.some.injEq, Prod.mk.injEq] at h
          obtain ⟨rfl, -⟩ := h
          have hacc := hnone rfl
          dsimp only at hacc ⊢
          generalize ctlFinish (ctlAll none st none hs { acc := a, cap := a.1.cfg.sol - 4 }) = R at *
          refine ⟨a.1.script, writeAt a.1.solBuf 4 R.out, false, ?_, by simp, [], ?_, by simp, fun _ _ => rfl⟩
          · rw [hacc]; rfl
          · rw [hacc]; simp
        · -- accepted
          rename_i hv
          obtain ⟨⟨sc, hsc⟩, -, l, hl, hlp⟩ := ctl_run_spec (some .sbo) 0 a.1.cfg.maxctl hs a (a.1.cfg.sol - 4)
          simp only [Option.some.injEq, Prod.mk.injEq] at h
          obtain ⟨rfl, -⟩ := h
          dsimp only at hsc hl hlp ⊢
          generalize ctlFinish (ctlAll (some .sbo) 0 a.1.cfg.maxctl hs { acc := a, cap := a.1.cfg.sol - 4 }) = R at *
          refine ⟨sc, writeAt a.1.solBuf 4 R.out, false, ?_, by simp, l, hl, ?_, fun _ hno => ?_⟩
          · rw [hsc]; rfl
          · intro o ho
            rcases hlp o ho with h | h | ⟨k', g, v, i, obj, st, h1, h2, h3⟩
            · exact .inl h
            · exact .inr (.inl h)
            · simp only [Option.some.injEq] at h1; subst h1
              refine .inr (.inr ⟨g, v, i, obj, st, ?_, by simp⟩)
              rw [h2]; simp [kindOf, hf]
          · exfalso
            apply hno
            cases hsel : a.1.select with
            | none => simp [hsel] at hv
            | some sel => exact ⟨sel, hsel, by simpa [hsel] using hv⟩
      · rename_i hf4
        split at h
        · -- DIRECT OPERATE
          rename_i hf
          obtain ⟨⟨sc, hsc⟩, -, l, hl, hlp⟩ := ctl_run_spec (some .dop) 0 a.1.cfg.maxctl hs a (a.1.cfg.sol - 4)
          simp only [Option.some.injEq, Prod.mk.injEq] at h
          obtain ⟨rfl, -⟩ := h
          dsimp only at hsc hl hlp ⊢
          generalize ctlFinish (ctlAll (some .dop) 0 a.1.cfg.maxctl hs { acc := a, cap := a.1.cfg.sol - 4 }) = R at *
          refine ⟨sc, writeAt a.1.solBuf 4 R.out, false, ?_, by simp, l, hl, ?_, fun h4 => by omega⟩
          · rw [hsc]; rfl
          · intro o ho
            rcases hlp o ho with h | h | ⟨k', g, v, i, obj, st, h1, h2, h3⟩
            · exact .inl h
            · exact .inr (.inl h)
            · simp only [Option.some.injEq] at h1; subst h1
              refine .inr (.inr ⟨g, v, i, obj, st, ?_, by simp⟩)
              rw [h2]; simp [kindOf, hf]
        · -- DIRECT OPERATE NO ACK
          rename_i hf5
          obtain ⟨⟨sc, hsc⟩, -, l, hl, hlp⟩ := ctl_run_spec (some .donr) 0 a.1.cfg.maxctl hs a (a.1.cfg.sol - 4)
          simp only [Option.some.injEq, Prod.mk.injEq] at h
          obtain ⟨rfl, -⟩ := h
          dsimp only at hsc hl hlp ⊢
          refine ⟨sc, a.1.solBuf, false, ?_, by simp, l, hl, ?_, fun h4 => absurd h4 hf4⟩
          · rw [hsc]; rfl
          · intro o ho
            rcases hlp o ho with h | h | ⟨k', g, v, i, obj, st, h1, h2, h3⟩
            · exact .inl h
            · exact .inr (.inl h)
            · simp only [Option.some.injEq] at h1; subst h1
              refine .inr (.inr ⟨g, v, i, obj, st, ?_, by simp⟩)
              rw [h2]; simp [kindOf, hf3, hf4, hf5]

/-! ## 6. `handleNonRead`, `processBroadcast` -/

/-- what a request handler does (`handleNonRead`, also `processBroadcast`): the listed fields are
    untouched; `select` is set only by a fully successful function 3; control callbacks only come
    from the four control functions, with the function's own kind; a rejected OPERATE emits nothing -/
structure HSpec (a a' : Acc) (func seq fid : Nat) (raw : List Nat) : Prop where
  now : a'.1.now = a.1.now
  cfg : a'.1.cfg = a.1.cfg
  frameId : a'.1.frameId = a.1.frameId
  pending : a'.1.pending = a.1.pending
  unsolBuf : a'.1.unsolBuf = a.1.unsolBuf
  mode : a'.1.mode = a.1.mode
  deferred : a'.1.deferred = a.1.deferred
  lastReq : a'.1.lastReq = a.1.lastReq
  sel : ∃ ok : Bool,
    a'.1.select = (if ok then some ⟨seq, fid, a.1.now, raw⟩ else a.1.select) ∧ (ok = true → func = 3) ∧
    ∃ l, a'.2 = a.2 ++ l ∧
      (∀ o ∈ l, isControl o = true →
        (func = 3 ∨ func = 4 ∨ func = 5 ∨ func = 6) ∧ CtlOut func (ok = true) o) ∧
      (func = 4 → ¬ OperateOk a.1 seq fid raw → l = [])

theorem HSpec.of_hframe {a a' : Acc} {func seq frameId : Nat} {raw : List Nat} (h : HFrame a a')
    (hf : func ≠ 4) : HSpec a a' func seq frameId raw := by
  obtain ⟨l, hl, hlp⟩ := h.outs
  refine ⟨h.now, h.cfg, h.frameId, h.pending, h.unsolBuf, h.mode, h.deferred, h.lastReq,
    false, by simpa using h.select, by simp, l, hl, ?_, fun h4 => absurd h4 hf⟩
  intro o ho hc
  rw [hlp o ho] at hc; contradiction

theorem HSpec.of_controls {a a' : Acc} {func seq frameId : Nat} {hs : List ObjHdr} {raw : List Nat}
    {r : Option Resp} (h : handleControls a func seq frameId hs raw = some (a', r))
    (hf : func = 3 ∨ func = 4 ∨ func = 5 ∨ func = 6) : HSpec a a' func seq frameId raw := by
  obtain ⟨sc, sb, ok, hst, hok, l, hl, hlp, hrej⟩ := handleControls_spec h
  refine ⟨by simp [hst], by simp [hst], by simp [hst], by simp [hst], by simp [hst], by simp [hst],
    by simp [hst], by simp [hst], ok, by simp [hst], hok, l, hl, fun o ho _ => ⟨hf, hlp o ho⟩, hrej⟩

/-- finish a leaf `hres : some (X, _) = some (a1, _)` of `handleNonRead` with an `HFrame` fact for `X` -/
local macro "nr_leaf" hres:ident : tactic => `(tactic| (
    try dsimp only at $hres:ident
    simp only [Option.some.injEq, Prod.mk.injEq] at $hres:ident
    obtain ⟨hh, -⟩ := $hres
    subst hh
    refine HSpec.of_hframe ?_ (by omega)
    first
      | exact handleWrite_hframe ..
      | exact countOfOne_hframe ..
      | exact handleRestart_hframe _ _ _ rfl
      | exact handleFreeze_hframe ..
      | exact handleFreezeAtTime_hframe ..
      | exact handleEnableDisable_hframe ..
      | exact HFrame.refl _
      | hframe_simp))

/-- the dispatch table of `handleNonRead` (its `res`) -/
def nrRes (a : Acc) (func seq frameId : Nat) (hs : List ObjHdr) (raw : List Nat) : Option (Acc × Option Resp) :=
    if func = 2 then let (a, r) := handleWrite a seq hs; some (a, some r)
    else if func = 23 then let (a, r) := countOfOne a seq 52 2 a.1.script.delayMs; some (a, some r)
    else if func = 24 then some (({ a.1 with lastRecorded := some a.1.now }, a.2), some (emptySolicited seq 0))
    else if func = 13 then let (a, r) := handleRestart a seq .coldRestart; some (a, some r)
    else if func = 14 then let (a, r) := handleRestart a seq .warmRestart; some (a, some r)
    else if func = 3 ∨ func = 4 ∨ func = 5 ∨ func = 6 then handleControls a func seq frameId hs raw
    else if func = 7 then let (a, r) := handleFreeze a seq .immediate hs; some (a, some r)
    else if func = 8 then let (a, _) := handleFreeze a seq .immediate hs; some (a, none)
    else if func = 9 then let (a, r) := handleFreeze a seq .clear hs; some (a, some r)
    else if func = 10 then let (a, _) := handleFreeze a seq .clear hs; some (a, none)
    else if func = 11 then let (a, r) := handleFreezeAtTime a seq hs; some (a, some r)
    else if func = 12 then let (a, _) := handleFreezeAtTime a seq hs; some (a, none)
    else if func = 20 then let (a, r) := handleEnableDisable a true seq hs; some (a, some r)
    else if func = 21 then let (a, r) := handleEnableDisable a false seq hs; some (a, some r)
    else some (a, some (emptySolicited seq iin2NoFunc))

theorem handleNonRead_eq (a : Acc) (func seq frameId : Nat) (hs : List ObjHdr) (raw : List Nat) :
    handleNonRead a func seq frameId hs raw =
      match nrRes a func seq frameId hs raw with
      | none => none
      | some (a, none) => some (a, none)
      | some (a, some r) =>
        some (a, some { r with iin2 := r.iin2 ||| (if objectsAllowed func then 0 else if raw.isEmpty then 0 else iin2ParamError) }) :=
  rfl

theorem handleNonRead_res {a a1 : Acc} {func seq frameId : Nat} {hs : List ObjHdr} {raw : List Nat}
    {r1 : Option Resp} (hres : nrRes a func seq frameId hs raw = some (a1, r1)) :
    HSpec a a1 func seq frameId raw := by
  unfold nrRes at hres
  by_cases h2 : func = 2
  · rw [if_pos h2] at hres; nr_leaf hres
  rw [if_neg h2] at hres
  by_cases h23 : func = 23
  · rw [if_pos h23] at hres; nr_leaf hres
  rw [if_neg h23] at hres
  by_cases h24 : func = 24
  · rw [if_pos h24] at hres; nr_leaf hres
  rw [if_neg h24] at hres
  by_cases h13 : func = 13
  · rw [if_pos h13] at hres; nr_leaf hres
  rw [if_neg h13] at hres
  by_cases h14 : func = 14
  · rw [if_pos h14] at hres; nr_leaf hres
  rw [if_neg h14] at hres
  by_cases hc : func = 3 ∨ func = 4 ∨ func = 5 ∨ func = 6
  · rw [if_pos hc] at hres; exact HSpec.of_controls hres hc
  rw [if_neg hc] at hres
  by_cases h7 : func = 7
  · rw [if_pos h7] at hres; nr_leaf hres
  rw [if_neg h7] at hres
  by_cases h8 : func = 8
  · rw [if_pos h8] at hres; nr_leaf hres
  rw [if_neg h8] at hres
  by_cases h9 : func = 9
  · rw [if_pos h9] at hres; nr_leaf hres
  rw [if_neg h9] at hres
  by_cases h10 : func = 10
  · rw [if_pos h10] at hres; nr_leaf hres
  rw [if_neg h10] at hres
  by_cases h11 : func = 11
  · rw [if_pos h11] at hres; nr_leaf hres
  rw [if_neg h11] at hres
  by_cases h12 : func = 12
  · rw [if_pos h12] at hres; nr_leaf hres
  rw [if_neg h12] at hres
  by_cases h20 : func = 20
  · rw [if_pos h20] at hres; nr_leaf hres
  rw [if_neg h20] at hres
  by_cases h21 : func = 21
  · rw [if_pos h21] at hres; nr_leaf hres
  rw [if_neg h21] at hres
  nr_leaf hres

theorem handleNonRead_spec {a a' : Acc} {func seq frameId : Nat} {hs : List ObjHdr} {raw : List Nat}
    {r : Option Resp} (h : handleNonRead a func seq frameId hs raw = some (a', r)) :
    HSpec a a' func seq frameId raw := by
  rw [handleNonRead_eq] at h
  cases hres : nrRes a func seq frameId hs raw with
  | none => rw [hres] at h; contradiction
  | some p =>
    obtain ⟨a1, r1⟩ := p
    rw [hres] at h
    cases r1 with
    | none =>
      simp only [Option.some.injEq, Prod.mk.injEq] at h
      obtain ⟨rfl, -⟩ := h
      exact handleNonRead_res hres
    | some r1 =>
      simp only [Option.some.injEq, Prod.mk.injEq] at h
      obtain ⟨rfl, -⟩ := h
      exact handleNonRead_res hres

/-- an actuation with `OperateType::SelectBeforeOperate` -/
def isSbo : OOut → Bool
  | .cb (.control .sbo ..) => true
  | _ => false

theorem isSbo_isControl {o : OOut} (h : isSbo o = true) : isControl o = true := by
  unfold isSbo at h
  split at h
  · rfl
  · contradiction

/-- what `processBroadcast` does: like a handler, but `select` is never touched and no
    select-before-operate actuation is possible -/
structure BSpec (a a' : Acc) : Prop where
  select : a'.1.select = a.1.select
  now : a'.1.now = a.1.now
  cfg : a'.1.cfg = a.1.cfg
  frameId : a'.1.frameId = a.1.frameId
  pending : a'.1.pending = a.1.pending
  unsolBuf : a'.1.unsolBuf = a.1.unsolBuf
  mode : a'.1.mode = a.1.mode
  deferred : a'.1.deferred = a.1.deferred
  lastReq : a'.1.lastReq = a.1.lastReq
  outs : ∃ l, a'.2 = a.2 ++ l ∧ ∀ o ∈ l, isSbo o = false

theorem BSpec.of_hframe {a a' : Acc} (h : HFrame a a') : BSpec a a' := by
  obtain ⟨l, hl, hlp⟩ := h.outs
  refine ⟨h.select, h.now, h.cfg, h.frameId, h.pending, h.unsolBuf, h.mode, h.deferred, h.lastReq, l, hl, ?_⟩
  intro o ho
  cases hs : isSbo o
  · rfl
  · have := isSbo_isControl hs
    rw [hlp o ho] at this; contradiction

theorem BSpec.trans {a b c : Acc} (h1 : BSpec a b) (h2 : BSpec b c) : BSpec a c := by
  refine ⟨h2.select.trans h1.select, h2.now.trans h1.now, h2.cfg.trans h1.cfg, h2.frameId.trans h1.frameId,
    h2.pending.trans h1.pending, h2.unsolBuf.trans h1.unsolBuf, h2.mode.trans h1.mode,
    h2.deferred.trans h1.deferred, h2.lastReq.trans h1.lastReq, ?_⟩
  obtain ⟨l1, e1, p1⟩ := h1.outs
  obtain ⟨l2, e2, p2⟩ := h2.outs
  refine ⟨l1 ++ l2, by rw [e2, e1, List.append_assoc], ?_⟩
  intro o ho
  rcases List.mem_append.mp ho with h | h
  · exact p1 o h
  · exact p2 o h

theorem BSpec.of_controls6 {a a' : Acc} {seq frameId : Nat} {hs : List ObjHdr} {raw : List Nat}
    {r : Option Resp} (h : handleControls a 6 seq frameId hs raw = some (a', r)) : BSpec a a' := by
  obtain ⟨sc, sb, ok, hst, hok, l, hl, hlp, -⟩ := handleControls_spec h
  have hok' : ok = false := by
    cases ok
    · rfl
    · exact absurd (hok rfl) (by decide)
  subst hok'
  refine ⟨by simp [hst], by simp [hst], by simp [hst], by simp [hst], by simp [hst], by simp [hst],
    by simp [hst], by simp [hst], by simp [hst], l, hl, ?_⟩
  intro o ho
  rcases hlp o ho with h | h | ⟨g, v, i, obj, st, h, -⟩ <;> subst h <;> rfl

def OptP (P : Acc → Prop) : Option Acc → Prop
  | none => True
  | some a => P a

theorem OptP.get {P : Acc → Prop} {o : Option Acc} {a : Acc} (h : OptP P o) (e : o = some a) : P a := by
  subst e; exact h

theorem processBroadcast_optp (a : Acc) (f : Frag) (mode : Nat) (ctrl : AppCtrl) (func : Nat)
    (objects : Except Nat (List ObjHdr)) (raw : List Nat) :
    OptP (BSpec a) (processBroadcast a f mode ctrl func objects raw) := by
  unfold processBroadcast
  dsimp only
  have h0 : BSpec a ({ a.1 with lastBroadcast := some mode }, a.2) := BSpec.of_hframe (by hframe_simp)
  repeat' split
  all_goals first
    | trivial
    | (rename_i hc
       exact BSpec.trans h0 (BSpec.trans (BSpec.of_controls6 hc) (BSpec.of_hframe (HFrame.emitCb _ _ rfl))))
    | (refine BSpec.trans h0 (BSpec.of_hframe ?_)
       first
         | exact HFrame.emitCb _ _ rfl
         | exact HFrame.trans (handleWrite_hframe ..) (HFrame.emitCb _ _ rfl)
         | exact HFrame.trans (handleFreeze_hframe ..) (HFrame.emitCb _ _ rfl)
         | exact HFrame.trans (handleFreezeAtTime_hframe ..) (HFrame.emitCb _ _ rfl)
         | exact HFrame.trans (handleEnableDisable_hframe ..) (HFrame.emitCb _ _ rfl)
         | (refine HFrame.trans ?_ (HFrame.emitCb _ _ rfl); hframe_simp; done))

theorem processBroadcast_spec {a a' : Acc} {f : Frag} {mode : Nat} {ctrl : AppCtrl} {func : Nat}
    {objects : Except Nat (List ObjHdr)} {raw : List Nat}
    (h : processBroadcast a f mode ctrl func objects raw = some a') : BSpec a a' :=
  (processBroadcast_optp a f mode ctrl func objects raw).get h

/-! ## 7. `handleRequestFromIdle` -/

theorem getResponseIin_shape {s s' : OState} {i1 i2 : Nat} (h : getResponseIin s = some (s', i1, i2)) :
    ∃ lb, s' = { s with lastBroadcast := lb } := by
  unfold getResponseIin at h
  split at h
  · contradiction
  · simp only [Option.some.injEq, Prod.mk.injEq] at h
    obtain ⟨rfl, -, -⟩ := h
    split
    · split
      · exact ⟨_, rfl⟩
      · exact ⟨s.lastBroadcast, rfl⟩
    · exact ⟨s.lastBroadcast, rfl⟩

/-- `writeSolicited` changes `lastBroadcast` and `solBuf` only and transmits exactly one fragment -/
theorem writeSolicited_shape {a a' : Acc} {dst : Nat} {r r' : Resp} (h : writeSolicited a dst r = some (a', r')) :
    ∃ lb sb bytes, a' = ({ a.1 with lastBroadcast := lb, solBuf := sb }, a.2 ++ [.tx dst bytes]) := by
  unfold writeSolicited at h
  split at h
  · contradiction
  · rename_i s i1 i2 hg
    obtain ⟨lb, rfl⟩ := getResponseIin_shape hg
    simp only [Option.some.injEq, Prod.mk.injEq] at h
    obtain ⟨rfl, -⟩ := h
    exact ⟨lb, _, _, rfl⟩

/-- the `result` of `handleRequestFromIdle` -/
def idleResult (a : Acc) (f : Frag) (ctrl : AppCtrl) (func : Nat) (objects : Except Nat (List ObjHdr))
    (raw : List Nat) : Option (Acc × Option (LastReq × Bool)) :=
  let seq := ctrl.seq
  match classify a.1 f ctrl func objects with
    | .malformed e => some (a, some (⟨seq, f.data, some (emptySolicited seq e), none⟩, false))
    | .newRead hs | .repeatRead _ hs =>
      let (db, iin2) := dbSelectAll a.1.db hs
      let (s, r, series) := formatReadResponse { a.1 with db := db } true seq iin2
      some ((s, a.2), some (⟨seq, f.data, some r, series⟩, false))
    | .newNonRead hs =>
      match handleNonRead a func seq f.id hs raw with
      | none => none
      | some (a, r) => some (a, some (⟨seq, f.data, r, none⟩, false))
    | .repeatNonRead last =>
      let s := a.1
      let s := match s.select with
        | some sel =>
          if func = 3 ∧ sel.seq = seq ∧ (sel.frameId + 1) % 4294967296 = f.id ∧ sel.objects = raw then
            { s with select := some { sel with frameId := f.id } }
          else s
        | none => s
      some ((s, a.2), some (⟨seq, f.data, last, s.lastReq.bind (·.series)⟩, true))
    | .broadcast mode =>
      match processBroadcast a f mode ctrl func objects raw with
      | none => none
      | some a => some (a, none)
    | .solConfirm _ | .unsolConfirm _ => some (a, none)

/-- the writing part of `handleRequestFromIdle` -/
def idleTail (f : Frag) (result : Option (Acc × Option (LastReq × Bool))) : Option (Acc × Option Series) :=
  match result with
  | none => none
  | some (a, none) => some (a, none)
  | some (a, some (lr, echo)) =>
    match lr.response with
    | none => some (({ a.1 with lastReq := some lr }, a.2), lr.series)
    | some r =>
      if echo then
        let a := repeatSolicited a f.src r
        some (({ a.1 with lastReq := some lr }, a.2), lr.series)
      else
      match writeSolicited a f.src r with
      | none => none
      | some (a, r) =>
        let series := if r.ctrl.con ∧ lr.series.isNone then some ⟨r.ctrl.seq, true⟩ else lr.series
        some (({ a.1 with lastReq := some { lr with response := some r, series := series } }, a.2), series)

theorem handleRequestFromIdle_eq (a : Acc) (f : Frag) (ctrl : AppCtrl) (func : Nat)
    (objects : Except Nat (List ObjHdr)) (raw : List Nat) :
    handleRequestFromIdle a f ctrl func objects raw = idleTail f (idleResult a f ctrl func objects raw) := rfl

/-- the tail only rewrites `lastReq`, `lastBroadcast`, `solBuf` and transmits at most one fragment -/
theorem idleTail_shape {f : Frag} {res : Option (Acc × Option (LastReq × Bool))} {a' : Acc} {sr : Option Series}
    (h : idleTail f res = some (a', sr)) :
    ∃ a1 olr lq lb sb l, res = some (a1, olr) ∧
      a' = ({ a1.1 with lastReq := lq, lastBroadcast := lb, solBuf := sb }, a1.2 ++ l) ∧
      (olr = none → lq = a1.1.lastReq) ∧
      (∀ lr e, olr = some (lr, e) → lrKey lq = some (lr.seq, lr.frag)) ∧
      (l = [] ∨ ∃ bytes, l = [.tx f.src bytes]) := by
  unfold idleTail at h
  split at h
  · contradiction
  · rename_i a1
    simp only [Option.some.injEq, Prod.mk.injEq] at h
    obtain ⟨rfl, -⟩ := h
    exact ⟨a1, none, a1.1.lastReq, a1.1.lastBroadcast, a1.1.solBuf, [], rfl, by simp, fun _ => rfl,
      fun _ _ h => by simp at h, .inl rfl⟩
  · rename_i a1 lr echo
    have hkey : ∀ lr' e, some (lr, echo) = some (lr', e) → lrKey (some lr) = some (lr'.seq, lr'.frag) := by
      intro lr' e h
      simp only [Option.some.injEq, Prod.mk.injEq] at h
      rw [← h.1]; rfl
    split at h
    · simp only [Option.some.injEq, Prod.mk.injEq] at h
      obtain ⟨rfl, -⟩ := h
      exact ⟨a1, some (lr, echo), some lr, a1.1.lastBroadcast, a1.1.solBuf, [], rfl, by simp, by simp, hkey,
        .inl rfl⟩
    · split at h
      · simp only [Option.some.injEq, Prod.mk.injEq] at h
        obtain ⟨rfl, -⟩ := h
        exact ⟨a1, some (lr, echo), some lr, a1.1.lastBroadcast, _, [.tx f.src _], rfl, rfl, by simp, hkey,
          .inr ⟨_, rfl⟩⟩
      · split at h
        · contradiction
        · rename_i a2 r2 hw
          obtain ⟨lb, sb, bytes, rfl⟩ := writeSolicited_shape hw
          simp only [Option.some.injEq, Prod.mk.injEq] at h
          obtain ⟨rfl, -⟩ := h
          refine ⟨a1, some (lr, echo), _, lb, sb, [.tx f.src bytes], rfl, rfl, by simp, ?_, .inr ⟨bytes, rfl⟩⟩
          intro lr' e h
          simp only [Option.some.injEq, Prod.mk.injEq] at h
          rw [← h.1]; rfl

/-- every `.control .select` callback in `l` reports status 0 -/
def SelectAllZero (l : List OOut) : Prop :=
  ∀ g v i obj st, OOut.cb (.control .select g v i obj st) ∈ l → st = 0

/-- how `select` may change when one request is handled: (keep) unchanged, (a) set by a fully
    successful function 3, (b) re-based by the `repeatNonRead` branch: only for a retransmission of the
    stored SELECT itself (function 3, its sequence number, its object octets) that directly follows it
    (`update_frame_id_on_repeat`; defect D9 is repaired) -/
inductive SelChange (s : OState) (f : Frag) (ctrl : AppCtrl) (func : Nat) (raw : List Nat) (l : List OOut)
    (fresh rebase : Prop) (sel' : Option Sel) : Prop where
  | keep : sel' = s.select → SelChange s f ctrl func raw l fresh rebase sel'
  | set : fresh → func = 3 → sel' = some ⟨ctrl.seq, f.id, s.now, raw⟩ → SelectAllZero l →
      SelChange s f ctrl func raw l fresh rebase sel'
  | rebase (sel : Sel) : rebase → s.select = some sel →
      (func = 3 ∧ sel.seq = ctrl.seq ∧ (sel.frameId + 1) % 4294967296 = f.id ∧ sel.objects = raw) →
      sel' = some { sel with frameId := f.id } →
      SelChange s f ctrl func raw l fresh rebase sel'

/-- summary of one request handled by `handleRequestFromIdle` (also used for a request handled during
    the unsolicited confirm wait, where `deferred` may be cleared, or set by a READ) -/
structure IdleSpec (a a' : Acc) (f : Frag) (ctrl : AppCtrl) (func : Nat) (objects : Except Nat (List ObjHdr))
    (raw : List Nat) : Prop where
  now : a'.1.now = a.1.now
  cfg : a'.1.cfg = a.1.cfg
  frameId : a'.1.frameId = a.1.frameId
  pending : a'.1.pending = a.1.pending
  mode : a'.1.mode = a.1.mode
  unsolBuf : a'.1.unsolBuf = a.1.unsolBuf
  deferred : a'.1.deferred = a.1.deferred ∨ a'.1.deferred = none ∨ func = 1
  outs : ∃ l, a'.2 = a.2 ++ l ∧
    (∀ o ∈ l, isSbo o = true →
      func = 4 ∧ (∃ hs, classify a.1 f ctrl func objects = .newNonRead hs) ∧ OperateOk a.1 ctrl.seq f.id raw) ∧
    ((∃ resp, classify a.1 f ctrl func objects = .repeatNonRead resp) → ∀ o ∈ l, isExec o = false) ∧
    SelChange a.1 f ctrl func raw l (∃ hs, classify a.1 f ctrl func objects = .newNonRead hs)
      (∃ resp, classify a.1 f ctrl func objects = .repeatNonRead resp) a'.1.select

theorem ctlOut_sbo {func : Nat} {z : Prop} {o : OOut} (h : CtlOut func z o) (hs : isSbo o = true) : func = 4 := by
  rcases h with h | h | ⟨g, v, i, obj, st, h, -⟩
  · subst h; contradiction
  · subst h; contradiction
  · subst h
    unfold kindOf at hs
    by_cases h3 : func = 3
    · simp [h3, isSbo] at hs
    · by_cases h4 : func = 4
      · exact h4
      · by_cases h5 : func = 5 <;> simp [h3, h4, h5, isSbo] at hs

theorem ctlOut_select_zero {func : Nat} {z : Prop} {g v i st : Nat} {obj : List Nat}
    (h : CtlOut func z (.cb (.control .select g v i obj st))) (hz : z) : st = 0 := by
  rcases h with h | h | ⟨g', v', i', obj', st', h, h0⟩
  · simp at h
  · simp at h
  · simp only [OOut.cb.injEq, Cb.control.injEq] at h
    rw [h.2.2.2.2.2]; exact h0 hz

theorem idle_spec {a a' : Acc} {f : Frag} {ctrl : AppCtrl} {func : Nat} {objects : Except Nat (List ObjHdr)}
    {raw : List Nat} {sr : Option Series}
    (h : handleRequestFromIdle a f ctrl func objects raw = some (a', sr)) :
    IdleSpec a a' f ctrl func objects raw := by
  rw [handleRequestFromIdle_eq] at h
  obtain ⟨a1, olr, lq, lb, sb, l2, hres, rfl, -, -, hl2⟩ := idleTail_shape h
  have hl2b : ∀ o ∈ l2, isExec o = false ∧ isSbo o = false := by
    intro o ho
    rcases hl2 with h | ⟨b, h⟩ <;> subst h <;> simp at ho
    subst ho; exact ⟨rfl, rfl⟩
  clear h hl2
  unfold idleResult at hres
  dsimp only at hres
  cases hc : classify a.1 f ctrl func objects with
  | malformed e =>
    rw [hc] at hres
    simp only [Option.some.injEq, Prod.mk.injEq] at hres
    obtain ⟨rfl, -⟩ := hres
    exact ⟨rfl, rfl, rfl, rfl, rfl, rfl, .inl rfl, l2, rfl, fun o ho hs => by simp [(hl2b o ho).2] at hs,
      fun ⟨_, h⟩ => (by rw [hc] at h; cases h), .keep rfl⟩
  | newRead hs =>
    rw [hc] at hres
    simp only [Option.some.injEq, Prod.mk.injEq] at hres
    obtain ⟨rfl, -⟩ := hres
    have fr := formatReadResponse_frame { a.1 with db := (dbSelectAll a.1.db hs).1 } true ctrl.seq
      (dbSelectAll a.1.db hs).2 a.2
    exact ⟨rfl, rfl, rfl, rfl, rfl, rfl, .inl rfl, l2, rfl, fun o ho hs => by simp [(hl2b o ho).2] at hs,
      fun ⟨_, h⟩ => (by rw [hc] at h; cases h), .keep rfl⟩
  | repeatRead resp hs =>
    rw [hc] at hres
    simp only [Option.some.injEq, Prod.mk.injEq] at hres
    obtain ⟨rfl, -⟩ := hres
    exact ⟨rfl, rfl, rfl, rfl, rfl, rfl, .inl rfl, l2, rfl, fun o ho hs => by simp [(hl2b o ho).2] at hs,
      fun ⟨_, h⟩ => (by rw [hc] at h; cases h), .keep rfl⟩
  | newNonRead hs =>
    rw [hc] at hres
    dsimp only at hres
    split at hres
    · contradiction
    · rename_i a2 r2 hn
      simp only [Option.some.injEq, Prod.mk.injEq] at hres
      obtain ⟨rfl, -⟩ := hres
      have sp := handleNonRead_spec hn
      obtain ⟨ok, hsel, hok, l1, hl1, hctl, hrej⟩ := sp.sel
      refine ⟨sp.now, sp.cfg, sp.frameId, sp.pending, sp.mode, sp.unsolBuf, .inl sp.deferred, l1 ++ l2,
        by simp [hl1], ?_, fun ⟨_, h⟩ => (by rw [hc] at h; cases h), ?_⟩
      · intro o ho hsb
        rcases List.mem_append.mp ho with ho | ho
        · have hf4 : func = 4 := ctlOut_sbo (hctl o ho (isSbo_isControl hsb)).2 hsb
          refine ⟨hf4, ⟨hs, hc⟩, ?_⟩
          apply Classical.byContradiction
          intro hno
          rw [hrej hf4 hno] at ho
          simp at ho
        · simp [(hl2b o ho).2] at hsb
      · cases ok with
        | false => exact .keep (by simpa using hsel)
        | true =>
          refine .set ⟨hs, hc⟩ (hok rfl) (by simpa using hsel) ?_
          intro g v i obj st hm
          rcases List.mem_append.mp hm with hm | hm
          · exact ctlOut_select_zero (hctl _ hm rfl).2 rfl
          · have := (hl2b _ hm).1; simp [isExec] at this
  | repeatNonRead resp =>
    rw [hc] at hres
    simp only [Option.some.injEq, Prod.mk.injEq] at hres
    obtain ⟨rfl, -⟩ := hres
    refine ⟨?_, ?_, ?_, ?_, ?_, ?_, .inl ?_, l2, rfl, fun o ho hs => by simp [(hl2b o ho).2] at hs,
      fun _ o ho => (hl2b o ho).1, ?_⟩
    any_goals (dsimp only; split <;> (try split) <;> rfl)
    cases hsel : a.1.select with
    | none => exact .keep rfl
    | some sel =>
      dsimp only
      by_cases hcond : func = 3 ∧ sel.seq = ctrl.seq ∧ (sel.frameId + 1) % 4294967296 = f.id ∧ sel.objects = raw
      · rw [if_pos hcond]; exact .rebase sel ⟨resp, hc⟩ hsel hcond rfl
      · rw [if_neg hcond]; exact .keep rfl
  | broadcast m =>
    rw [hc] at hres
    dsimp only at hres
    split at hres
    · contradiction
    · rename_i a2 hb
      simp only [Option.some.injEq, Prod.mk.injEq] at hres
      obtain ⟨rfl, -⟩ := hres
      have sp := processBroadcast_spec hb
      obtain ⟨l1, hl1, hl1p⟩ := sp.outs
      refine ⟨sp.now, sp.cfg, sp.frameId, sp.pending, sp.mode, sp.unsolBuf, .inl sp.deferred, l1 ++ l2,
        by simp [hl1], ?_, fun ⟨_, h⟩ => (by rw [hc] at h; cases h), .keep sp.select⟩
      intro o ho hs
      rcases List.mem_append.mp ho with ho | ho
      · simp [hl1p o ho] at hs
      · simp [(hl2b o ho).2] at hs
  | solConfirm s =>
    rw [hc] at hres
    simp only [Option.some.injEq, Prod.mk.injEq] at hres
    obtain ⟨rfl, -⟩ := hres
    exact ⟨rfl, rfl, rfl, rfl, rfl, rfl, .inl rfl, l2, rfl, fun o ho hs => by simp [(hl2b o ho).2] at hs,
      fun ⟨_, h⟩ => (by rw [hc] at h; cases h), .keep rfl⟩
  | unsolConfirm s =>
    rw [hc] at hres
    simp only [Option.some.injEq, Prod.mk.injEq] at hres
    obtain ⟨rfl, -⟩ := hres
    exact ⟨rfl, rfl, rfl, rfl, rfl, rfl, .inl rfl, l2, rfl, fun o ho hs => by simp [(hl2b o ho).2] at hs,
      fun ⟨_, h⟩ => (by rw [hc] at h; cases h), .keep rfl⟩

/-! ## 8. `Pass`: everything a run-to-quiescence does is infrastructure steps plus request events -/

/-- the state a popped request is classified and handled in -/
def popped (a : Acc) : Acc := (onLinkActivity { a.1 with pending := none }, a.2)

/-- `Pass a c`: `c` is reached from `a` by `Frame` steps and request events; a request event consumes
    the retained fragment `a.1.pending = some f` and is summarised by `IdleSpec` -/
inductive Pass : Acc → Acc → Prop where
  | refl (a : Acc) : Pass a a
  | frame {a b c : Acc} : Frame a b → Pass b c → Pass a c
  | req {a b c : Acc} (f : Frag) (ctrl : AppCtrl) (func : Nat) (objects : Except Nat (List ObjHdr))
      (raw : List Nat) : a.1.pending = some f → parseRequest f.data = .request ctrl func objects raw →
      IdleSpec (popped a) b f ctrl func objects raw → Pass b c → Pass a c

theorem Pass.trans {a b c : Acc} (h1 : Pass a b) (h2 : Pass b c) : Pass a c := by
  induction h1 with
  | refl => exact h2
  | frame hf _ ih => exact .frame hf (ih h2)
  | req f ctrl func objects raw hp hq hs _ ih => exact .req f ctrl func objects raw hp hq hs (ih h2)

theorem Pass.of_frame {a b : Acc} (h : Frame a b) : Pass a b := .frame h (.refl _)

theorem Pass.frame_right {a b c : Acc} (h1 : Pass a b) (h2 : Frame b c) : Pass a c :=
  h1.trans (.of_frame h2)

theorem popRequest_request {s s' : OState} {f : Frag} {ctrl : AppCtrl} {func : Nat}
    {objects : Except Nat (List ObjHdr)} {raw : List Nat}
    (h : popRequest s = (s', .request f ctrl func objects raw)) :
    s' = s ∧ s.pending = some f ∧ parseRequest f.data = .request ctrl func objects raw := by
  unfold popRequest at h
  split at h
  · simp at h
  · rename_i f' hp
    split at h
    · simp at h
    · split at h
      · simp at h
      · simp at h
      · rename_i c fn ob rw hq
        simp only [Prod.mk.injEq, Popped.request.injEq] at h
        obtain ⟨rfl, rfl, rfl, rfl, rfl, rfl⟩ := h
        exact ⟨rfl, hp, hq⟩

theorem afterDeferred_pass {k : Acc → StepRes} (hk : ∀ a, Pass a (accOf (k a))) (a : Acc) (next : NextIdle) :
    Pass a (accOf (afterDeferred k a next)) := by
  unfold afterDeferred
  dsimp only
  split
  · exact .frame (Frame.finishPass a next) (hk _)
  · exact .of_frame (Frame.finishPass a next)

theorem afterUnsol_pass {k : Acc → StepRes} (hk : ∀ a, Pass a (accOf (k a))) (a : Acc) (next : NextIdle) :
    Pass a (accOf (afterUnsol k a next)) := by
  unfold afterUnsol
  have hd := handleDeferredRead_frame a next
  split
  · exact .of_frame (Frame.die a)
  · rename_i a' he
    rw [he] at hd
    exact .of_frame hd
  · rename_i a' he
    rw [he] at hd
    exact .frame hd (afterDeferred_pass hk _ _)

theorem afterRequest_pass {k : Acc → StepRes} (hk : ∀ a, Pass a (accOf (k a))) (a : Acc) :
    Pass a (accOf (afterRequest k a)) := by
  unfold afterRequest
  split
  · exact .of_frame (Frame.die a)
  · rename_i a' he
    exact .of_frame (Frame.checkUnsolicited_inl he)
  · rename_i a' next he
    exact .frame (Frame.checkUnsolicited_inr he) (afterUnsol_pass hk _ _)

/-- the body of one `runPass` iteration, from the state with `notified` cleared -/
def runPassBody (fuel : Nat) (a0 : Acc) : StepRes :=
  match popRequest a0.1 with
  | (s, .nothing) => afterRequest (runPass fuel) ({ s with pending := none }, a0.2)
  | (s, .error src bc seq) =>
    let a : Acc := (onLinkActivity { s with pending := none }, a0.2)
    match writeErrorResponse a src bc seq with
    | none => die a
    | some a => afterRequest (runPass fuel) a
  | (s, .request f ctrl func objects raw) =>
    let a : Acc := (onLinkActivity { s with pending := none }, a0.2)
    match handleRequestFromIdle a f ctrl func objects raw with
    | none => die a
    | some (a, some series) => .blocked (enterSolWait a series .fromRequest)
    | some (a, none) => afterRequest (runPass fuel) a

theorem runPass_succ (fuel : Nat) (a : Acc) :
    runPass (fuel + 1) a = runPassBody fuel ({ a.1 with notified := false }, a.2) := by
  rw [runPass]
  unfold runPassBody
  dsimp only
  cases hp : popRequest { a.1 with notified := false } with
  | mk s p => cases p <;> rfl

theorem runPassBody_pass {fuel : Nat} (ih : ∀ a, Pass a (accOf (runPass fuel a))) (a0 : Acc) :
    Pass a0 (accOf (runPassBody fuel a0)) := by
  unfold runPassBody
  cases hp : popRequest a0.1 with
  | mk s p =>
    have fp : Frame a0 (s, a0.2) := by
      have := popRequest_frame a0.1 a0.2
      rw [hp] at this; exact this
    cases p with
    | nothing =>
      dsimp only
      refine .frame fp (.frame (b := ({ s with pending := none }, a0.2)) (by frame_simp) (afterRequest_pass ih _))
    | error src bc seq =>
      dsimp only
      refine .frame fp (.frame (b := (onLinkActivity { s with pending := none }, a0.2)) (by frame_simp) ?_)
      split
      · exact .of_frame (Frame.die _)
      · rename_i a' hw
        exact .frame (Frame.writeErrorResponse hw) (afterRequest_pass ih _)
    | request f ctrl func objects raw =>
      dsimp only
      obtain ⟨rfl, hpend, hparse⟩ := popRequest_request hp
      split
      · exact .frame (b := popped a0) (by unfold popped; frame_simp) (.of_frame (Frame.die _))
      · rename_i a' sr hh
        exact .req f ctrl func objects raw hpend hparse (idle_spec hh) (.of_frame (Frame.enterSolWait _ _ _))
      · rename_i a' hh
        exact .req f ctrl func objects raw hpend hparse (idle_spec hh) (afterRequest_pass ih _)

theorem runPass_pass (fuel : Nat) (a : Acc) : Pass a (accOf (runPass fuel a)) := by
  induction fuel generalizing a with
  | zero =>
    unfold runPass
    exact .of_frame (Frame.emitCb a _ rfl)
  | succ n ih =>
    rw [runPass_succ]
    exact .frame (by frame_simp) (runPassBody_pass ih _)

theorem resumeAfterSol_pass (a : Acc) (cont : SolCont) : Pass a (accOf (resumeAfterSol a cont)) := by
  unfold resumeAfterSol
  split
  · exact afterRequest_pass (runPass_pass _) _
  · exact .frame (b := ({ a.1 with deferred := none }, a.2)) (by frame_simp)
      (afterDeferred_pass (runPass_pass _) _ _)

theorem abortSeries_pass (a : Acc) (cont : SolCont) : Pass a (accOf (abortSeries a cont)) := by
  unfold abortSeries
  exact .frame (b := ({ a.1 with db := a.1.db.reset }, a.2)) (by frame_simp) (resumeAfterSol_pass _ _)

theorem solWaitTimeout_pass (a : Acc) (sr : Series) (cont : SolCont) :
    Pass a (accOf (solWaitTimeout a sr cont)) := by
  unfold solWaitTimeout
  exact .frame (Frame.emitCb a _ rfl) (abortSeries_pass _ _)

theorem finishUnsol_pass (a : Acc) (isNull confirmed : Bool) : Pass a (accOf (finishUnsol a isNull confirmed)) := by
  unfold finishUnsol
  exact .frame (Frame.afterUnsolSeries a isNull confirmed) (afterUnsol_pass (runPass_pass _) _ _)

theorem unsolWaitTimeout_pass (a : Acc) (resp : Resp) (isNull : Bool) (retries : Option Nat) :
    Pass a (accOf (unsolWaitTimeout a resp isNull retries)) := by
  have key : ∀ (retry : Bool) (r' : Option Nat), Pass a (accOf (
      if !retry then finishUnsol (emitCb a (.unsolTimeout resp.ctrl.seq retry)) isNull false else
      .blocked ({ (repeatUnsolicited (emitCb a (.unsolTimeout resp.ctrl.seq retry)) resp).1 with
          mode := .unsolWait resp isNull r'
            ((repeatUnsolicited (emitCb a (.unsolTimeout resp.ctrl.seq retry)) resp).1.now +
              (repeatUnsolicited (emitCb a (.unsolTimeout resp.ctrl.seq retry)) resp).1.cfg.ctimeout) },
        (repeatUnsolicited (emitCb a (.unsolTimeout resp.ctrl.seq retry)) resp).2))) := by
    intro retry r'
    have f1 : Frame a (emitCb a (.unsolTimeout resp.ctrl.seq retry)) := Frame.emitCb a _ rfl
    split
    · exact .frame f1 (finishUnsol_pass _ _ _)
    · refine .frame f1 (.frame (Frame.repeatUnsolicited _ resp) (.of_frame ?_))
      frame_simp
  unfold unsolWaitTimeout
  exact key _ _

theorem solWaitOnFragment_pass (a : Acc) (sr : Series) (dl : Nat) (cont : SolCont) :
    Pass a (accOf (solWaitOnFragment a sr dl cont)) := by
  unfold solWaitOnFragment
  cases hp : popRequest a.1 with
  | mk s p =>
    have fp : Frame a (s, a.2) := by
      have := popRequest_frame a.1 a.2
      rw [hp] at this; exact this
    refine .frame fp ?_
    have hnew : ∀ a1 : Acc, Pass a1 (accOf (abortSeries (emitCb a1 .solNewRequest) cont)) :=
      fun a1 => .frame (Frame.emitCb a1 _ rfl) (abortSeries_pass _ _)
    cases p with
    | nothing => dsimp only; exact .of_frame (by frame_simp)
    | error src bc seq =>
      dsimp only
      exact .frame (b := (onLinkActivity s, a.2)) (by frame_simp) (hnew _)
    | request f ctrl func objects raw =>
      dsimp only
      refine .frame (b := (onLinkActivity s, a.2)) (by frame_simp) ?_
      split
      any_goals exact hnew _
      · -- repeatRead
        rename_i resp hs hc
        refine .frame (b := ({ onLinkActivity s with pending := none }, a.2)) (by frame_simp) ?_
        split
        · rename_i r
          refine .frame (Frame.repeatSolicited _ f.src r) ?_
          generalize repeatSolicited _ f.src r = a2
          exact .of_frame (by frame_simp)
        · exact .of_frame (by frame_simp)
      · -- unsolConfirm
        exact .frame (b := ({ onLinkActivity s with pending := none }, a.2)) (by frame_simp)
          (.of_frame (Frame.emitCb _ _ rfl))
      · -- solConfirm
        refine .frame (b := ({ onLinkActivity s with pending := none }, a.2)) (by frame_simp) ?_
        split
        · exact .of_frame (Frame.emitCb _ _ rfl)
        · refine .frame (Frame.emitCb _ (.solConfirmed sr.ecsn) rfl) ?_
          refine .frame (b := ({ (emitCb ({ onLinkActivity s with pending := none }, a.2) (.solConfirmed sr.ecsn)).1
            with lastBroadcast := none }, (emitCb ({ onLinkActivity s with pending := none }, a.2) (.solConfirmed sr.ecsn)).2))
            (by frame_simp) ?_
          refine .frame (Frame.clearWrittenEvents _) ?_
          generalize clearWrittenEvents _ = a4
          split
          · exact resumeAfterSol_pass _ _
          · split
            · exact .of_frame (Frame.die _)
            · rename_i a5 r5 hw
              refine .frame (formatReadResponse_frame a4.1 false _ 0 a4.2) (.frame (Frame.writeSolicited hw) ?_)
              -- the fragment just sent becomes the stored response (`lrKey` is kept)
              split
              · have fr : Frame a5
                    ({ a5.1 with lastReq := a5.1.lastReq.map (fun lr => { lr with response := some r5 }) }, a5.2) := by
                  frame_simp
                exact .frame fr (resumeAfterSol_pass _ _)
              · exact .of_frame (by frame_simp)

/-- inversion of `classify`: what each verdict says about the fragment -/
theorem classify_cases (s : OState) (f : Frag) (ctrl : AppCtrl) (func : Nat) (objects : Except Nat (List ObjHdr)) :
    match classify s f ctrl func objects with
    | .newRead hs => func = 1 ∧ f.broadcast = none ∧ objects = .ok hs
    | .repeatRead _ hs => func = 1 ∧ f.broadcast = none ∧ objects = .ok hs
    | .newNonRead hs => func ≠ 0 ∧ func ≠ 1 ∧ f.broadcast = none ∧ objects = .ok hs ∧
        ¬ ∃ last, s.lastReq = some last ∧ last.seq = ctrl.seq ∧ last.frag = f.data
    | .repeatNonRead resp => func ≠ 0 ∧ func ≠ 1 ∧ f.broadcast = none ∧ (∃ hs, objects = .ok hs) ∧
        ∃ last, s.lastReq = some last ∧ last.seq = ctrl.seq ∧ last.frag = f.data ∧ last.response = resp
    | .broadcast m => func ≠ 0 ∧ f.broadcast = some m
    | .malformed e => func ≠ 0 ∧ f.broadcast = none ∧ objects = .error e
    | .solConfirm q => func = 0 ∧ q = ctrl.seq
    | .unsolConfirm q => func = 0 ∧ q = ctrl.seq := by
  unfold classify
  by_cases h0 : func = 0
  · simp only [h0, if_true]
    cases ctrl.uns <;> simp
  · simp only [h0, if_false]
    cases hb : f.broadcast with
    | some m => simp [h0]
    | none =>
      cases objects with
      | error e => simp [h0]
      | ok hs =>
        dsimp only
        cases hl : s.lastReq with
        | none =>
          dsimp only
          by_cases h1 : func = 1 <;> simp [h0, h1]
        | some last =>
          dsimp only
          by_cases hd : last.seq = ctrl.seq ∧ last.frag = f.data
          · simp only [hd, and_self, if_true]
            by_cases h1 : func = 1 <;> simp [h0, h1, hd]
          · simp only [hd, if_false]
            by_cases h1 : func = 1 <;> simp [h0, h1]
            all_goals (intro x hx; exact hd ⟨x, hx⟩)

/-- a non-READ request executed with `deferred` cleared first (the unsolicited-wait path), followed by
    an optional solicited write and the `lastReq` update -/
theorem IdleSpec.of_nonread {a0 a2 : Acc} {f : Frag} {ctrl : AppCtrl} {func : Nat}
    {objects : Except Nat (List ObjHdr)} {raw : List Nat} {hs : List ObjHdr} {r : Option Resp}
    (hc : classify a0.1 f ctrl func objects = .newNonRead hs)
    (hn : handleNonRead ({ a0.1 with deferred := none }, a0.2) func ctrl.seq f.id hs raw = some (a2, r))
    (lq : Option LastReq) (lb : Option Nat) (sb : List Nat) (l2 : List OOut)
    (hl2 : ∀ o ∈ l2, isExec o = false ∧ isSbo o = false) :
    IdleSpec a0 ({ a2.1 with lastReq := lq, lastBroadcast := lb, solBuf := sb }, a2.2 ++ l2)
      f ctrl func objects raw := by
  have sp := handleNonRead_spec hn
  obtain ⟨ok, hsel, hok, l1, hl1, hctl, hrej⟩ := sp.sel
  refine ⟨sp.now, sp.cfg, sp.frameId, sp.pending, sp.mode, sp.unsolBuf, .inr (.inl sp.deferred), l1 ++ l2,
    by simp [hl1], ?_, fun ⟨_, h⟩ => (by rw [hc] at h; cases h), ?_⟩
  · intro o ho hsb
    rcases List.mem_append.mp ho with ho | ho
    · have hf4 : func = 4 := ctlOut_sbo (hctl o ho (isSbo_isControl hsb)).2 hsb
      refine ⟨hf4, ⟨hs, hc⟩, ?_⟩
      apply Classical.byContradiction
      intro hno
      rw [hrej hf4 hno] at ho
      simp at ho
    · simp [(hl2 o ho).2] at hsb
  · cases ok with
    | false => exact .keep (by simpa using hsel)
    | true =>
      refine .set ⟨hs, hc⟩ (hok rfl) (by simpa using hsel) ?_
      intro g v i obj st hm
      rcases List.mem_append.mp hm with hm | hm
      · exact ctlOut_select_zero (hctl _ hm rfl).2 rfl
      · have := (hl2 _ hm).1; simp [isExec] at this

theorem deferredSet_shape (s : OState) (f : Frag) (seq : Nat) (hs : List ObjHdr) :
    ∃ d, deferredSet s f seq hs = { s with deferred := some d } := by
  unfold deferredSet
  exact ⟨_, rfl⟩

theorem unsolWaitOnFragment_pass (a : Acc) (resp : Resp) (isNull : Bool) :
    Pass a (accOf (unsolWaitOnFragment a resp isNull)) := by
  unfold unsolWaitOnFragment
  cases hp : popRequest a.1 with
  | mk s p =>
    have fp : Frame a (s, a.2) := by
      have := popRequest_frame a.1 a.2
      rw [hp] at this; exact this
    cases p with
    | nothing => dsimp only; exact .frame fp (.of_frame (by frame_simp))
    | error src bc seq =>
      dsimp only
      refine .frame fp (.frame (b := ({ s with pending := none }, a.2)) (by frame_simp) ?_)
      split
      · exact .of_frame (Frame.die _)
      · rename_i a' hw
        exact .frame (b := ({ s with pending := none, deferred := none }, a.2)) (by frame_simp)
          (.of_frame (Frame.writeErrorResponse hw))
    | request f ctrl func objects raw =>
      obtain ⟨rfl, hpend, hparse⟩ := popRequest_request hp
      dsimp only
      have fpop : Frame a (popped a) := by unfold popped; frame_simp
      have hcc := classify_cases (popped a).1 f ctrl func objects
      change Pass a (accOf (match classify (popped a).1 f ctrl func objects with
        | .unsolConfirm seq => _ | .solConfirm _ => _ | .broadcast mode => _ | .malformed e => _
        | .newNonRead hs => _ | .newRead hs => _ | .repeatRead _ hs => _ | .repeatNonRead last => _))
      cases hc : classify (popped a).1 f ctrl func objects with
      | unsolConfirm q =>
        dsimp only
        split
        · refine .frame fpop (.frame (b := ({ (popped a).1 with lastBroadcast :=
              if (popped a).1.unsolReported then none else (popped a).1.lastBroadcast }, (popped a).2))
            (by frame_simp) (.frame (Frame.emitCb _ (.unsolConfirmed q) rfl) (finishUnsol_pass _ _ _)))
        · exact .of_frame fpop
      | solConfirm q =>
        dsimp only
        split
        · exact .of_frame (by frame_simp)
        · exact .of_frame fpop
      | broadcast m =>
        dsimp only
        split
        · exact .frame fpop (.of_frame (Frame.die _))
        · rename_i b hb
          have sp := processBroadcast_spec hb
          obtain ⟨l, hl, hlp⟩ := sp.outs
          refine .req f ctrl func objects raw hpend hparse ?_ (.refl _)
          exact ⟨sp.now, sp.cfg, sp.frameId, sp.pending, sp.mode, sp.unsolBuf, .inr (.inl sp.deferred), l, hl,
            fun o ho hsb => (by simp [hlp o ho] at hsb), fun ⟨_, h⟩ => (by rw [hc] at h; cases h), .keep sp.select⟩
      | malformed e =>
        dsimp only
        split
        · exact .frame fpop (.of_frame (Frame.die _))
        · rename_i b r' hw
          exact .frame fpop (.frame (b := ({ (popped a).1 with deferred := none }, (popped a).2)) (by frame_simp)
            (.of_frame (Frame.writeSolicited hw)))
      | newNonRead hs =>
        dsimp only
        split
        · exact .frame fpop (.of_frame (Frame.die _))
        · rename_i a2 r hn
          split
          · have spec0 := IdleSpec.of_nonread hc hn a2.1.lastReq a2.1.lastBroadcast a2.1.solBuf [] (by simp)
            simp only [List.append_nil] at spec0
            exact .req f ctrl func objects raw hpend hparse spec0 (.of_frame (Frame.die _))
          · rename_i a3 r3 hw
            have hev : ∃ lb sb l2, a3 = ({ a2.1 with lastBroadcast := lb, solBuf := sb }, a2.2 ++ l2) ∧
                ∀ o ∈ l2, isExec o = false ∧ isSbo o = false := by
              cases r with
              | none =>
                simp only [Option.some.injEq, Prod.mk.injEq] at hw
                obtain ⟨rfl, -⟩ := hw
                exact ⟨a2.1.lastBroadcast, a2.1.solBuf, [], by simp, by simp⟩
              | some r0 =>
                dsimp only at hw
                split at hw
                · contradiction
                · rename_i a4 r4 hws
                  obtain ⟨lb, sb, bytes, rfl⟩ := writeSolicited_shape hws
                  simp only [Option.some.injEq, Prod.mk.injEq] at hw
                  obtain ⟨rfl, -⟩ := hw
                  refine ⟨lb, sb, [.tx f.src bytes], rfl, ?_⟩
                  intro o ho
                  simp at ho; subst ho; exact ⟨rfl, rfl⟩
            obtain ⟨lb, sb, l2, rfl, hl2⟩ := hev
            have spec := IdleSpec.of_nonread hc hn (some ⟨ctrl.seq, f.data, r3, none⟩) lb sb l2 hl2
            split
            · exact .req f ctrl func objects raw hpend hparse spec (finishUnsol_pass _ _ _)
            · exact .req f ctrl func objects raw hpend hparse spec (.refl _)
      | newRead hs =>
        dsimp only
        rw [hc] at hcc
        obtain ⟨d, hd⟩ := deferredSet_shape (popped a).1 f ctrl.seq hs
        refine .req f ctrl func objects raw hpend hparse ?_ (.refl _)
        change IdleSpec (popped a) (deferredSet (popped a).1 f ctrl.seq hs, (popped a).2) f ctrl func objects raw
        rw [hd]
        exact ⟨rfl, rfl, rfl, rfl, rfl, rfl, .inr (.inr hcc.1), [], by simp, by simp,
          fun ⟨_, h⟩ => (by rw [hc] at h; cases h), .keep rfl⟩
      | repeatRead rr hs =>
        dsimp only
        rw [hc] at hcc
        obtain ⟨d, hd⟩ := deferredSet_shape (popped a).1 f ctrl.seq hs
        refine .req f ctrl func objects raw hpend hparse ?_ (.refl _)
        change IdleSpec (popped a) (deferredSet (popped a).1 f ctrl.seq hs, (popped a).2) f ctrl func objects raw
        rw [hd]
        exact ⟨rfl, rfl, rfl, rfl, rfl, rfl, .inr (.inr hcc.1), [], by simp, by simp,
          fun ⟨_, h⟩ => (by rw [hc] at h; cases h), .keep rfl⟩
      | repeatNonRead last =>
        dsimp only
        refine .frame fpop ?_
        split
        · rename_i r
          generalize hX : repeatSolicited _ f.src r = a2
          have fr : Frame (popped a) a2 := by rw [← hX]; exact Frame.repeatSolicited (popped a) f.src r
          exact .frame fr (.of_frame (by frame_simp))
        · exact .of_frame (by unfold popped; frame_simp)

theorem dispatch_pass (a : Acc) : Pass a (accOf (dispatch a)) := by
  unfold dispatch
  split
  · exact .refl _
  · split
    · exact runPass_pass _ _
    · exact .refl _
  · split
    · exact solWaitOnFragment_pass ..
    · split
      · exact solWaitTimeout_pass ..
      · exact .refl _
  · split
    · exact unsolWaitOnFragment_pass ..
    · split
      · exact unsolWaitTimeout_pass ..
      · exact .refl _

theorem settle_pass (fuel : Nat) (r : StepRes) : Pass (accOf r) (accOf (settle fuel r)) := by
  induction fuel generalizing r with
  | zero => unfold settle; exact .refl _
  | succ n ih =>
    unfold settle
    cases r with
    | panicked a => exact .refl _
    | blocked a =>
      dsimp only
      repeat' split
      all_goals first | exact (dispatch_pass a).trans (ih _) | exact .refl _

/-- **everything a step does after its input-specific prologue is a `Pass`** -/
theorem quiesce_pass (a : Acc) : Pass a (finishStep (settle 8 (dispatch a))) := by
  rw [finishStep_eq]
  exact (dispatch_pass a).trans (settle_pass _ _)

theorem quiesce_runPass_pass (a : Acc) : Pass a (finishStep (settle 8 (runPass passFuel a))) := by
  rw [finishStep_eq]
  exact (runPass_pass _ a).trans (settle_pass _ _)

/-- the fragment the transport layer delivers for an `.rx` input, if any -/
def rxAccept (env : OEnv) (s : OState) (src dst : Nat) (data : List Nat) : Option Frag :=
  if s.mode matches .dead then none else
  let bc : Option (Option Nat) :=
    if dst = env.outstation then some none
    else if dst = 0xFFFC then (if env.selfaddr then some none else none)
    else if dst = 0xFFFF then some (some 0)
    else if dst = 0xFFFE then some (some 1)
    else if dst = 0xFFFD then some (some 2)
    else none
  match bc with
  | none => none
  | some b =>
    if src ≥ 0xFFF0 ∨ data.isEmpty ∨ data.length > env.rx then none else
    if b.isSome ∧ data.length > 249 then none else
    some ⟨s.frameId, src, b, data⟩

/-- `Outstation.step` for a live task (the body below the dead-task prologue) -/
def stepOld (env : OEnv) (s : OState) (inp : OInput) : OState × List OOut :=
  match inp with
  | .setScript f => ({ s with script := f s.script }, [])
  | .rx src dst data =>
    if s.mode matches .dead then (s, []) else
    let bc : Option (Option Nat) :=
      if dst = env.outstation then some none
      else if dst = 0xFFFC then (if env.selfaddr then some none else none)
      else if dst = 0xFFFF then some (some 0)
      else if dst = 0xFFFE then some (some 1)
      else if dst = 0xFFFD then some (some 2)
      else none
    match bc with
    | none => (s, [])
    | some b =>
      if src ≥ 0xFFF0 ∨ data.isEmpty ∨ data.length > env.rx then (s, []) else
      -- a broadcast fragment must fit one transport segment (FIR and FIN)
      if b.isSome ∧ data.length > 249 then (s, []) else
      let f : Frag := ⟨s.frameId, src, b, data⟩
      let s := { s with frameId := (s.frameId + 1) % 4294967296, pending := some f }
      finishStep (settle 8 (dispatch (s, [])))
  | .tick ms =>
    let s := { s with now := s.now + ms }
    finishStep (settle 8 (dispatch (s, [])))
  | .txn items =>
    let (s, outs) := items.foldl (fun (p : OState × List OOut) it =>
      let (db, u) := match it with
        | .bin idx v flags time => p.1.db.update .binary idx (if v then 1 else 0) flags time
        | .an idx v flags time => p.1.db.update .analog idx v flags time
      ({ p.1 with db := db }, p.2 ++ [.line (updLine u)])) (s, [])
    finishStep (settle 8 (dispatch ({ s with notified := true }, outs)))
  | .add t idx cls =>
    let (db, ok) := s.db.add t idx cls
    finishStep (settle 8 (dispatch ({ s with db := db, notified := true }, [.line s!"add {if ok then 1 else 0}"])))
  | .cut =>
    if s.mode matches .dead then (s, []) else
    let s := { s with db := s.db.reset, lastReq := none, select := none, deferred := none, pending := none,
                      mode := .idle .noSleep }
    finishStep (settle 8 (runPass passFuel (s, [.line "session link stdio UnexpectedEof"])))

theorem step_rx_old (env : OEnv) (s : OState) (src dst : Nat) (data : List Nat) :
    stepOld env s (.rx src dst data) =
      match rxAccept env s src dst data with
      | none => (s, [])
      | some f => finishStep (settle 8 (dispatch
          ({ s with frameId := (s.frameId + 1) % 4294967296, pending := some f }, []))) := by
  unfold stepOld rxAccept
  dsimp only
  repeat' split
  all_goals first | rfl | contradiction | simp_all

/-! ## 9. Summary of a pass: at most one request is handled -/

theorem isSbo_isExec {o : OOut} (h : isSbo o = true) : isExec o = true := by
  unfold isSbo at h
  split at h
  · rfl
  · contradiction

theorem isControl_isExec {o : OOut} (h : isControl o = true) : isExec o = true := by
  unfold isControl at h
  split at h
  · rfl
  · contradiction

/-- nothing was handled yet: the retained fragment, `select`, and (absent a deferred read) the sequence
    number and octets of `lastReq` (`lrKey`) are as at the start, and no executing callback was emitted -/
structure Quiet (a0 a : Acc) : Prop where
  pending : a.1.pending = a0.1.pending ∨ a.1.pending = none
  select : a.1.select = a0.1.select
  keep : a0.1.deferred = none → lrKey a.1.lastReq = lrKey a0.1.lastReq ∧ a.1.deferred = none
  outs : ∀ o ∈ a.2, isExec o = false

/-- the retained fragment `f` of `a0` was handled once, in a state `s1` that agrees with `a0` on
    `select`, `now`, `cfg` (and the `lrKey` of `lastReq` if no read was deferred) -/
structure Handled (a0 a : Acc) (f : Frag) (ctrl : AppCtrl) (func : Nat) (objects : Except Nat (List ObjHdr))
    (raw : List Nat) (s1 : OState) : Prop where
  was : a0.1.pending = some f
  parse : parseRequest f.data = .request ctrl func objects raw
  select1 : s1.select = a0.1.select
  now1 : s1.now = a0.1.now
  cfg1 : s1.cfg = a0.1.cfg
  keep1 : a0.1.deferred = none → lrKey s1.lastReq = lrKey a0.1.lastReq
  pending : a.1.pending = none
  sbo : ∀ o ∈ a.2, isSbo o = true →
    func = 4 ∧ (∃ hs, classify s1 f ctrl func objects = .newNonRead hs) ∧ OperateOk s1 ctrl.seq f.id raw
  rep : (∃ resp, classify s1 f ctrl func objects = .repeatNonRead resp) → ∀ o ∈ a.2, isExec o = false
  sel : SelChange s1 f ctrl func raw a.2 (∃ hs, classify s1 f ctrl func objects = .newNonRead hs)
    (∃ resp, classify s1 f ctrl func objects = .repeatNonRead resp) a.1.select
  keepDeferred : a0.1.deferred = none → func ≠ 1 → a.1.deferred = none

/-- summary of a pass started in `a0` -/
structure PassInv (a0 a : Acc) : Prop where
  now : a.1.now = a0.1.now
  cfg : a.1.cfg = a0.1.cfg
  frameId : a.1.frameId = a0.1.frameId
  cases : Quiet a0 a ∨ ∃ f ctrl func objects raw s1, Handled a0 a f ctrl func objects raw s1

theorem SelChange.append {s : OState} {f : Frag} {ctrl : AppCtrl} {func : Nat} {raw : List Nat} {l l' : List OOut}
    {fr rb : Prop} {sel' : Option Sel} (h : SelChange s f ctrl func raw l fr rb sel')
    (hl : ∀ o ∈ l', isExec o = false) : SelChange s f ctrl func raw (l ++ l') fr rb sel' := by
  cases h with
  | keep h => exact .keep h
  | rebase sel h1 h2 h3 h4 => exact .rebase sel h1 h2 h3 h4
  | set h0 h1 h2 h3 =>
    refine .set h0 h1 h2 ?_
    intro g v i obj st hm
    rcases List.mem_append.mp hm with hm | hm
    · exact h3 g v i obj st hm
    · have := hl _ hm; simp [isExec] at this

theorem SelChange.prepend {s : OState} {f : Frag} {ctrl : AppCtrl} {func : Nat} {raw : List Nat} {l l' : List OOut}
    {fr rb : Prop} {sel' : Option Sel} (h : SelChange s f ctrl func raw l fr rb sel')
    (hl : ∀ o ∈ l', isExec o = false) : SelChange s f ctrl func raw (l' ++ l) fr rb sel' := by
  cases h with
  | keep h => exact .keep h
  | rebase sel h1 h2 h3 h4 => exact .rebase sel h1 h2 h3 h4
  | set h0 h1 h2 h3 =>
    refine .set h0 h1 h2 ?_
    intro g v i obj st hm
    rcases List.mem_append.mp hm with hm | hm
    · have := hl _ hm; simp [isExec] at this
    · exact h3 g v i obj st hm

theorem PassInv.frame {a0 a b : Acc} (h : PassInv a0 a) (hf : Frame a b) : PassInv a0 b := by
  obtain ⟨l, hl, hlp⟩ := hf.outs
  refine ⟨hf.now.trans h.now, hf.cfg.trans h.cfg, hf.frameId.trans h.frameId, ?_⟩
  rcases h.cases with q | ⟨f, ctrl, func, objects, raw, s1, hd⟩
  · left
    refine ⟨?_, hf.select.trans q.select, ?_, ?_⟩
    · rcases hf.pending with h1 | h1
      · rcases q.pending with h2 | h2
        · exact .inl (h1.trans h2)
        · exact .inr (h1.trans h2)
      · exact .inr h1
    · intro h0
      have k1 := q.keep h0
      have k2 := hf.keep k1.2
      exact ⟨k2.1.trans k1.1, k2.2⟩
    · intro o ho
      rw [hl] at ho
      rcases List.mem_append.mp ho with ho | ho
      · exact q.outs o ho
      · exact hlp o ho
  · right
    refine ⟨f, ctrl, func, objects, raw, s1, hd.was, hd.parse, hd.select1, hd.now1, hd.cfg1, hd.keep1, ?_, ?_, ?_,
      ?_, ?_⟩
    · rcases hf.pending with h1 | h1
      · exact h1.trans hd.pending
      · exact h1
    · intro o ho hs
      rw [hl] at ho
      rcases List.mem_append.mp ho with ho | ho
      · exact hd.sbo o ho hs
      · have := hlp o ho; rw [isSbo_isExec hs] at this; contradiction
    · intro hr o ho
      rw [hl] at ho
      rcases List.mem_append.mp ho with ho | ho
      · exact hd.rep hr o ho
      · exact hlp o ho
    · rw [hl, hf.select]; exact hd.sel.append hlp
    · intro h0 h1
      exact (hf.keep (hd.keepDeferred h0 h1)).2

theorem PassInv.req {a0 a b : Acc} (h : PassInv a0 a) {f : Frag} {ctrl : AppCtrl} {func : Nat}
    {objects : Except Nat (List ObjHdr)} {raw : List Nat} (hp : a.1.pending = some f)
    (hq : parseRequest f.data = .request ctrl func objects raw)
    (sp : IdleSpec (popped a) b f ctrl func objects raw) : PassInv a0 b := by
  refine ⟨sp.now.trans h.now, sp.cfg.trans h.cfg, sp.frameId.trans h.frameId, ?_⟩
  rcases h.cases with q | ⟨f', ctrl', func', objects', raw', s1, hd⟩
  · right
    obtain ⟨l, hl, hsbo, hrep, hsel⟩ := sp.outs
    have hpend : a0.1.pending = some f := by
      rcases q.pending with h1 | h1
      · rw [← h1]; exact hp
      · rw [h1] at hp; contradiction
    refine ⟨f, ctrl, func, objects, raw, (popped a).1, hpend, hq, q.select, h.now, h.cfg,
      fun h0 => (q.keep h0).1, sp.pending, ?_, ?_, ?_, ?_⟩
    · intro o ho hs
      have ho' : o ∈ a.2 ++ l := hl ▸ ho
      rcases List.mem_append.mp ho' with ho | ho
      · have := q.outs o ho; rw [isSbo_isExec hs] at this; contradiction
      · exact hsbo o ho hs
    · intro hr o ho
      have ho' : o ∈ a.2 ++ l := hl ▸ ho
      rcases List.mem_append.mp ho' with ho | ho
      · exact q.outs o ho
      · exact hrep hr o ho
    · have : b.2 = a.2 ++ l := hl
      rw [this]; exact hsel.prepend q.outs
    · intro h0 h1
      have hdn : (popped a).1.deferred = none := (q.keep h0).2
      rcases sp.deferred with h | h | h
      · exact h.trans hdn
      · exact h
      · exact absurd h h1
  · rw [hd.pending] at hp; contradiction

theorem PassInv.of_pass {a0 a c : Acc} (hp : Pass a c) (h : PassInv a0 a) : PassInv a0 c := by
  induction hp with
  | refl => exact h
  | frame hf _ ih => exact ih (h.frame hf)
  | req f ctrl func objects raw hpend hq sp _ ih => exact ih (h.req hpend hq sp)

theorem PassInv.start {a0 : Acc} (h : ∀ o ∈ a0.2, isExec o = false) : PassInv a0 a0 :=
  ⟨rfl, rfl, rfl, .inl ⟨.inl rfl, rfl, fun h0 => ⟨rfl, h0⟩, h⟩⟩

/-! ## 9b. Every step consumes the fragment it works on -/

theorem Frame.pending_none {a b : Acc} (h : Frame a b) (hp : a.1.pending = none) : b.1.pending = none := by
  rcases h.pending with h | h
  · exact h.trans hp
  · exact h

theorem Pass.pending_none {a c : Acc} (h : Pass a c) (hp : a.1.pending = none) : c.1.pending = none := by
  induction h with
  | refl => exact hp
  | frame hf _ ih => exact ih (hf.pending_none hp)
  | req f ctrl func objects raw hpend _ _ _ _ => rw [hp] at hpend; contradiction

/-- the fragment the pass worked on was consumed, or the task is dead -/
def PendDone (a : Acc) : Prop := a.1.pending = none ∨ a.1.mode = .dead

theorem die_done (a : Acc) : PendDone (accOf (die a)) := .inr rfl

theorem runPassBody_done (fuel : Nat) (a0 : Acc) : PendDone (accOf (runPassBody fuel a0)) := by
  unfold runPassBody
  cases hp : popRequest a0.1 with
  | mk s p =>
    cases p with
    | nothing =>
      dsimp only
      exact .inl ((afterRequest_pass (runPass_pass fuel) _).pending_none rfl)
    | error src bc seq =>
      dsimp only
      split
      · exact die_done _
      · rename_i a' hw
        exact .inl ((afterRequest_pass (runPass_pass fuel) _).pending_none
          ((Frame.writeErrorResponse hw).pending_none rfl))
    | request f ctrl func objects raw =>
      dsimp only
      split
      · exact die_done _
      · rename_i a' sr hh
        exact .inl ((Frame.enterSolWait _ _ _).pending_none ((idle_spec hh).pending.trans rfl))
      · rename_i a' hh
        exact .inl ((afterRequest_pass (runPass_pass fuel) _).pending_none ((idle_spec hh).pending.trans rfl))

theorem runPass_done (fuel : Nat) (a : Acc) : PendDone (accOf (runPass (fuel + 1) a)) := by
  rw [runPass_succ]
  exact runPassBody_done _ _

theorem runPass_passFuel_done (a : Acc) : PendDone (accOf (runPass passFuel a)) := runPass_done 63 a

theorem idleWakes_of_pending {s : OState} (h : idleWakes s = false) : s.pending = none := by
  unfold idleWakes at h
  cases hp : s.pending with
  | none => rfl
  | some f => simp [hp] at h

theorem afterDeferred_done {k : Acc → StepRes} (hk : ∀ a, PendDone (accOf (k a))) (a : Acc) (next : NextIdle) :
    PendDone (accOf (afterDeferred k a next)) := by
  unfold afterDeferred
  dsimp only
  split
  · exact hk _
  · rename_i h
    have h' : idleWakes (finishPass a next).1 = false := by simpa using h
    exact .inl (idleWakes_of_pending h')

/-- the fragment was consumed, the task is dead, or it is blocked in a wait that will consume it at once -/
def InWait1 (a : Acc) : Prop :=
  (∃ r n t d, a.1.mode = .unsolWait r n t d) ∨ (∃ sr dl nx, a.1.mode = .solWait sr dl (.fromDeferred nx))

def Rank1 (r : StepRes) : Prop := PendDone (accOf r) ∨ ∃ a, r = .blocked a ∧ InWait1 a

theorem handleDeferredRead_inl_mode {a a' : Acc} {next : NextIdle} (h : handleDeferredRead a next = some (.inl a')) :
    ∃ sr dl, a'.1.mode = .solWait sr dl (.fromDeferred next) := by
  unfold handleDeferredRead at h
  split at h
  · simp at h
  · dsimp only at h
    split at h
    · simp at h
    · split at h
      · simp only [Option.some.injEq, Sum.inl.injEq] at h
        subst h
        exact ⟨_, _, rfl⟩
      · simp at h

theorem afterUnsol_rank1 {k : Acc → StepRes} (hk : ∀ a, PendDone (accOf (k a))) (a : Acc) (next : NextIdle) :
    Rank1 (afterUnsol k a next) := by
  unfold afterUnsol
  split
  · exact .inl (die_done _)
  · rename_i a' he
    obtain ⟨sr, dl, h⟩ := handleDeferredRead_inl_mode he
    exact .inr ⟨_, rfl, .inr ⟨sr, dl, next, h⟩⟩
  · exact .inl (afterDeferred_done hk _ _)

theorem startUnsolSeries_mode {a a' : Acc} {r : Resp} {n : Bool} (h : startUnsolSeries a r n = some a') :
    ∃ r n t d, a'.1.mode = .unsolWait r n t d := by
  unfold startUnsolSeries at h
  split at h
  · simp at h
  · simp only [Option.some.injEq] at h
    subst h
    exact ⟨_, _, _, _, rfl⟩

theorem checkUnsolicited_inl_mode {a a' : Acc} (h : checkUnsolicited a = some (.inl a')) :
    ∃ r n t d, a'.1.mode = .unsolWait r n t d := by
  unfold checkUnsolicited at h
  dsimp only at h
  repeat' split at h
  all_goals first
    | (simp at h; done)
    | (rename_i hs
       simp only [Option.some.injEq, Sum.inl.injEq] at h
       subst h
       exact startUnsolSeries_mode hs)

theorem afterRequest_rank1 {k : Acc → StepRes} (hk : ∀ a, PendDone (accOf (k a))) (a : Acc) :
    Rank1 (afterRequest k a) := by
  unfold afterRequest
  split
  · exact .inl (die_done _)
  · rename_i a' he
    exact .inr ⟨_, rfl, .inl (checkUnsolicited_inl_mode he)⟩
  · exact afterUnsol_rank1 hk _ _

theorem resumeAfterSol_rank1 (a : Acc) (cont : SolCont) : Rank1 (resumeAfterSol a cont) := by
  unfold resumeAfterSol
  split
  · exact afterRequest_rank1 runPass_passFuel_done _
  · exact .inl (afterDeferred_done runPass_passFuel_done _ _)

theorem resumeAfterSol_done (a : Acc) (next : NextIdle) :
    PendDone (accOf (resumeAfterSol a (.fromDeferred next))) :=
  afterDeferred_done runPass_passFuel_done _ _

theorem abortSeries_rank1 (a : Acc) (cont : SolCont) : Rank1 (abortSeries a cont) := by
  unfold abortSeries
  exact resumeAfterSol_rank1 _ _

theorem abortSeries_done (a : Acc) (next : NextIdle) : PendDone (accOf (abortSeries a (.fromDeferred next))) := by
  unfold abortSeries
  exact resumeAfterSol_done _ _

/-- a fragment handled during the solicited confirm wait is consumed, or (`Confirm::NewRequest`) the
    series is aborted with the fragment retained -/
theorem solWaitOnFragment_done (a : Acc) (sr : Series) (dl : Nat) (cont : SolCont) :
    (∃ a1, solWaitOnFragment a sr dl cont = abortSeries a1 cont) ∨
    PendDone (accOf (solWaitOnFragment a sr dl cont)) := by
  unfold solWaitOnFragment
  cases hp : popRequest a.1 with
  | mk s p =>
    cases p with
    | nothing => dsimp only; exact .inr (.inl rfl)
    | error src bc seq => dsimp only; exact .inl ⟨_, rfl⟩
    | request f ctrl func objects raw =>
      dsimp only
      split
      any_goals exact .inl ⟨_, rfl⟩
      · -- repeatRead
        refine .inr (.inl ?_)
        split <;> rfl
      · -- unsolConfirm
        exact .inr (.inl rfl)
      · -- solConfirm
        right
        split
        · exact .inl rfl
        · have hp0 : (clearWrittenEvents ({ (emitCb ({ onLinkActivity s with pending := none }, a.2)
              (.solConfirmed sr.ecsn)).1 with lastBroadcast := none },
              (emitCb ({ onLinkActivity s with pending := none }, a.2) (.solConfirmed sr.ecsn)).2)).1.pending = none :=
            (Frame.clearWrittenEvents _).pending_none rfl
          generalize clearWrittenEvents _ = a4 at hp0 ⊢
          split
          · exact .inl ((resumeAfterSol_pass _ _).pending_none hp0)
          · split
            · exact die_done _
            · rename_i a5 r5 hw
              have hp5 : a5.1.pending = none :=
                (Frame.writeSolicited hw).pending_none ((formatReadResponse_frame a4.1 false _ 0 a4.2).pending_none hp0)
              split
              · exact .inl ((resumeAfterSol_pass _ _).pending_none hp5)
              · exact .inl hp5

/-- a fragment handled during the unsolicited confirm wait is always consumed -/
theorem unsolWaitOnFragment_done (a : Acc) (resp : Resp) (isNull : Bool) :
    PendDone (accOf (unsolWaitOnFragment a resp isNull)) := by
  unfold unsolWaitOnFragment
  cases hp : popRequest a.1 with
  | mk s p =>
    cases p with
    | nothing => dsimp only; exact .inl rfl
    | error src bc seq =>
      dsimp only
      split
      · exact die_done _
      · rename_i a' hw
        exact .inl ((Frame.writeErrorResponse hw).pending_none rfl)
    | request f ctrl func objects raw =>
      dsimp only
      split
      · -- unsolConfirm
        split
        · exact .inl ((finishUnsol_pass _ _ _).pending_none rfl)
        · exact .inl rfl
      · -- solConfirm
        refine .inl ?_
        split <;> rfl
      · -- broadcast
        split
        · exact die_done _
        · rename_i b hb
          exact .inl ((processBroadcast_spec hb).pending.trans rfl)
      · -- malformed
        split
        · exact die_done _
        · rename_i b r' hw
          exact .inl ((Frame.writeSolicited hw).pending_none rfl)
      · -- newNonRead
        split
        · exact die_done _
        · rename_i a2 r hn
          have h2 : a2.1.pending = none := (handleNonRead_spec hn).pending.trans rfl
          split
          · exact die_done _
          · rename_i a3 r3 hw
            have h3 : a3.1.pending = none := by
              cases r with
              | none =>
                simp only [Option.some.injEq, Prod.mk.injEq] at hw
                obtain ⟨rfl, -⟩ := hw
                exact h2
              | some r0 =>
                dsimp only at hw
                split at hw
                · contradiction
                · rename_i a4 r4 hws
                  simp only [Option.some.injEq, Prod.mk.injEq] at hw
                  obtain ⟨rfl, -⟩ := hw
                  exact (Frame.writeSolicited hws).pending_none h2
            split
            · exact .inl ((finishUnsol_pass _ _ _).pending_none h3)
            · exact .inl h3
      · -- newRead
        rename_i hs' _
        obtain ⟨d, hd⟩ := deferredSet_shape (onLinkActivity { s with pending := none }) f ctrl.seq hs'
        refine .inl ?_
        simp only [accOf]
        rw [hd]
        rfl
      · rename_i rr hs' _
        obtain ⟨d, hd⟩ := deferredSet_shape (onLinkActivity { s with pending := none }) f ctrl.seq hs'
        refine .inl ?_
        simp only [accOf]
        rw [hd]
        rfl
      · -- repeatNonRead
        refine .inl ?_
        split <;> rfl

theorem PendDone.pass {a c : Acc} (h : PendDone a) (hp : Pass a c) (hm : a.1.mode = .dead → c = a) : PendDone c := by
  rcases h with h | h
  · exact .inl (hp.pending_none h)
  · rw [hm h]; exact .inr h

/-- `dispatch` consumes the retained fragment, except that a new request arriving in the solicited confirm
    wait of a response to a request (not of a deferred read) may leave the task blocked in another wait -/
theorem dispatch_rank1 (a : Acc) : Rank1 (dispatch a) := by
  by_cases hpn : a.1.pending = none
  · exact .inl (.inl ((dispatch_pass a).pending_none hpn))
  have hps : a.1.pending.isSome = true := by
    cases h : a.1.pending with
    | none => exact absurd h hpn
    | some f => rfl
  unfold dispatch
  split
  · rename_i h; exact .inl (.inr h)
  · have hw : idleWakes a.1 = true := by unfold idleWakes; simp [hps]
    rw [if_pos hw]
    exact .inl (runPass_passFuel_done a)
  · rw [if_pos hps]
    rcases solWaitOnFragment_done a _ _ _ with ⟨a1, h⟩ | h
    · rw [h]; exact abortSeries_rank1 _ _
    · exact .inl h
  · rw [if_pos hps]
    exact .inl (unsolWaitOnFragment_done _ _ _)

/-- from a state of `Rank1`, `dispatch` consumes the fragment -/
theorem dispatch_done_of_rank1 (a : Acc) (h : InWait1 a) : PendDone (accOf (dispatch a)) := by
  by_cases hpn : a.1.pending = none
  · exact .inl ((dispatch_pass a).pending_none hpn)
  have hps : a.1.pending.isSome = true := by
    cases h : a.1.pending with
    | none => exact absurd h hpn
    | some f => rfl
  rcases h with ⟨r, n, t, d, h⟩ | ⟨sr, dl, nx, h⟩
  · unfold dispatch; rw [h]; dsimp only; rw [if_pos hps]; exact unsolWaitOnFragment_done _ _ _
  · unfold dispatch; rw [h]; dsimp only; rw [if_pos hps]
    rcases solWaitOnFragment_done a sr dl (.fromDeferred nx) with ⟨a1, h⟩ | h
    · rw [h]; exact abortSeries_done _ _
    · exact h

theorem settle_of_done (fuel : Nat) (r : StepRes) (h : PendDone (accOf r)) : accOf (settle fuel r) = accOf r := by
  cases fuel with
  | zero => rfl
  | succ n =>
    unfold settle
    cases r with
    | panicked a => rfl
    | blocked a =>
      dsimp only
      rcases h with h | h
      · have h' : a.1.pending = none := h
        simp [h']
      · have h' : a.1.mode = .dead := h
        simp [h']

theorem settle_done (fuel : Nat) (r : StepRes) (h : Rank1 r) : PendDone (accOf (settle (fuel + 2) r)) := by
  rcases h with hd | ⟨a, rfl, hw⟩
  · rw [settle_of_done _ _ hd]; exact hd
  · have hdd := dispatch_done_of_rank1 a hw
    have key : settle (fuel + 2) (.blocked a) =
        if a.1.pending.isSome then settle (fuel + 1) (dispatch a) else .blocked a := by
      conv => lhs; unfold settle
      rcases hw with ⟨r, n, t, d, h⟩ | ⟨sr, dl, nx, h⟩ <;> simp [h]
    rw [key]
    split
    · rw [settle_of_done _ _ hdd]; exact hdd
    · rename_i hc
      left
      cases hp : a.1.pending with
      | none => exact hp
      | some f => simp [hp] at hc

/-- **every pass consumes the fragment it works on** (or the task dies) -/
theorem quiesce_done (a : Acc) : PendDone (finishStep (settle 8 (dispatch a))) := by
  rw [finishStep_eq]
  exact settle_done 6 _ (dispatch_rank1 a)

theorem quiesce_runPass_done (a : Acc) : PendDone (finishStep (settle 8 (runPass passFuel a))) := by
  rw [finishStep_eq]
  exact settle_done 6 _ (.inl (runPass_passFuel_done a))

/-! ## 10. The step: prologue + pass -/

/-- the clock advance of an input -/
def tickOf : OInput → Nat
  | .tick ms => ms
  | _ => 0

/-- a panic unwound the task -/
def isDead (s : OState) : Bool := s.mode matches .dead

/-- the clock a step runs at.  (MODEL VERSION NOTE: in this version of `stepOld` nothing happens any
    more once the task is dead, so a `.tick` does not advance `now` then; this definition and the four
    prologue lemmas `step_rx`, `step_txn`, `step_start`, `step_cut_select` are the only places that depend
    on the prologue of `stepOld`.) -/
def stepNow (s : OState) (i : OInput) : Nat := s.now + (if isDead s then 0 else tickOf i)

def isCut : OInput → Bool
  | .cut => true
  | _ => false

/-- the state a step starts its pass in -/
structure StepStart (env : OEnv) (s : OState) (i : OInput) (a0 : Acc) : Prop where
  cfg : a0.1.cfg = s.cfg
  now : a0.1.now = stepNow s i
  benign : ∀ o ∈ a0.2, isExec o = false
  select : a0.1.select = s.select ∨ isCut i = true ∧ a0.1.select = none
  keep : (a0.1.lastReq = s.lastReq ∧ a0.1.deferred = s.deferred) ∨ isCut i = true
  frag : (∃ src dst data f, i = .rx src dst data ∧ rxAccept env s src dst data = some f ∧
            a0.1.pending = some f ∧ a0.1.frameId = (s.frameId + 1) % 4294967296) ∨
         (a0.1.frameId = s.frameId ∧ (a0.1.pending = s.pending ∨ a0.1.pending = none) ∧
            ∀ src dst data, i = .rx src dst data → rxAccept env s src dst data = none)

/-- one item of a database transaction -/
def txnStep (p : OState × List OOut) (it : TxnItem) : OState × List OOut :=
  let (db, u) := match it with
    | .bin idx v flags time => p.1.db.update .binary idx (if v then 1 else 0) flags time
    | .an idx v flags time => p.1.db.update .analog idx v flags time
  ({ p.1 with db := db }, p.2 ++ [.line (updLine u)])

theorem step_txn_old (env : OEnv) (s : OState) (items : List TxnItem) :
    stepOld env s (.txn items) =
      finishStep (settle 8 (dispatch ({ (items.foldl txnStep (s, [])).1 with notified := true },
        (items.foldl txnStep (s, [])).2))) := rfl

theorem txn_fold_shape (items : List TxnItem) (p : OState × List OOut) (h : ∀ o ∈ p.2, isExec o = false) :
    ∃ db l, items.foldl txnStep p = ({ p.1 with db := db }, l) ∧ ∀ o ∈ l, isExec o = false := by
  induction items generalizing p with
  | nil => exact ⟨p.1.db, p.2, rfl, h⟩
  | cons it rest ih =>
    rw [List.foldl_cons]
    have h' : ∀ o ∈ (txnStep p it).2, isExec o = false := by
      intro o ho
      unfold txnStep at ho
      rcases List.mem_append.mp ho with ho | ho
      · exact h o ho
      · simp at ho; subst ho; rfl
    obtain ⟨db, l, he, hl⟩ := ih (txnStep p it) h'
    exact ⟨db, l, he, hl⟩

theorem step_start_old (env : OEnv) (s : OState) (i : OInput) (hd : isDead s = false) :
    ∃ a0, StepStart env s i a0 ∧ Pass a0 (stepOld env s i) := by
  cases i with
  | setScript g =>
    refine ⟨({ s with script := g s.script }, []), ⟨rfl, by simp [stepNow, hd, tickOf], by simp, .inl rfl, .inl ⟨rfl, rfl⟩,
      .inr ⟨rfl, .inl rfl, by simp⟩⟩, ?_⟩
    unfold stepOld
    exact .refl _
  | rx src dst data =>
    rw [step_rx_old]
    cases hr : rxAccept env s src dst data with
    | none =>
      refine ⟨(s, []), ⟨rfl, by simp [stepNow, hd, tickOf], by simp, .inl rfl, .inl ⟨rfl, rfl⟩, .inr ⟨rfl, .inl rfl, ?_⟩⟩, .refl _⟩
      intro a b c h
      simp only [OInput.rx.injEq] at h
      obtain ⟨rfl, rfl, rfl⟩ := h
      exact hr
    | some f =>
      exact ⟨_, ⟨rfl, by simp [stepNow, hd, tickOf], by simp, .inl rfl, .inl ⟨rfl, rfl⟩, .inl ⟨src, dst, data, f, rfl, hr, rfl, rfl⟩⟩,
        quiesce_pass _⟩
  | tick ms =>
    unfold stepOld
    exact ⟨_, ⟨rfl, by simp [stepNow, hd, tickOf], by simp, .inl rfl, .inl ⟨rfl, rfl⟩, .inr ⟨rfl, .inl rfl, by simp⟩⟩, quiesce_pass _⟩
  | txn items =>
    rw [step_txn_old]
    obtain ⟨db, l, he, hl⟩ := txn_fold_shape items (s, []) (by simp)
    rw [he]
    exact ⟨_, ⟨rfl, by simp [stepNow, hd, tickOf], hl, .inl rfl, .inl ⟨rfl, rfl⟩, .inr ⟨rfl, .inl rfl, by simp⟩⟩, quiesce_pass _⟩
  | add t idx cls =>
    unfold stepOld
    exact ⟨_, ⟨rfl, by simp [stepNow, hd, tickOf], by simp [isExec], .inl rfl, .inl ⟨rfl, rfl⟩, .inr ⟨rfl, .inl rfl, by simp⟩⟩,
      quiesce_pass _⟩
  | cut =>
    unfold stepOld
    dsimp only
    split
    · exact ⟨(s, []), ⟨rfl, by simp [stepNow, hd, tickOf], by simp, .inl rfl, .inl ⟨rfl, rfl⟩, .inr ⟨rfl, .inl rfl, by simp⟩⟩, .refl _⟩
    · exact ⟨_, ⟨rfl, by simp [stepNow, hd, tickOf], by simp [isExec], .inr ⟨rfl, rfl⟩, .inr rfl, .inr ⟨rfl, .inr rfl, by simp⟩⟩,
        quiesce_runPass_pass _⟩


theorem isDead_iff (s : OState) : isDead s = true ↔ s.mode = .dead := by
  unfold isDead
  cases s.mode <;> simp

set_option linter.unusedSimpArgs false in
theorem step_eq_old (env : OEnv) (s : OState) (i : OInput) (hd : isDead s = false) :
    Outstation.step env s i = stepOld env s i := by
  unfold Outstation.step stepOld
  cases hmm : s.mode with
  | dead =>
    have := (isDead_iff s).mpr hmm
    rw [hd] at this; contradiction
  | _ => cases i <;> first | (simp [hmm]; done) | (simp only [hmm]; rfl) | (simp only [hmm, Bool.false_eq_true, if_false])

theorem step_dead (env : OEnv) (s : OState) (i : OInput) (hd : isDead s = true) :
    Outstation.step env s i =
      ((match i with | .setScript f => { s with script := f s.script } | _ => s), []) := by
  unfold Outstation.step
  have hmm := (isDead_iff s).mp hd
  cases i <;> simp [hmm]

theorem rxAccept_dead (env : OEnv) (s : OState) (src dst : Nat) (data : List Nat) (hd : isDead s = true) :
    rxAccept env s src dst data = none := by
  unfold rxAccept
  split
  · simp only [if_true]
  · rename_i h
    exact absurd ((isDead_iff s).mp hd) (fun e => h e)

theorem step_rx (env : OEnv) (s : OState) (src dst : Nat) (data : List Nat) :
    Outstation.step env s (.rx src dst data) =
      match rxAccept env s src dst data with
      | none => (s, [])
      | some f => finishStep (settle 8 (dispatch
          ({ s with frameId := (s.frameId + 1) % 4294967296, pending := some f }, []))) := by
  cases hd : isDead s with
  | true => rw [step_dead env s _ hd, rxAccept_dead env s src dst data hd]
  | false => rw [step_eq_old env s _ hd]; exact step_rx_old env s src dst data

theorem step_start (env : OEnv) (s : OState) (i : OInput) :
    ∃ a0, StepStart env s i a0 ∧ Pass a0 (Outstation.step env s i) := by
  cases hd : isDead s with
  | false =>
    rw [step_eq_old env s i hd]
    exact step_start_old env s i hd
  | true =>
    rw [step_dead env s i hd]
    refine ⟨_, ⟨?_, ?_, by simp, .inl ?_, .inl ⟨?_, ?_⟩, .inr ⟨?_, .inl ?_, ?_⟩⟩, .refl _⟩
    all_goals first
      | (cases i <;> rfl)
      | (simp [stepNow, hd]; cases i <;> rfl)
      | (intro a b c _; exact rxAccept_dead env s a b c hd)

/-! ## 11. Step-level theorems (every state, no reachability) -/

/-- the fragment a step works on: the one just delivered by the transport layer for an `.rx`
    input, else the one retained from an earlier step (`s.pending`) -/
def CurFrag (env : OEnv) (s : OState) (i : OInput) (f : Frag) : Prop :=
  (∃ src dst data, i = .rx src dst data ∧ rxAccept env s src dst data = some f) ∨
  ((∀ src dst data, i = .rx src dst data → rxAccept env s src dst data = none) ∧ s.pending = some f)

theorem step_inv (env : OEnv) (s : OState) (i : OInput) :
    ∃ a0, StepStart env s i a0 ∧ PassInv a0 (Outstation.step env s i) := by
  obtain ⟨a0, hs, hp⟩ := step_start env s i
  exact ⟨a0, hs, PassInv.of_pass hp (PassInv.start hs.benign)⟩

theorem StepStart.curFrag {env : OEnv} {s : OState} {i : OInput} {a0 : Acc} (h : StepStart env s i a0) {f : Frag}
    (hp : a0.1.pending = some f) : CurFrag env s i f := by
  rcases h.frag with ⟨src, dst, data, f', hi, hr, hp', -⟩ | ⟨-, hp', hr⟩
  · rw [hp] at hp'
    simp only [Option.some.injEq] at hp'
    subst hp'
    exact .inl ⟨src, dst, data, hi, hr⟩
  · rcases hp' with hp' | hp'
    · exact .inr ⟨hr, hp' ▸ hp⟩
    · rw [hp'] at hp; contradiction

/-- **C04.2 (step level, every state)**: a select-before-operate actuation appears in the outputs of a
    step only if the fragment the step works on parses as a unicast function-4 request with well-formed
    objects, a SELECT is stored, and `matchOperate` accepts it (sequence, frame id, object bytes, age). -/
theorem step_sbo_needs_match (env : OEnv) (s : OState) (i : OInput) (o : OOut)
    (ho : o ∈ (Outstation.step env s i).2) (hsbo : isSbo o = true) :
    ∃ f ctrl hs raw sel, CurFrag env s i f ∧ parseRequest f.data = .request ctrl 4 (.ok hs) raw ∧
      f.broadcast = none ∧ s.select = some sel ∧
      matchOperate sel s.cfg.stimeout (stepNow s i) ctrl.seq f.id raw = none := by
  obtain ⟨a0, hst, hinv⟩ := step_inv env s i
  rcases hinv.cases with q | ⟨f, ctrl, func, objects, raw, s1, hd⟩
  · have := q.outs o ho
    rw [isSbo_isExec hsbo] at this; contradiction
  · obtain ⟨hf4, ⟨hs, hc⟩, sel, hsel, hm⟩ := hd.sbo o ho hsbo
    have hcc := classify_cases s1 f ctrl func objects
    rw [hc] at hcc
    obtain ⟨-, -, hb, hobj, -⟩ := hcc
    subst hf4 hobj
    refine ⟨f, ctrl, hs, raw, sel, hst.curFrag hd.was, hd.parse, hb, ?_, ?_⟩
    · rw [hd.select1] at hsel
      rcases hst.select with h | ⟨-, h⟩
      · rw [← h]; exact hsel
      · rw [h] at hsel; contradiction
    · rw [hd.cfg1, hd.now1, hst.cfg, hst.now] at hm; exact hm

/-- **C04.3 (where `select` comes from, every state)**: after a step `select` is unchanged, or
    (c) cleared by `.cut`, or the fragment the step works on was a unicast request with well-formed objects and
    (a) function 3 that was new (not a repeat), every handler status was 0 and the echo fitted:
        `select = ⟨seq, frame id, now, raw objects⟩`; or
    (b) it took the `repeatNonRead` branch (its sequence number and bytes equal the last recorded request, so
        the step executed nothing) AND it is a retransmission of the stored SELECT itself that directly follows
        it — function 3, the select's sequence number, the select's object octets, and a frame id that is the
        select's plus one (mod 2^32) — and only `frameId` was overwritten with this fragment's id
        (`update_frame_id_on_repeat`; defect D9 — a repeat of ANY last non-READ request re-based — is repaired). -/
theorem step_select_change (env : OEnv) (s : OState) (i : OInput) :
    (Outstation.step env s i).1.select = s.select ∨
    (isCut i = true ∧ (Outstation.step env s i).1.select = none) ∨
    ∃ f ctrl func hs raw, CurFrag env s i f ∧ parseRequest f.data = .request ctrl func (.ok hs) raw ∧
      f.broadcast = none ∧ func ≠ 0 ∧ func ≠ 1 ∧
      ((func = 3 ∧
          (s.deferred = none → ¬ isCut i = true →
            ¬ ∃ last, s.lastReq = some last ∧ last.seq = ctrl.seq ∧ last.frag = f.data) ∧
          (Outstation.step env s i).1.select = some ⟨ctrl.seq, f.id, stepNow s i, raw⟩ ∧
          SelectAllZero (Outstation.step env s i).2) ∨
       ((s.deferred = none → ¬ isCut i = true →
            ∃ last, s.lastReq = some last ∧ last.seq = ctrl.seq ∧ last.frag = f.data) ∧
          (∀ o ∈ (Outstation.step env s i).2, isExec o = false) ∧
          ∃ sel, s.select = some sel ∧
            func = 3 ∧ sel.seq = ctrl.seq ∧ (sel.frameId + 1) % 2 ^ 32 = f.id ∧ sel.objects = raw ∧
            (Outstation.step env s i).1.select = some { sel with frameId := f.id })) := by
  obtain ⟨a0, hst, hinv⟩ := step_inv env s i
  have hsel0 : ∀ x, x = a0.1.select → x = s.select ∨ (isCut i = true ∧ x = none) := by
    intro x hx
    rcases hst.select with h | ⟨hc, h⟩
    · exact .inl (hx.trans h)
    · exact .inr ⟨hc, hx.trans h⟩
  have hkeep : ∀ s1 : OState, (a0.1.deferred = none → lrKey s1.lastReq = lrKey a0.1.lastReq) →
      s.deferred = none → ¬ isCut i = true → lrKey s1.lastReq = lrKey s.lastReq := by
    intro s1 h1 hd hc
    rcases hst.keep with ⟨h2, h3⟩ | h2
    · rw [h1 (h3.trans hd), h2]
    · exact absurd h2 hc
  rcases hinv.cases with q | ⟨f, ctrl, func, objects, raw, s1, hd⟩
  · rcases hsel0 _ q.select with h | h
    · exact .inl h
    · exact .inr (.inl h)
  · have hcc := classify_cases s1 f ctrl func objects
    cases hd.sel with
    | keep h =>
      rcases hsel0 _ (h.trans hd.select1) with h | h
      · exact .inl h
      · exact .inr (.inl h)
    | set hfresh h3 hs' hz =>
      obtain ⟨hs, hc⟩ := hfresh
      rw [hc] at hcc
      obtain ⟨h0, h1, hb, hobj, hnd⟩ := hcc
      subst hobj
      refine .inr (.inr ⟨f, ctrl, func, hs, raw, hst.curFrag hd.was, hd.parse, hb, h0, h1, .inl ⟨h3, ?_, ?_, hz⟩⟩)
      · intro hdn hcut hex
        apply hnd
        exact (lrKey_dup (hkeep s1 hd.keep1 hdn hcut) ctrl.seq f.data).mpr hex
      · rw [hs', hd.now1, hst.now]
    | rebase sel hr hs1 hcond hs' =>
      have hrep := hd.rep hr
      obtain ⟨resp, hc⟩ := hr
      rw [hc] at hcc
      obtain ⟨h0, h1, hb, ⟨hs, hobj⟩, last, hl, hl1, hl2, -⟩ := hcc
      subst hobj
      have hsel : s.select = some sel := by
        rw [hd.select1] at hs1
        rcases hst.select with h | ⟨-, h⟩
        · rw [← h]; exact hs1
        · rw [h] at hs1; contradiction
      refine .inr (.inr ⟨f, ctrl, func, hs, raw, hst.curFrag hd.was, hd.parse, hb, h0, h1,
        .inr ⟨?_, hrep, sel, hsel, hcond.1, hcond.2.1, hcond.2.2.1, hcond.2.2.2, hs'⟩⟩)
      intro hdn hcut
      exact (lrKey_dup (hkeep s1 hd.keep1 hdn hcut) ctrl.seq f.data).mp ⟨last, hl, hl1, hl2⟩

/-- **C04.4**: the transport frame counter increases by exactly 1 (mod 2^32) for every delivered fragment
    and is unchanged by every other input (including `.cut` and rejected `.rx`). -/
theorem step_frameId (env : OEnv) (s : OState) (i : OInput) :
    (Outstation.step env s i).1.frameId =
      match i with
      | .rx src dst data =>
        if (rxAccept env s src dst data).isSome then (s.frameId + 1) % 2 ^ 32 else s.frameId
      | _ => s.frameId := by
  obtain ⟨a0, hst, hinv⟩ := step_inv env s i
  rw [hinv.frameId]
  rcases hst.frag with ⟨src, dst, data, f, hi, hr, -, hf⟩ | ⟨hf, -, hr⟩
  · subst hi
    simp [hr, hf]
  · cases i with
    | rx src dst data => simp [hr src dst data rfl, hf]
    | _ => exact hf

/-- the delivered fragment carries the pre-step counter as its id -/
theorem rxAccept_id {env : OEnv} {s : OState} {src dst : Nat} {data : List Nat} {f : Frag}
    (h : rxAccept env s src dst data = some f) : f.id = s.frameId ∧ f.data = data ∧ f.src = src := by
  unfold rxAccept at h
  dsimp only at h
  repeat' split at h
  all_goals first
    | contradiction
    | (simp only [Option.some.injEq] at h; subst h; exact ⟨rfl, rfl, rfl⟩)

/-- `cfg` never changes and `now` advances by exactly the tick -/
theorem step_cfg_now (env : OEnv) (s : OState) (i : OInput) :
    (Outstation.step env s i).1.cfg = s.cfg ∧ (Outstation.step env s i).1.now = stepNow s i := by
  obtain ⟨a0, hst, hinv⟩ := step_inv env s i
  exact ⟨hinv.cfg.trans hst.cfg, hinv.now.trans hst.now⟩

theorem step_dead_stays (env : OEnv) (s : OState) (i : OInput) (hd : isDead s = true) :
    isDead (Outstation.step env s i).1 = true := by
  rw [step_dead env s i hd]
  cases i <;> exact hd

/-- **C04.6 (every step consumes the fragment it works on)**: no fragment is left over for a later step — after
    every step of a live task the transport reader is empty (`pending = none`).  (The confirm waits may retain a
    fragment — `Confirm::NewRequest` — but the wait entered next, or the idle pass, handles it within the same
    step: `settle`.)  An input that is ignored (`setScript`, a rejected `.rx`, `.cut` …) keeps the state. -/
theorem step_pending (env : OEnv) (s : OState) (i : OInput) (h : s.pending = none ∨ isDead s = true) :
    (Outstation.step env s i).1.pending = none ∨ isDead (Outstation.step env s i).1 = true := by
  have conv : ∀ a : Acc, PendDone a → a.1.pending = none ∨ isDead a.1 = true := by
    intro a ha
    rcases ha with ha | ha
    · exact .inl ha
    · exact .inr ((isDead_iff _).mpr ha)
  cases hd : isDead s with
  | true => exact .inr (step_dead_stays env s i hd)
  | false =>
    have hpn : s.pending = none := by
      rcases h with h | h
      · exact h
      · rw [hd] at h; contradiction
    rw [step_eq_old env s i hd]
    cases i with
    | setScript g => exact .inl hpn
    | rx src dst data =>
      rw [step_rx_old]
      cases hr : rxAccept env s src dst data with
      | none => exact .inl hpn
      | some f => exact conv _ (quiesce_done _)
    | tick ms => exact conv _ (quiesce_done _)
    | txn items => rw [step_txn_old]; exact conv _ (quiesce_done _)
    | add t idx cls => exact conv _ (quiesce_done _)
    | cut =>
      unfold stepOld
      dsimp only
      split
      · exact .inl hpn
      · exact conv _ (quiesce_runPass_done _)

/-- the state after construction has no fragment pending -/
theorem start_pending (cfg : OCfg) (evMax : Nat) : (Outstation.start cfg evMax).1.pending = none := by
  unfold Outstation.start
  rw [finishStep_eq]
  exact ((runPass_pass _ _).trans (settle_pass _ _)).pending_none rfl

-- BEGIN EVAL (concrete evaluation of the model, including the current `Db` component)
/-! ## 12. Regression examples for the trace-level statement (defect D9 is repaired)

This section EVALUATES the model (including the current `Db` component) on concrete input lists. -/

/-- one g12v1 (CROB) object, qualifier 0x17, index 0 -/
def cexObjs : List Nat := [12, 1, 0x17, 1, 0, 3, 1, 100, 0, 0, 0, 100, 0, 0, 0, 0]
def cexSelect : List Nat := [0xC0, 3] ++ cexObjs
def cexWrite : List Nat := [0xC1, 0x02, 0x50, 0x01, 0x00, 0x07, 0x07, 0x00]
def cexOperate : List Nat := [0xC1, 4] ++ cexObjs
/-- a solicited CONFIRM, sequence number 0 -/
def cexConfirm : List Nat := [0xC0, 0]

/-- SELECT seq 0; WRITE seq 1; the identical WRITE again; OPERATE seq 1 with the SELECT's objects -/
def cexInputs : List OInput :=
  [.rx 1 1024 cexSelect, .rx 1 1024 cexWrite, .rx 1 1024 cexWrite, .rx 1 1024 cexOperate]

def sboCount (outs : List (List OOut)) : Nat := (outs.map fun l => (l.filter isSbo).length).sum

/-- **D9 regression** (the former counterexample run): the OPERATE after a WRITE and its retransmission is NOT
    executed any more — the retransmitted WRITE takes the `repeatNonRead` branch, which no longer re-bases the
    stored SELECT's frame id (only a retransmission of the SELECT itself does). -/
theorem operate_after_intervening_write_rejected :
    sboCount (Outstation.run {} (Outstation.start {} 10).1 cexInputs).2 = 0 := by
  decide +kernel

/-- without the retransmission the OPERATE is rejected as well -/
theorem operate_after_single_write_rejected :
    sboCount (Outstation.run {} (Outstation.start {} 10).1
      [.rx 1 1024 cexSelect, .rx 1 1024 cexWrite, .rx 1 1024 cexOperate]).2 = 0 := by
  decide +kernel

/-- and SELECT directly followed by OPERATE (seq 1) is executed exactly once -/
theorem select_operate_executed_once_example :
    sboCount (Outstation.run {} (Outstation.start {} 10).1
      [.rx 1 1024 cexSelect, .rx 1 1024 cexOperate]).2 = 1 := by
  decide +kernel

/-- the legitimate path still works: SELECT, its byte-identical retransmission (which re-bases the select's frame
    id), OPERATE — executed exactly once -/
theorem select_retransmitted_then_operate_example :
    sboCount (Outstation.run {} (Outstation.start {} 10).1
      [.rx 1 1024 cexSelect, .rx 1 1024 cexSelect, .rx 1 1024 cexOperate]).2 = 1 := by
  decide +kernel

/-- a stray fragment (here a solicited CONFIRM) between the SELECT and its retransmission breaks the chain: the
    retransmission does not directly follow the SELECT, the select is not re-based, the OPERATE is rejected -/
theorem select_stray_retransmitted_then_operate_rejected :
    sboCount (Outstation.run {} (Outstation.start {} 10).1
      [.rx 1 1024 cexSelect, .rx 1 1024 cexConfirm, .rx 1 1024 cexSelect, .rx 1 1024 cexOperate]).2 = 0 := by
  decide +kernel

-- END EVAL

/-! ## 13. Rejected OPERATE, and examples -/

/-- the verdict `handleControls` computes for a function-4 request -/
def operateVerdict (s : OState) (seq fid : Nat) (raw : List Nat) : Option Nat :=
  match s.select with
  | none => some 2
  | some sel => matchOperate sel s.cfg.stimeout s.now seq fid raw

theorem operateVerdict_none_iff (s : OState) (seq fid : Nat) (raw : List Nat) :
    operateVerdict s seq fid raw = none ↔ OperateOk s seq fid raw := by
  unfold operateVerdict OperateOk
  cases s.select with
  | none => simp
  | some sel => simp

/-- a rejected OPERATE is answered with status 2 (NoSelect) or 1 (Timeout), never 0 -/
theorem operateVerdict_status {s : OState} {seq fid : Nat} {raw : List Nat} {st : Nat}
    (h : operateVerdict s seq fid raw = some st) : st = 1 ∨ st = 2 := by
  unfold operateVerdict at h
  cases hs : s.select with
  | none => rw [hs] at h; simp at h; exact .inr h.symm
  | some sel => rw [hs] at h; exact match_operate_status_ne_zero _ _ _ _ _ _ _ h

/-- the echo loop of a rejected OPERATE: no handler is called (`kind = none`), every object is written
    back with status `st` -/
def rejectRun (a : Acc) (st : Nat) (hs : List ObjHdr) : CtlRun :=
  ctlAll none st none hs { acc := a, cap := a.1.cfg.sol - 4 }

/-- **C04.2 (rejection)**: an OPERATE that is not accepted actuates nothing: no callback of any kind is
    emitted, `select` is untouched, and the reply is the echo computed by `ctlAll none st none`, i.e. by the
    branch of the loop that calls no handler and writes `withStatus obj st` for every object that fits the
    solicited buffer (D1 repaired: an echo that does not fit is truncated, not a panic), where
    `st ∈ {1, 2}` is the verdict (`operateVerdict_status`); IIN2 is clean. -/
theorem operate_rejected (a : Acc) (seq fid : Nat) (hs : List ObjHdr) (raw : List Nat) (st : Nat)
    (hall : hs.all isControlHdr = true) (hv : operateVerdict a.1 seq fid raw = some st) :
    handleControls a 4 seq fid hs raw =
      some (({ a.1 with solBuf := writeAt a.1.solBuf 4 (rejectRun a st hs).out }, a.2),
        some (singleResponse seq 0 (4 + (rejectRun a st hs).out.length))) := by
  have c := ctlAll_crel none st none hs { acc := a, cap := a.1.cfg.sol - 4 }
  have hacc := c.noCall rfl
  have hst := c.started rfl
  have hfin : ctlFinish (ctlAll none st none hs { acc := a, cap := a.1.cfg.sol - 4 }) =
      ctlAll none st none hs { acc := a, cap := a.1.cfg.sol - 4 } := by
    unfold ctlFinish
    rw [hst]; rfl
  unfold operateVerdict at hv
  unfold handleControls
  simp only [hall, Bool.not_true, Bool.false_eq_true, if_false]
  simp only [show (4 : Nat) = 3 ↔ False by decide, if_false, if_true]
  split
  · rename_i st' heq
    have e : st' = st := by
      have := heq.symm.trans hv
      simpa using this
    subst e
    have hst4 : ¬ ((!(ctlAll none st' none hs { acc := a, cap := a.1.cfg.sol - 4 }).overflow) = true ∧ st' = 4) := by
      rintro ⟨-, h4⟩
      have hv' : operateVerdict a.1 seq fid raw = some st' := hv
      rcases operateVerdict_status hv' with h | h <;> omega
    rw [hfin, if_neg hst4]
    unfold rejectRun
    rw [hacc]
  · rename_i heq
    have := heq.symm.trans hv
    simp at this

/-- at the `handleNonRead` level: nothing is emitted and `select` is kept -/
theorem operate_rejected_no_callbacks {a a' : Acc} {seq fid : Nat} {hs : List ObjHdr} {raw : List Nat}
    {r : Option Resp} (h : handleNonRead a 4 seq fid hs raw = some (a', r))
    (hno : ¬ OperateOk a.1 seq fid raw) : a'.2 = a.2 ∧ a'.1.select = a.1.select := by
  obtain ⟨ok, hsel, hok, l, hl, -, hrej⟩ := (handleNonRead_spec h).sel
  have : ok = false := by
    cases ok
    · rfl
    · exact absurd (hok rfl) (by decide)
  subst this
  rw [hrej rfl hno] at hl
  exact ⟨by simpa using hl, by simpa using hsel⟩

/-- **C04.2 for `handleControls`/`handleNonRead`/`handleRequestFromIdle`** in one statement: an
    `.control .sbo` callback among the NEW outputs needs function 4 and an accepting `matchOperate`. -/
theorem handleNonRead_sbo_needs_match {a a' : Acc} {func seq fid : Nat} {hs : List ObjHdr} {raw : List Nat}
    {r : Option Resp} (h : handleNonRead a func seq fid hs raw = some (a', r)) :
    ∃ l, a'.2 = a.2 ++ l ∧ ∀ o ∈ l, isSbo o = true → func = 4 ∧ OperateOk a.1 seq fid raw := by
  obtain ⟨ok, -, -, l, hl, hctl, hrej⟩ := (handleNonRead_spec h).sel
  refine ⟨l, hl, fun o ho hsb => ?_⟩
  have hf4 : func = 4 := ctlOut_sbo (hctl o ho (isSbo_isControl hsb)).2 hsb
  refine ⟨hf4, Classical.byContradiction fun hno => ?_⟩
  rw [hrej hf4 hno] at ho
  simp at ho

theorem handleRequestFromIdle_sbo_needs_match {a a' : Acc} {f : Frag} {ctrl : AppCtrl} {func : Nat}
    {objects : Except Nat (List ObjHdr)} {raw : List Nat} {sr : Option Series}
    (h : handleRequestFromIdle a f ctrl func objects raw = some (a', sr)) :
    ∃ l, a'.2 = a.2 ++ l ∧ ∀ o ∈ l, isSbo o = true →
      func = 4 ∧ f.broadcast = none ∧ (∃ hs, objects = .ok hs) ∧ OperateOk a.1 ctrl.seq f.id raw := by
  obtain ⟨l, hl, hsbo, -, -⟩ := (idle_spec h).outs
  refine ⟨l, hl, fun o ho hs => ?_⟩
  obtain ⟨h4, ⟨hs', hc⟩, hok⟩ := hsbo o ho hs
  have hcc := classify_cases a.1 f ctrl func objects
  rw [hc] at hcc
  exact ⟨h4, hcc.2.2.1, ⟨hs', hcc.2.2.2.1⟩, hok⟩

-- examples: the hypotheses are satisfiable by concrete non-trivial instances
example : operateVerdict { (OState.init {} 0) with select := some ⟨3, 7, 100, [12, 1]⟩, now := 200 } 4 8 [12, 1] = none := by
  decide
example : operateVerdict { (OState.init {} 0) with select := some ⟨3, 7, 100, [12, 1]⟩, now := 200 } 4 9 [12, 1] = some 2 := by
  decide
example : operateVerdict (OState.init {} 0) 4 9 [12, 1] = some 2 := by decide
example : isSbo (.cb (.control .sbo 12 1 0 [3, 1] 0)) = true := rfl
example : isSbo (.cb (.control .dop 12 1 0 [3, 1] 0)) = false := rfl

/-! ## 14. Trace level -/

/-- an effective `.cut` (the task is alive) clears `select` -/
theorem step_cut_select (env : OEnv) (s : OState) (h : isDead s = false) :
    (Outstation.step env s .cut).1.select = none := by
  unfold Outstation.step
  dsimp only
  split
  · rename_i hd
    unfold isDead at h
    split at h
    · contradiction
    · rename_i hnd
      cases hm : s.mode <;> simp_all
  · have hinv := PassInv.of_pass (quiesce_runPass_pass
      ({ s with db := s.db.reset, lastReq := none, select := none, deferred := none, pending := none,
                mode := .idle .noSleep },
        [.line "session link stdio UnexpectedEof"])) (PassInv.start (by simp [isExec]))
    rcases hinv.cases with q | ⟨f, ctrl, func, objects, raw, s1, hd⟩
    · exact q.select
    · have := hd.was; simp at this

/-- the state after construction has no SELECT stored -/
theorem start_select (cfg : OCfg) (evMax : Nat) : (Outstation.start cfg evMax).1.select = none := by
  unfold Outstation.start
  have hinv := PassInv.of_pass (quiesce_runPass_pass (OState.init cfg evMax, [])) (PassInv.start (by simp))
  have e : finishStep (settle 8 (runPass passFuel (OState.init cfg evMax, []))) =
      finishStep (settle 8 (runPass passFuel (OState.init cfg evMax, []))) := rfl
  rcases hinv.cases with q | ⟨f, ctrl, func, objects, raw, s1, hd⟩
  · exact q.select
  · have := hd.was; simp [OState.init] at this

theorem run_append (env : OEnv) (s : OState) (l1 l2 : List OInput) :
    (Outstation.run env s (l1 ++ l2)).1 = (Outstation.run env (Outstation.run env s l1).1 l2).1 := by
  induction l1 generalizing s with
  | nil => rfl
  | cons i is ih =>
    simp only [List.cons_append, Outstation.run]
    exact ih _

/-- the state before input number `n` -/
def stateAt (env : OEnv) (s0 : OState) (inputs : List OInput) (n : Nat) : OState :=
  (Outstation.run env s0 (inputs.take n)).1

theorem stateAt_succ (env : OEnv) (s0 : OState) (inputs : List OInput) (n : Nat) (h : n < inputs.length) :
    stateAt env s0 inputs (n + 1) = (Outstation.step env (stateAt env s0 inputs n) inputs[n]).1 := by
  unfold stateAt
  rw [List.take_succ_eq_append_getElem h, run_append]
  simp [Outstation.run]

/-- outputs of step number `n` -/
def outsAt (env : OEnv) (s0 : OState) (inputs : List OInput) (n : Nat) (h : n < inputs.length) : List OOut :=
  (Outstation.step env (stateAt env s0 inputs n) inputs[n]).2

theorem stateAt_zero (env : OEnv) (s0 : OState) (inputs : List OInput) : stateAt env s0 inputs 0 = s0 := rfl

theorem stateAt_cfg_now (env : OEnv) (s0 : OState) (inputs : List OInput) (n : Nat) (h : n < inputs.length) :
    (stateAt env s0 inputs (n + 1)).cfg = (stateAt env s0 inputs n).cfg ∧
    (stateAt env s0 inputs (n + 1)).now = stepNow (stateAt env s0 inputs n) inputs[n] := by
  rw [stateAt_succ env s0 inputs n h]
  exact step_cfg_now env _ _

theorem stateAt_cfg (env : OEnv) (s0 : OState) (inputs : List OInput) (n : Nat) (h : n ≤ inputs.length) :
    (stateAt env s0 inputs n).cfg = s0.cfg := by
  induction n with
  | zero => rfl
  | succ n ih => rw [(stateAt_cfg_now env s0 inputs n (by omega)).1]; exact ih (by omega)

theorem CurFrag.delivered {env : OEnv} {s : OState} {i : OInput} {f : Frag} (h : CurFrag env s i f)
    (hp : s.pending = none) : ∃ src dst data, i = .rx src dst data ∧ rxAccept env s src dst data = some f := by
  rcases h with h | ⟨_, h⟩
  · exact h
  · rw [hp] at h; contradiction

theorem CurFrag.unique {env : OEnv} {s : OState} {i : OInput} {f g : Frag} (h : CurFrag env s i f)
    (h' : CurFrag env s i g) (hp : s.pending = none) : g = f := by
  obtain ⟨src, dst, data, hi, hr⟩ := h.delivered hp
  obtain ⟨src', dst', data', hi', hr'⟩ := h'.delivered hp
  rw [hi] at hi'
  simp only [OInput.rx.injEq] at hi'
  obtain ⟨rfl, rfl, rfl⟩ := hi'
  rw [hr] at hr'
  simpa using hr'.symm

/-- a delivered fragment carries the pre-step frame counter, and the counter advances by one (mod 2^32) -/
theorem step_frameId_delivered {env : OEnv} {s : OState} {i : OInput} {f : Frag} (h : CurFrag env s i f)
    (hp : s.pending = none) :
    (Outstation.step env s i).1.frameId = (s.frameId + 1) % 2 ^ 32 ∧ f.id = s.frameId := by
  obtain ⟨src, dst, data, rfl, hr⟩ := h.delivered hp
  have := step_frameId env s (.rx src dst data)
  simp only [hr, Option.isSome_some, if_true] at this
  exact ⟨this, (rxAccept_id hr).1⟩

/-- a step that works on no fragment leaves the frame counter alone -/
theorem step_frameId_idle {env : OEnv} {s : OState} {i : OInput} (h : ∀ f, ¬ CurFrag env s i f) :
    (Outstation.step env s i).1.frameId = s.frameId := by
  have := step_frameId env s i
  cases i with
  | rx src dst data =>
    cases hr : rxAccept env s src dst data with
    | none => simpa [hr] using this
    | some f => exact absurd (.inl ⟨src, dst, data, rfl, hr⟩) (h f)
  | _ => exact this

theorem stateAt_dead_succ (env : OEnv) (s0 : OState) (inputs : List OInput) (n : Nat) (h : n < inputs.length)
    (hd : isDead (stateAt env s0 inputs n) = true) : isDead (stateAt env s0 inputs (n + 1)) = true := by
  rw [stateAt_succ env s0 inputs n h]
  exact step_dead_stays env _ _ hd

/-- along a run from a state with an empty transport reader, the reader is empty before every step (unless the
    task died) -/
theorem stateAt_pending (env : OEnv) (s0 : OState) (h0 : s0.pending = none) (inputs : List OInput) (n : Nat)
    (hn : n ≤ inputs.length) :
    (stateAt env s0 inputs n).pending = none ∨ isDead (stateAt env s0 inputs n) = true := by
  induction n with
  | zero => exact .inl h0
  | succ n ih =>
    rw [stateAt_succ env s0 inputs n (by omega)]
    exact step_pending env _ _ (ih (by omega))

/-- every fragment delivered in the steps `j < m < n` is a retransmission of the SELECT (unicast, well-formed,
    function 3, sequence number `seq`, object octets `raw`), and step `m` executed nothing -/
def Retransmitted (env : OEnv) (s0 : OState) (inputs : List OInput) (j n seq : Nat) (raw : List Nat) : Prop :=
  ∀ (m : Nat) (hm : m < inputs.length), j < m → m < n →
    ∀ f, CurFrag env (stateAt env s0 inputs m) inputs[m] f →
      ∃ cm hsm, parseRequest f.data = .request cm 3 (.ok hsm) raw ∧ f.broadcast = none ∧ cm.seq = seq ∧
        ∀ o ∈ outsAt env s0 inputs m hm, isExec o = false

/-- `sel` was stored by the successful function-3 request of step `j < n` and survived — possibly re-based by
    retransmissions of that SELECT — up to (the state before) step `n`, with no effective `.cut` in between.
    Frame-counter bookkeeping (for runs from an empty transport reader, shorter than 2^32 steps, task alive):
    the counter is `d` ahead of `sel.frameId + 1`, where `d = 0` exactly as long as every fragment delivered
    since step `j` was a retransmission that re-based the select. -/
def SelFrom (env : OEnv) (s0 : OState) (inputs : List OInput) (n : Nat) (sel : Sel) : Prop :=
  ∃ (j : Nat) (hj : j < inputs.length), j < n ∧ ∃ f ctrl hs raw,
    CurFrag env (stateAt env s0 inputs j) inputs[j] f ∧
    parseRequest f.data = .request ctrl 3 (.ok hs) raw ∧ f.broadcast = none ∧
    SelectAllZero (outsAt env s0 inputs j hj) ∧
    sel.seq = ctrl.seq ∧ sel.objects = raw ∧
    sel.time = stepNow (stateAt env s0 inputs j) inputs[j] ∧
    (∀ (m : Nat) (hm : m < inputs.length), j < m → m < n → isCut inputs[m] = true →
      isDead (stateAt env s0 inputs m) = true) ∧
    (s0.pending = none → n ≤ 2 ^ 32 → isDead (stateAt env s0 inputs n) = false →
      ∃ d, d + j < n ∧ (stateAt env s0 inputs n).frameId = (sel.frameId + 1 + d) % 2 ^ 32 ∧
        (d = 0 → Retransmitted env s0 inputs j n ctrl.seq raw))

/-- provenance of the stored SELECT along any run from a state without one -/
theorem select_provenance (env : OEnv) (s0 : OState) (h0 : s0.select = none) (inputs : List OInput) (n : Nat)
    (hn : n ≤ inputs.length) (sel : Sel) (hs : (stateAt env s0 inputs n).select = some sel) :
    SelFrom env s0 inputs n sel := by
  induction n generalizing sel with
  | zero => rw [stateAt_zero, h0] at hs; contradiction
  | succ n ih =>
    have hlt : n < inputs.length := by omega
    have hsucc := stateAt_succ env s0 inputs n hlt
    have e32 : (2:Nat) ^ 32 = 4294967296 := by decide
    have hcut : isCut inputs[n] = true → isDead (stateAt env s0 inputs n) = true := by
      intro hc
      cases hdd : isDead (stateAt env s0 inputs n) with
      | true => rfl
      | false =>
        exfalso
        have hi : inputs[n] = .cut := by
          cases hin : inputs[n] <;> simp [hin, isCut] at hc
          rfl
        have := step_cut_select env _ hdd
        rw [← hi, ← hsucc, hs] at this
        contradiction
    -- alive after the step: alive before it, with an empty transport reader
    have halive : s0.pending = none → isDead (stateAt env s0 inputs (n + 1)) = false →
        isDead (stateAt env s0 inputs n) = false ∧ (stateAt env s0 inputs n).pending = none := by
      intro hp0 ha
      cases hdd : isDead (stateAt env s0 inputs n) with
      | true => rw [stateAt_dead_succ env s0 inputs n hlt hdd] at ha; contradiction
      | false =>
        refine ⟨rfl, ?_⟩
        rcases stateAt_pending env s0 hp0 inputs n (by omega) with h | h
        · exact h
        · rw [hdd] at h; contradiction
    have hcuts : ∀ j, (∀ (m : Nat) (hm : m < inputs.length), j < m → m < n → isCut inputs[m] = true →
          isDead (stateAt env s0 inputs m) = true) →
        ∀ (m : Nat) (hm : m < inputs.length), j < m → m < n + 1 → isCut inputs[m] = true →
          isDead (stateAt env s0 inputs m) = true := by
      intro j hr m hm hjm hmn hc
      by_cases hmn' : m < n
      · exact hr m hm hjm hmn' hc
      · have : m = n := by omega
        subst this
        exact hcut hc
    rw [hsucc] at hs
    rcases step_select_change env (stateAt env s0 inputs n) inputs[n] with h | ⟨-, h⟩ |
      ⟨f, ctrl, func, hs', raw, hcf, hp, hb, hf0, hf1, h⟩
    · -- unchanged
      rw [h] at hs
      obtain ⟨j, hj, hjn, fj, cj, hsj, rawj, hcfj, hpj, hbj, hz, e1, e2, e3, hr, hch⟩ := ih (by omega) sel hs
      refine ⟨j, hj, by omega, fj, cj, hsj, rawj, hcfj, hpj, hbj, hz, e1, e2, e3, hcuts j hr, ?_⟩
      intro hp0 hle ha
      obtain ⟨han, hpn⟩ := halive hp0 ha
      obtain ⟨d, hd1, hd2, hd3⟩ := hch hp0 (by omega) han
      rw [hsucc]
      by_cases hcur : ∃ g, CurFrag env (stateAt env s0 inputs n) inputs[n] g
      · obtain ⟨g, hg⟩ := hcur
        refine ⟨d + 1, by omega, ?_, fun h => by omega⟩
        rw [(step_frameId_delivered hg hpn).1, hd2, e32]
        omega
      · refine ⟨d, by omega, ?_, fun hd0 => ?_⟩
        · rw [step_frameId_idle (fun g hg => hcur ⟨g, hg⟩), hd2]
        · intro m hm hjm hmn g hg
          by_cases hmn' : m < n
          · exact hd3 hd0 m hm hjm hmn' g hg
          · have : m = n := by omega
            subst this
            exact absurd ⟨g, hg⟩ hcur
    · rw [h] at hs; contradiction
    · rcases h with ⟨h3, -, hsel, hz⟩ | ⟨-, hne, sel0, hsel0, h3, hq, hfid, hobj, hsel⟩
      · -- set by the SELECT of this step
        rw [hsel] at hs
        simp only [Option.some.injEq] at hs
        subst hs h3
        refine ⟨n, hlt, by omega, f, ctrl, hs', raw, hcf, hp, hb, hz, rfl, rfl, rfl,
          fun m _ h1 h2 => by omega, ?_⟩
        intro hp0 hle ha
        obtain ⟨han, hpn⟩ := halive hp0 ha
        obtain ⟨hF, hid⟩ := step_frameId_delivered hcf hpn
        refine ⟨0, by omega, ?_, fun _ m _ h1 h2 => by omega⟩
        rw [hsucc, hF]
        show _ = (f.id + 1 + 0) % 2 ^ 32
        rw [hid]
      · -- re-based by a retransmission of the SELECT
        rw [hsel] at hs
        simp only [Option.some.injEq] at hs
        subst hs h3
        obtain ⟨j, hj, hjn, fj, cj, hsj, rawj, hcfj, hpj, hbj, hz, e1, e2, e3, hr, hch⟩ := ih (by omega) sel0 hsel0
        refine ⟨j, hj, by omega, fj, cj, hsj, rawj, hcfj, hpj, hbj, hz, e1, e2, e3, hcuts j hr, ?_⟩
        intro hp0 hle ha
        obtain ⟨han, hpn⟩ := halive hp0 ha
        obtain ⟨d, hd1, hd2, hd3⟩ := hch hp0 (by omega) han
        obtain ⟨hF, hid⟩ := step_frameId_delivered hcf hpn
        have hd0 : d = 0 := by
          rw [← hid, ← hfid, e32] at hd2
          rw [e32] at hle
          omega
        refine ⟨0, by omega, ?_, fun _ => ?_⟩
        · rw [hsucc, hF]
          show _ = (f.id + 1 + 0) % 2 ^ 32
          rw [hid]
        · intro m hm hjm hmn g hg
          by_cases hmn' : m < n
          · exact hd3 hd0 m hm hjm hmn' g hg
          · have : m = n := by omega
            subst this
            have := CurFrag.unique hcf hg hpn
            subst this
            exact ⟨ctrl, hs', by rw [← e2, hobj]; exact hp, hb, by rw [← hq, e1], hne⟩

theorem outsAt_dead (env : OEnv) (s0 : OState) (inputs : List OInput) (k : Nat) (hk : k < inputs.length)
    (hd : isDead (stateAt env s0 inputs k) = true) : outsAt env s0 inputs k hk = [] := by
  unfold outsAt
  rw [step_dead env _ _ hd]

/-- **C04.5 (`operate_needs_select`, full trace statement)**: along EVERY input list, from any state without a
    stored SELECT (in particular `Outstation.start`), a select-before-operate actuation at step `k` implies a step
    `j < k` that handled a unicast, well-formed, new function-3 request whose handler statuses were all 0,
    with byte-identical raw objects and sequence number one less (mod 16), no effective `.cut` in between,
    and the clock advanced by at most `stimeout` between the two requests [so far: the former
    `operate_needs_select_partial`]; AND every fragment delivered strictly between `j` and `k` is a
    retransmission of that SELECT that executed nothing: for every `j < m < k` and every fragment `f` step `m`
    works on, `f` is unicast, parses as a well-formed function-3 request with the SELECT's object octets and the
    SELECT's sequence number, and no executing callback (`isExec`: control / write / freeze / time / restart,
    begin/end fragment) appears in the outputs of step `m`.

    Hypotheses of the last conjunct (stated inside, the first ten conjuncts are unconditional):
    * `s0.pending = none`: the transport reader is empty in the initial state (true after construction,
      `start_pending`; afterwards it is empty before every step, `step_pending`).  A fragment left in the reader
      of an arbitrary `s0` carries an arbitrary frame id, unrelated to the frame counter.
    * `k < 2 ^ 32`: the frame counter is a `u32` that wraps (`step_frameId`; Rust `u32::wrapping_add`), so
      after exactly 2^32 delivered fragments the id "select's id + 1" comes round again — in the model as in the
      Rust code.  Runs shorter than 2^32 inputs cannot alias. -/
theorem operate_needs_select (env : OEnv) (s0 : OState) (h0 : s0.select = none) (inputs : List OInput)
    (k : Nat) (hk : k < inputs.length) (o : OOut) (ho : o ∈ outsAt env s0 inputs k hk) (hsbo : isSbo o = true) :
    ∃ (j : Nat) (hj : j < inputs.length), j < k ∧ ∃ fj cj hsj fk ck hsk raw,
      CurFrag env (stateAt env s0 inputs j) inputs[j] fj ∧
      parseRequest fj.data = .request cj 3 (.ok hsj) raw ∧ fj.broadcast = none ∧
      SelectAllZero (outsAt env s0 inputs j hj) ∧
      CurFrag env (stateAt env s0 inputs k) inputs[k] fk ∧
      parseRequest fk.data = .request ck 4 (.ok hsk) raw ∧ fk.broadcast = none ∧
      ck.seq = seq4Next cj.seq ∧
      stepNow (stateAt env s0 inputs k) inputs[k] - stepNow (stateAt env s0 inputs j) inputs[j] ≤
        s0.cfg.stimeout ∧
      (∀ (m : Nat) (hm : m < inputs.length), j < m → m < k → isCut inputs[m] = true →
        isDead (stateAt env s0 inputs m) = true) ∧
      (s0.pending = none → k < 2 ^ 32 →
        ∀ (m : Nat) (hm : m < inputs.length), j < m → m < k →
          ∀ f, CurFrag env (stateAt env s0 inputs m) inputs[m] f →
            ∃ cm hsm, parseRequest f.data = .request cm 3 (.ok hsm) raw ∧ f.broadcast = none ∧
              cm.seq = cj.seq ∧ ∀ o ∈ outsAt env s0 inputs m hm, isExec o = false) := by
  obtain ⟨fk, ck, hsk, raw, sel, hcf, hp, hb, hsel, hm⟩ :=
    step_sbo_needs_match env (stateAt env s0 inputs k) inputs[k] o ho hsbo
  obtain ⟨m1, m2, m3, m4⟩ := (match_operate_iff _ _ _ _ _ _).mp hm
  obtain ⟨j, hj, hjk, fj, cj, hsj, rawj, hcfj, hpj, hbj, hz, e1, e2, e3, hr, hch⟩ :=
    select_provenance env s0 h0 inputs k (by omega) sel hsel
  rw [stateAt_cfg env s0 inputs k (by omega)] at m4
  subst e2
  refine ⟨j, hj, hjk, fj, cj, hsj, fk, ck, hsk, sel.objects, hcfj, hpj, hbj, hz, hcf, m3 ▸ hp, hb, ?_, ?_, hr, ?_⟩
  · rw [m1, e1]
  · rw [← e3]; exact m4
  · intro hp0 hlen
    have halive : isDead (stateAt env s0 inputs k) = false := by
      cases hdd : isDead (stateAt env s0 inputs k) with
      | false => rfl
      | true => rw [outsAt_dead env s0 inputs k hk hdd] at ho; simp at ho
    have hpk : (stateAt env s0 inputs k).pending = none := by
      rcases stateAt_pending env s0 hp0 inputs k (by omega) with h | h
      · exact h
      · rw [halive] at h; contradiction
    obtain ⟨d, hd1, hd2, hd3⟩ := hch hp0 (by omega) halive
    have hid := (step_frameId_delivered hcf hpk).2
    have e32 : (2:Nat) ^ 32 = 4294967296 := by decide
    have hd0 : d = 0 := by
      rw [← hid, m2, e32] at hd2
      rw [e32] at hlen
      omega
    exact hd3 hd0

/-- `operate_needs_select` applies to every run from the state after construction (`start_select`,
    `start_pending`); stated here for the SELECT step and the fragments in between only, the full conclusion is
    obtained by `operate_needs_select env _ (start_select cfg evMax) …` -/
theorem operate_needs_select_start (env : OEnv) (cfg : OCfg) (evMax : Nat) (inputs : List OInput)
    (k : Nat) (hk : k < inputs.length) (o : OOut)
    (ho : o ∈ outsAt env (Outstation.start cfg evMax).1 inputs k hk) (hsbo : isSbo o = true) :
    ∃ (j : Nat) (hj : j < inputs.length), j < k ∧ ∃ fj cj hsj raw,
      CurFrag env (stateAt env (Outstation.start cfg evMax).1 inputs j) inputs[j] fj ∧
      parseRequest fj.data = .request cj 3 (.ok hsj) raw ∧
      SelectAllZero (outsAt env (Outstation.start cfg evMax).1 inputs j hj) ∧
      (inputs.length < 2 ^ 32 →
        ∀ (m : Nat) (hm : m < inputs.length), j < m → m < k →
          ∀ f, CurFrag env (stateAt env (Outstation.start cfg evMax).1 inputs m) inputs[m] f →
            ∃ cm hsm, parseRequest f.data = .request cm 3 (.ok hsm) raw ∧ f.broadcast = none ∧
              cm.seq = cj.seq ∧ ∀ o ∈ outsAt env (Outstation.start cfg evMax).1 inputs m hm, isExec o = false) :=
  let ⟨j, hj, hjk, fj, cj, hsj, _, _, _, raw, h1, h2, _, h4, _, _, _, _, _, _, h11⟩ :=
    operate_needs_select env _ (start_select cfg evMax) inputs k hk o ho hsbo
  ⟨j, hj, hjk, fj, cj, hsj, raw, h1, h2, h4, fun hlen => h11 (start_pending cfg evMax) (by omega)⟩

-- BEGIN EVAL
-- the hypotheses of `operate_needs_select` are satisfiable: SELECT, its retransmission, OPERATE — step 2 actuates
-- (and the run is from a state with no stored SELECT and an empty transport reader, shorter than 2^32)
example : ∃ o ∈ outsAt {} (Outstation.start {} 10).1
    [.rx 1 1024 cexSelect, .rx 1 1024 cexSelect, .rx 1 1024 cexOperate] 2 (by decide), isSbo o = true := by
  decide +kernel
example : (Outstation.start {} 10).1.select = none ∧ (Outstation.start {} 10).1.pending = none :=
  ⟨start_select _ _, start_pending _ _⟩
example : (2 : Nat) < 2 ^ 32 := by decide

-- END EVAL

end Dnp3.Proofs.C04
