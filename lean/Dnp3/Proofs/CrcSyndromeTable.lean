import Dnp3.Model.CrcSerial
/-!
# CRC-16/DNP: the single-bit syndromes of an 18-octet block, and the weight-3 check

A block is `n ≤ 16` data octets followed by 2 CRC octets.  An octet `b` of an error pattern that has
`k` octets after it in the block contributes `contrib k b` to the syndrome (`k = 0`: high CRC octet,
`k = 1`: low CRC octet, `k ≥ 2`: data octet followed by `k - 2` further data octets).
`synTable n` lists the syndromes of the `8 n` single-bit errors of a block of `n` octets, first octet
first, least significant bit first; `synTable m` is a suffix of `synTable n` for `m ≤ n`
(positions are counted from the END of the block).

The only heavy computation of the development is `noSumPos3_synLit` (`decide +kernel`, ≈ 2.5 min):
no xor of 1, 2 or 3 distinct entries of `synTable 18` is zero.
-/
namespace Dnp3.Proofs.Crc
open Dnp3

/-- `m` octets of zeros through the serial CRC -/
def bs8pow : Nat → Nat → Nat
  | 0, x => x
  | m+1, x => bs8pow m (bitStep8 x)

/-- syndrome contribution of error octet `b` that has `k` octets after it in the block -/
def contrib : Nat → Nat → Nat
  | 0, b => 256 * b
  | k+1, b => bs8pow k b

/-- the eight single-bit syndromes of the octet with `k` octets after it, least significant bit first -/
def synRow (k : Nat) : List Nat :=
  [contrib k 1, contrib k 2, contrib k 4, contrib k 8, contrib k 16, contrib k 32, contrib k 64,
   contrib k 128]

/-- single-bit syndromes of a block of `n` octets (data and CRC), first octet first -/
def synTable : Nat → List Nat
  | 0 => []
  | n+1 => synRow n ++ synTable n

/-- `noSum T w target`: no xor of at most `w` entries of `T` (at distinct positions) equals `target` -/
def noSum : List Nat → Nat → Nat → Bool
  | [], _, target => target != 0
  | _ :: _, 0, target => target != 0
  | t :: T, w+1, target => noSum T w (target ^^^ t) && noSum T (w+1) target

/-- `noSumPos w T`: no xor of between 1 and `w` entries of `T` (at distinct positions) is zero -/
def noSumPos (w : Nat) : List Nat → Bool
  | [] => true
  | t :: T => noSum T (w-1) t && noSumPos w T


/-- `synTable 18` as a literal -/
def synLit : List Nat := [19852, 39704, 31561, 63122, 41053, 3523, 7046, 14092, 28184, 56368, 62745, 42827, 1007, 2014, 4028, 8056, 16112, 32224,
 64448, 47865, 14475, 28950, 57900, 35105, 24379, 48758, 12693, 25386, 50772, 49617, 52955, 53455, 60647, 38071, 25623,
 51246, 56613, 63283, 41759, 2887, 5774, 11548, 23096, 46192, 9625, 19250, 38500, 25009, 50018, 52157, 55811, 63871,
 49031, 12919, 25838, 51676, 57025, 61691, 44175, 5223, 10446, 20892, 41784, 2825, 5650, 11300, 22600, 45200, 11353,
 22706, 45412, 12209, 24418, 48836, 12529, 25058, 50116, 51953, 55451, 64591, 46567, 9911, 19822, 39644, 30913, 61826,
 44669, 4483, 8966, 17932, 35864, 21833, 43666, 6237, 12474, 24948, 49896, 51369, 56363, 62767, 42791, 823, 1646, 3292,
 6584, 13168, 26336, 52672, 55033, 57483, 35951, 21927, 43854, 7141, 14282, 28564, 57128, 62249, 43819, 6959, 13918,
 27836, 55672, 65417, 45675, 10671, 21342, 42684, 1, 2, 4, 8, 16, 32, 64, 128, 256, 512, 1024, 2048, 4096, 8192, 16384,
 32768]

theorem synTable18 : synTable 18 = synLit := by decide +kernel

/-- the finite fact: the 144 single-bit syndromes are non-zero, pairwise distinct, and no xor of two of
    them equals a third -/
theorem noSumPos3_synLit : noSumPos 3 synLit = true := by decide +kernel

theorem noSumPos3_synTable18 : noSumPos 3 (synTable 18) = true := by
  rw [synTable18]; exact noSumPos3_synLit

end Dnp3.Proofs.Crc
