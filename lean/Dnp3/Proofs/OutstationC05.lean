import Dnp3.Proofs.OutstationC04
/-!
# C05 — a retransmitted request is answered from memory and never executed twice

Uses the `Frame` / `Pass` / `PassInv` infrastructure of `Dnp3.Proofs.OutstationC04`.
Every `Db.*` function is treated as opaque.
-/
namespace Dnp3.Proofs.C05
open Dnp3 Dnp3.Proofs.C04

/-! ## 1. A repeated non-READ request is not executed -/

/-- the hypotheses of "this fragment is a retransmission of the last recorded non-READ request" -/
structure IsRepeat (s : OState) (f : Frag) (ctrl : AppCtrl) (func : Nat) (objects : Except Nat (List ObjHdr))
    (last : LastReq) : Prop where
  lastReq : s.lastReq = some last
  seq : last.seq = ctrl.seq
  frag : last.frag = f.data
  notConfirm : func ≠ 0
  notRead : func ≠ 1
  unicast : f.broadcast = none
  objectsOk : ∃ hs, objects = .ok hs

theorem classify_repeat {s : OState} {f : Frag} {ctrl : AppCtrl} {func : Nat}
    {objects : Except Nat (List ObjHdr)} {last : LastReq} (h : IsRepeat s f ctrl func objects last) :
    classify s f ctrl func objects = .repeatNonRead last.response := by
  obtain ⟨hs, rfl⟩ := h.objectsOk
  unfold classify
  simp [h.notConfirm, h.notRead, h.unicast, h.lastReq, h.seq, h.frag]

/-- **C05.1 (idle path)**: handling a retransmitted non-READ request from idle emits no executing
    callback: the new outputs are at most one transmitted fragment. -/
theorem repeat_nonread_not_executed_idle {a a' : Acc} {f : Frag} {ctrl : AppCtrl} {func : Nat}
    {objects : Except Nat (List ObjHdr)} {raw : List Nat} {sr : Option Series} {last : LastReq}
    (hr : IsRepeat a.1 f ctrl func objects last)
    (h : handleRequestFromIdle a f ctrl func objects raw = some (a', sr)) :
    ∃ l, a'.2 = a.2 ++ l ∧ ∀ o ∈ l, isExec o = false := by
  obtain ⟨l, hl, -, hrep, -⟩ := (idle_spec h).outs
  exact ⟨l, hl, hrep ⟨_, classify_repeat hr⟩⟩

/-- **C05.1 (any pass)**: if the retained fragment of `a0` is a retransmission of the last recorded
    non-READ request and no read is deferred, then a whole pass (idle, solicited confirm wait →
    `NewRequest` → idle, unsolicited confirm wait, any `settle` rounds) emits no executing callback. -/
theorem repeat_nonread_not_executed_pass {a0 c : Acc} {f : Frag} {ctrl : AppCtrl} {func : Nat}
    {objects : Except Nat (List ObjHdr)} {raw : List Nat} {last : LastReq}
    (hp : Pass a0 c) (h0 : ∀ o ∈ a0.2, isExec o = false) (hd : a0.1.deferred = none)
    (hf : a0.1.pending = some f) (hq : parseRequest f.data = .request ctrl func objects raw)
    (hr : IsRepeat a0.1 f ctrl func objects last) :
    ∀ o ∈ c.2, isExec o = false := by
  have hinv := PassInv.of_pass hp (PassInv.start h0)
  rcases hinv.cases with q | ⟨f', ctrl', func', objects', raw', s1, hh⟩
  · exact q.outs
  · have hff : f' = f := by
      have := hh.was; rw [hf] at this; simp at this; exact this.symm
    subst hff
    have hpp := hh.parse
    rw [hq] at hpp
    simp only [ReqParse.request.injEq] at hpp
    obtain ⟨rfl, rfl, rfl, rfl⟩ := hpp
    have hr1 : IsRepeat s1 f' ctrl func objects last :=
      ⟨(hh.keep1 hd).trans hr.lastReq, hr.seq, hr.frag, hr.notConfirm, hr.notRead, hr.unicast, hr.objectsOk⟩
    exact hh.rep ⟨_, classify_repeat hr1⟩

/-- **C05.1 (step level)**: in EVERY state with no deferred read (idle, confirm waits, …), receiving
    again the last recorded non-READ request (same sequence number, identical bytes, unicast, objects
    well-formed) fires no control / write / freeze / time / restart callback. -/
theorem repeat_nonread_not_executed (env : OEnv) (s : OState) (src dst : Nat) (data : List Nat) (f : Frag)
    {ctrl : AppCtrl} {func : Nat} {objects : Except Nat (List ObjHdr)} {raw : List Nat} {last : LastReq}
    (hacc : rxAccept env s src dst data = some f)
    (hq : parseRequest data = .request ctrl func objects raw)
    (hd : s.deferred = none)
    (hr : IsRepeat s f ctrl func objects last) :
    ∀ o ∈ (Outstation.step env s (.rx src dst data)).2, isExec o = false := by
  rw [step_rx, hacc]
  dsimp only
  have hdata := (rxAccept_id hacc).2.1
  have hq' : parseRequest f.data = .request ctrl func objects raw := by rw [hdata]; exact hq
  exact repeat_nonread_not_executed_pass (f := f) (last := last) (quiesce_pass _) (by simp) hd rfl hq'
    ⟨hr.lastReq, hr.seq, hr.frag, hr.notConfirm, hr.notRead, hr.unicast, hr.objectsOk⟩

/-! ## 2. What a repeat is answered with -/

theorem writeAt_zero (buf data : List Nat) : writeAt buf 0 data = data ++ buf.drop data.length := by
  simp [writeAt]

/-- re-writing the same header over a buffer that already carries it changes nothing -/
theorem writeAt_zero_idem (buf data : List Nat) : writeAt (writeAt buf 0 data) 0 data = writeAt buf 0 data := by
  simp [writeAt_zero]

/-- the octets `repeatSolicited` transmits, and its effect on the state -/
theorem repeatSolicited_eq (a : Acc) (dst : Nat) (r : Resp) :
    repeatSolicited a dst r =
      ({ a.1 with solBuf := writeAt a.1.solBuf 0 (respHeader r) },
        a.2 ++ [.tx dst ((writeAt a.1.solBuf 0 (respHeader r)).take (max 4 r.size))]) := rfl

theorem repeatUnsolicited_eq (a : Acc) (r : Resp) :
    repeatUnsolicited a r =
      ({ a.1 with unsolBuf := writeAt a.1.unsolBuf 0 (respHeader r) },
        a.2 ++ [.tx a.1.cfg.master ((writeAt a.1.unsolBuf 0 (respHeader r)).take (max 4 r.size))]) := rfl

theorem popRequest_of {s : OState} {f : Frag} {ctrl : AppCtrl} {func : Nat} {objects : Except Nat (List ObjHdr)}
    {raw : List Nat} (hp : s.pending = some f) (hq : parseRequest f.data = .request ctrl func objects raw)
    (hm : s.cfg.anymaster = true ∨ f.src = s.cfg.master) :
    popRequest s = (s, .request f ctrl func objects raw) := by
  unfold popRequest
  rw [hp]
  dsimp only
  rw [hq]
  dsimp only
  rcases hm with h | h <;> simp [h]

/-- **C05.1 / C05.2 (unsolicited confirm wait)**: a retransmitted non-READ request arriving during the
    unsolicited confirm wait is not executed; the model blocks again having transmitted exactly
    `repeatSolicited` of the stored response (nothing if no response was stored), i.e. the stored header
    written over the current solicited buffer, cut to the stored size. -/
theorem repeat_nonread_unsolwait {a : Acc} {f : Frag} {ctrl : AppCtrl} {func : Nat}
    {objects : Except Nat (List ObjHdr)} {raw : List Nat} {last : LastReq} (resp : Resp) (isNull : Bool)
    (hp : a.1.pending = some f) (hq : parseRequest f.data = .request ctrl func objects raw)
    (hm : a.1.cfg.anymaster = true ∨ f.src = a.1.cfg.master)
    (hr : IsRepeat a.1 f ctrl func objects last) :
    unsolWaitOnFragment a resp isNull = .blocked
      (match last.response with
       | some r =>
         ({ (popped a).1 with deferred := none, solBuf := writeAt a.1.solBuf 0 (respHeader r) },
           a.2 ++ [.tx f.src ((writeAt a.1.solBuf 0 (respHeader r)).take (max 4 r.size))])
       | none => ({ (popped a).1 with deferred := none }, a.2)) := by
  have hr' : IsRepeat (popped a).1 f ctrl func objects last :=
    ⟨hr.lastReq, hr.seq, hr.frag, hr.notConfirm, hr.notRead, hr.unicast, hr.objectsOk⟩
  have hc := classify_repeat hr'
  unfold unsolWaitOnFragment
  rw [popRequest_of hp hq hm]
  dsimp only
  change (match classify (popped a).1 f ctrl func objects with
        | .unsolConfirm seq => _ | .solConfirm _ => _ | .broadcast mode => _ | .malformed e => _
        | .newNonRead hs => _ | .newRead hs => _ | .repeatRead _ hs => _ | .repeatNonRead last => _) = _
  rw [hc]
  dsimp only
  cases last.response <;> rfl

/-- **C05.1 (unsolicited confirm wait)**: no executing callback -/
theorem repeat_nonread_not_executed_unsolwait {a : Acc} {f : Frag} {ctrl : AppCtrl} {func : Nat}
    {objects : Except Nat (List ObjHdr)} {raw : List Nat} {last : LastReq} (resp : Resp) (isNull : Bool)
    (hp : a.1.pending = some f) (hq : parseRequest f.data = .request ctrl func objects raw)
    (hm : a.1.cfg.anymaster = true ∨ f.src = a.1.cfg.master)
    (hr : IsRepeat a.1 f ctrl func objects last) :
    ∃ l, (accOf (unsolWaitOnFragment a resp isNull)).2 = a.2 ++ l ∧ ∀ o ∈ l, isExec o = false := by
  rw [repeat_nonread_unsolwait resp isNull hp hq hm hr]
  cases last.response with
  | none => exact ⟨[], by simp [accOf], by simp⟩
  | some r => exact ⟨[_], rfl, by simp [isExec]⟩

/-- **C05.2 (`repeat_nonread_same_bytes_unsolwait`)**: PROVIDED the solicited buffer still is what the
    original transmission left (`solBuf = writeAt b0 0 (respHeader r)`, `b0` the buffer the response `r`
    was originally sent from by `repeatSolicited`/`writeSolicited`), the octets re-sent during the
    unsolicited confirm wait are byte-for-byte the octets sent originally. -/
theorem repeat_nonread_same_bytes_unsolwait {a : Acc} {f : Frag} {ctrl : AppCtrl} {func : Nat}
    {objects : Except Nat (List ObjHdr)} {raw : List Nat} {last : LastReq} (resp : Resp) (isNull : Bool) (r : Resp)
    (b0 : List Nat) (a00 : Acc) (dst0 : Nat)
    (hp : a.1.pending = some f) (hq : parseRequest f.data = .request ctrl func objects raw)
    (hm : a.1.cfg.anymaster = true ∨ f.src = a.1.cfg.master)
    (hr : IsRepeat a.1 f ctrl func objects last) (hresp : last.response = some r)
    (horig : a00.1.solBuf = b0)                                -- the original transmission was from `b0`
    (hbuf : a.1.solBuf = (repeatSolicited a00 dst0 r).1.solBuf)  -- and the buffer was not overwritten since
    : ∃ bytes, (repeatSolicited a00 dst0 r).2 = a00.2 ++ [.tx dst0 bytes] ∧
        (accOf (unsolWaitOnFragment a resp isNull)).2 = a.2 ++ [.tx f.src bytes] := by
  rw [repeat_nonread_unsolwait resp isNull hp hq hm hr, hresp]
  refine ⟨(writeAt b0 0 (respHeader r)).take (max 4 r.size), by rw [repeatSolicited_eq, horig], ?_⟩
  simp only [accOf]
  rw [hbuf, repeatSolicited_eq, horig]
  dsimp only
  rw [writeAt_zero_idem]

/-! ## 3. Unsolicited retries -/

/-- **C05.3 (`unsol_retry_identical`)**: a retry after the unsolicited confirm timeout transmits the stored
    header over the current unsolicited buffer; PROVIDED `unsolBuf` still is what the original
    transmission (`repeatUnsolicited a00 resp`) left, the retry is byte-for-byte the original fragment. -/
theorem unsol_retry_identical (a : Acc) (resp : Resp) (isNull : Bool) (n : Option Nat) (a00 : Acc)
    (hretry : n ≠ some 0) (hd : a.1.deferred = none)
    (hbuf : a.1.unsolBuf = (repeatUnsolicited a00 resp).1.unsolBuf) :
    ∃ bytes a', (repeatUnsolicited a00 resp).2 = a00.2 ++ [.tx a00.1.cfg.master bytes] ∧
      unsolWaitTimeout a resp isNull n = .blocked a' ∧
      a'.2 = a.2 ++ [.cb (.unsolTimeout resp.ctrl.seq true), .tx a.1.cfg.master bytes] ∧
      a'.1.unsolBuf = a.1.unsolBuf := by
  refine ⟨(writeAt a00.1.unsolBuf 0 (respHeader resp)).take (max 4 resp.size), ?_⟩
  unfold unsolWaitTimeout
  rcases n with _ | _ | n
  · simp [hd, repeatUnsolicited_eq, emitCb, emit, hbuf, writeAt_zero_idem]
  · exact absurd rfl hretry
  · simp [hd, repeatUnsolicited_eq, emitCb, emit, hbuf, writeAt_zero_idem]

/-- the state `handleRequestFromIdle` answers a repeat in: the stored SELECT's frame id re-based -/
def rebased (s : OState) (f : Frag) : OState :=
  match s.select with
  | some sel => { s with select := some { sel with frameId := f.id } }
  | none => s

theorem writeSolicited_of_iin {a : Acc} {dst : Nat} {r : Resp} {s' : OState} {i1 i2 : Nat}
    (hg : getResponseIin a.1 = some (s', i1, i2)) :
    writeSolicited a dst r =
      some (repeatSolicited (s', a.2) dst
        (if s'.lastBroadcast = some 1 then
          { ({ r with iin1 := r.iin1 ||| i1, iin2 := r.iin2 ||| i2 } : Resp) with
            ctrl := { r.ctrl with con := true } }
         else { r with iin1 := r.iin1 ||| i1, iin2 := r.iin2 ||| i2 }),
        (if s'.lastBroadcast = some 1 then
          { ({ r with iin1 := r.iin1 ||| i1, iin2 := r.iin2 ||| i2 } : Resp) with
            ctrl := { r.ctrl with con := true } }
         else { r with iin1 := r.iin1 ||| i1, iin2 := r.iin2 ||| i2 })) := by
  unfold writeSolicited
  simp only [hg]

theorem idleResult_repeat {a : Acc} {f : Frag} {ctrl : AppCtrl} {func : Nat}
    {objects : Except Nat (List ObjHdr)} {raw : List Nat} {last : LastReq}
    (hr : IsRepeat a.1 f ctrl func objects last) :
    idleResult a f ctrl func objects raw =
      some ((rebased a.1 f, a.2), some ⟨ctrl.seq, f.data, last.response, none⟩) := by
  unfold idleResult
  rw [classify_repeat hr]
  rfl

/-- **C05.2 (`repeat_nonread_idle_reors_iin`, finding D14)**: in the idle path the reply to a retransmitted
    non-READ request is NOT the stored response verbatim: `writeSolicited` ORs the CURRENT IIN (and possibly
    the CON bit after a confirm-required broadcast) into the stored header before re-sending it.
    Exact relation: new iin1 = stored iin1 ||| current iin1, new iin2 = stored iin2 ||| current iin2. -/
theorem repeat_nonread_idle_reors_iin {a : Acc} {f : Frag} {ctrl : AppCtrl} {func : Nat}
    {objects : Except Nat (List ObjHdr)} {raw : List Nat} {last : LastReq} {r : Resp}
    {s' : OState} {i1 i2 : Nat}
    (hr : IsRepeat a.1 f ctrl func objects last) (hresp : last.response = some r)
    (hg : getResponseIin (rebased a.1 f) = some (s', i1, i2)) :
    let r1 : Resp := { r with iin1 := r.iin1 ||| i1, iin2 := r.iin2 ||| i2 }
    let r2 : Resp := if s'.lastBroadcast = some 1 then { r1 with ctrl := { r1.ctrl with con := true } } else r1
    ∃ a' sr, handleRequestFromIdle a f ctrl func objects raw = some (a', sr) ∧
      a'.2 = a.2 ++ [.tx f.src ((writeAt a.1.solBuf 0 (respHeader r2)).take (max 4 r2.size))] ∧
      a'.1.lastReq = some ⟨ctrl.seq, f.data, some r2, sr⟩ := by
  intro r1 r2
  have hsb : s'.solBuf = a.1.solBuf := by
    obtain ⟨lb, rfl⟩ := getResponseIin_shape hg
    unfold rebased
    split <;> rfl
  rw [handleRequestFromIdle_eq, idleResult_repeat hr]
  unfold idleTail
  simp only [hresp]
  rw [writeSolicited_of_iin (a := (rebased a.1 f, a.2)) hg]
  refine ⟨_, _, rfl, ?_, rfl⟩
  rw [repeatSolicited_eq, hsb]

-- BEGIN EVAL (concrete evaluation of the model, including the current `Db` component)
/-- D14 on a concrete trace (this EVALUATES the model including the current `Db` component):
    DELAY MEASURE seq 0, then a broadcast RECORD CURRENT TIME, then DELAY MEASURE seq 0 again: the repeat is
    answered with IIN1 = 0x81 (broadcast bit OR-ed in) while the original answer carried IIN1 = 0x80. -/
def d14Inputs : List OInput := [.rx 1 1024 [0xC0, 23], .rx 1 0xFFFF [0xC1, 24], .rx 1 1024 [0xC0, 23]]

theorem repeat_nonread_idle_reors_iin_counterexample :
    (Outstation.run {} (Outstation.start {} 10).1 d14Inputs).2.map txFrags =
      [[(1, [192, 129, 128, 0, 52, 2, 7, 1, 0, 0])], [], [(1, [192, 129, 129, 0, 52, 2, 7, 1, 0, 0])]] ∧
    (Outstation.run {} (Outstation.start {} 10).1 d14Inputs).2.map (fun l => (l.filter isExec).length) = [0, 0, 0] := by
  decide +kernel
-- END EVAL

/-- the model never writes `unsolBuf` while it stays in the unsolicited confirm wait: -/
structure KeepsUnsol (a a' : Acc) : Prop where
  unsolBuf : a'.1.unsolBuf = a.1.unsolBuf
  mode : a'.1.mode = a.1.mode ∨ a'.1.mode = .dead

theorem KeepsUnsol.of_shape {a : Acc} {s' : OState} {l : List OOut}
    (h1 : s'.unsolBuf = a.1.unsolBuf) (h2 : s'.mode = a.1.mode) : KeepsUnsol a (s', l) := ⟨h1, .inl h2⟩

/-- **C05.3 (invariant)**: a fragment handled during the unsolicited confirm wait never touches `unsolBuf`:
    either the series ends (`finishUnsol`, entered with `unsolBuf` unchanged) or the task blocks again (or
    dies) with `unsolBuf` — and, unless it died, the wait mode — unchanged. -/
theorem unsolWaitOnFragment_keeps_unsolBuf (a : Acc) (resp : Resp) (isNull : Bool) :
    (∃ a1 c, unsolWaitOnFragment a resp isNull = finishUnsol a1 isNull c ∧ a1.1.unsolBuf = a.1.unsolBuf) ∨
    KeepsUnsol a (accOf (unsolWaitOnFragment a resp isNull)) := by
  unfold unsolWaitOnFragment
  cases hp : popRequest a.1 with
  | mk s p =>
    have hs : s.unsolBuf = a.1.unsolBuf ∧ s.mode = a.1.mode := by
      have : s = (popRequest a.1).1 := by rw [hp]
      rw [this]; unfold popRequest
      repeat' split
      all_goals exact ⟨rfl, rfl⟩
    cases p with
    | nothing => dsimp only; exact .inr ⟨hs.1, .inl hs.2⟩
    | error src seq =>
      dsimp only
      split
      · exact .inr ⟨hs.1, .inr rfl⟩
      · rename_i a' hw
        unfold writeErrorResponse at hw
        split at hw
        · simp only [Option.some.injEq] at hw; subst hw; exact .inr ⟨hs.1, .inl hs.2⟩
        · split at hw
          · contradiction
          · rename_i a2 r2 hws
            obtain ⟨lb, sb, bytes, rfl⟩ := writeSolicited_shape hws
            simp only [Option.some.injEq] at hw; subst hw
            exact .inr ⟨hs.1, .inl hs.2⟩
    | request f ctrl func objects raw =>
      dsimp only
      split
      · -- unsolConfirm
        split
        · exact .inl ⟨_, _, rfl, hs.1⟩
        · exact .inr ⟨hs.1, .inl hs.2⟩
      · -- solConfirm
        split <;> exact .inr ⟨hs.1, .inl hs.2⟩
      · -- broadcast
        split
        · exact .inr ⟨hs.1, .inr rfl⟩
        · rename_i b hb
          have sp := processBroadcast_spec hb
          exact .inr ⟨sp.unsolBuf.trans hs.1, .inl (sp.mode.trans hs.2)⟩
      · -- malformed
        split
        · exact .inr ⟨hs.1, .inr rfl⟩
        · rename_i b r' hw
          obtain ⟨lb, sb, bytes, rfl⟩ := writeSolicited_shape hw
          exact .inr ⟨hs.1, .inl hs.2⟩
      · -- newNonRead
        split
        · exact .inr ⟨hs.1, .inr rfl⟩
        · rename_i a2 r hn
          have sp := handleNonRead_spec hn
          split
          · exact .inr ⟨sp.unsolBuf.trans hs.1, .inr rfl⟩
          · rename_i a3 r3 hw
            have h3 : a3.1.unsolBuf = a2.1.unsolBuf ∧ a3.1.mode = a2.1.mode := by
              cases r with
              | none =>
                simp only [Option.some.injEq, Prod.mk.injEq] at hw
                obtain ⟨rfl, -⟩ := hw
                exact ⟨rfl, rfl⟩
              | some r0 =>
                dsimp only at hw
                split at hw
                · contradiction
                · rename_i a4 r4 hws
                  obtain ⟨lb, sb, bytes, rfl⟩ := writeSolicited_shape hws
                  simp only [Option.some.injEq, Prod.mk.injEq] at hw
                  obtain ⟨rfl, -⟩ := hw
                  exact ⟨rfl, rfl⟩
            split
            · exact .inl ⟨_, _, rfl, h3.1.trans (sp.unsolBuf.trans hs.1)⟩
            · exact .inr ⟨h3.1.trans (sp.unsolBuf.trans hs.1), .inl (h3.2.trans (sp.mode.trans hs.2))⟩
      · -- newRead
        rename_i hs' _
        obtain ⟨d, hd⟩ := deferredSet_shape (onLinkActivity { s with pending := none }) f ctrl.seq hs'
        refine .inr ?_
        simp only [accOf]
        rw [hd]
        exact ⟨hs.1, .inl hs.2⟩
      · rename_i rr hs' _
        obtain ⟨d, hd⟩ := deferredSet_shape (onLinkActivity { s with pending := none }) f ctrl.seq hs'
        refine .inr ?_
        simp only [accOf]
        rw [hd]
        exact ⟨hs.1, .inl hs.2⟩
      · -- repeatNonRead
        split
        · exact .inr ⟨hs.1, .inl hs.2⟩
        · exact .inr ⟨hs.1, .inl hs.2⟩

/-! ## 4. Examples: the hypotheses are satisfiable by concrete, non-trivial instances -/

/-- a state that recorded DELAY MEASURE seq 0 as its last request -/
def exS : OState := { OState.init {} 0 with lastReq := some ⟨0, [0xC0, 23], some (emptySolicited 0 0), none⟩ }
def exF : Frag := ⟨0, 1, none, [0xC0, 23]⟩

example : IsRepeat exS exF (AppCtrl.ofNat 0xC0) 23 (.ok []) ⟨0, [0xC0, 23], some (emptySolicited 0 0), none⟩ :=
  ⟨rfl, by decide, rfl, by decide, by decide, rfl, ⟨[], rfl⟩⟩
example : rxAccept {} exS 1 1024 [0xC0, 23] = some exF := by rfl
example : parseRequest [0xC0, 23] = .request (AppCtrl.ofNat 0xC0) 23 (.ok []) [] := by rfl
example : exS.deferred = none := rfl
example : exS.cfg.anymaster = true ∨ exF.src = exS.cfg.master := .inr rfl

/-- `unsol_retry_identical` / `repeat_nonread_same_bytes_unsolwait`: the "buffer not overwritten" hypothesis
    holds e.g. directly after the original transmission -/
example (a00 : Acc) (resp : Resp) :
    (repeatUnsolicited a00 resp).1.unsolBuf = (repeatUnsolicited a00 resp).1.unsolBuf := rfl
example : (some 3 : Option Nat) ≠ some 0 := by decide

/-! ## 5. Echo of a READ repeated during the solicited confirm wait -/

/-- **C05.4 (`resend_is_earlier_fragment_partial`)**: a READ repeated during the solicited confirm wait
    (same sequence number and bytes as the last recorded request) is answered by `repeatSolicited` of the
    STORED response header over the CURRENT solicited buffer.  PROVIDED the buffer still is what the
    transmission of that stored response left (true for single-fragment responses, where the stored response
    is the fragment awaiting confirmation), the echo is byte-for-byte that fragment.

    NOT proved here: `echo_splice_counterexample` (defect D5).  For a multi-fragment response `lastReq.response`
    keeps the FIRST fragment's header/size while `solBuf` already holds a later fragment, so the hypothesis
    `hbuf` fails and the echo is a mixture; exhibiting that needs a `Db.writeResponse` returning a
    non-complete result, which the current `Db` stub never does. -/
theorem resend_is_earlier_fragment_partial {a : Acc} {f : Frag} {ctrl : AppCtrl}
    {objects : Except Nat (List ObjHdr)} {raw : List Nat} {last : LastReq} {hs : List ObjHdr} {r : Resp}
    (series : Series) (deadline : Nat) (cont : SolCont) (a00 : Acc) (dst0 : Nat)
    (hp : a.1.pending = some f) (hq : parseRequest f.data = .request ctrl 1 objects raw)
    (hm : a.1.cfg.anymaster = true ∨ f.src = a.1.cfg.master)
    (hl : a.1.lastReq = some last) (hseq : last.seq = ctrl.seq) (hfrag : last.frag = f.data)
    (hu : f.broadcast = none) (hobj : objects = .ok hs) (hresp : last.response = some r)
    (hbuf : a.1.solBuf = (repeatSolicited a00 dst0 r).1.solBuf) :
    ∃ bytes a', (repeatSolicited a00 dst0 r).2 = a00.2 ++ [.tx dst0 bytes] ∧
      solWaitOnFragment a series deadline cont = .blocked a' ∧
      a'.2 = a.2 ++ [.tx f.src bytes] ∧ a'.1.solBuf = a.1.solBuf := by
  have hc : classify (onLinkActivity a.1) f ctrl 1 objects = .repeatRead (some r) hs := by
    subst hobj
    unfold classify
    have : (onLinkActivity a.1).lastReq = some last := hl
    simp [hu, this, hseq, hfrag, hresp]
  refine ⟨(writeAt a00.1.solBuf 0 (respHeader r)).take (max 4 r.size), ?_⟩
  unfold solWaitOnFragment
  rw [popRequest_of hp hq hm]
  dsimp only
  rw [hc]
  dsimp only
  have e : (onLinkActivity a.1).solBuf = writeAt a00.1.solBuf 0 (respHeader r) := hbuf
  refine ⟨_, rfl, rfl, ?_, ?_⟩
  · simp [repeatSolicited_eq, e, writeAt_zero_idem]
  · simp only [repeatSolicited_eq]
    rw [e, writeAt_zero_idem]
    exact hbuf.symm

end Dnp3.Proofs.C05
