import Dnp3.Proofs.OutstationC04
/-!
# C05 — a retransmitted request is answered from memory and never executed twice

Uses the `Frame` / `Pass` / `PassInv` infrastructure of `Dnp3.Proofs.OutstationC04`.
Every `Db.*` function is treated as opaque.
-/
namespace Dnp3.Proofs.C05
open Dnp3 Dnp3.Proofs.C04

/-! ## 1. A repeated non-READ request is not executed -/

/-- the hypotheses of "this fragment is a retransmission of the last recorded non-READ request" -/
structure IsRepeat (s : OState) (f : Frag) (ctrl : AppCtrl) (func : Nat) (objects : Except Nat (List ObjHdr))
    (last : LastReq) : Prop where
  lastReq : s.lastReq = some last
  seq : last.seq = ctrl.seq
  frag : last.frag = f.data
  notConfirm : func ≠ 0
  notRead : func ≠ 1
  unicast : f.broadcast = none
  objectsOk : ∃ hs, objects = .ok hs

theorem classify_repeat {s : OState} {f : Frag} {ctrl : AppCtrl} {func : Nat}
    {objects : Except Nat (List ObjHdr)} {last : LastReq} (h : IsRepeat s f ctrl func objects last) :
    classify s f ctrl func objects = .repeatNonRead last.response := by
  obtain ⟨hs, rfl⟩ := h.objectsOk
  unfold classify
  simp [h.notConfirm, h.notRead, h.unicast, h.lastReq, h.seq, h.frag]

/-- **C05.1 (idle path)**: handling a retransmitted non-READ request from idle emits no executing
    callback: the new outputs are at most one transmitted fragment. -/
theorem repeat_nonread_not_executed_idle {a a' : Acc} {f : Frag} {ctrl : AppCtrl} {func : Nat}
    {objects : Except Nat (List ObjHdr)} {raw : List Nat} {sr : Option Series} {last : LastReq}
    (hr : IsRepeat a.1 f ctrl func objects last)
    (h : handleRequestFromIdle a f ctrl func objects raw = some (a', sr)) :
    ∃ l, a'.2 = a.2 ++ l ∧ ∀ o ∈ l, isExec o = false := by
  obtain ⟨l, hl, -, hrep, -⟩ := (idle_spec h).outs
  exact ⟨l, hl, hrep ⟨_, classify_repeat hr⟩⟩

/-- **C05.1 (any pass)**: if the retained fragment of `a0` is a retransmission of the last recorded
    non-READ request and no read is deferred, then a whole pass (idle, solicited confirm wait →
    `NewRequest` → idle, unsolicited confirm wait, any `settle` rounds) emits no executing callback. -/
theorem repeat_nonread_not_executed_pass {a0 c : Acc} {f : Frag} {ctrl : AppCtrl} {func : Nat}
    {objects : Except Nat (List ObjHdr)} {raw : List Nat} {last : LastReq}
    (hp : Pass a0 c) (h0 : ∀ o ∈ a0.2, isExec o = false) (hd : a0.1.deferred = none)
    (hf : a0.1.pending = some f) (hq : parseRequest f.data = .request ctrl func objects raw)
    (hr : IsRepeat a0.1 f ctrl func objects last) :
    ∀ o ∈ c.2, isExec o = false := by
  have hinv := PassInv.of_pass hp (PassInv.start h0)
  rcases hinv.cases with q | ⟨f', ctrl', func', objects', raw', s1, hh⟩
  · exact q.outs
  · have hff : f' = f := by
      have := hh.was; rw [hf] at this; simp at this; exact this.symm
    subst hff
    have hpp := hh.parse
    rw [hq] at hpp
    simp only [ReqParse.request.injEq] at hpp
    obtain ⟨rfl, rfl, rfl, rfl⟩ := hpp
    -- `s1` records a request with the same sequence number and octets (its stored response may differ)
    obtain ⟨last1, hl1, hs1, hf1⟩ :=
      (lrKey_dup (hh.keep1 hd) ctrl.seq f'.data).mpr ⟨last, hr.lastReq, hr.seq, hr.frag⟩
    have hr1 : IsRepeat s1 f' ctrl func objects last1 :=
      ⟨hl1, hs1, hf1, hr.notConfirm, hr.notRead, hr.unicast, hr.objectsOk⟩
    exact hh.rep ⟨_, classify_repeat hr1⟩

/-- **C05.1 (step level)**: in EVERY state with no deferred read (idle, confirm waits, …), receiving
    again the last recorded non-READ request (same sequence number, identical bytes, unicast, objects
    well-formed) fires no control / write / freeze / time / restart callback. -/
theorem repeat_nonread_not_executed (env : OEnv) (s : OState) (src dst : Nat) (data : List Nat) (f : Frag)
    {ctrl : AppCtrl} {func : Nat} {objects : Except Nat (List ObjHdr)} {raw : List Nat} {last : LastReq}
    (hacc : rxAccept env s src dst data = some f)
    (hq : parseRequest data = .request ctrl func objects raw)
    (hd : s.deferred = none)
    (hr : IsRepeat s f ctrl func objects last) :
    ∀ o ∈ (Outstation.step env s (.rx src dst data)).2, isExec o = false := by
  rw [step_rx, hacc]
  dsimp only
  have hdata := (rxAccept_id hacc).2.1
  have hq' : parseRequest f.data = .request ctrl func objects raw := by rw [hdata]; exact hq
  exact repeat_nonread_not_executed_pass (f := f) (last := last) (quiesce_pass _) (by simp) hd rfl hq'
    ⟨hr.lastReq, hr.seq, hr.frag, hr.notConfirm, hr.notRead, hr.unicast, hr.objectsOk⟩

/-! ## 2. What a repeat is answered with -/

theorem writeAt_zero (buf data : List Nat) : writeAt buf 0 data = data ++ buf.drop data.length := by
  simp [writeAt]

/-- re-writing the same header over a buffer that already carries it changes nothing -/
theorem writeAt_zero_idem (buf data : List Nat) : writeAt (writeAt buf 0 data) 0 data = writeAt buf 0 data := by
  simp [writeAt_zero]

/-- the octets `repeatSolicited` transmits, and its effect on the state -/
theorem repeatSolicited_eq (a : Acc) (dst : Nat) (r : Resp) :
    repeatSolicited a dst r =
      ({ a.1 with solBuf := writeAt a.1.solBuf 0 (respHeader r) },
        a.2 ++ [.tx dst ((writeAt a.1.solBuf 0 (respHeader r)).take (max 4 r.size))]) := rfl

theorem repeatUnsolicited_eq (a : Acc) (r : Resp) :
    repeatUnsolicited a r =
      ({ a.1 with unsolBuf := writeAt a.1.unsolBuf 0 (respHeader r) },
        a.2 ++ [.tx a.1.cfg.master ((writeAt a.1.unsolBuf 0 (respHeader r)).take (max 4 r.size))]) := rfl

theorem popRequest_of {s : OState} {f : Frag} {ctrl : AppCtrl} {func : Nat} {objects : Except Nat (List ObjHdr)}
    {raw : List Nat} (hp : s.pending = some f) (hq : parseRequest f.data = .request ctrl func objects raw)
    (hm : s.cfg.anymaster = true ∨ f.src = s.cfg.master) :
    popRequest s = (s, .request f ctrl func objects raw) := by
  unfold popRequest
  rw [hp]
  dsimp only
  rw [hq]
  dsimp only
  rcases hm with h | h <;> simp [h]

/-- **C05.1 / C05.2 (unsolicited confirm wait)**: a retransmitted non-READ request arriving during the
    unsolicited confirm wait is not executed; the model blocks again having transmitted exactly
    `repeatSolicited` of the stored response (nothing if no response was stored), i.e. the stored header
    written over the current solicited buffer, cut to the stored size. -/
theorem repeat_nonread_unsolwait {a : Acc} {f : Frag} {ctrl : AppCtrl} {func : Nat}
    {objects : Except Nat (List ObjHdr)} {raw : List Nat} {last : LastReq} (resp : Resp) (isNull : Bool)
    (hp : a.1.pending = some f) (hq : parseRequest f.data = .request ctrl func objects raw)
    (hm : a.1.cfg.anymaster = true ∨ f.src = a.1.cfg.master)
    (hr : IsRepeat a.1 f ctrl func objects last) :
    unsolWaitOnFragment a resp isNull = .blocked
      (match last.response with
       | some r =>
         ({ (popped a).1 with deferred := none, solBuf := writeAt a.1.solBuf 0 (respHeader r) },
           a.2 ++ [.tx f.src ((writeAt a.1.solBuf 0 (respHeader r)).take (max 4 r.size))])
       | none => ({ (popped a).1 with deferred := none }, a.2)) := by
  have hr' : IsRepeat (popped a).1 f ctrl func objects last :=
    ⟨hr.lastReq, hr.seq, hr.frag, hr.notConfirm, hr.notRead, hr.unicast, hr.objectsOk⟩
  have hc := classify_repeat hr'
  unfold unsolWaitOnFragment
  rw [popRequest_of hp hq hm]
  dsimp only
  change (match classify (popped a).1 f ctrl func objects with
        | .unsolConfirm seq => _ | .solConfirm _ => _ | .broadcast mode => _ | .malformed e => _
        | .newNonRead hs => _ | .newRead hs => _ | .repeatRead _ hs => _ | .repeatNonRead last => _) = _
  rw [hc]
  dsimp only
  cases last.response <;> rfl

/-- **C05.1 (unsolicited confirm wait)**: no executing callback -/
theorem repeat_nonread_not_executed_unsolwait {a : Acc} {f : Frag} {ctrl : AppCtrl} {func : Nat}
    {objects : Except Nat (List ObjHdr)} {raw : List Nat} {last : LastReq} (resp : Resp) (isNull : Bool)
    (hp : a.1.pending = some f) (hq : parseRequest f.data = .request ctrl func objects raw)
    (hm : a.1.cfg.anymaster = true ∨ f.src = a.1.cfg.master)
    (hr : IsRepeat a.1 f ctrl func objects last) :
    ∃ l, (accOf (unsolWaitOnFragment a resp isNull)).2 = a.2 ++ l ∧ ∀ o ∈ l, isExec o = false := by
  rw [repeat_nonread_unsolwait resp isNull hp hq hm hr]
  cases last.response with
  | none => exact ⟨[], by simp [accOf], by simp⟩
  | some r => exact ⟨[_], rfl, by simp [isExec]⟩

/-- **C05.2 (`repeat_nonread_same_bytes_unsolwait`)**: PROVIDED the solicited buffer still is what the
    original transmission left (`solBuf = writeAt b0 0 (respHeader r)`, `b0` the buffer the response `r`
    was originally sent from by `repeatSolicited`/`writeSolicited`), the octets re-sent during the
    unsolicited confirm wait are byte-for-byte the octets sent originally. -/
theorem repeat_nonread_same_bytes_unsolwait {a : Acc} {f : Frag} {ctrl : AppCtrl} {func : Nat}
    {objects : Except Nat (List ObjHdr)} {raw : List Nat} {last : LastReq} (resp : Resp) (isNull : Bool) (r : Resp)
    (b0 : List Nat) (a00 : Acc) (dst0 : Nat)
    (hp : a.1.pending = some f) (hq : parseRequest f.data = .request ctrl func objects raw)
    (hm : a.1.cfg.anymaster = true ∨ f.src = a.1.cfg.master)
    (hr : IsRepeat a.1 f ctrl func objects last) (hresp : last.response = some r)
    (horig : a00.1.solBuf = b0)                                -- the original transmission was from `b0`
    (hbuf : a.1.solBuf = (repeatSolicited a00 dst0 r).1.solBuf)  -- and the buffer was not overwritten since
    : ∃ bytes, (repeatSolicited a00 dst0 r).2 = a00.2 ++ [.tx dst0 bytes] ∧
        (accOf (unsolWaitOnFragment a resp isNull)).2 = a.2 ++ [.tx f.src bytes] := by
  rw [repeat_nonread_unsolwait resp isNull hp hq hm hr, hresp]
  refine ⟨(writeAt b0 0 (respHeader r)).take (max 4 r.size), by rw [repeatSolicited_eq, horig], ?_⟩
  simp only [accOf]
  rw [hbuf, repeatSolicited_eq, horig]
  dsimp only
  rw [writeAt_zero_idem]

/-! ## 3. Unsolicited retries -/

/-- **C05.3 (`unsol_retry_identical`)**: a retry after the unsolicited confirm timeout transmits the stored
    header over the current unsolicited buffer; PROVIDED `unsolBuf` still is what the original
    transmission (`repeatUnsolicited a00 resp`) left, the retry is byte-for-byte the original fragment. -/
theorem unsol_retry_identical (a : Acc) (resp : Resp) (isNull : Bool) (n : Option Nat) (a00 : Acc)
    (hretry : n ≠ some 0) (hd : a.1.deferred = none)
    (hbuf : a.1.unsolBuf = (repeatUnsolicited a00 resp).1.unsolBuf) :
    ∃ bytes a', (repeatUnsolicited a00 resp).2 = a00.2 ++ [.tx a00.1.cfg.master bytes] ∧
      unsolWaitTimeout a resp isNull n = .blocked a' ∧
      a'.2 = a.2 ++ [.cb (.unsolTimeout resp.ctrl.seq true), .tx a.1.cfg.master bytes] ∧
      a'.1.unsolBuf = a.1.unsolBuf := by
  refine ⟨(writeAt a00.1.unsolBuf 0 (respHeader resp)).take (max 4 resp.size), ?_⟩
  unfold unsolWaitTimeout
  rcases n with _ | _ | n
  · simp [hd, repeatUnsolicited_eq, emitCb, emit, hbuf, writeAt_zero_idem]
  · exact absurd rfl hretry
  · simp [hd, repeatUnsolicited_eq, emitCb, emit, hbuf, writeAt_zero_idem]

/-- the state `handleRequestFromIdle` answers a repeat in: the stored SELECT's frame id is re-based exactly if
    the fragment is a retransmission of that SELECT (function 3, its sequence number, its object octets) that
    directly follows it (`update_frame_id_on_repeat`); every other field is `s`'s -/
def rebased (s : OState) (f : Frag) (ctrl : AppCtrl) (func : Nat) (raw : List Nat) : OState :=
  match s.select with
  | some sel =>
    if func = 3 ∧ sel.seq = ctrl.seq ∧ (sel.frameId + 1) % 4294967296 = f.id ∧ sel.objects = raw then
      { s with select := some { sel with frameId := f.id } }
    else s
  | none => s

/-- `rebased` changes `select` only -/
theorem rebased_shape (s : OState) (f : Frag) (ctrl : AppCtrl) (func : Nat) (raw : List Nat) :
    ∃ sel, rebased s f ctrl func raw = { s with select := sel } := by
  unfold rebased
  split
  · split
    · exact ⟨_, rfl⟩
    · exact ⟨s.select, rfl⟩
  · exact ⟨s.select, rfl⟩

theorem writeSolicited_of_iin {a : Acc} {dst : Nat} {r : Resp} {s' : OState} {i1 i2 : Nat}
    (hg : getResponseIin a.1 = some (s', i1, i2)) :
    writeSolicited a dst r =
      some (repeatSolicited (s', a.2) dst
        (if s'.lastBroadcast = some 1 then
          { ({ r with iin1 := r.iin1 ||| i1, iin2 := r.iin2 ||| i2 } : Resp) with
            ctrl := { r.ctrl with con := true } }
         else { r with iin1 := r.iin1 ||| i1, iin2 := r.iin2 ||| i2 }),
        (if s'.lastBroadcast = some 1 then
          { ({ r with iin1 := r.iin1 ||| i1, iin2 := r.iin2 ||| i2 } : Resp) with
            ctrl := { r.ctrl with con := true } }
         else { r with iin1 := r.iin1 ||| i1, iin2 := r.iin2 ||| i2 })) := by
  unfold writeSolicited
  simp only [hg]

theorem idleResult_repeat {a : Acc} {f : Frag} {ctrl : AppCtrl} {func : Nat}
    {objects : Except Nat (List ObjHdr)} {raw : List Nat} {last : LastReq}
    (hr : IsRepeat a.1 f ctrl func objects last) :
    idleResult a f ctrl func objects raw =
      some ((rebased a.1 f ctrl func raw, a.2), some (last, true)) := by
  have hl : (rebased a.1 f ctrl func raw).lastReq = some last := by
    obtain ⟨sel, h⟩ := rebased_shape a.1 f ctrl func raw
    rw [h]; exact hr.lastReq
  have hlast : (⟨ctrl.seq, f.data, last.response, last.series⟩ : LastReq) = last := by
    rw [← hr.seq, ← hr.frag]
  unfold idleResult
  rw [classify_repeat hr]
  show some ((rebased a.1 f ctrl func raw, a.2),
    some ((⟨ctrl.seq, f.data, last.response, (rebased a.1 f ctrl func raw).lastReq.bind (·.series)⟩ : LastReq), true)) = _
  rw [hl]
  show some ((rebased a.1 f ctrl func raw, a.2),
    some ((⟨ctrl.seq, f.data, last.response, last.series⟩ : LastReq), true)) = _
  rw [hlast]

/-- **C05.2 (`repeat_nonread_idle`, idle path; defect D14 is repaired)**: a retransmitted non-READ request handled
    from idle is answered by `repeatSolicited` of the STORED response — the stored header written over the current
    solicited buffer, cut to the stored size; nothing if no response was stored — and NOT through
    `writeSolicited`: no IIN is evaluated (so `lastBroadcast`, `restart`, `db` are untouched and no current IIN
    bit or CON bit is OR-ed in), the record of the request (`lastReq`: sequence number, octets, response, and
    the confirm wait its response opened, which is returned as the series to wait on) stays exactly as it is,
    and nothing is executed.  The state afterwards is `rebased …` (only a retransmission of the stored SELECT
    moves that select's frame id, see `Dnp3.Proofs.C04.step_select_change`) with the header written into
    `solBuf`. -/
theorem repeat_nonread_idle {a : Acc} {f : Frag} {ctrl : AppCtrl} {func : Nat}
    {objects : Except Nat (List ObjHdr)} {raw : List Nat} {last : LastReq}
    (hr : IsRepeat a.1 f ctrl func objects last) :
    ∃ a', handleRequestFromIdle a f ctrl func objects raw = some (a', last.series) ∧
      a'.2 = a.2 ++ (match last.response with
        | some r => [.tx f.src ((writeAt a.1.solBuf 0 (respHeader r)).take (max 4 r.size))]
        | none => []) ∧
      a'.1 = { rebased a.1 f ctrl func raw with
                solBuf := match last.response with
                  | some r => writeAt a.1.solBuf 0 (respHeader r)
                  | none => a.1.solBuf } ∧
      a'.1.lastReq = a.1.lastReq ∧ a'.1.lastBroadcast = a.1.lastBroadcast ∧ a'.1.restart = a.1.restart ∧
      a'.1.db = a.1.db ∧ a'.1.deferred = a.1.deferred ∧ a'.1.mode = a.1.mode ∧
      ∀ o ∈ a'.2, o ∈ a.2 ∨ isExec o = false := by
  obtain ⟨sel, hsh⟩ := rebased_shape a.1 f ctrl func raw
  rw [handleRequestFromIdle_eq, idleResult_repeat hr]
  cases hresp : last.response with
  | none =>
    simp only [idleTail, hresp]
    refine ⟨_, rfl, by simp, ?_, ?_, ?_, ?_, ?_, ?_, ?_, ?_⟩
    all_goals first
      | (simp only [hsh]; done)
      | (simp only [hsh, hr.lastReq]; done)
      | (intro o ho; exact .inl ho)
  | some r =>
    simp only [idleTail, hresp, if_true, repeatSolicited_eq]
    refine ⟨_, rfl, by simp only [hsh], ?_, ?_, ?_, ?_, ?_, ?_, ?_, ?_⟩
    all_goals first
      | (simp only [hsh]; done)
      | (simp only [hsh, hr.lastReq]; done)
      | (intro o ho
         rcases List.mem_append.mp ho with h | h
         · exact .inl h
         · simp at h; subst h; exact .inr rfl)

/-- **C05.2 (`repeat_nonread_same_bytes_idle`)**: PROVIDED the solicited buffer still is what the original
    transmission left (`solBuf = writeAt b0 0 (respHeader r)`, `b0` the buffer the response `r` was originally sent
    from by `repeatSolicited`/`writeSolicited`), the octets re-sent from idle are byte-for-byte the octets sent
    originally; the buffer and the stored request are left as they were, so the statement applies again to a
    further repeat. -/
theorem repeat_nonread_same_bytes_idle {a : Acc} {f : Frag} {ctrl : AppCtrl} {func : Nat}
    {objects : Except Nat (List ObjHdr)} {raw : List Nat} {last : LastReq} (r : Resp)
    (b0 : List Nat) (a00 : Acc) (dst0 : Nat)
    (hr : IsRepeat a.1 f ctrl func objects last) (hresp : last.response = some r)
    (horig : a00.1.solBuf = b0)                                -- the original transmission was from `b0`
    (hbuf : a.1.solBuf = (repeatSolicited a00 dst0 r).1.solBuf)  -- and the buffer was not overwritten since
    : ∃ bytes a', (repeatSolicited a00 dst0 r).2 = a00.2 ++ [.tx dst0 bytes] ∧
        handleRequestFromIdle a f ctrl func objects raw = some (a', last.series) ∧
        a'.2 = a.2 ++ [.tx f.src bytes] ∧ a'.1.solBuf = a.1.solBuf ∧ a'.1.lastReq = a.1.lastReq := by
  obtain ⟨a', h1, h2, h3, h4, -⟩ := repeat_nonread_idle (raw := raw) hr
  obtain ⟨sel, hsh⟩ := rebased_shape a.1 f ctrl func raw
  refine ⟨(writeAt b0 0 (respHeader r)).take (max 4 r.size), a', by rw [repeatSolicited_eq, horig], h1, ?_, ?_, h4⟩
  · rw [h2, hresp]
    dsimp only
    rw [hbuf, repeatSolicited_eq, horig]
    dsimp only
    rw [writeAt_zero_idem]
  · rw [h3, hresp, hsh]
    dsimp only
    rw [hbuf, repeatSolicited_eq, horig]
    dsimp only
    rw [writeAt_zero_idem]

-- BEGIN EVAL (concrete evaluation of the model, including the current `Db` component)
/-- the former D14 trace: DELAY MEASURE seq 0, then a broadcast RECORD CURRENT TIME, then DELAY MEASURE seq 0
    again (a retransmission, handled from idle) -/
def d14Inputs : List OInput := [.rx 1 1024 [0xC0, 23], .rx 1 0xFFFF [0xC1, 24], .rx 1 1024 [0xC0, 23]]

/-- **D14 regression** (this EVALUATES the model including the current `Db` component): the repeat is answered
    with the SAME octets as the original request (IIN1 = 0x80 both times; before the repair the broadcast bit
    IIN1.0 was OR-ed into the repeated response, 0x81), and nothing is executed. -/
theorem repeat_nonread_idle_verbatim_example :
    (Outstation.run {} (Outstation.start {} 10).1 d14Inputs).2.map txFrags =
      [[(1, [192, 129, 128, 0, 52, 2, 7, 1, 0, 0])], [], [(1, [192, 129, 128, 0, 52, 2, 7, 1, 0, 0])]] ∧
    (Outstation.run {} (Outstation.start {} 10).1 d14Inputs).2.map (fun l => (l.filter isExec).length) = [0, 0, 0] := by
  decide +kernel

/-- finding D31 (the residue of D14): DISABLE UNSOLICITED seq 0 whose object header is truncated (`3C 02`), then a
    broadcast RECORD CURRENT TIME, then the same octets again -/
def d27Inputs : List OInput :=
  [.rx 1 1024 [0xC0, 21, 0x3C, 0x02], .rx 1 0xFFFF [0xC1, 24], .rx 1 1024 [0xC0, 21, 0x3C, 0x02]]

/-- **`repeat_malformed_reanswered_counterexample` (finding D31)**: the C05.2 statements above are about repeats
    whose objects parse (`IsRepeat.objectsOk`).  A byte-identical repeat of a request whose OBJECTS do not parse is
    classified `.malformed` before the duplicate check (`repeat_malformed_not_classified`), so it is answered
    afresh: the second reply carries the CURRENT IIN1 (0x81: the broadcast bit) where the original carried 0x80.
    Nothing is executed either time. -/
theorem repeat_malformed_reanswered_counterexample :
    (Outstation.run {} (Outstation.start {} 10).1 d27Inputs).2.map txFrags =
      [[(1, [192, 129, 128, 4])], [], [(1, [192, 129, 129, 4])]] ∧
    (Outstation.run {} (Outstation.start {} 10).1 d27Inputs).2.map (fun l => (l.filter isExec).length) = [0, 0, 0] := by
  decide +kernel
-- END EVAL

/-- exact characterisation of finding D31: whatever the last recorded request is, a unicast non-CONFIRM fragment
    whose objects do not parse is classified `.malformed` — never as a repeat -/
theorem repeat_malformed_not_classified (s : OState) (f : Frag) (ctrl : AppCtrl) (func : Nat) (e : Nat)
    (hf : func ≠ 0) (hb : f.broadcast = none) :
    classify s f ctrl func (.error e) = .malformed e := by
  unfold classify
  simp [hf, hb]

example : classify (Outstation.start {} 10).1 ⟨0, 1, none, [0xC0, 21, 0x3C, 0x02]⟩ (AppCtrl.ofNat 0xC0) 21 (.error 4) =
    .malformed 4 :=
  repeat_malformed_not_classified _ _ _ _ _ (by decide) rfl

/-- the model never writes `unsolBuf` while it stays in the unsolicited confirm wait: -/
structure KeepsUnsol (a a' : Acc) : Prop where
  unsolBuf : a'.1.unsolBuf = a.1.unsolBuf
  mode : a'.1.mode = a.1.mode ∨ a'.1.mode = .dead

theorem KeepsUnsol.of_shape {a : Acc} {s' : OState} {l : List OOut}
    (h1 : s'.unsolBuf = a.1.unsolBuf) (h2 : s'.mode = a.1.mode) : KeepsUnsol a (s', l) := ⟨h1, .inl h2⟩

/-- **C05.3 (invariant)**: a fragment handled during the unsolicited confirm wait never touches `unsolBuf`:
    either the series ends (`finishUnsol`, entered with `unsolBuf` unchanged) or the task blocks again (or
    dies) with `unsolBuf` — and, unless it died, the wait mode — unchanged. -/
theorem unsolWaitOnFragment_keeps_unsolBuf (a : Acc) (resp : Resp) (isNull : Bool) :
    (∃ a1 c, unsolWaitOnFragment a resp isNull = finishUnsol a1 isNull c ∧ a1.1.unsolBuf = a.1.unsolBuf) ∨
    KeepsUnsol a (accOf (unsolWaitOnFragment a resp isNull)) := by
  unfold unsolWaitOnFragment
  cases hp : popRequest a.1 with
  | mk s p =>
    have hs : s.unsolBuf = a.1.unsolBuf ∧ s.mode = a.1.mode := by
      have : s = (popRequest a.1).1 := by rw [hp]
      rw [this]; unfold popRequest
      repeat' split
      all_goals exact ⟨rfl, rfl⟩
    cases p with
    | nothing => dsimp only; exact .inr ⟨hs.1, .inl hs.2⟩
    | error src bc seq =>
      dsimp only
      split
      · exact .inr ⟨hs.1, .inr rfl⟩
      · rename_i a' hw
        unfold writeErrorResponse at hw
        split at hw
        · simp only [Option.some.injEq] at hw; subst hw; exact .inr ⟨hs.1, .inl hs.2⟩
        split at hw
        · simp only [Option.some.injEq] at hw; subst hw; exact .inr ⟨hs.1, .inl hs.2⟩
        · split at hw
          · contradiction
          · rename_i a2 r2 hws
            obtain ⟨lb, sb, bytes, rfl⟩ := writeSolicited_shape hws
            simp only [Option.some.injEq] at hw; subst hw
            exact .inr ⟨hs.1, .inl hs.2⟩
    | request f ctrl func objects raw =>
      dsimp only
      split
      · -- unsolConfirm
        split
        · exact .inl ⟨_, _, rfl, hs.1⟩
        · exact .inr ⟨hs.1, .inl hs.2⟩
      · -- solConfirm
        split <;> exact .inr ⟨hs.1, .inl hs.2⟩
      · -- broadcast
        split
        · exact .inr ⟨hs.1, .inr rfl⟩
        · rename_i b hb
          have sp := processBroadcast_spec hb
          exact .inr ⟨sp.unsolBuf.trans hs.1, .inl (sp.mode.trans hs.2)⟩
      · -- malformed
        split
        · exact .inr ⟨hs.1, .inr rfl⟩
        · rename_i b r' hw
          obtain ⟨lb, sb, bytes, rfl⟩ := writeSolicited_shape hw
          exact .inr ⟨hs.1, .inl hs.2⟩
      · -- newNonRead
        split
        · exact .inr ⟨hs.1, .inr rfl⟩
        · rename_i a2 r hn
          have sp := handleNonRead_spec hn
          split
          · exact .inr ⟨sp.unsolBuf.trans hs.1, .inr rfl⟩
          · rename_i a3 r3 hw
            have h3 : a3.1.unsolBuf = a2.1.unsolBuf ∧ a3.1.mode = a2.1.mode := by
              cases r with
              | none =>
                simp only [Option.some.injEq, Prod.mk.injEq] at hw
                obtain ⟨rfl, -⟩ := hw
                exact ⟨rfl, rfl⟩
              | some r0 =>
                dsimp only at hw
                split at hw
                · contradiction
                · rename_i a4 r4 hws
                  obtain ⟨lb, sb, bytes, rfl⟩ := writeSolicited_shape hws
                  simp only [Option.some.injEq, Prod.mk.injEq] at hw
                  obtain ⟨rfl, -⟩ := hw
                  exact ⟨rfl, rfl⟩
            split
            · exact .inl ⟨_, _, rfl, h3.1.trans (sp.unsolBuf.trans hs.1)⟩
            · exact .inr ⟨h3.1.trans (sp.unsolBuf.trans hs.1), .inl (h3.2.trans (sp.mode.trans hs.2))⟩
      · -- newRead
        rename_i hs' _
        obtain ⟨d, hd⟩ := deferredSet_shape (onLinkActivity { s with pending := none }) f ctrl.seq hs'
        refine .inr ?_
        simp only [accOf]
        rw [hd]
        exact ⟨hs.1, .inl hs.2⟩
      · rename_i rr hs' _
        obtain ⟨d, hd⟩ := deferredSet_shape (onLinkActivity { s with pending := none }) f ctrl.seq hs'
        refine .inr ?_
        simp only [accOf]
        rw [hd]
        exact ⟨hs.1, .inl hs.2⟩
      · -- repeatNonRead
        split
        · exact .inr ⟨hs.1, .inl hs.2⟩
        · exact .inr ⟨hs.1, .inl hs.2⟩

/-! ## 4. Examples: the hypotheses are satisfiable by concrete, non-trivial instances -/

/-- a state that recorded DELAY MEASURE seq 0 as its last request -/
def exS : OState := { OState.init {} 0 with lastReq := some ⟨0, [0xC0, 23], some (emptySolicited 0 0), none⟩ }
def exF : Frag := ⟨0, 1, none, [0xC0, 23]⟩

example : IsRepeat exS exF (AppCtrl.ofNat 0xC0) 23 (.ok []) ⟨0, [0xC0, 23], some (emptySolicited 0 0), none⟩ :=
  ⟨rfl, by decide, rfl, by decide, by decide, rfl, ⟨[], rfl⟩⟩
example : rxAccept {} exS 1 1024 [0xC0, 23] = some exF := by rfl
example : parseRequest [0xC0, 23] = .request (AppCtrl.ofNat 0xC0) 23 (.ok []) [] := by rfl
example : exS.deferred = none := rfl
example : exS.cfg.anymaster = true ∨ exF.src = exS.cfg.master := .inr rfl

-- `repeat_nonread_idle` applies to `exS`, `exF` (the retransmission handled from idle)
example := repeat_nonread_idle (a := (exS, [])) (f := exF) (ctrl := AppCtrl.ofNat 0xC0) (func := 23)
  (objects := .ok []) (raw := []) (last := ⟨0, [0xC0, 23], some (emptySolicited 0 0), none⟩)
  ⟨rfl, by decide, rfl, by decide, by decide, rfl, ⟨[], rfl⟩⟩
-- and so does `repeat_nonread_same_bytes_idle`, in the state right after the original transmission from `exS`
example := repeat_nonread_same_bytes_idle
  (a := ((repeatSolicited (exS, []) 1 (emptySolicited 0 0)).1, [])) (f := exF) (ctrl := AppCtrl.ofNat 0xC0) (func := 23)
  (objects := .ok []) (raw := []) (last := ⟨0, [0xC0, 23], some (emptySolicited 0 0), none⟩)
  (emptySolicited 0 0) exS.solBuf (exS, []) 1
  ⟨rfl, by decide, rfl, by decide, by decide, rfl, ⟨[], rfl⟩⟩ rfl rfl rfl

/-- `unsol_retry_identical` / `repeat_nonread_same_bytes_unsolwait` / `repeat_nonread_same_bytes_idle`: the
    "buffer not overwritten" hypothesis holds e.g. directly after the original transmission -/
example (a00 : Acc) (resp : Resp) :
    (repeatUnsolicited a00 resp).1.unsolBuf = (repeatUnsolicited a00 resp).1.unsolBuf := rfl
example : (some 3 : Option Nat) ≠ some 0 := by decide

/-! ## 5. Echo of a READ repeated during the solicited confirm wait -/

/-- **C05.4 (`resend_is_stored_fragment`)**: a READ repeated during the solicited confirm wait
    (same sequence number and bytes as the last recorded request) is answered by `repeatSolicited` of the
    STORED response header over the CURRENT solicited buffer.  PROVIDED the buffer still is what the
    transmission of that stored response left, the echo is byte-for-byte that fragment; the buffer and the
    stored request are left as they were, so the statement applies again to a further repeat.

    (Since the repair of defect D5 the stored response is the fragment awaiting confirmation for EVERY
    fragment of a series — `continuation_is_stored` — so the proviso holds throughout the confirm wait:
    `resend_is_awaited_fragment`.) -/
theorem resend_is_stored_fragment {a : Acc} {f : Frag} {ctrl : AppCtrl}
    {objects : Except Nat (List ObjHdr)} {raw : List Nat} {last : LastReq} {hs : List ObjHdr} {r : Resp}
    (series : Series) (deadline : Nat) (cont : SolCont) (a00 : Acc) (dst0 : Nat)
    (hp : a.1.pending = some f) (hq : parseRequest f.data = .request ctrl 1 objects raw)
    (hm : a.1.cfg.anymaster = true ∨ f.src = a.1.cfg.master)
    (hl : a.1.lastReq = some last) (hseq : last.seq = ctrl.seq) (hfrag : last.frag = f.data)
    (hu : f.broadcast = none) (hobj : objects = .ok hs) (hresp : last.response = some r)
    (hbuf : a.1.solBuf = (repeatSolicited a00 dst0 r).1.solBuf) :
    ∃ bytes a', (repeatSolicited a00 dst0 r).2 = a00.2 ++ [.tx dst0 bytes] ∧
      solWaitOnFragment a series deadline cont = .blocked a' ∧
      a'.2 = a.2 ++ [.tx f.src bytes] ∧ a'.1.solBuf = a.1.solBuf ∧ a'.1.lastReq = a.1.lastReq := by
  have hc : classify (onLinkActivity a.1) f ctrl 1 objects = .repeatRead (some r) hs := by
    subst hobj
    unfold classify
    have : (onLinkActivity a.1).lastReq = some last := hl
    simp [hu, this, hseq, hfrag, hresp]
  refine ⟨(writeAt a00.1.solBuf 0 (respHeader r)).take (max 4 r.size), ?_⟩
  unfold solWaitOnFragment
  rw [popRequest_of hp hq hm]
  dsimp only
  rw [hc]
  dsimp only
  have e : (onLinkActivity a.1).solBuf = writeAt a00.1.solBuf 0 (respHeader r) := hbuf
  refine ⟨_, rfl, rfl, ?_, ?_, rfl⟩
  · simp [repeatSolicited_eq, e, writeAt_zero_idem]
  · simp only [repeatSolicited_eq]
    rw [e, writeAt_zero_idem]
    exact hbuf.symm

theorem foldl_eventCleared_eq (ids : List Nat) (a : Acc) :
    ids.foldl (fun a id => emitCb a (.eventCleared id)) a =
      (a.1, a.2 ++ ids.map (fun id => OOut.cb (.eventCleared id))) := by
  induction ids generalizing a with
  | nil => simp
  | cons x xs ih => rw [List.foldl_cons, ih]; simp [emitCb, emit]

/-- `clearWrittenEvents` changes `db` only and emits callbacks only -/
theorem clearWrittenEvents_shape (a : Acc) :
    ∃ db l, clearWrittenEvents a = ({ a.1 with db := db }, a.2 ++ l) ∧ ∀ o ∈ l, ∃ c, o = OOut.cb c := by
  unfold clearWrittenEvents
  dsimp only
  rw [foldl_eventCleared_eq]
  refine ⟨a.1.db.clearWritten.1,
    [.cb .beginConfirm] ++ a.1.db.clearWritten.2.1.map (fun id => OOut.cb (.eventCleared id)) ++
      [.cb (.endConfirm a.1.db.clearWritten.2.2.1 a.1.db.clearWritten.2.2.2.1 a.1.db.clearWritten.2.2.2.2)], ?_, ?_⟩
  · simp [emitCb, emit]
  · intro o ho
    simp at ho
    rcases ho with h | ⟨id, -, h⟩ | h
    · exact ⟨_, h⟩
    · exact ⟨_, h.symm⟩
    · exact ⟨_, h⟩

/-- the accumulator the session continues from after the continuation fragment `r2` was transmitted
    from `a00` to `dst`: the transmission's, with `r2` recorded as the stored response -/
def afterContinuation (a00 : Acc) (dst : Nat) (r2 : Resp) : Acc :=
  ({ (repeatSolicited a00 dst r2).1 with
      lastReq := (repeatSolicited a00 dst r2).1.lastReq.map (fun lr => { lr with response := some r2 }) },
    (repeatSolicited a00 dst r2).2)

/-- a matching CONFIRM on a non-final fragment, step by step: the task dies (IIN not computable), or
    after callbacks only (`l`) — from an accumulator `a00` that still has `a`'s `lastReq` — the next fragment
    is transmitted by `repeatSolicited a00 f.src r2` and recorded as the stored response -/
theorem continuation_shape {a : Acc} {f : Frag} {ctrl : AppCtrl} {objects : Except Nat (List ObjHdr)}
    {raw : List Nat} (series : Series) (dl : Nat) (cont : SolCont)
    (hp : a.1.pending = some f) (hq : parseRequest f.data = .request ctrl 0 objects raw)
    (hm : a.1.cfg.anymaster = true ∨ f.src = a.1.cfg.master)
    (hu : ctrl.uns = false) (hs : ctrl.seq = series.ecsn) (hfin : series.fin = false) :
    (∃ a1, solWaitOnFragment a series dl cont = die a1) ∨
    ∃ (a00 : Acc) (r2 : Resp) (next : Option Series) (l : List OOut),
      a00.2 = a.2 ++ l ∧ (∀ o ∈ l, ∃ c, o = OOut.cb c) ∧ a00.1.lastReq = a.1.lastReq ∧
      solWaitOnFragment a series dl cont =
        (match next with
         | none => resumeAfterSol (afterContinuation a00 f.src r2) cont
         | some sr => .blocked ({ (afterContinuation a00 f.src r2).1 with
             mode := .solWait sr ((afterContinuation a00 f.src r2).1.now +
               (afterContinuation a00 f.src r2).1.cfg.ctimeout) cont }, (afterContinuation a00 f.src r2).2)) := by
  have hc : classify (onLinkActivity a.1) f ctrl 0 objects = .solConfirm ctrl.seq := by
    unfold classify
    simp [hu]
  unfold solWaitOnFragment
  rw [popRequest_of hp hq hm]
  dsimp only
  rw [hc]
  dsimp only
  rw [if_neg (by simp [hs]), hfin]
  simp only [Bool.false_eq_true, if_false]
  obtain ⟨db, l, hcw, hl⟩ := clearWrittenEvents_shape
    ({ (emitCb ({ onLinkActivity a.1 with pending := none }, a.2) (.solConfirmed series.ecsn)).1 with
        lastBroadcast := none },
      (emitCb ({ onLinkActivity a.1 with pending := none }, a.2) (.solConfirmed series.ecsn)).2)
  generalize clearWrittenEvents _ = a4 at hcw ⊢
  have h4l : a4.1.lastReq = a.1.lastReq := by rw [hcw]; rfl
  have h4o : a4.2 = a.2 ++ (.cb (.solConfirmed series.ecsn) :: l) := by rw [hcw]; simp [emitCb, emit]
  have hfl : (formatReadResponse a4.1 false (seq4Next series.ecsn) 0).1.lastReq = a4.1.lastReq := by
    unfold formatReadResponse; rfl
  generalize formatReadResponse a4.1 false (seq4Next series.ecsn) 0 = FR at hfl ⊢
  cases hg : getResponseIin FR.1 with
  | none =>
    left
    refine ⟨a4, ?_⟩
    have : writeSolicited (FR.1, a4.2) f.src FR.2.1 = none := by
      unfold writeSolicited; simp only [hg]
    rw [this]
  | some p =>
    obtain ⟨s', i1, i2⟩ := p
    right
    obtain ⟨lb, hs'⟩ := getResponseIin_shape hg
    rw [writeSolicited_of_iin (a := (FR.1, a4.2)) hg]
    dsimp only
    refine ⟨(s', a4.2), _, FR.2.2, _, h4o, ?_, ?_, rfl⟩
    · intro o ho
      rcases List.mem_cons.mp ho with h | h
      · exact ⟨_, h⟩
      · exact hl o h
    · rw [hs']; exact hfl.trans h4l

/-- **C05.4 (`continuation_is_stored`, the D5 repair)**: a matching CONFIRM on a non-final fragment of a
    response series: either the IIN cannot be computed and the task dies (`writeSolicited … = none`, i.e.
    `unwrittenClasses = none`, defect D3 — nothing to do with D5), or the next fragment is transmitted exactly
    as `repeatSolicited a00 f.src r2` would for some accumulator `a00` and response record `r2`, and the
    session continues (resumes the idle pass if no confirmation is needed, else blocks in the confirm wait of
    that fragment) from an accumulator `a2` whose stored response is `r2` and whose solicited buffer is what
    that transmission left. -/
theorem continuation_is_stored {a : Acc} {f : Frag} {ctrl : AppCtrl} {objects : Except Nat (List ObjHdr)}
    {raw : List Nat} (series : Series) (dl : Nat) (cont : SolCont)
    (hp : a.1.pending = some f) (hq : parseRequest f.data = .request ctrl 0 objects raw)
    (hm : a.1.cfg.anymaster = true ∨ f.src = a.1.cfg.master)
    (hu : ctrl.uns = false) (hs : ctrl.seq = series.ecsn) (hfin : series.fin = false) :
    (∃ a1, solWaitOnFragment a series dl cont = die a1) ∨
    ∃ (a00 : Acc) (r2 : Resp) (bytes : List Nat) (a2 : Acc) (next : Option Series),
      (repeatSolicited a00 f.src r2).2 = a00.2 ++ [.tx f.src bytes] ∧
      a2.2 = a00.2 ++ [.tx f.src bytes] ∧
      a2.1.solBuf = (repeatSolicited a00 f.src r2).1.solBuf ∧
      a2.1.lastReq = a.1.lastReq.map (fun lr => { lr with response := some r2 }) ∧
      solWaitOnFragment a series dl cont =
        (match next with
         | none => resumeAfterSol a2 cont
         | some sr => .blocked ({ a2.1 with mode := .solWait sr (a2.1.now + a2.1.cfg.ctimeout) cont }, a2.2)) := by
  rcases continuation_shape series dl cont hp hq hm hu hs hfin with h | ⟨a00, r2, next, l, -, -, hlr, he⟩
  · exact .inl h
  · refine .inr ⟨a00, r2, (writeAt a00.1.solBuf 0 (respHeader r2)).take (max 4 r2.size),
      afterContinuation a00 f.src r2, next, rfl, rfl, rfl, ?_, he⟩
    rw [← hlr]; rfl

/-- **C05.4 (`resend_is_awaited_fragment`, full statement)**: a READ repeated during the confirm wait of ANY
    fragment of a response series re-sends exactly that fragment's octets.  After a matching CONFIRM on a
    non-final fragment (and unless the task died, as in `continuation_is_stored`) the pass up to `a2` emitted
    callbacks only (`l`) and then transmitted the continuation fragment `bytes`; the session continues from `a2`
    as in `continuation_is_stored` (with `next = some sr` it blocks in the confirm wait of that fragment); and in
    EVERY later accumulator `b` that still has `a2`'s solicited buffer and stored request, a READ `f'` that
    repeats the last recorded request is answered — whatever series/deadline/continuation the wait carries —
    by re-transmitting exactly `bytes`, leaving buffer and stored request untouched (so the same holds for the
    next repeat). -/
theorem resend_is_awaited_fragment {a : Acc} {f : Frag} {ctrl : AppCtrl} {objects : Except Nat (List ObjHdr)}
    {raw : List Nat} {last : LastReq} (series : Series) (dl : Nat) (cont : SolCont)
    (hp : a.1.pending = some f) (hq : parseRequest f.data = .request ctrl 0 objects raw)
    (hm : a.1.cfg.anymaster = true ∨ f.src = a.1.cfg.master)
    (hu : ctrl.uns = false) (hs : ctrl.seq = series.ecsn) (hfin : series.fin = false)
    (hl : a.1.lastReq = some last) :
    (∃ a1, solWaitOnFragment a series dl cont = die a1) ∨
    ∃ (bytes : List Nat) (a2 : Acc) (next : Option Series),
      (∃ l, a2.2 = a.2 ++ l ++ [.tx f.src bytes] ∧ ∀ o ∈ l, ∃ c, o = OOut.cb c) ∧
      solWaitOnFragment a series dl cont =
        (match next with
         | none => resumeAfterSol a2 cont
         | some sr => .blocked ({ a2.1 with mode := .solWait sr (a2.1.now + a2.1.cfg.ctimeout) cont }, a2.2)) ∧
      ∀ (b : Acc) (f' : Frag) (ctrl' : AppCtrl) (hs' : List ObjHdr) (raw' : List Nat)
        (series' : Series) (deadline' : Nat) (cont' : SolCont),
        b.1.solBuf = a2.1.solBuf → b.1.lastReq = a2.1.lastReq →
        b.1.pending = some f' → parseRequest f'.data = .request ctrl' 1 (.ok hs') raw' →
        (b.1.cfg.anymaster = true ∨ f'.src = b.1.cfg.master) → f'.broadcast = none →
        last.seq = ctrl'.seq → last.frag = f'.data →
        ∃ b', solWaitOnFragment b series' deadline' cont' = .blocked b' ∧
          b'.2 = b.2 ++ [.tx f'.src bytes] ∧ b'.1.solBuf = b.1.solBuf ∧ b'.1.lastReq = b.1.lastReq := by
  rcases continuation_shape series dl cont hp hq hm hu hs hfin with h | ⟨a00, r2, next, l, ho, hlcb, hlr, he⟩
  · exact .inl h
  · obtain ⟨a00', r2', bytes, a2, next', hb1, hb2, hb3, hb4, hb5⟩ :
        ∃ (a00' : Acc) (r2' : Resp) (bytes : List Nat) (a2 : Acc) (next' : Option Series),
          (repeatSolicited a00' f.src r2').2 = a00'.2 ++ [.tx f.src bytes] ∧
          a2.2 = a.2 ++ l ++ [.tx f.src bytes] ∧
          a2.1.solBuf = (repeatSolicited a00' f.src r2').1.solBuf ∧
          a2.1.lastReq = a.1.lastReq.map (fun lr => { lr with response := some r2' }) ∧
          solWaitOnFragment a series dl cont =
            (match next' with
             | none => resumeAfterSol a2 cont
             | some sr => .blocked ({ a2.1 with mode := .solWait sr (a2.1.now + a2.1.cfg.ctimeout) cont }, a2.2)) := by
      refine ⟨a00, r2, (writeAt a00.1.solBuf 0 (respHeader r2)).take (max 4 r2.size),
        afterContinuation a00 f.src r2, next, rfl, ?_, rfl, ?_, he⟩
      · rw [← ho]; rfl
      · rw [← hlr]; rfl
    refine .inr ⟨bytes, a2, next', ⟨l, hb2, hlcb⟩, hb5, ?_⟩
    intro b f' ctrl' hs' raw' series' deadline' cont' hbuf hblr hp' hq' hm' hu' hseq' hfrag'
    have hl' : b.1.lastReq = some { last with response := some r2' } := by
      rw [hblr, hb4, hl]; rfl
    obtain ⟨bytes', b', e1, e2, e3, e4, e5⟩ :=
      resend_is_stored_fragment (last := { last with response := some r2' }) (hs := hs') (r := r2')
        series' deadline' cont' a00' f.src hp' hq' hm' hl' hseq' hfrag' hu' rfl rfl (hbuf.trans hb3)
    have hbytes : bytes' = bytes := by
      have := e1.symm.trans hb1
      simpa using this
    subst hbytes
    exact ⟨b', e2, e3, e4, e5⟩

/-! ### Examples for section 5: the hypotheses are satisfiable by concrete, non-trivial instances -/

/-- READ class 1, sequence number 0 -/
def exRead : Frag := ⟨0, 1, none, [0xC0, 1, 60, 2, 6]⟩
/-- a stored response fragment: FIR, not FIN, CON, sequence 0, six octets -/
def exResp : Resp := { ctrl := ⟨true, false, true, false, 0⟩, func := 0x81, size := 6 }
/-- the accumulator `exResp` was transmitted from -/
def exA00 : Acc := (OState.init {} 0, [])
/-- in the confirm wait of `exResp`, the READ that was answered by it arrives again -/
def exWait : Acc :=
  ({ (repeatSolicited exA00 1 exResp).1 with
      pending := some exRead, lastReq := some ⟨0, exRead.data, some exResp, some ⟨0, false⟩⟩ }, [])

-- `resend_is_stored_fragment` applies to `exWait`: all hypotheses hold by evaluation
example : ∃ bytes a', (repeatSolicited exA00 1 exResp).2 = exA00.2 ++ [.tx 1 bytes] ∧
    solWaitOnFragment exWait ⟨0, false⟩ 5000 .fromRequest = .blocked a' ∧
    a'.2 = exWait.2 ++ [.tx exRead.src bytes] ∧ a'.1.solBuf = exWait.1.solBuf ∧
    a'.1.lastReq = exWait.1.lastReq :=
  resend_is_stored_fragment (a := exWait) (f := exRead) (ctrl := AppCtrl.ofNat 0xC0)
    (raw := [60, 2, 6]) (last := ⟨0, exRead.data, some exResp, some ⟨0, false⟩⟩) (r := exResp)
    ⟨0, false⟩ 5000 .fromRequest exA00 1 rfl (by rfl) (.inr rfl) rfl (by decide) rfl rfl rfl rfl rfl

/-- CONFIRM, sequence number 0 -/
def exConfirm : Frag := ⟨1, 1, none, [0xC0, 0]⟩
/-- in the confirm wait of a non-final fragment with sequence number 0, the CONFIRM arrives -/
def exWaitC : Acc := ({ exWait.1 with pending := some exConfirm }, [])

-- the hypotheses of `continuation_is_stored` / `resend_is_awaited_fragment` hold for `exWaitC` with the
-- series `⟨0, false⟩`
example : exWaitC.1.pending = some exConfirm := rfl
example : parseRequest exConfirm.data = .request (AppCtrl.ofNat 0xC0) 0 (.ok []) [] := by rfl
example : exWaitC.1.cfg.anymaster = true ∨ exConfirm.src = exWaitC.1.cfg.master := .inr rfl
example : (AppCtrl.ofNat 0xC0).uns = false := by decide
example : (AppCtrl.ofNat 0xC0).seq = (⟨0, false⟩ : Series).ecsn := by decide
example : exWaitC.1.lastReq = some ⟨0, exRead.data, some exResp, some ⟨0, false⟩⟩ := rfl
-- … so both theorems apply to it
example := continuation_is_stored (a := exWaitC) (f := exConfirm) (ctrl := AppCtrl.ofNat 0xC0)
  (objects := .ok []) (raw := []) ⟨0, false⟩ 5000 .fromRequest rfl (by rfl) (.inr rfl) (by decide) (by decide) rfl
example := resend_is_awaited_fragment (a := exWaitC) (f := exConfirm) (ctrl := AppCtrl.ofNat 0xC0)
  (objects := .ok []) (raw := []) (last := ⟨0, exRead.data, some exResp, some ⟨0, false⟩⟩)
  ⟨0, false⟩ 5000 .fromRequest rfl (by rfl) (.inr rfl) (by decide) (by decide) rfl rfl
-- and the repeated READ `exRead` satisfies the premises of the `∀ b f' …` part of `resend_is_awaited_fragment`
example : parseRequest exRead.data =
    .request (AppCtrl.ofNat 0xC0) 1 (.ok [{ group := 60, var := 2, qual := 6 }]) [60, 2, 6] := by rfl
example : exRead.broadcast = none := rfl
example : (0 : Nat) = (AppCtrl.ofNat 0xC0).seq := by decide

end Dnp3.Proofs.C05
