import Dnp3.Model.Transport
import Dnp3.Props.C08Base
/-!
# Transport assembler: segmentation / reassembly proofs (C08)

Everything here is stated at the level of the `Assembler` fed with transport segments
(`FrameInfo`, transport header, payload), independent of link framing.
-/
namespace Dnp3.Proofs.Transport
open Dnp3

/-- one transport segment as handed to `Assembler::assemble` -/
structure Seg where
  info : FrameInfo
  hdr : THeader
  payload : List Nat
deriving DecidableEq, Repr, Inhabited

/-- `frameId` increment (`wrapping_add(1)` on `u32`) -/
def nextId (x : Nat) : Nat := (x + 1) % 4294967296

/-- feed segments to the assembler the way the transport reader does: `assemble`, and whenever
    the assembler holds a complete fragment, `pop` it before going on -/
def feedSegs (a : Assembler) : List Seg → Assembler × List (FragInfo × List Nat)
  | [] => (a, [])
  | s :: rest =>
    let a1 := a.assemble s.info s.hdr s.payload
    if a1.isComplete then
      let r := feedSegs a1.pop.1 rest
      (r.1, a1.pop.2.toList ++ r.2)
    else feedSegs a1 rest

/-- the segments `Writer::write` produces (same recursion as `segmentFrom`) -/
def segsFrom (info : FrameInfo) : Nat → Nat → Bool → List Nat → List Seg
  | 0, _, _, _ => []
  | fuel+1, seq, first, frag =>
    if frag.isEmpty then [] else
    ⟨info, { fin := (frag.drop 249).isEmpty, fir := first, seq := seq }, frag.take 249⟩ ::
      segsFrom info fuel (seqNext seq) false (frag.drop 249)

def segsOf (info : FrameInfo) (seq0 : Nat) (frag : List Nat) : List Seg :=
  segsFrom info frag.length seq0 true frag

/-! ## link between `segsOf` and the model's `segment` -/

/-- the link frame the writer emits for one segment -/
def segFrame (isMaster : Bool) (dest localAddr : Nat) (s : Seg) : List Nat :=
  encodeFrame ⟨(Control.mk .priUnconfirmedUserData isMaster false false).toNat, dest, localAddr⟩
    (s.hdr.toNat :: s.payload)

theorem segmentFrom_eq_segsFrom (isMaster : Bool) (dest localAddr : Nat) (info : FrameInfo)
    (fuel seq : Nat) (first : Bool) (frag : List Nat) :
    (segmentFrom isMaster dest localAddr fuel seq first frag).1 =
      (segsFrom info fuel seq first frag).map (segFrame isMaster dest localAddr) := by
  induction fuel generalizing seq first frag with
  | zero => simp [segmentFrom, segsFrom]
  | succ n ih =>
    unfold segmentFrom segsFrom
    by_cases h : frag.isEmpty
    · simp [h]
    · simp only [h, Bool.false_eq_true, ↓reduceIte, List.map_cons, ih]
      rfl

/-- the frames of `segment` carry exactly `THeader.toNat hdr :: payload` of `segsOf`, in order -/
theorem segment_frames (isMaster : Bool) (dest localAddr : Nat) (info : FrameInfo)
    (seq0 : Nat) (frag : List Nat) :
    (segment isMaster dest localAddr seq0 frag).1 =
      (segsOf info seq0 frag).map (segFrame isMaster dest localAddr) :=
  segmentFrom_eq_segsFrom ..

/-- every segment of `segsFrom` carries the given `info` -/
theorem segsFrom_info (info : FrameInfo) (fuel seq : Nat) (first : Bool) (frag : List Nat) :
    ∀ s ∈ segsFrom info fuel seq first frag, s.info = info := by
  induction fuel generalizing seq first frag with
  | zero => simp [segsFrom]
  | succ n ih =>
    unfold segsFrom
    by_cases h : frag.isEmpty
    · simp [h]
    · simp only [h, Bool.false_eq_true, ↓reduceIte, List.mem_cons]
      rintro s (rfl | hs)
      · rfl
      · exact ih _ _ _ s hs

/-- payloads of `segsFrom` concatenate to the fragment, given enough fuel -/
theorem segsFrom_payloads (info : FrameInfo) (fuel seq : Nat) (first : Bool) (frag : List Nat)
    (hf : frag.length ≤ fuel) :
    (segsFrom info fuel seq first frag).flatMap (·.payload) = frag := by
  induction fuel generalizing seq first frag with
  | zero =>
    have : frag = [] := List.eq_nil_of_length_eq_zero (by omega)
    simp [segsFrom, this]
  | succ n ih =>
    unfold segsFrom
    by_cases h : frag.isEmpty
    · have : frag = [] := by simpa using h
      simp [this]
    · have hne : frag ≠ [] := by simpa using h
      have hl : 0 < frag.length := List.length_pos_iff.mpr hne
      simp only [h, Bool.false_eq_true, ↓reduceIte, List.flatMap_cons]
      rw [ih]
      · exact List.take_append_drop 249 frag
      · simp only [List.length_drop]; omega

theorem segsOf_payloads (info : FrameInfo) (seq0 : Nat) (frag : List Nat) :
    (segsOf info seq0 frag).flatMap (·.payload) = frag :=
  segsFrom_payloads info _ _ _ _ (Nat.le_refl _)

/-- every payload has at most 249 octets and is non-empty -/
theorem segsFrom_payload_len (info : FrameInfo) (fuel seq : Nat) (first : Bool) (frag : List Nat) :
    ∀ s ∈ segsFrom info fuel seq first frag, 1 ≤ s.payload.length ∧ s.payload.length ≤ 249 := by
  induction fuel generalizing seq first frag with
  | zero => simp [segsFrom]
  | succ n ih =>
    unfold segsFrom
    by_cases h : frag.isEmpty
    · simp [h]
    · have hne : frag ≠ [] := by simpa using h
      have hl : 0 < frag.length := List.length_pos_iff.mpr hne
      simp only [h, Bool.false_eq_true, ↓reduceIte, List.mem_cons]
      rintro s (rfl | hs)
      · simp only [List.length_take]; omega
      · exact ih _ _ _ s hs

/-! ## single steps of the assembler -/

theorem assemble_fir_nobc (a : Assembler) (info : FrameInfo) (hdr : THeader) (p : List Nat)
    (hb : info.broadcast = none) (hfir : hdr.fir = true) :
    a.assemble info hdr p = ({ a with st := .empty } : Assembler).append info hdr 0 p := by
  unfold Assembler.assemble
  simp [hb, hfir]

theorem assemble_running_next (a : Assembler) (info : FrameInfo) (hdr : THeader) (p : List Nat)
    (pseq len : Nat) (hst : a.st = .running info pseq len) (hb : info.broadcast = none)
    (hfir : hdr.fir = false) (hseq : hdr.seq = seqNext pseq) :
    a.assemble info hdr p = a.append info hdr len p := by
  unfold Assembler.assemble
  simp [hb, hfir, hst, hseq]

theorem assemble_empty_nonfir (a : Assembler) (info : FrameInfo) (hdr : THeader) (p : List Nat)
    (hst : a.st = .empty) (hfir : hdr.fir = false) :
    a.assemble info hdr p = a := by
  unfold Assembler.assemble
  cases hb : info.broadcast <;> simp [hfir, hst]

theorem isComplete_of_empty {a : Assembler} (h : a.st = .empty) : a.isComplete = false := by
  simp [Assembler.isComplete, h]

theorem isComplete_of_running {a : Assembler} {i : FrameInfo} {s l : Nat}
    (h : a.st = .running i s l) : a.isComplete = false := by
  simp [Assembler.isComplete, h]

theorem append_fin (a : Assembler) (info : FrameInfo) (hdr : THeader) (acc : Nat) (p : List Nat)
    (hcap : acc + p.length ≤ a.cap) (hfin : hdr.fin = true) :
    a.append info hdr acc p =
      { a with st := .complete ⟨a.frameId, info.source, info.broadcast⟩ (acc + p.length),
               frameId := nextId a.frameId, buf := a.buf.take acc ++ p } := by
  unfold Assembler.append nextId
  simp only [hfin, ↓reduceIte]
  rw [if_neg (by omega)]

theorem append_nofin (a : Assembler) (info : FrameInfo) (hdr : THeader) (acc : Nat) (p : List Nat)
    (hcap : acc + p.length ≤ a.cap) (hfin : hdr.fin = false) :
    a.append info hdr acc p =
      { a with st := .running info hdr.seq (acc + p.length), buf := a.buf.take acc ++ p } := by
  unfold Assembler.append
  simp only [hfin]
  rw [if_neg (by omega)]
  simp

theorem append_over (a : Assembler) (info : FrameInfo) (hdr : THeader) (acc : Nat) (p : List Nat)
    (hcap : a.cap < acc + p.length) :
    a.append info hdr acc p = { a with st := .empty } := by
  unfold Assembler.append
  simp only
  rw [if_pos (by omega)]

theorem feedSegs_cons_complete (a : Assembler) (s : Seg) (rest : List Seg) (fi : FragInfo) (len : Nat)
    (h : (a.assemble s.info s.hdr s.payload).st = .complete fi len) :
    feedSegs a (s :: rest) =
      ((feedSegs { a.assemble s.info s.hdr s.payload with st := .empty } rest).1,
       (fi, (a.assemble s.info s.hdr s.payload).buf.take len) ::
         (feedSegs { a.assemble s.info s.hdr s.payload with st := .empty } rest).2) := by
  rw [feedSegs]
  simp [Assembler.isComplete, Assembler.pop, h]

theorem feedSegs_cons_incomplete (a : Assembler) (s : Seg) (rest : List Seg)
    (h : (a.assemble s.info s.hdr s.payload).isComplete = false) :
    feedSegs a (s :: rest) = feedSegs (a.assemble s.info s.hdr s.payload) rest := by
  rw [feedSegs]
  simp [h]

theorem take_take_append (l r : List Nat) (n : Nat) :
    (l.take n ++ r).take (n + r.length) = l.take n ++ r := by
  apply List.take_of_length_le
  simp only [List.length_append, List.length_take]; omega

/-! ## A1: a segmented fragment is reassembled exactly -/

/-- non-FIR segments are ignored by an empty assembler -/
theorem feed_empty_nonfir (a : Assembler) (info : FrameInfo) (fuel seq : Nat) (frag : List Nat)
    (hst : a.st = .empty) :
    feedSegs a (segsFrom info fuel seq false frag) = (a, []) := by
  induction fuel generalizing seq frag with
  | zero => simp [segsFrom, feedSegs]
  | succ n ih =>
    unfold segsFrom
    by_cases h : frag.isEmpty
    · simp [h, feedSegs]
    · simp only [h, Bool.false_eq_true, ↓reduceIte]
      rw [feedSegs_cons_incomplete]
      · rw [assemble_empty_nonfir a info _ _ hst rfl]; exact ih _ _
      · rw [assemble_empty_nonfir a info _ _ hst rfl]; exact isComplete_of_empty hst

theorem segsFrom_nil (info : FrameInfo) (fuel seq : Nat) (first : Bool) :
    segsFrom info fuel seq first [] = [] := by
  cases fuel <;> simp [segsFrom]

/-- the continuation segments of a fragment that fits complete the running reassembly -/
theorem feed_running_fits (info : FrameInfo) (hb : info.broadcast = none) (fuel : Nat) :
    ∀ (a : Assembler) (pseq len seq : Nat) (rest : List Nat),
      a.st = .running info pseq len → seq = seqNext pseq → rest ≠ [] → rest.length ≤ fuel →
      len + rest.length ≤ a.cap →
      ∃ a', feedSegs a (segsFrom info fuel seq false rest) =
          (a', [(⟨a.frameId, info.source, none⟩, a.buf.take len ++ rest)]) ∧
        a'.st = .empty ∧ a'.frameId = nextId a.frameId ∧ a'.cap = a.cap := by
  induction fuel with
  | zero =>
    intro a pseq len seq rest _ _ hne hl _
    exact absurd (List.eq_nil_of_length_eq_zero (by omega)) hne
  | succ n ih =>
    intro a pseq len seq rest hst hseq hne hl hcap
    have hpos : 0 < rest.length := List.length_pos_iff.mpr hne
    unfold segsFrom
    have hE : rest.isEmpty = false := by simpa using hne
    simp only [hE, Bool.false_eq_true, ↓reduceIte]
    have htl : (rest.take 249).length ≤ rest.length := by simp only [List.length_take]; omega
    have hchunk : len + (rest.take 249).length ≤ a.cap := by omega
    by_cases hfin : (rest.drop 249).isEmpty = true
    · -- last segment
      have hd : rest.drop 249 = [] := by simpa using hfin
      have ht : rest.take 249 = rest := by
        have := List.take_append_drop 249 rest
        rw [hd, List.append_nil] at this; exact this
      have hasm := assemble_running_next a info ⟨(rest.drop 249).isEmpty, false, seq⟩ (rest.take 249)
        pseq len hst hb rfl hseq
      rw [append_fin _ _ _ _ _ hchunk hfin] at hasm
      rw [feedSegs_cons_complete a _ _ ⟨a.frameId, info.source, info.broadcast⟩
        (len + (rest.take 249).length) (by rw [hasm])]
      rw [hasm]
      simp only [hd, segsFrom_nil, feedSegs, ht, hb]
      rw [take_take_append]
      exact ⟨_, rfl, rfl, rfl, rfl⟩
    · -- more segments follow
      have hfin' : (rest.drop 249).isEmpty = false := by simpa using hfin
      have hd : rest.drop 249 ≠ [] := by simpa using hfin
      have hasm := assemble_running_next a info ⟨(rest.drop 249).isEmpty, false, seq⟩ (rest.take 249)
        pseq len hst hb rfl hseq
      rw [append_nofin _ _ _ _ _ hchunk hfin'] at hasm
      rw [feedSegs_cons_incomplete a _ _ (by rw [hasm]; rfl)]
      rw [hasm]
      have hsplit : (rest.take 249).length + (rest.drop 249).length = rest.length := by
        rw [← List.length_append, List.take_append_drop]
      obtain ⟨a', h1, h2, h3, h4⟩ := ih
        { a with st := .running info seq (len + (rest.take 249).length),
                 buf := a.buf.take len ++ rest.take 249 }
        seq (len + (rest.take 249).length) (seqNext seq) (rest.drop 249) rfl rfl hd
        (by simp only [List.length_drop]; omega) (by simp only; omega)
      refine ⟨a', ?_, h2, h3, h4⟩
      rw [h1]
      simp only [take_take_append, List.append_assoc, List.take_append_drop]

/-- the continuation segments of a fragment that does not fit are dropped, delivering nothing -/
theorem feed_running_over (info : FrameInfo) (hb : info.broadcast = none) (fuel : Nat) :
    ∀ (a : Assembler) (pseq len seq : Nat) (rest : List Nat),
      a.st = .running info pseq len → seq = seqNext pseq → rest ≠ [] → rest.length ≤ fuel →
      a.cap < len + rest.length →
      ∃ a', feedSegs a (segsFrom info fuel seq false rest) = (a', []) ∧
        a'.st = .empty ∧ a'.frameId = a.frameId ∧ a'.cap = a.cap := by
  induction fuel with
  | zero =>
    intro a pseq len seq rest _ _ hne hl _
    exact absurd (List.eq_nil_of_length_eq_zero (by omega)) hne
  | succ n ih =>
    intro a pseq len seq rest hst hseq hne hl hcap
    have hpos : 0 < rest.length := List.length_pos_iff.mpr hne
    unfold segsFrom
    have hE : rest.isEmpty = false := by simpa using hne
    simp only [hE, Bool.false_eq_true, ↓reduceIte]
    have hsplit : (rest.take 249).length + (rest.drop 249).length = rest.length := by
      rw [← List.length_append, List.take_append_drop]
    have hasm := assemble_running_next a info ⟨(rest.drop 249).isEmpty, false, seq⟩ (rest.take 249)
      pseq len hst hb rfl hseq
    by_cases hchunk : a.cap < len + (rest.take 249).length
    · rw [append_over _ _ _ _ _ hchunk] at hasm
      rw [feedSegs_cons_incomplete a _ _ (by rw [hasm]; rfl), hasm, feed_empty_nonfir _ _ _ _ _ rfl]
      exact ⟨_, rfl, rfl, rfl, rfl⟩
    · have hchunk' : len + (rest.take 249).length ≤ a.cap := by omega
      have hd : rest.drop 249 ≠ [] := by
        intro h; rw [h] at hsplit; simp only [List.length_nil] at hsplit; omega
      have hfin' : (rest.drop 249).isEmpty = false := by simpa using hd
      rw [append_nofin _ _ _ _ _ hchunk' hfin'] at hasm
      rw [feedSegs_cons_incomplete a _ _ (by rw [hasm]; rfl), hasm]
      exact ih
        { a with st := .running info seq (len + (rest.take 249).length),
                 buf := a.buf.take len ++ rest.take 249 }
        seq (len + (rest.take 249).length) (seqNext seq) (rest.drop 249) rfl rfl hd
        (by simp only [List.length_drop]; omega) (by simp only; omega)

/-- **A1** (`segment_reassemble`).  Whatever the assembler held before (`empty`, any `running`
    garbage, or even an un-popped `complete`), feeding it the segments the writer produces for a
    non-broadcast fragment of `1 ≤ length ≤ cap` octets delivers exactly that fragment, once, with
    the current frame id and the segment's source; afterwards the assembler is `empty` and the
    frame id has advanced by one (mod 2^32).  (The hypotheses `seq0 < 64`, `info.ftype = .data`
    and `a.isComplete = false` of the task statement are not needed at assembler level.) -/
theorem segment_reassemble (a : Assembler) (info : FrameInfo) (seq0 : Nat) (frag : List Nat)
    (hb : info.broadcast = none) (h1 : 1 ≤ frag.length) (hcap : frag.length ≤ a.cap) :
    ∃ a', feedSegs a (segsOf info seq0 frag) = (a', [(⟨a.frameId, info.source, none⟩, frag)]) ∧
      a'.st = .empty ∧ a'.frameId = (a.frameId + 1) % 4294967296 ∧ a'.cap = a.cap := by
  unfold segsOf
  obtain ⟨n, hn⟩ : ∃ n, frag.length = n + 1 := ⟨frag.length - 1, by omega⟩
  rw [hn]
  unfold segsFrom
  have hne : frag ≠ [] := by intro h; rw [h] at h1; simp at h1
  have hE : frag.isEmpty = false := by simpa using hne
  simp only [hE, Bool.false_eq_true, ↓reduceIte]
  have hsplit : (frag.take 249).length + (frag.drop 249).length = frag.length := by
    rw [← List.length_append, List.take_append_drop]
  have hasm := assemble_fir_nobc a info ⟨(frag.drop 249).isEmpty, true, seq0⟩ (frag.take 249) hb rfl
  have hchunk : 0 + (frag.take 249).length ≤ ({ a with st := .empty } : Assembler).cap := by
    simp only; omega
  by_cases hfin : (frag.drop 249).isEmpty = true
  · have hd : frag.drop 249 = [] := by simpa using hfin
    have ht : frag.take 249 = frag := by
      have := List.take_append_drop 249 frag
      rw [hd, List.append_nil] at this; exact this
    rw [append_fin _ _ _ _ _ hchunk hfin] at hasm
    rw [feedSegs_cons_complete a _ _ ⟨a.frameId, info.source, info.broadcast⟩
      (0 + (frag.take 249).length) (by rw [hasm]), hasm]
    simp only [hd, segsFrom_nil, feedSegs, ht, hb]
    refine ⟨{ st := .empty, frameId := nextId a.frameId, buf := List.take 0 a.buf ++ frag,
              cap := a.cap }, ?_, rfl, rfl, rfl⟩
    simp
  · have hfin' : (frag.drop 249).isEmpty = false := by simpa using hfin
    have hd : frag.drop 249 ≠ [] := by simpa using hfin
    rw [append_nofin _ _ _ _ _ hchunk hfin'] at hasm
    rw [feedSegs_cons_incomplete a _ _ (by rw [hasm]; rfl), hasm]
    obtain ⟨a', e1, e2, e3, e4⟩ := feed_running_fits info hb n
      { a with st := .running info seq0 (0 + (frag.take 249).length),
               buf := List.take 0 a.buf ++ frag.take 249 }
      seq0 (0 + (frag.take 249).length) (seqNext seq0) (frag.drop 249) rfl rfl hd
      (by simp only [List.length_drop]; omega) (by simp only; omega)
    refine ⟨a', ?_, e2, e3, e4⟩
    rw [e1]
    simp only [List.take_zero, List.nil_append, Nat.zero_add, List.take_length,
      List.take_append_drop]

example : ∃ (a : Assembler) (info : FrameInfo) (frag : List Nat),
    a.st = .running ⟨7, none, .data⟩ 3 5 ∧ info.broadcast = none ∧ 1 ≤ frag.length ∧
    frag.length ≤ a.cap ∧ 249 < frag.length :=
  ⟨{ st := .running ⟨7, none, .data⟩ 3 5, buf := [1,2,3,4,5], cap := 2048 }, ⟨1024, none, .data⟩,
   List.replicate 600 0xAA, rfl, rfl, by simp only [List.length_replicate]; omega,
   by simp only [List.length_replicate]; omega, by simp only [List.length_replicate]; omega⟩

/-- **A1**, oversize case: a fragment longer than the assembler's capacity is not delivered (no
    truncated or partial delivery either); the frame id is unchanged and the assembler ends `empty` -/
theorem segment_oversize_dropped (a : Assembler) (info : FrameInfo) (seq0 : Nat) (frag : List Nat)
    (hb : info.broadcast = none) (hcap : a.cap < frag.length) :
    ∃ a', feedSegs a (segsOf info seq0 frag) = (a', []) ∧
      a'.st = .empty ∧ a'.frameId = a.frameId ∧ a'.cap = a.cap := by
  unfold segsOf
  obtain ⟨n, hn⟩ : ∃ n, frag.length = n + 1 := ⟨frag.length - 1, by omega⟩
  rw [hn]
  unfold segsFrom
  have hne : frag ≠ [] := by intro h; rw [h] at hn; simp at hn
  have hE : frag.isEmpty = false := by simpa using hne
  simp only [hE, Bool.false_eq_true, ↓reduceIte]
  have hsplit : (frag.take 249).length + (frag.drop 249).length = frag.length := by
    rw [← List.length_append, List.take_append_drop]
  have hasm := assemble_fir_nobc a info ⟨(frag.drop 249).isEmpty, true, seq0⟩ (frag.take 249) hb rfl
  by_cases hchunk : ({ a with st := .empty } : Assembler).cap < 0 + (frag.take 249).length
  · rw [append_over _ _ _ _ _ hchunk] at hasm
    rw [feedSegs_cons_incomplete a _ _ (by rw [hasm]; rfl), hasm, feed_empty_nonfir _ _ _ _ _ rfl]
    exact ⟨_, rfl, rfl, rfl, rfl⟩
  · have hchunk' : 0 + (frag.take 249).length ≤ ({ a with st := .empty } : Assembler).cap := by omega
    have hd : frag.drop 249 ≠ [] := by
      intro h; rw [h] at hsplit; simp only [List.length_nil] at hsplit hchunk; omega
    have hfin' : (frag.drop 249).isEmpty = false := by simpa using hd
    rw [append_nofin _ _ _ _ _ hchunk' hfin'] at hasm
    rw [feedSegs_cons_incomplete a _ _ (by rw [hasm]; rfl), hasm]
    exact feed_running_over info hb n
      { a with st := .running info seq0 (0 + (frag.take 249).length),
               buf := List.take 0 a.buf ++ frag.take 249 }
      seq0 (0 + (frag.take 249).length) (seqNext seq0) (frag.drop 249) rfl rfl hd
      (by simp only [List.length_drop]; omega) (by simp only at hchunk ⊢; omega)

example : ∃ (a : Assembler) (info : FrameInfo) (frag : List Nat),
    info.broadcast = none ∧ a.cap < frag.length :=
  ⟨{ cap := 300 }, ⟨1024, none, .data⟩, List.replicate 301 0, rfl, by simp only [List.length_replicate]; omega⟩

/-! ## A3: frame ids of the delivered fragments -/

/-- `append` overwrites the state: the result is either not complete with the frame id unchanged,
    or complete with the old frame id in the fragment info and the frame id advanced -/
theorem append_cases (a : Assembler) (info : FrameInfo) (hdr : THeader) (acc : Nat) (p : List Nat) :
    ((a.append info hdr acc p).isComplete = false ∧ (a.append info hdr acc p).frameId = a.frameId ∧
      (a.append info hdr acc p).cap = a.cap) ∨
    (∃ len, (a.append info hdr acc p).st = .complete ⟨a.frameId, info.source, info.broadcast⟩ len ∧
      (a.append info hdr acc p).frameId = nextId a.frameId ∧ (a.append info hdr acc p).cap = a.cap) := by
  by_cases hcap : a.cap < acc + p.length
  · rw [append_over _ _ _ _ _ hcap]; exact Or.inl ⟨rfl, rfl, rfl⟩
  · cases hfin : hdr.fin
    · rw [append_nofin _ _ _ _ _ (by omega) hfin]; exact Or.inl ⟨rfl, rfl, rfl⟩
    · rw [append_fin _ _ _ _ _ (by omega) hfin]; exact Or.inr ⟨_, rfl, rfl, rfl⟩

theorem assemble_fir_bc_fin (a : Assembler) (info : FrameInfo) (hdr : THeader) (p : List Nat)
    (hb : info.broadcast.isSome = true) (hfir : hdr.fir = true) (hfin : hdr.fin = true) :
    a.assemble info hdr p = ({ a with st := .empty } : Assembler).append info hdr 0 p := by
  unfold Assembler.assemble
  simp [hb, hfir, hfin]

theorem assemble_fir_bc_nofin (a : Assembler) (info : FrameInfo) (hdr : THeader) (p : List Nat)
    (hb : info.broadcast.isSome = true) (hfir : hdr.fir = true) (hfin : hdr.fin = false) :
    a.assemble info hdr p = { a with st := .empty } := by
  unfold Assembler.assemble
  simp [hb, hfir, hfin]

theorem assemble_nonfir_bc (a : Assembler) (info : FrameInfo) (hdr : THeader) (p : List Nat)
    (hb : info.broadcast.isSome = true) (hfir : hdr.fir = false) :
    a.assemble info hdr p = a := by
  unfold Assembler.assemble
  simp [hb, hfir]

theorem assemble_running_bad (a : Assembler) (info : FrameInfo) (hdr : THeader) (p : List Nat)
    (pinfo : FrameInfo) (pseq len : Nat) (hst : a.st = .running pinfo pseq len)
    (hb : info.broadcast = none) (hfir : hdr.fir = false)
    (hbad : hdr.seq ≠ seqNext pseq ∨ info ≠ pinfo) :
    a.assemble info hdr p = { a with st := .empty } := by
  unfold Assembler.assemble
  rcases hbad with h | h
  · simp [hb, hfir, hst, h]
  · by_cases h' : hdr.seq = seqNext pseq <;> simp [hb, hfir, hst, h, h']

/-- one `assemble` on a not-complete assembler: either still not complete and the frame id is
    unchanged, or complete with a fragment that carries the old frame id (and the segment's source
    and broadcast mode) and the frame id has advanced by one -/
theorem assemble_step_cases (a : Assembler) (info : FrameInfo) (hdr : THeader) (p : List Nat)
    (hc : a.isComplete = false) :
    ((a.assemble info hdr p).isComplete = false ∧ (a.assemble info hdr p).frameId = a.frameId ∧
      (a.assemble info hdr p).cap = a.cap) ∨
    (∃ len, (a.assemble info hdr p).st = .complete ⟨a.frameId, info.source, info.broadcast⟩ len ∧
      (a.assemble info hdr p).frameId = nextId a.frameId ∧ (a.assemble info hdr p).cap = a.cap) := by
  cases hfir : hdr.fir
  · -- not FIR
    cases hb : info.broadcast with
    | some m =>
      rw [assemble_nonfir_bc a info hdr p (by rw [hb]; rfl) hfir]
      exact Or.inl ⟨hc, rfl, rfl⟩
    | none =>
      cases hst : a.st with
      | empty =>
        rw [assemble_empty_nonfir a info hdr p hst hfir]
        exact Or.inl ⟨hc, rfl, rfl⟩
      | complete fi len => simp [Assembler.isComplete, hst] at hc
      | running pinfo pseq len =>
        by_cases hgood : hdr.seq = seqNext pseq ∧ info = pinfo
        · obtain ⟨h1, h2⟩ := hgood
          subst h2
          rw [assemble_running_next a info hdr p pseq len hst hb hfir h1, ← hb]
          exact append_cases a info hdr len p
        · rw [assemble_running_bad a info hdr p pinfo pseq len hst hb hfir (by
            by_cases h1 : hdr.seq = seqNext pseq
            · exact Or.inr (fun h2 => hgood ⟨h1, h2⟩)
            · exact Or.inl h1)]
          exact Or.inl ⟨rfl, rfl, rfl⟩
  · -- FIR
    cases hb : info.broadcast with
    | none =>
      rw [assemble_fir_nobc a info hdr p hb hfir, ← hb]
      exact append_cases { a with st := .empty } info hdr 0 p
    | some m =>
      cases hfin : hdr.fin
      · rw [assemble_fir_bc_nofin a info hdr p (by rw [hb]; rfl) hfir hfin]
        exact Or.inl ⟨rfl, rfl, rfl⟩
      · rw [assemble_fir_bc_fin a info hdr p (by rw [hb]; rfl) hfir hfin, ← hb]
        exact append_cases { a with st := .empty } info hdr 0 p

/-- `f, f+1, …` (mod 2^32), `n` entries -/
def idSeq : Nat → Nat → List Nat
  | _, 0 => []
  | f, n+1 => f :: idSeq (nextId f) n

/-- `f` advanced `n` times -/
def idAdvance : Nat → Nat → Nat
  | f, 0 => f
  | f, n+1 => idAdvance (nextId f) n

/-- **A3** (`frame_ids_consecutive`): from any not-complete assembler (in particular the initial
    one) and over any segment history, the delivered fragments carry the ids
    `a.frameId, a.frameId+1, …` (mod 2^32) in order, and the assembler's frame id ends advanced by
    exactly the number of delivered fragments; between segments the assembler is never `complete` -/
theorem frame_ids_consecutive (segs : List Seg) : ∀ (a : Assembler), a.isComplete = false →
    ((feedSegs a segs).2.map (·.1.id) = idSeq a.frameId (feedSegs a segs).2.length ∧
     (feedSegs a segs).1.frameId = idAdvance a.frameId (feedSegs a segs).2.length ∧
     (feedSegs a segs).1.isComplete = false ∧ (feedSegs a segs).1.cap = a.cap) := by
  induction segs with
  | nil => intro a hc; simp [feedSegs, idSeq, idAdvance, hc]
  | cons s rest ih =>
    intro a hc
    rcases assemble_step_cases a s.info s.hdr s.payload hc with ⟨h1, h2, h3⟩ | ⟨len, h1, h2, h3⟩
    · rw [feedSegs_cons_incomplete a s rest h1]
      have := ih _ h1
      rw [h2, h3] at this
      exact this
    · rw [feedSegs_cons_complete a s rest _ len h1]
      have := ih { a.assemble s.info s.hdr s.payload with st := .empty } rfl
      simp only at this ⊢
      rw [h2, h3] at this ⊢
      simp only [List.map_cons, List.length_cons, idSeq, idAdvance]
      exact ⟨by rw [this.1], this.2⟩

example : ({ cap := 2048 } : Assembler).isComplete = false := rfl

theorem idSeq_closed (f n : Nat) (hf : f < 4294967296) :
    idSeq f n = (List.range n).map (fun i => (f + i) % 4294967296) := by
  induction n generalizing f with
  | zero => rfl
  | succ n ih =>
    rw [idSeq, ih (nextId f) (by unfold nextId; omega), List.range_succ_eq_map]
    simp only [List.map_cons, List.map_map, Nat.add_zero, Nat.mod_eq_of_lt hf]
    congr 1
    apply List.map_congr_left
    intro i _
    simp only [Function.comp, nextId]
    omega

theorem idAdvance_closed (f n : Nat) (hf : f < 4294967296) :
    idAdvance f n = (f + n) % 4294967296 := by
  induction n generalizing f with
  | zero => simp [idAdvance, Nat.mod_eq_of_lt hf]
  | succ n ih =>
    rw [idAdvance, ih (nextId f) (by unfold nextId; omega)]
    unfold nextId; omega

/-- **A3** for the initial assembler: the `i`-th delivered fragment has id `i % 2^32` -/
theorem frame_ids_initial (c : Nat) (segs : List Seg) :
    (feedSegs { cap := c } segs).2.map (·.1.id) =
      (List.range (feedSegs { cap := c } segs).2.length).map (fun i => i % 4294967296) := by
  have h := (frame_ids_consecutive segs { cap := c } rfl).1
  rw [h, idSeq_closed _ _ (by show (0:Nat) < 4294967296; omega)]
  simp

/-! ## A2: every delivered fragment is a well-formed run of segments -/

def payloads (run : List Seg) : List Nat := run.flatMap (·.payload)

theorem payloads_append (r1 r2 : List Seg) : payloads (r1 ++ r2) = payloads r1 ++ payloads r2 := by
  simp [payloads]

/-- `run` is a complete, well-formed segment sequence: every segment carries `info`; the first has
    `fir = first` and every later one `fir = false`; the last has FIN and no earlier one has;
    sequence numbers are consecutive (`seqNext`).  (Same recursion as the writer's `segsFrom`.) -/
def RunFrom (info : FrameInfo) : Bool → List Seg → Prop
  | _, [] => False
  | first, [s] => s.info = info ∧ s.hdr.fir = first ∧ s.hdr.fin = true
  | first, s :: t :: rest =>
    s.info = info ∧ s.hdr.fir = first ∧ s.hdr.fin = false ∧ t.hdr.seq = seqNext s.hdr.seq ∧
      RunFrom info false (t :: rest)

/-- an unfinished well-formed segment sequence (no FIN yet) whose last sequence number is `q` -/
def PartFrom (info : FrameInfo) : Bool → List Seg → Nat → Prop
  | _, [], _ => False
  | first, [s], q => s.info = info ∧ s.hdr.fir = first ∧ s.hdr.fin = false ∧ s.hdr.seq = q
  | first, s :: t :: rest, q =>
    s.info = info ∧ s.hdr.fir = first ∧ s.hdr.fin = false ∧ t.hdr.seq = seqNext s.hdr.seq ∧
      PartFrom info false (t :: rest) q

theorem part_snoc (info : FrameInfo) (s : Seg) (q : Nat) (hi : s.info = info)
    (hfir : s.hdr.fir = false) (hfin : s.hdr.fin = false) (hseq : s.hdr.seq = seqNext q) :
    ∀ (run : List Seg) (f : Bool), PartFrom info f run q → PartFrom info f (run ++ [s]) s.hdr.seq := by
  intro run
  induction run with
  | nil => intro f h; exact absurd h (by simp [PartFrom])
  | cons x xs ih =>
    intro f h
    cases xs with
    | nil =>
      simp only [PartFrom] at h
      obtain ⟨h1, h2, h3, h4⟩ := h
      simp only [List.cons_append, List.nil_append, PartFrom]
      exact ⟨h1, h2, h3, by rw [hseq, h4], hi, hfir, hfin, trivial⟩
    | cons y ys =>
      simp only [PartFrom] at h
      obtain ⟨h1, h2, h3, h4, h5⟩ := h
      simp only [List.cons_append, PartFrom]
      exact ⟨h1, h2, h3, h4, ih false h5⟩

theorem run_snoc (info : FrameInfo) (s : Seg) (q : Nat) (hi : s.info = info)
    (hfir : s.hdr.fir = false) (hfin : s.hdr.fin = true) (hseq : s.hdr.seq = seqNext q) :
    ∀ (run : List Seg) (f : Bool), PartFrom info f run q → RunFrom info f (run ++ [s]) := by
  intro run
  induction run with
  | nil => intro f h; exact absurd h (by simp [PartFrom])
  | cons x xs ih =>
    intro f h
    cases xs with
    | nil =>
      simp only [PartFrom] at h
      obtain ⟨h1, h2, h3, h4⟩ := h
      simp only [List.cons_append, List.nil_append, RunFrom]
      exact ⟨h1, h2, h3, by rw [hseq, h4], hi, hfir, hfin⟩
    | cons y ys =>
      simp only [PartFrom] at h
      obtain ⟨h1, h2, h3, h4, h5⟩ := h
      simp only [List.cons_append, RunFrom]
      exact ⟨h1, h2, h3, h4, ih false h5⟩

/-- segments the assembler ignores in *every* state: non-FIR segments of a broadcast frame.
    `Keep s` = `s` is not one of those. -/
def Keep (s : Seg) : Bool := !(s.info.broadcast.isSome && !s.hdr.fir)

/-- `fd` is accounted for by a contiguous block at the end of `h` -/
def DeliveredAtEnd (cap : Nat) (h : List Seg) (fd : FragInfo × List Nat) : Prop :=
  ∃ pre block info, h = pre ++ block ∧
    (∃ f rest, block = f :: rest ∧ f.hdr.fir = true) ∧ (∃ init l, block = init ++ [l] ∧ l.hdr.fin = true) ∧
    RunFrom info true (block.filter Keep) ∧ fd.2 = payloads (block.filter Keep) ∧ fd.2.length ≤ cap ∧
    fd.1.source = info.source ∧ fd.1.broadcast = info.broadcast ∧
    (info.broadcast.isSome = true → block.length = 1)

/-- `fd` is accounted for by a contiguous block `block` of the segment history `segs`: `block`
    starts with a FIR segment and ends with a FIN segment, and after removing the segments the
    assembler ignores in every state (non-FIR broadcast segments, `Keep`), it is a well-formed run
    with identical `info`, whose payloads concatenate to the fragment data (≤ `cap` octets), whose
    source / broadcast mode are the fragment's; a broadcast fragment comes from a single segment -/
def Delivered (cap : Nat) (segs : List Seg) (fd : FragInfo × List Nat) : Prop :=
  ∃ pre block post info, segs = pre ++ block ++ post ∧
    (∃ f rest, block = f :: rest ∧ f.hdr.fir = true) ∧ (∃ init l, block = init ++ [l] ∧ l.hdr.fin = true) ∧
    RunFrom info true (block.filter Keep) ∧ fd.2 = payloads (block.filter Keep) ∧ fd.2.length ≤ cap ∧
    fd.1.source = info.source ∧ fd.1.broadcast = info.broadcast ∧
    (info.broadcast.isSome = true → block.length = 1)

/-- ghost-history invariant: after the segments `hist`, a `running` assembler has accumulated
    exactly the kept segments of a block at the end of `hist` -/
def Inv (a : Assembler) (hist : List Seg) : Prop :=
  match a.st with
  | .empty => True
  | .complete _ _ => False
  | .running info seq len =>
    info.broadcast = none ∧ ∃ pre block, hist = pre ++ block ∧
      (∃ f rest, block = f :: rest ∧ f.hdr.fir = true) ∧
      PartFrom info true (block.filter Keep) seq ∧
      a.buf.take len = payloads (block.filter Keep) ∧ len = (payloads (block.filter Keep)).length

theorem inv_of_empty {a : Assembler} (h : a.st = .empty) (hist : List Seg) : Inv a hist := by
  simp [Inv, h]

theorem keep_of_nobc {s : Seg} (h : s.info.broadcast = none) : Keep s = true := by
  simp [Keep, h]

theorem keep_of_fir {s : Seg} (h : s.hdr.fir = true) : Keep s = true := by
  simp [Keep, h]

theorem payloads_single (s : Seg) : payloads [s] = s.payload := by simp [payloads]

theorem filter_snoc_keep (block : List Seg) (s : Seg) (hk : Keep s = true) :
    (block ++ [s]).filter Keep = block.filter Keep ++ [s] := by
  simp [List.filter_append, hk]

theorem filter_snoc_drop (block : List Seg) (s : Seg) (hk : Keep s = false) :
    (block ++ [s]).filter Keep = block.filter Keep := by
  simp [List.filter_append, hk]

/-- the conclusion of one assembler step, as used by the history induction -/
def StepOk (cap : Nat) (hist : List Seg) (s : Seg) (a1 : Assembler) : Prop :=
  (a1.isComplete = false ∧ Inv a1 (hist ++ [s])) ∨
  (∃ fi len, a1.st = .complete fi len ∧ DeliveredAtEnd cap (hist ++ [s]) (fi, a1.buf.take len))

/-- a FIR segment (not a non-FIN broadcast) appended to the cleared assembler -/
theorem step_fresh (a : Assembler) (hist : List Seg) (s : Seg) (hfir : s.hdr.fir = true)
    (hb : s.info.broadcast = none ∨ s.hdr.fin = true) :
    StepOk a.cap hist s (({ a with st := .empty } : Assembler).append s.info s.hdr 0 s.payload) := by
  by_cases hcap : ({ a with st := .empty } : Assembler).cap < 0 + s.payload.length
  · rw [append_over _ _ _ _ _ hcap]
    exact Or.inl ⟨rfl, inv_of_empty rfl _⟩
  · have hcap' : 0 + s.payload.length ≤ ({ a with st := .empty } : Assembler).cap := by omega
    have hbuf : List.take (0 + s.payload.length) (List.take 0 a.buf ++ s.payload) = payloads [s] := by
      rw [take_take_append, payloads_single]; simp
    have hflt : [s].filter Keep = [s] := by simp [keep_of_fir hfir]
    cases hfin : s.hdr.fin
    · have hbn : s.info.broadcast = none := by
        rcases hb with h | h
        · exact h
        · rw [hfin] at h; cases h
      rw [append_nofin _ _ _ _ _ hcap' hfin]
      refine Or.inl ⟨rfl, ?_⟩
      simp only [Inv]
      refine ⟨hbn, hist, [s], rfl, ⟨s, [], rfl, hfir⟩, ?_, ?_, ?_⟩
      · rw [hflt]; exact ⟨rfl, hfir, hfin, rfl⟩
      · rw [hflt]; exact hbuf
      · rw [hflt, payloads_single]; omega
    · rw [append_fin _ _ _ _ _ hcap' hfin]
      refine Or.inr ⟨_, _, rfl, hist, [s], s.info, rfl, ⟨s, [], rfl, hfir⟩, ⟨[], s, rfl, hfin⟩, ?_, ?_, ?_,
        rfl, rfl, fun _ => rfl⟩
      · rw [hflt]; exact ⟨rfl, hfir, hfin⟩
      · rw [hflt]; exact hbuf
      · simp only at hcap' ⊢
        rw [hbuf, payloads_single]; omega

/-- the next in-sequence segment appended to a running assembler -/
theorem step_continue (a : Assembler) (hist : List Seg) (s : Seg) (pseq len : Nat)
    (hst : a.st = .running s.info pseq len) (hi : Inv a hist)
    (hfir : s.hdr.fir = false) (hseq : s.hdr.seq = seqNext pseq) :
    StepOk a.cap hist s (a.append s.info s.hdr len s.payload) := by
  simp only [Inv, hst] at hi
  obtain ⟨hbn, pre, block, hh, hhead, hpart, hbuf, hlen⟩ := hi
  have hk : Keep s = true := keep_of_nobc hbn
  have hflt := filter_snoc_keep block s hk
  have hbuf' : List.take (len + s.payload.length) (List.take len a.buf ++ s.payload) =
      payloads ((block ++ [s]).filter Keep) := by
    rw [take_take_append, hflt, payloads_append, payloads_single, hbuf]
  have hhist : hist ++ [s] = pre ++ (block ++ [s]) := by rw [hh, List.append_assoc]
  have hhead' : ∃ f rest, block ++ [s] = f :: rest ∧ f.hdr.fir = true := by
    obtain ⟨f, rest, e, hf⟩ := hhead
    exact ⟨f, rest ++ [s], by rw [e]; rfl, hf⟩
  by_cases hcap : a.cap < len + s.payload.length
  · rw [append_over _ _ _ _ _ hcap]
    exact Or.inl ⟨rfl, inv_of_empty rfl _⟩
  · have hcap' : len + s.payload.length ≤ a.cap := by omega
    cases hfin : s.hdr.fin
    · rw [append_nofin _ _ _ _ _ hcap' hfin]
      refine Or.inl ⟨rfl, ?_⟩
      simp only [Inv]
      refine ⟨hbn, pre, block ++ [s], hhist, hhead', ?_, hbuf', ?_⟩
      · rw [hflt]; exact part_snoc s.info s pseq rfl hfir hfin hseq _ _ hpart
      · rw [hflt, payloads_append, payloads_single, List.length_append, ← hlen]
    · rw [append_fin _ _ _ _ _ hcap' hfin]
      refine Or.inr ⟨_, _, rfl, pre, block ++ [s], s.info, hhist, hhead', ⟨block, s, rfl, hfin⟩, ?_, hbuf', ?_,
        rfl, rfl, ?_⟩
      · rw [hflt]; exact run_snoc s.info s pseq rfl hfir hfin hseq _ _ hpart
      · simp only
        rw [hbuf', hflt, payloads_append, payloads_single, List.length_append, ← hlen]; exact hcap'
      · intro h; rw [hbn] at h; cases h

/-- **A2, step**: one `assemble` preserves the ghost-history invariant or completes a fragment
    that is accounted for by a block at the end of the history -/
theorem inv_assemble (a : Assembler) (hist : List Seg) (s : Seg) (hi : Inv a hist) :
    (a.assemble s.info s.hdr s.payload).cap = a.cap ∧
    StepOk a.cap hist s (a.assemble s.info s.hdr s.payload) := by
  have hc : a.isComplete = false := by
    cases hst : a.st with
    | complete fi len => simp [Inv, hst] at hi
    | empty => simp [Assembler.isComplete, hst]
    | running i q l => simp [Assembler.isComplete, hst]
  refine ⟨?_, ?_⟩
  · rcases assemble_step_cases a s.info s.hdr s.payload hc with ⟨_, _, h⟩ | ⟨_, _, _, h⟩ <;> exact h
  cases hfir : s.hdr.fir
  · -- not FIR
    cases hb : s.info.broadcast with
    | some m =>
      -- ignored in every state
      rw [assemble_nonfir_bc a s.info s.hdr s.payload (by rw [hb]; rfl) hfir]
      refine Or.inl ⟨hc, ?_⟩
      have hk : Keep s = false := by simp [Keep, hb, hfir]
      cases hst : a.st with
      | complete fi len => simp [Inv, hst] at hi
      | empty => exact inv_of_empty hst _
      | running i q l =>
        simp only [Inv, hst] at hi ⊢
        obtain ⟨hbn, pre, block, hh, ⟨f, rest, e, hf⟩, hpart, hbuf, hlen⟩ := hi
        refine ⟨hbn, pre, block ++ [s], by rw [hh, List.append_assoc],
          ⟨f, rest ++ [s], by rw [e]; rfl, hf⟩, ?_, ?_, ?_⟩
        · rw [filter_snoc_drop block s hk]; exact hpart
        · rw [filter_snoc_drop block s hk]; exact hbuf
        · rw [filter_snoc_drop block s hk]; exact hlen
    | none =>
      cases hst : a.st with
      | complete fi len => simp [Inv, hst] at hi
      | empty =>
        rw [assemble_empty_nonfir a s.info s.hdr s.payload hst hfir]
        exact Or.inl ⟨hc, inv_of_empty hst _⟩
      | running pinfo pseq len =>
        by_cases hgood : s.hdr.seq = seqNext pseq ∧ s.info = pinfo
        · obtain ⟨h1, h2⟩ := hgood
          subst h2
          rw [assemble_running_next a s.info s.hdr s.payload pseq len hst hb hfir h1]
          exact step_continue a hist s pseq len hst hi hfir h1
        · rw [assemble_running_bad a s.info s.hdr s.payload pinfo pseq len hst hb hfir (by
            by_cases h1 : s.hdr.seq = seqNext pseq
            · exact Or.inr (fun h2 => hgood ⟨h1, h2⟩)
            · exact Or.inl h1)]
          exact Or.inl ⟨rfl, inv_of_empty rfl _⟩
  · -- FIR
    cases hb : s.info.broadcast with
    | none =>
      rw [assemble_fir_nobc a s.info s.hdr s.payload hb hfir]
      exact step_fresh a hist s hfir (Or.inl hb)
    | some m =>
      cases hfin : s.hdr.fin
      · rw [assemble_fir_bc_nofin a s.info s.hdr s.payload (by rw [hb]; rfl) hfir hfin]
        exact Or.inl ⟨rfl, inv_of_empty rfl _⟩
      · rw [assemble_fir_bc_fin a s.info s.hdr s.payload (by rw [hb]; rfl) hfir hfin]
        exact step_fresh a hist s hfir (Or.inr hfin)

theorem delivered_of_atEnd {cap : Nat} {h post : List Seg} {fd : FragInfo × List Nat}
    (hd : DeliveredAtEnd cap h fd) : Delivered cap (h ++ post) fd := by
  obtain ⟨pre, block, info, hh, r⟩ := hd
  exact ⟨pre, block, post, info, by rw [hh], r⟩

/-- **A2, history induction**: from any assembler satisfying the ghost invariant for the history
    `hist`, every fragment delivered while feeding `segs` is accounted for in `hist ++ segs` -/
theorem feed_delivered (segs : List Seg) : ∀ (a : Assembler) (hist : List Seg), Inv a hist →
    ∀ fd ∈ (feedSegs a segs).2, Delivered a.cap (hist ++ segs) fd := by
  induction segs with
  | nil => intro a hist _ fd hfd; simp [feedSegs] at hfd
  | cons s rest ih =>
    intro a hist hi fd hfd
    have hassoc : hist ++ s :: rest = (hist ++ [s]) ++ rest := by simp
    obtain ⟨hcap, hstep⟩ := inv_assemble a hist s hi
    rcases hstep with ⟨hinc, hinv⟩ | ⟨fi, len, hst, hdel⟩
    · rw [feedSegs_cons_incomplete a s rest hinc] at hfd
      have := ih _ _ hinv fd hfd
      rw [hcap] at this
      rw [hassoc]; exact this
    · rw [feedSegs_cons_complete a s rest fi len hst] at hfd
      simp only [List.mem_cons] at hfd
      rcases hfd with rfl | hfd
      · rw [hassoc]; exact delivered_of_atEnd hdel
      · have := ih { a.assemble s.info s.hdr s.payload with st := .empty } (hist ++ [s])
          (inv_of_empty rfl _) fd hfd
        simp only [hcap] at this
        rw [hassoc]; exact this

/-- **A2** (`delivered_is_run_partial`).  Over every segment history fed to the initial assembler
    `{cap := c}`, each delivered fragment `(fi, data)` is accounted for by a *contiguous block*
    `segs = pre ++ block ++ post` that starts with a FIR segment and ends with a FIN segment, such
    that `block` minus the segments the assembler ignores in every state (non-FIR segments of
    broadcast frames) is a well-formed run: first has FIR, no other has; last has FIN, no other has;
    consecutive sequence numbers; identical `info`; `data` = concatenated payloads, `≤ c` octets;
    `fi.source`/`fi.broadcast` are the run's; a broadcast fragment comes from one single segment.

    What is missing w.r.t. the task statement (`run` itself contiguous in `segs`): that statement
    is FALSE for the model (and for `assembler.rs`, which the model transcribes faithfully here):
    see `contiguity_counterexample` below.  `delivered_is_run` gives the exact task statement under
    the extra hypothesis that no non-FIR broadcast segment occurs in the history. -/
theorem delivered_is_run_partial (c : Nat) (segs : List Seg) :
    ∀ fd ∈ (feedSegs { cap := c } segs).2, Delivered c segs fd := by
  intro fd hfd
  have := feed_delivered segs { cap := c } [] (inv_of_empty rfl _) fd hfd
  simpa using this

/-- the strict contiguity statement fails: a non-FIR broadcast segment (ignored without resetting
    the assembler) may sit between two segments of a delivered unicast fragment -/
theorem contiguity_counterexample :
    (feedSegs { cap := 2048 }
      [⟨⟨1, none, .data⟩, ⟨false, true, 1⟩, [10]⟩,
       ⟨⟨2, some 0, .data⟩, ⟨false, false, 9⟩, [99]⟩,
       ⟨⟨1, none, .data⟩, ⟨true, false, 2⟩, [20]⟩]).2 = [(⟨0, 1, none⟩, [10, 20])] := by decide

/-- **A2** (`delivered_is_run`), the task statement, for histories without non-FIR broadcast
    segments: each delivered fragment is the concatenation of the payloads of a contiguous sub-list
    `run` of `segs` which is a well-formed run (`RunFrom info true run`) -/
theorem delivered_is_run (c : Nat) (segs : List Seg) (hk : ∀ s ∈ segs, Keep s = true) :
    ∀ fd ∈ (feedSegs { cap := c } segs).2,
      ∃ pre run post info, segs = pre ++ run ++ post ∧ RunFrom info true run ∧
        fd.2 = payloads run ∧ fd.2.length ≤ c ∧ fd.1.source = info.source ∧
        fd.1.broadcast = info.broadcast ∧ (info.broadcast.isSome = true → run.length = 1) := by
  intro fd hfd
  obtain ⟨pre, block, post, info, hs, _, _, hrun, hdata, hlen, h1, h2, h3⟩ :=
    delivered_is_run_partial c segs fd hfd
  have hflt : block.filter Keep = block := by
    rw [List.filter_eq_self]
    intro x hx
    exact hk x (by rw [hs]; simp [hx])
  rw [hflt] at hrun hdata
  exact ⟨pre, block, post, info, hs, hrun, hdata, hlen, h1, h2, h3⟩

example : ∀ s ∈ segsOf ⟨1024, none, .data⟩ 5 (List.replicate 600 7), Keep s = true := by
  intro s hs
  exact keep_of_nobc (by rw [segsFrom_info _ _ _ _ _ s hs])

/-! ## sanity of the definitions: index-style reading of `RunFrom`, the writer produces runs,
    and the header octet round trip (this is where `seq0 < 64` matters) -/

/-- index-style reading of `RunFrom`: non-empty; segment `i` has `fir = (i = 0 ∧ first)`,
    `fin = (i is last)`, consecutive sequence numbers, and every segment carries `info` -/
theorem RunFrom.spec (info : FrameInfo) : ∀ (run : List Seg) (first : Bool), RunFrom info first run →
    run ≠ [] ∧
    (∀ i (h : i < run.length), run[i].hdr.fir = (decide (i = 0) && first)) ∧
    (∀ i (h : i < run.length), run[i].hdr.fin = decide (i + 1 = run.length)) ∧
    (∀ i (h : i + 1 < run.length), run[i+1].hdr.seq = seqNext run[i].hdr.seq) ∧
    (∀ s ∈ run, s.info = info) := by
  intro run
  induction run with
  | nil => intro f h; exact absurd h (by simp [RunFrom])
  | cons x xs ih =>
    intro f h
    cases xs with
    | nil =>
      simp only [RunFrom] at h
      obtain ⟨h1, h2, h3⟩ := h
      refine ⟨by simp, ?_, ?_, ?_, ?_⟩
      · intro i hi
        have : i = 0 := by simp at hi; omega
        subst this; simp [h2]
      · intro i hi
        have : i = 0 := by simp at hi; omega
        subst this; simp [h3]
      · intro i hi; simp at hi
      · intro s hs; simp at hs; rw [hs]; exact h1
    | cons y ys =>
      simp only [RunFrom] at h
      obtain ⟨h1, h2, h3, h4, h5⟩ := h
      obtain ⟨_, i1, i2, i3, i4⟩ := ih false h5
      refine ⟨by simp, ?_, ?_, ?_, ?_⟩
      · intro i hi
        cases i with
        | zero => simp [h2]
        | succ j =>
          have := i1 j (by simp at hi ⊢; omega)
          simp only [List.getElem_cons_succ]
          rw [this]; simp
      · intro i hi
        cases i with
        | zero => simp [h3]
        | succ j =>
          have := i2 j (by simp at hi ⊢; omega)
          simp only [List.getElem_cons_succ]
          rw [this]; simp
      · intro i hi
        cases i with
        | zero => simpa using h4
        | succ j =>
          have := i3 j (by simp at hi ⊢; omega)
          simpa using this
      · intro s hs
        rcases List.mem_cons.mp hs with rfl | hs
        · exact h1
        · exact i4 s hs

/-- the writer's segments for a non-empty fragment form a well-formed run -/
theorem segsFrom_isRun (info : FrameInfo) (fuel : Nat) : ∀ (seq : Nat) (first : Bool) (frag : List Nat),
    frag ≠ [] → frag.length ≤ fuel → RunFrom info first (segsFrom info fuel seq first frag) := by
  induction fuel with
  | zero =>
    intro seq first frag hne hl
    exact absurd (List.eq_nil_of_length_eq_zero (by omega)) hne
  | succ n ih =>
    intro seq first frag hne hl
    have hE : frag.isEmpty = false := by simpa using hne
    have hsplit : (frag.take 249).length + (frag.drop 249).length = frag.length := by
      rw [← List.length_append, List.take_append_drop]
    have hpos : 0 < frag.length := List.length_pos_iff.mpr hne
    have htl : 0 < (frag.take 249).length := by simp only [List.length_take]; omega
    unfold segsFrom
    simp only [hE, Bool.false_eq_true, ↓reduceIte]
    by_cases hd : frag.drop 249 = []
    · rw [hd, segsFrom_nil]
      simp [RunFrom]
    · have hrec := ih (seqNext seq) false (frag.drop 249) hd (by omega)
      have hE' : (frag.drop 249).isEmpty = false := by simpa using hd
      rw [hE']
      cases n with
      | zero =>
        exact absurd (List.eq_nil_of_length_eq_zero (by omega)) hd
      | succ m =>
        unfold segsFrom at hrec ⊢
        simp only [hE', Bool.false_eq_true, ↓reduceIte] at hrec ⊢
        simp only [RunFrom]
        exact ⟨trivial, trivial, trivial, trivial, hrec⟩

theorem segsOf_isRun (info : FrameInfo) (seq0 : Nat) (frag : List Nat) (hne : frag ≠ []) :
    RunFrom info true (segsOf info seq0 frag) :=
  segsFrom_isRun info _ _ _ _ hne (Nat.le_refl _)

theorem seqNext_lt (v : Nat) (h : v < 64) : seqNext v < 64 := by
  unfold seqNext; split <;> omega

theorem segsFrom_seq_lt (info : FrameInfo) (fuel : Nat) : ∀ (seq : Nat) (first : Bool) (frag : List Nat),
    seq < 64 → ∀ s ∈ segsFrom info fuel seq first frag, s.hdr.seq < 64 := by
  induction fuel with
  | zero => intro seq first frag _ s hs; simp [segsFrom] at hs
  | succ n ih =>
    intro seq first frag hq s hs
    unfold segsFrom at hs
    by_cases h : frag.isEmpty
    · simp [h] at hs
    · simp only [h, Bool.false_eq_true, ↓reduceIte, List.mem_cons] at hs
      rcases hs with rfl | hs
      · exact hq
      · exact ih _ _ _ (seqNext_lt seq hq) s hs

/-- what the reader makes of a received link payload `transport octet :: data` -/
def segOfOctets (info : FrameInfo) (tb : Nat) (data : List Nat) : Seg := ⟨info, THeader.ofNat tb, data⟩

/-- with `seq0 < 64` the transport header octets the writer emits decode to the same headers, so
    the reader feeds its assembler exactly `segsOf info seq0 frag` -/
theorem segsOf_octets_roundtrip (info : FrameInfo) (seq0 : Nat) (frag : List Nat) (hq : seq0 < 64) :
    (segsOf info seq0 frag).map (fun s => segOfOctets info s.hdr.toNat s.payload) =
      segsOf info seq0 frag := by
  have h1 := segsFrom_seq_lt info frag.length seq0 true frag hq
  have h2 := segsFrom_info info frag.length seq0 true frag
  show List.map _ (segsOf info seq0 frag) = _
  unfold segsOf
  conv => rhs; rw [← List.map_id (segsFrom info frag.length seq0 true frag)]
  apply List.map_congr_left
  intro s hs
  rcases s with ⟨i, ⟨fin, fir, seq⟩, p⟩
  have hlt : seq < 64 := h1 _ hs
  have hin : i = info := h2 _ hs
  have := Dnp3.Props.C08.theader_roundtrip fin fir ⟨seq, hlt⟩
  simp only [segOfOctets, id]
  rw [this, hin]

example : (62 : Nat) < 64 := by decide

-- end to end on a concrete instance: 600 octets, three segments, sequence numbers 62, 63, 0,
-- fed to an assembler holding garbage
example : (segsOf ⟨1024, none, .data⟩ 62 (List.range 600)).map (fun s => (s.hdr, s.payload.length)) =
    [(⟨false, true, 62⟩, 249), (⟨false, false, 63⟩, 249), (⟨true, false, 0⟩, 102)] := by decide +kernel

example : (feedSegs { st := .running ⟨7, none, .data⟩ 3 5, frameId := 4294967295, buf := [1,2,3,4,5], cap := 2048 }
    (segsOf ⟨1024, none, .data⟩ 62 (List.range 600))).2 = [(⟨4294967295, 1024, none⟩, List.range 600)] := by
  decide +kernel

end Dnp3.Proofs.Transport
