import Dnp3.Proofs.DatabaseEv
import Dnp3.Proofs.DatabaseStatic
import Dnp3.Proofs.DatabaseCap
/-!
# The database operations in full generality, and the event rule

`DbOp` (part 1) is the vocabulary of the session model: `Db.add` (the engines' point configuration) and
`Db.update` (the default `UpdateOptions`, or the encoded ones).  `DbOpX` adds the two operations with
every parameter free — `Db.addCfg` (any configured static / event variation and dead-band) and
`Db.updateOpt` (any measurement, any `UpdateOptions`) — and the invariants of parts 1 and 2 are
invariants of every `DbOpX` sequence.

The event rule (`StaticDatabase::update`, arm `EventMode::Detect`): an update produces an event iff the
flags as reported changed or the value differs from the value LAST REPORTED as an event by more than the
point's dead-band; `last_event` moves exactly when an event is produced (`Force`: always,
`Suppress`: never).
-/
namespace Dnp3.DbProofs
open Dnp3 Dnp3.DbM

inductive DbOpX where
  | base (op : DbOp)
  | addCfg (t : PtType) (idx cls svar evar deadband : Nat)
  | updateOpt (t : PtType) (idx : Nat) (m : Meas) (o : UpdOpts)
deriving DecidableEq, Repr

def stepX (db : Db) : DbOpX → Db
  | .base op => step db op
  | .addCfg t idx cls sv ev dbd => (db.addCfg t idx cls sv ev dbd).1
  | .updateOpt t idx m o => (db.updateOpt t idx m o).1

def runX (db : Db) (ops : List DbOpX) : Db := ops.foldl stepX db

theorem runX_base (db : Db) (ops : List DbOp) : runX db (ops.map .base) = run db ops := by
  induction ops generalizing db with
  | nil => rfl
  | cons op ops ih => simp only [List.map_cons, runX, run, List.foldl_cons] at ih ⊢; exact ih _

theorem ordered_stepX (db : Db) (op : DbOpX) (h : Ordered db) : Ordered (stepX db op) := by
  cases op with
  | base op => exact ordered_step db op h
  | addCfg t idx cls sv ev dbd => exact (addCfg_eb db t idx cls sv ev dbd).ordered h
  | updateOpt t idx m o => exact updateOpt_ordered db t idx m o h

theorem total_stepX (db : Db) (op : DbOpX) (h : TotalExact db) : TotalExact (stepX db op) := by
  cases op with
  | base op => exact total_step db op h
  | addCfg t idx cls sv ev dbd => exact (addCfg_eb db t idx cls sv ev dbd).total h
  | updateOpt t idx m o => exact updateOpt_total db t idx m o h

theorem written_stepX (db : Db) (op : DbOpX) (h : WrittenExact db) : WrittenExact (stepX db op) := by
  cases op with
  | base op => exact written_step db op h
  | addCfg t idx cls sv ev dbd => exact (addCfg_eb db t idx cls sv ev dbd).written h
  | updateOpt t idx m o => exact updateOpt_written db t idx m o h

theorem counters_stepX (db : Db) (op : DbOpX) (h : CountersExact db) : CountersExact (stepX db op) :=
  ⟨total_stepX db op h.1, written_stepX db op h.2⟩

theorem typeBounded_stepX (db : Db) (op : DbOpX) (h : TotalExact db) (hb : TypeBounded db) :
    TypeBounded (stepX db op) := by
  cases op with
  | base op => exact typeBounded_step db op h hb
  | addCfg t idx cls sv ev dbd => exact (addCfg_eb db t idx cls sv ev dbd).typeBounded hb
  | updateOpt t idx m o => exact updateOpt_typeBounded db t idx m o h hb

theorem sorted_stepX (db : Db) (op : DbOpX) (h : StaticSorted db) : StaticSorted (stepX db op) := by
  cases op with
  | base op => exact sorted_step db op h
  | addCfg t idx cls sv ev dbd => exact addCfg_sorted db t idx cls sv ev dbd h
  | updateOpt t idx m o => exact (updateOpt_stSame db h t idx m o).sorted h

theorem evCfg_stepX (db : Db) (op : DbOpX) : (stepX db op).evCfg = db.evCfg := by
  cases op with
  | base op => exact evCfg_step db op
  | addCfg t idx cls sv ev dbd => exact (addCfg_eb db t idx cls sv ev dbd).2.2.2.2.1
  | updateOpt t idx m o =>
    show (db.updateOpt t idx m o).1.evCfg = db.evCfg
    obtain ⟨db0, he, h1 | h1 | ⟨p, _, _, h1⟩⟩ := updateOpt_spec db t idx m o <;> rw [h1]
    · exact he.2.2.2.2.1
    · exact he.2.2.2.2.1
    · exact (insert_evCfg _ _ _ _ _ _).trans he.2.2.2.2.1

theorem runX_invariant {P : Db → Prop} (hstep : ∀ db op, P db → P (stepX db op)) (db : Db) (ops : List DbOpX)
    (h : P db) : P (runX db ops) := by
  induction ops generalizing db with
  | nil => exact h
  | cons op ops ih => exact ih _ (hstep db op h)

theorem ordered_runX (db : Db) (ops : List DbOpX) (h : Ordered db) : Ordered (runX db ops) :=
  runX_invariant ordered_stepX db ops h
theorem total_runX (db : Db) (ops : List DbOpX) (h : TotalExact db) : TotalExact (runX db ops) :=
  runX_invariant total_stepX db ops h
theorem counters_runX (db : Db) (ops : List DbOpX) (h : CountersExact db) : CountersExact (runX db ops) :=
  runX_invariant counters_stepX db ops h
theorem sorted_runX (db : Db) (ops : List DbOpX) (h : StaticSorted db) : StaticSorted (runX db ops) :=
  runX_invariant sorted_stepX db ops h

theorem typeBounded_runX (db : Db) (ops : List DbOpX) (h : TotalExact db) (hb : TypeBounded db) :
    TypeBounded (runX db ops) :=
  (runX_invariant (P := fun d => TotalExact d ∧ TypeBounded d)
    (fun d op hd => ⟨total_stepX d op hd.1, typeBounded_stepX d op hd.1 hd.2⟩) db ops ⟨h, hb⟩).2

theorem evCfg_runX (db : Db) (ops : List DbOpX) : (runX db ops).evCfg = db.evCfg := by
  induction ops generalizing db with
  | nil => rfl
  | cons op ops ih => exact (ih (stepX db op)).trans (evCfg_stepX db op)

/-- the shared event list never holds more records than the sum of the per-type maxima (the capacity the
    library gives its `VecList`), whatever the operations -/
theorem events_within_capacityX (ev : TyVec Nat) (cz : TyVec Bool) (sel : Option Nat) (ops : List DbOpX) :
    (runX (Db.newCfg ev cz sel) ops).events.length ≤ (Gen.DbT.maxEventsSum.map fun t => ev.get t).sum := by
  have ht := total_runX _ ops (newCfg_total ev cz sel)
  have hb := typeBounded_runX _ ops (newCfg_total ev cz sel) (newCfg_typeBounded ev cz sel)
  have hc : (runX (Db.newCfg ev cz sel) ops).evCfg = ev := evCfg_runX _ ops
  rw [length_eq_sum_countP Gen.DbT.maxEventsSum DbTables.maxEventsSum_each_once]
  apply sum_map_le
  intro t
  have := hb t
  rw [hc] at this
  have e : (runX (Db.newCfg ev cz sel) ops).total.ty t =
      (runX (Db.newCfg ev cz sel) ops).events.countP (fun r => r.ty == t) := by
    rw [ht, tallyBy_ty]; simp [anyRec]
  omega

/-! ## the event rule -/

/-- looking a point up after replacing it finds the replacement -/
theorem pmLookup_pmSet_same (m : PMap) (idx : Nat) (p p' : Point) (hp : pmLookup m idx = some p) :
    pmLookup (pmSet m idx p') idx = some p' := by
  induction m with
  | nil => simp [pmLookup] at hp
  | cons a rest ih =>
    obtain ⟨i, x⟩ := a
    unfold pmLookup at hp
    unfold pmSet
    by_cases e : i = idx
    · simp only [e, if_true]; unfold pmLookup; simp
    · simp only [e, if_false] at hp ⊢
      by_cases lt : idx < i
      · simp [lt] at hp
      · simp only [lt, if_false] at hp
        unfold pmLookup
        simp only [e, if_false, lt]
        exact ih hp

/-- `isEvent` spelled out per detector -/
theorem isEvent_iff (t : PtType) (d : Nat) (last new : Meas) :
    isEvent t d last new = true ↔
      match Gen.DbT.detector t with
      | .flags => last.wire t ≠ new.wire t
      | .deadband => last.wire t ≠ new.wire t ∨ (new.value - last.value).natAbs > d
      | .value => last.octets ≠ new.octets := by
  unfold isEvent
  cases Gen.DbT.detector t <;> simp

/-- the point an update leaves behind: the static value follows `update_static`; the detector's baseline
    `lastEvent` becomes the new value exactly when an event is wanted, and is untouched otherwise;
    nothing else of the point, and no other point map, changes -/
theorem updateOpt_point (db : Db) (t : PtType) (idx : Nat) (m : Meas) (o : UpdOpts) (p : Point)
    (hp : pmLookup (db.map t) idx = some p) :
    ∃ db0 p', EbEq db db0 ∧ db0.map t = pmSet (db.map t) idx p' ∧
      p'.current = (if o.updateStatic then m else p.current) ∧
      p'.lastEvent = (if wantsEvent t p m o.mode then m else p.lastEvent) ∧
      p'.selected = p.selected ∧ p'.cls = p.cls ∧ p'.svar = p.svar ∧ p'.evar = p.evar ∧ p'.deadband = p.deadband ∧
      (∀ u, u ≠ t → db0.map u = db.map u) ∧
      (db.updateOpt t idx m o = (db0, .noEvent) ∨
       (wantsEvent t p m o.mode = true ∧ p.cls ≠ 0 ∧ db.updateOpt t idx m o =
          ((db0.insert idx p.cls t m p.evar).1, infoOf (db0.insert idx p.cls t m p.evar).2))) := by
  have hp' : pmLookup (db.getMutMap t) idx = some p := by rw [Db.getMutMap_eq']; exact hp
  unfold Db.updateOpt
  rw [hp']
  simp only [Db.getMutMap_eq', Db.setMutMap_eq']
  have hother : ∀ (mm : PMap) u, u ≠ t → (db.setMap t mm).map u = db.map u := by
    intro mm u hu; rw [Db.map_setMap']; simp [hu]
  generalize wantsEvent t p m o.mode = w
  cases w
  · -- no event wanted: only the static value may change
    simp only [Bool.false_eq_true, ↓reduceIte]
    have hf : ∀ q : Point, q = (if o.updateStatic = true then { p with current := m } else p : Point) →
        q.current = (if o.updateStatic then m else p.current) ∧
        q.lastEvent = p.lastEvent ∧
        q.selected = p.selected ∧ q.cls = p.cls ∧ q.svar = p.svar ∧ q.evar = p.evar ∧ q.deadband = p.deadband := by
      intro q hq; subst hq; cases o.updateStatic <;> simp
    obtain ⟨f1, f2, f3, f4, f5, f6, f7⟩ := hf _ rfl
    exact ⟨_, _, setMap_eb _ _ _, Db.map_setMap_same' _ _ _, f1, f2, f3, f4, f5, f6, f7, hother _, Or.inl rfl⟩
  · simp only [↓reduceIte]
    have hf : ∀ q : Point, q = ({ (if o.updateStatic = true then { p with current := m } else p) with lastEvent := m } : Point) →
        q.current = (if o.updateStatic then m else p.current) ∧
        q.lastEvent = m ∧
        q.selected = p.selected ∧ q.cls = p.cls ∧ q.svar = p.svar ∧ q.evar = p.evar ∧ q.deadband = p.deadband := by
      intro q hq; subst hq; cases o.updateStatic <;> simp
    obtain ⟨f1, f2, f3, f4, f5, f6, f7⟩ := hf _ rfl
    by_cases hc : p.cls = 0
    · rw [if_pos hc]
      exact ⟨_, _, setMap_eb _ _ _, Db.map_setMap_same' _ _ _, f1, f2, f3, f4, f5, f6, f7, hother _, Or.inl rfl⟩
    · rw [if_neg hc]
      refine ⟨db.setMap t (pmSet (db.map t) idx
          { (if o.updateStatic = true then { p with current := m } else p) with lastEvent := m }), _,
        setMap_eb _ _ _, Db.map_setMap_same' _ _ _, f1, f2, f3, f4, f5, f6, f7, hother _, Or.inr ⟨trivial, hc, ?_⟩⟩
      split <;> rename_i heq <;> simp only [heq, infoOf]

/-- the result of an update tells whether an event was recorded: `created` / `overflow` exactly when an
    event is wanted, the point has a class and the type's buffer is not switched off -/
theorem updateOpt_event_iff (db : Db) (t : PtType) (idx : Nat) (m : Meas) (o : UpdOpts) (p : Point)
    (hp : pmLookup (db.map t) idx = some p) :
    ((∃ id, (db.updateOpt t idx m o).2 = .created id) ∨ (∃ c d, (db.updateOpt t idx m o).2 = .overflow c d)) ↔
      (wantsEvent t p m o.mode = true ∧ p.cls ≠ 0 ∧ db.evCfg.get t ≠ 0) := by
  obtain ⟨db0, p', he, _, _, _, _, _, _, _, _, _, h1 | ⟨hw, hc, h1⟩⟩ := updateOpt_point db t idx m o p hp
  · rw [h1]
    constructor
    · rintro (⟨id, h⟩ | ⟨c, d, h⟩) <;> cases h
    · rintro ⟨hw, hc, hmax⟩
      exfalso
      -- `noEvent` with an event wanted, a class and a non-zero maximum: impossible
      have hp' : pmLookup (db.getMutMap t) idx = some p := by rw [Db.getMutMap_eq']; exact hp
      have : (db.updateOpt t idx m o).2 ≠ .noEvent := by
        unfold Db.updateOpt
        rw [hp']
        simp only []
        rw [if_pos hw, if_neg hc]
        have hcfg : (db.setMutMap t (pmSet (db.getMutMap t) idx
            { (if o.updateStatic = true then { p with current := m } else p) with lastEvent := m })).evCfg.get t ≠ 0 := hmax
        rcases insert_cases (db.setMutMap t (pmSet (db.getMutMap t) idx
            { (if o.updateStatic = true then { p with current := m } else p) with lastEvent := m })) idx p.cls t m p.evar
          with ⟨h0, _⟩ | ⟨_, d, rest, _, _, hi⟩ | ⟨_, _, hi⟩
        · exact absurd h0 hcfg
        · rw [hi]; simp
        · rw [hi]; simp
      rw [h1] at this; exact this rfl
  · rw [h1]
    have hcfg : db0.evCfg = db.evCfg := he.2.2.2.2.1
    constructor
    · rintro (⟨id, h⟩ | ⟨c, d, h⟩)
      all_goals
        refine ⟨hw, hc, ?_⟩
        intro h0
        rcases insert_cases db0 idx p.cls t m p.evar with ⟨_, hi⟩ | ⟨hne, _⟩ | ⟨hne, _⟩
        · rw [hi] at h; simp [infoOf] at h
        · exact hne (by rw [hcfg]; exact h0)
        · exact hne (by rw [hcfg]; exact h0)
    · rintro ⟨_, _, hmax⟩
      rcases insert_cases db0 idx p.cls t m p.evar with ⟨h0, _⟩ | ⟨_, d, rest, _, _, hi⟩ | ⟨_, _, hi⟩
      · exact absurd (by rw [← hcfg]; exact h0) hmax
      · right; exact ⟨_, _, by rw [hi]; rfl⟩
      · left; exact ⟨_, by rw [hi]; rfl⟩

end Dnp3.DbProofs
