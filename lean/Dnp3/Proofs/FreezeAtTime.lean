import Dnp3.Model.Outstation

/-! Shared facts about the `handleFreezeAtTime` fold (FREEZE_AT_TIME / FREEZE_AT_TIME_NO_RESPONSE):
    the step function by name, and an invariant principle for its accumulator. -/

namespace Dnp3.Proofs.FreezeAtTime
open Dnp3

/-- the fold step of `handleFreezeAtTime` -/
def freezeAtTimeStep (p : Acc × Nat × Bool) (h : ObjHdr) : Acc × Nat × Bool :=
  if h.group = 50 ∧ h.var = 2 then
    if h.a = 1 then (p.1, p.2.1, true) else (p.1, p.2.1 ||| iin2ParamError, p.2.2)
  else if p.2.2 then
    let (a', i) := handleFreezeHeader p.1 .atTime h
    (a', p.2.1 ||| i, true)
  else (p.1, p.2.1 ||| iin2ParamError, false)

theorem handleFreezeAtTime_eq (a : Acc) (seq : Nat) (hs : List ObjHdr) :
    handleFreezeAtTime a seq hs =
      ((hs.foldl freezeAtTimeStep (a, 0, false)).1, emptySolicited seq (hs.foldl freezeAtTimeStep (a, 0, false)).2.1) := rfl

/-- each step of `handleFreezeAtTime` leaves the accumulator or applies `handleFreezeHeader … .atTime` -/
theorem freezeAtTimeStep_fst (p : Acc × Nat × Bool) (h : ObjHdr) :
    (freezeAtTimeStep p h).1 = p.1 ∨ (freezeAtTimeStep p h).1 = (handleFreezeHeader p.1 .atTime h).1 := by
  unfold freezeAtTimeStep
  split
  · split <;> exact .inl rfl
  · split
    · exact .inr rfl
    · exact .inl rfl

/-- invariant principle for the accumulator of the `handleFreezeAtTime` fold -/
theorem freezeAtTime_foldl_inv (P : Acc → Prop) (step : ∀ b h, P b → P (handleFreezeHeader b .atTime h).1)
    (hs : List ObjHdr) (p : Acc × Nat × Bool) (h0 : P p.1) : P (hs.foldl freezeAtTimeStep p).1 := by
  induction hs generalizing p with
  | nil => exact h0
  | cons h t ih =>
    rw [List.foldl_cons]
    apply ih
    rcases freezeAtTimeStep_fst p h with e | e <;> rw [e]
    · exact h0
    · exact step _ _ h0

/-- invariant principle for `handleFreezeAtTime`: a property of the accumulator kept by
    `handleFreezeHeader … .atTime` is kept by the whole handler -/
theorem handleFreezeAtTime_inv (P : Acc → Prop) (step : ∀ b h, P b → P (handleFreezeHeader b .atTime h).1)
    (a : Acc) (seq : Nat) (hs : List ObjHdr) (h0 : P a) : P (handleFreezeAtTime a seq hs).1 :=
  freezeAtTime_foldl_inv P step hs (a, 0, false) h0

end Dnp3.Proofs.FreezeAtTime
