import Dnp3.Proofs.Measurement
/-!
Specification side of C10's per-variation theorem: the object-library table written down from the
standard (`specTable`), "what a variation can carry" (`carry`), the table rows that realise a
specification row (`expectedTo` / `expectedFrom`) and the generic field-level round trip.
-/
namespace Dnp3.Meas
open Dnp3.Gen.Conv
set_option linter.unusedSimpArgs false
set_option linter.unusedVariables false

/-- the row shape of the float conversion: the two bounds, no NaN branch (NaN is representable) -/
def f32Row : AConv := ⟨.toF32, .f32, [⟨.ltMin, true, .min⟩, ⟨.gtMax, true, .max⟩], false, .cast⟩

/-- the generated row of `to_f32` has exactly that shape -/
theorem convRow_f32 : convRow .toF32 = some f32Row := by decide

theorem toF32_nan (flags r32 : Nat) : toF32 .nan flags r32 = (flags, r32) := by
  simp only [toF32, convRow_f32]; rfl

theorem toF32_inf (neg : Bool) (flags r32 : Nat) :
    toF32 (.inf neg) flags r32 = (setOverRange flags, if neg then F32_MIN_BITS else F32_MAX_BITS) := by
  simp only [toF32, convRow_f32]; cases neg <;> rfl

theorem toF32_fin (neg : Bool) (m : Nat) (e : Int) (flags r32 : Nat) :
    toF32 (.fin neg m e) flags r32 =
      if magGt m e F32_MAX then
        (setOverRange flags, if neg then F32_MIN_BITS else F32_MAX_BITS)
      else (flags, r32) := by
  simp only [toF32, convRow_f32]
  cases neg <;> by_cases h : magGt m e F32_MAX = true <;>
    simp [runConv, f32Row, evalConv, guardHolds, retF32, h]

/-- what a variation's value field is (IEEE 1815 object library) -/
inductive VKind | flagsOnly | u32 | u16 | i32 | i16 | f32 | f64
  deriving DecidableEq, Repr

/-- one object variation of the standard: value kind, flag octet present, absolute time present -/
structure VSpec where
  ty : MTy
  group : Nat
  var : Nat
  kind : VKind
  hasFlags : Bool
  hasTime : Bool
  deriving DecidableEq, Repr

/-- the 69 variations of the eight measurement types that have generated conversions, written
down from the standard's object library (NOT derived from conversion.rs) -/
def specTable : List VSpec := [
  ⟨.bi, 2, 2, .flagsOnly, true, true⟩, ⟨.bi, 2, 1, .flagsOnly, true, false⟩, ⟨.bi, 1, 2, .flagsOnly, true, false⟩,
  ⟨.bo, 11, 2, .flagsOnly, true, true⟩, ⟨.bo, 11, 1, .flagsOnly, true, false⟩, ⟨.bo, 10, 2, .flagsOnly, true, false⟩,
  ⟨.db, 4, 2, .flagsOnly, true, true⟩, ⟨.db, 4, 1, .flagsOnly, true, false⟩, ⟨.db, 3, 2, .flagsOnly, true, false⟩,
  ⟨.ct, 22, 6, .u16, true, true⟩, ⟨.ct, 22, 5, .u32, true, true⟩, ⟨.ct, 22, 2, .u16, true, false⟩, ⟨.ct, 22, 1, .u32, true, false⟩,
  ⟨.ct, 20, 6, .u16, false, false⟩, ⟨.ct, 20, 5, .u32, false, false⟩, ⟨.ct, 20, 2, .u16, true, false⟩, ⟨.ct, 20, 1, .u32, true, false⟩,
  ⟨.fc, 23, 6, .u16, true, true⟩, ⟨.fc, 23, 5, .u32, true, true⟩, ⟨.fc, 23, 2, .u16, true, false⟩, ⟨.fc, 23, 1, .u32, true, false⟩,
  ⟨.fc, 21, 10, .u16, false, false⟩, ⟨.fc, 21, 9, .u32, false, false⟩, ⟨.fc, 21, 6, .u16, true, true⟩, ⟨.fc, 21, 5, .u32, true, true⟩,
  ⟨.fc, 21, 2, .u16, true, false⟩, ⟨.fc, 21, 1, .u32, true, false⟩,
  ⟨.ai, 32, 8, .f64, true, true⟩, ⟨.ai, 32, 7, .f32, true, true⟩, ⟨.ai, 32, 6, .f64, true, false⟩, ⟨.ai, 32, 5, .f32, true, false⟩,
  ⟨.ai, 32, 4, .i16, true, true⟩, ⟨.ai, 32, 3, .i32, true, true⟩, ⟨.ai, 32, 2, .i16, true, false⟩, ⟨.ai, 32, 1, .i32, true, false⟩,
  ⟨.ai, 30, 6, .f64, true, false⟩, ⟨.ai, 30, 5, .f32, true, false⟩, ⟨.ai, 30, 4, .i16, false, false⟩, ⟨.ai, 30, 3, .i32, false, false⟩,
  ⟨.ai, 30, 2, .i16, true, false⟩, ⟨.ai, 30, 1, .i32, true, false⟩,
  ⟨.fa, 33, 8, .f64, true, true⟩, ⟨.fa, 33, 7, .f32, true, true⟩, ⟨.fa, 33, 6, .f64, true, false⟩, ⟨.fa, 33, 5, .f32, true, false⟩,
  ⟨.fa, 33, 4, .i16, true, true⟩, ⟨.fa, 33, 3, .i32, true, true⟩, ⟨.fa, 33, 2, .i16, true, false⟩, ⟨.fa, 33, 1, .i32, true, false⟩,
  ⟨.fa, 31, 8, .f64, true, false⟩, ⟨.fa, 31, 7, .f32, true, false⟩, ⟨.fa, 31, 6, .i16, false, false⟩, ⟨.fa, 31, 5, .i32, false, false⟩,
  ⟨.fa, 31, 4, .i16, true, true⟩, ⟨.fa, 31, 3, .i32, true, true⟩, ⟨.fa, 31, 2, .i16, true, false⟩, ⟨.fa, 31, 1, .i32, true, false⟩,
  ⟨.ao, 42, 8, .f64, true, true⟩, ⟨.ao, 42, 7, .f32, true, true⟩, ⟨.ao, 42, 6, .f64, true, false⟩, ⟨.ao, 42, 5, .f32, true, false⟩,
  ⟨.ao, 42, 4, .i16, true, true⟩, ⟨.ao, 42, 3, .i32, true, true⟩, ⟨.ao, 42, 2, .i16, true, false⟩, ⟨.ao, 42, 1, .i32, true, false⟩,
  ⟨.ao, 40, 4, .f64, true, false⟩, ⟨.ao, 40, 3, .f32, true, false⟩, ⟨.ao, 40, 2, .i16, true, false⟩, ⟨.ao, 40, 1, .i32, true, false⟩
]

/-- what the master must receive for measurement `m` sent through variation `s` ("what this
variation can carry"): the value exactly if representable, clamped truncation (+ OVER_RANGE) for
narrower integers (NaN, which no integer represents: 0 + OVER_RANGE), saturation to ±f32::MAX (+ OVER_RANGE) or the rounding for single floats, the
low 16 bits for 16-bit counters; the flag octet (value folded into the state bit(s)) or plain
ONLINE if the variation has none; the absolute time (reported as synchronised) or none. -/
def carry (s : VSpec) (m : Meas) (r32 : Nat) : Meas :=
  let v := AVal.ofBits m.val
  let f32sat : Bool := match v with
    | .nan => false
    | .inf _ => true
    | .fin _ mm e => magGt mm e F32_MAX
  let f32bits : Nat := match v with
    | .nan => r32
    | .inf neg => if neg then F32_MIN_BITS else F32_MAX_BITS
    | .fin neg mm e => if magGt mm e F32_MAX then (if neg then F32_MIN_BITS else F32_MAX_BITS) else r32
  { val := match s.kind with
      | .flagsOnly => if s.ty = .db then m.val % 4 else m.val % 2
      | .u32 => m.val
      | .u16 => m.val % 65536
      | .i16 => intToF64Bits (clampTrunc 32768 32767 v)
      | .i32 => intToF64Bits (clampTrunc 2147483648 2147483647 v)
      | .f32 => f32ToF64Bits f32bits
      | .f64 => m.val
    flags := if s.hasFlags then
        (match s.kind with
          | .flagsOnly => wireFlags s.ty m
          | .i16 => if outOfRange 32768 32767 v then setOverRange m.flags else m.flags
          | .i32 => if outOfRange 2147483648 2147483647 v then setOverRange m.flags else m.flags
          | .f32 => if f32sat then setOverRange m.flags else m.flags
          | _ => m.flags)
      else 1
    time := if s.hasTime then some ⟨true, (timeOrDefault m.time).ms⟩ else none }

/-- the `ToVariation` row that realises a specification row -/
def expectedTo (s : VSpec) : ToVar :=
  { ty := s.ty, group := s.group, var := s.var
    conv := match s.kind with
      | .i16 => some .toI16 | .i32 => some .toI32 | .f32 => some .toF32 | _ => none
    flags := if s.hasFlags then
        (match s.kind with
          | .flagsOnly => .getWireFlags
          | .i16 | .i32 | .f32 => .wireFlags
          | _ => .selfFlags)
      else .absent
    value := match s.kind with
      | .flagsOnly => .absent
      | .u32 | .f64 => .selfValue
      | .u16 => .selfValueAsU16
      | .i16 | .i32 | .f32 => .wireValue
    time := if s.hasTime then .selfTimeInto else .absent
    vty := match s.kind with
      | .flagsOnly => .none | .u32 => .u32 | .u16 => .u16 | .i32 => .i32 | .i16 => .i16 | .f32 => .f32 | .f64 => .f64
    tty := if s.hasTime then .ts48 else .none }

/-- `let flags = Flags::new(v.flags); … flags` and `Flags::new(v.flags)` are the same expression -/
def normFrom (f : FromVar) : FromVar :=
  { f with flags := match f.flags with | .letFlags => .newVFlags | x => x }

/-- the `From` row that realises a specification row (normalised) -/
def expectedFrom (s : VSpec) : FromVar :=
  { ty := s.ty, group := s.group, var := s.var
    value := match s.kind with
      | .flagsOnly => if s.ty = .db then .flagsDoubleBit else .flagsState
      | .u32 | .f64 => .vValue
      | .u16 => .vValueAsU32
      | .i16 | .i32 | .f32 => .vValueAsF64
    flags := if s.hasFlags then .newVFlags else .online
    time := if s.hasTime then .someSynchronized else .none
    vty := match s.kind with
      | .flagsOnly => .none | .u32 => .u32 | .u16 => .u16 | .i32 => .i32 | .i16 => .i16 | .f32 => .f32 | .f64 => .f64
    tty := if s.hasTime then .ts48 else .none }

theorem fromVariation_norm (f : FromVar) (w : WObj) : fromVariation (normFrom f) w = fromVariation f w := by
  cases f with
  | mk ty g v val fl ti vty tty => cases fl <;> rfl

/-- a specification row is usable: a value carried in the state bit(s) needs the flag octet and
exists only for the binary types -/
def specOk (s : VSpec) : Bool :=
  s.kind != .flagsOnly || (s.hasFlags && (s.ty == .bi || s.ty == .bo || s.ty == .db))

/-- field-level round trip for the realisation of any usable specification row -/
theorem roundtrip_expected (s : VSpec) (hs : specOk s = true) (m : Meas) (r32 : Nat) :
    fromVariation (expectedFrom s) (toVariation (expectedTo s) m r32) = carry s m r32 := by
  obtain ⟨ty, g, v, kind, hf, ht⟩ := s
  cases kind
  case flagsOnly =>
    have hf' : hf = true := by
      cases hf <;> simp_all [specOk]
    subst hf'
    cases ty <;> (try (simp [specOk] at hs; done)) <;> cases ht <;>
      simp [fromVariation, toVariation, expectedTo, expectedFrom, carry, wireFlags, convResult] <;>
      (try (by_cases hv : m.val % 2 = 1 <;> simp [hv] <;> omega)) <;> (try omega)
  case u32 => cases hf <;> cases ht <;> simp [fromVariation, toVariation, expectedTo, expectedFrom, carry, convResult]
  case u16 => cases hf <;> cases ht <;> simp [fromVariation, toVariation, expectedTo, expectedFrom, carry, convResult]
  case f64 => cases hf <;> cases ht <;> simp [fromVariation, toVariation, expectedTo, expectedFrom, carry, convResult]
  case i16 =>
    have h := (toI16_eq_toInt (AVal.ofBits m.val) m.flags).trans
      (toInt_spec 32768 32767 (by decide) (AVal.ofBits m.val) m.flags)
    cases hf <;> cases ht <;>
      simp [fromVariation, toVariation, expectedTo, expectedFrom, carry, convResult, h]
  case i32 =>
    have h := (toI32_eq_toInt (AVal.ofBits m.val) m.flags).trans
      (toInt_spec 2147483648 2147483647 (by decide) (AVal.ofBits m.val) m.flags)
    cases hf <;> cases ht <;>
      simp [fromVariation, toVariation, expectedTo, expectedFrom, carry, convResult, h]
  case f32 =>
    have h : toF32 (AVal.ofBits m.val) m.flags r32 =
        ((if (match AVal.ofBits m.val with | .nan => false | .inf _ => true | .fin _ mm e => magGt mm e F32_MAX)
            then setOverRange m.flags else m.flags),
         (match AVal.ofBits m.val with
          | .nan => r32
          | .inf neg => if neg then F32_MIN_BITS else F32_MAX_BITS
          | .fin neg mm e => if magGt mm e F32_MAX then (if neg then F32_MIN_BITS else F32_MAX_BITS) else r32)) := by
      cases AVal.ofBits m.val with
      | nan => exact toF32_nan m.flags r32
      | inf neg => rw [toF32_inf]; rfl
      | fin neg mm e => rw [toF32_fin]; cases neg <;> by_cases hh : magGt mm e F32_MAX = true <;> simp [hh]
    cases hf <;> cases ht <;>
      simp [fromVariation, toVariation, expectedTo, expectedFrom, carry, convResult, h]


end Dnp3.Meas
