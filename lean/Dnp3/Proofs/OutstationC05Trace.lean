import Dnp3.Proofs.OutstationC05
import Dnp3.Proofs.OutstationSkel2
/-!
# C05 at trace level — a retransmitted non-READ request is never executed twice and is answered with
the octets sent for it before

`repeat_never_executes_twice` (section 9): in every run from `Outstation.start`, if inputs `i < j` deliver the
byte-identical, unicast, well-formed non-READ request from the accepted master, with nothing but clock ticks,
CONFIRM fragments and undeliverable frames in between, then step `j` fires no executing callback and its
solicited transmissions are exactly those of step `i` (or the task died on the way: `OOut.panic`).

Method.  The event skeleton `Dnp3.Proofs.Skel2` is used for the trace invariants that are robust against its
abstraction (`LRInv`: a stored request whose confirm wait is on a non-final fragment is a READ).  Everything
that needs the exact order of a pass (the fragment is consumed exactly once; no READ is deferred outside the
unsolicited confirm wait; the solicited buffer is not rewritten) is proved along the functions of the model
in continuation-passing style.
-/
namespace Dnp3.Proofs.C05T
open Dnp3 Dnp3.Proofs Dnp3.Proofs.C05

attribute [local irreducible] Db.new Db.add Db.update Db.readSupported Db.select Db.writeResponse
  Db.writeUnsolicited Db.clearWritten Db.reset Db.unwrittenClasses Db.isOverflown

/-! ## 0. Solicited transmissions of a list of outputs -/

/-- the transmitted application fragments whose function octet is 0x81 (solicited response) -/
def solTx (outs : List OOut) : List (Nat × List Nat) :=
  (txFrags outs).filter (fun p => p.2.getD 1 0 = 0x81)

/-- no transmitted fragment of `l` has the function octet 0x81 -/
def NoSolL (l : List OOut) : Prop := ∀ d b, OOut.tx d b ∈ l → b.getD 1 0 ≠ 0x81

theorem txFrags_append (l1 l2 : List OOut) : txFrags (l1 ++ l2) = txFrags l1 ++ txFrags l2 := by
  simp [txFrags, List.filterMap_append]

theorem solTx_append (l1 l2 : List OOut) : solTx (l1 ++ l2) = solTx l1 ++ solTx l2 := by
  simp [solTx, txFrags_append, List.filter_append]

theorem solTx_nil : solTx [] = [] := rfl

theorem mem_txFrags {l : List OOut} {p : Nat × List Nat} (h : p ∈ txFrags l) : OOut.tx p.1 p.2 ∈ l := by
  unfold txFrags at h
  obtain ⟨o, ho, he⟩ := List.mem_filterMap.1 h
  cases o with
  | tx d b => cases he; exact ho
  | _ => cases he

theorem solTx_of_noSol {l : List OOut} (h : NoSolL l) : solTx l = [] := by
  unfold solTx
  rw [List.filter_eq_nil_iff]
  intro p hp
  have := h p.1 p.2 (mem_txFrags hp)
  simpa using this

theorem NoSolL.nil : NoSolL [] := by intro d b h; cases h

theorem NoSolL.append {l l' : List OOut} (h : NoSolL l) (h' : NoSolL l') : NoSolL (l ++ l') := by
  intro d b hm
  rcases List.mem_append.1 hm with h1 | h1
  · exact h d b h1
  · exact h' d b h1

theorem NoSolL.of_notTx {l : List OOut} (h : ∀ o ∈ l, ∀ d b, o ≠ .tx d b) : NoSolL l := by
  intro d b hm
  exact absurd rfl (h _ hm d b)

theorem NoSolL.cb (c : Cb) : NoSolL [.cb c] := by
  intro d b hm
  rw [List.mem_singleton] at hm; cases hm

/-- the function octet of what `repeatSolicited` / `repeatUnsolicited` put on the wire -/
theorem hdr_func (buf : List Nat) (r : Resp) :
    ((writeAt buf 0 (respHeader r)).take (max 4 r.size)).getD 1 0 = r.func := by
  have h1 : 1 < max 4 r.size := by omega
  simp [writeAt, respHeader, List.getD_eq_getElem?_getD, h1]

theorem NoSolL.unsolTx (d : Nat) (buf : List Nat) (r : Resp) (hr : r.func = 0x82) :
    NoSolL [.tx d ((writeAt buf 0 (respHeader r)).take (max 4 r.size))] := by
  intro d' b hm
  rw [List.mem_singleton] at hm
  cases hm
  rw [hdr_func, hr]; decide

/-! ## 1. Quiet extensions: what the infrastructure of a pass leaves alone -/

/-- `a'` extends `a`: the stored request, the solicited buffer, the deferred READ, the reader and the
    configuration are untouched, and nothing solicited was transmitted -/
structure Ext (a a' : Acc) : Prop where
  lastReq : a'.1.lastReq = a.1.lastReq
  solBuf : a'.1.solBuf = a.1.solBuf
  deferred : a'.1.deferred = a.1.deferred
  pending : a'.1.pending = a.1.pending
  cfg : a'.1.cfg = a.1.cfg
  outs : ∃ l, a'.2 = a.2 ++ l ∧ NoSolL l

theorem Ext.refl (a : Acc) : Ext a a := ⟨rfl, rfl, rfl, rfl, rfl, [], by simp, NoSolL.nil⟩

theorem Ext.trans {a b c : Acc} (h1 : Ext a b) (h2 : Ext b c) : Ext a c := by
  obtain ⟨l1, e1, n1⟩ := h1.outs
  obtain ⟨l2, e2, n2⟩ := h2.outs
  exact ⟨h2.lastReq.trans h1.lastReq, h2.solBuf.trans h1.solBuf, h2.deferred.trans h1.deferred,
    h2.pending.trans h1.pending, h2.cfg.trans h1.cfg, l1 ++ l2, by rw [e2, e1, List.append_assoc], n1.append n2⟩

/-- a state-only change that keeps the five fields -/
theorem Ext.state (a : Acc) (s' : OState) (h1 : s'.lastReq = a.1.lastReq) (h2 : s'.solBuf = a.1.solBuf)
    (h3 : s'.deferred = a.1.deferred) (h4 : s'.pending = a.1.pending) (h5 : s'.cfg = a.1.cfg) : Ext a (s', a.2) :=
  ⟨h1, h2, h3, h4, h5, [], by simp, NoSolL.nil⟩

theorem Ext.emitCb (a : Acc) (c : Cb) : Ext a (emitCb a c) :=
  ⟨rfl, rfl, rfl, rfl, rfl, [.cb c], rfl, NoSolL.cb c⟩

theorem afterIin_keep (s : OState) :
    (Iin.afterIin s).lastReq = s.lastReq ∧ (Iin.afterIin s).solBuf = s.solBuf ∧
    (Iin.afterIin s).deferred = s.deferred ∧ (Iin.afterIin s).pending = s.pending ∧
    (Iin.afterIin s).cfg = s.cfg ∧ (Iin.afterIin s).unsolBuf = s.unsolBuf ∧ (Iin.afterIin s).mode = s.mode := by
  rw [Frame.afterIin_eq]; exact ⟨rfl, rfl, rfl, rfl, rfl, rfl, rfl⟩

theorem startUnsolSeries_ext (a : Acc) (r : Resp) (isNull : Bool) (a' : Acc) (hr : r.func = 0x82)
    (h : startUnsolSeries a r isNull = some a') : Ext a a' := by
  obtain ⟨c1, c2, c3, r', _, hr', e⟩ := Frame.startUnsolSeries_eq a r isNull a' h
  have hk := afterIin_keep a.1
  have hf : r'.func = 0x82 := by rw [hr']; exact hr
  subst e
  refine ⟨hk.1, hk.2.1, hk.2.2.1, hk.2.2.2.1, hk.2.2.2.2.1, _, rfl, ?_⟩
  intro d b hm
  simp only [List.mem_cons, List.not_mem_nil, or_false] at hm
  rcases hm with hm | hm
  · cases hm
    rw [hdr_func, hf]; decide
  · cases hm

theorem checkUnsolicited_ext (a : Acc) (res : Acc ⊕ (Acc × NextIdle)) (h : checkUnsolicited a = some res)
    (a' : Acc) (hr : res = .inl a' ∨ ∃ n, res = .inr (a', n)) : Ext a a' := by
  cases Frame.checkUnsolicited_cases a res h with
  | unsupported => rcases hr with hr | ⟨n, hr⟩ <;> cases hr; exact Ext.refl _
  | null a1 _ _ hs =>
    rcases hr with hr | ⟨n, hr⟩ <;> cases hr
    refine Ext.trans ?_ (startUnsolSeries_ext _ _ _ _ rfl hs)
    exact Ext.state a _ rfl rfl rfl rfl rfl
  | tooEarly => rcases hr with hr | ⟨n, hr⟩ <;> cases hr; exact Ext.refl _
  | disabled => rcases hr with hr | ⟨n, hr⟩ <;> cases hr; exact Ext.refl _
  | noEvents => rcases hr with hr | ⟨n, hr⟩ <;> cases hr; exact Ext.state a _ rfl rfl rfl rfl rfl
  | data dl a1 _ _ _ _ _ hs =>
    rcases hr with hr | ⟨n, hr⟩ <;> cases hr
    refine Ext.trans ?_ (startUnsolSeries_ext _ _ _ _ rfl hs)
    exact Ext.state a _ rfl rfl rfl rfl rfl

theorem finishPass_ext (a : Acc) (next : NextIdle) : Ext a (finishPass a next) := by
  unfold finishPass
  split
  · split
    · exact Ext.state a _ rfl rfl rfl rfl rfl
    · refine ⟨rfl, rfl, rfl, rfl, rfl, [.txLink 0x49 a.1.cfg.master 1024], rfl, ?_⟩
      intro d b hm
      rw [List.mem_singleton] at hm; cases hm
  · exact Ext.state a _ rfl rfl rfl rfl rfl

theorem finishPass_idle (a : Acc) (next : NextIdle) : ∃ n, (finishPass a next).1.mode = .idle n :=
  Skel2.finishPass_idle a next

theorem clearWrittenEvents_ext (a : Acc) : Ext a (clearWrittenEvents a) := by
  rw [Frame.clearWrittenEvents_eq]
  refine ⟨rfl, rfl, rfl, rfl, rfl, _, rfl, ?_⟩
  apply NoSolL.of_notTx
  intro o ho d b e
  subst e
  simp at ho

theorem clearWrittenEvents_mode (a : Acc) : (clearWrittenEvents a).1.mode = a.1.mode := by
  rw [Frame.clearWrittenEvents_eq]

theorem afterUnsolSeries_ext (a : Acc) (isNull confirmed : Bool) : Ext a (afterUnsolSeries a isNull confirmed).1 := by
  unfold afterUnsolSeries
  split
  · exact Ext.state a _ rfl rfl rfl rfl rfl
  · split
    · exact Ext.trans (clearWrittenEvents_ext a) (Ext.state _ _ rfl rfl rfl rfl rfl)
    · exact Ext.state a _ rfl rfl rfl rfl rfl

theorem handleDeferredRead_none (a : Acc) (next : NextIdle) (h : a.1.deferred = none) :
    handleDeferredRead a next = some (.inr a) := by
  unfold handleDeferredRead
  rw [h]

theorem popRequest_none {s : OState} (h : s.pending = none) : popRequest s = (s, .nothing) := by
  unfold popRequest
  rw [h]

/-! ## 2. The rest of a pass once the reader is empty and no READ is deferred (continuation-passing kit) -/

/-- what the continuation lemmas need of the result predicate `F`, relative to a base accumulator `b` -/
structure KitHyp (b : Acc) (F : StepRes → Prop) : Prop where
  deferred : b.1.deferred = none
  die : ∀ a, Ext b a → F (die a)
  blkU : ∀ a, Ext b a → (∃ r n t d, a.1.mode = .unsolWait r n t d) → F (.blocked a)
  blkI : ∀ a, Ext b a → (∃ n, a.1.mode = .idle n) → idleWakes a.1 = false → F (.blocked a)

section Kit
variable {b : Acc} {F : StepRes → Prop} (H : KitHyp b F) (k : Acc → StepRes)
  (hk : ∀ a, Ext b a → (∃ n, a.1.mode = .idle n) → idleWakes a.1 = true → F (k a))
include H hk

theorem kit_afterDeferred (a : Acc) (next : NextIdle) (h : Ext b a) : F (afterDeferred k a next) := by
  unfold afterDeferred
  have h1 := h.trans (finishPass_ext a next)
  have hm := finishPass_idle a next
  dsimp only
  split
  · rename_i hw; exact hk _ h1 hm hw
  · rename_i hw; exact H.blkI _ h1 hm (by simpa using hw)

theorem kit_afterUnsol (a : Acc) (next : NextIdle) (h : Ext b a) : F (afterUnsol k a next) := by
  unfold afterUnsol
  rw [handleDeferredRead_none a next (h.deferred.trans H.deferred)]
  exact kit_afterDeferred H k hk a next h

theorem kit_afterRequest (a : Acc) (h : Ext b a) : F (afterRequest k a) := by
  unfold afterRequest
  split
  · exact H.die a h
  · rename_i a' hc
    exact H.blkU a' (h.trans (checkUnsolicited_ext a _ hc a' (.inl rfl))) (C04.checkUnsolicited_inl_mode hc)
  · rename_i a' next hc
    exact kit_afterUnsol H k hk a' next (h.trans (checkUnsolicited_ext a _ hc a' (.inr ⟨next, rfl⟩)))

end Kit

/-- the task is alive and a solicited confirm wait, if any, is on a final fragment -/
def ModeFin (s : OState) : Prop := s.mode ≠ .dead ∧ ∀ sr dl c, s.mode = .solWait sr dl c → sr.fin = true

/-- the task died after `b`: `panic` is among the new outputs -/
def Died (b a' : Acc) : Prop := ∃ l, a'.2 = b.2 ++ l ∧ OOut.panic ∈ l ∧ a'.1.mode = .dead

/-- how a pass ends after `b`: dead, or a quiet extension that blocks in an acceptable mode -/
def Fin (b a' : Acc) : Prop := Died b a' ∨ (Ext b a' ∧ ModeFin a'.1)

def FinR (b : Acc) (r : StepRes) : Prop := Fin b (finishStep r)

theorem died_die {b a : Acc} (h : Ext b a) : Died b (finishStep (die a)) := by
  obtain ⟨l, e, _⟩ := h.outs
  exact ⟨l ++ [.panic], by simp [die, finishStep, emit, e], by simp, rfl⟩

theorem modeFin_unsolWait {s : OState} (h : ∃ r n t d, s.mode = .unsolWait r n t d) : ModeFin s := by
  obtain ⟨r, n, t, d, h⟩ := h
  constructor
  · rw [h]; intro e; cases e
  · intro sr dl c e; rw [h] at e; cases e

theorem modeFin_idle {s : OState} (h : ∃ n, s.mode = .idle n) : ModeFin s := by
  obtain ⟨n, h⟩ := h
  constructor
  · rw [h]; intro e; cases e
  · intro sr dl c e; rw [h] at e; cases e

theorem kitHyp_fin {b : Acc} (hd : b.1.deferred = none) : KitHyp b (FinR b) :=
  ⟨hd, fun _ h => .inl (died_die h), fun _ h hm => .inr ⟨h, modeFin_unsolWait hm⟩,
    fun _ h hm _ => .inr ⟨h, modeFin_idle hm⟩⟩

theorem runPass_tail {b : Acc} (hp : b.1.pending = none) (hd : b.1.deferred = none) (fuel : Nat) (a : Acc)
    (h : Ext b a) (hm : ∃ n, a.1.mode = .idle n) : FinR b (runPass fuel a) := by
  induction fuel generalizing a with
  | zero =>
    unfold runPass
    exact .inr ⟨h.trans (Ext.emitCb a _), modeFin_idle hm⟩
  | succ n ih =>
    rw [C04.runPass_succ]
    unfold C04.runPassBody
    have hpn : ({ a.1 with notified := false } : OState).pending = none := h.pending.trans hp
    rw [popRequest_none hpn]
    dsimp only
    refine kit_afterRequest (kitHyp_fin hd) _ (fun a' h' hm' _ => ih a' h' hm') _ ?_
    exact h.trans (Ext.state a _ rfl rfl rfl hpn.symm rfl)

theorem afterRequest_tail {b : Acc} (hp : b.1.pending = none) (hd : b.1.deferred = none) (n : Nat) :
    FinR b (afterRequest (runPass n) b) :=
  kit_afterRequest (kitHyp_fin hd) _ (fun a' h' hm' _ => runPass_tail hp hd _ a' h' hm') _ (Ext.refl _)

theorem resumeAfterSol_tail {b : Acc} (hp : b.1.pending = none) (hd : b.1.deferred = none) (a : Acc)
    (cont : SolCont) (h : Ext b a) : FinR b (resumeAfterSol a cont) := by
  unfold resumeAfterSol
  split
  · exact kit_afterRequest (kitHyp_fin hd) _ (fun a' h' hm' _ => runPass_tail hp hd _ a' h' hm') _ h
  · refine kit_afterDeferred (kitHyp_fin hd) _ (fun a' h' hm' _ => runPass_tail hp hd _ a' h' hm') _ _ ?_
    exact h.trans (Ext.state a _ rfl rfl (h.deferred.trans hd).symm rfl rfl)

theorem abortSeries_tail {b : Acc} (hp : b.1.pending = none) (hd : b.1.deferred = none) (a : Acc)
    (cont : SolCont) (h : Ext b a) : FinR b (abortSeries a cont) := by
  unfold abortSeries
  exact resumeAfterSol_tail hp hd _ cont (h.trans (Ext.state a _ rfl rfl rfl rfl rfl))

theorem finishUnsol_tail {b : Acc} (hp : b.1.pending = none) (hd : b.1.deferred = none) (a : Acc)
    (isNull c : Bool) (h : Ext b a) : FinR b (finishUnsol a isNull c) := by
  show FinR b (afterUnsol (runPass passFuel) (afterUnsolSeries a isNull c).1 (afterUnsolSeries a isNull c).2)
  exact kit_afterUnsol (kitHyp_fin hd) _ (fun a' h' hm' _ => runPass_tail hp hd _ a' h' hm') _ _
    (h.trans (afterUnsolSeries_ext a isNull c))

/-! ## 3. Trace invariant: a READ is deferred only during the unsolicited confirm wait -/

theorem writeSolicited_fields {a a' : Acc} {dst : Nat} {r r' : Resp} (h : writeSolicited a dst r = some (a', r')) :
    a'.1.lastReq = a.1.lastReq ∧ a'.1.deferred = a.1.deferred ∧ a'.1.pending = a.1.pending ∧
    a'.1.cfg = a.1.cfg ∧ a'.1.mode = a.1.mode ∧ r'.func = r.func ∧ r'.ctrl.seq = r.ctrl.seq ∧
    a'.1.solBuf = writeAt a.1.solBuf 0 (respHeader r') ∧
    a'.2 = a.2 ++ [.tx dst ((writeAt a.1.solBuf 0 (respHeader r')).take (max 4 r'.size))] := by
  obtain ⟨c1, c2, c3, _, _, _, hf, _, hc, e⟩ := Frame.writeSolicited_eq a dst r a' r' h
  have hk := afterIin_keep a.1
  subst e
  refine ⟨hk.1, hk.2.2.1, hk.2.2.2.1, hk.2.2.2.2.1, hk.2.2.2.2.2.2, hf, ?_, ?_, ?_⟩
  · rw [hc]; split <;> rfl
  · show writeAt (Iin.afterIin a.1).solBuf 0 (respHeader r') = _
    rw [hk.2.1]
  · show a.2 ++ [OOut.tx dst ((writeAt (Iin.afterIin a.1).solBuf 0 (respHeader r')).take (max 4 r'.size))] = _
    rw [hk.2.1]

theorem handleDeferredRead_deferred {a : Acc} {next : NextIdle} {res : Acc ⊕ Acc}
    (h : handleDeferredRead a next = some res) (a' : Acc) (hr : res = .inl a' ∨ res = .inr a') :
    a'.1.deferred = none := by
  cases Frame.handleDeferredRead_cases a next res h with
  | none hd => rcases hr with hr | hr <;> cases hr; exact hd
  | answered d a2 r2 hd hw _ _ =>
    rcases hr with hr | hr <;> cases hr
    exact (writeSolicited_fields hw).2.1
  | awaiting d a2 r2 sr hd hw =>
    rcases hr with hr | hr <;> cases hr
    exact (writeSolicited_fields hw).2.1

theorem keepNR_fields {s s' : OState} (h : Frame.keepNR s' = Frame.keepNR s) :
    s'.cfg = s.cfg ∧ s'.mode = s.mode ∧ s'.lastReq = s.lastReq ∧ s'.deferred = s.deferred ∧ s'.pending = s.pending := by
  simp only [Frame.keepNR, Prod.mk.injEq] at h
  refine ⟨?_, ?_, ?_, ?_, ?_⟩ <;> simp [h]

theorem keepBC_fields {s s' : OState} (h : Frame.keepBC s' = Frame.keepBC s) :
    s'.cfg = s.cfg ∧ s'.mode = s.mode ∧ s'.lastReq = s.lastReq ∧ s'.deferred = s.deferred ∧ s'.pending = s.pending := by
  simp only [Frame.keepBC, Prod.mk.injEq] at h
  refine ⟨?_, ?_, ?_, ?_, ?_⟩ <;> simp [h]

theorem keepRd_fields {s s' : OState} (h : Skel.keepRd s' = Skel.keepRd s) :
    s'.cfg = s.cfg ∧ s'.mode = s.mode ∧ s'.lastReq = s.lastReq ∧ s'.deferred = s.deferred ∧ s'.pending = s.pending := by
  simp only [Skel.keepRd, Prod.mk.injEq] at h
  refine ⟨?_, ?_, ?_, ?_, ?_⟩ <;> simp [h]

/-- `handleRequestFromIdle` leaves `cfg`, `mode`, `deferred`, `pending` alone -/
theorem hrfi_fields {a a' : Acc} {f : Frag} {ctrl : AppCtrl} {func : Nat} {objs : Except Nat (List ObjHdr)}
    {raw : List Nat} {ser : Option Series} (h : handleRequestFromIdle a f ctrl func objs raw = some (a', ser)) :
    a'.1.cfg = a.1.cfg ∧ a'.1.mode = a.1.mode ∧ a'.1.deferred = a.1.deferred ∧ a'.1.pending = a.1.pending := by
  obtain ⟨a1, lr, s1, s2⟩ := Skel.handleRequestFromIdle_cases _ _ _ _ _ _ _ _ h
  have h1 : a1.1.cfg = a.1.cfg ∧ a1.1.mode = a.1.mode ∧ a1.1.deferred = a.1.deferred ∧ a1.1.pending = a.1.pending := by
    cases s1 with
    | confirm => exact ⟨rfl, rfl, rfl, rfl⟩
    | bcast m a1 _ _ hp =>
      have := keepBC_fields (Frame.processBroadcast_frame _ _ _ _ _ _ _ _ hp).1.1
      exact ⟨this.1, this.2.1, this.2.2.2.1, this.2.2.2.2⟩
    | nonRead hs a1 r _ _ _ _ hn =>
      have := keepNR_fields (Frame.handleNonRead_frame _ _ _ _ _ _ _ _ hn).1
      exact ⟨this.1, this.2.1, this.2.2.2.1, this.2.2.2.2⟩
    | prep s1 lr hk _ _ =>
      have := keepRd_fields hk
      exact ⟨this.1, this.2.1, this.2.2.2.1, this.2.2.2.2⟩
    | echo s1 last hk _ _ _ _ =>
      have := keepRd_fields hk
      exact ⟨this.1, this.2.1, this.2.2.2.1, this.2.2.2.2⟩
  have h2 : a'.1.cfg = a1.1.cfg ∧ a'.1.mode = a1.1.mode ∧ a'.1.deferred = a1.1.deferred ∧ a'.1.pending = a1.1.pending := by
    cases lr with
    | none => cases s2; exact ⟨rfl, rfl, rfl, rfl⟩
    | some p =>
      obtain ⟨lr, echo⟩ := p
      cases echo with
      | false =>
        rcases s2 with ⟨_, lr', e⟩ | ⟨r, a2, r2, lr', _, hw, e⟩
        · subst e; exact ⟨rfl, rfl, rfl, rfl⟩
        · subst e
          have := writeSolicited_fields hw
          exact ⟨this.2.2.2.1, this.2.2.2.2.1, this.2.1, this.2.2.1⟩
      | true =>
        rcases s2 with ⟨_, e⟩ | ⟨r, _, e⟩
        · subst e; exact ⟨rfl, rfl, rfl, rfl⟩
        · subst e; exact ⟨rfl, rfl, rfl, rfl⟩
  exact ⟨h2.1.trans h1.1, h2.2.1.trans h1.2.1, h2.2.2.1.trans h1.2.2.1, h2.2.2.2.trans h1.2.2.2⟩

/-- no READ is deferred, unless the task waits for an unsolicited confirm (or is dead) -/
def DefInv (s : OState) : Prop :=
  s.mode = .dead ∨ s.deferred = none ∨ ∃ r n t d, s.mode = .unsolWait r n t d

def GoodD (r : StepRes) : Prop := DefInv (finishStep r).1

theorem d_die (a : Acc) : GoodD (die a) := .inl rfl

theorem d_afterDeferred (k : Acc → StepRes) (hk : ∀ b, b.1.deferred = none → GoodD (k b)) (a : Acc)
    (next : NextIdle) (h : a.1.deferred = none) : GoodD (afterDeferred k a next) := by
  unfold afterDeferred
  have h1 : (finishPass a next).1.deferred = none := (finishPass_ext a next).deferred.trans h
  dsimp only
  split
  · exact hk _ h1
  · exact .inr (.inl h1)

theorem d_afterUnsol (k : Acc → StepRes) (hk : ∀ b, b.1.deferred = none → GoodD (k b)) (a : Acc)
    (next : NextIdle) : GoodD (afterUnsol k a next) := by
  unfold afterUnsol
  split
  · exact d_die a
  · rename_i a' he
    exact .inr (.inl (handleDeferredRead_deferred he a' (.inl rfl)))
  · rename_i a' he
    exact d_afterDeferred k hk a' next (handleDeferredRead_deferred he a' (.inr rfl))

theorem d_afterRequest (k : Acc → StepRes) (hk : ∀ b, b.1.deferred = none → GoodD (k b)) (a : Acc) :
    GoodD (afterRequest k a) := by
  unfold afterRequest
  split
  · exact d_die a
  · rename_i a' hc
    exact .inr (.inr (C04.checkUnsolicited_inl_mode hc))
  · rename_i a' next hc
    exact d_afterUnsol k hk a' next

theorem writeErrorResponse_deferred {a a' : Acc} {src : Nat} {bc : Bool} {seq : Option Nat}
    (h : writeErrorResponse a src bc seq = some a') : a'.1.deferred = a.1.deferred ∧ a'.1.mode = a.1.mode := by
  unfold writeErrorResponse at h
  split at h
  · cases h; exact ⟨rfl, rfl⟩
  · split at h
    · cases h; exact ⟨rfl, rfl⟩
    · split at h
      · cases h
      · rename_i a2 r2 hw
        cases h
        exact ⟨(writeSolicited_fields hw).2.1, (writeSolicited_fields hw).2.2.2.2.1⟩

theorem d_runPass (fuel : Nat) (a : Acc) (h : a.1.deferred = none) : GoodD (runPass fuel a) := by
  induction fuel generalizing a with
  | zero => unfold runPass; exact .inr (.inl h)
  | succ n ih =>
    rw [C04.runPass_succ]
    unfold C04.runPassBody
    cases hp : popRequest ({ a.1 with notified := false } : OState) with
    | mk s p =>
      have hs : s.deferred = none := by
        have := (Skel.popRequest_house ({ a.1 with notified := false } : OState)).deferred
        rw [hp] at this; exact this.trans h
      cases p with
      | nothing => exact d_afterRequest _ ih _
      | error src bc seq =>
        dsimp only
        split
        · exact d_die _
        · exact d_afterRequest _ ih _
      | request f ctrl func objs raw =>
        dsimp only
        split
        · exact d_die _
        · rename_i a' sr hh
          exact .inr (.inl ((hrfi_fields hh).2.2.1.trans hs))
        · exact d_afterRequest _ ih _

theorem d_resumeAfterSol (a : Acc) (cont : SolCont) : GoodD (resumeAfterSol a cont) := by
  unfold resumeAfterSol
  split
  · exact d_afterRequest _ (fun b hb => d_runPass _ b hb) _
  · exact d_afterDeferred _ (fun b hb => d_runPass _ b hb) _ _ rfl

theorem d_abortSeries (a : Acc) (cont : SolCont) : GoodD (abortSeries a cont) := by
  unfold abortSeries; exact d_resumeAfterSol _ _

theorem d_finishUnsol (a : Acc) (isNull c : Bool) : GoodD (finishUnsol a isNull c) := by
  show GoodD (afterUnsol (runPass passFuel) (afterUnsolSeries a isNull c).1 (afterUnsolSeries a isNull c).2)
  exact d_afterUnsol _ (fun b hb => d_runPass _ b hb) _ _

theorem d_solWaitOnFragment (a : Acc) (sr : Series) (dl : Nat) (cont : SolCont) (h : a.1.deferred = none) :
    GoodD (solWaitOnFragment a sr dl cont) := by
  unfold solWaitOnFragment
  dsimp only
  cases hp : popRequest a.1 with
  | mk s p =>
    have hs : s.deferred = none := by
      have := (Skel.popRequest_house a.1).deferred
      rw [hp] at this; exact this.trans h
    cases p with
    | nothing => exact .inr (.inl hs)
    | error src bc seq => exact d_abortSeries _ _
    | request f ctrl func objs raw =>
      dsimp only
      split
      · exact d_abortSeries _ _
      · exact d_abortSeries _ _
      · exact d_abortSeries _ _
      · exact d_abortSeries _ _
      · exact d_abortSeries _ _
      · rename_i resp hs' _
        cases resp with
        | none => exact .inr (.inl hs)
        | some r => exact .inr (.inl hs)
      · exact .inr (.inl hs)
      · split
        · exact .inr (.inl hs)
        · split
          · exact d_resumeAfterSol _ _
          · split
            · exact d_die _
            · rename_i a7 r7 hw
              split
              · exact d_resumeAfterSol _ _
              · refine .inr (.inl ?_)
                show a7.1.deferred = none
                rw [(writeSolicited_fields hw).2.1]
                show (clearWrittenEvents _).1.deferred = none
                rw [(clearWrittenEvents_ext _).deferred]
                exact hs

theorem d_unsolWaitOnFragment (a : Acc) (resp : Resp) (isNull : Bool)
    (hm : ∃ r n t d, a.1.mode = .unsolWait r n t d) : GoodD (unsolWaitOnFragment a resp isNull) := by
  rcases unsolWaitOnFragment_keeps_unsolBuf a resp isNull with ⟨a1, c, e, _⟩ | hk
  · rw [e]; exact d_finishUnsol _ _ _
  · unfold GoodD
    rw [C04.finishStep_eq]
    rcases hk.mode with e | e
    · obtain ⟨r, n, t, d, hm⟩ := hm
      exact .inr (.inr ⟨r, n, t, d, e.trans hm⟩)
    · exact .inl e

theorem d_unsolWaitTimeout (a : Acc) (resp : Resp) (isNull : Bool) (retries : Option Nat) :
    GoodD (unsolWaitTimeout a resp isNull retries) := by
  unfold unsolWaitTimeout
  dsimp only
  repeat' split
  all_goals first
    | exact d_finishUnsol _ _ _
    | exact .inr (.inr ⟨_, _, _, _, rfl⟩)

theorem d_dispatch (a : Acc) (h : DefInv a.1) : GoodD (dispatch a) := by
  unfold dispatch
  split
  · exact h
  · rename_i n hm
    have hd : a.1.deferred = none := by
      rcases h with h | h | ⟨r, n', t, d, h⟩
      · rw [hm] at h; cases h
      · exact h
      · rw [hm] at h; cases h
    split
    · exact d_runPass _ _ hd
    · exact h
  · rename_i sr dl cont hm
    have hd : a.1.deferred = none := by
      rcases h with h | h | ⟨r, n', t, d, h⟩
      · rw [hm] at h; cases h
      · exact h
      · rw [hm] at h; cases h
    split
    · exact d_solWaitOnFragment a sr dl cont hd
    · split
      · unfold solWaitTimeout; exact d_abortSeries _ _
      · exact h
  · rename_i resp isNull retries dl hm
    split
    · exact d_unsolWaitOnFragment a resp isNull ⟨_, _, _, _, hm⟩
    · split
      · exact d_unsolWaitTimeout _ _ _ _
      · exact h

theorem d_settle (n : Nat) (r : StepRes) (h : GoodD r) : GoodD (settle n r) := by
  induction n generalizing r with
  | zero => exact h
  | succ n ih =>
    unfold settle
    cases r with
    | panicked a => exact h
    | blocked a =>
      dsimp only
      split <;> split <;> first | exact ih _ (d_dispatch a h) | exact h

/-- **the invariant is kept by every step** -/
theorem defInv_step (env : OEnv) (s : OState) (inp : OInput) (h : DefInv s) :
    DefInv (Outstation.step env s inp).1 := by
  rcases Skel.step_dispatch env s inp with ⟨f, _, e⟩ | e | hcut | ⟨pf, s0, o0, hi, hne, e⟩
  · rw [e]; exact h
  · rw [e]; exact h
  · subst hcut
    rcases Skel.step_cases env s .cut with ⟨f, hf, _⟩ | e | e
    · cases hf
    · rw [e]; exact h
    · rw [e]
      unfold Skel.stepBody
      dsimp only
      split
      · exact h
      · exact d_settle 8 _ (d_runPass _ _ rfl)
  · rw [e]
    refine d_settle 8 _ (d_dispatch _ ?_)
    rcases hi.mode with ⟨hm, hd, _⟩ | ⟨hc, _, _⟩
    · show DefInv s0
      unfold DefInv
      rw [hm, hd]; exact h
    · exact absurd hc hne

theorem defInv_start (cfg : OCfg) (evMax : Nat) : DefInv (Outstation.start cfg evMax).1 := by
  unfold Outstation.start
  exact d_settle 8 _ (d_runPass _ _ rfl)

/-! ## 4. Trace invariant: a stored request whose confirm wait is on a non-final fragment is a READ -/

/-- the octets parse as a READ request -/
def ReadFrag (d : List Nat) : Prop := ∃ c o r, parseRequest d = .request c 1 o r

/-- the stored request waits on a non-final fragment only if it is a READ; a deferred request is a READ -/
structure LRInv (s : OState) : Prop where
  lr : ∀ lr sr, s.lastReq = some lr → lr.series = some sr → sr.fin = false → ReadFrag lr.frag
  df : ∀ d, s.deferred = some d → ReadFrag d.frag

theorem LRInv.same {s s' : OState} (h : LRInv s) (h1 : s'.lastReq = s.lastReq)
    (h2 : s'.deferred = s.deferred ∨ s'.deferred = none) : LRInv s' := by
  constructor
  · intro lr sr hl; rw [h1] at hl; exact h.lr lr sr hl
  · intro d hd
    rcases h2 with h2 | h2
    · rw [h2] at hd; exact h.df d hd
    · rw [h2] at hd; cases hd

theorem LRInv.ext {a a' : Acc} (h : LRInv a.1) (e : Ext a a') : LRInv a'.1 := h.same e.lastReq (.inl e.deferred)

theorem classify_repeatNonRead {s : OState} {f : Frag} {ctrl : AppCtrl} {func : Nat}
    {objs : Except Nat (List ObjHdr)} {resp : Option Resp} (h : classify s f ctrl func objs = .repeatNonRead resp) :
    ∃ last, s.lastReq = some last ∧ last.seq = ctrl.seq ∧ last.frag = f.data ∧ resp = last.response := by
  unfold classify at h
  split at h
  · split at h <;> cases h
  · split at h
    · cases h
    · split at h
      · cases h
      · dsimp only at h
        cases hl : s.lastReq with
        | none =>
          rw [hl] at h
          dsimp only at h
          split at h <;> cases h
        | some last =>
          rw [hl] at h
          dsimp only at h
          by_cases hc : last.seq = ctrl.seq ∧ last.frag = f.data
          · rw [if_pos hc] at h
            dsimp only at h
            split at h
            · cases h
            · cases h; exact ⟨last, rfl, hc.1, hc.2, rfl⟩
          · rw [if_neg hc] at h
            dsimp only at h
            split at h <;> cases h

theorem idleStage1_lr {a a1 : Acc} {f : Frag} {ctrl : AppCtrl} {func : Nat} {objs : Except Nat (List ObjHdr)}
    {raw : List Nat} {olr : Option (LastReq × Bool)} (hJ : LRInv a.1)
    (hq : parseRequest f.data = .request ctrl func objs raw)
    (h : Skel.idleStage1 a f ctrl func objs raw = some (a1, olr)) :
    a1.1.lastReq = a.1.lastReq ∧ a1.1.deferred = a.1.deferred ∧
    ∀ lr echo, olr = some (lr, echo) → lr.frag = f.data ∧
      ∀ sr, lr.series = some sr → sr.fin = false → ReadFrag f.data := by
  unfold Skel.idleStage1 at h
  have cf := Frame.classify_facts a.1 f ctrl func objs
  have rd : func = 1 → ReadFrag f.data := fun h1 => ⟨ctrl, objs, raw, by rw [← h1]; exact hq⟩
  split at h
  · cases h
    refine ⟨rfl, rfl, ?_⟩
    intro lr echo e; cases e
    exact ⟨rfl, fun sr e => by cases e⟩
  · rename_i hs hc; rw [hc] at cf; simp only [Frame.ClassifyFacts] at cf; cases h
    refine ⟨rfl, rfl, ?_⟩
    intro lr echo e; cases e
    exact ⟨rfl, fun _ _ _ => rd cf.1⟩
  · rename_i rr hs hc; rw [hc] at cf; simp only [Frame.ClassifyFacts] at cf; cases h
    refine ⟨rfl, rfl, ?_⟩
    intro lr echo e; cases e
    exact ⟨rfl, fun _ _ _ => rd cf.1⟩
  · dsimp only at h
    split at h
    · cases h
    · rename_i a2 r hn
      cases h
      have hk := keepNR_fields (Frame.handleNonRead_frame _ _ _ _ _ _ _ _ hn).1
      refine ⟨hk.2.2.1, hk.2.2.2.1, ?_⟩
      intro lr echo e; cases e
      exact ⟨rfl, fun sr e => by cases e⟩
  · rename_i last hc
    obtain ⟨old, hold, _, hfrag, _⟩ := classify_repeatNonRead hc
    dsimp only at h
    have key : ∀ s' : OState, s'.lastReq = a.1.lastReq → s'.deferred = a.1.deferred →
        some ((s', a.2), some ((⟨ctrl.seq, f.data, last, s'.lastReq.bind (·.series)⟩ : LastReq), true)) = some (a1, olr) →
        a1.1.lastReq = a.1.lastReq ∧ a1.1.deferred = a.1.deferred ∧
        ∀ lr echo, olr = some (lr, echo) → lr.frag = f.data ∧
          ∀ sr, lr.series = some sr → sr.fin = false → ReadFrag f.data := by
      intro s' h1 h2 e
      cases e
      refine ⟨h1, h2, ?_⟩
      intro lr echo e; cases e
      refine ⟨rfl, ?_⟩
      intro sr hsr hfin
      have hsr' : (a.1.lastReq.bind (·.series)) = some sr := by rw [← h1]; exact hsr
      rw [hold] at hsr'
      rw [← hfrag]
      exact hJ.lr old sr hold hsr' hfin
    cases hsel : a.1.select with
    | none => rw [hsel] at h; exact key _ rfl rfl h
    | some sel =>
      rw [hsel] at h
      dsimp only at h
      split at h
      · exact key { a.1 with select := some { sel with frameId := f.id } } rfl rfl h
      · exact key a.1 rfl rfl h
  · dsimp only at h
    split at h
    · cases h
    · rename_i a2 hp
      cases h
      have hk := keepBC_fields (Frame.processBroadcast_frame _ _ _ _ _ _ _ _ hp).1.1
      refine ⟨hk.2.2.1, hk.2.2.2.1, ?_⟩
      intro lr echo e; cases e
  · cases h
    exact ⟨rfl, rfl, fun lr echo e => by cases e⟩
  · cases h
    exact ⟨rfl, rfl, fun lr echo e => by cases e⟩

theorem idleStage2_lr {f : Frag} {a1 a' : Acc} {olr : Option (LastReq × Bool)} {ser : Option Series}
    (h : Skel.idleStage2 f (some (a1, olr)) = some (a', ser)) :
    a'.1.deferred = a1.1.deferred ∧
    ((olr = none ∧ a'.1.lastReq = a1.1.lastReq) ∨
     ∃ lr echo lr', olr = some (lr, echo) ∧ a'.1.lastReq = some lr' ∧ lr'.frag = lr.frag ∧
       (lr'.series = lr.series ∨ ∃ q, lr'.series = some ⟨q, true⟩)) := by
  unfold Skel.idleStage2 at h
  cases olr with
  | none => cases h; exact ⟨rfl, .inl ⟨rfl, rfl⟩⟩
  | some p =>
    obtain ⟨lr, echo⟩ := p
    dsimp only at h
    split at h
    · cases h
      exact ⟨rfl, .inr ⟨lr, echo, lr, rfl, rfl, rfl, .inl rfl⟩⟩
    · rename_i r hr
      split at h
      · cases h
        exact ⟨rfl, .inr ⟨lr, echo, lr, rfl, rfl, rfl, .inl rfl⟩⟩
      · split at h
        · cases h
        · rename_i a2 r2 hw
          cases h
          refine ⟨(writeSolicited_fields hw).2.1, .inr ⟨lr, echo, _, rfl, rfl, rfl, ?_⟩⟩
          dsimp only
          split
          · exact .inr ⟨_, rfl⟩
          · exact .inl rfl

theorem hrfi_lrInv {a a' : Acc} {f : Frag} {ctrl : AppCtrl} {func : Nat} {objs : Except Nat (List ObjHdr)}
    {raw : List Nat} {ser : Option Series} (hJ : LRInv a.1)
    (hq : parseRequest f.data = .request ctrl func objs raw)
    (h : handleRequestFromIdle a f ctrl func objs raw = some (a', ser)) : LRInv a'.1 := by
  rw [Skel.handleRequestFromIdle_eq] at h
  cases h1 : Skel.idleStage1 a f ctrl func objs raw with
  | none => rw [h1] at h; cases h
  | some p =>
    obtain ⟨a1, olr⟩ := p
    rw [h1] at h
    obtain ⟨e1, e2, e3⟩ := idleStage1_lr hJ hq h1
    obtain ⟨d2, hcase⟩ := idleStage2_lr h
    rcases hcase with ⟨_, e⟩ | ⟨lr, echo, lr', holr, hl', hfrag, hser⟩
    · exact hJ.same (e.trans e1) (.inl (d2.trans e2))
    · constructor
      · intro x sr hx hs hfin
        rw [hl'] at hx
        cases hx
        obtain ⟨g1, g2⟩ := e3 lr echo holr
        rw [hfrag, g1]
        rcases hser with hser | ⟨q, hser⟩
        · rw [hser] at hs; exact g2 sr hs hfin
        · rw [hser] at hs; cases hs; cases hfin
      · intro d hd
        rw [d2, e2] at hd
        exact hJ.df d hd

theorem writeErrorResponse_fields {a a' : Acc} {src : Nat} {bc : Bool} {seq : Option Nat}
    (h : writeErrorResponse a src bc seq = some a') :
    a'.1.deferred = a.1.deferred ∧ a'.1.mode = a.1.mode ∧ a'.1.lastReq = a.1.lastReq := by
  unfold writeErrorResponse at h
  split at h
  · cases h; exact ⟨rfl, rfl, rfl⟩
  · split at h
    · cases h; exact ⟨rfl, rfl, rfl⟩
    · split at h
      · cases h
      · rename_i a2 r2 hw
        cases h
        exact ⟨(writeSolicited_fields hw).2.1, (writeSolicited_fields hw).2.2.2.2.1, (writeSolicited_fields hw).1⟩

theorem deferredSet_eq (s : OState) (f : Frag) (seq : Nat) (hs : List ObjHdr) :
    ∃ i h, deferredSet s f seq hs = { s with deferred := some ⟨f.data, seq, f.src, i, h⟩ } := by
  unfold deferredSet
  exact ⟨_, _, rfl⟩

theorem lrInv_event {pf : Option Frag} {ph ph' : Skel2.Ph} {a a' : Acc} (e : Skel2.Ev2 pf ph a ph' a')
    (h : LRInv a.1) : LRInv a'.1 := by
  cases e with
  | house _ _ s' hh =>
    obtain ⟨n, l, p, _, e⟩ := hh
    subst e
    exact h.same rfl (.inl rfl)
  | noteCb _ _ c hc => exact h
  | die _ _ => exact h.same rfl (.inl rfl)
  | clrDeferred _ _ => exact h.same rfl (.inr rfl)
  | dbReset _ _ => exact h.same rfl (.inl rfl)
  | errResp _ _ src bc seq _ _ hw =>
    have := writeErrorResponse_fields hw
    exact h.same this.2.2 (.inl this.1)
  | enter _ n _ => exact h
  | reqIdle _ f ctrl func objs raw _ hq hh => exact hrfi_lrInv h hq.2 hh
  | reqIdleWait _ f ctrl func objs raw a1 sr hq hh => exact (hrfi_lrInv h hq.2 hh).same rfl (.inl rfl)
  | chkStart _ _ hc => exact h.ext (checkUnsolicited_ext a _ hc _ (.inl rfl))
  | chkIdle _ _ n hc => exact h.ext (checkUnsolicited_ext a _ hc _ (.inr ⟨n, rfl⟩))
  | defWait _ n _ hd =>
    cases Frame.handleDeferredRead_cases a n _ hd with
    | awaiting d a2 r2 sr hdd hw =>
      constructor
      · intro x sr' hx _ _
        have : x = ⟨d.seq, d.frag, some r2, (Frame.deferredFormat a.1 d).2.2⟩ := by
          have hx' : some (⟨d.seq, d.frag, some r2, (Frame.deferredFormat a.1 d).2.2⟩ : LastReq) = some x := hx
          cases hx'; rfl
        subst this
        exact h.df d hdd
      · intro d' hd'
        have : a2.1.deferred = some d' := hd'
        rw [(writeSolicited_fields hw).2.1] at this
        cases this
  | defDone _ n _ hd =>
    cases Frame.handleDeferredRead_cases a n _ hd with
    | none _ => exact h
    | answered d a2 r2 hdd hw _ _ =>
      constructor
      · intro x sr' hx _ _
        have hx' : some (⟨d.seq, d.frag, some r2, (Frame.deferredFormat a.1 d).2.2⟩ : LastReq) = some x := hx
        cases hx'
        exact h.df d hdd
      · intro d' hd'
        have : a2.1.deferred = some d' := hd'
        rw [(writeSolicited_fields hw).2.1] at this
        cases this
  | finishPass _ n => exact h.ext (finishPass_ext a n)
  | solEcho _ sr dl c f ctrl func objs raw resp hs hm hq hc =>
    unfold Skel2.solEchoAcc
    cases resp with
    | none => exact h.same rfl (.inl rfl)
    | some r => exact h.same rfl (.inl rfl)
  | solAbortNew _ sr dl c _ _ => exact h
  | solAbortTimeout _ sr dl c _ _ => exact h
  | solConf _ sr dl c f ctrl objs raw hm hq hu hs =>
    exact LRInv.ext (a := ({ a.1 with lastBroadcast := none }, a.2 ++ [.cb (.solConfirmed sr.ecsn)]))
      (h.same rfl (.inl rfl)) (clearWrittenEvents_ext _)
  | solCont _ sr dl c f a7 r7 hm hfin hq hw =>
    have hf := writeSolicited_fields hw
    constructor
    · intro x sr' hx hs' hfin'
      have hx' : a7.1.lastReq.map (fun lr => { lr with response := some r7 }) = some x := hx
      rw [hf.1] at hx'
      have hx'' : a.1.lastReq.map (fun lr => { lr with response := some r7 }) = some x := hx'
      cases hl : a.1.lastReq with
      | none => rw [hl] at hx''; cases hx''
      | some old =>
        rw [hl] at hx''
        cases hx''
        exact h.lr old sr' hl hs' hfin'
    · intro d hd
      have : a7.1.deferred = some d := hd
      rw [hf.2.1] at this
      exact h.df d this
  | solNext _ sr dl c sr' _ => exact h.same rfl (.inl rfl)
  | unsolConf _ resp isNull retries dl f ctrl objs raw hm hq hu hs =>
    exact LRInv.ext (a := Dnp3.emitCb ({ a.1 with lastBroadcast := if a.1.unsolReported then none else a.1.lastBroadcast }, a.2)
      (.unsolConfirmed resp.ctrl.seq)) (h.same rfl (.inl rfl)) (afterUnsolSeries_ext _ _ _)
  | uwSolConfirm _ resp isNull retries dl f ctrl objs raw hm hq hu =>
    split
    · exact h.same rfl (.inl rfl)
    · exact h
  | uwBcast _ resp isNull retries dl f m ctrl func objs raw a1 hm hq hf hb hp =>
    have hk := keepBC_fields (Frame.processBroadcast_frame _ _ _ _ _ _ _ _ hp).1.1
    exact h.same hk.2.2.1 (.inl hk.2.2.2.1)
  | uwMalformed _ resp isNull retries dl f ctrl func e raw _ r' _ _ _ _ hw =>
    have hf := writeSolicited_fields hw
    exact h.same hf.1 (.inl hf.2.1)
  | uwNonRead _ resp isNull retries dl f ctrl func hs raw a4 r4 a5 r5 hm hq hf0 hf1 hb hn hw =>
    have hk := keepNR_fields (Frame.handleNonRead_frame _ _ _ _ _ _ _ _ hn).1
    have h5 : a5.1.deferred = a4.1.deferred := by
      rcases hw with ⟨_, e, _⟩ | ⟨r, r', _, hws, _⟩
      · rw [e]
      · exact (writeSolicited_fields hws).2.1
    constructor
    · intro x sr' hx hs' _
      have hx' : some (⟨ctrl.seq, f.data, r5, none⟩ : LastReq) = some x := hx
      cases hx'
      cases hs'
    · intro d hd
      have : a5.1.deferred = some d := hd
      rw [h5, hk.2.2.2.1] at this
      exact h.df d this
  | uwNonReadDie _ resp isNull retries dl f ctrl func hs raw a4 r hm hq hf0 hf1 hb hn hw =>
    have hk := keepNR_fields (Frame.handleNonRead_frame _ _ _ _ _ _ _ _ hn).1
    exact h.same hk.2.2.1 (.inl hk.2.2.2.1)
  | uwDisable _ resp isNull retries dl f ctrl hs raw hm hq => exact h.ext (afterUnsolSeries_ext _ _ _)
  | deferSet _ resp isNull retries dl f ctrl hs raw _ hq hb =>
    obtain ⟨i, hh, e⟩ := deferredSet_eq a.1 f ctrl.seq hs
    show LRInv (deferredSet a.1 f ctrl.seq hs)
    rw [e]
    constructor
    · exact h.lr
    · intro d hd
      cases hd
      exact ⟨ctrl, .ok hs, raw, hq.2⟩
  | uwEcho _ resp isNull retries dl f ctrl func objs raw last _ _ _ =>
    unfold Skel2.uwEchoAcc
    cases last with
    | none => exact h.same rfl (.inr rfl)
    | some r => exact h.same rfl (.inr rfl)
  | uwTimeoutEnd _ resp isNull retries dl hm _ hd =>
    exact LRInv.ext (a := Dnp3.emitCb a (.unsolTimeout resp.ctrl.seq false)) h (afterUnsolSeries_ext _ _ _)
  | uwRetry _ resp isNull retries retries' dl hm _ hd hr => exact h.same rfl (.inl rfl)

theorem lrInv_reach {pf : Option Frag} {x y : Skel2.PA} (hr : Skel2.Reach2 pf x y) (h : LRInv x.2.1) : LRInv y.2.1 := by
  induction hr with
  | refl => exact h
  | tail _ r ih => exact lrInv_event r ih

theorem lrInv_step (env : OEnv) (s : OState) (inp : OInput) (h : LRInv s) :
    LRInv (Outstation.step env s inp).1 := by
  rcases Skel2.step_reach2 env s inp with ⟨f, _, e⟩ | e | ⟨pf, s0, o0, hi, hr⟩
  · rw [e]; exact h.same rfl (.inl rfl)
  · rw [e]; exact h
  · refine lrInv_reach hr ?_
    show LRInv s0
    cases hi with
    | rx src dst data b hb => exact h.same rfl (.inl rfl)
    | tick ms => exact h.same rfl (.inl rfl)
    | txn items =>
      have hk := (Skel.txnFold_frame s items).1
      simp only [Skel.keepDb, Prod.mk.injEq] at hk
      refine h.same ?_ (.inl ?_)
      · show (Skel.txnFold s items).1.lastReq = s.lastReq
        simp [hk]
      · show (Skel.txnFold s items).1.deferred = s.deferred
        simp [hk]
    | add t idx cls => exact h.same rfl (.inl rfl)
    | cut => exact ⟨fun lr sr e => (by cases e), fun d e => (by cases e)⟩

theorem lrInv_start (cfg : OCfg) (evMax : Nat) : LRInv (Outstation.start cfg evMax).1 := by
  refine lrInv_reach (Skel2.start_reach2 cfg evMax) ?_
  exact ⟨fun lr sr e => (by cases e), fun d e => (by cases e)⟩

/-! ## 5. Handling the non-READ request -/

/-- what a step is expected to transmit as solicited response: the stored response's octets, if there is one -/
def expTx (src : Nat) (resp : Option Resp) (bytes : List Nat) : List (Nat × List Nat) :=
  match resp with
  | some _ => solTx [.tx src bytes]
  | none => []

/-- the state remembers the request `(seq, data)` and will echo `bytes` (if a response `resp` is stored) -/
structure ER (seq : Nat) (data : List Nat) (resp : Option Resp) (bytes : List Nat) (s : OState) : Prop where
  lastReq : ∃ ser, s.lastReq = some ⟨seq, data, resp, ser⟩ ∧ ∀ sr, ser = some sr → sr.fin = true
  deferred : s.deferred = none
  pending : s.pending = none
  buf : ∀ r, resp = some r → writeAt s.solBuf 0 (respHeader r) = s.solBuf ∧ s.solBuf.take (max 4 r.size) = bytes
  mode : ModeFin s

/-- the accumulator right after the request was handled; `L0` / `B0`: stored request and solicited buffer before -/
def Handled (seq : Nat) (data : List Nat) (src : Nat) (L0 : Option LastReq) (B0 : List Nat) (a1 : Acc) : Prop :=
  ∃ resp ser bytes,
    a1.1.lastReq = some ⟨seq, data, resp, ser⟩ ∧ (∀ sr, ser = some sr → sr.fin = true) ∧
    (∀ r, resp = some r → writeAt a1.1.solBuf 0 (respHeader r) = a1.1.solBuf ∧
      a1.1.solBuf.take (max 4 r.size) = bytes) ∧
    solTx a1.2 = expTx src resp bytes ∧
    (∀ resp0 ser0, L0 = some ⟨seq, data, resp0, ser0⟩ → resp = resp0 ∧
      ∀ r, resp0 = some r → writeAt B0 0 (respHeader r) = B0 → a1.1.solBuf = B0)

section Req
variable {f : Frag} {ctrl : AppCtrl} {func : Nat} {hs : List ObjHdr} {raw : List Nat}

theorem classify_nr (s : OState) (hf0 : func ≠ 0) (hf1 : func ≠ 1) (hb : f.broadcast = none) :
    (classify s f ctrl func (.ok hs) = .newNonRead hs ∧
      ∀ last, s.lastReq = some last → ¬ (last.seq = ctrl.seq ∧ last.frag = f.data)) ∨
    ∃ last, IsRepeat s f ctrl func (.ok hs) last := by
  cases hl : s.lastReq with
  | none =>
    left
    refine ⟨by simp [classify, hf0, hf1, hb, hl], ?_⟩
    intro last e; cases e
  | some last =>
    by_cases hc : last.seq = ctrl.seq ∧ last.frag = f.data
    · exact .inr ⟨last, hl, hc.1, hc.2, hf0, hf1, hb, hs, rfl⟩
    · left
      refine ⟨by simp [classify, hf0, hf1, hb, hl, hc], ?_⟩
      intro l e; cases e; exact hc

theorem not_readFrag (hq : parseRequest f.data = .request ctrl func (.ok hs) raw) (hf1 : func ≠ 1) :
    ¬ ReadFrag f.data := by
  rintro ⟨c, o, r, h⟩
  rw [hq] at h
  cases h
  exact hf1 rfl

theorem handleNonRead_outs {a a1 : Acc} {seq fid : Nat} {r : Option Resp}
    (hn : handleNonRead a func seq fid hs raw = some (a1, r)) : ∃ l, a1.2 = a.2 ++ l ∧ NoSolL l := by
  obtain ⟨_, l, e, hl⟩ := Frame.handleNonRead_frame _ _ _ _ _ _ _ _ hn
  refine ⟨l, e, NoSolL.of_notTx ?_⟩
  intro o ho d b eo
  subst eo
  rcases hl _ ho with h | h
  · simp [Frame.OOut.isApp] at h
  · simp [Frame.clearOut] at h

/-- **handling from idle** (new or repeated): afterwards the request is remembered with the response just sent -/
theorem handle_idle {a a' : Acc} {ser : Option Series}
    (hq : parseRequest f.data = .request ctrl func (.ok hs) raw) (hf0 : func ≠ 0) (hf1 : func ≠ 1)
    (hb : f.broadcast = none) (hJ : LRInv a.1) (hns : NoSolL a.2)
    (h : handleRequestFromIdle a f ctrl func (.ok hs) raw = some (a', ser)) :
    Handled ctrl.seq f.data f.src a.1.lastReq a.1.solBuf a' ∧ (∀ sr, ser = some sr → sr.fin = true) := by
  rcases classify_nr (f := f) (ctrl := ctrl) (hs := hs) a.1 hf0 hf1 hb with ⟨hc, hnew⟩ | ⟨last, hr⟩
  · -- a new request
    rw [Skel.handleRequestFromIdle_eq] at h
    simp only [Skel.idleStage1, hc] at h
    cases hn : handleNonRead a func ctrl.seq f.id hs raw with
    | none => simp only [hn] at h; cases h
    | some p =>
      obtain ⟨a1, r⟩ := p
      simp only [hn] at h
      obtain ⟨l, el, nl⟩ := handleNonRead_outs hn
      have rep : ∀ resp0 ser0, a.1.lastReq = some ⟨ctrl.seq, f.data, resp0, ser0⟩ → False :=
        fun resp0 ser0 e => hnew _ e ⟨rfl, rfl⟩
      cases r with
      | none =>
        simp only [Skel.idleStage2] at h
        cases h
        refine ⟨⟨none, none, [], rfl, fun sr e => (by cases e), fun r e => (by cases e), ?_, ?_⟩,
          fun sr e => (by cases e)⟩
        · show solTx a1.2 = []
          rw [el, solTx_append, solTx_of_noSol hns, solTx_of_noSol nl]; rfl
        · intro resp0 ser0 e; exact (rep _ _ e).elim
      | some r =>
        simp only [Skel.idleStage2, Bool.false_eq_true, if_false] at h
        cases hw : writeSolicited a1 f.src r with
        | none => rw [hw] at h; cases h
        | some q =>
          obtain ⟨a2, r2⟩ := q
          rw [hw] at h
          cases h
          have hf := writeSolicited_fields hw
          refine ⟨⟨some r2, _, (writeAt a1.1.solBuf 0 (respHeader r2)).take (max 4 r2.size), rfl, ?_, ?_, ?_, ?_⟩, ?_⟩
          · intro sr e
            split at e
            · cases e; rfl
            · cases e
          · intro r' e
            cases e
            show writeAt a2.1.solBuf 0 (respHeader r2) = a2.1.solBuf ∧ a2.1.solBuf.take (max 4 r2.size) = _
            rw [hf.2.2.2.2.2.2.2.1, writeAt_zero_idem]
            exact ⟨rfl, rfl⟩
          · show solTx a2.2 = _
            rw [hf.2.2.2.2.2.2.2.2, el, solTx_append, solTx_append, solTx_of_noSol hns, solTx_of_noSol nl]
            rfl
          · intro resp0 ser0 e; exact (rep _ _ e).elim
          · intro sr e
            split at e
            · cases e; rfl
            · cases e
  · -- a repeat of the stored request
    obtain ⟨a'', e1, e2, e3, e4, -⟩ := repeat_nonread_idle (raw := raw) hr
    rw [e1] at h
    cases h
    obtain ⟨sel, hsh⟩ := rebased_shape a.1 f ctrl func raw
    have hlast : last = ⟨ctrl.seq, f.data, last.response, last.series⟩ := by
      cases last; simp only at *; rw [← hr.seq, ← hr.frag]
    have hfin : ∀ sr, last.series = some sr → sr.fin = true := by
      intro sr e
      cases hfn : sr.fin with
      | true => rfl
      | false =>
        have := hJ.lr last sr hr.lastReq e hfn
        rw [hr.frag] at this
        exact absurd this (not_readFrag hq hf1)
    refine ⟨⟨last.response, last.series, (writeAt a.1.solBuf 0 (respHeader (last.response.getD default))).take
        (max 4 (last.response.getD default).size), ?_, hfin, ?_, ?_, ?_⟩, hfin⟩
    · rw [e4, hr.lastReq]; congr 1
    · intro r e
      rw [e3, e, hsh]
      show writeAt (writeAt a.1.solBuf 0 (respHeader r)) 0 (respHeader r) = writeAt a.1.solBuf 0 (respHeader r) ∧ _
      rw [writeAt_zero_idem]
      exact ⟨rfl, rfl⟩
    · rw [e2, solTx_append, solTx_of_noSol hns]
      cases last.response with
      | none => rfl
      | some r => rfl
    · intro resp0 ser0 e
      rw [hr.lastReq] at e
      cases e
      refine ⟨rfl, ?_⟩
      intro r er hid
      rw [e3, hsh]
      subst er
      exact hid

/-- how `unsolWaitOnFragment` ends on the request: the task died, or the request was handled (`a1`) and the
    task blocks again, or (DISABLE UNSOLICITED) the series ends -/
inductive UWRes (seq : Nat) (data : List Nat) (src : Nat) (isNull : Bool) (a : Acc) : StepRes → Prop
  | died (a1 : Acc) (l : List OOut) : a1.2 = a.2 ++ l → UWRes seq data src isNull a (die a1)
  | blocked (a1 : Acc) : Handled seq data src a.1.lastReq a.1.solBuf a1 → a1.1.deferred = none →
      a1.1.pending = none → a1.1.mode = a.1.mode → UWRes seq data src isNull a (.blocked a1)
  | disable (a1 : Acc) : Handled seq data src a.1.lastReq a.1.solBuf a1 → a1.1.deferred = none →
      a1.1.pending = none → UWRes seq data src isNull a (finishUnsol a1 isNull false)

/-- **handling in the unsolicited confirm wait** (new or repeated) -/
theorem handle_uw {a : Acc} (resp : Resp) (isNull : Bool) (hp : a.1.pending = some f)
    (hq : parseRequest f.data = .request ctrl func (.ok hs) raw) (hf0 : func ≠ 0) (hf1 : func ≠ 1)
    (hb : f.broadcast = none) (hm : a.1.cfg.anymaster = true ∨ f.src = a.1.cfg.master)
    (hJ : LRInv a.1) (hns : NoSolL a.2) :
    UWRes ctrl.seq f.data f.src isNull a (unsolWaitOnFragment a resp isNull) := by
  rcases classify_nr (f := f) (ctrl := ctrl) (hs := hs) (onLinkActivity { a.1 with pending := none }) hf0 hf1 hb with
    ⟨hc, hnew⟩ | ⟨last, hr'⟩
  · -- a new request
    have rep : ∀ resp0 ser0, a.1.lastReq = some ⟨ctrl.seq, f.data, resp0, ser0⟩ → False :=
      fun resp0 ser0 e => hnew _ e ⟨rfl, rfl⟩
    unfold unsolWaitOnFragment
    rw [popRequest_of hp hq hm]
    dsimp only
    rw [hc]
    dsimp only
    split
    · exact .died _ [] (by simp)
    · rename_i a4 r4 hn
      obtain ⟨l, el, nl⟩ := handleNonRead_outs hn
      have hk := keepNR_fields (Frame.handleNonRead_frame _ _ _ _ _ _ _ _ hn).1
      have el' : a4.2 = a.2 ++ l := el
      cases r4 with
      | none =>
        dsimp only
        have hH : Handled ctrl.seq f.data f.src a.1.lastReq a.1.solBuf
            ({ a4.1 with lastReq := some ⟨ctrl.seq, f.data, none, none⟩ }, a4.2) := by
          refine ⟨none, none, [], rfl, fun sr e => (by cases e), fun r e => (by cases e), ?_, ?_⟩
          · show solTx a4.2 = []
            rw [el', solTx_append, solTx_of_noSol hns, solTx_of_noSol nl]; rfl
          · intro resp0 ser0 e; exact (rep _ _ e).elim
        split
        · exact .disable _ hH hk.2.2.2.1 hk.2.2.2.2
        · exact .blocked _ hH hk.2.2.2.1 hk.2.2.2.2 hk.2.1
      | some r =>
        dsimp only
        cases hw : writeSolicited a4 f.src r with
        | none => exact .died _ l el'
        | some q =>
          obtain ⟨a5, r5⟩ := q
          dsimp only
          have hf := writeSolicited_fields hw
          have hH : Handled ctrl.seq f.data f.src a.1.lastReq a.1.solBuf
              ({ a5.1 with lastReq := some ⟨ctrl.seq, f.data, some r5, none⟩ }, a5.2) := by
            refine ⟨some r5, none, (writeAt a4.1.solBuf 0 (respHeader r5)).take (max 4 r5.size), rfl,
              fun sr e => (by cases e), ?_, ?_, ?_⟩
            · intro r' e
              cases e
              show writeAt a5.1.solBuf 0 (respHeader r5) = a5.1.solBuf ∧ a5.1.solBuf.take (max 4 r5.size) = _
              rw [hf.2.2.2.2.2.2.2.1, writeAt_zero_idem]
              exact ⟨rfl, rfl⟩
            · show solTx a5.2 = _
              rw [hf.2.2.2.2.2.2.2.2, el', solTx_append, solTx_append, solTx_of_noSol hns, solTx_of_noSol nl]
              rfl
            · intro resp0 ser0 e; exact (rep _ _ e).elim
          have hd5 : a5.1.deferred = none := hf.2.1.trans hk.2.2.2.1
          have hp5 : a5.1.pending = none := hf.2.2.1.trans hk.2.2.2.2
          split
          · exact .disable _ hH hd5 hp5
          · exact .blocked _ hH hd5 hp5 (hf.2.2.2.2.1.trans hk.2.1)
  · -- a repeat of the stored request
    have hr : IsRepeat a.1 f ctrl func (.ok hs) last :=
      ⟨hr'.lastReq, hr'.seq, hr'.frag, hr'.notConfirm, hr'.notRead, hr'.unicast, hr'.objectsOk⟩
    rw [repeat_nonread_unsolwait resp isNull hp hq hm hr]
    have hlast : last = ⟨ctrl.seq, f.data, last.response, last.series⟩ := by
      cases last; simp only at *; rw [← hr.seq, ← hr.frag]
    have hfin : ∀ sr, last.series = some sr → sr.fin = true := by
      intro sr e
      cases hfn : sr.fin with
      | true => rfl
      | false =>
        have := hJ.lr last sr hr.lastReq e hfn
        rw [hr.frag] at this
        exact absurd this (not_readFrag hq hf1)
    have hl : a.1.lastReq = some ⟨ctrl.seq, f.data, last.response, last.series⟩ := by
      rw [hr.lastReq]; congr 1
    cases hresp : last.response with
    | none =>
      dsimp only
      refine .blocked _ ⟨none, last.series, [], ?_, hfin, fun r e => (by cases e), ?_, ?_⟩ rfl rfl rfl
      · rw [← hresp]; exact hl
      · show solTx a.2 = []
        exact solTx_of_noSol hns
      · intro resp0 ser0 e
        rw [hl] at e
        cases e
        exact ⟨hresp.symm, fun r e => by rw [hresp] at e; cases e⟩
    | some r =>
      dsimp only
      refine .blocked _ ⟨some r, last.series, (writeAt a.1.solBuf 0 (respHeader r)).take (max 4 r.size), ?_, hfin,
        ?_, ?_, ?_⟩ rfl rfl rfl
      · rw [← hresp]; exact hl
      · intro r' e
        cases e
        show writeAt (writeAt a.1.solBuf 0 (respHeader r)) 0 (respHeader r) = writeAt a.1.solBuf 0 (respHeader r) ∧ _
        rw [writeAt_zero_idem]
        exact ⟨rfl, rfl⟩
      · show solTx (a.2 ++ _) = _
        rw [solTx_append, solTx_of_noSol hns]; rfl
      · intro resp0 ser0 e
        rw [hl] at e
        cases e
        refine ⟨hresp.symm, ?_⟩
        intro r' er hid
        rw [hresp] at er
        cases er
        exact hid

end Req

/-! ## 6. The step that receives the non-READ request -/

/-- the fragment is a unicast, well-formed request that is neither a CONFIRM nor a READ -/
structure NR (f : Frag) (ctrl : AppCtrl) (func : Nat) (hs : List ObjHdr) (raw : List Nat) : Prop where
  parse : parseRequest f.data = .request ctrl func (.ok hs) raw
  notConfirm : func ≠ 0
  notRead : func ≠ 1
  unicast : f.broadcast = none

theorem enterSolWait_ext (a : Acc) (sr : Series) (c : SolCont) : Ext a (enterSolWait a sr c) :=
  ⟨rfl, rfl, rfl, rfl, rfl, [.cb (.solWait sr.ecsn)], rfl, NoSolL.cb _⟩

theorem died_of_outs {b a : Acc} (h : ∃ l, a.2 = b.2 ++ l) : Died b (finishStep (die a)) := by
  obtain ⟨l, e⟩ := h
  exact ⟨l ++ [.panic], by simp [die, finishStep, emit, e], by simp, rfl⟩

theorem fin_pendDone {a1 x : Acc} (h : Fin a1 x) (hp : a1.1.pending = none) : C04.PendDone x := by
  rcases h with ⟨l, _, _, hm⟩ | ⟨he, _⟩
  · exact .inr hm
  · exact .inl (he.pending.trans hp)

theorem settle_done_eq (n : Nat) (r : StepRes) (h : C04.PendDone (finishStep r)) :
    finishStep (settle n r) = finishStep r := by
  rw [C04.finishStep_eq] at h
  rw [C04.finishStep_eq, C04.finishStep_eq, C04.settle_of_done n r h]

section Step
variable {f : Frag} {ctrl : AppCtrl} {func : Nat} {hs : List ObjHdr} {raw : List Nat}

/-- the request was handled (accumulator `a1` right after), and the pass then ended in `x` -/
def Done (f : Frag) (ctrl : AppCtrl) (b x : Acc) : Prop :=
  ∃ a1, Handled ctrl.seq f.data f.src b.1.lastReq b.1.solBuf a1 ∧ a1.1.deferred = none ∧ a1.1.pending = none ∧
    Fin a1 x

/-- result of the part of the pass that may still have the request in the reader -/
def PRes (f : Frag) (ctrl : AppCtrl) (b : Acc) (r : StepRes) : Prop :=
  Died b (finishStep r) ∨ Done f ctrl b (finishStep r) ∨
  ∃ a, r = .blocked a ∧ Ext b a ∧ ∃ r n t d, a.1.mode = .unsolWait r n t d

theorem kitHyp_pres {b : Acc} (hp : b.1.pending = some f) (hd : b.1.deferred = none) : KitHyp b (PRes f ctrl b) := by
  refine ⟨hd, fun a h => .inl (died_die h), fun a h hm => .inr (.inr ⟨a, rfl, h, hm⟩), ?_⟩
  intro a h _ hw
  have : a.1.pending = some f := h.pending.trans hp
  simp [idleWakes, this] at hw

/-- the idle pass finds the request in the reader and handles it -/
theorem runPass_nr (hnr : NR f ctrl func hs raw) {b : Acc} (hp : b.1.pending = some f) (hd : b.1.deferred = none)
    (hJ : LRInv b.1) (hns : NoSolL b.2) (hm : b.1.cfg.anymaster = true ∨ f.src = b.1.cfg.master)
    (a : Acc) (h : Ext b a) : PRes f ctrl b (runPass passFuel a) := by
  show PRes f ctrl b (runPass (63 + 1) a)
  rw [C04.runPass_succ]
  unfold C04.runPassBody
  have hp' : ({ a.1 with notified := false } : OState).pending = some f := h.pending.trans hp
  have hm' : ({ a.1 with notified := false } : OState).cfg.anymaster = true ∨
      f.src = ({ a.1 with notified := false } : OState).cfg.master := by
    show a.1.cfg.anymaster = true ∨ f.src = a.1.cfg.master
    rw [h.cfg]; exact hm
  rw [popRequest_of hp' hnr.parse hm']
  dsimp only
  have hJ2 : LRInv (onLinkActivity { ({ a.1 with notified := false } : OState) with pending := none }) :=
    hJ.same h.lastReq (.inl h.deferred)
  obtain ⟨l, el, nl⟩ := h.outs
  have hns2 : NoSolL a.2 := by rw [el]; exact hns.append nl
  split
  · exact .inl (died_of_outs ⟨l, el⟩)
  · rename_i a' sr hh
    have hH := handle_idle (a := (onLinkActivity { ({ a.1 with notified := false } : OState) with pending := none }, a.2))
      hnr.parse hnr.notConfirm hnr.notRead hnr.unicast hJ2 hns2 hh
    have hfl := hrfi_fields hh
    refine .inr (.inl ⟨a', ?_, hfl.2.2.1.trans (h.deferred.trans hd), hfl.2.2.2, .inr ⟨enterSolWait_ext _ _ _, ?_⟩⟩)
    · have := hH.1
      rw [show (onLinkActivity { ({ a.1 with notified := false } : OState) with pending := none }, a.2).1.lastReq =
        b.1.lastReq from h.lastReq, show (onLinkActivity { ({ a.1 with notified := false } : OState) with
          pending := none }, a.2).1.solBuf = b.1.solBuf from h.solBuf] at this
      exact this
    · constructor
      · intro e; cases e
      · intro sr' dl c e
        cases e
        exact hH.2 sr rfl
  · rename_i a' hh
    have hH := handle_idle (a := (onLinkActivity { ({ a.1 with notified := false } : OState) with pending := none }, a.2))
      hnr.parse hnr.notConfirm hnr.notRead hnr.unicast hJ2 hns2 hh
    have hfl := hrfi_fields hh
    have hd' : a'.1.deferred = none := hfl.2.2.1.trans (h.deferred.trans hd)
    have hp'' : a'.1.pending = none := hfl.2.2.2
    refine .inr (.inl ⟨a', ?_, hd', hp'', ?_⟩)
    · have := hH.1
      rw [show (onLinkActivity { ({ a.1 with notified := false } : OState) with pending := none }, a.2).1.lastReq =
        b.1.lastReq from h.lastReq, show (onLinkActivity { ({ a.1 with notified := false } : OState) with
          pending := none }, a.2).1.solBuf = b.1.solBuf from h.solBuf] at this
      exact this
    · exact kit_afterRequest (kitHyp_fin hd') _ (fun a2 h2 hm2 _ => runPass_tail hp'' hd' _ a2 h2 hm2) _ (Ext.refl _)

/-- in the solicited confirm wait the request aborts the series and is retained -/
theorem solWaitOnFragment_nr (hnr : NR f ctrl func hs raw) {a : Acc} (sr : Series) (dl : Nat) (c : SolCont)
    (hp : a.1.pending = some f) (hm : a.1.cfg.anymaster = true ∨ f.src = a.1.cfg.master) :
    solWaitOnFragment a sr dl c = abortSeries (emitCb (onLinkActivity a.1, a.2) .solNewRequest) c := by
  unfold solWaitOnFragment
  rw [popRequest_of hp hnr.parse hm]
  dsimp only
  rcases classify_nr (f := f) (ctrl := ctrl) (hs := hs) (onLinkActivity a.1) hnr.notConfirm hnr.notRead hnr.unicast with
    ⟨hc, _⟩ | ⟨last, hr⟩
  · rw [hc]
  · rw [classify_repeat hr]

theorem abortSeries_nr (hnr : NR f ctrl func hs raw) {b : Acc} (hp : b.1.pending = some f) (hd : b.1.deferred = none)
    (hJ : LRInv b.1) (hns : NoSolL b.2) (hm : b.1.cfg.anymaster = true ∨ f.src = b.1.cfg.master)
    (a : Acc) (c : SolCont) (h : Ext b a) : PRes f ctrl b (abortSeries a c) := by
  unfold abortSeries resumeAfterSol
  have h1 : Ext b ({ a.1 with db := a.1.db.reset }, a.2) := h.trans (Ext.state a _ rfl rfl rfl rfl rfl)
  split
  · exact kit_afterRequest (kitHyp_pres hp hd) _ (fun a2 h2 _ _ => runPass_nr hnr hp hd hJ hns hm a2 h2) _ h1
  · refine kit_afterDeferred (kitHyp_pres hp hd) _ (fun a2 h2 _ _ => runPass_nr hnr hp hd hJ hns hm a2 h2) _ _ ?_
    exact h1.trans (Ext.state _ _ rfl rfl (h.deferred.trans hd).symm rfl rfl)

theorem settle_panicked (n : Nat) (a : Acc) : settle n (.panicked a) = .panicked a := by
  cases n <;> rfl

/-- what remains of a step after `unsolWaitOnFragment` handled the request -/
theorem uwres_post {b a : Acc} {isNull : Bool} {r : StepRes} (h : Ext b a)
    (hm : ∃ r n t d, a.1.mode = .unsolWait r n t d) (hu : UWRes ctrl.seq f.data f.src isNull a r) (n : Nat) :
    Died b (finishStep (settle n r)) ∨ Done f ctrl b (finishStep (settle n r)) := by
  cases hu with
  | died a1 l e =>
    left
    unfold die
    rw [settle_panicked]
    obtain ⟨l0, e0, _⟩ := h.outs
    exact ⟨l0 ++ l ++ [.panic], by simp [finishStep, emit, e, e0], by simp, rfl⟩
  | blocked a1 hH hd hp hmode =>
    right
    have hfin : Fin a1 (finishStep (.blocked a1)) := .inr ⟨Ext.refl _, modeFin_unsolWait (by
      obtain ⟨r, n, t, d, hm⟩ := hm
      exact ⟨r, n, t, d, hmode.trans hm⟩)⟩
    rw [settle_done_eq n _ (fin_pendDone hfin hp)]
    rw [h.lastReq, h.solBuf] at hH
    exact ⟨a1, hH, hd, hp, hfin⟩
  | disable a1 hH hd hp =>
    right
    have hfin : Fin a1 (finishStep (finishUnsol a1 isNull false)) := finishUnsol_tail hp hd a1 isNull false (Ext.refl _)
    rw [settle_done_eq n _ (fin_pendDone hfin hp)]
    rw [h.lastReq, h.solBuf] at hH
    exact ⟨a1, hH, hd, hp, hfin⟩

/-- `settle` finishes the job: a request still in the reader is handed to the unsolicited confirm wait -/
theorem settle_pres (hnr : NR f ctrl func hs raw) {b : Acc} (hp : b.1.pending = some f)
    (hJ : LRInv b.1) (hns : NoSolL b.2) (hm : b.1.cfg.anymaster = true ∨ f.src = b.1.cfg.master)
    (r : StepRes) (h : PRes f ctrl b r) :
    Died b (finishStep (settle 8 r)) ∨ Done f ctrl b (finishStep (settle 8 r)) := by
  rcases h with hdd | hdone | ⟨a, rfl, he, resp, isNull, t, d, hmode⟩
  · have : C04.PendDone (finishStep r) := by
      obtain ⟨l, _, _, hm⟩ := hdd
      exact .inr hm
    rw [settle_done_eq 8 r this]; exact .inl hdd
  · have : C04.PendDone (finishStep r) := by
      obtain ⟨a1, _, _, hp1, hf⟩ := hdone
      exact fin_pendDone hf hp1
    rw [settle_done_eq 8 r this]; exact .inr hdone
  · have hpa : a.1.pending = some f := he.pending.trans hp
    have key : settle 8 (.blocked a) = settle 7 (unsolWaitOnFragment a resp isNull) := by
      show settle (7 + 1) (.blocked a) = _
      conv => lhs; unfold settle
      simp [hmode, hpa, dispatch]
    rw [key]
    have hma : a.1.cfg.anymaster = true ∨ f.src = a.1.cfg.master := by rw [he.cfg]; exact hm
    obtain ⟨l, el, nl⟩ := he.outs
    have hu := handle_uw resp isNull hpa hnr.parse hnr.notConfirm hnr.notRead hnr.unicast hma (hJ.ext he)
      (by rw [el]; exact hns.append nl)
    exact uwres_post he ⟨_, _, _, _, hmode⟩ hu 7

theorem deferred_of_defInv {s : OState} (h : DefInv s) (ha : s.mode ≠ .dead)
    (hu : ∀ r n t d, s.mode ≠ .unsolWait r n t d) : s.deferred = none := by
  rcases h with h | h | ⟨r, n, t, d, h⟩
  · exact absurd h ha
  · exact h
  · exact absurd h (hu r n t d)

/-- the whole pass of a step that starts with the request in the reader -/
theorem quiesce_nr (hnr : NR f ctrl func hs raw) {b : Acc} (hp : b.1.pending = some f) (hD : DefInv b.1)
    (halive : b.1.mode ≠ .dead) (hJ : LRInv b.1) (hns : NoSolL b.2)
    (hm : b.1.cfg.anymaster = true ∨ f.src = b.1.cfg.master) :
    Died b (finishStep (settle 8 (dispatch b))) ∨ Done f ctrl b (finishStep (settle 8 (dispatch b))) := by
  unfold dispatch
  split
  · rename_i hmode; exact absurd hmode halive
  · rename_i n hmode
    have hd : b.1.deferred = none :=
      deferred_of_defInv hD halive (fun r n t d e => by rw [hmode] at e; cases e)
    have hw : idleWakes b.1 = true := by simp [idleWakes, hp]
    rw [if_pos hw]
    exact settle_pres hnr hp hJ hns hm _ (runPass_nr hnr hp hd hJ hns hm b (Ext.refl b))
  · rename_i sr dl c hmode
    have hd : b.1.deferred = none :=
      deferred_of_defInv hD halive (fun r n t d e => by rw [hmode] at e; cases e)
    rw [if_pos (by rw [hp]; rfl), solWaitOnFragment_nr hnr sr dl c hp hm]
    refine settle_pres hnr hp hJ hns hm _ (abortSeries_nr hnr hp hd hJ hns hm _ c ?_)
    exact (Ext.state b (onLinkActivity b.1) rfl rfl rfl rfl rfl).trans (Ext.emitCb _ _)
  · rename_i resp isNull retries dl hmode
    rw [if_pos (by rw [hp]; rfl)]
    exact uwres_post (Ext.refl b) ⟨_, _, _, _, hmode⟩
      (handle_uw resp isNull hp hnr.parse hnr.notConfirm hnr.notRead hnr.unicast hm hJ hns) 8

end Step

/-- the frame is addressed to this outstation (its address, or the self address if enabled), comes from a valid
    source address, and is neither empty nor longer than the receive buffer: the transport layer delivers it as
    a unicast fragment whenever the task is alive (`rxAccept_unicast`) -/
def Unicast (env : OEnv) (src dst : Nat) (data : List Nat) : Prop :=
  (dst = env.outstation ∨ (dst = 0xFFFC ∧ env.selfaddr = true)) ∧ src < 0xFFF0 ∧ data ≠ [] ∧ data.length ≤ env.rx

theorem rxAccept_unicast {env : OEnv} {src dst : Nat} {data : List Nat} (hu : Unicast env src dst data)
    (s : OState) (ha : s.mode ≠ .dead) :
    C04.rxAccept env s src dst data = some ⟨s.frameId, src, none, data⟩ := by
  obtain ⟨hd, hs, hne, hl⟩ := hu
  unfold C04.rxAccept
  cases hmode : s.mode with
  | dead => exact absurd hmode ha
  | idle n =>
    rcases hd with hd | ⟨hd, hself⟩
    · simp [hd, hs, hne, hl]
    · by_cases he : dst = env.outstation <;> simp [he, hd, hself, hs, hne, hl]
  | solWait a b c =>
    rcases hd with hd | ⟨hd, hself⟩
    · simp [hd, hs, hne, hl]
    · by_cases he : dst = env.outstation <;> simp [he, hd, hself, hs, hne, hl]
  | unsolWait a b c d =>
    rcases hd with hd | ⟨hd, hself⟩
    · simp [hd, hs, hne, hl]
    · by_cases he : dst = env.outstation <;> simp [he, hd, hself, hs, hne, hl]

/-- what the step that receives the request `(seq, data)` from `src` achieves: the task died (`panic` among its
    outputs), or the request is remembered (`ER`), the step's solicited transmissions are exactly the stored
    response's octets, and — if the request was remembered already — record and octets are the ones before -/
def StepPost (seq : Nat) (data : List Nat) (src : Nat) (s : OState) (x : OState × List OOut) : Prop :=
  (OOut.panic ∈ x.2 ∧ x.1.mode = .dead) ∨
  ∃ resp bytes, ER seq data resp bytes x.1 ∧ solTx x.2 = expTx src resp bytes ∧
    ∀ resp0 bytes0, ER seq data resp0 bytes0 s → resp = resp0 ∧ ∀ r, resp0 = some r → bytes = bytes0

/-- **Lemma A / C**: the step that receives the non-READ request, from any state of a run -/
theorem nr_step (env : OEnv) (s : OState) (src dst : Nat) (data : List Nat) {ctrl : AppCtrl} {func : Nat}
    {hs : List ObjHdr} {raw : List Nat} (hu : Unicast env src dst data)
    (hq : parseRequest data = .request ctrl func (.ok hs) raw) (hf0 : func ≠ 0) (hf1 : func ≠ 1)
    (hm : s.cfg.anymaster = true ∨ src = s.cfg.master) (halive : s.mode ≠ .dead)
    (hD : DefInv s) (hJ : LRInv s) :
    StepPost ctrl.seq data src s (Outstation.step env s (.rx src dst data)) := by
  rw [C04.step_rx, rxAccept_unicast hu s halive]
  dsimp only
  have hnr : NR (⟨s.frameId, src, none, data⟩ : Frag) ctrl func hs raw := ⟨hq, hf0, hf1, rfl⟩
  have key := quiesce_nr hnr
    (b := ({ s with frameId := (s.frameId + 1) % 4294967296, pending := some ⟨s.frameId, src, none, data⟩ }, []))
    rfl hD halive (hJ.same rfl (.inl rfl)) NoSolL.nil hm
  generalize finishStep (settle 8 (dispatch
    ({ s with frameId := (s.frameId + 1) % 4294967296, pending := some ⟨s.frameId, src, none, data⟩ }, []))) = x at key ⊢
  rcases key with ⟨l, el, hpan, hdead⟩ | ⟨a1, hH, hd1, hp1, hfin⟩
  · left
    refine ⟨?_, hdead⟩
    rw [el]; simpa using hpan
  · rcases hfin with ⟨l, el, hpan, hdead⟩ | ⟨he, hmf⟩
    · left
      refine ⟨?_, hdead⟩
      rw [el]; exact List.mem_append_right _ hpan
    · right
      obtain ⟨resp, ser, bytes, hl, hser, hbuf, htx, hrep⟩ := hH
      obtain ⟨l, el, nl⟩ := he.outs
      refine ⟨resp, bytes, ⟨⟨ser, he.lastReq.trans hl, hser⟩, he.deferred.trans hd1, he.pending.trans hp1, ?_, hmf⟩, ?_, ?_⟩
      · intro r e
        rw [he.solBuf]; exact hbuf r e
      · rw [el, solTx_append, solTx_of_noSol nl, List.append_nil]; exact htx
      · intro resp0 bytes0 h0
        obtain ⟨ser0, hl0, _⟩ := h0.lastReq
        obtain ⟨e1, e2⟩ := hrep resp0 ser0 hl0
        refine ⟨e1, ?_⟩
        intro r er
        have hb0 := h0.buf r er
        have hsb : a1.1.solBuf = s.solBuf := e2 r er hb0.1
        have := (hbuf r (e1.trans er)).2
        rw [← this, hsb]; exact hb0.2

/-! ## 7. Steps that only pass time or deliver a CONFIRM keep the memory of the request -/

/-- how a benign step ends relative to `b`: dead (with `panic` in the outputs), or stored request and
    solicited buffer as in `b`, nothing deferred, the reader empty, an acceptable mode -/
def FinW (b x : Acc) : Prop :=
  (OOut.panic ∈ x.2 ∧ x.1.mode = .dead) ∨
  (x.1.lastReq = b.1.lastReq ∧ x.1.solBuf = b.1.solBuf ∧ x.1.deferred = none ∧ x.1.pending = none ∧ ModeFin x.1)

theorem Fin.toW {b b' x : Acc} (h : Fin b' x) (hd : b'.1.deferred = none) (hp : b'.1.pending = none)
    (e1 : b'.1.lastReq = b.1.lastReq) (e2 : b'.1.solBuf = b.1.solBuf) : FinW b x := by
  rcases h with ⟨l, el, hpan, hdead⟩ | ⟨he, hmf⟩
  · exact .inl ⟨by rw [el]; exact List.mem_append_right _ hpan, hdead⟩
  · exact .inr ⟨he.lastReq.trans e1, he.solBuf.trans e2, he.deferred.trans hd, he.pending.trans hp, hmf⟩

theorem finW_of_tail {b b' : Acc} {r : StepRes} (h : FinR b' r)
    (hk : b'.1.lastReq = b.1.lastReq ∧ b'.1.solBuf = b.1.solBuf ∧ b'.1.deferred = none ∧ b'.1.pending = none) :
    FinW b (finishStep r) := Fin.toW h hk.2.2.1 hk.2.2.2 hk.1 hk.2.1

theorem FinW.pendDone {b x : Acc} (h : FinW b x) : C04.PendDone x := by
  rcases h with ⟨_, h⟩ | ⟨_, _, _, h, _⟩
  · exact .inr h
  · exact .inl h

theorem FinW.settle {b : Acc} {r : StepRes} (h : FinW b (finishStep r)) (n : Nat) :
    FinW b (finishStep (settle n r)) := by
  rw [settle_done_eq n r h.pendDone]; exact h

theorem unsolWaitTimeout_finW {b : Acc} (hp : b.1.pending = none) (hd : b.1.deferred = none) (resp : Resp)
    (isNull : Bool) (retries : Option Nat) : FinW b (finishStep (unsolWaitTimeout b resp isNull retries)) := by
  unfold unsolWaitTimeout
  dsimp only
  repeat' split
  all_goals first
    | exact (finishUnsol_tail hp hd _ _ _ (Ext.emitCb b _)).toW hd hp rfl rfl
    | exact .inr ⟨rfl, rfl, hd, hp, modeFin_unsolWait ⟨_, _, _, _, rfl⟩⟩

/-- a clock tick: whatever times out, the stored request and the solicited buffer stay -/
theorem dispatch_tick {b : Acc} (hp : b.1.pending = none) (hd : b.1.deferred = none) (hmf : ModeFin b.1) :
    FinW b (finishStep (dispatch b)) := by
  have same : FinW b (finishStep (.blocked b)) := .inr ⟨rfl, rfl, hd, hp, hmf⟩
  unfold dispatch
  split
  · exact same
  · rename_i n hmode
    split
    · exact (runPass_tail hp hd _ b (Ext.refl b) ⟨n, hmode⟩).toW hd hp rfl rfl
    · exact same
  · rename_i sr dl c hmode
    rw [if_neg (by rw [hp]; simp)]
    split
    · unfold solWaitTimeout
      exact (abortSeries_tail hp hd _ c (Ext.emitCb b _)).toW hd hp rfl rfl
    · exact same
  · rename_i resp isNull retries dl hmode
    rw [if_neg (by rw [hp]; simp)]
    split
    · exact unsolWaitTimeout_finW hp hd resp isNull retries
    · exact same

theorem classify_confirm (s : OState) (f : Frag) (c : AppCtrl) (o : Except Nat (List ObjHdr)) :
    classify s f c 0 o = if c.uns then .unsolConfirm c.seq else .solConfirm c.seq := by
  unfold classify
  simp

theorem hrfi_confirm (a : Acc) (f : Frag) (c : AppCtrl) (o : Except Nat (List ObjHdr)) (r : List Nat) :
    handleRequestFromIdle a f c 0 o r = some (a, none) := by
  unfold handleRequestFromIdle
  rw [classify_confirm]
  cases c.uns <;> rfl

theorem accepted_or_foreign (s : OState) (src : Nat) :
    (s.cfg.anymaster = true ∨ src = s.cfg.master) ∨ (s.cfg.anymaster = false ∧ src ≠ s.cfg.master) := by
  cases h : s.cfg.anymaster
  · by_cases h2 : src = s.cfg.master
    · exact .inl (.inr h2)
    · exact .inr ⟨rfl, h2⟩
  · exact .inl (.inl rfl)

section Confirm
variable {f : Frag} {c : AppCtrl} {o : Except Nat (List ObjHdr)} {r : List Nat}

theorem runPass_confirm (hq : parseRequest f.data = .request c 0 o r) {b : Acc} (hp : b.1.pending = some f)
    (hd : b.1.deferred = none) : FinW b (finishStep (runPass passFuel b)) := by
  show FinW b (finishStep (runPass (63 + 1) b))
  rw [C04.runPass_succ]
  unfold C04.runPassBody
  have hp' : ({ b.1 with notified := false } : OState).pending = some f := hp
  rcases accepted_or_foreign b.1 f.src with hm | hm
  · rw [popRequest_of hp' hq hm]
    dsimp only
    rw [hrfi_confirm]
    dsimp only
    refine finW_of_tail (afterRequest_tail ?_ ?_ 63) ⟨?_, ?_, ?_, ?_⟩
    all_goals first | rfl | exact hd
  · rw [Skel.popRequest_foreign _ f hp' hm]
    dsimp only
    refine finW_of_tail (afterRequest_tail ?_ ?_ 63) ⟨?_, ?_, ?_, ?_⟩
    all_goals first | rfl | exact hd

theorem solWaitOnFragment_confirm (hq : parseRequest f.data = .request c 0 o r) {b : Acc} (hp : b.1.pending = some f)
    (hd : b.1.deferred = none) (sr : Series) (dl : Nat) (cont : SolCont) (hmode : b.1.mode = .solWait sr dl cont)
    (hfin : sr.fin = true) : FinW b (finishStep (solWaitOnFragment b sr dl cont)) := by
  have hmf : ModeFin b.1 := by
    constructor
    · rw [hmode]; intro e; cases e
    · intro sr' dl' c' e; rw [hmode] at e; cases e; exact hfin
  unfold solWaitOnFragment
  rcases accepted_or_foreign b.1 f.src with hm | hm
  · rw [popRequest_of hp hq hm]
    dsimp only
    rw [classify_confirm]
    cases hu : c.uns with
    | true =>
      simp only [if_true]
      exact .inr ⟨rfl, rfl, hd, rfl, hmf⟩
    | false =>
      simp only [Bool.false_eq_true, if_false]
      split
      · exact .inr ⟨rfl, rfl, hd, rfl, hmf⟩
      · refine finW_of_tail (resumeAfterSol_tail ?_ ?_ _ cont (Ext.refl _)) ⟨?_, ?_, ?_, ?_⟩
        all_goals first
          | exact (clearWrittenEvents_ext _).pending
          | exact (clearWrittenEvents_ext _).deferred.trans hd
          | exact (clearWrittenEvents_ext _).lastReq
          | exact (clearWrittenEvents_ext _).solBuf
  · rw [Skel.popRequest_foreign _ f hp hm]
    exact .inr ⟨rfl, rfl, hd, rfl, hmf⟩

theorem unsolWaitOnFragment_confirm (hq : parseRequest f.data = .request c 0 o r) {b : Acc} (hp : b.1.pending = some f)
    (hd : b.1.deferred = none) (resp : Resp) (isNull : Bool) (retries : Option Nat) (dl : Nat)
    (hmode : b.1.mode = .unsolWait resp isNull retries dl) :
    FinW b (finishStep (unsolWaitOnFragment b resp isNull)) := by
  have hmf : ModeFin b.1 := modeFin_unsolWait ⟨_, _, _, _, hmode⟩
  unfold unsolWaitOnFragment
  rcases accepted_or_foreign b.1 f.src with hm | hm
  · rw [popRequest_of hp hq hm]
    dsimp only
    rw [classify_confirm]
    cases hu : c.uns with
    | true =>
      simp only [if_true]
      split
      · refine finW_of_tail (finishUnsol_tail ?_ ?_ _ isNull true (Ext.refl _)) ⟨?_, ?_, ?_, ?_⟩
        all_goals first | rfl | exact hd
      · exact .inr ⟨rfl, rfl, hd, rfl, hmf⟩
    | false =>
      simp only [Bool.false_eq_true, if_false]
      split
      · exact .inr ⟨rfl, rfl, hd, rfl, hmf⟩
      · exact .inr ⟨rfl, rfl, hd, rfl, hmf⟩
  · rw [Skel.popRequest_foreign _ f hp hm]
    exact .inr ⟨rfl, rfl, hd, rfl, hmf⟩

/-- a CONFIRM fragment: wherever it arrives, the stored request and the solicited buffer stay -/
theorem dispatch_confirm (hq : parseRequest f.data = .request c 0 o r) {b : Acc} (hp : b.1.pending = some f)
    (hd : b.1.deferred = none) (hmf : ModeFin b.1) : FinW b (finishStep (dispatch b)) := by
  unfold dispatch
  split
  · rename_i hmode; exact absurd hmode hmf.1
  · rename_i n hmode
    rw [if_pos (by simp [idleWakes, hp])]
    exact runPass_confirm hq hp hd
  · rename_i sr dl cont hmode
    rw [if_pos (by rw [hp]; rfl)]
    exact solWaitOnFragment_confirm hq hp hd sr dl cont hmode (hmf.2 sr dl cont hmode)
  · rename_i resp isNull retries dl hmode
    rw [if_pos (by rw [hp]; rfl)]
    exact unsolWaitOnFragment_confirm hq hp hd resp isNull retries dl hmode

end Confirm

/-- the inputs allowed between the two copies of the request: clock ticks, CONFIRM fragments (from anyone, to
    any address), and frames the transport layer does not deliver at all -/
def Between (env : OEnv) : OInput → Prop
  | .tick _ => True
  | .rx src dst data =>
    (∃ c o r, parseRequest data = .request c 0 o r) ∨ (∀ s, C04.rxAccept env s src dst data = none)
  | _ => False

/-- the task died in this step, or the memory of the request is intact -/
def StepKeep (seq : Nat) (data : List Nat) (resp : Option Resp) (bytes : List Nat) (x : OState × List OOut) : Prop :=
  (OOut.panic ∈ x.2 ∧ x.1.mode = .dead) ∨ ER seq data resp bytes x.1

theorem keep_of_finW {seq : Nat} {data : List Nat} {resp : Option Resp} {bytes : List Nat} {s : OState}
    (h0 : ER seq data resp bytes s) {b x : Acc} (e1 : b.1.lastReq = s.lastReq) (e2 : b.1.solBuf = s.solBuf)
    (h : FinW b x) : StepKeep seq data resp bytes x := by
  rcases h with h | ⟨hl, hb, hd, hp, hmf⟩
  · exact .inl h
  · right
    obtain ⟨ser, hs, hf⟩ := h0.lastReq
    refine ⟨⟨ser, (hl.trans e1).trans hs, hf⟩, hd, hp, ?_, hmf⟩
    intro r e
    rw [hb, e2]; exact h0.buf r e

/-- **Lemma B**: a step between the two copies keeps `ER` (or the task dies in it) -/
theorem between_step (env : OEnv) (s : OState) (inp : OInput) (hb : Between env inp) {seq : Nat} {data : List Nat}
    {resp : Option Resp} {bytes : List Nat} (h : ER seq data resp bytes s) :
    StepKeep seq data resp bytes (Outstation.step env s inp) := by
  cases inp with
  | tick ms =>
    rw [Skel.step_tick_eq env s ms h.mode.1]
    exact keep_of_finW h rfl rfl
      ((dispatch_tick (b := ({ s with now := s.now + ms }, [])) h.pending h.deferred h.mode).settle 8)
  | rx src dst data' =>
    rw [C04.step_rx]
    cases hacc : C04.rxAccept env s src dst data' with
    | none => exact .inr h
    | some fc =>
      dsimp only
      rcases hb with ⟨c, o, r, hq⟩ | hnone
      · have hq' : parseRequest fc.data = .request c 0 o r := by rw [(C04.rxAccept_id hacc).2.1]; exact hq
        exact keep_of_finW h rfl rfl
          ((dispatch_confirm hq' (b := ({ s with frameId := (s.frameId + 1) % 4294967296, pending := some fc }, []))
            rfl h.deferred h.mode).settle 8)
      · rw [hnone s] at hacc; cases hacc
  | txn items => exact hb.elim
  | add t idx cls => exact hb.elim
  | cut => exact hb.elim
  | setScript g => exact hb.elim

/-! ## 8. Along a run -/

section Run
variable (cfg : OCfg) (evMax : Nat) (env : OEnv) (inputs : List OInput)

/-- the state before input `n` of the run from construction -/
abbrev S (n : Nat) : OState := C04.stateAt env (Outstation.start cfg evMax).1 inputs n

theorem start_cfg : (Outstation.start cfg evMax).1.cfg = cfg := by
  have := (Skel2.start_reach2 cfg evMax).base.1
  simp only [Skel.kB, Prod.mk.injEq] at this
  exact this.1

theorem S_cfg (n : Nat) (h : n ≤ inputs.length) : (S cfg evMax env inputs n).cfg = cfg := by
  rw [S, C04.stateAt_cfg env _ inputs n h]; exact start_cfg cfg evMax

theorem S_defInv (n : Nat) (h : n ≤ inputs.length) : DefInv (S cfg evMax env inputs n) := by
  induction n with
  | zero => exact defInv_start cfg evMax
  | succ n ih =>
    rw [S, C04.stateAt_succ env _ inputs n (by omega)]
    exact defInv_step env _ _ (ih (by omega))

theorem S_lrInv (n : Nat) (h : n ≤ inputs.length) : LRInv (S cfg evMax env inputs n) := by
  induction n with
  | zero => exact lrInv_start cfg evMax
  | succ n ih =>
    rw [S, C04.stateAt_succ env _ inputs n (by omega)]
    exact lrInv_step env _ _ (ih (by omega))

theorem S_dead_mono (a b : Nat) (hab : a ≤ b) (hb : b ≤ inputs.length)
    (h : C04.isDead (S cfg evMax env inputs a) = true) : C04.isDead (S cfg evMax env inputs b) = true := by
  induction b with
  | zero =>
    have : a = 0 := by omega
    subst this; exact h
  | succ b ih =>
    by_cases hc : a = b + 1
    · subst hc; exact h
    · exact C04.stateAt_dead_succ env _ inputs b (by omega) (ih (by omega) (by omega))

/-- the step taken at position `n` -/
theorem S_step (n : Nat) (h : n < inputs.length) :
    Outstation.step env (S cfg evMax env inputs n) inputs[n] =
      (S cfg evMax env inputs (n + 1), C04.outsAt env (Outstation.start cfg evMax).1 inputs n h) := by
  rw [S, S, C04.stateAt_succ env _ inputs n h]
  rfl

end Run

/-! ## 9. The theorem -/

open C04 in
/-- **C05 (trace level) `repeat_never_executes_twice`**.  In EVERY run of the outstation from construction
    (`Outstation.start cfg evMax`, any input list, any configuration, any transmit buffer sizes): let inputs `i < j`
    both deliver the byte-identical request fragment `data` — a unicast frame for this outstation (`Unicast`:
    destination its address or the enabled self address, valid source, neither empty nor longer than the receive
    buffer) from the accepted master, which parses as a request with function code other than CONFIRM (0) and
    READ (1) and whose OBJECTS PARSE (`.ok hs`; finding D31, `repeat_malformed_reanswered_counterexample`: a
    repeated request whose objects do not parse is answered afresh, so that case is excluded here) — and let every
    input strictly between them be a clock tick, a CONFIRM fragment (solicited or unsolicited, any sequence number,
    from anyone, to any address) or a frame the transport layer does not deliver (`Between`).  Then

    1. step `j` fires NO executing callback (`isExec`: control / write / freeze / time / restart, begin/end
       fragment): the request is not executed a second time; and
    2. the solicited responses step `j` transmits (`solTx`: the transmitted application fragments with function
       octet 0x81, with their destination) are EXACTLY those step `i` transmitted — the same octets to the same
       address, and none at all if the request has no response (functions 6, 8, 10, 12) — unless the task died
       on the way: `OOut.panic` is among the outputs of some step `k` with `i ≤ k ≤ j` (with the opaque `Db`
       the IIN computation may fail at any time: defect D3).  If the task was dead already before step `i`, both
       steps output nothing, so the equation holds.

    The state the session is in at step `i` is arbitrary (idle, waiting for the confirm of any fragment of a
    solicited series, waiting for an unsolicited confirm with or without a deferred READ), as is the state at step
    `j` (idle, the confirm wait the response itself opened, an unsolicited confirm wait started in between);
    the request at step `i` may itself be new or a retransmission. -/
theorem repeat_never_executes_twice (cfg : OCfg) (evMax : Nat) (env : OEnv) (inputs : List OInput)
    (i j : Nat) (hij : i < j) (hj : j < inputs.length)
    (src dst : Nat) (data : List Nat) (ctrl : AppCtrl) (func : Nat) (hs : List ObjHdr) (raw : List Nat)
    (hi : inputs[i]'(Nat.lt_trans hij hj) = .rx src dst data) (hjj : inputs[j] = .rx src dst data)
    (hq : parseRequest data = .request ctrl func (.ok hs) raw) (hf0 : func ≠ 0) (hf1 : func ≠ 1)
    (hu : Unicast env src dst data) (hm : cfg.anymaster = true ∨ src = cfg.master)
    (hbetween : ∀ (k : Nat) (hk : k < inputs.length), i < k → k < j → Between env inputs[k]) :
    (∀ o ∈ outsAt env (Outstation.start cfg evMax).1 inputs j hj, isExec o = false) ∧
    (solTx (outsAt env (Outstation.start cfg evMax).1 inputs j hj) =
        solTx (outsAt env (Outstation.start cfg evMax).1 inputs i (Nat.lt_trans hij hj)) ∨
      ∃ (k : Nat) (hk : k < inputs.length), i ≤ k ∧ k ≤ j ∧
        OOut.panic ∈ outsAt env (Outstation.start cfg evMax).1 inputs k hk) := by
  have hil : i < inputs.length := Nat.lt_trans hij hj
  have stepI := S_step cfg evMax env inputs i hil
  have stepJ := S_step cfg evMax env inputs j hj
  rw [hi] at stepI
  rw [hjj] at stepJ
  have deadJ : ∀ a, a ≤ j → isDead (S cfg evMax env inputs a) = true →
      outsAt env (Outstation.start cfg evMax).1 inputs j hj = [] := fun a ha hd =>
    outsAt_dead env _ inputs j hj (S_dead_mono cfg evMax env inputs a j ha (by omega) hd)
  by_cases hdi : isDead (S cfg evMax env inputs i) = true
  · have e1 := deadJ i (by omega) hdi
    have e2 := outsAt_dead env _ inputs i hil hdi
    rw [e1, e2]
    exact ⟨by simp, .inl rfl⟩
  · have halive : (S cfg evMax env inputs i).mode ≠ .dead := fun e => hdi ((isDead_iff _).2 e)
    have hA := nr_step env (S cfg evMax env inputs i) src dst data hu hq hf0 hf1
      (by rw [S_cfg cfg evMax env inputs i (by omega)]; exact hm) halive
      (S_defInv cfg evMax env inputs i (by omega)) (S_lrInv cfg evMax env inputs i (by omega))
    rw [stepI] at hA
    rcases hA with ⟨hpan, hdead⟩ | ⟨resp, bytes, hER, htx, -⟩
    · have e1 := deadJ (i + 1) (by omega) ((isDead_iff _).2 hdead)
      exact ⟨by rw [e1]; simp, .inr ⟨i, hil, Nat.le_refl i, by omega, hpan⟩⟩
    · have key : ∀ k, i + 1 ≤ k → k ≤ j → ER ctrl.seq data resp bytes (S cfg evMax env inputs k) ∨
          (isDead (S cfg evMax env inputs k) = true ∧ ∃ (k' : Nat) (hk' : k' < inputs.length), i ≤ k' ∧ k' < k ∧
            OOut.panic ∈ outsAt env (Outstation.start cfg evMax).1 inputs k' hk') := by
        have aux : ∀ d k, k = i + 1 + d → k ≤ j → ER ctrl.seq data resp bytes (S cfg evMax env inputs k) ∨
            (isDead (S cfg evMax env inputs k) = true ∧ ∃ (k' : Nat) (hk' : k' < inputs.length), i ≤ k' ∧ k' < k ∧
              OOut.panic ∈ outsAt env (Outstation.start cfg evMax).1 inputs k' hk') := by
          intro d
          induction d with
          | zero => intro k hk _; subst hk; exact .inl hER
          | succ d ih =>
            intro k1 hk hk2
            obtain ⟨k, rfl⟩ : ∃ k, k1 = k + 1 := ⟨i + 1 + d, by omega⟩
            have hkl : k < inputs.length := by omega
            rcases ih k (by omega) (by omega) with h | ⟨hd, k', hk', h1, h2, h3⟩
            · have hb := between_step env (S cfg evMax env inputs k) inputs[k] (hbetween k hkl (by omega) (by omega)) h
              rw [S_step cfg evMax env inputs k hkl] at hb
              rcases hb with ⟨hpan, hdead⟩ | h'
              · exact .inr ⟨(isDead_iff _).2 hdead, k, hkl, by omega, by omega, hpan⟩
              · exact .inl h'
            · exact .inr ⟨stateAt_dead_succ env _ inputs k hkl hd, k', hk', h1, by omega, h3⟩
        intro k hk1 hk2
        exact aux (k - (i + 1)) k (by omega) hk2
      rcases key j (by omega) (Nat.le_refl j) with hERj | ⟨hd, k', hk', h1, h2, h3⟩
      · have hB := nr_step env (S cfg evMax env inputs j) src dst data hu hq hf0 hf1
          (by rw [S_cfg cfg evMax env inputs j (by omega)]; exact hm) hERj.mode.1
          (S_defInv cfg evMax env inputs j (by omega)) (S_lrInv cfg evMax env inputs j (by omega))
        rw [stepJ] at hB
        constructor
        · obtain ⟨ser, hl, _⟩ := hERj.lastReq
          have hacc := rxAccept_unicast hu (S cfg evMax env inputs j) hERj.mode.1
          have hne := repeat_nonread_not_executed env (S cfg evMax env inputs j) src dst data _ hacc hq hERj.deferred
            ⟨hl, rfl, rfl, hf0, hf1, rfl, hs, rfl⟩
          rw [stepJ] at hne
          exact hne
        · rcases hB with ⟨hpan, _⟩ | ⟨resp', bytes', _, htx', hrep⟩
          · exact .inr ⟨j, hj, by omega, Nat.le_refl j, hpan⟩
          · left
            obtain ⟨e1, e2⟩ := hrep resp bytes hERj
            have htx1 : solTx (outsAt env (Outstation.start cfg evMax).1 inputs j hj) = expTx src resp' bytes' := htx'
            have htx0 : solTx (outsAt env (Outstation.start cfg evMax).1 inputs i hil) = expTx src resp bytes := htx
            rw [htx1, htx0, e1]
            cases resp with
            | none => rfl
            | some r => rw [e2 r rfl]
      · have e1 := outsAt_dead env _ inputs j hj hd
        exact ⟨by rw [e1]; simp, .inr ⟨k', hk', h1, by omega, h3⟩⟩

/-- along every run from construction a READ is deferred only while the task waits for an unsolicited confirm
    (or the task is dead) -/
theorem deferred_only_in_unsolWait (cfg : OCfg) (evMax : Nat) (env : OEnv) (inputs : List OInput) (n : Nat)
    (h : n ≤ inputs.length) : DefInv (C04.stateAt env (Outstation.start cfg evMax).1 inputs n) :=
  S_defInv cfg evMax env inputs n h

/-- along every run from construction: if the stored request waits on a NON-final fragment it is a READ, and a
    deferred request is a READ -/
theorem nonfinal_wait_is_read (cfg : OCfg) (evMax : Nat) (env : OEnv) (inputs : List OInput) (n : Nat)
    (h : n ≤ inputs.length) : LRInv (C04.stateAt env (Outstation.start cfg evMax).1 inputs n) :=
  S_lrInv cfg evMax env inputs n h

/-! ## 10. Examples: the hypotheses are satisfiable by concrete, non-trivial instances -/

/-- DELAY MEASURE seq 0, 10 ms, a (stray) solicited CONFIRM seq 0, DELAY MEASURE seq 0 again -/
def exInputs : List OInput := [.rx 1 1024 [0xC0, 23], .tick 10, .rx 1 1024 [0xC0, 0], .rx 1 1024 [0xC0, 23]]

/-- with unsolicited responses enabled the task starts in the confirm wait of the null unsolicited response: the
    request is handled THERE; then 10 ms, the unsolicited CONFIRM (the series ends, back to idle), 6 s, and the
    request again, handled from idle -/
def exInputsU : List OInput :=
  [.rx 1 1024 [0xC0, 23], .tick 10, .rx 1 1024 [0xD0, 0], .tick 6000, .rx 1 1024 [0xC0, 23]]

/-- WRITE absolute time (g50v1) seq 1, 5 ms, the same octets again -/
def exInputsW : List OInput :=
  [.rx 1 1024 [0xC1, 2, 50, 1, 7, 1, 1, 2, 3, 4, 5, 6], .tick 5, .rx 1 1024 [0xC1, 2, 50, 1, 7, 1, 1, 2, 3, 4, 5, 6]]

-- BEGIN EVAL (concrete evaluation of the model, including the current `Db` component)
/-- the three runs evaluated: same solicited octets in the first and the last step, nothing executed by the repeat -/
theorem repeat_never_executes_twice_examples :
    (Outstation.run {} (Outstation.start {} 10).1 exInputs).2.map solTx =
      [[(1, [192, 129, 128, 0, 52, 2, 7, 1, 0, 0])], [], [], [(1, [192, 129, 128, 0, 52, 2, 7, 1, 0, 0])]] ∧
    (Outstation.run {} (Outstation.start { unsolicited := true } 10).1 exInputsU).2.map solTx =
      [[(1, [192, 129, 128, 0, 52, 2, 7, 1, 0, 0])], [], [], [], [(1, [192, 129, 128, 0, 52, 2, 7, 1, 0, 0])]] ∧
    (Outstation.run {} (Outstation.start {} 10).1 exInputsW).2.map solTx =
      [[(1, [193, 129, 128, 0])], [], [(1, [193, 129, 128, 0])]] ∧
    (Outstation.run {} (Outstation.start {} 10).1 exInputsW).2.map (fun l => (l.filter C04.isExec).length) = [1, 0, 0] := by
  decide +kernel
-- END EVAL

example : parseRequest [0xC0, 23] = .request (AppCtrl.ofNat 0xC0) 23 (.ok []) [] := by rfl
example : Unicast {} 1 1024 [0xC0, 23] := ⟨.inl rfl, by decide, by decide, by decide⟩
example : Between {} (.rx 1 1024 [0xC0, 0]) := .inl ⟨_, _, _, rfl⟩
example : Between {} (.rx 1 1024 [0xD0, 0]) := .inl ⟨_, _, _, rfl⟩
example : Between {} (.rx 1 77 [0xC0, 1]) := .inr (fun s => by unfold C04.rxAccept; split <;> rfl)

-- `repeat_never_executes_twice` applies to `exInputs` (steps 0 and 3) …
example := repeat_never_executes_twice {} 10 {} exInputs 0 3 (by decide) (by decide) 1 1024 [0xC0, 23]
  (AppCtrl.ofNat 0xC0) 23 [] [] rfl rfl (by rfl) (by decide) (by decide)
  ⟨.inl rfl, by decide, by decide, by decide⟩ (.inr rfl)
  (by
    intro k hk h1 h2
    have : k = 1 ∨ k = 2 := by omega
    rcases this with rfl | rfl
    · exact trivial
    · exact .inl ⟨_, _, _, rfl⟩)

-- … and to `exInputsU` (steps 0 and 4; the request is first handled in the unsolicited confirm wait)
example := repeat_never_executes_twice { unsolicited := true } 10 {} exInputsU 0 4 (by decide) (by decide) 1 1024 [0xC0, 23]
  (AppCtrl.ofNat 0xC0) 23 [] [] rfl rfl (by rfl) (by decide) (by decide)
  ⟨.inl rfl, by decide, by decide, by decide⟩ (.inr rfl)
  (by
    intro k hk h1 h2
    have : k = 1 ∨ k = 2 ∨ k = 3 := by omega
    rcases this with rfl | rfl | rfl
    · exact trivial
    · exact .inl ⟨_, _, _, rfl⟩
    · exact trivial)

/-- a state that recorded RECORD-less request `C0 0C` (function 12, no response) as its last request -/
def exER : OState := { OState.init {} 0 with lastReq := some ⟨0, [0xC0, 12], none, none⟩ }

theorem exER_er : ER 0 [0xC0, 12] none [] exER :=
  ⟨⟨none, rfl, fun sr e => (by cases e)⟩, rfl, rfl, fun r e => (by cases e),
    ⟨fun e => (by cases e), fun sr dl c e => (by cases e)⟩⟩

-- `between_step` applies to `exER` and a clock tick / a CONFIRM; `nr_step` to `exER` and the request `C0 0C`
example := between_step {} exER (.tick 10) trivial exER_er
example := between_step {} exER (.rx 1 1024 [0xC0, 0]) (.inl ⟨_, _, _, rfl⟩) exER_er
example := nr_step {} exER 1 1024 [0xC0, 12] (ctrl := AppCtrl.ofNat 0xC0) (func := 12) (hs := []) (raw := [])
  ⟨.inl rfl, by decide, by decide, by decide⟩ (by rfl) (by decide) (by decide) (.inr rfl)
  (fun e => (by cases e)) (.inr (.inl rfl))
  ⟨fun lr sr e es => (by cases e; cases es), fun d e => (by cases e)⟩

end Dnp3.Proofs.C05T
