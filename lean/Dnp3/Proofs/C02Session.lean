import Dnp3.Model.Outstation
import Dnp3.Props.DbComponent
import Dnp3.Proofs.C02Static
/-!
# C02 — the two session models around one single-fragment READ response

Outstation: `handleRequestFromIdle` on a new READ transmits `[control, 0x81, iin1, iin2] ++` the
octets `Db.writeResponse` produced (`read_from_idle`).  Master: `onFragment` in `waitRead` on such a
fragment (matching sequence number, FIR, FIN, no CON) calls `deliver` with the parsed headers and
finishes the task (`onFragment_read_final`).
-/
namespace Dnp3.Proofs.C02Session
open Dnp3 Dnp3.DbM

theorem writeAt_hdr (buf hdr bytes : List Nat) (hl : hdr.length = 4) (hb : 4 + bytes.length ≤ buf.length) :
    (writeAt (writeAt buf 4 bytes) 0 hdr).take (max 4 (4 + bytes.length)) = hdr ++ bytes := by
  unfold writeAt
  have h1 : (buf.take 4).length = 4 := by rw [List.length_take]; omega
  simp only [List.take_zero, List.nil_append, Nat.zero_add, hl]
  rw [List.append_assoc, List.drop_left' h1]
  have h2 : max 4 (4 + bytes.length) = (hdr ++ bytes).length := by
    rw [List.length_append, hl]; omega
  rw [h2, ← List.append_assoc, List.take_left' rfl]

theorem iin2_low (p q : Prop) [Decidable p] [Decidable q] :
    ((if p then 8 else 0) ||| (if q then 0x20 else 0)) &&& 7 = 0 := by
  by_cases hp : p <;> by_cases hq : q <;> simp [hp, hq]

theorem getResponseIin_frame (s s1 : OState) (i1 i2 : Nat) (h : getResponseIin s = some (s1, i1, i2)) :
    s1.solBuf = s.solBuf ∧ s1.db = s.db ∧ s1.cfg = s.cfg ∧ i2 &&& 7 = 0 ∧
    (s.lastBroadcast = none → s1.lastBroadcast = none) := by
  unfold getResponseIin at h
  cases hu : s.db.unwrittenClasses with
  | none => rw [hu] at h; cases h
  | some c =>
    obtain ⟨c1, c2, c3⟩ := c
    rw [hu] at h
    simp only [] at h
    cases hb : s.lastBroadcast with
    | none =>
      rw [hb] at h
      simp only [Option.some.injEq, Prod.mk.injEq] at h
      obtain ⟨rfl, _, rfl⟩ := h
      exact ⟨rfl, rfl, rfl, iin2_low _ _, fun _ => hb⟩
    | some m =>
      rw [hb] at h
      simp only [Option.some.injEq, Prod.mk.injEq] at h
      obtain ⟨rfl, _, rfl⟩ := h
      refine ⟨?_, ?_, ?_, iin2_low _ _, fun h => by cases h⟩
      · split <;> rfl
      · split <;> rfl
      · split <;> rfl

/-- a READ (new, or a repeat of the last request: both take the same path) handled from idle -/
theorem read_from_idle (a : Acc) (f : Frag) (ctrl : AppCtrl) (func : Nat) (objects : Except Nat (List ObjHdr))
    (raw : List Nat) (hs : List ObjHdr)
    (hcl : classify a.1 f ctrl func objects = .newRead hs ∨ ∃ x, classify a.1 f ctrl func objects = .repeatRead x hs)
    (hbuf : a.1.cfg.sol ≤ a.1.solBuf.length) (h4 : 4 ≤ a.1.cfg.sol)
    (a' : Acc) (series : Option Series)
    (h : handleRequestFromIdle a f ctrl func objects raw = some (a', series)) :
    ∃ con i1 i2, i2 &&& 7 = 0 ∧
      a'.2 = a.2 ++ [.tx f.src ([(⟨true, ((dbSelectAll a.1.db hs).1.writeResponse (a.1.cfg.sol - 4)).2.2.2, con, false,
          ctrl.seq⟩ : AppCtrl).toNat, 0x81, i1, (dbSelectAll a.1.db hs).2 ||| i2] ++
        ((dbSelectAll a.1.db hs).1.writeResponse (a.1.cfg.sol - 4)).2.1)] ∧
      a'.1.db = ((dbSelectAll a.1.db hs).1.writeResponse (a.1.cfg.sol - 4)).1 ∧
      (a.1.lastBroadcast = none → con = (((dbSelectAll a.1.db hs).1.writeResponse (a.1.cfg.sol - 4)).2.2.1 ||
          !((dbSelectAll a.1.db hs).1.writeResponse (a.1.cfg.sol - 4)).2.2.2)) := by
  unfold handleRequestFromIdle at h
  have h' : (match (some ((let (db, iin2) := dbSelectAll a.1.db hs
        let (s, r, series) := formatReadResponse { a.1 with db := db } true ctrl.seq iin2
        ((s, a.2), some ⟨ctrl.seq, f.data, some r, series⟩)) : Acc × Option LastReq) : Option (Acc × Option LastReq)) with
      | none => none
      | some (a, none) => some (a, none)
      | some (a, some lr) =>
        match lr.response with
        | none => some (({ a.1 with lastReq := some lr }, a.2), lr.series)
        | some r =>
          match writeSolicited a f.src r with
          | none => none
          | some (a, r) =>
            let series := if r.ctrl.con ∧ lr.series.isNone then some ⟨r.ctrl.seq, true⟩ else lr.series
            some (({ a.1 with lastReq := some { lr with response := some r, series := series } }, a.2), series)) =
      some (a', series) := by
    rcases hcl with hcl | ⟨x, hcl⟩ <;> (rw [hcl] at h; exact h)
  clear h hcl
  have h := h'
  clear h'
  simp only [formatReadResponse] at h
  generalize hsel : dbSelectAll a.1.db hs = sel at h ⊢
  obtain ⟨db1, iin2⟩ := sel
  simp only [] at h ⊢
  have hcapacity := (Dnp3.Props.Db.response_within_capacity db1 (a.1.cfg.sol - 4)).1
  generalize hw : db1.writeResponse (a.1.cfg.sol - 4) = w at h hcapacity ⊢
  obtain ⟨db2, bytes, hasEv, complete⟩ := w
  simp only [writeSolicited] at h hcapacity ⊢
  split at h
  · cases h
  · rename_i a2 r heq
    split at heq
    · cases heq
    · rename_i s1 i1 i2 hg
      simp only [Option.some.injEq, Prod.mk.injEq] at heq h
      obtain ⟨rfl, rfl⟩ := heq
      obtain ⟨rfl, rfl⟩ := h
      obtain ⟨f1, f2, f3, f4, f5⟩ := getResponseIin_frame _ _ _ _ hg
      simp only [] at f1 f2 f3 f5
      have hlen : 4 + bytes.length ≤ a.1.solBuf.length := by omega
      refine ⟨if s1.lastBroadcast = some 1 then true else (hasEv || !complete), 0 ||| i1, i2, f4, ?_, ?_, ?_⟩
      · by_cases hb : s1.lastBroadcast = some 1
        · simp only [hb, if_true, repeatSolicited, emit, respHeader, f1]
          rw [writeAt_hdr _ _ _ rfl hlen]
        · simp only [hb, if_false, repeatSolicited, emit, respHeader, f1]
          rw [writeAt_hdr _ _ _ rfl hlen]
      · by_cases hb : s1.lastBroadcast = some 1 <;> simp only [hb, if_true, if_false, repeatSolicited, emit] <;> exact f2
      · intro hnb
        have := f5 hnb
        simp [this]

-- ------------------------------------------------------------------------------------------
-- class 0
-- ------------------------------------------------------------------------------------------

def class0Hdr : ObjHdr := ⟨60, 1, 0x06, 0, 0, []⟩

theorem selectStatic_none_iin (db : Db) (t : PtType) (hroom : db.queue.length ≠ db.selCap) :
    (db.selectStatic t none none).2 = 0 := by
  unfold Db.selectStatic
  simp only [DbProofs.Db.getMutMap_eq', DbProofs.Db.setMutMap_eq']
  cases fullRange (db.map t) with
  | none => rfl
  | some ab =>
    obtain ⟨a, b⟩ := ab
    simp only []
    unfold Db.pushSel
    have hq : (db.setMap t (snapshot a b (db.map t))).queue = db.queue := rfl
    have hc : (db.setMap t (snapshot a b (db.map t))).selCap = db.selCap := rfl
    rw [hq, hc, if_neg hroom]

/-- one step of `select_class_zero` with room in the queue: no IIN2 bit, at most one entry more -/
theorem czStep_room (p : Db × Nat) (t : PtType) (hroom : p.1.queue.length ≠ p.1.selCap) (h0 : p.2 = 0) :
    (C02Static.czStep p t).2 = 0 ∧ (C02Static.czStep p t).1.selCap = p.1.selCap ∧
    (C02Static.czStep p t).1.queue.length ≤ p.1.queue.length + 1 := by
  unfold C02Static.czStep
  split
  · refine ⟨?_, (C02Static.selectStatic_none_frame p.1 t hroom).1, C02Static.selectStatic_none_qlen p.1 t hroom⟩
    simp only [h0, selectStatic_none_iin p.1 t hroom]
    rfl
  · exact ⟨h0, rfl, Nat.le_succ _⟩

/-- `hempty`: the database holds binary and analog inputs only (two selections at most) -/
theorem selectClass0_iin (db : Db) (hq : db.queue = []) (hcap : 2 ≤ db.selCap)
    (hempty : ∀ t, t ≠ .binary → t ≠ .analog → db.map t = []) : db.selectClass0.2 = 0 := by
  rw [C02Static.selectClass0_two db hempty]
  have hroom : db.queue.length ≠ db.selCap := by rw [hq]; simp only [List.length_nil]; omega
  obtain ⟨a1, a2, a3⟩ := czStep_room (db, 0) .binary hroom rfl
  simp only [hq, List.length_nil] at a2 a3
  exact (czStep_room _ .analog (by omega) a1).1

/-- `DatabaseHandle::select` for the single header g60v1 / 0x06 is `select_class_zero` -/
theorem dbSelectAll_class0 (db : Db) :
    (dbSelectAll db [class0Hdr]).1 = db.selectClass0.1 ∧ (dbSelectAll db [class0Hdr]).2 = db.selectClass0.2 ||| 0 := by
  have hc : (toReadHdr class0Hdr).classify = .class0 := by decide
  simp only [dbSelectAll, Db.select, hc]
  exact ⟨trivial, trivial⟩

-- ------------------------------------------------------------------------------------------
-- the master on the single-fragment answer
-- ------------------------------------------------------------------------------------------

theorem ofNat_toNat : ∀ (fir fin con uns : Bool) (seq : Fin 16),
    AppCtrl.ofNat (AppCtrl.toNat ⟨fir, fin, con, uns, seq.val⟩) = ⟨fir, fin, con, uns, seq.val⟩ := by
  decide

theorem getAssoc_map_isSome (f : Master.Assoc → Master.Assoc) (hf : ∀ y, (f y).addr = y.addr) (d : Nat) :
    ∀ l : List Master.Assoc, ((l.map f).find? (·.addr = d)).isSome = (l.find? (·.addr = d)).isSome := by
  intro l
  induction l with
  | nil => rfl
  | cons y ys ih =>
    simp only [List.map_cons, List.find?_cons, hf]
    split
    · rfl
    · exact ih

theorem notify_getAssoc (a : Master.Acc) (addr d : Nat) :
    ((Master.notifyLinkActivity a addr).1.getAssoc d).isSome = (a.1.getAssoc d).isSome := by
  unfold Master.notifyLinkActivity Master.modAssoc Master.MState.getAssoc
  simp only []
  exact getAssoc_map_isSome (fun y => if y.addr = addr then y.onLinkActivity a.1.now else y)
    (fun y => by split <;> rfl) d a.1.assocs

/-- the first and only fragment of the answer to the READ in flight: FIR, FIN, no CON, matching
    sequence number, acceptable IIN2, parsable objects -/
theorem onFragment_read_final (a : Master.Acc) (dest : Nat) (t : Master.ReadTask) (seq dl : Nat)
    (c i1 i2 : Nat) (objs : List Nat) (hs : List ObjHdr)
    (hmode : a.1.mode = .waitRead dest t seq true dl)
    (hassoc : (a.1.getAssoc dest).isSome = true)
    (hctrl : AppCtrl.ofNat c = ⟨true, true, false, false, seq⟩)
    (hi2 : i2 &&& 7 = 0)
    (hparse : Master.parseRespObjects objs.length objs = some hs) :
    Master.onFragment a dest ([c, 0x81, i1, i2] ++ objs) =
      .appDone (Master.finishRead
        (Master.deliver (Master.modAssoc (Master.notifyLinkActivity a dest) dest (·.processIin i1 i2))
          (Master.whoOf dest t) (Master.rtOf t) ⟨AppCtrl.ofNat c, false, i1, i2, objs, some hs⟩ hs)
        dest t (.ok seq)) dest t.taskType 1 (.ok seq) := by
  unfold Master.onFragment
  rw [hmode]
  have hp : Master.parseResponse ([c, 0x81, i1, i2] ++ objs) =
      some ⟨AppCtrl.ofNat c, false, i1, i2, objs, some hs⟩ := by
    simp [Master.parseResponse, hctrl, hparse]
  simp only [hp]
  have hv : Master.processReadResponse dest seq true ((Master.notifyLinkActivity a dest).1.getAssoc dest).isSome dest
      ⟨AppCtrl.ofNat c, false, i1, i2, objs, some hs⟩ = .accept false true := by
    rw [notify_getAssoc, hassoc]
    simp [Master.processReadResponse, hctrl, Master.badIin2, hi2]
  simp only [hv]
  simp [hctrl]

-- ------------------------------------------------------------------------------------------
-- what a READ response carries, in database terms
-- ------------------------------------------------------------------------------------------

theorem dbSelectAll_core (hs : List ObjHdr) : ∀ db : Db,
    (dbSelectAll db hs).1.events.map DbProofs.core = db.events.map DbProofs.core := by
  induction hs with
  | nil => intro db; rfl
  | cons h hs ih =>
    intro db
    have e : (dbSelectAll db (h :: hs)).1 = (dbSelectAll (db.select (toReadHdr h)).1 hs).1 := rfl
    rw [e, ih]
    exact (DbProofs.select_sel db (toReadHdr h)).1.map_eq DbProofs.core (fun _ _ hs => hs.core.1)

theorem dbSelectAll_sorted (hs : List ObjHdr) : ∀ db : Db, DbProofs.StaticSorted db →
    DbProofs.StaticSorted (dbSelectAll db hs).1 := by
  induction hs with
  | nil => intro db h; exact h
  | cons h hs ih =>
    intro db hsd
    have e : (dbSelectAll db (h :: hs)).1 = (dbSelectAll (db.select (toReadHdr h)).1 hs).1 := rfl
    rw [e]
    exact ih _ ((DbProofs.select_keys db (toReadHdr h)).sorted hsd)

theorem dbSelectAll_keys (hs : List ObjHdr) : ∀ db : Db, DbProofs.KeysSame db (dbSelectAll db hs).1 := by
  induction hs with
  | nil => intro db; exact DbProofs.KeysSame.refl db
  | cons h hs ih =>
    intro db
    have e : (dbSelectAll db (h :: hs)).1 = (dbSelectAll (db.select (toReadHdr h)).1 hs).1 := rfl
    rw [e]
    exact (DbProofs.select_keys db (toReadHdr h)).trans (ih _)

/-- a READ's selections add no point: a type without points still has none -/
theorem dbSelectAll_empty (hs : List ObjHdr) (db : Db) (t : PtType) (h : db.map t = []) :
    (dbSelectAll db hs).1.map t = [] :=
  C02Static.empty_of_keys (dbSelectAll_keys hs db) h

/-- an object a queue entry stands for is an existing point of the matching type (whatever the type)
    with its `selected` cell, or the dead-band of an existing analog input -/
theorem mem_itemObjs_ty (db : Db) (it : SelItem) (o : SObj) (h : o ∈ itemObjs db it) :
    (∃ t, o.g = staticGroup t ∧ ∃ p ∈ db.map t, o.idx = p.1 ∧ o.m = p.2.selected) ∨
    (o.g = 34 ∧ ∃ p ∈ db.ans, o.idx = p.1 ∧ o.m = { value := p.2.deadband, flags := 0 }) := by
  rw [DbProofs.itemObjs_eq] at h
  obtain ⟨p, hp, rfl⟩ := List.mem_map.mp h
  have hp := (List.mem_filter.mp hp).1
  unfold DbProofs.mapOf at hp
  unfold DbProofs.objOf
  cases hk : it.kind with
  | typed k var =>
    rw [hk] at hp
    exact .inl ⟨k, rfl, p, hp, rfl, rfl⟩
  | deadband var =>
    rw [hk] at hp
    exact .inr ⟨rfl, p, hp, rfl, rfl⟩

/-- an object a queue entry stands for is an existing point of the matching type with its
    `selected` cell (for a dead-band object: an existing analog input), in a database that holds binary
    and analog inputs only (`hempty`; `mem_itemObjs_ty` is the statement for all types) -/
theorem mem_itemObjs (db : Db) (hempty : ∀ t, t ≠ .binary → t ≠ .analog → db.map t = [])
    (it : SelItem) (o : SObj) (h : o ∈ itemObjs db it) :
    (o.g = 1 ∧ ∃ p ∈ db.bins, o.idx = p.1 ∧ o.m = p.2.selected) ∨
    (o.g = 30 ∧ ∃ p ∈ db.ans, o.idx = p.1 ∧ o.m = p.2.selected) ∨
    (o.g = 34 ∧ ∃ p ∈ db.ans, o.idx = p.1) := by
  rcases mem_itemObjs_ty db it o h with ⟨t, hg, p, hp, h1, h2⟩ | ⟨hg, p, hp, h1, _⟩
  · by_cases hb : t = .binary
    · subst hb; exact .inl ⟨hg, p, hp, h1, h2⟩
    · by_cases ha : t = .analog
      · subst ha; exact .inr (.inl ⟨hg, p, hp, h1, h2⟩)
      · rw [hempty t hb ha] at hp; cases hp
  · exact .inr (.inr ⟨hg, p, hp, h1⟩)

theorem mem_writeStaticObjs (db : Db) (hs : DbProofs.StaticSorted db) (cap : Nat) (o : SObj)
    (h : o ∈ (DbProofs.writeStaticObjs db cap).flatten) : ∃ it ∈ db.queue, o ∈ itemObjs db it := by
  have h4 := (DbProofs.writeResponse_static db hs cap).2.2.2.1
  have : o ∈ DbProofs.pending db db.queue := by rw [← h4]; exact List.mem_append_left _ h
  unfold DbProofs.pending at this
  simp only [List.mem_flatten, List.mem_map] at this
  obtain ⟨l, ⟨it, hit, rfl⟩, ho⟩ := this
  exact ⟨it, hit, ho⟩

-- ------------------------------------------------------------------------------------------
-- unsolicited responses
-- ------------------------------------------------------------------------------------------

theorem getResponseIin_frame2 (s s1 : OState) (i1 i2 : Nat) (h : getResponseIin s = some (s1, i1, i2)) :
    s1.unsolBuf = s.unsolBuf := by
  unfold getResponseIin at h
  cases hu : s.db.unwrittenClasses with
  | none => rw [hu] at h; cases h
  | some c =>
    obtain ⟨c1, c2, c3⟩ := c
    rw [hu] at h
    simp only [] at h
    cases hb : s.lastBroadcast with
    | none =>
      rw [hb] at h
      simp only [Option.some.injEq, Prod.mk.injEq] at h
      obtain ⟨rfl, _, rfl⟩ := h
      rfl
    | some m =>
      rw [hb] at h
      simp only [Option.some.injEq, Prod.mk.injEq] at h
      obtain ⟨rfl, _, rfl⟩ := h
      split <;> rfl

theorem getResponseIin_frame3 (s s1 : OState) (i1 i2 : Nat) (h : getResponseIin s = some (s1, i1, i2)) :
    s1.db = s.db ∧ s1.cfg = s.cfg :=
  ⟨(getResponseIin_frame s s1 i1 i2 h).2.1, (getResponseIin_frame s s1 i1 i2 h).2.2.1⟩

theorem startUnsolSeries_tx (s : OState) (outs : List OOut) (r : Resp) (isNull : Bool) (buf bytes : List Nat) (a' : Acc)
    (hb : s.unsolBuf = writeAt buf 4 bytes) (hsz : r.size = 4 + bytes.length) (hlen : 4 + bytes.length ≤ buf.length)
    (h : startUnsolSeries (s, outs) r isNull = some a') :
    ∃ hdr4 : List Nat, hdr4.length = 4 ∧ ∃ seq,
      a'.2 = outs ++ [.tx s.cfg.master (hdr4 ++ bytes), .cb (.unsolWait seq)] ∧ a'.1.db = s.db := by
  unfold startUnsolSeries Dnp3.writeUnsolicited at h
  cases hg : getResponseIin s with
  | none => simp [hg] at h
  | some x =>
    obtain ⟨s1, i1, i2⟩ := x
    simp only [hg, Option.some.injEq] at h
    subst h
    have f1 := getResponseIin_frame2 s s1 i1 i2 hg
    obtain ⟨f2, f3⟩ := getResponseIin_frame3 s s1 i1 i2 hg
    refine ⟨respHeader { r with iin1 := r.iin1 ||| i1, iin2 := r.iin2 ||| i2 }, rfl, r.ctrl.seq, ?_, ?_⟩
    · simp only [repeatUnsolicited, emitCb, emit, f1, hb, hsz, f3, List.append_assoc, List.cons_append, List.nil_append]
      rw [writeAt_hdr _ _ _ rfl hlen]
    · exact f2

theorem unsol_from_ready (a a' : Acc) (dl : Option Nat) (hu : a.1.unsol = .ready dl)
    (hbuf : a.1.cfg.unsol ≤ a.1.unsolBuf.length) (h4 : 4 ≤ a.1.cfg.unsol)
    (h : checkUnsolicited a = some (.inl a')) :
    ∃ hdr4 : List Nat, hdr4.length = 4 ∧ ∃ seq,
      a'.2 = a.2 ++ [.tx a.1.cfg.master
        (hdr4 ++ (a.1.db.writeUnsolicited a.1.en1 a.1.en2 a.1.en3 (a.1.cfg.unsol - 4)).2.1), .cb (.unsolWait seq)] ∧
      a'.1.db = (a.1.db.writeUnsolicited a.1.en1 a.1.en2 a.1.en3 (a.1.cfg.unsol - 4)).1 := by
  unfold checkUnsolicited at h
  simp only [] at h
  have hcapacity := (Dnp3.Props.Db.response_within_capacity a.1.db (a.1.cfg.unsol - 4)).2 a.1.en1 a.1.en2 a.1.en3
  generalize a.1.db.writeUnsolicited a.1.en1 a.1.en2 a.1.en3 (a.1.cfg.unsol - 4) = w at h hcapacity ⊢
  obtain ⟨db2, bytes, count⟩ := w
  by_cases hc : (!a.1.cfg.unsolicited) = true
  · rw [if_pos hc] at h; simp at h
  rw [if_neg hc, hu] at h
  simp only [] at h hcapacity ⊢
  have tail : ∀ (s0 s0' : OState), s0'.unsolBuf = writeAt a.1.unsolBuf 4 bytes → s0'.db = db2 → s0'.cfg = a.1.cfg →
      (if (!(a.1.en1 || a.1.en2 || a.1.en3)) = true then some (Sum.inr (a, NextIdle.untilEvent))
      else
        if count = 0 then some (Sum.inr ((s0, a.2), NextIdle.untilEvent))
        else
          match startUnsolSeries (s0', a.2) (unsolHeader a.1.unsolSeq (4 + bytes.length)) false with
          | none => none
          | some a => some (Sum.inl a)) = some (Sum.inl a') →
      ∃ hdr4 : List Nat, hdr4.length = 4 ∧ ∃ seq,
        a'.2 = a.2 ++ [.tx a.1.cfg.master (hdr4 ++ bytes), .cb (.unsolWait seq)] ∧ a'.1.db = db2 := by
    intro s0 s0' e1 e2 e3 h
    by_cases he : (!(a.1.en1 || a.1.en2 || a.1.en3)) = true
    · rw [if_pos he] at h; simp at h
    rw [if_neg he] at h
    by_cases h0 : count = 0
    · rw [if_pos h0] at h; simp at h
    rw [if_neg h0] at h
    cases hst : startUnsolSeries (s0', a.2) (unsolHeader a.1.unsolSeq (4 + bytes.length)) false with
    | none => rw [hst] at h; simp at h
    | some y =>
      rw [hst] at h
      simp only [Option.some.injEq, Sum.inl.injEq] at h
      subst h
      have := startUnsolSeries_tx _ _ _ _ a.1.unsolBuf bytes y e1 rfl (by omega) hst
      rw [e2, e3] at this
      exact this
  cases dl with
  | none =>
    simp only [Bool.false_eq_true, if_false] at h
    refine tail _ _ ?_ ?_ ?_ h <;> rfl
  | some d =>
    by_cases hd : decide (a.1.now < d) = true
    · simp only [hd, if_true] at h; simp at h
    · simp only [hd, Bool.false_eq_true, if_false] at h
      refine tail _ _ ?_ ?_ ?_ h <;> rfl

end Dnp3.Proofs.C02Session
