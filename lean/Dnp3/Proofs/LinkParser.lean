import Dnp3.Model.LinkParser
/-!
# Proofs about the link CRC, frame encoder and parser (C06 helper lemmas)
-/
namespace Dnp3

/-! ## T1: CRC range -/

theorem crcTable_size : Gen.crcTable.size = 256 := by decide +kernel

theorem crcTable_lt_fin : ∀ i : Fin 256, Gen.crcTable.getD i.val 0 < 65536 := by
  decide +kernel

theorem crcTable_getD_lt (i : Nat) : Gen.crcTable.getD i 0 < 65536 := by
  by_cases h : i < 256
  · exact crcTable_lt_fin ⟨i, h⟩
  · have h2 : ¬ i < Gen.crcTable.size := by rw [crcTable_size]; exact h
    simp [Array.getD, h2]

theorem crcStepT_lt (acc b : Nat) (h : acc < 65536) : crcStepT acc b < 65536 := by
  unfold crcStepT
  have h1 := crcTable_getD_lt ((acc % 256) ^^^ b)
  have h2 : acc / 256 < 65536 := by omega
  exact Nat.xor_lt_two_pow (n := 16) h1 h2

theorem crcIncT_lt (acc : Nat) (bs : List Nat) (h : acc < 65536) : crcIncT acc bs < 65536 := by
  unfold crcIncT
  induction bs generalizing acc with
  | nil => simpa using h
  | cons b t ih => exact ih _ (crcStepT_lt acc b h)

example : crcIncT 0x3F0D [1, 2, 300] < 65536 := crcIncT_lt _ _ (by decide)

theorem calcCrc_lt (bs : List Nat) : calcCrc bs < 65536 := by
  unfold calcCrc
  exact Nat.xor_lt_two_pow (n := 16) (by decide) (crcIncT_lt 0 bs (by decide))

theorem calcCrc0564_lt (bs : List Nat) : calcCrc0564 bs < 65536 := by
  unfold calcCrc0564
  exact Nat.xor_lt_two_pow (n := 16) (by decide) (crcIncT_lt _ bs (by decide))

theorem le16_eq (x : Nat) : le16 x = [x % 256, (x / 256) % 256] := rfl

theorem rd16_le16 (x : Nat) (h : x < 65536) : rd16 (x % 256) ((x / 256) % 256) = x := by
  unfold rd16; omega

/-- the form asked for in the task statement -/
theorem rd16_le16' (x : Nat) (h : x < 65536) :
    (match le16 x with | [lo, hi] => rd16 lo hi | _ => 0) = x := by
  simp only [le16]; exact rd16_le16 x h

example : (match le16 0xABCD with | [lo, hi] => rd16 lo hi | _ => 0) = 0xABCD :=
  rd16_le16' _ (by decide)

theorem le16_rd16 (lo hi : Nat) (hl : lo < 256) (hh : hi < 256) : le16 (rd16 lo hi) = [lo, hi] := by
  unfold le16 rd16
  have h1 : (lo + 256 * hi) % 256 = lo := by omega
  have h2 : (lo + 256 * hi) / 256 % 256 = hi := by omega
  rw [h1, h2]

example : le16 (rd16 0xCD 0xAB) = [0xCD, 0xAB] := le16_rd16 _ _ (by decide) (by decide)

theorem rd16_lt (lo hi : Nat) (hl : lo < 256) (hh : hi < 256) : rd16 lo hi < 65536 := by
  unfold rd16; omega


/-! ## T2: encoder / body check round trip -/

theorem chunks16_nil (f : Nat) : chunks16 f [] = [] := by
  cases f <;> simp [chunks16]

theorem chunks16_fuel : ∀ (f1 f2 : Nat) (bs : List Nat), bs.length ≤ f1 → bs.length ≤ f2 →
    chunks16 f1 bs = chunks16 f2 bs := by
  intro f1
  induction f1 with
  | zero =>
    intro f2 bs h1 _
    have : bs = [] := List.length_eq_zero_iff.mp (by omega)
    subst this; simp [chunks16_nil]
  | succ f1 ih =>
    intro f2 bs h1 h2
    cases bs with
    | nil => simp [chunks16_nil]
    | cons b t =>
      cases f2 with
      | zero => simp at h2
      | succ f2 =>
        simp only [chunks16]
        congr 1
        apply ih
        · simp only [List.length_drop, List.length_cons] at *; omega
        · simp only [List.length_drop, List.length_cons] at *; omega

theorem encodeBody_nil : encodeBody [] = [] := by
  simp [encodeBody, blocks, chunks16]

theorem encodeBody_ne_nil (p : List Nat) (h : p ≠ []) :
    encodeBody p = encodeBlock (p.take 16) ++ encodeBody (p.drop 16) := by
  cases p with
  | nil => exact absurd rfl h
  | cons b t =>
    simp only [encodeBody, blocks, List.length_cons, chunks16, List.flatMap_cons]
    congr 2
    apply chunks16_fuel
    · simp only [List.length_drop, List.length_cons]; omega
    · exact Nat.le_refl _

theorem encodeBlock_length (b : List Nat) : (encodeBlock b).length = b.length + 2 := by
  simp [encodeBlock, le16]

theorem encodeBody_length : ∀ (n : Nat) (p : List Nat), p.length ≤ n →
    (encodeBody p).length = calcTrailerLength p.length := by
  intro n
  induction n with
  | zero =>
    intro p h
    have : p = [] := List.length_eq_zero_iff.mp (by omega)
    subst this; simp [encodeBody_nil, calcTrailerLength]
  | succ n ih =>
    intro p h
    by_cases hp : p = []
    · subst hp; simp [encodeBody_nil, calcTrailerLength]
    · have hl : 0 < p.length := List.length_pos_iff.mpr hp
      rw [encodeBody_ne_nil p hp, List.length_append, encodeBlock_length,
        ih (p.drop 16) (by simp only [List.length_drop]; omega)]
      simp only [List.length_take, List.length_drop, calcTrailerLength]
      split <;> split <;> omega

theorem encodeBody_length' (p : List Nat) : (encodeBody p).length = calcTrailerLength p.length :=
  encodeBody_length p.length p (Nat.le_refl _)



theorem encodeBody_eq_nil_iff (p : List Nat) : encodeBody p = [] ↔ p = [] := by
  constructor
  · intro h
    by_cases hp : p = []
    · exact hp
    · have hl : 0 < p.length := List.length_pos_iff.mpr hp
      have := encodeBody_length' p
      rw [h] at this
      simp only [List.length_nil, calcTrailerLength] at this
      split at this <;> omega
  · intro h; subst h; exact encodeBody_nil

/-- the first 18-octet chunk of an encoded body is exactly the first encoded block -/
theorem encodeBody_take18 (p : List Nat) (hp : p ≠ []) :
    (encodeBody p).take 18 = p.take 16 ++ le16 (calcCrc (p.take 16)) ∧
    (encodeBody p).drop 18 = encodeBody (p.drop 16) := by
  rw [encodeBody_ne_nil p hp]
  by_cases h16 : 16 ≤ p.length
  · have hl : (encodeBlock (p.take 16)).length = 18 := by
      rw [encodeBlock_length, List.length_take]; omega
    constructor
    · rw [List.take_left' hl]; rfl
    · rw [List.drop_left' hl]
  · have hd : p.drop 16 = [] := List.drop_eq_nil_iff.mpr (by omega)
    have hl : (encodeBlock (p.take 16)).length ≤ 18 := by
      rw [encodeBlock_length, List.length_take]; omega
    rw [hd, encodeBody_nil, List.append_nil]
    constructor
    · rw [List.take_of_length_le hl]; rfl
    · exact List.drop_eq_nil_iff.mpr hl

theorem checkBody_nil (f : Nat) : checkBody f [] = .ok [] := by
  cases f <;> simp [checkBody]

theorem checkBody_cons (fuel x : Nat) (xs : List Nat) : checkBody (fuel+1) (x :: xs) =
    (if (List.take 18 (x :: xs)).length < 3 then Except.error PErr.logic
    else
      match List.drop ((List.take 18 (x :: xs)).length - 2) (List.take 18 (x :: xs)) with
      | [lo, hi] =>
        if rd16 lo hi ≠ calcCrc (List.take ((List.take 18 (x :: xs)).length - 2) (List.take 18 (x :: xs))) then
          Except.error PErr.bodyCrc
        else
          match checkBody fuel (List.drop 18 (x :: xs)) with
          | Except.ok rest =>
            Except.ok (List.take ((List.take 18 (x :: xs)).length - 2) (List.take 18 (x :: xs)) ++ rest)
          | Except.error e => Except.error e
      | _ => Except.error PErr.logic) := by
  simp only [checkBody]; rfl

theorem checkBody_encodeBody : ∀ (fuel : Nat) (p : List Nat), (encodeBody p).length ≤ fuel →
    checkBody fuel (encodeBody p) = .ok p := by
  intro fuel
  induction fuel with
  | zero =>
    intro p h
    have h0 : encodeBody p = [] := List.length_eq_zero_iff.mp (by omega)
    have : p = [] := (encodeBody_eq_nil_iff p).mp h0
    subst this; simp [checkBody]
  | succ fuel ih =>
    intro p h
    by_cases hp : p = []
    · subst hp; rw [encodeBody_nil]; exact checkBody_nil _
    · obtain ⟨ht, hd⟩ := encodeBody_take18 p hp
      have hne : encodeBody p ≠ [] := fun h => hp ((encodeBody_eq_nil_iff p).mp h)
      have hl : 0 < p.length := List.length_pos_iff.mpr hp
      have hlen : (encodeBody (p.drop 16)).length ≤ fuel := by
        rw [← hd, List.length_drop]
        have : 0 < (encodeBody p).length := List.length_pos_iff.mpr hne
        omega
      obtain ⟨x, xs, hx⟩ := List.exists_cons_of_ne_nil hne
      have hstep := checkBody_cons fuel x xs
      rw [hx] at ht hd ⊢
      rw [hstep]
      simp only [ht, hd]
      have hbl : (List.take 16 p ++ le16 (calcCrc (List.take 16 p))).length = (p.take 16).length + 2 := by
        simp [le16]
      have htl : 0 < (p.take 16).length := by rw [List.length_take]; omega
      rw [hbl]
      have h3 : ¬ (p.take 16).length + 2 < 3 := by omega
      simp only [h3, if_false, Nat.add_sub_cancel]
      rw [List.take_left, List.drop_left, le16_eq]
      simp only [rd16_le16 _ (calcCrc_lt _), ne_eq, not_true_eq_false, if_false]
      rw [ih _ hlen]
      simp only [List.take_append_drop]



theorem parseBody_encodeBody (h : LHeader) (p rest : List Nat) :
    parseBody h (calcTrailerLength p.length) (encodeBody p ++ rest) =
      (.sync1, rest, .ok (some (h, p))) := by
  have hl := encodeBody_length' p
  unfold parseBody
  have h1 : ¬ (encodeBody p ++ rest).length < calcTrailerLength p.length := by
    rw [List.length_append]; omega
  rw [if_neg h1, ← hl, List.take_left, List.drop_left, checkBody_encodeBody _ _ (Nat.le_refl _)]

theorem encodeFrame_eq (h : LHeader) (p : List Nat) :
    encodeFrame h p = 0x05 :: 0x64 :: (p.length + 5) :: h.ctrl :: (h.dst % 256) :: (h.dst / 256 % 256)
      :: (h.src % 256) :: (h.src / 256 % 256)
      :: (calcCrc0564 [p.length + 5, h.ctrl, h.dst % 256, h.dst / 256 % 256, h.src % 256, h.src / 256 % 256] % 256)
      :: (calcCrc0564 [p.length + 5, h.ctrl, h.dst % 256, h.dst / 256 % 256, h.src % 256, h.src / 256 % 256] / 256 % 256)
      :: encodeBody p := by
  simp [encodeFrame, headerFields, le16]

set_option linter.unusedVariables false in
/-- T2: a well-formed frame image followed by anything parses, in one call from the frame-start
    state, to exactly the header and payload that were encoded, leaving the rest unread. -/
theorem parse_encode (h : LHeader) (p rest : List Nat) (hc : h.ctrl < 256) (hd : h.dst < 65536)
    (hs : h.src < 65536) (hp : p.length ≤ 250) :
    parseImpl .sync1 (encodeFrame h p ++ rest) = (.sync1, rest, .ok (some (h, p))) := by
  rw [encodeFrame_eq]
  simp only [parseImpl, parseSync1, parseSync2, parseHeader, List.cons_append, ne_eq,
    not_true_eq_false, if_false]
  have h5 : ¬ p.length + 5 < 5 := by omega
  rw [if_neg h5, rd16_le16 _ (calcCrc0564_lt _), rd16_le16 _ hd, rd16_le16 _ hs]
  simp only [not_true_eq_false, if_false, Nat.add_sub_cancel]
  exact parseBody_encodeBody _ p rest

example : parseImpl .sync1 (encodeFrame ⟨0xC4, 1024, 1⟩ [0xC0, 1, 2, 3] ++ [5, 0x64]) =
    (.sync1, [5, 0x64], .ok (some (⟨0xC4, 1024, 1⟩, [0xC0, 1, 2, 3]))) :=
  parse_encode _ _ _ (by decide) (by decide) (by decide) (by decide)



/-! ## T3: soundness -/

theorem checkBody_cons_inv (fuel x : Nat) (xs p : List Nat)
    (h : checkBody (fuel+1) (x :: xs) = .ok p) :
    ∃ data lo hi rest, (x :: xs).take 18 = data ++ [lo, hi] ∧ data ≠ [] ∧
      rd16 lo hi = calcCrc data ∧ checkBody fuel ((x :: xs).drop 18) = .ok rest ∧
      p = data ++ rest := by
  rw [checkBody_cons] at h
  split at h
  · cases h
  · rename_i hlen
    split at h
    · rename_i lo hi hcrc
      split at h
      · cases h
      · rename_i hc
        split at h
        · rename_i rest hrest
          refine ⟨List.take ((List.take 18 (x :: xs)).length - 2) (List.take 18 (x :: xs)), lo, hi, rest,
            ?_, ?_, ?_, hrest, ?_⟩
          · rw [← hcrc, List.take_append_drop]
          · intro h0
            have h1 := congrArg List.length h0
            simp only [List.length_take, List.length_nil, List.length_cons] at h1 hlen
            omega
          · exact Decidable.not_not.mp hc
          · cases h; rfl
        · cases h
    · cases h

theorem calcTrailerLength_inj (a b : Nat) (h : calcTrailerLength a = calcTrailerLength b) : a = b := by
  unfold calcTrailerLength at h
  simp only at h
  split at h <;> split at h <;> omega

theorem encodeBody_short (d : List Nat) (h0 : d ≠ []) (h16 : d.length ≤ 16) :
    encodeBody d = d ++ le16 (calcCrc d) := by
  rw [encodeBody_ne_nil d h0, List.take_of_length_le h16,
    List.drop_eq_nil_iff.mpr h16, encodeBody_nil, List.append_nil]; rfl

theorem checkBody_sound : ∀ (fuel : Nat) (bs p : List Nat), bs.length ≤ fuel →
    (∀ b ∈ bs, b < 256) → checkBody fuel bs = .ok p → bs = encodeBody p := by
  intro fuel
  induction fuel with
  | zero =>
    intro bs p hl _ h
    have : bs = [] := List.length_eq_zero_iff.mp (by omega)
    subst this
    simp only [checkBody] at h
    cases h; exact encodeBody_nil.symm
  | succ fuel ih =>
    intro bs p hl hb h
    cases bs with
    | nil => rw [checkBody_nil] at h; cases h; exact encodeBody_nil.symm
    | cons x xs =>
      obtain ⟨data, lo, hi, rest, ht, hd0, hcrc, hrest, hp⟩ := checkBody_cons_inv fuel x xs p h
      have hsplit : x :: xs = (data ++ [lo, hi]) ++ (x :: xs).drop 18 := by
        rw [← ht, List.take_append_drop]
      have hmem : ∀ b ∈ data ++ [lo, hi], b < 256 := by
        intro b hb'
        apply hb
        rw [hsplit]; exact List.mem_append_left _ hb'
      have hlo : lo < 256 := hmem lo (by simp)
      have hhi : hi < 256 := hmem hi (by simp)
      have hdl : (data ++ [lo, hi]).length ≤ 18 := by
        rw [← ht, List.length_take]; omega
      have hdl' : data.length ≤ 16 := by
        simp only [List.length_append, List.length_cons, List.length_nil] at hdl; omega
      have hrec : (x :: xs).drop 18 = encodeBody rest := by
        apply ih _ _ _ _ hrest
        · rw [List.length_drop]; simp only [List.length_cons] at *; omega
        · intro b hb'; exact hb b (List.mem_of_mem_drop hb')
      have hle : le16 (calcCrc data) = [lo, hi] := by rw [← hcrc]; exact le16_rd16 lo hi hlo hhi
      subst hp
      by_cases hr : rest = []
      · subst hr
        rw [hsplit, hrec, encodeBody_nil, List.append_nil, List.append_nil,
          encodeBody_short data hd0 hdl', hle]
      · have hne : (x :: xs).drop 18 ≠ [] := by
          rw [hrec]; exact fun h => hr ((encodeBody_eq_nil_iff rest).mp h)
        have hlong : 18 < (x :: xs).length := by
          have := List.length_pos_iff.mpr hne
          rw [List.length_drop] at this; omega
        have h18 : (data ++ [lo, hi]).length = 18 := by
          rw [← ht, List.length_take]; omega
        have hd16 : data.length = 16 := by
          simp only [List.length_append, List.length_cons, List.length_nil] at h18; omega
        have hne' : data ++ rest ≠ [] := by simp [hd0]
        rw [encodeBody_ne_nil _ hne', List.take_left' hd16, List.drop_left' hd16, encodeBlock, hle,
          ← hrec]
        exact hsplit



example : (match checkBody 6 [0xC0, 1, 2, 3, 242, 173] with
      | .ok p => p == [0xC0, 1, 2, 3] | .error _ => false) = true ∧
    ∀ b ∈ [0xC0, 1, 2, 3, 242, 173], b < 256 := ⟨by decide +kernel, by decide⟩

/-! ### shape lemmas for the four parser states -/

theorem list_ge8 (bs : List Nat) (h : 8 ≤ bs.length) :
    ∃ a b c d e f g i r, bs = a :: b :: c :: d :: e :: f :: g :: i :: r := by
  match bs, h with
  | a :: b :: c :: d :: e :: f :: g :: i :: r, _ => exact ⟨a, b, c, d, e, f, g, i, r, rfl⟩

theorem parseHeader_short (bs : List Nat) (h : bs.length < 8) :
    parseHeader bs = (.header, bs, .ok none) := by
  unfold parseHeader
  split
  · simp only [List.length_cons] at h; omega
  · rfl

theorem parseHeader_long (len ctrl d0 d1 s0 s1 c0 c1 : Nat) (rest : List Nat) :
    parseHeader (len :: ctrl :: d0 :: d1 :: s0 :: s1 :: c0 :: c1 :: rest) =
    if len < 5 then (.header, rest, .error (.badLen len)) else
    if rd16 c0 c1 ≠ calcCrc0564 [len, ctrl, d0, d1, s0, s1] then (.header, rest, .error .hdrCrc) else
    parseBody ⟨ctrl, rd16 d0 d1, rd16 s0 s1⟩ (calcTrailerLength (len - 5)) rest := rfl

theorem parseBody_some_inv (h h' : LHeader) (t : Nat) (bs rest p : List Nat) (st' : PState)
    (hr : parseBody h t bs = (st', rest, .ok (some (h', p)))) :
    t ≤ bs.length ∧ checkBody t (bs.take t) = .ok p ∧ st' = .sync1 ∧ rest = bs.drop t ∧ h' = h := by
  unfold parseBody at hr
  split at hr
  · cases hr
  · rename_i hlen
    split at hr
    · rename_i p' hp'
      cases hr
      exact ⟨by omega, hp', rfl, rfl, rfl⟩
    · cases hr

/-- T3: whatever `parse_impl` delivers from the frame-start state is the image of a well-formed
    frame: start octets, length, header CRC and every block CRC are right, the delivered header
    and payload are the ones in those octets, and the unread rest is what follows the image. -/
theorem parser_sound (bs rest : List Nat) (st' : PState) (h : LHeader) (p : List Nat)
    (hb : ∀ b ∈ bs, b < 256)
    (hr : parseImpl .sync1 bs = (st', rest, .ok (some (h, p)))) :
    bs = encodeFrame h p ++ rest ∧ p.length ≤ 250 ∧ st' = .sync1 ∧
      h.ctrl < 256 ∧ h.dst < 65536 ∧ h.src < 65536 := by
  simp only [parseImpl] at hr
  unfold parseSync1 at hr
  split at hr
  · cases hr
  · rename_i x1 r1
    split at hr
    · cases hr
    · rename_i hx1
      have hx1 : x1 = 0x05 := Decidable.not_not.mp hx1
      unfold parseSync2 at hr
      split at hr
      · cases hr
      · rename_i x2 r2
        split at hr
        · cases hr
        · rename_i hx2
          have hx2 : x2 = 0x64 := Decidable.not_not.mp hx2
          by_cases h8 : r2.length < 8
          · rw [parseHeader_short r2 h8] at hr; cases hr
          · obtain ⟨len, ctrl, d0, d1, s0, s1, c0, c1, r, hr2⟩ := list_ge8 r2 (by omega)
            subst hr2 hx1 hx2
            rw [parseHeader_long] at hr
            split at hr
            · cases hr
            · rename_i hlen
              split at hr
              · cases hr
              · rename_i hcrc
                have hcrc := Decidable.not_not.mp hcrc
                obtain ⟨ht, hck, hst, hrest, hh⟩ := parseBody_some_inv _ _ _ _ _ _ _ hr
                have hby : ∀ b, b ∈ [len, ctrl, d0, d1, s0, s1, c0, c1] → b < 256 := by
                  intro b hb'
                  apply hb
                  simp only [List.mem_cons, List.not_mem_nil, or_false] at hb'
                  rcases hb' with rfl | rfl | rfl | rfl | rfl | rfl | rfl | rfl <;> simp
                have hlen' := hby len (by simp)
                have hctrl := hby ctrl (by simp)
                have hd0 := hby d0 (by simp)
                have hd1 := hby d1 (by simp)
                have hs0 := hby s0 (by simp)
                have hs1 := hby s1 (by simp)
                have hc0 := hby c0 (by simp)
                have hc1 := hby c1 (by simp)
                have hbody : r.take (calcTrailerLength (len - 5)) = encodeBody p := by
                  apply checkBody_sound _ _ _ _ _ hck
                  · rw [List.length_take]; omega
                  · intro b hb'
                    apply hb
                    have := List.mem_of_mem_take hb'
                    simp [this]
                have hplen : p.length = len - 5 := by
                  apply calcTrailerLength_inj
                  rw [← encodeBody_length', ← hbody, List.length_take]; omega
                have hlen5 : p.length + 5 = len := by omega
                subst hh hst hrest
                refine ⟨?_, by omega, rfl, hctrl, rd16_lt _ _ hd0 hd1, rd16_lt _ _ hs0 hs1⟩
                rw [encodeFrame_eq]
                have e1 := le16_rd16 d0 d1 hd0 hd1
                have e2 := le16_rd16 s0 s1 hs0 hs1
                have e3 := le16_rd16 c0 c1 hc0 hc1
                simp only [le16_eq, List.cons.injEq, and_true] at e1 e2 e3
                simp only [hlen5, e1.1, e1.2, e2.1, e2.2, ← hcrc, e3.1, e3.2, ← hbody,
                  List.cons_append, List.take_append_drop]

example : parseImpl .sync1 (encodeFrame ⟨0xC4, 1024, 1⟩ [0xC0, 1, 2, 3] ++ [5, 0x64]) =
    (.sync1, [5, 0x64], .ok (some (⟨0xC4, 1024, 1⟩, [0xC0, 1, 2, 3]))) ∧
    ∀ b ∈ (encodeFrame ⟨0xC4, 1024, 1⟩ [0xC0, 1, 2, 3] ++ [5, 0x64]), b < 256 :=
  ⟨parse_encode _ _ _ (by decide) (by decide) (by decide) (by decide), by decide +kernel⟩

/-- T3 for `Parser::parse` in Close mode -/
theorem parse_close_sound (bs rest : List Nat) (st' : PState) (h : LHeader) (p : List Nat)
    (hb : ∀ b ∈ bs, b < 256)
    (hr : parse .close .sync1 bs = (st', rest, .ok (some (h, p)))) :
    bs = encodeFrame h p ++ rest ∧ p.length ≤ 250 ∧ st' = .sync1 ∧
      h.ctrl < 256 ∧ h.dst < 65536 ∧ h.src < 65536 :=
  parser_sound bs rest st' h p hb hr



/-! ## T4: incrementality -/

theorem parseBody_none_inv (h : LHeader) (t : Nat) (bs rest : List Nat) (st' : PState)
    (hr : parseBody h t bs = (st', rest, .ok none)) :
    bs.length < t ∧ st' = .body h t ∧ rest = bs := by
  unfold parseBody at hr
  split at hr
  · rename_i hlen
    cases hr; exact ⟨hlen, rfl, rfl⟩
  · split at hr <;> cases hr

theorem parseBody_more (h : LHeader) (t : Nat) (bs rest more : List Nat) (st' : PState)
    (hr : parseBody h t bs = (st', rest, .ok none)) :
    parseBody h t (bs ++ more) = parseImpl st' (rest ++ more) := by
  obtain ⟨_, hst, hrest⟩ := parseBody_none_inv h t bs rest st' hr
  subst hst hrest; rfl

theorem parseHeader_more (bs rest more : List Nat) (st' : PState)
    (hr : parseHeader bs = (st', rest, .ok none)) :
    parseHeader (bs ++ more) = parseImpl st' (rest ++ more) := by
  by_cases h8 : bs.length < 8
  · rw [parseHeader_short bs h8] at hr
    cases hr; rfl
  · obtain ⟨len, ctrl, d0, d1, s0, s1, c0, c1, r, hbs⟩ := list_ge8 bs (by omega)
    subst hbs
    simp only [List.cons_append]
    rw [parseHeader_long] at hr ⊢
    split at hr
    · cases hr
    · rename_i hlen
      split at hr
      · cases hr
      · rename_i hcrc
        rw [if_neg hlen, if_neg hcrc]
        exact parseBody_more _ _ _ _ _ _ hr

theorem parseSync2_more (bs rest more : List Nat) (st' : PState)
    (hr : parseSync2 bs = (st', rest, .ok none)) :
    parseSync2 (bs ++ more) = parseImpl st' (rest ++ more) := by
  cases bs with
  | nil => simp only [parseSync2] at hr; cases hr; rfl
  | cons x r =>
    simp only [parseSync2, List.cons_append] at hr ⊢
    split at hr
    · cases hr
    · rename_i hx
      rw [if_neg hx]
      exact parseHeader_more _ _ _ _ hr

theorem parseSync1_more (bs rest more : List Nat) (st' : PState)
    (hr : parseSync1 bs = (st', rest, .ok none)) :
    parseSync1 (bs ++ more) = parseImpl st' (rest ++ more) := by
  cases bs with
  | nil => simp only [parseSync1] at hr; cases hr; rfl
  | cons x r =>
    simp only [parseSync1, List.cons_append] at hr ⊢
    split at hr
    · cases hr
    · rename_i hx
      rw [if_neg hx]
      exact parseSync2_more _ _ _ _ hr

/-- T4: a call that ends with "need more octets" leaves the parser in a state from which
    parsing the unread octets followed by `more` gives the same result as parsing the whole
    input followed by `more` in one call would have. -/
theorem parseImpl_more (st st' : PState) (bs rest more : List Nat)
    (h : parseImpl st bs = (st', rest, .ok none)) :
    parseImpl st (bs ++ more) = parseImpl st' (rest ++ more) := by
  cases st with
  | sync1 => exact parseSync1_more _ _ _ _ h
  | sync2 => exact parseSync2_more _ _ _ _ h
  | header => exact parseHeader_more _ _ _ _ h
  | body hd t => exact parseBody_more _ _ _ _ _ _ h

example : parseImpl .sync1 [5, 0x64, 9] = (.header, [9], .ok none) := rfl


/-! ### stability: a decision (frame or error) is not changed by octets that arrive later -/

theorem parseBody_stable (h : LHeader) (t : Nat) (a b rest : List Nat) (st' : PState) (r : PResult)
    (hr : parseBody h t a = (st', rest, r)) (hne : r ≠ .ok none) :
    parseBody h t (a ++ b) = (st', rest ++ b, r) := by
  unfold parseBody at hr ⊢
  split at hr
  · cases hr; exact absurd rfl hne
  · rename_i hlen
    have hlen' : ¬ (a ++ b).length < t := by rw [List.length_append]; omega
    have ht : t ≤ a.length := by omega
    rw [if_neg hlen', List.take_append_of_le_length ht, List.drop_append_of_le_length ht]
    split at hr
    · rename_i p hp
      cases hr; simp only
    · rename_i e he
      cases hr; simp only

theorem parseHeader_stable (a b rest : List Nat) (st' : PState) (r : PResult)
    (hr : parseHeader a = (st', rest, r)) (hne : r ≠ .ok none) :
    parseHeader (a ++ b) = (st', rest ++ b, r) := by
  by_cases h8 : a.length < 8
  · rw [parseHeader_short a h8] at hr
    cases hr; exact absurd rfl hne
  · obtain ⟨len, ctrl, d0, d1, s0, s1, c0, c1, r', ha⟩ := list_ge8 a (by omega)
    subst ha
    simp only [List.cons_append]
    rw [parseHeader_long] at hr ⊢
    split at hr
    · rename_i hlen
      rw [if_pos hlen]; cases hr; rfl
    · rename_i hlen
      rw [if_neg hlen]
      split at hr
      · rename_i hcrc
        rw [if_pos hcrc]; cases hr; rfl
      · rename_i hcrc
        rw [if_neg hcrc]
        exact parseBody_stable _ _ _ _ _ _ _ hr hne

theorem parseSync2_stable (a b rest : List Nat) (st' : PState) (r : PResult)
    (hr : parseSync2 a = (st', rest, r)) (hne : r ≠ .ok none) :
    parseSync2 (a ++ b) = (st', rest ++ b, r) := by
  cases a with
  | nil => simp only [parseSync2] at hr; cases hr; exact absurd rfl hne
  | cons x t =>
    simp only [parseSync2, List.cons_append] at hr ⊢
    split at hr
    · rename_i hx
      rw [if_pos hx]; cases hr; rfl
    · rename_i hx
      rw [if_neg hx]
      exact parseHeader_stable _ _ _ _ _ hr hne

theorem parseSync1_stable (a b rest : List Nat) (st' : PState) (r : PResult)
    (hr : parseSync1 a = (st', rest, r)) (hne : r ≠ .ok none) :
    parseSync1 (a ++ b) = (st', rest ++ b, r) := by
  cases a with
  | nil => simp only [parseSync1] at hr; cases hr; exact absurd rfl hne
  | cons x t =>
    simp only [parseSync1, List.cons_append] at hr ⊢
    split at hr
    · rename_i hx
      rw [if_pos hx]; cases hr; rfl
    · rename_i hx
      rw [if_neg hx]
      exact parseSync2_stable _ _ _ _ _ hr hne

/-- once `parse_impl` has delivered a frame or an error, octets arriving later cannot change it -/
theorem parseImpl_stable (st st' : PState) (a b rest : List Nat) (r : PResult)
    (hr : parseImpl st a = (st', rest, r)) (hne : r ≠ .ok none) :
    parseImpl st (a ++ b) = (st', rest ++ b, r) := by
  cases st with
  | sync1 => exact parseSync1_stable _ _ _ _ _ hr hne
  | sync2 => exact parseSync2_stable _ _ _ _ _ hr hne
  | header => exact parseHeader_stable _ _ _ _ _ hr hne
  | body hd t => exact parseBody_stable _ _ _ _ _ _ _ hr hne

example : parseImpl .sync1 [5, 0x65] = (.sync2, [], .error (.start2 0x65)) ∧
    (Except.error (.start2 0x65) : PResult) ≠ .ok none := ⟨rfl, by simp⟩

/-- a proper prefix of a well-formed frame image never yields a frame or an error -/
theorem parse_prefix_none (h : LHeader) (p a b : List Nat) (hc : h.ctrl < 256) (hd : h.dst < 65536)
    (hs : h.src < 65536) (hp : p.length ≤ 250) (hab : encodeFrame h p = a ++ b) (hb : b ≠ []) :
    ∃ st' rest', parseImpl .sync1 a = (st', rest', .ok none) := by
  have hfull := parse_encode h p [] hc hd hs hp
  rw [List.append_nil, hab] at hfull
  rcases hpa : parseImpl .sync1 a with ⟨st', rest', r⟩
  by_cases hr : r = .ok none
  · subst hr; exact ⟨st', rest', rfl⟩
  · have := parseImpl_stable _ _ a b _ _ hpa hr
    rw [hfull] at this
    simp only [Prod.mk.injEq] at this
    have h2 := this.2.1
    have : b = [] := (List.append_eq_nil_iff.mp h2.symm).2
    exact absurd this hb

/-- T4 corollary: split a well-formed frame image anywhere; the first part leaves the parser
    waiting, and from that waiting state the remaining octets (followed by anything) complete
    exactly the frame that was sent. -/
theorem parse_resume (h : LHeader) (p a b rest : List Nat) (hc : h.ctrl < 256) (hd : h.dst < 65536)
    (hs : h.src < 65536) (hp : p.length ≤ 250) (hab : encodeFrame h p = a ++ b) (hb : b ≠ []) :
    ∃ st' rest', parseImpl .sync1 a = (st', rest', .ok none) ∧
      parseImpl st' (rest' ++ (b ++ rest)) = (.sync1, rest, .ok (some (h, p))) := by
  obtain ⟨st', rest', h1⟩ := parse_prefix_none h p a b hc hd hs hp hab hb
  refine ⟨st', rest', h1, ?_⟩
  rw [← parseImpl_more _ _ _ _ _ h1, ← List.append_assoc, ← hab]
  exact parse_encode h p rest hc hd hs hp

example : encodeFrame ⟨0xC4, 1024, 1⟩ [0xC0, 1, 2, 3] =
    [5, 0x64, 9, 0xC4, 0, 4, 1, 0, 125, 172, 0xC0, 1] ++ [2, 3, 242, 173] := by decide +kernel



/-! ## progress / size facts used by the reader proofs -/

/-- parser states that `parse_impl` can actually be left in: a body state always waits for
    at least one octet -/
def wfState : PState → Prop
  | .body _ t => 0 < t
  | _ => True

theorem parseBody_rest_le (h : LHeader) (t : Nat) (bs rest : List Nat) (st' : PState) (r : PResult)
    (hr : parseBody h t bs = (st', rest, r)) : rest.length ≤ bs.length := by
  unfold parseBody at hr
  split at hr
  · cases hr; exact Nat.le_refl _
  · split at hr <;> (cases hr; rw [List.length_drop]; omega)

theorem parseHeader_facts (bs rest : List Nat) (st' : PState) (r : PResult)
    (hr : parseHeader bs = (st', rest, r)) :
    rest.length ≤ bs.length ∧ (r = .ok none → wfState st') ∧
      (∀ x, r = .ok (some x) → rest.length < bs.length) := by
  by_cases h8 : bs.length < 8
  · rw [parseHeader_short bs h8] at hr
    cases hr
    refine ⟨Nat.le_refl _, fun _ => trivial, ?_⟩; intro x hx; injection hx with hx; contradiction
  · obtain ⟨len, ctrl, d0, d1, s0, s1, c0, c1, r', hbs⟩ := list_ge8 bs (by omega)
    subst hbs
    rw [parseHeader_long] at hr
    simp only [List.length_cons]
    split at hr
    · cases hr; refine ⟨by omega, ?_, ?_⟩ <;> (intros; contradiction)
    · split at hr
      · cases hr; refine ⟨by omega, ?_, ?_⟩ <;> (intros; contradiction)
      · have h1 := parseBody_rest_le _ _ _ _ _ _ hr
        refine ⟨by omega, ?_, fun x _ => by omega⟩
        intro hn; subst hn
        obtain ⟨hl, hst, _⟩ := parseBody_none_inv _ _ _ _ _ hr
        subst hst
        show 0 < _
        omega

theorem parseSync2_facts (bs rest : List Nat) (st' : PState) (r : PResult)
    (hr : parseSync2 bs = (st', rest, r)) :
    rest.length ≤ bs.length ∧ (r = .ok none → wfState st') ∧
      (∀ x, r = .ok (some x) → rest.length < bs.length) := by
  cases bs with
  | nil =>
    simp only [parseSync2] at hr; cases hr
    refine ⟨Nat.le_refl _, fun _ => trivial, ?_⟩; intro x hx; injection hx with hx; contradiction
  | cons x t =>
    simp only [parseSync2] at hr
    simp only [List.length_cons]
    split at hr
    · cases hr; refine ⟨by omega, ?_, ?_⟩ <;> (intros; contradiction)
    · obtain ⟨h1, h2, h3⟩ := parseHeader_facts _ _ _ _ hr
      exact ⟨by omega, h2, fun x hx => by have := h3 x hx; omega⟩

theorem parseSync1_facts (bs rest : List Nat) (st' : PState) (r : PResult)
    (hr : parseSync1 bs = (st', rest, r)) :
    rest.length ≤ bs.length ∧ (r = .ok none → wfState st') ∧
      (∀ x, r = .ok (some x) → rest.length < bs.length) := by
  cases bs with
  | nil =>
    simp only [parseSync1] at hr; cases hr
    refine ⟨Nat.le_refl _, fun _ => trivial, ?_⟩; intro x hx; injection hx with hx; contradiction
  | cons x t =>
    simp only [parseSync1] at hr
    simp only [List.length_cons]
    split at hr
    · cases hr; refine ⟨by omega, ?_, ?_⟩ <;> (intros; contradiction)
    · obtain ⟨h1, h2, h3⟩ := parseSync2_facts _ _ _ _ hr
      exact ⟨by omega, h2, fun x hx => by have := h3 x hx; omega⟩

/-- one call of `parse_impl` never un-reads; a "need more" result leaves a well-formed state;
    a delivered frame consumed at least one octet -/
theorem parseImpl_facts (st st' : PState) (bs rest : List Nat) (r : PResult) (hw : wfState st)
    (hr : parseImpl st bs = (st', rest, r)) :
    rest.length ≤ bs.length ∧ (r = .ok none → wfState st') ∧
      (∀ x, r = .ok (some x) → rest.length < bs.length) := by
  cases st with
  | sync1 => exact parseSync1_facts _ _ _ _ hr
  | sync2 => exact parseSync2_facts _ _ _ _ hr
  | header => exact parseHeader_facts _ _ _ _ hr
  | body hd t =>
    have hw : 0 < t := hw
    simp only [parseImpl] at hr
    refine ⟨parseBody_rest_le _ _ _ _ _ _ hr, ?_, ?_⟩
    · intro hn; subst hn
      obtain ⟨_, hst, _⟩ := parseBody_none_inv _ _ _ _ _ hr
      subst hst; exact hw
    · intro x hx; subst hx
      obtain ⟨h1, _, _, h4, _⟩ := parseBody_some_inv _ _ _ _ _ _ _ hr
      subst h4; rw [List.length_drop]; omega

example : wfState (.body ⟨0xC4, 1024, 1⟩ 6) := by show 0 < 6; decide

theorem parseImpl_nil (st : PState) (hw : wfState st) : parseImpl st [] = (st, [], .ok none) := by
  cases st with
  | sync1 => rfl
  | sync2 => rfl
  | header => rfl
  | body hd t =>
    have hw : 0 < t := hw
    simp only [parseImpl, parseBody, List.length_nil, hw, if_true]

/-- when `parse_impl` does not fail, `Parser::parse` is `parse_impl` in either error mode -/
theorem parse_eq_of_ok (m : ErrMode) (st st' : PState) (bs rest : List Nat)
    (r : Option (LHeader × List Nat)) (h : parseImpl st bs = (st', rest, .ok r)) :
    parse m st bs = (st', rest, .ok r) := by
  cases m with
  | close => exact h
  | discard =>
    unfold parse
    cases bs.length <;> simp only [parseDiscard, h]

theorem encodeFrame_length (h : LHeader) (p : List Nat) :
    (encodeFrame h p).length = 10 + calcTrailerLength p.length := by
  rw [encodeFrame_eq]; simp only [List.length_cons, encodeBody_length']; omega

theorem encodeFrame_length_le (h : LHeader) (p : List Nat) (hp : p.length ≤ 250) :
    (encodeFrame h p).length ≤ 292 := by
  rw [encodeFrame_length]; unfold calcTrailerLength; simp only; split <;> omega


end Dnp3
