import Dnp3.Props.C07Base
/-!
# Link layer: secondary-station state over a history of headers (C07, confirmed user data)

"Confirmed user data is delivered at most once per frame-count-bit toggle after a link reset."
-/
namespace Dnp3.Proofs.LinkLayerHist
open Dnp3 Dnp3.Props.C07

/-- the three things `processHeader` can do to the secondary state -/
theorem processHeader_trichotomy (cfg : LinkCfg) (sec : SecState) (h : LHeader) :
    -- (1) state unchanged, no confirmed data delivered, no reset acknowledged
    ((processHeader cfg sec h).1 = sec ∧
      ¬ ((Control.ofNat h.ctrl).func = .priConfirmedUserData ∧ (processHeader cfg sec h).2.1.isSome) ∧
      ¬ ((Control.ofNat h.ctrl).func = .priResetLinkStates ∧ (processHeader cfg sec h).2.2.isSome)) ∨
    -- (2) link reset accepted: state becomes `reset true`, nothing delivered, ACK
    ((Control.ofNat h.ctrl).func = .priResetLinkStates ∧ (Control.ofNat h.ctrl).fcv = false ∧
      ∃ s, processHeader cfg sec h = (.reset true, none, some ⟨s, .secAck⟩)) ∨
    -- (3) confirmed user data with the expected frame count bit: delivered, expected bit flips
    ((Control.ofNat h.ctrl).func = .priConfirmedUserData ∧ (Control.ofNat h.ctrl).fcv = true ∧
      ∃ s b, sec = .reset (Control.ofNat h.ctrl).fcb ∧
        (processHeader cfg sec h).1 = .reset (!(Control.ofNat h.ctrl).fcb) ∧
        (processHeader cfg sec h).2.1 = some ⟨s, b, .data⟩) := by
  unfold processHeader
  generalize Control.ofNat h.ctrl = c
  generalize Addr.ofNat h.src = src
  generalize Addr.ofNat h.dst = dst
  rcases c with ⟨func, master, fcb, fcv⟩
  simp only
  split
  · simp
  · split
    · split
      · simp
      · rename_i source _ broadcast _
        cases broadcast <;> cases func <;> cases fcv <;> cases sec <;> simp
        all_goals
          rename_i e
          by_cases hb : fcb = e
          · subst hb; simp
          · have hb' : ¬ e = fcb := fun h => hb h.symm
            simp [hb, hb']
    · simp

/-- **B (state changes)**: `processHeader` never changes the secondary state except
    (a) by an accepted `priResetLinkStates` (FCV clear, addressed to us): the state becomes
    `reset true`, nothing is delivered and an ACK is sent; or
    (b) by a delivered confirmed-user-data frame (FCV set, addressed to us, state `reset e`
    with `e` = the frame's FCB): the expected bit flips. -/
theorem sec_changes_only_by_reset_or_delivery (cfg : LinkCfg) (sec : SecState) (h : LHeader)
    (hne : (processHeader cfg sec h).1 ≠ sec) :
    Addressed cfg h ∧
    (((Control.ofNat h.ctrl).func = .priResetLinkStates ∧ (Control.ofNat h.ctrl).fcv = false ∧
        ∃ s, processHeader cfg sec h = (.reset true, none, some ⟨s, .secAck⟩)) ∨
     ((Control.ofNat h.ctrl).func = .priConfirmedUserData ∧ (Control.ofNat h.ctrl).fcv = true ∧
        ∃ s b, sec = .reset (Control.ofNat h.ctrl).fcb ∧
          (processHeader cfg sec h).1 = .reset (!(Control.ofNat h.ctrl).fcb) ∧
          (processHeader cfg sec h).2.1 = some ⟨s, b, .data⟩)) := by
  refine ⟨acts_only_if_addressed cfg sec h (fun he => hne (by rw [he])), ?_⟩
  rcases processHeader_trichotomy cfg sec h with h1 | h2 | h3
  · exact absurd h1.1 hne
  · exact Or.inl h2
  · exact Or.inr h3

/-- an addressed confirmed-user-data frame with FCV set whose FCB is the expected one is delivered,
    the expected bit flips, and it is acknowledged unless it was a broadcast -/
theorem confirmed_expected_delivered (cfg : LinkCfg) (h : LHeader) (hA : Addressed cfg h)
    (hf : (Control.ofNat h.ctrl).func = .priConfirmedUserData)
    (hfcv : (Control.ofNat h.ctrl).fcv = true) :
    ∃ s b, processHeader cfg (.reset (Control.ofNat h.ctrl).fcb) h =
      (.reset (!(Control.ofNat h.ctrl).fcb), some ⟨s, b, .data⟩,
        if b.isNone then some ⟨s, .secAck⟩ else none) := by
  obtain ⟨hdir, ⟨s, hsrc⟩, hdst⟩ := hA
  unfold processHeader
  simp only [hsrc, hf, hfcv]
  rw [if_neg hdir]
  rcases hdst with hd | ⟨hd, hs⟩ | ⟨m, hd, hm, _⟩
  · exact ⟨s, none, by simp [hd]⟩
  · exact ⟨s, none, by simp [hd, hs]⟩
  · exact ⟨s, some m, by simp [hd, hm]⟩

/-- **B (delivery criterion)**: a confirmed-user-data frame is delivered iff it is addressed to
    this endpoint, has FCV set, and the secondary state is `reset e` with `e` equal to its FCB -/
theorem confirmed_delivered_iff_expected (cfg : LinkCfg) (sec : SecState) (h : LHeader)
    (hf : (Control.ofNat h.ctrl).func = .priConfirmedUserData) :
    (processHeader cfg sec h).2.1.isSome = true ↔
      (Addressed cfg h ∧ (Control.ofNat h.ctrl).fcv = true ∧ sec = .reset (Control.ofNat h.ctrl).fcb) := by
  constructor
  · intro hd
    have hA : Addressed cfg h := acts_only_if_addressed cfg sec h (by
      intro he; rw [he] at hd; simp at hd)
    rcases processHeader_trichotomy cfg sec h with h1 | h2 | h3
    · exact absurd ⟨hf, hd⟩ h1.2.1
    · rw [hf] at h2; exact absurd h2.1 (by decide)
    · obtain ⟨_, hv, _, _, hs, _, _⟩ := h3
      exact ⟨hA, hv, hs⟩
  · rintro ⟨hA, hv, hs⟩
    obtain ⟨s, b, he⟩ := confirmed_expected_delivered cfg h hA hf hv
    rw [hs, he]; rfl

example : Addressed ⟨false, false, 1024⟩ ⟨0xF3, 1024, 1⟩ ∧
    (Control.ofNat 0xF3).func = .priConfirmedUserData ∧ (Control.ofNat 0xF3).fcv = true ∧
    (Control.ofNat 0xF3).fcb = true := by
  refine ⟨?_, by decide, by decide, by decide⟩
  unfold Addressed; exact ⟨by decide, ⟨1, by decide⟩, Or.inl (by decide)⟩

/-! ## histories -/

/-- `b, !b, b, …` (`n` entries) -/
def alt : Bool → Nat → List Bool
  | _, 0 => []
  | b, n+1 => b :: alt (!b) n

/-- `b` flipped `n` times -/
def flipN (b : Bool) (n : Nat) : Bool := if n % 2 = 0 then b else !b

theorem alt_length (b : Bool) (n : Nat) : (alt b n).length = n := by
  induction n generalizing b with
  | zero => rfl
  | succ n ih => simp [alt, ih]

theorem alt_snoc (b : Bool) (n : Nat) : alt b n ++ [flipN b n] = alt b (n + 1) := by
  induction n generalizing b with
  | zero => simp [alt, flipN]
  | succ n ih =>
    have : flipN b (n + 1) = flipN (!b) n := by
      unfold flipN; cases b <;> split <;> split <;> simp <;> omega
    rw [this]
    show b :: (alt (!b) n ++ [flipN (!b) n]) = b :: alt (!b) (n + 1)
    rw [ih]

theorem flipN_succ (b : Bool) (n : Nat) : flipN b (n + 1) = !flipN b n := by
  unfold flipN; cases b <;> split <;> split <;> simp <;> omega

/-- what the history fold remembers: the secondary state, whether a link reset has been accepted
    so far, and the FCBs of the confirmed-user-data frames delivered since the last accepted link
    reset (or since the start of the history when there has been none) -/
structure Track where
  sec : SecState
  resetSeen : Bool
  fcbs : List Bool
deriving DecidableEq, Repr

def isResetAccepted (cfg : LinkCfg) (sec : SecState) (h : LHeader) : Bool :=
  decide ((Control.ofNat h.ctrl).func = .priResetLinkStates) && (processHeader cfg sec h).2.2.isSome

def isConfirmedDelivered (cfg : LinkCfg) (sec : SecState) (h : LHeader) : Bool :=
  decide ((Control.ofNat h.ctrl).func = .priConfirmedUserData) && (processHeader cfg sec h).2.1.isSome

def Track.step (cfg : LinkCfg) (t : Track) (h : LHeader) : Track :=
  let sec' := (processHeader cfg t.sec h).1
  if isResetAccepted cfg t.sec h then ⟨sec', true, []⟩
  else if isConfirmedDelivered cfg t.sec h then ⟨sec', t.resetSeen, t.fcbs ++ [(Control.ofNat h.ctrl).fcb]⟩
  else ⟨sec', t.resetSeen, t.fcbs⟩

/-- the fold of `processHeader` over a list of received headers -/
def track (cfg : LinkCfg) (t : Track) (hs : List LHeader) : Track := hs.foldl (Track.step cfg) t

/-- the history invariant, relative to the state `sec0` the history started in -/
def Inv (sec0 : SecState) (t : Track) : Prop :=
  match t.resetSeen, sec0 with
  | true, _ => t.fcbs = alt true t.fcbs.length ∧ t.sec = .reset (flipN true t.fcbs.length)
  | false, .reset e0 => t.fcbs = alt e0 t.fcbs.length ∧ t.sec = .reset (flipN e0 t.fcbs.length)
  | false, .notReset => t.fcbs = [] ∧ t.sec = .notReset

theorem inv_step (cfg : LinkCfg) (sec0 : SecState) (t : Track) (h : LHeader) (hi : Inv sec0 t) :
    Inv sec0 (t.step cfg h) := by
  rcases processHeader_trichotomy cfg t.sec h with ⟨h1, h2, h3⟩ | ⟨hf, _, s, hr⟩ | ⟨hf, _, s, b, hs, hr, hd⟩
  · have e1 : isResetAccepted cfg t.sec h = false := by
      unfold isResetAccepted; simpa using h3
    have e2 : isConfirmedDelivered cfg t.sec h = false := by
      unfold isConfirmedDelivered; simpa using h2
    unfold Track.step
    simp only [e1, e2, h1]
    exact hi
  · have e1 : isResetAccepted cfg t.sec h = true := by
      unfold isResetAccepted; simp [hf, hr]
    unfold Track.step
    simp only [e1, hr]
    simp [Inv, alt, flipN]
  · have e1 : isResetAccepted cfg t.sec h = false := by
      unfold isResetAccepted; simp [hf]
    have e2 : isConfirmedDelivered cfg t.sec h = true := by
      unfold isConfirmedDelivered; simp [hf, hd]
    unfold Track.step
    simp only [e1, e2, hr]
    have key : ∀ b0, t.fcbs = alt b0 t.fcbs.length ∧ t.sec = .reset (flipN b0 t.fcbs.length) →
        t.fcbs ++ [(Control.ofNat h.ctrl).fcb] = alt b0 (t.fcbs ++ [(Control.ofNat h.ctrl).fcb]).length ∧
        SecState.reset (!(Control.ofNat h.ctrl).fcb) =
          .reset (flipN b0 (t.fcbs ++ [(Control.ofNat h.ctrl).fcb]).length) := by
      rintro b0 ⟨ha, hsec⟩
      rw [hs] at hsec
      injection hsec with hfcb
      rw [hfcb]
      simp only [List.length_append, List.length_cons, List.length_nil, Nat.zero_add]
      rw [← alt_snoc, ← ha, flipN_succ]
      exact ⟨rfl, rfl⟩
    unfold Inv at hi ⊢
    rcases t with ⟨tsec, seen, fcbs⟩
    cases seen
    · cases sec0 with
      | notReset => simp only at hi hs; rw [hi.2] at hs; cases hs
      | reset e0 => exact key e0 hi
    · exact key true hi

/-- **B (history)**.  Over any list of received headers, starting in any secondary state `sec0`:
    * once a link reset has been accepted, the FCBs of the confirmed-user-data frames delivered
      since the last accepted reset are exactly `true, false, true, …`, and the state is
      `reset e` with `e` the next bit of that sequence;
    * if no reset has been accepted yet and `sec0 = reset e0`, the same holds starting from `e0`;
    * if no reset has been accepted yet and `sec0 = notReset`, no confirmed user data has been
      delivered at all. -/
theorem delivered_fcbs_alternate (cfg : LinkCfg) (sec0 : SecState) (hs : List LHeader) :
    Inv sec0 (track cfg ⟨sec0, false, []⟩ hs) := by
  have gen : ∀ (hs : List LHeader) (t : Track), Inv sec0 t → Inv sec0 (track cfg t hs) := by
    intro hs
    induction hs with
    | nil => intro t ht; exact ht
    | cons h hs ih => intro t ht; exact ih _ (inv_step cfg sec0 t h ht)
  apply gen
  cases sec0 <;> simp [Inv, alt, flipN]

/-- the statement of `delivered_fcbs_alternate` after a reset, spelled out -/
theorem delivered_fcbs_since_reset (cfg : LinkCfg) (sec0 : SecState) (hs : List LHeader)
    (hr : (track cfg ⟨sec0, false, []⟩ hs).resetSeen = true) :
    (track cfg ⟨sec0, false, []⟩ hs).fcbs = alt true (track cfg ⟨sec0, false, []⟩ hs).fcbs.length ∧
    (track cfg ⟨sec0, false, []⟩ hs).sec =
      .reset (flipN true (track cfg ⟨sec0, false, []⟩ hs).fcbs.length) := by
  have h := delivered_fcbs_alternate cfg sec0 hs
  unfold Inv at h
  rw [hr] at h
  exact h

/-- consequently two consecutive delivered confirmed frames (no reset in between) never carry the
    same FCB: a retransmission (same FCB) is not delivered twice -/
theorem alt_adjacent_ne (b : Bool) (n i : Nat) (h : i + 1 < n) :
    (alt b n)[i]'(by rw [alt_length]; omega) ≠ (alt b n)[i+1]'(by rw [alt_length]; omega) := by
  induction n generalizing b i with
  | zero => omega
  | succ n ih =>
    cases i with
    | zero =>
      cases n with
      | zero => omega
      | succ n => simp [alt]
    | succ i => simp only [alt, List.getElem_cons_succ]; exact ih (!b) i (by omega)

-- a reset, then FCB=1 (delivered), FCB=1 again (retransmission: dropped), FCB=0 (delivered)
example : track ⟨false, false, 1024⟩ ⟨.notReset, false, []⟩
    [⟨0xF3, 1024, 1⟩, ⟨0xC0, 1024, 1⟩, ⟨0xF3, 1024, 1⟩, ⟨0xF3, 1024, 1⟩, ⟨0xD3, 1024, 1⟩] =
    ⟨.reset true, true, [true, false]⟩ := by decide

/-! ## the `deliveredFcbs` fold of `Props/C07.lean` -/

/-- over any history of confirmed-user-data headers, `deliveredFcbs` started in `reset e` is
    `e, !e, e, …` -/
theorem deliveredFcbs_alternate (cfg : LinkCfg) (hs : List LHeader)
    (hc : ∀ h ∈ hs, (Control.ofNat h.ctrl).func = .priConfirmedUserData) :
    ∀ e, deliveredFcbs cfg (.reset e) hs = alt e (deliveredFcbs cfg (.reset e) hs).length := by
  induction hs with
  | nil => intro e; simp [deliveredFcbs, alt]
  | cons h hs ih =>
    intro e
    have hf := hc h (List.mem_cons_self)
    have ih' := ih (fun x hx => hc x (List.mem_cons_of_mem _ hx))
    rcases processHeader_trichotomy cfg (.reset e) h with ⟨h1, h2, _⟩ | ⟨hf', _⟩ | ⟨_, _, s, b, hs', hr, hd⟩
    · have hnone : (processHeader cfg (.reset e) h).2.1 = none := by
        cases hx : (processHeader cfg (.reset e) h).2.1 with
        | none => rfl
        | some v => exact absurd ⟨hf, by rw [hx]; rfl⟩ h2
      unfold deliveredFcbs
      rcases hp : processHeader cfg (.reset e) h with ⟨s1, i1, r1⟩
      rw [hp] at h1 hnone
      simp only at h1 hnone
      subst h1 hnone
      exact ih' e
    · rw [hf] at hf'; cases hf'
    · injection hs' with hs'
      unfold deliveredFcbs
      rcases hp : processHeader cfg (.reset e) h with ⟨s1, i1, r1⟩
      rw [hp] at hr hd
      simp only at hr hd
      subst hr hd
      simp only [List.length_cons, alt]
      rw [← hs', ← ih' (!e)]

/-- and nothing is delivered from confirmed-user-data headers before a reset -/
theorem deliveredFcbs_notReset (cfg : LinkCfg) (hs : List LHeader)
    (hc : ∀ h ∈ hs, (Control.ofNat h.ctrl).func = .priConfirmedUserData) :
    deliveredFcbs cfg .notReset hs = [] := by
  induction hs with
  | nil => simp [deliveredFcbs]
  | cons h hs ih =>
    have hf := hc h (List.mem_cons_self)
    have ih' := ih (fun x hx => hc x (List.mem_cons_of_mem _ hx))
    rcases processHeader_trichotomy cfg .notReset h with ⟨h1, h2, _⟩ | ⟨hf', _⟩ | ⟨_, _, s, b, hs', _⟩
    · have hnone : (processHeader cfg .notReset h).2.1 = none := by
        cases hx : (processHeader cfg .notReset h).2.1 with
        | none => rfl
        | some v => exact absurd ⟨hf, by rw [hx]; rfl⟩ h2
      unfold deliveredFcbs
      rcases hp : processHeader cfg .notReset h with ⟨s1, i1, r1⟩
      rw [hp] at h1 hnone
      simp only at h1 hnone
      subst h1 hnone
      exact ih'
    · rw [hf] at hf'; cases hf'
    · cases hs'

example : ∀ h ∈ [(⟨0xF3, 1024, 1⟩ : LHeader), ⟨0xD3, 1024, 1⟩],
    (Control.ofNat h.ctrl).func = .priConfirmedUserData := by decide

end Dnp3.Proofs.LinkLayerHist


