import Dnp3.Model.Attr
/-!
# C09 — the outstation's answer to a READ of device attributes (`Selection::write_all`)

The writer (`writeSel`, `writeAll`, `series`) against the capacity-independent specification
(`objectFor`, `selObjects`, `allObjects`): whatever the capacity, a fragment is the prior cursor
content plus whole objects, a prefix of what the READ denotes, and the remaining queue denotes
exactly the rest.
-/
namespace Dnp3.Proofs.C09AttrWriter
open Dnp3.Attr Dnp3.Gen.Attrs

/-! ## concrete instances used by the non-vacuity examples -/

/-- set 1 with one attribute: variation 5, read-only, UINT 42 (object image: 8 octets) -/
def exMap : SetMap := [(1, [⟨5, false, .uint 42⟩])]
/-- set 1 with one attribute holding a 255-octet octet string (object image: 262 octets) -/
def exBig : SetMap := [(1, [⟨5, false, .ostr (List.replicate 255 0)⟩])]

/-! ## lengths of images -/

theorem leBytes_length (k n : Nat) : (leBytes k n).length = k := by
  induction k generalizing n with
  | zero => rfl
  | succ k ih => simp [leBytes, ih]

theorem uintLen_le (n : Nat) : uintLen n ≤ 4 := by
  unfold uintLen; split
  · omega
  · split <;> omega

theorem intLen_le (i : Int) : intLen i ≤ 4 := by
  unfold intLen; split
  · omega
  · split <;> omega

theorem image_length {v : Value} {img : List Nat} (h : v.image = some img) :
    2 ≤ img.length ∧ img.length ≤ 257 := by
  cases v with
  | vstr bs =>
    simp only [Value.image] at h
    split at h
    · cases h; simp only [List.length_cons]; omega
    · cases h
  | uint n =>
    simp only [Value.image] at h
    cases h; simp only [List.length_cons, leBytes_length]; have := uintLen_le n; omega
  | int i =>
    simp only [Value.image] at h
    cases h; simp only [List.length_cons, leBytes_length]; have := intLen_le i; omega
  | f32 b =>
    simp only [Value.image] at h
    cases h; simp only [List.length_cons, leBytes_length]; omega
  | f64 b =>
    simp only [Value.image] at h
    cases h; simp only [List.length_cons, leBytes_length]; omega
  | ostr bs =>
    simp only [Value.image] at h
    split at h
    · cases h; simp only [List.length_cons]; omega
    · cases h
  | bstr bs =>
    simp only [Value.image] at h
    split at h
    · cases h; simp only [List.length_cons]; omega
    · cases h
  | time t =>
    simp only [Value.image] at h
    cases h; simp only [List.length_cons, leBytes_length]; omega
  | list items => simp only [Value.image] at h; cases h

example : (Value.uint 42).image = some [2, 1, 42] := by decide

theorem flatMap_pair_length (items : List (Nat × Bool)) :
    (items.flatMap fun (v, w) => [v, if w then 1 else 0]).length = 2 * items.length := by
  induction items with
  | nil => rfl
  | cons a r ih =>
    simp only [List.flatMap_cons, List.length_append, List.length_cons, List.length_nil, ih]
    omega

theorem listEncoding_bound {n len : Nat} {dt : DataType} (h : listEncoding n = some (len, dt)) :
    n ≤ 255 := by
  unfold listEncoding at h
  simp only [listEntryOctets, extListBias] at h
  by_cases h1 : n * 2 ≤ 255
  · omega
  · by_cases h2 : 256 ≤ n * 2 ∧ n * 2 - 256 ≤ 255
    · omega
    · simp only [h1, h2, if_false] at h; cases h

theorem listImage_length {items : List (Nat × Bool)} {img : List Nat} (h : listImage items = some img) :
    img.length = 2 + 2 * items.length ∧ items.length ≤ 255 := by
  unfold listImage at h
  split at h
  · cases h
  · rename_i len dt henc
    cases h
    refine ⟨?_, listEncoding_bound henc⟩
    simp only [List.length_cons, flatMap_pair_length]; omega

example : listImage [(5, false)] = some [254, 2, 5, 0] := by decide

theorem objHeader_length (set var : Nat) : (objHeader set var).length = 5 := rfl

/-- every object image is an object header followed by at least type and length, at most 5 + 2 + 510 octets -/
theorem objectFor_length (m : SetMap) (set var : Nat) (img : List Nat) (h : objectFor m set var = some img) :
    7 ≤ img.length ∧ img.length ≤ 517 := by
  unfold objectFor at h
  split at h
  · split at h
    · cases h
    · rename_i es _
      cases hl : listImage (es.map fun e => (e.var, e.writable)) with
      | none => rw [hl] at h; cases h
      | some li =>
        rw [hl] at h
        simp only [Option.map_some, Option.some.injEq] at h
        subst h
        have := listImage_length hl
        simp only [List.length_append, objHeader_length, List.length_map] at this ⊢
        omega
  · split at h
    · cases h
    · rename_i e _
      cases hi : e.value.image with
      | none => rw [hi] at h; cases h
      | some vi =>
        rw [hi] at h
        simp only [Option.map_some, Option.some.injEq] at h
        subst h
        have := image_length hi
        simp only [List.length_append, objHeader_length]
        omega

example : objectFor exMap 1 255 = some [0, 255, 0, 1, 1, 254, 2, 5, 0] := by decide

example : objectFor [(1, [⟨5, false, .uint 42⟩])] 1 5 = some [0, 5, 0, 1, 1, 2, 1, 42] := by decide

/-! ## one step against the specification -/

theorem stepFor_wrote {m : SetMap} {cap used set var : Nat} {bs : List Nat}
    (h : stepFor m cap used set var = .wrote bs) :
    objectFor m set var = some bs ∧ used + bs.length ≤ cap := by
  unfold stepFor at h
  unfold objectFor
  split at h
  · rename_i hv
    simp only [hv, if_true]
    split at h
    · cases h
    · rename_i es hes
      unfold writeList at h
      split at h
      · cases h
      · rename_i img himg
        rw [himg]
        unfold putObject at h
        split at h
        · cases h; exact ⟨rfl, by assumption⟩
        · cases h
  · rename_i hv
    simp only [hv, if_false]
    split at h
    · cases h
    · rename_i e he
      unfold writeAttribute at h
      split at h
      · cases h
      · split at h
        · cases h
        · rename_i img himg
          rw [himg]
          unfold putObject at h
          split at h
          · cases h; exact ⟨rfl, by assumption⟩
          · cases h

theorem stepFor_skip {m : SetMap} {cap used set var : Nat}
    (h : stepFor m cap used set var = .skip) : objectFor m set var = none := by
  unfold stepFor at h
  unfold objectFor
  split at h
  · rename_i hv
    simp only [hv, if_true]
    split at h
    · rfl
    · unfold writeList at h
      split at h
      · rename_i himg; rw [himg]; rfl
      · unfold putObject at h
        split at h <;> cases h
  · rename_i hv
    simp only [hv, if_false]
    split at h
    · rfl
    · unfold writeAttribute at h
      split at h
      · cases h
      · split at h
        · rename_i himg; rw [himg]; rfl
        · unfold putObject at h
          split at h <;> cases h

theorem stepFor_blocked {m : SetMap} {cap used set var : Nat}
    (h : stepFor m cap used set var = .blocked) :
    used + 5 > cap ∨ ∃ img, objectFor m set var = some img ∧ used + img.length > cap := by
  unfold stepFor at h
  unfold objectFor
  split at h
  · rename_i hv
    simp only [hv, if_true]
    split at h
    · cases h
    · unfold writeList at h
      split at h
      · cases h
      · rename_i img himg
        rw [himg]
        unfold putObject at h
        split at h
        · cases h
        · exact .inr ⟨_, rfl, by dsimp only; omega⟩
  · rename_i hv
    simp only [hv, if_false]
    split at h
    · cases h
    · unfold writeAttribute at h
      split at h
      · exact .inl (by assumption)
      · split at h
        · cases h
        · rename_i img himg
          rw [himg]
          unfold putObject at h
          split at h
          · cases h
          · exact .inr ⟨_, rfl, by dsimp only; omega⟩

/-- the cursor after a step that is not `blocked`: the prior content plus the object the current
    (set, variation) denotes, if any; still within the capacity -/
theorem step_buf {m : SetMap} {cap : Nat} {s : Selected} {buf : List Nat}
    (hnb : stepFor m cap buf.length s.set s.cur = .blocked → False) :
    (match stepFor m cap buf.length s.set s.cur with
      | .wrote bs => buf ++ bs
      | _ => buf) = buf ++ (objectFor m s.set s.cur).toList.flatten ∧
    (buf.length ≤ cap →
      (match stepFor m cap buf.length s.set s.cur with
        | .wrote bs => buf ++ bs
        | _ => buf).length ≤ cap) := by
  cases hst : stepFor m cap buf.length s.set s.cur with
  | blocked => exact (hnb hst).elim
  | skip =>
    have := stepFor_skip hst
    simp [this]
  | wrote bs =>
    have := stepFor_wrote hst
    simp only [this.1, Option.toList_some, List.flatten_cons, List.flatten_nil, List.append_nil,
      List.length_append, true_and]
    intro _; exact this.2

/-! ## one `Selected` -/

/-- one `Selected`: the cursor gains exactly the images of a prefix of the objects the selection denotes, whole and in
    order; what is left of the selection denotes exactly the rest -/
theorem writeSel_exact (m : SetMap) (cap : Nat) (s : Selected) (buf : List Nat) :
    ∃ objs : List (List Nat), (writeSel m cap s buf).1 = buf ++ objs.flatten ∧
      selObjects m s = objs ++ (match (writeSel m cap s buf).2 with | none => [] | some s' => selObjects m s') := by
  fun_induction writeSel m cap s buf with
  | case1 s buf hb => exact ⟨[], by simp, by simp⟩
  | case2 s buf heq hnb buf' =>
    refine ⟨(objectFor m s.set s.cur).toList, (step_buf hnb).1, ?_⟩
    rw [selObjects]; simp [heq]
  | case3 s buf hne hlt hnb buf' ih =>
    obtain ⟨objs, h1, h2⟩ := ih
    refine ⟨(objectFor m s.set s.cur).toList ++ objs, ?_, ?_⟩
    · rw [h1]
      have : buf' = buf ++ (objectFor m s.set s.cur).toList.flatten := (step_buf hnb).1
      rw [this]; simp
    · rw [selObjects]; simp only [hne, hlt, if_false, dite_true]
      rw [h2]; simp
  | case4 s buf hne hnlt hnb buf' =>
    refine ⟨(objectFor m s.set s.cur).toList, (step_buf hnb).1, ?_⟩
    rw [selObjects]; simp [hne, hnlt]

example : writeSel exMap 12 (Selected.all 1) [] = ([0, 5, 0, 1, 1, 2, 1, 42], none) := by decide +kernel
example : writeSel exMap 7 (Selected.all 1) [] = ([], some ⟨1, 5, 253⟩) := by decide +kernel
example : selObjects exMap (Selected.all 1) = [[0, 5, 0, 1, 1, 2, 1, 42]] := by decide +kernel

theorem writeSel_within_capacity (m : SetMap) (cap : Nat) (s : Selected) (buf : List Nat)
    (h : buf.length ≤ cap) : (writeSel m cap s buf).1.length ≤ cap := by
  fun_induction writeSel m cap s buf with
  | case1 s buf hb => exact h
  | case2 s buf heq hnb buf' => exact (step_buf hnb).2 h
  | case3 s buf hne hlt hnb buf' ih => exact ih ((step_buf hnb).2 h)
  | case4 s buf hne hnlt hnb buf' => exact (step_buf hnb).2 h

example : ([9, 9] : List Nat).length ≤ 12 := by decide

theorem writeSel_stops_only_when_blocked (m : SetMap) (cap : Nat) (s : Selected) (buf : List Nat)
    (s' : Selected) (h : (writeSel m cap s buf).2 = some s') :
    stepFor m cap (writeSel m cap s buf).1.length s'.set s'.cur = .blocked := by
  fun_induction writeSel m cap s buf with
  | case1 s buf hb => cases h; exact hb
  | case2 s buf heq hnb buf' => cases h
  | case3 s buf hne hlt hnb buf' ih => exact ih h
  | case4 s buf hne hnlt hnb buf' => cases h

example : (writeSel exMap 7 (Selected.all 1) []).2 = some ⟨1, 5, 253⟩ := by decide +kernel

/-! ## the queue -/

/-- `write_all`: for every database, capacity, selection queue and prior cursor content, the fragment is the prior
    content plus whole objects: a prefix of what the READ denotes; the remaining queue denotes exactly the rest
    (nothing lost, nothing duplicated, nothing reordered, no partial object) -/
theorem writeAll_exact (m : SetMap) (cap : Nat) (sel : List Selected) (buf : List Nat) :
    ∃ objs : List (List Nat), (writeAll m cap sel buf).1 = buf ++ objs.flatten ∧
      allObjects m sel = objs ++ allObjects m (writeAll m cap sel buf).2 := by
  induction sel generalizing buf with
  | nil => exact ⟨[], by simp [writeAll], by simp [writeAll, allObjects]⟩
  | cons s rest ih =>
    obtain ⟨o1, h1, h2⟩ := writeSel_exact m cap s buf
    rw [writeAll]
    rcases hw : writeSel m cap s buf with ⟨buf', _ | s'⟩
    · rw [hw] at h1 h2
      simp only at h1 h2 ⊢
      obtain ⟨o2, h3, h4⟩ := ih buf'
      refine ⟨o1 ++ o2, ?_, ?_⟩
      · rw [h3, h1]; simp
      · simp only [allObjects, List.flatMap_cons] at h4 ⊢
        rw [h2, h4]; simp
    · rw [hw] at h1 h2
      simp only at h1 h2 ⊢
      refine ⟨o1, h1, ?_⟩
      simp only [allObjects, List.flatMap_cons]
      rw [h2]; simp

example : writeAll exMap 20 [Selected.all 1, Selected.single 1 255, Selected.single 1 5] [] =
    ([0, 5, 0, 1, 1, 2, 1, 42, 0, 255, 0, 1, 1, 254, 2, 5, 0], [Selected.single 1 5]) := by decide +kernel

/-- complete (empty remaining queue) means everything the READ denotes is in the fragment -/
theorem writeAll_complete (m : SetMap) (cap : Nat) (sel : List Selected) (buf : List Nat)
    (h : (writeAll m cap sel buf).2 = []) : (writeAll m cap sel buf).1 = buf ++ (allObjects m sel).flatten := by
  obtain ⟨objs, h1, h2⟩ := writeAll_exact m cap sel buf
  rw [h] at h2
  rw [h1, h2]; simp [allObjects]

example : (writeAll exMap 12 [Selected.all 1] []).2 = [] := by decide +kernel

/-- the cursor never exceeds its capacity -/
theorem writeAll_within_capacity (m : SetMap) (cap : Nat) (sel : List Selected) (buf : List Nat)
    (h : buf.length ≤ cap) : (writeAll m cap sel buf).1.length ≤ cap := by
  induction sel generalizing buf with
  | nil => simpa [writeAll] using h
  | cons s rest ih =>
    have hs := writeSel_within_capacity m cap s buf h
    rw [writeAll]
    rcases hw : writeSel m cap s buf with ⟨buf', _ | s'⟩
    · rw [hw] at hs; exact ih buf' hs
    · rw [hw] at hs; exact hs

example : ([9, 9] : List Nat).length ≤ 12 := by decide

/-- the writer stops only because the next step does not fit: if something remains, the step for the head of the
    remaining queue is `blocked` at the final cursor position -/
theorem writeAll_stops_only_when_blocked (m : SetMap) (cap : Nat) (sel : List Selected) (buf : List Nat)
    (s' : Selected) (rest' : List Selected) (h : (writeAll m cap sel buf).2 = s' :: rest') :
    stepFor m cap (writeAll m cap sel buf).1.length s'.set s'.cur = .blocked := by
  induction sel generalizing buf with
  | nil => simp [writeAll] at h
  | cons s rest ih =>
    rw [writeAll] at h ⊢
    rcases hw : writeSel m cap s buf with ⟨buf', _ | s''⟩
    · rw [hw] at h; exact ih buf' h
    · rw [hw] at h
      simp only [List.cons.injEq] at h
      have := writeSel_stops_only_when_blocked m cap s buf s'' (by rw [hw])
      rw [hw] at this
      rw [← h.1]; exact this

example : (writeAll exMap 20 [Selected.all 1, Selected.single 1 255, Selected.single 1 5] []).2 =
    Selected.single 1 5 :: [] := by decide +kernel

/-- a series of fragments (any capacities): the fragments are whole objects, their concatenation is a prefix of what
    the READ denotes, and the final queue denotes exactly what has not been sent -/
theorem series_exact (m : SetMap) (caps : List Nat) (sel : List Selected) :
    ∃ objss : List (List (List Nat)), (series m caps sel).1 = objss.map List.flatten ∧
      allObjects m sel = objss.flatten ++ allObjects m (series m caps sel).2 := by
  induction caps generalizing sel with
  | nil => exact ⟨[], by simp [series], by simp [series]⟩
  | cons cap caps ih =>
    obtain ⟨o1, h1, h2⟩ := writeAll_exact m cap sel []
    obtain ⟨os, h3, h4⟩ := ih (writeAll m cap sel []).2
    refine ⟨o1 :: os, ?_, ?_⟩
    · simp only [series, List.map_cons, h3]
      rw [h1]; simp
    · simp only [series, List.flatten_cons]
      rw [h2, h4]; simp

example : series exMap [12, 3, 9, 30] [Selected.all 1, Selected.single 1 255, Selected.single 1 5] =
    ([[0, 5, 0, 1, 1, 2, 1, 42], [], [0, 255, 0, 1, 1, 254, 2, 5, 0], [0, 5, 0, 1, 1, 2, 1, 42]], []) := by
  decide +kernel

/-- progress: with a capacity that can hold any single object (517 octets), a fragment written into an empty cursor
    either completes the READ or carries at least one object -/
theorem writeAll_progress (m : SetMap) (cap : Nat) (sel : List Selected) (hcap : 517 ≤ cap)
    (h : (writeAll m cap sel []).2 ≠ []) : (writeAll m cap sel []).1 ≠ [] := by
  intro hempty
  cases hq : (writeAll m cap sel []).2 with
  | nil => exact h hq
  | cons s' rest' =>
    have hb := writeAll_stops_only_when_blocked m cap sel [] s' rest' hq
    rw [hempty] at hb
    rcases stepFor_blocked hb with h5 | ⟨img, himg, hlen⟩
    · simp at h5; omega
    · have := objectFor_length m _ _ img himg
      simp at hlen; omega

/-- the hypotheses of `writeAll_progress` hold together: three 262-octet objects do not fit into 517 octets -/
example : (517 ≤ 517) ∧
    (writeAll exBig 517 [Selected.single 1 5, Selected.single 1 5, Selected.single 1 5] []).2 ≠ [] := by
  decide +kernel


/-! ## the attribute database: `define` -/

theorem defineTail_ok {m m' : SetMap} {set var : Nat} {w : Bool} {v : Value}
    (h : define.defineTail m set var w v = .ok m') :
    m.get set var = none ∧ m' = insertSet set ⟨var, w, v⟩ m := by
  unfold define.defineTail at h
  split at h
  · cases h
  · split at h
    · cases h
    · rename_i hn
      cases h
      refine ⟨?_, rfl⟩
      cases hg : m.get set var with
      | none => rfl
      | some x => rw [hg] at hn; simp at hn

theorem define_ok {m m' : SetMap} {set var : Nat} {w : Bool} {v : Value}
    (h : define m set var w v = .ok m') :
    reservedVars.contains var = false ∧ m.get set var = none ∧ m' = insertSet set ⟨var, w, v⟩ m := by
  unfold define at h
  split at h
  · cases h
  · rename_i hr
    refine ⟨by simpa using hr, ?_⟩
    split at h
    · split at h
      · cases h
      · exact defineTail_ok h
    · exact defineTail_ok h

theorem mem_insertEntry {e y : Entry} {es : List Entry} : y ∈ insertEntry e es ↔ y = e ∨ y ∈ es := by
  induction es with
  | nil => simp [insertEntry]
  | cons x r ih =>
    unfold insertEntry
    split
    · simp
    · simp only [List.mem_cons, ih]
      constructor
      · rintro (h | h | h) <;> simp [h]
      · rintro (h | h | h) <;> simp [h]

theorem pairwise_insertEntry {e : Entry} {es : List Entry}
    (hp : List.Pairwise (· < ·) (es.map (·.var))) (hne : ∀ x ∈ es, x.var ≠ e.var) :
    List.Pairwise (· < ·) ((insertEntry e es).map (·.var)) := by
  induction es with
  | nil => simp [insertEntry]
  | cons x r ih =>
    simp only [List.map_cons, List.pairwise_cons, List.mem_map, forall_exists_index, and_imp,
      forall_apply_eq_imp_iff₂] at hp
    unfold insertEntry
    split
    · rename_i hlt
      simp only [List.map_cons, List.pairwise_cons, List.mem_cons, List.mem_map, forall_eq_or_imp,
        forall_exists_index, and_imp, forall_apply_eq_imp_iff₂]
      refine ⟨⟨hlt, fun a ha => Nat.lt_trans hlt (hp.1 a ha)⟩, hp.1, hp.2⟩
    · rename_i hnlt
      simp only [List.map_cons, List.pairwise_cons, List.mem_map, forall_exists_index, and_imp,
        forall_apply_eq_imp_iff₂]
      refine ⟨?_, ih hp.2 (fun y hy => hne y (List.mem_cons_of_mem _ hy))⟩
      intro a ha
      rcases mem_insertEntry.1 ha with rfl | ha
      · have := hne x (List.mem_cons_self ..)
        omega
      · exact hp.1 a ha

theorem find_insertEntry_self {e : Entry} {es : List Entry} (hne : ∀ x ∈ es, x.var ≠ e.var) :
    (insertEntry e es).find? (·.var == e.var) = some e := by
  induction es with
  | nil => simp [insertEntry]
  | cons x r ih =>
    unfold insertEntry
    split
    · simp
    · have hx := hne x (List.mem_cons_self ..)
      rw [List.find?_cons_of_neg (by simpa using hx)]
      exact ih (fun y hy => hne y (List.mem_cons_of_mem _ hy))

theorem find_insertEntry_other {e : Entry} {es : List Entry} {x : Nat} (hx : e.var ≠ x) :
    (insertEntry e es).find? (·.var == x) = es.find? (·.var == x) := by
  induction es with
  | nil => simp [insertEntry, hx]
  | cons y r ih =>
    unfold insertEntry
    split
    · rw [List.find?_cons_of_neg (by simpa using hx)]
    · simp only [List.find?_cons, ih]

theorem entries_insertSet_other {m : SetMap} {set s : Nat} {e : Entry} (hs : s ≠ set) :
    SetMap.entries (insertSet set e m) s = SetMap.entries m s := by
  unfold SetMap.entries
  congr 1
  induction m with
  | nil => simp [insertSet, Ne.symm hs]
  | cons p r ih =>
    obtain ⟨s0, es⟩ := p
    unfold insertSet
    split
    · rename_i heq
      subst heq
      simp [Ne.symm hs]
    · split
      · rw [List.find?_cons_of_neg (by simpa using Ne.symm hs)]
      · simp only [List.find?_cons, ih]

theorem entries_insertSet_self {m : SetMap} {set : Nat} {e : Entry}
    (hp : List.Pairwise (· < ·) (m.map (·.1))) :
    SetMap.entries (insertSet set e m) set =
      some (match SetMap.entries m set with | none => [e] | some es => insertEntry e es) := by
  induction m with
  | nil => simp [insertSet, SetMap.entries]
  | cons p r ih =>
    obtain ⟨s0, es⟩ := p
    simp only [List.map_cons, List.pairwise_cons, List.mem_map, forall_exists_index, and_imp,
      forall_apply_eq_imp_iff₂] at hp
    unfold insertSet
    split
    · rename_i heq
      subst heq
      simp [SetMap.entries]
    · rename_i hne
      split
      · rename_i hlt
        have hnone : SetMap.entries ((s0, es) :: r) set = none := by
          unfold SetMap.entries
          rw [List.find?_cons_of_neg (by simpa using Ne.symm hne)]
          rw [List.find?_eq_none.2]; · rfl
          intro p hp'
          have := hp.1 p hp'
          simp only [beq_iff_eq]; omega
        rw [hnone]
        simp [SetMap.entries]
      · have h1 : SetMap.entries ((s0, es) :: insertSet set e r) set = SetMap.entries (insertSet set e r) set := by
          unfold SetMap.entries
          rw [List.find?_cons_of_neg (by simpa using Ne.symm hne)]
        have h2 : SetMap.entries ((s0, es) :: r) set = SetMap.entries r set := by
          unfold SetMap.entries
          rw [List.find?_cons_of_neg (by simpa using Ne.symm hne)]
        rw [h1, h2]; exact ih hp.2

theorem keys_insertSet {m : SetMap} {set k : Nat} {e : Entry}
    (h : k ∈ (insertSet set e m).map (·.1)) : k = set ∨ k ∈ m.map (·.1) := by
  induction m with
  | nil => simp [insertSet] at h; exact .inl h
  | cons p r ih =>
    obtain ⟨s0, es⟩ := p
    unfold insertSet at h
    split at h
    · exact .inr (by simpa using h)
    · split at h
      · simp only [List.map_cons, List.mem_cons] at h ⊢
        exact h
      · simp only [List.map_cons, List.mem_cons] at h ⊢
        rcases h with h | h
        · exact .inr (.inl h)
        · rcases ih h with h | h
          · exact .inl h
          · exact .inr (.inr h)

theorem pairwise_insertSet {m : SetMap} {set : Nat} {e : Entry}
    (hp : List.Pairwise (· < ·) (m.map (·.1))) :
    List.Pairwise (· < ·) ((insertSet set e m).map (·.1)) := by
  induction m with
  | nil => simp [insertSet]
  | cons p r ih =>
    obtain ⟨s0, es⟩ := p
    simp only [List.map_cons, List.pairwise_cons] at hp
    unfold insertSet
    split
    · simpa using hp
    · rename_i hne
      split
      · rename_i hlt
        simp only [List.map_cons, List.pairwise_cons, List.mem_cons, forall_eq_or_imp]
        exact ⟨⟨hlt, fun a ha => Nat.lt_trans hlt (hp.1 a ha)⟩, hp.1, hp.2⟩
      · rename_i hnlt
        simp only [List.map_cons, List.pairwise_cons]
        refine ⟨?_, ih hp.2⟩
        intro a ha
        rcases keys_insertSet ha with rfl | ha
        · omega
        · exact hp.1 a ha

/-- the per-set part of `SetMap.WF` -/
def SetOk (p : Nat × List Entry) : Prop :=
  p.1 < 256 ∧ (∀ e ∈ p.2, e.WF) ∧ List.Pairwise (· < ·) (p.2.map (·.var))

theorem forall_insertSet {m : SetMap} {set : Nat} {e : Entry}
    (hm : ∀ p ∈ m, SetOk p) (hs : set < 256) (he : e.WF)
    (hne : ∀ es, SetMap.entries m set = some es → ∀ x ∈ es, x.var ≠ e.var) :
    ∀ p ∈ insertSet set e m, SetOk p := by
  induction m with
  | nil =>
    intro p hp
    simp only [insertSet, List.mem_singleton] at hp
    subst hp
    exact ⟨hs, by simpa using he, by simp⟩
  | cons q r ih =>
    obtain ⟨s0, es⟩ := q
    unfold insertSet
    split
    · rename_i heq
      subst heq
      intro p hp
      rcases List.mem_cons.1 hp with rfl | hp
      · have h0 := hm (set, es) (List.mem_cons_self ..)
        have hes := hne es (by simp [SetMap.entries])
        refine ⟨hs, ?_, pairwise_insertEntry h0.2.2 hes⟩
        intro y hy
        rcases mem_insertEntry.1 hy with rfl | hy
        · exact he
        · exact h0.2.1 y hy
      · exact hm p (List.mem_cons_of_mem _ hp)
    · rename_i hne0
      split
      · intro p hp
        rcases List.mem_cons.1 hp with rfl | hp
        · exact ⟨hs, by simpa using he, by simp⟩
        · exact hm p hp
      · intro p hp
        rcases List.mem_cons.1 hp with rfl | hp
        · exact hm _ (List.mem_cons_self ..)
        · refine ih (fun p hp => hm p (List.mem_cons_of_mem _ hp)) ?_ p hp
          intro es' hes'
          apply hne es'
          unfold SetMap.entries at hes' ⊢
          rw [List.find?_cons_of_neg (by simpa using Ne.symm hne0)]
          exact hes'

theorem get_none_entries {m : SetMap} {set var : Nat} (hr : reservedVars.contains var = false)
    (hg : m.get set var = none) :
    ∀ es, SetMap.entries m set = some es → ∀ x ∈ es, x.var ≠ var := by
  intro es hes x hx
  unfold SetMap.get at hg
  rw [hr, hes] at hg
  simp only [Bool.false_eq_true, if_false] at hg
  have := List.find?_eq_none.1 hg x hx
  simpa using this

/-- `define` keeps the database well-formed and records exactly the new attribute -/
theorem define_preserves_wf (m m' : SetMap) (set var : Nat) (w : Bool) (v : Value)
    (hm : m.WF) (hs : set < 256) (hvar : var < 256) (hv : v.WellFormed) (h : define m set var w v = .ok m') :
    m'.WF ∧ m'.get set var = some ⟨var, w, v⟩ ∧
      ∀ s x, (s, x) ≠ (set, var) → m'.get s x = m.get s x := by
  obtain ⟨hr, hg, rfl⟩ := define_ok h
  have hno := get_none_entries hr hg
  refine ⟨⟨?_, pairwise_insertSet hm.2⟩, ?_, ?_⟩
  · exact forall_insertSet (e := ⟨var, w, v⟩) hm.1 hs ⟨hvar, hr, hv⟩ hno
  · unfold SetMap.get
    rw [hr, entries_insertSet_self hm.2]
    simp only [Bool.false_eq_true, if_false]
    cases hes : SetMap.entries m set with
    | none => simp
    | some es => exact find_insertEntry_self (e := ⟨var, w, v⟩) (hno es hes)
  · intro s x hsx
    unfold SetMap.get
    split
    · rfl
    · by_cases hseq : s = set
      · subst hseq
        have hx : var ≠ x := fun hh => hsx (by rw [hh])
        rw [entries_insertSet_self hm.2]
        cases hes : SetMap.entries m s with
        | none => simp [hx]
        | some es => exact find_insertEntry_other (e := ⟨var, w, v⟩) hx
      · rw [entries_insertSet_other hseq]

/-- the hypotheses of `define_preserves_wf` hold together (a second, writable attribute in set 1) -/
example : exMap.WF ∧ (1 : Nat) < 256 ∧ (7 : Nat) < 256 ∧ (Value.uint 9).WellFormed ∧
    define exMap 1 7 true (.uint 9) = .ok [(1, [⟨5, false, .uint 42⟩, ⟨7, true, .uint 9⟩])] := by
  refine ⟨?_, by decide, by decide, ?_, by rfl⟩
  · simp [exMap, SetMap.WF, Entry.WF, Value.WellFormed, reservedVars]
  · simp [Value.WellFormed]

/-- `define` refuses a variation that is already there: a defined attribute is never overwritten -/
theorem define_never_overwrites (m : SetMap) (set var : Nat) (w : Bool) (v : Value) (e : Entry)
    (h : m.get set var = some e) : ∃ err, define m set var w v = .error err := by
  have htail : ∃ err, define.defineTail m set var w v = .error err := by
    unfold define.defineTail
    split
    · exact ⟨_, rfl⟩
    · rw [h]; exact ⟨_, rfl⟩
  unfold define
  split
  · exact ⟨_, rfl⟩
  · split
    · split
      · exact ⟨_, rfl⟩
      · exact htail
    · exact htail

example : exMap.get 1 5 = some ⟨5, false, .uint 42⟩ := by decide
example : define exMap 1 5 true (.uint 9) = .error .alreadyDefined := by rfl

end Dnp3.Proofs.C09AttrWriter
