import Dnp3.Driver.Outstation
import Dnp3.Driver.Master
import Dnp3.Model.Pair
/-!
line-protocol driver of engine `pair` (ops are documented in harness/src/eng_pair.rs)
-/
namespace Dnp3.Driver
open Dnp3 Dnp3.Pair

structure PSt where
  st : Option PState := none
  polls : Nat := 0

/-- `addmany` prints the number of points added instead of one line per point -/
def canonO (outs : List OOut) : List String :=
  let isAdd (o : OOut) : Bool := match o with | .line l => l.startsWith "add " | _ => false
  let adds := outs.filter isAdd
  if adds.length > 1 then
    let n := (adds.filter fun o => match o with | .line l => l == "add 1" | _ => false).length
    if outs.any (fun o => match o with | .panic => true | _ => false) then ["panic"] else
    [s!"added {n}"] ++ canon (outs.filter (!isAdd ·))
  else canon outs

def renderGroup : Group → List String
  | .m outs => (canonM outs).map ("m " ++ ·)
  | .o outs => (canonO outs).map ("o " ++ ·)
  | .time t => [s!"t {t}"]
  | .delivered toO items => [s!"d {if toO then "m2o" else "o2m"} {items.length}"]
  | .line s => [s]

def renderGroups (gs : List Group) : List String := gs.flatMap renderGroup ++ ["ok"]

def dirOf (s : String) : Option Bool :=
  if s == "m2o" then some true else if s == "o2m" then some false else none

def pairStep (p : PSt) (line : String) : PSt × List String :=
  let bad : PSt × List String := (p, ["bad-op", "ok"])
  match words line with
  | [] => (p, [])
  | "cfg" :: kvs =>
    let (ocfg, env, ev) := parseCfg kvs
    let acfg := parseACfg kvs
    let base : Option Nat := match kvOf kvs "mclock" with
      | some v => v.toNat?
      | none => none
    let (s, g) := Pair.start ocfg ev env (kvNat kvs "mtx" 2048) acfg base (kvNat kvs "dm2o" 0) (kvNat kvs "do2m" 0)
    ({ st := some s }, renderGroups g)
  | op :: args =>
    match p.st with
    | none => bad
    | some s =>
      let run (i : PInput) : PSt × List String :=
        let (s', g) := Pair.step s i
        ({ p with st := some s' }, renderGroups g)
      match op, args with
      | "addbin", [idx, cls] => match idx.toNat?, cls.toNat? with
        | some i, some c => run (.add .binary i c) | _, _ => bad
      | "addan", [idx, cls] => match idx.toNat?, cls.toNat? with
        | some i, some c => run (.add .analog i c) | _, _ => bad
      | "addmany", [kind, start, count, cls] =>
        match start.toNat?, count.toNat?, cls.toNat? with
        | some a, some n, some c =>
          if n < 2 then bad else run (.addMany (if kind == "bin" then .binary else .analog) a n c)
        | _, _, _ => bad
      | "txn", items => match items.mapM parseTxnItem with
        | some l => run (.txn l) | none => bad
      | "tick", [ms] => match ms.toNat? with | some ms => run (.tick ms) | none => bad
      | "delay", [d, ms] => match dirOf d, ms.toNat? with
        | some d, some ms => run (.setDelay d ms) | _, _ => bad
      | "chunk", [_] => (p, ["ok"])
      | "hold", [d, v] => match dirOf d with
        | some d => if v == "on" then run (.setHold d true) else if v == "off" then run (.setHold d false) else bad
        | none => bad
      | "deliver", [d, n] => match dirOf d with
        | some d => if n == "all" then run (.deliver d none) else match n.toNat? with
          | some n => run (.deliver d (some n)) | none => bad
        | none => bad
      | "cut", [] => run .cut
      | "mclock", [v] => run (.mclock v.toNat?)
      | "procdelay", [b] => match b.toNat? with
        | some b => run (.script fun sc => { sc with delayMs := b }) | none => bad
      | "appiin", [b] => match b.toNat? with
        | some b => run (.script fun sc => { sc with appIin := b }) | none => bad
      | "timeres", [b] => match b.toNat? with
        | some b => run (.script fun sc => { sc with timeResult := b }) | none => bad
      | "restart", [b] => match b.toNat? with
        | some b => run (.script fun sc => { sc with restart := b }) | none => bad
      | "ctl", [l] => match (l.splitOn ",").mapM String.toNat? with
        | some l => run (.script fun sc => { sc with ctl := l, ctlPos := 0 }) | none => bad
      | "timesync", [uid, proc] => match uid.toNat? with
        | some uid => match parseUser uid "time" [proc] with
          | some t => run (.user t) | none => bad
        | none => bad
      | "read", [uid, c] => match uid.toNat? with
        | some uid => match parseUser uid "read" [c] with
          | some t => run (.user t) | none => bad
        | none => bad
      | "cmd", [uid, kind, h] => match uid.toNat? with
        | some uid =>
          if kind == "do" ∨ kind == "sbo" then
            match parseUser uid kind [h] with
            | some t => run (.user t) | none => bad
          else bad
        | none => bad
      | "addpoll", [period, c] => match period.toNat?, c.toNat? with
        | some per, some c =>
          let (p', out) := run (.msg (.addPoll outstationAddr per c))
          ({ p' with polls := p.polls + 1 }, out)
        | _, _ => bad
      | "demand", [k] => match k.toNat? with
        | some k => if k < p.polls then run (.msg (.demand outstationAddr k)) else bad
        | none => bad
      | "inject", [d, src, dst, h] => match dirOf d, src.toNat?, dst.toNat?, parseHex h with
        | some d, some src, some dst, some data => if data.isEmpty then bad else run (.inject d src dst data)
        | _, _, _, _ => bad
      | _, _ => bad

end Dnp3.Driver
