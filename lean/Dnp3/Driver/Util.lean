/-! line-protocol helpers shared by all engines of the model driver -/
namespace Dnp3.Driver

def hexDigit (c : Char) : Option Nat :=
  if '0' ≤ c ∧ c ≤ '9' then some (c.toNat - '0'.toNat)
  else if 'a' ≤ c ∧ c ≤ 'f' then some (c.toNat - 'a'.toNat + 10)
  else if 'A' ≤ c ∧ c ≤ 'F' then some (c.toNat - 'A'.toNat + 10)
  else none

def parseHexList : List Char → Option (List Nat)
  | [] => some []
  | [_] => none
  | a :: b :: rest => do
    let x ← hexDigit a
    let y ← hexDigit b
    let tl ← parseHexList rest
    pure ((x * 16 + y) :: tl)

/-- `-` is the empty byte string -/
def parseHex (s : String) : Option (List Nat) :=
  if s == "-" then some [] else parseHexList s.toList

def hexChar (n : Nat) : Char :=
  if n < 10 then Char.ofNat ('0'.toNat + n) else Char.ofNat ('a'.toNat + n - 10)

def toHex (bs : List Nat) : String :=
  if bs.isEmpty then "-" else
  String.ofList (bs.flatMap fun b => [hexChar (b / 16 % 16), hexChar (b % 16)])

def words (line : String) : List String :=
  (line.trimAscii.toString.splitOn " ").filter (· ≠ "")

end Dnp3.Driver
