import Dnp3.Driver.Util
import Dnp3.Model.AppHeader
import Dnp3.Model.ObjectIter
import Dnp3.Model.RequestBuilder
/-! engine `parse` (C09): `parse <req|resp> <hex> [z]` -/
namespace Dnp3.Driver
open Dnp3.App Dnp3.Gen

def attrErrStr : AttrErr → String
  | .read => "read"
  | .unknownDataType t => s!"unknowntype {t}"
  | .badIntegerLength n => s!"intlen {n}"
  | .badFloatLength n => s!"floatlen {n}"
  | .badTimeLength n => s!"timelen {n}"
  | .badAttrListLength n => s!"listlen {n}"
  | .badVisibleString => "badstring"
  | .setIdNotU8 n => s!"setid {n}"
  | .countNotOne n => s!"countnotone {n}"

def parseErrStr : ParseErr → String
  | .unknownGroupVariation g v => s!"unknowngv {g} {v}"
  | .unknownQualifier q => s!"unknownqualifier {q}"
  | .insufficientBytes => "insufficient"
  | .invalidRange s e => s!"invalidrange {s} {e}"
  | .invalidQualifierForVariation g v q => s!"invalidqualifier {g} {v} {q}"
  | .unsupportedFreeFormatCount n => s!"freeformatcount {n}"
  | .zeroLengthOctetData => "zerolength"
  | .badAttribute e => s!"badattr {attrErrStr e}"
  | .badEncoding => "badencoding"
  | .modelGap => "model-gap"

def specStr : Spec → String
  | .all => "-"
  | .range _ s e => s!"{s}..{e}"
  | .count _ n => s!"{n}"
  | .countPrefix _ n => s!"{n}"
  | .free c len => s!"{c}/{len}"

def fnv (h : UInt64) (bs : List Nat) : UInt64 :=
  bs.foldl (fun h b => (h ^^^ b.toUInt64) * 0x100000001b3) h

def hex64 (h : UInt64) : String :=
  String.ofList ((List.range 16).map fun i => hexChar ((h >>> (4 * (15 - i)).toUInt64).toNat % 16))

/-- are the item indices taken from the header's range (and therefore hashed in front of the octets)? -/
def rangeIndexed : Payload → Bool
  | .bits | .dbits | .octets => true
  | _ => false

def objsLine (r : HeaderRec) : String :=
  match iterate r with
  | none => "objs -"
  | some (.error _) => "objs panic"
  | some (.ok items) =>
    let fromRange := rangeIndexed r.kind || (match r.kind, r.spec with | .fixed _ _, .range _ _ _ => true | _, _ => false)
    let h := items.foldl (fun h it =>
      let h := if fromRange then (match it.index with | some i => fnv h (le16 i) | none => h) else h
      fnv h it.bytes) 0xcbf29ce484222325
    let idx (o : Option Item) : String := match o with
      | some ⟨some i, _⟩ => s!"{i}"
      | _ => "-"
    s!"objs {items.length} {idx items.head?} {idx items.getLast?} {hex64 h}"

def payLenStr (r : HeaderRec) : String :=
  if iterPanics r then "!" else
  match r.kind with
  | .attr | .prefAttr => "?"
  | _ => s!"{r.payload.length}"

def hdrLines (r : HeaderRec) : List String :=
  [s!"hdr {r.var.group} {r.var.var} {r.spec.qualifier} {specStr r.spec} {payLenStr r}", objsLine r]

def b01 (b : Bool) : Nat := if b then 1 else 0

/-- stack-safe hex decoding for long lines (`Util.parseHex` recurses once per octet) -/
def parseHexFast (s : String) : Option (List Nat) :=
  if s == "-" then some [] else
  let u := s.toUTF8
  if u.size % 2 ≠ 0 then none else
  let n := u.size / 2
  let rec go (i : Nat) (acc : List Nat) : Option (List Nat) :=
    match i with
    | 0 => some acc
    | i + 1 =>
      match hexDigit (Char.ofNat (u.get! (2 * i)).toNat), hexDigit (Char.ofNat (u.get! (2 * i + 1)).toNat) with
      | some x, some y => go i ((x * 16 + y) :: acc)
      | _, _ => none
  go n []

def parseOp (resp : Bool) (bs : List Nat) (zls : Bool) : List String :=
  match parseHeader bs with
  | .error .insufficient => ["err hdr insufficient", "ok"]
  | .error (.unknownFunction s f) => [s!"err hdr unknownfn {s} {f}", "ok"]
  | .ok h =>
    let c := h.control
    let iin := match h.iin with | some (a, b) => s!"{a} {b}" | none => "- -"
    let app := s!"app {c.toByte} {b01 c.fir} {b01 c.fin} {b01 c.con} {b01 c.uns} {c.seq} {h.function} {iin}"
    let valid :=
      if resp then
        match validateResponse h with
        | .ok _ => "valid ok"
        | .error .unexpectedFunction => "valid unexpectedfunction"
        | .error .solicitedWithUns => "valid solicitedwithuns"
        | .error .unsolicitedWithoutUns => "valid unsolicitedwithoutuns"
        | .error .unsolicitedWithoutFirFin => "valid unsolicitedwithoutfirfin"
      else
        match validateRequest h with
        | .ok _ => "valid ok"
        | .error .unexpectedFunction => "valid unexpectedfunction"
        | .error .nonFirFin => "valid nonfirfin"
        | .error .unexpectedUns => "valid unexpecteduns"
    let isRead := h.function == Dnp3.Gen.App.fnRead
    match walk isRead zls h.objects with
    | .ok recs =>
      let disp := if recs.any iterPanics then "display panic" else "display ok"
      [app, valid] ++ recs.flatMap hdrLines ++ [disp, "ok"]
    | .error e =>
      let disp := if (walkPrefix isRead zls h.objects).any iterPanics then "display panic" else "display ok"
      [app, valid, s!"objerr {parseErrStr e}", disp, "ok"]

/-! `build`: the master's request builders (`HeaderWriter`, `ReadRequest`, `CommandBuilder` → `write_prefixed_items`,
`write_count_of_one`, `write_clear_restart`) as images of header records, with the write cursor's capacity.
No builder operation panics (before the repair of D17 `write_prefixed_items` did, on the 256th item of a one-octet count). -/

inductive BuildRes
  | bytes (b : List Nat)
  | badwrite
  | badspec

/-- one header token appended to what is already written -/
def buildHdr (cap : Nat) (acc : List Nat) (tok : String) : BuildRes :=
  let fits (img : List Nat) : BuildRes := if acc.length + img.length > cap then .badwrite else .bytes (acc ++ img)
  match tok.splitOn ":" with
  | ["all", g, v] =>
    match g.toNat?, v.toNat? with
    | some g, some v => fits [g, v, Dnp3.Gen.App.qAllObjects]
    | _, _ => .badspec
  | [k, g, v, s, e] =>
    match g.toNat?, v.toNat?, s.toNat?, e.toNat? with
    | some g, some v, some s, some e =>
      if k == "r8" then fits ([g, v, Dnp3.Gen.App.qRange8, s, e])
      else if k == "r16" then fits ([g, v, Dnp3.Gen.App.qRange16] ++ le16 s ++ le16 e)
      else .badspec
    | _, _, _, _ => .badspec
  | [k, g, v, x] =>
    match g.toNat?, v.toNat? with
    | some g, some v =>
      if k == "c8" then (match x.toNat? with | some n => fits [g, v, Dnp3.Gen.App.qCount8, n] | none => .badspec)
      else if k == "c16" then (match x.toNat? with | some n => fits ([g, v, Dnp3.Gen.App.qCount16] ++ le16 n) | none => .badspec)
      else if k == "one" then (match parseHexFast x with | some b => fits ([g, v, Dnp3.Gen.App.qCount8, 1] ++ b) | none => .badspec)
      else if k == "cmd8" || k == "cmd16" then
        match parseHexFast x with
        | none => .badspec
        | some octets =>
          -- `CommandBuilder` → `CommandHeaders::write` → `write_prefixed_items` (Model/RequestBuilder)
          let wide := k == "cmd16"
          let items : List CmdItem := (chunks (idxSize wide + fixedSize g v) octets).filterMap fun c =>
            (readIdx wide c).map fun (i, val) => (i, val)
          match writeCommands cap acc g v wide items with
          | some b => .bytes b
          | none => .badwrite
      else .badspec
    | _, _ => .badspec
  | ["cr"] => fits [80, 1, Dnp3.Gen.App.qRange8, 7, 7, 0]
  | [k, v, x] =>
    -- `DeadBandHeader::group34_var<v>_u8|u16` → `WriteDeadBandsTask::write` → `write_prefixed_items`:
    -- unlike a command header it is written even when it carries no item (count 0)
    if k == "db8" || k == "db16" then
      match v.toNat?, parseHexFast x with
      | some v, some octets =>
        if v < 1 || v > 3 then .badspec else
        let wide := k == "db16"
        let sz := idxSize wide + fixedSize 34 v
        if octets.length % sz != 0 then .badspec else
        let items : List CmdItem := (chunks sz octets).filterMap fun c =>
          (readIdx wide c).map fun (i, val) => (i, val)
        match writePrefixedItems cap acc 34 v wide items with
        | some b => .bytes b
        | none => .badwrite
      | _, _ => .badspec
    else .badspec
  | _ => .badspec

def buildOp (ctrl fn cap : Nat) (toks : List String) : List String :=
  if cap < 2 then ["badwrite", "ok"] else
  let rec go (acc : List Nat) : List String → BuildRes
    | [] => .bytes acc
    | t :: ts =>
      match buildHdr cap acc t with
      | .bytes b => go b ts
      | r => r
  match go (writeRequestHeader (Control.ofByte ctrl) fn) toks with
  | .bytes b => [s!"bytes {toHex b}"] ++ parseOp false b false
  | .badwrite => ["badwrite", "ok"]
  | .badspec => ["badspec", "ok"]

def parseStep (u : Unit) (line : String) : Unit × List String :=
  match words line with
  | ["parse", k, hex] =>
    match parseHexFast hex with
    | some bs => (u, parseOp (k == "resp") bs false)
    | none => (u, ["bad-op"])
  | ["parse", k, hex, "z"] =>
    match parseHexFast hex with
    | some bs => (u, parseOp (k == "resp") bs true)
    | none => (u, ["bad-op"])
  | "build" :: ctrl :: fn :: cap :: toks =>
    match ctrl.toNat?, fn.toNat?, cap.toNat? with
    | some c, some f, some cap => (u, buildOp c f cap toks)
    | _, _, _ => (u, ["bad-op"])
  | [] => (u, [])
  | _ => (u, ["bad-op"])

end Dnp3.Driver
