import Dnp3.Driver.Parse
import Dnp3.Model.Attr
/-! engine `attr` (C09, device attributes): see harness/src/eng_attr.rs for the op / output format -/
namespace Dnp3.Driver.AttrEngine
open Dnp3 Dnp3.App Dnp3.Attr Dnp3.Driver Dnp3.Gen.Attrs

structure AState where
  map : SetMap := []
  sel : List Selected := []

def hexN (digits : Nat) (n : Nat) : String :=
  String.ofList ((List.range digits).map fun i => hexChar (n / 16 ^ (digits - 1 - i) % 16))

def valueStr : Value → String
  | .vstr bs => s!"vstr {toHex bs}"
  | .uint n => s!"uint {n}"
  | .int i => s!"int {i}"
  | .f32 b => s!"f32 {hexN 8 b}"
  | .f64 b => s!"f64 {hexN 16 b}"
  | .ostr bs => s!"ostr {toHex bs}"
  | .bstr bs => s!"bstr {toHex bs}"
  | .time t => s!"time {t}"
  | .list items =>
    let xs := (iterList items).map fun (v, w) => s!"{v}:{if w then 1 else 0}"
    if xs.isEmpty then "list -" else s!"list {",".intercalate xs}"

def parseInt? (s : String) : Option Int :=
  if s.startsWith "-" then (s.drop 1).toNat?.map fun n => -(n : Int) else s.toNat?.map fun n => (n : Int)

def hexNat? (s : String) : Option Nat :=
  s.toList.foldl (fun acc c => match acc, hexDigit c with | some a, some d => some (a * 16 + d) | _, _ => none) (some 0)

/-- `<kind> <payload>` of the ops file; `none` = not a value the harness can hand to the library -/
def readValue (kind payload : String) : Option Value :=
  match kind with
  | "vstr" => (parseHexFast payload).bind fun bs => if validUtf8 bs then some (.vstr bs) else none
  | "uint" => payload.toNat?.bind fun n => if n < 2 ^ 32 then some (.uint n) else none
  | "int" => (parseInt? payload).bind fun i => if -(2 ^ 31 : Int) ≤ i ∧ i < 2 ^ 31 then some (.int i) else none
  | "f32" => (hexNat? payload).bind fun b => if b < 2 ^ 32 then some (.f32 b) else none
  | "f64" => (hexNat? payload).bind fun b => if b < 2 ^ 64 then some (.f64 b) else none
  | "ostr" => (parseHexFast payload).map .ostr
  | "bstr" => (parseHexFast payload).map .bstr
  | "time" => payload.toNat?.map fun t => .time (t % 2 ^ 48)   -- `Timestamp::new` masks to 48 bits
  | _ => none

def attrLine (q set var : Nat) (payload : List Nat) : String :=
  match parseValue payload with
  | .ok (v, _) => s!"a {q} {set} {var} {valueStr v}"
  | .error _ => "model-gap"   -- unreachable: `walk` accepted the value (theorem parseValue_agrees_with_walk)

def headerLine (r : HeaderRec) : String :=
  let q := r.spec.qualifier
  match r.kind with
  | .attr => attrLine q r.spec.start r.var.var r.payload
  | .prefAttr =>
    let w := idxSize r.spec.wide
    let idx := match readIdx r.spec.wide r.payload with | some (i, _) => i | none => 0
    attrLine q idx r.var.var (r.payload.drop w)
  | _ =>
    if r.var.group = 0 then
      match r.spec with
      | .range _ s e => s!"r {r.var.var} {q} {s}..{e}"
      | .all => s!"r {r.var.var} {q} -"
      | _ => s!"h {r.var.group} {r.var.var} {q}"
    else s!"h {r.var.group} {r.var.var} {q}"

/-- the dump of a whole fragment (application header + objects) -/
def fragmentLines (frag : List Nat) : List String :=
  match parseHeader frag with
  | .error .insufficient => ["err hdr insufficient"]
  | .error (.unknownFunction s f) => [s!"err hdr unknownfn {s} {f}"]
  | .ok h =>
    let isRead := h.function == Dnp3.Gen.App.fnRead
    match walk isRead false h.objects with
    | .ok recs => recs.map headerLine ++ [s!"n {recs.length}"]
    | .error e => [s!"objerr {parseErrStr e}"]

def dtCode (d : DataType) : Nat := d.code

def defErrStr : DefErr → String
  | .alreadyDefined => "already"
  | .badType e a => s!"badtype {dtCode e} {dtCode a}"
  | .reserved v => s!"reserved {v}"
  | .notWritable s v => s!"notwritable {s} {v}"

def writeErrStr : WriteErr → String
  | .attrNotDefined => "AttrNotDefined"
  | .setNotDefined => "SetNotDefined"
  | .badType => "BadType"
  | .reservedVariation => "ReservedVariation"
  | .notWritable => "NotWritable"

def readHdrOf (r : HeaderRec) : ReadHdr :=
  match r.spec with
  | .all => .all r.var.var
  | .range _ s e => .specific r.var.var s e
  | _ => .unsupported

/-- `<set>:<var>:<kind>:<payload>` -/
def readSpec (s : String) : Option Obj :=
  match s.splitOn ":" with
  | [set, var, kind, payload] =>
    match set.toNat?, var.toNat?, readValue kind payload with
    | some set, some var, some v => some ⟨set, var, v⟩
    | _, _, _ => none
  | _ => none

def attrStep (st : AState) (line : String) : AState × List String :=
  match words line with
  | ["new"] => ({}, ["ok"])
  | ["reset"] => ({ st with sel := [] }, ["ok"])
  | ["def", set, var, w, kind, payload] =>
    match set.toNat?, var.toNat?, readValue kind payload with
    | some set, some var, some v =>
      match define st.map set var (w == "1") v with
      | .ok m => ({ st with map := m }, ["def ok", "ok"])
      | .error e => (st, [s!"def err {defErrStr e}", "ok"])
    | _, _, _ => (st, ["def err badspec", "ok"])
  | ["sel", h] =>
    match parseHexFast h with
    | none => (st, ["bad-op", "ok"])
    | some bs =>
      match walk true false bs with
      | .error _ => (st, ["parse-error", "ok"])
      | .ok recs =>
        if recs.any (fun r => r.var.group ≠ 0) then (st, ["not-g0", "ok"]) else
        let (sel, iin) := recs.foldl (fun (acc : List Selected × Nat) r =>
          let (s', i) := selectHeader st.map acc.1 (readHdrOf r); (s', acc.2 ||| i)) (st.sel, 0)
        ({ st with sel := sel }, [s!"sel {iin}", "ok"])
  | ["write", cap] =>
    match cap.toNat? with
    | none => (st, ["bad-op", "ok"])
    | some cap =>
      let (buf, rest) := writeAll st.map cap st.sel []
      let complete := rest.isEmpty
      ({ st with sel := rest },
        [s!"resp {toHex buf} {b01 complete}"] ++ fragmentLines ([0xC0, 0x81, 0, 0] ++ buf) ++ ["ok"])
  | ["parse", fn, h] =>
    match fn.toNat?, parseHexFast h with
    | some fn, some bs =>
      let hdr := if fn = 129 ∨ fn = 130 then [0xC0, fn, 0, 0] else [0xC0, fn]
      (st, fragmentLines (hdr ++ bs) ++ ["ok"])
    | _, _ => (st, ["bad-op", "ok"])
  | "mwrite" :: cap :: specs =>
    match cap.toNat? with
    | none => (st, ["bad-op", "ok"])
    | some cap =>
      let objs := specs.map readSpec
      if objs.any Option.isNone then (st, ["req err badspec", "ok"]) else
      match buildWrite cap (objs.filterMap id) with
      | .error .cursor => (st, ["req err cursor", "ok"])
      | .error (.badLength n) => (st, [s!"req err badattr {n}", "ok"])
      | .ok body =>
        let frag := [0xC0, 0x02] ++ body
        (st, [s!"req {toHex frag}"] ++ fragmentLines frag ++ ["ok"])
  | ["wattr", h] =>
    match parseHexFast h with
    | none => (st, ["bad-op", "ok"])
    | some bs =>
      match walk false false bs with
      | .error _ => (st, ["parse-error", "ok"])
      | .ok recs =>
        let (m, res) := recs.foldl (fun (acc : SetMap × List String) r =>
          match r.kind, r.spec with
          | .attr, .range _ s _ =>
            match parseValue r.payload with
            | .error _ => (acc.1, acc.2 ++ ["model-gap"])
            | .ok (v, _) =>
              match writeAttrValue acc.1 s r.var.var v with
              | .ok m' => (m', acc.2 ++ ["ok"])
              | .error e => (acc.1, acc.2 ++ [writeErrStr e])
          | _, _ => (acc.1, acc.2 ++ ["skip"])) (st.map, [])
        ({ st with map := m }, [s!"wr {if res.isEmpty then "-" else ",".intercalate res}", "ok"])
  | [] => (st, [])
  | _ => (st, ["bad-op", "ok"])

end Dnp3.Driver.AttrEngine
