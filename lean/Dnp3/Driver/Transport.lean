import Dnp3.Driver.Link
import Dnp3.Model.Transport
namespace Dnp3.Driver

def bcStr : Option Nat → String
  | none => "-"
  | some m => toString m

def toutStr : TOut → String
  | .frag fi d => s!"frag {fi.id} {fi.source} {bcStr fi.broadcast} {toHex d}"
  | .linkMsg s isReq => s!"linkmsg {s} {if isReq then "req" else "resp"}"
  | .reply b => s!"reply {toHex b}"
  | .err e => s!"err {perrStr e}"

structure TState where
  rd : TReader
  wseq : Nat := 0
deriving Inhabited

def TState.init : TState := { rd := TReader.new ⟨false, false, 1024⟩ .close .stream 2048 }

/-- engine `transport`:
    `new m|o self local rx d|c s|g` | `feed hex` | `feed2 hex` | `write dest hex` | `reset` -/
def transportStep (s : TState) (line : String) : TState × List String :=
  match words line with
  | ["new", role, slf, loc, rx, em, rm] =>
    match loc.toNat?, rx.toNat? with
    | some loc, some rx =>
      let em := if em == "d" then ErrMode.discard else .close
      let rm := if rm == "g" then ReadMode.datagram else .stream
      ({ rd := TReader.new ⟨role == "m", slf == "1" && role != "m", loc⟩ em rm rx, wseq := 0 }, ["ok"])
    | _, _ => (s, ["bad-op"])
  | ["feed", hex] =>
    match parseHex hex with
    | some bs => let (rd, outs) := s.rd.feed false bs; ({ s with rd := rd }, outs.map toutStr ++ ["ok"])
    | none => (s, ["bad-op"])
  | ["feed2", hex] =>
    match parseHex hex with
    | some bs => let (rd, outs) := s.rd.feed true bs; ({ s with rd := rd }, outs.map toutStr ++ ["ok"])
    | none => (s, ["bad-op"])
  | ["write", dest, hex] =>
    match dest.toNat?, parseHex hex with
    | some dest, some frag =>
      let (frames, seq') := segment s.rd.cfg.isMaster dest s.rd.cfg.localAddr s.wseq frag
      ({ s with wseq := seq' }, frames.map (fun f => s!"bytes {toHex f}") ++ ["ok"])
    | _, _ => (s, ["bad-op"])
  | ["reset"] => ({ s with rd := s.rd.reset, wseq := 0 }, ["ok"])
  | [] => (s, [])
  | _ => (s, ["bad-op"])

end Dnp3.Driver
