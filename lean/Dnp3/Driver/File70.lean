import Dnp3.Driver.Parse
import Dnp3.Model.File70
/-! engine `file70` (C09, file-transfer objects): see harness/src/eng_file70.rs for the op / output format -/
namespace Dnp3.Driver.File70Engine
open Dnp3 Dnp3.App Dnp3.File70 Dnp3.Driver

structure FState where
  reader : Option RTask := none

def objLine : FileObj → String
  | .auth k u p => s!"f2 {k} {toHex u} {toHex p}"
  | .command t pm k sz m mb rq n => s!"f3 {t} {pm} {k} {sz} {m} {mb} {rq} {toHex n}"
  | .commandStatus h sz mb rq st tx => s!"f4 {h} {sz} {mb} {rq} {st} {toHex tx}"
  | .transport h b d => s!"f5 {h} {b} {toHex d}"
  | .transportStatus h b st tx => s!"f6 {h} {b} {st} {toHex tx}"
  | .descriptor ft sz t pm rq n => s!"f7 {ft} {sz} {t} {pm} {rq} {toHex n}"
  | .spec s => s!"f8 {toHex s}"

def headerLine (r : HeaderRec) : String :=
  match r.kind with
  | .file v =>
    match parseObj v r.payload with
    | .ok (o, _) => objLine o
    | .error _ => "model-gap"   -- unreachable: `walk` accepted the object (theorem parseObj_agrees_with_fileRead)
  | _ => s!"h {r.var.group} {r.var.var} {r.spec.qualifier}"

/-- the dump of a whole fragment (application header + objects) -/
def fragmentLines (frag : List Nat) : List String :=
  match parseHeader frag with
  | .error .insufficient => ["err hdr insufficient"]
  | .error (.unknownFunction s f) => [s!"err hdr unknownfn {s} {f}"]
  | .ok h =>
    let isRead := h.function == Dnp3.Gen.App.fnRead
    match walk isRead false h.objects with
    | .ok recs => recs.map headerLine ++ [s!"n {recs.length}"]
    | .error e => [s!"objerr {parseErrStr e}"]

def num? (s : String) (bound : Nat) : Option Nat := s.toNat?.bind fun n => if n < bound then some n else none

def str? (s : String) : Option (List Nat) := parseHexFast s

/-- an object of the ops file.  `some (o, stringsOk)`: `stringsOk = false` when a string is not UTF-8
    (the harness cannot hand it to the library: `badspec`) -/
def readObj : List String → Option (FileObj × Bool)
  | ["v2", k, u, p] => do
    let k ← num? k (2 ^ 32); let u ← str? u; let p ← str? p
    pure (.auth k u p, validUtf8 u && validUtf8 p)
  | ["v3", t, pm, k, sz, m, mb, rq, n] => do
    let t ← num? t (2 ^ 64); let pm ← num? pm 512; let k ← num? k (2 ^ 32); let sz ← num? sz (2 ^ 32)
    let m ← num? m (2 ^ 16); let mb ← num? mb (2 ^ 16); let rq ← num? rq (2 ^ 16); let n ← str? n
    pure (.command (t % 2 ^ 48) pm k sz m mb rq n, validUtf8 n)   -- `Timestamp::new` masks to 48 bits
  | ["v4", h, sz, mb, rq, st, tx] => do
    let h ← num? h (2 ^ 32); let sz ← num? sz (2 ^ 32); let mb ← num? mb (2 ^ 16); let rq ← num? rq (2 ^ 16)
    let st ← num? st 256; let tx ← str? tx
    pure (.commandStatus h sz mb rq st tx, validUtf8 tx)
  | ["v5", h, b, d] => do
    let h ← num? h (2 ^ 32); let b ← num? b (2 ^ 32); let d ← str? d
    pure (.transport h b d, true)
  | ["v6", h, b, st, tx] => do
    let h ← num? h (2 ^ 32); let b ← num? b (2 ^ 32); let st ← num? st 256; let tx ← str? tx
    pure (.transportStatus h b st tx, validUtf8 tx)
  | ["v7", ft, sz, t, pm, rq, n] => do
    let ft ← num? ft (2 ^ 16); let sz ← num? sz (2 ^ 32); let t ← num? t (2 ^ 64); let pm ← num? pm 512
    let rq ← num? rq (2 ^ 16); let n ← str? n
    pure (.descriptor ft sz (t % 2 ^ 48) pm rq n, validUtf8 n)
  | ["v8", s] => do
    let s ← str? s
    pure (.spec s, validUtf8 s)
  | _ => none

/-- (function code, object, strings are UTF-8) of a master task -/
def readTask : List String → Option (Nat × FileObj × Bool)
  | ["auth", u, p] => do
    let u ← str? u; let p ← str? p
    pure (fnAuthenticateFile, authRequest u p, validUtf8 u && validUtf8 p)
  | ["open", n, k, sz, m, pm, mb] => do
    let n ← str? n; let k ← num? k (2 ^ 32); let sz ← num? sz (2 ^ 32); let m ← num? m (2 ^ 16)
    let pm ← num? pm 512; let mb ← num? mb (2 ^ 16)
    pure (fnOpenFile, openRequest n k sz m pm mb, validUtf8 n)
  | ["close", h] => do
    let h ← num? h (2 ^ 32)
    pure (fnCloseFile, closeRequest h, true)
  | ["info", n] => do
    let n ← str? n
    pure (fnGetFileInfo, infoRequest n, validUtf8 n)
  | ["wblock", h, b, d] => do
    let h ← num? h (2 ^ 32); let b ← num? b (2 ^ 32); let d ← str? d
    pure (fnWrite, writeBlockRequest h b d, true)
  | _ => none

def reqLines (r : Except WErr (List Nat)) (taskErr : Bool) : List String :=
  match r with
  | .ok frag => [s!"req {toHex frag}"] ++ fragmentLines frag
  | .error e => if taskErr then ["req err write"] else [match e with | .cursor => "req err cursor" | .overflow => "req err overflow"]

def cbLine : RCb → String
  | .opened n => s!"cb opened {n}"
  | .block n d => s!"cb block {n} {toHex d}"
  | .aborted w => s!"cb aborted {w}"
  | .completed => "cb completed"

def dirLine : FileObj → String
  | .descriptor ft sz t pm _ n => s!"d {ft} {sz} {t} {pm} {toHex n}"
  | _ => "model-gap"

def allSome {α : Type} : List (Option α) → Option (List α)
  | [] => some []
  | none :: _ => none
  | some x :: r => (allSome r).map (x :: ·)

def file70Step (st : FState) (line : String) : FState × List String :=
  match words line with
  | ["new"] => ({}, ["ok"])
  | "build" :: ctrl :: fn :: cap :: raw :: obj =>
    match num? ctrl 256, num? fn 256, cap.toNat?, readObj obj with
    | some ctrl, some fn, some cap, some (o, strOk) =>
      if raw ≠ "0" ∧ raw ≠ "1" then (st, ["bad-op", "ok"]) else
      if ¬ knownFunction fn then (st, ["req err badspec", "ok"])
      else if cap < 2 then (st, ["req err cursor", "ok"])
      else if ¬ hasWriter o then (st, ["req err nowriter", "ok"])
      else if ¬ strOk then (st, ["req err badspec", "ok"])
      else (st, reqLines (buildRequest cap ctrl fn o) false ++ ["ok"])
    | _, _, _, _ => (st, ["bad-op", "ok"])
  | "task" :: seq :: cap :: spec =>
    match num? seq 256, cap.toNat?, readTask spec with
    | some seq, some cap, some (fn, o, strOk) =>
      if ¬ strOk then (st, ["req err badspec", "ok"])
      else (st, reqLines (buildRequest cap (0xC0 + seq % 16) fn o) true ++ ["ok"])
    | _, _, _ => (st, ["bad-op", "ok"])
  | ["parse", h] =>
    match parseHexFast h with
    | some bs => (st, fragmentLines bs ++ ["ok"])
    | none => (st, ["bad-op", "ok"])
  | "rnew" :: name :: mb :: ms :: creds =>
    match str? name, num? mb (2 ^ 16), ms.toNat?, allSome (creds.map str?) with
    | some name, some mb, some ms, some cs =>
      match cs with
      | [] =>
        if validUtf8 name then ({ reader := some ⟨name, mb, ms, .openFile 0⟩ }, ["rnew ok", "ok"])
        else ({ reader := none }, ["rnew badspec", "ok"])
      | [u, p] =>
        if validUtf8 name && validUtf8 u && validUtf8 p then ({ reader := some ⟨name, mb, ms, .getAuth u p⟩ }, ["rnew ok", "ok"])
        else ({ reader := none }, ["rnew badspec", "ok"])
      | _ => (st, ["bad-op", "ok"])
    | _, _, _, _ => (st, ["bad-op", "ok"])
  | ["rreq", seq, cap] =>
    match num? seq 256, cap.toNat? with
    | some seq, some cap =>
      match st.reader with
      | none => (st, ["req none", "ok"])
      | some t =>
        let (fn, o) := t.request
        (st, reqLines (buildRequest cap (0xC0 + seq % 16) fn o) true ++ ["ok"])
    | _, _ => (st, ["bad-op", "ok"])
  | ["rresp", h] =>
    match parseHexFast h with
    | none => (st, ["bad-op", "ok"])
    | some frag =>
      match st.reader with
      | none => (st, ["ended", "ok"])
      | some t =>
        match parseHeader frag with
        | .error _ => (st, ["noresponse header", "ok"])
        | .ok hd =>
          match validateResponse hd with
          | .error _ => (st, ["noresponse validation", "ok"])
          | .ok _ =>
            let (next, cbs) := t.handle hd.objects
            ({ reader := next }, cbs.map cbLine ++ [if next.isSome then "next" else "end", "ok"])
  | "dir" :: blocks =>
    match allSome (blocks.map str?) with
    | none => (st, ["bad-op", "ok"])
    | some bl =>
      match parseDir bl.flatten with
      | none => (st, ["dir err", "ok"])
      | some items => (st, [s!"dir {items.length}"] ++ items.map dirLine ++ ["ok"])
  | [] => (st, [])
  | _ => (st, ["bad-op", "ok"])

end Dnp3.Driver.File70Engine
