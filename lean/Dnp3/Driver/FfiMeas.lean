import Dnp3.Driver.Util
import Dnp3.Model.FfiMeas
namespace Dnp3.Driver

/-- engine `ffimeas`: one op = one call of a native `ReadHandler` method on the binding's `ffi::ReadHandler`;
    the model prints what the foreign consumer must observe (see `Dnp3.FfiMeas.cross`) -/
def ffimeasStep (u : Unit) (line : String) : Unit × List String :=
  let l := line.trimAscii.toString
  if l.isEmpty then (u, []) else (u, Dnp3.FfiMeas.cross l ++ ["ok"])

end Dnp3.Driver
