import Dnp3.Driver.Util
import Dnp3.Model.Database
/-! engine `db`: the outstation database model behind the line protocol of `harness/src/eng_db.rs`

ops:  new <evmax> [<max_read_sel>]                      binary and analog inputs `evmax` events each
      newc <bin> <dbl> <bos> <ctr> <frz> <an> <aos> <os> <class-zero mask> [<max_read_sel>]
                                                        per-type maxima; mask bit i = type i is in class 0
      add <type> <idx> <class> [<svar> <evar> [<deadband>]]   type = bin|dbl|bos|ctr|frz|an|aos|os
      upd <type> <idx> <value> <flags> <time>           value: integer; octet string: hex octets or `-`
      updo <type> <idx> <value> <flags> <time> <opts>   the same with `UpdateOptions` number <opts>: 0..2 = Detect /
                                                        Force / Suppress, +3 = `update_static` false
      select <hex of READ object headers> | write <cap> | unsol <c1c2c3 bits> <cap> | clear | reset | iin
out:  add true|false | upd nopoint|noevent|created <id>|overflow <created> <discarded>
      sel <iin2> | parse-error | resp <hex> <has_events 0|1> <complete 0|1> | unsol <hex> <count>
      cleared <ids|-> <c1> <c2> <c3> | iin <c1><c2><c3> <ovf> | panic | ok
A panic poisons the database mutex of the real handle: every later op of the case prints `panic`. -/
namespace Dnp3.Driver.DbEngine
open Dnp3.Driver
open Dnp3.DbM

structure DbState where
  db : Db := Db.new 0 none
  dead : Bool := false
deriving Inhabited

def ptOf (s : String) : Option PtType :=
  if s == "bin" then some .binary else if s == "dbl" then some .doubleBitBinary
  else if s == "bos" then some .binaryOutputStatus else if s == "ctr" then some .counter
  else if s == "frz" then some .frozenCounter else if s == "an" then some .analog
  else if s == "aos" then some .analogOutputStatus else if s == "os" then some .octetString else none

/-- the measurement of an `upd` op: an octet string's value is hex (`-` = empty) -/
def measOf (t : PtType) (value : String) (flags time : Nat) : Option Meas :=
  match t with
  | .octetString => (parseHex value).map mkOctets
  | _ => (value.toInt?).map fun v => mkMeas t v flags time

def b01 (b : Bool) : String := if b then "1" else "0"

def updStr : UpdInfo → String
  | .noPoint => "upd nopoint"
  | .noEvent => "upd noevent"
  | .created id => s!"upd created {id}"
  | .overflow c d => s!"upd overflow {c} {d}"

def idsStr (ids : List Nat) : String :=
  if ids.isEmpty then "-" else ",".intercalate (ids.map toString)

/-- apply the headers one after the other, OR-ing IIN2 (`DatabaseHandle::select`) -/
def selectAll (db : Db) : List ReadHdr → Db × Nat
  | [] => (db, 0)
  | h :: hs =>
    let (db1, i1) := db.select h
    let (db2, i2) := selectAll db1 hs
    (db2, i1 ||| i2)

def dbStep (s : DbState) (line : String) : DbState × List String :=
  let ws := words line
  match ws with
  | [] => (s, [])
  | "new" :: rest =>
    match rest.map String.toNat? with
    | [some ev] => ({ db := Db.new (legacyEv ev) none, dead := false }, ["ok"])
    | [some ev, some sel] => ({ db := Db.new (legacyEv ev) (some sel), dead := false }, ["ok"])
    | _ => (s, ["bad-op"])
  | "newc" :: rest =>
    match rest.mapM String.toNat? with
    | some (b :: d :: bo :: c :: f :: a :: ao :: o :: cz :: sel) =>
      if sel.length > 1 then (s, ["bad-op"]) else
      ({ db := Db.newCfg ⟨b, d, bo, c, f, a, ao, o⟩ (TyVec.ofFn fun t => cz / 2 ^ tyIdx t % 2 == 1) sel.head?,
         dead := false }, ["ok"])
    | _ => (s, ["bad-op"])
  | _ =>
  if s.dead then
    -- the request is parsed before the (poisoned) mutex is taken
    match ws with
    | ["select", hex] =>
      match parseHex hex with
      | none => (s, ["bad-op"])
      | some bs =>
        match parseReadHdrs (bs.length + 1) bs with
        | none => (s, ["parse-error", "ok"])
        | some hs => if hs.any (fun h => h.classify == .parseError) then (s, ["parse-error", "ok"]) else (s, ["panic", "ok"])
    | _ => (s, ["panic", "ok"])
  else
  match ws with
  | ["add", t, idx, cls] =>
    match ptOf t, idx.toNat?, cls.toNat? with
    | some t, some idx, some cls =>
      let (db, r) := s.db.add t idx cls
      ({ s with db := db }, [s!"add {r}", "ok"])
    | _, _, _ => (s, ["bad-op"])
  | ["add", t, idx, cls, sv, ev] =>
    match ptOf t, idx.toNat?, cls.toNat?, sv.toNat?, ev.toNat? with
    | some t, some idx, some cls, some sv, some ev =>
      let (db, r) := s.db.addCfg t idx cls sv ev 0
      ({ s with db := db }, [s!"add {r}", "ok"])
    | _, _, _, _, _ => (s, ["bad-op"])
  | ["add", t, idx, cls, sv, ev, dbd] =>
    match ptOf t, idx.toNat?, cls.toNat?, sv.toNat?, ev.toNat?, dbd.toNat? with
    | some t, some idx, some cls, some sv, some ev, some dbd =>
      let (db, r) := s.db.addCfg t idx cls sv ev dbd
      ({ s with db := db }, [s!"add {r}", "ok"])
    | _, _, _, _, _, _ => (s, ["bad-op"])
  | ["updo", t, idx, value, flags, time, opts] =>
    match ptOf t, idx.toNat?, flags.toNat?, time.toNat?, opts.toNat? with
    | some t, some idx, some flags, some time, some opts =>
      match measOf t value flags time with
      | some m =>
        let (db, r) := s.db.updateOpt t idx m (optsOfCode opts)
        ({ s with db := db }, [updStr r, "ok"])
      | none => (s, ["bad-op"])
    | _, _, _, _, _ => (s, ["bad-op"])
  | ["upd", t, idx, value, flags, time] =>
    match ptOf t, idx.toNat?, flags.toNat?, time.toNat? with
    | some t, some idx, some flags, some time =>
      match measOf t value flags time with
      | some m =>
        let (db, r) := s.db.updateM t idx m
        ({ s with db := db }, [updStr r, "ok"])
      | none => (s, ["bad-op"])
    | _, _, _, _ => (s, ["bad-op"])
  | ["select", hex] =>
    match parseHex hex with
    | none => (s, ["bad-op"])
    | some bs =>
      match parseReadHdrs (bs.length + 1) bs with
      | none => (s, ["parse-error", "ok"])
      | some hs =>
        if hs.any (fun h => h.classify == .parseError) then (s, ["parse-error", "ok"])
        else if hs.any (fun h => h.classify == .uncovered) then (s, ["uncovered", "ok"])
        else
          let (db, iin) := selectAll s.db hs
          ({ s with db := db }, [s!"sel {iin}", "ok"])
  | ["write", cap] =>
    match cap.toNat? with
    | some cap =>
      let (db, bytes, hasEv, complete) := s.db.writeResponse cap
      ({ s with db := db }, [s!"resp {toHex bytes} {b01 hasEv} {b01 complete}", "ok"])
    | none => (s, ["bad-op"])
  | ["unsol", cls, cap] =>
    match cap.toNat? with
    | some cap =>
      let cs := cls.toList
      let bit (i : Nat) : Bool := cs.getD i '0' == '1'
      let (db, bytes, n) := s.db.writeUnsolicited (bit 0) (bit 1) (bit 2) cap
      ({ s with db := db }, [s!"unsol {toHex bytes} {n}", "ok"])
    | none => (s, ["bad-op"])
  | ["clear"] =>
    let (db, ids, (c1, c2, c3)) := s.db.clearWritten
    ({ s with db := db }, [s!"cleared {idsStr ids} {c1} {c2} {c3}", "ok"])
  | ["reset"] => ({ s with db := s.db.reset }, ["ok"])
  | ["iin"] =>
    match s.db.unwrittenClasses with
    | none => ({ s with dead := true }, ["panic", "ok"])
    | some (c1, c2, c3) => (s, [s!"iin {b01 c1}{b01 c2}{b01 c3} {b01 s.db.isOverflown}", "ok"])
  | _ => (s, ["bad-op"])

end Dnp3.Driver.DbEngine
