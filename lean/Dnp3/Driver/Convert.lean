import Std.Data.TreeMap
import Dnp3.Driver.Util
import Dnp3.Model.Measurement
/-!
engine `convert` (C10): predicts what the master's `ReadHandler` receives for a READ of the
outstation database.  The conversions are `Dnp3.Meas.{toVariation, fromVariation, promote, ctoFits,
...}` (the functions the C10 theorems are about); this file only keeps the bookkeeping around
them: points per type, the event list with its selection marks, the order in which
`write_response_headers` emits events and static ranges, and how many events fit a fragment.

ops / outputs: see harness/src/eng_convert.rs
-/
namespace Dnp3.Driver
open Dnp3.Meas Dnp3.Gen.Conv

structure CPoint where
  cur : Meas
  r32 : Nat
  octets : List Nat
  svar : Nat
  evar : Nat
  cls : Nat

structure CEv where
  ty : Nat
  idx : Nat
  cls : Nat
  m : Meas
  r32 : Nat
  octets : List Nat
  evar : Nat
  sel : Option Nat

structure CState where
  pts : Array (Std.TreeMap Nat CPoint)
  evs : Array CEv
  maxev : Nat
  tx : Nat
  c0os : Bool

def CState.init (maxev tx : Nat) (c0os : Bool) : CState :=
  ⟨Array.replicate 8 {}, #[], maxev, max tx 16, c0os⟩

def tyIndex : String → Option Nat
  | "bi" => some 0 | "db" => some 1 | "bo" => some 2 | "ct" => some 3
  | "fc" => some 4 | "ai" => some 5 | "ao" => some 6 | "os" => some 7
  | _ => none

def tyName (t : Nat) : String := #["bi", "db", "bo", "ct", "fc", "ai", "ao", "os"].getD t "?"
def mtyOf (t : Nat) : MTy := #[MTy.bi, .db, .bo, .ct, .fc, .ai, .ao].getD t .bi
def sGroup (t : Nat) : Nat := #[1, 3, 10, 20, 21, 30, 40, 110].getD t 0
def eGroup (t : Nat) : Nat := #[2, 4, 11, 22, 23, 32, 42, 111].getD t 0

def defaultMeas (t : Nat) : Meas := ⟨if t == 1 then 3 else 0, 2, some ⟨false, 0⟩⟩

def hexNat (digits : Nat) (n : Nat) : String :=
  String.ofList ((List.range digits).reverse.map fun i => hexChar (n / 16 ^ i % 16))

def parseHexNat (s : String) : Option Nat :=
  s.toList.foldlM (fun acc c => (hexDigit c).map (acc * 16 + ·)) 0

def timeStr : Option Time → String
  | none => "-"
  | some ⟨true, ms⟩ => s!"s{ms}"
  | some ⟨false, ms⟩ => s!"u{ms}"

def parseTime (s : String) : Option (Option Time) :=
  if s == "-" then some none else
  match s.toList with
  | 's' :: r => (String.ofList r).toNat?.map fun n => some ⟨true, n⟩
  | 'u' :: r => (String.ofList r).toNat?.map fun n => some ⟨false, n⟩
  | _ => none

def valStr (t : Nat) (v : Nat) : String :=
  if t == 5 || t == 6 then hexNat 16 v else toString v

def mLine (t idx g v : Nat) (hf : Bool) (val : String) (flags : Nat) (time : Option Time) : String :=
  s!"m {tyName t} {idx} g{g}v{v} hf={if hf then 1 else 0} {val} {flags} {timeStr time}"

/-- encoded size of a field of the given declared type -/
def wtySize : WTy → Nat
  | .none => 0 | .u8 => 1 | .u16 => 2 | .u32 => 4 | .i16 => 2 | .i32 => 4 | .f32 => 4 | .f64 => 8 | .ts48 => 6

def objSize (e : ToVar) : Nat :=
  (if e.flags == .absent then 0 else 1) + wtySize e.vty + wtySize e.tty

inductive Spec
  | cls (c : Nat) (lim : Option Nat)
  | stat (t : Nat) (var : Nat) (range : Option (Nat × Nat))
  | evt (t : Nat) (var : Nat) (lim : Option Nat)

def parseSpec (s : String) : Option Spec :=
  match s.splitOn ":" with
  | [c] =>
    match c.toList with
    | ['c', d] => (String.ofList [d]).toNat?.map fun n => .cls n none
    | _ => none
  | ["s", ty, var, "all"] => do pure (.stat (← tyIndex ty) (← var.toNat?) none)
  | ["s", ty, var, _, r] =>
    match r.splitOn "-" with
    | [a, b] => do pure (.stat (← tyIndex ty) (← var.toNat?) (some (← a.toNat?, ← b.toNat?)))
    | _ => none
  | ["e", ty, var, "all"] => do pure (.evt (← tyIndex ty) (← var.toNat?) none)
  | ["e", ty, var, _, k] => do pure (.evt (← tyIndex ty) (← var.toNat?) (some (← k.toNat?)))
  | [c, n] =>
    match c.toList, n.toList with
    | ['c', d], 'n' :: k => do pure (.cls (← (String.ofList [d]).toNat?) (some (← (String.ofList k).toNat?)))
    | _, _ => none
  | _ => none

/-- mark up to `lim` unselected events satisfying `p` with the variation given by `var` -/
def selectEvents (evs : Array CEv) (p : CEv → Bool) (var : CEv → Nat) (lim : Option Nat) : Array CEv :=
  let (res, _) := evs.foldl (init := (#[], lim.getD evs.size)) fun (acc, left) e =>
    if left > 0 && e.sel.isNone && p e then (acc.push { e with sel := some (var e) }, left - 1)
    else (acc.push e, left)
  res

/-- the event part of `write_response_headers` over all fragments: output lines.
`cur` = (type, variation, octet length) of the header in progress, `cto` = its common time,
`count` = objects in it, `rem` = octets left in the fragment -/
structure EvW where
  cur : Option (Nat × Nat × Nat) := none
  cto : Option Time := none
  count : Nat := 0
  rem : Nat
  out : Array String := #[]

def isCtoVar (t var : Nat) : Bool := (t == 0 || t == 1) && var == 3

def writeEvent (cap : Nat) (w : EvW) (e : CEv) (var : Nat) : EvW :=
  let olen := if e.ty == 7 then e.octets.length else 0
  let isCto := isCtoVar e.ty var
  let row := lookupTo (mtyOf e.ty) (eGroup e.ty) var
  let rec_ := 2 + (if e.ty == 7 then olen else if isCto then 3 else (row.map objSize).getD 0)
  let t := timeOrDefault e.m.time
  -- at most two attempts: in the current fragment, then in a fresh one
  let attempt (w : EvW) : Option EvW :=
    let same := w.cur == some (e.ty, var, olen) && w.count < 65535
    let fits := match w.cto with
      | some c => same && ctoFits c t
      | none => false
    let needCto := isCto && !fits
    let newHdr := !same || needCto
    let need := rec_ + (if newHdr then 5 else 0) + (if needCto then 10 else 0)
    if need > w.rem && w.rem < cap then none else
    let out := if needCto then w.out.push s!"cto {if t.sync then "s" else "u"} {t.ms}" else w.out
    let cto := if newHdr then (if isCto then some t else none) else w.cto
    let count := (if newHdr then 0 else w.count) + 1
    let line :=
      if e.ty == 7 then mLine 7 e.idx 111 olen false (toHex e.octets) 0 none
      else if isCto then
        let base := (cto.getD t)
        let wobj := toCtoVariation (mtyOf e.ty) e.m (t.ms - base.ms)
        let d := fromCtoVariation (mtyOf e.ty) wobj cto
        mLine e.ty e.idx (eGroup e.ty) var true (valStr e.ty d.val) d.flags d.time
      else match row, lookupFrom (mtyOf e.ty) (eGroup e.ty) var with
        | some r, some f =>
          let d := fromVariation f (toVariation r e.m e.r32)
          mLine e.ty e.idx (eGroup e.ty) var (r.flags != .absent) (valStr e.ty d.val) d.flags d.time
        | _, _ => s!"no-conversion {tyName e.ty} g{eGroup e.ty}v{var}"
    some { cur := some (e.ty, var, olen), cto := cto, count := count, rem := w.rem - need, out := out.push line }
  match attempt w with
  | some w' => w'
  | none =>
    match attempt { w with cur := none, cto := none, count := 0, rem := cap } with
    | some w' => w'
    | none => w

/-- one static object (octet strings are delivered at every index, 65535 included: the master-side
    `RangedBytesIterator` no longer overflows there — former defect D2) -/
def staticLine (t idx : Nat) (p : CPoint) (reqVar : Option Nat) : String :=
  if t == 7 then
    mLine 7 idx 110 p.octets.length false (toHex p.octets) 0 none
  else
    let v := promote (mtyOf t) (reqVar.getD p.svar) p.cur
    if t ≤ 2 && v == 1 then
      let d := fromPacked p.cur.val
      mLine t idx (sGroup t) 1 false (valStr t d.val) d.flags d.time
    else match lookupTo (mtyOf t) (sGroup t) v, lookupFrom (mtyOf t) (sGroup t) v with
      | some r, some f =>
        let d := fromVariation f (toVariation r p.cur p.r32)
        mLine t idx (sGroup t) v (r.flags != .absent) (valStr t d.val) d.flags d.time
      | _, _ => s!"no-conversion {tyName t} g{sGroup t}v{v}"

def doRead (s : CState) (specs : List Spec) : CState × List String :=
  -- (1) selection, header by header
  let (evs, statics) := specs.foldl (init := (s.evs, (#[] : Array (Nat × Option Nat × Nat × Nat)))) fun (evs, st) sp =>
    match sp with
    | .cls 0 _ =>
      let st := (List.range 8).foldl (init := st) fun st t =>
        if t == 7 && !s.c0os then st else
        match (s.pts.getD t {}).minKey?, (s.pts.getD t {}).maxKey? with
        | some a, some b => st.push (t, none, a, b)
        | _, _ => st
      (evs, st)
    | .cls c lim => (selectEvents evs (fun e => e.cls == c) (fun e => e.evar) lim, st)
    | .evt t var lim => (selectEvents evs (fun e => e.ty == t) (fun e => if var == 0 then e.evar else var) lim, st)
    | .stat t var range =>
      let v := if var == 0 then none else some var
      match range with
      | some (a, b) => (evs, st.push (t, v, a, b))
      | none =>
        match (s.pts.getD t {}).minKey?, (s.pts.getD t {}).maxKey? with
        | some a, some b => (evs, st.push (t, v, a, b))
        | _, _ => (evs, st)
  -- (2) events, in the order recorded
  let cap := s.tx - 4
  let w := evs.foldl (init := ({ rem := cap } : EvW)) fun w e =>
    match e.sel with
    | some var => writeEvent cap w e var
    | none => w
  let keep := evs.filter fun e => e.sel.isNone
  -- (3) static ranges in request order
  let out := statics.foldl (init := w.out) fun out (t, var, a, b) =>
    (s.pts.getD t {}).foldl (init := out) fun out idx p =>
      if idx < a || idx > b then out else out.push (staticLine t idx p var)
  ({ s with evs := keep }, out.toList ++ ["iin2 0", "ok"])

def convertStep (s : CState) (line : String) : CState × List String :=
  let ws := words line
  match ws with
  | [] => (s, [])
  | ["new", maxev, tx, c0] =>
    match maxev.toNat?, tx.toNat? with
    | some m, some t => (CState.init m t (c0 == "1"), ["ok"])
    | _, _ => (s, ["bad-op"])
  | _ =>
  match ws with
  | ["add", ty, idx, cls, sv, ev] =>
    match tyIndex ty, idx.toNat?, cls.toNat?, sv.toNat?, ev.toNat? with
    | some t, some idx, some cls, some sv, some ev =>
      let mp := s.pts.getD t {}
      if mp.contains idx then (s, ["add 0", "ok"]) else
      let p : CPoint := ⟨defaultMeas t, 0, [0], sv, ev, cls⟩
      ({ s with pts := s.pts.setIfInBounds t (mp.insert idx p) }, ["add 1", "ok"])
    | _, _, _, _, _ => (s, ["bad-op"])
  | "upd" :: ty :: idx :: val :: flags :: time :: mode :: rest =>
    match tyIndex ty, idx.toNat?, flags.toNat?, parseTime time with
    | some t, some idx, some flags, some time =>
      let force := mode == "f"
      let parsed : Option (Nat × List Nat) :=
        if t == 7 then (parseHex val).map fun bs => (0, bs)
        else if t == 5 || t == 6 then (parseHexNat val).map fun n => (n, [])
        else val.toNat?.map fun n => (n, [])
      let supplied := match rest with
        | [r] => if r.startsWith "r=" then parseHexNat (r.drop 2).toString else none
        | _ => none
      match parsed with
      | none => (s, ["bad-op"])
      | some (n, octets) =>
        -- the model's own rounding; the supplied value must agree (NaN payloads aside)
        let r32 := if t == 5 || t == 6 then f64ToF32Bits n else 0
        let isNan := n / 2 ^ 52 % 2048 == 2047 && n % 2 ^ 52 != 0
        if (t == 5 || t == 6) && !isNan && supplied.isSome && supplied != some r32 then
          (s, [s!"r32-mismatch {hexNat 8 r32}", "ok"]) else
        let mp := s.pts.getD t {}
        match mp.get? idx with
        | none => (s, ["nopoint", "ok"])
        | some p =>
          let m : Meas := if t == 7 then ⟨0, 0, none⟩ else ⟨if t == 3 || t == 4 then n % 2 ^ 32 else n, flags, time⟩
          let p' := { p with cur := m, r32 := r32, octets := octets }
          let s := { s with pts := s.pts.setIfInBounds t (mp.insert idx p') }
          if !force || p.cls == 0 || s.maxev == 0 then (s, ["noevent", "ok"]) else
          let cnt := (s.evs.filter fun e => e.ty == t).size
          let ev : CEv := ⟨t, idx, p.cls, m, r32, octets, p.evar, none⟩
          if cnt == s.maxev then
            match s.evs.findIdx? fun e => e.ty == t with
            | some i => ({ s with evs := (s.evs.eraseIdxIfInBounds i).push ev }, ["overflow", "ok"])
            | none => ({ s with evs := s.evs.push ev }, ["created", "ok"])
          else ({ s with evs := s.evs.push ev }, ["created", "ok"])
    | _, _, _, _ => (s, ["bad-op"])
  | "read" :: specs =>
    match specs.mapM parseSpec with
    | some sp => doRead s sp
    | none => (s, ["bad-op"])
  | _ => (s, ["bad-op"])

end Dnp3.Driver
