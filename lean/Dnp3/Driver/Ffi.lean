import Dnp3.Driver.Util
import Dnp3.Model.Ffi
namespace Dnp3.Driver
open Dnp3.Gen.Ffi

/-- what the table says the real conversion must produce, in the harness' canonical form
    (`Some.Class1`, `Err.ParameterError`, `None`, `BinaryInput`) -/
def armLine (a : Arm) : String :=
  let rhs := if a.wrap.isEmpty then a.rvar else a.wrap ++ "." ++ a.rvar
  s!"arm {a.impl} {a.lty}::{a.lvar} -> {rhs}"

/-- engine `ffi`: `arms <impl id>` prints every arm of that conversion the generated probe executes;
    `finding D21` says whether the table still contains the crossed `Permissions` rows -/
def ffiStep (u : Unit) (line : String) : Unit × List String :=
  match words line with
  | ["arms", id] =>
    let rows := arms.filter (fun a => a.impl == id && a.probed)
    if rows.isEmpty then (u, [s!"unknown-impl {id}", "ok"]) else (u, rows.map armLine ++ ["ok"])
  | ["finding", "D21"] => (u, [s!"finding D21 present={Dnp3.Ffi.d21Present}", "ok"])
  | ["finding", "D22"] => (u, [s!"finding D22 present={Dnp3.Ffi.d22Present}", "ok"])
  | [] => (u, [])
  | _ => (u, ["bad-op"])

end Dnp3.Driver
