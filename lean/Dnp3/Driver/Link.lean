import Dnp3.Driver.Util
import Dnp3.Model.LinkReader
namespace Dnp3.Driver

def perrStr : PErr → String
  | .start1 b => s!"start1 {b}"
  | .start2 b => s!"start2 {b}"
  | .badLen n => s!"badlen {n}"
  | .hdrCrc => "hdrcrc"
  | .bodyCrc => "bodycrc"
  | .logic => "logic"

def eventStr : LEvent → String
  | .frame h p => s!"frame {h.ctrl} {h.dst} {h.src} {toHex p}"
  | .err e => s!"err {perrStr e}"

/-- engine `link`: `new d|c s|g frag`, `feed hex`, `fmt ctrl dst src transport|- hex` -/
def linkStep (r : Reader) (line : String) : Reader × List String :=
  match words line with
  | ["new", em, rm, frag] =>
    match frag.toNat? with
    | some f =>
      let em := if em == "d" then ErrMode.discard else .close
      let rm := if rm == "g" then ReadMode.datagram else .stream
      (Reader.new em rm f, ["ok"])
    | none => (r, ["bad-op"])
  | ["reset"] => (r.reset, ["ok"])
  | ["feed", hex] =>
    match parseHex hex with
    | some bs =>
      let (r', evs) := r.feed bs
      (r', evs.map eventStr ++ ["ok"])
    | none => (r, ["bad-op"])
  | ["fmt", c, d, s, t, hex] =>
    match c.toNat?, d.toNat?, s.toNat?, parseHex hex with
    | some c, some d, some s, some app =>
      if t == "-" then (r, [s!"bytes {toHex (formatHeaderOnly ⟨c, d, s⟩)}", "ok"]) else
      match t.toNat? with
      | some t =>
        match formatDataFrame ⟨c, d, s⟩ t app with
        | some bs => (r, [s!"bytes {toHex bs}", "ok"])
        | none => (r, ["badwrite", "ok"])
      | none => (r, ["bad-op"])
    | _, _, _, _ => (r, ["bad-op"])
  | [] => (r, [])
  | _ => (r, ["bad-op"])

end Dnp3.Driver
