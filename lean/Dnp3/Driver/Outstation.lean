import Dnp3.Driver.Util
import Dnp3.Model.Outstation
namespace Dnp3.Driver

def ctlKindName : CtlKind → String
  | .select => "select" | .sbo => "operate sbo" | .dop => "operate do" | .donr => "operate donr"

def fkName : FreezeKind → String
  | .immediate => "immediate" | .clear => "clear" | .atTime => "attime"

def cbStr : Cb → String
  | .beginFragment => "begin_fragment"
  | .endFragment => "end_fragment"
  | .control k g v idx obj st => s!"{ctlKindName k} {ctlText g v idx obj} -> {st}"
  | .writeTime t => s!"write_time {t}"
  | .clearRestartIin => "clear_restart_iin"
  | .coldRestart => "cold_restart"
  | .warmRestart => "warm_restart"
  | .freezeAll k => s!"freeze all {fkName k}"
  | .freezeRange a b k => s!"freeze {a}-{b} {fkName k}"
  | .beginConfirm => "begin_confirm"
  | .eventCleared id => s!"event_cleared {id}"
  | .endConfirm a b c => s!"end_confirm {a} {b} {c}"
  | .broadcast f act => s!"broadcast {f} " ++ (match act with
      | .processed => "processed" | .ignoredByConfig => "ignored_by_config"
      | .badHeaders => "bad_headers" | .unsupported => "unsupported")
  | .solWait e => s!"sol_wait {e}"
  | .solTimeout e => s!"sol_timeout {e}"
  | .solConfirmed e => s!"sol_confirmed {e}"
  | .solNewRequest => "sol_new_request"
  | .solWrongSeq e q => s!"sol_wrong_seq {e} {q}"
  | .unexpectedConfirm u q => s!"unexpected_confirm {if u then 1 else 0} {q}"
  | .unsolWait q => s!"unsol_wait {q}"
  | .unsolTimeout q r => s!"unsol_timeout {q} {if r then 1 else 0}"
  | .unsolConfirmed q => s!"unsol_confirmed {q}"
  | .modelFuelExhausted => "model-fuel-exhausted"

def ooutStr : OOut → String
  | .cb c => s!"cb {cbStr c}"
  | .tx dst b => s!"tx {dst} {toHex b}"
  | .txLink c d s => s!"txlink {c} {d} {s}"
  | .line s => s
  | .panic => "panic"

def isTx : OOut → Bool
  | .tx .. => true
  | .txLink .. => true
  | _ => false

/-- canonical order within one op: everything that is not a transmission first -/
def canon (outs : List OOut) : List String :=
  if outs.any (fun o => match o with | .panic => true | _ => false) then ["panic"] else
  (outs.filter (fun o => !isTx o)).map ooutStr ++ (outs.filter isTx).map ooutStr

structure OSt where
  env : OEnv := {}
  st : Option OState := none
  lastSol : Nat := 0
  lastUns : Nat := 0

/-- remember the sequence numbers of the last solicited / unsolicited responses transmitted -/
def trackSeqs (o : OSt) (outs : List OOut) : OSt :=
  outs.foldl (fun o out =>
    match out with
    | .tx _ (c :: f :: _) =>
      if f = 0x81 then { o with lastSol := c % 16 } else if f = 0x82 then { o with lastUns := c % 16 } else o
    | _ => o) o

def optNat (v : String) : Option (Option Nat) :=
  if v == "none" then some none else v.toNat?.map some

def parseCfg (kvs : List String) : OCfg × OEnv × Nat :=
  kvs.foldl (fun (p : OCfg × OEnv × Nat) kv =>
    let (c, e, ev) := p
    match kv.splitOn "=" with
    | [k, v] =>
      let n := v.toNat?.getD 0
      if k == "sol" then ({ c with sol := n }, e, ev)
      else if k == "unsol" then ({ c with unsol := n }, e, ev)
      else if k == "rx" then (c, { e with rx := n }, ev)
      else if k == "unsolicited" then ({ c with unsolicited := v == "1" }, e, ev)
      else if k == "retries" then ({ c with retries := (optNat v).getD none }, e, ev)
      else if k == "ctimeout" then ({ c with ctimeout := n }, e, ev)
      else if k == "stimeout" then ({ c with stimeout := n }, e, ev)
      else if k == "rdelay" then ({ c with rdelay := n }, e, ev)
      else if k == "keepalive" then ({ c with keepalive := (optNat v).getD none }, e, ev)
      else if k == "anymaster" then ({ c with anymaster := v == "1" }, e, ev)
      else if k == "broadcast" then ({ c with broadcast := v == "1" }, e, ev)
      else if k == "selfaddr" then (c, { e with selfaddr := v == "1" }, ev)
      else if k == "maxctl" then ({ c with maxctl := (optNat v).getD none }, e, ev)
      else if k == "evmax" then (c, e, DbM.legacyEv n + ev / 65536 ^ 8 * 65536 ^ 8)
      else if k == "evcfg" then
        -- per-type maxima in the order of `enum Event`
        let ds := (v.splitOn ",").map fun x => x.toNat?.getD 0
        (c, e, DbM.evCfgToNat (DbM.TyVec.ofFn fun t => ds.getD (DbM.tyIdx t) 0) + ev / 65536 ^ 8 * 65536 ^ 8)
      else if k == "czero" then
        -- class-zero mask, bit i = type i enabled: stored as the flips of the default configuration
        let flips := (List.range 8).foldl (fun acc i =>
          acc + (if (n / 2 ^ i % 2 == 1) != Gen.DbT.classZeroDefault (DbM.tyOfIdx i) then 2 ^ i else 0)) 0
        (c, e, ev % 65536 ^ 8 + flips * 65536 ^ 8)
      else p
    | _ => p) ({}, {}, DbM.legacyEv 10)

def parseInt (s : String) : Option Int :=
  if s.startsWith "-" then (s.drop 1).toString.toNat?.map (fun n => -(n : Int)) else s.toNat?.map (fun n => (n : Int))

def ptOfCode (s : String) : Option PtType :=
  if s == "bin" then some .binary else if s == "dbl" then some .doubleBitBinary
  else if s == "bos" then some .binaryOutputStatus else if s == "ctr" then some .counter
  else if s == "frz" then some .frozenCounter else if s == "an" then some .analog
  else if s == "aos" then some .analogOutputStatus else if s == "os" then some .octetString else none

/-- an item of another type, or with `UpdateOptions` other than the default, travels through `.an` with
    the type and the options in the index (`DbM.encodeIdxOpts`, `DbM.decodeUpd`), an octet string's octets
    (hex) as a number -/
def encItem (ty : PtType) (idx : Nat) (v : String) (flags t : Nat) (o : DbM.UpdOpts) : Option TxnItem :=
  match ty with
  | .octetString => (parseHex v).map fun bs => .an (DbM.encodeIdxOpts ty idx o) (DbM.natOfOctets bs) flags t
  | _ => (parseInt v).map fun v => .an (DbM.encodeIdxOpts ty idx o) v flags t

/-- `<type>:<idx>:<value>:<flags>:<time>[:<opts>]`; plain `bin` / `an` items are the session model's own -/
def parseTxnItem (s : String) : Option TxnItem :=
  match s.splitOn ":" with
  | [k, idx, v, flags, time] =>
    match idx.toNat?, flags.toNat? with
    | some idx, some flags =>
      let t := time.toNat?.getD 0
      if k == "bin" then some (.bin idx (v == "1") flags t)
      else if k == "an" then (parseInt v).map fun v => .an idx v flags t
      else (ptOfCode k).bind fun ty => encItem ty idx v flags t {}
    | _, _ => none
  | [k, idx, v, flags, time, opts] =>
    match idx.toNat?, flags.toNat?, opts.toNat? with
    | some idx, some flags, some opts =>
      (ptOfCode k).bind fun ty => encItem ty idx v flags (time.toNat?.getD 0) (DbM.optsOfCode opts)
    | _, _, _ => none
  | _ => none

def outstationStep (o : OSt) (line : String) : OSt × List String :=
  match words line with
  | [] => (o, [])
  | "cfg" :: kvs =>
    let (cfg, env, ev) := parseCfg kvs
    let s := OState.init cfg ev
    let (s, outs) := finishStep (settle 8 (runPass passFuel (s, [])))
    (trackSeqs { env := env, st := some s } outs, canon outs ++ ["ok"])
  | ["addmany", kind, start, count, cls] =>
    match o.st, start.toNat?, count.toNat?, cls.toNat? with
    | some s, some start, some count, some cls =>
      let t := (ptOfCode kind).getD .analog
      -- the same as `count` successive `add` inputs; only the last one's wake-up matters
      let (s, okN, outs) := (List.range count).foldl (fun (p : OState × Nat × List OOut) i =>
        let (s', o') := Outstation.step o.env p.1 (.add t (start + i) cls)
        let added := o'.any fun x => match x with | .line l => l == "add 1" | _ => false
        (s', p.2.1 + (if added then 1 else 0), p.2.2 ++ o'.filter (fun x => match x with | .line _ => false | _ => true))) (s, 0, [])
      (trackSeqs { o with st := some s } outs, [s!"added {okN}"] ++ canon outs ++ ["ok"])
    | _, _, _, _ => (o, ["bad-op", "ok"])
  | op :: args =>
    match o.st with
    | none => (o, ["bad-op", "ok"])
    | some s =>
      let inp : Option OInput :=
        match op, args with
        | "rx", [src, dst, hex] =>
          match src.toNat?, dst.toNat?, parseHex hex with
          | some src, some dst, some d => some (.rx src dst d)
          | _, _, _ => none
        | "cfm", [kind, delta, src] =>
          match delta.toNat?, src.toNat? with
          | some d, some src =>
            let uns := kind == "uns"
            let seq := ((if uns then o.lastUns else o.lastSol) + d) % 16
            some (.rx src 1024 [0xC0 + (if uns then 0x10 else 0) + seq, 0])
          | _, _ => none
        | "tick", [ms] => ms.toNat?.map .tick
        | "txn", items => (items.mapM parseTxnItem).map .txn
        | "addbin", [idx, cls] => match idx.toNat?, cls.toNat? with
          | some i, some c => some (.add .binary i c) | _, _ => none
        | "addan", [idx, cls] => match idx.toNat?, cls.toNat? with
          | some i, some c => some (.add .analog i c) | _, _ => none
        | "add", [ty, idx, cls] => match ptOfCode ty, idx.toNat?, cls.toNat? with
          | some t, some i, some c => some (.add t i c) | _, _, _ => none
        -- a point with a dead-band: it travels in front of the index (`Db.add`)
        | "add", [ty, idx, cls, dbd] => match ptOfCode ty, idx.toNat?, cls.toNat?, dbd.toNat? with
          | some t, some i, some c, some d => some (.add t (i % 65536 + 65536 * d) c) | _, _, _, _ => none
        | "cut", [] => some .cut
        -- the application disables and re-enables communications: `run` returns `Stop(Disable)` instead of
        -- a link error and performs the same end-of-session resets; the next session starts like after a cut
        | "disable", [] => some .cut
        | "appiin", [b] => b.toNat?.map fun b => .setScript fun sc => { sc with appIin := b }
        | "ctl", [l] => ((l.splitOn ",").mapM String.toNat?).map fun l => .setScript fun sc => { sc with ctl := l, ctlPos := 0 }
        | "delay", [b] => b.toNat?.map fun b => .setScript fun sc => { sc with delayMs := b }
        | "restart", [b] => b.toNat?.map fun b => .setScript fun sc => { sc with restart := b }
        | "timeres", [b] => b.toNat?.map fun b => .setScript fun sc => { sc with timeResult := b }
        | _, _ => none
      match inp with
      | none => (o, ["bad-op", "ok"])
      | some inp =>
        let (s, outs) := Outstation.step o.env s inp
        let lines := canon outs
        let lines := if op == "disable" then lines.map fun l => if l == "session link stdio UnexpectedEof" then "session stop Disable" else l else lines
        (trackSeqs { o with st := some s } outs, lines ++ ["ok"])

end Dnp3.Driver
