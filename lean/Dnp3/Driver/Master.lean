import Dnp3.Driver.Util
import Dnp3.Model.MasterSession
/-!
line-protocol driver of engine `master` (ops are documented in harness/src/eng_master.rs).
The driver mirrors the harness-side bookkeeping that is not part of the master: which handles
exist, the last transmitted request (for `reply`), automatic reconnection.
-/
namespace Dnp3.Driver
open Dnp3 Dnp3.Master

def errStr : TaskErr → String
  | .tooManyRequests => "too_many_requests" | .link => "link" | .transport => "transport"
  | .rejectedIin2 _ i2 => s!"iin2:{i2}"
  | .malformed => "malformed" | .unexpectedHeaders => "unexpected_headers"
  | .nonFinWithoutCon => "non_fin_without_con" | .neverFir => "never_fir" | .unexpectedFir => "unexpected_fir"
  | .multiFragment => "multi_fragment" | .timeout => "timeout" | .writeError => "write_error"
  | .noAssociation => "no_association" | .noConnection => "no_connection" | .shutdown => "shutdown"
  | .disabled => "disabled"

def outcomeStr : Outcome → String
  | .ok => "ok"
  | .okDelay ms => s!"ok {ms}"
  | .task e => s!"err {errStr e}"
  | .cmdBadStatus s => s!"err bad_status:{s}"
  | .cmdHeaderCount => "err header_count" | .cmdHeaderType => "err header_type"
  | .cmdObjectCount => "err object_count" | .cmdObjectValue => "err object_value"
  | .tsNoSystemTime => "err no_system_time" | .tsBadDelay d => s!"err bad_delay:{d}"
  | .tsOverflow => "err overflow" | .tsStillNeedsTime => "err still_needs_time"

def ttStr : TaskType → String
  | .userRead => "user_read" | .periodicPoll => "periodic_poll" | .startupIntegrity => "startup_integrity"
  | .autoEventScan => "auto_event_scan" | .command => "command" | .clearRestartBit => "clear_restart"
  | .enableUnsolicited => "enable_unsol" | .disableUnsolicited => "disable_unsol" | .timeSync => "time_sync"
  | .restart => "restart" | .writeDeadBands => "write_dead_bands"

def rtStr : ReadType → String
  | .integrity => "integrity" | .unsolicited => "unsol" | .single => "single" | .poll => "poll"

def whoStr : Who → String
  | .assoc a => s!"{a}"
  | .custom u => s!"h{u}"

def toSigned32 (v : Nat) : Int := if v ≥ 2147483648 then (v : Int) - 4294967296 else v

def itemStr (g v : Nat) (it : Nat × List Nat) : String :=
  let (idx, d) := it
  if g = 30 ∨ g = 32 then s!"{idx}:{d.getD 0 0}:{toSigned32 (u32le (d.drop 1))}"
  else if v = 2 ∧ g = 2 then s!"{idx}:{d.getD 0 0}:{u48le (d.drop 1)}"
  else s!"{idx}:{d.getD 0 0}"

def moutStr : MOut → String
  | .tx dst b => s!"tx {dst} {toHex b}"
  | .txLink c d s => s!"txlink {c} {d} {s}"
  | .taskStart a t fc seq => s!"info {a} start {ttStr t} {fc} {seq}"
  | .taskSuccess a t fc seq => s!"info {a} success {ttStr t} {fc} {seq}"
  | .taskFail a t e => s!"info {a} fail {ttStr t} {errStr e}"
  | .unsol a dup seq => s!"info {a} unsol {if dup then 1 else 0} {seq}"
  | .deliverBegin w rt c i1 i2 => s!"deliver {whoStr w} begin {rtStr rt} {c} {i1} {i2}"
  | .deliverHdr w g v q items =>
    let l := if items.isEmpty then "-" else ",".intercalate (items.map (itemStr g v))
    s!"deliver {whoStr w} hdr {g} {v} {q} {items.length} {l}"
  | .deliverAbsTime w t => s!"deliver {whoStr w} abstime {t}"
  | .deliverEnd w rt => s!"deliver {whoStr w} end {rtStr rt}"
  | .complete uid o => s!"complete {uid} {outcomeStr o}"
  | .session r => s!"session {r}"
  | .taskExit => "task-exit"
  | .line s => s
  | .modelFuelExhausted => "model-fuel-exhausted"

/-- 0 = callbacks of the master task, 1 = results observed by the handle futures, 2 = transmissions -/
def groupOf : MOut → Nat
  | .tx .. => 2
  | .txLink .. => 2
  | .complete .. => 1
  | .line _ => 1
  | _ => 0

def canonM (outs : List MOut) : List String :=
  ((outs.filter (groupOf · = 0)) ++ (outs.filter (groupOf · = 1)) ++ (outs.filter (groupOf · = 2))).map moutStr

structure MSt where
  st : Option MState := none
  handles : List Nat := []
  pollHandles : List (Nat × Nat) := []
  lastReq : Option (Nat × List Nat) := none
  wantUp : Bool := true
  dropped : Bool := false

def trackLast (o : MSt) (outs : List MOut) : MSt :=
  outs.foldl (fun o out =>
    match out with
    | .tx dst (c :: f :: rest) => if f ≠ 0 then { o with lastReq := some (dst, c :: f :: rest) } else o
    | _ => o) o

def kvOf (kvs : List String) (k : String) : Option String :=
  kvs.findSome? fun kv =>
    match kv.splitOn "=" with
    | [a, b] => if a == k then some b else none
    | _ => none

def kvNat (kvs : List String) (k : String) (d : Nat) : Nat :=
  match kvOf kvs k with
  | some v => v.toNat?.getD d
  | none => d

def parseACfg (kvs : List String) : ACfg :=
  let d : ACfg := {}
  { rto := kvNat kvs "rto" d.rto, dis := kvNat kvs "dis" d.dis, int := kvNat kvs "int" d.int, en := kvNat kvs "en" d.en,
    ts := match kvOf kvs "ts" with
      | some "lan" => some .lan | some "nonlan" => some .nonlan | some "direct" => some .direct | _ => none,
    ovf := kvNat kvs "ovf" 1 = 1, evscan := kvNat kvs "evscan" 0,
    ka := match kvOf kvs "ka" with
      | some v => v.toNat?
      | none => none,
    rmin := kvNat kvs "rmin" d.rmin, rmax := kvNat kvs "rmax" d.rmax, maxq := kvNat kvs "maxq" d.maxq }

/-- the objects of a command request: control headers only, every count ≥ 1, at least one header -/
def validCommandObjs (objs : List Nat) : Bool :=
  match parseRespObjects objs.length objs with
  | some hs => !hs.isEmpty && hs.all fun h => (h.qual = 0x17 || h.qual = 0x28) && (ctlObjSize h.group h.var).isSome && h.a ≥ 1
  | none => false

/-- dead-band headers: g34v1 / g34v2 with 0x17 / 0x28 -/
def validDeadband : Nat → List Nat → Bool
  | 0, _ => false
  | _, [] => true
  | fuel+1, g :: v :: q :: rest =>
    if g ≠ 34 ∨ ¬(v = 1 ∨ v = 2) then false else
    let k := if v = 1 then 2 else 4
    if q = 0x17 then
      match rest with
      | c :: r => c ≥ 1 && r.length ≥ (1 + k) * c && validDeadband fuel (r.drop ((1 + k) * c))
      | _ => false
    else if q = 0x28 then
      match rest with
      | c0 :: c1 :: r =>
        let c := c0 + 256 * c1
        c ≥ 1 && r.length ≥ (2 + k) * c && validDeadband fuel (r.drop ((2 + k) * c))
      | _ => false
    else false
  | _, _ => false

def parseUser (uid : Nat) (kind : String) (args : List String) : Option Task :=
  match kind, args with
  | "read", [c] => c.toNat?.map fun c => .read (.single uid c false)
  | "readh", [c] => c.toNat?.map fun c => .read (.single uid c true)
  | "do", [h] => (parseHex h).bind fun o => if validCommandObjs o then some (.nonRead (.command uid .direct o)) else none
  | "sbo", [h] => (parseHex h).bind fun o => if validCommandObjs o then some (.nonRead (.command uid .select o)) else none
  | "time", ["lan"] => some (.nonRead (.timeSync (some uid) (.recordCurrent none)))
  | "time", ["nonlan"] => some (.nonRead (.timeSync (some uid) (.measureDelay none)))
  | "time", ["direct"] => some (.nonRead (.timeSync (some uid) (.writeAbs none)))
  | "cold", [] => some (.nonRead (.restart uid true))
  | "warm", [] => some (.nonRead (.restart uid false))
  | "deadband", [h] => (parseHex h).bind fun o =>
      if !o.isEmpty && validDeadband (o.length + 1) o then some (.nonRead (.deadband uid o)) else none
  | "link", [] => some (.linkStatus (some uid))
  | _, _ => none

/-- the response the `reply` op stands for, from the last transmitted request -/
def resolveReply (last : Option (Nat × List Nat)) (kvs : List String) : Option (Nat × Nat × List Nat) :=
  match last with
  | some (reqDst, c :: f :: reqObjs) =>
    let seq := (c % 16 + kvNat kvs "seq" 0) % 16
    let src := kvNat kvs "src" reqDst
    let dst := kvNat kvs "dst" masterAddr
    let ctrl := (if kvNat kvs "fir" 1 = 1 then 0x80 else 0) + (if kvNat kvs "fin" 1 = 1 then 0x40 else 0) +
      (if kvNat kvs "con" 0 = 1 then 0x20 else 0) + (if kvNat kvs "uns" 0 = 1 then 0x10 else 0) + seq
    let auto : List Nat :=
      if f = 3 ∨ f = 4 ∨ f = 5 then reqObjs
      else if f = 23 then [0x34, 0x02, 0x07, 0x01] ++ le16 (kvNat kvs "delay" 0)
      else if f = 13 ∨ f = 14 then [0x34, 0x01, 0x07, 0x01, 0x07, 0x00]
      else []
    let objs : List Nat := match kvOf kvs "obj" with
      | none | some "auto" => auto
      | some "echo" => reqObjs
      | some "none" => []
      | some h => (parseHex h).getD []
    some (src, dst, [ctrl, kvNat kvs "func" 129, kvNat kvs "iin1" 0, kvNat kvs "iin2" 0] ++ objs)
  | _ => none

def isOffline (s : MState) : Bool :=
  match s.mode with
  | .offline => true
  | _ => false

/-- run model inputs, then the harness' automatic reconnection -/
def runInputs (o : MSt) (s : MState) (inps : List MInput) (pre : List MOut) : MSt × List MOut :=
  let (s, outs) := inps.foldl (fun (p : MState × List MOut) i =>
    let (s', o') := Master.step p.1 i
    (s', p.2 ++ o')) (s, pre)
  let (s, outs) :=
    if isOffline s ∧ o.wantUp ∧ s.enabled then
      let (s', o') := Master.step s .connect
      (s', outs ++ o')
    else (s, outs)
  (trackLast { o with st := some s } outs, outs)

def finish (p : MSt × List MOut) : MSt × List String := (p.1, canonM p.2 ++ ["ok"])

def masterStep (o : MSt) (line : String) : MSt × List String :=
  match words line with
  | [] => (o, [])
  | "cfg" :: kvs =>
    let s : MState := { txSize := kvNat kvs "tx" 2048 }
    finish (runInputs { wantUp := true } s [] [])
  | op :: args =>
    match o.st with
    | none => (o, ["bad-op", "ok"])
    | some s =>
      let bad : MSt × List String := (o, ["bad-op", "ok"])
      let handleOp (x : MSt × List String) : MSt × List String := if o.dropped then bad else x
      match op, args with
      | "assoc", addr :: kvs =>
        match addr.toNat? with
        | none => bad
        | some addr => handleOp <|
          let (o', outs) := runInputs o s [.msg (.addAssoc addr (parseACfg kvs))] []
          let o' := if outs.any (· == .line "assoc ok") then
            { o' with handles := addr :: o'.handles.filter (· ≠ addr), pollHandles := o'.pollHandles.filter (·.1 ≠ addr) }
            else o'
          finish (o', outs)
      | "rmassoc", [addr] =>
        match addr.toNat? with
        | none => bad
        | some addr => handleOp <| finish (runInputs o s [.msg (.removeAssoc addr)] [])
      | "poll", [addr, period, classes] =>
        match addr.toNat?, period.toNat?, classes.toNat? with
        | some addr, some p, some c =>
          if !o.handles.contains addr then handleOp bad else handleOp <|
          let (o', outs) := runInputs o s [.msg (.addPoll addr p c)] []
          let o' := outs.foldl (fun o' out =>
            match out with
            | .line l =>
              match l.splitOn " " with
              | ["poll", id] => match id.toNat? with
                | some id => { o' with pollHandles := (addr, id) :: o'.pollHandles }
                | none => o'
              | _ => o'
            | _ => o') o'
          finish (o', outs)
        | _, _, _ => bad
      | "demand", [addr, k] =>
        match addr.toNat?, k.toNat? with
        | some addr, some k =>
          if !o.pollHandles.contains (addr, k) then handleOp bad
          else handleOp <| finish (runInputs o s [.msg (.demand addr k)] [])
        | _, _ => bad
      | "rmpoll", [addr, k] =>
        match addr.toNat?, k.toNat? with
        | some addr, some k =>
          if !o.pollHandles.contains (addr, k) then handleOp bad
          else handleOp <|
            finish (runInputs { o with pollHandles := o.pollHandles.filter (· ≠ (addr, k)) } s [.msg (.removePoll addr k)] [])
        | _, _ => bad
      | "user", uid :: addr :: kind :: rest =>
        match uid.toNat?, addr.toNat? with
        | some uid, some addr =>
          match parseUser uid kind rest with
          | none => bad
          | some t =>
            if !o.handles.contains addr then handleOp bad
            else handleOp <| finish (runInputs o s [.user addr t] [])
        | _, _ => bad
      | "rx", [src, dst, hex] =>
        match src.toNat?, dst.toNat?, parseHex hex with
        | some src, some dst, some d => finish (runInputs o s [.rx src dst d] [])
        | _, _, _ => bad
      | "rxlink", [src, dst, ctrl] =>
        match src.toNat?, dst.toNat?, ctrl.toNat? with
        | some src, some dst, some c => finish (runInputs o s [.rxLink src dst c] [])
        | _, _, _ => bad
      | "reply", kvs =>
        match resolveReply o.lastReq kvs with
        | none => (o, ["resolved none", "ok"])
        | some (src, dst, frag) =>
          let (o', outs) := runInputs o s [.rx src dst frag] []
          (o', [s!"resolved {src} {dst} {toHex frag}"] ++ canonM outs ++ ["ok"])
      | "tick", [ms] =>
        match ms.toNat? with
        | some ms => finish (runInputs o s [.tick ms] [])
        | none => bad
      | "clock", [v] => finish (runInputs o s [.clock v.toNat?] [])
      | "cut", [] => finish (runInputs o s [.eof] [])
      | "down", [] => finish (runInputs { o with wantUp := false } s [.eof] [])
      | "up", [] => finish (runInputs { o with wantUp := true } s [] [])
      | "enable", [] => handleOp <| finish (runInputs o s [.msg (.enable true)] [])
      | "disable", [] => handleOp <| finish (runInputs o s [.msg (.enable false)] [])
      | "shutdown", [] => handleOp <| finish (runInputs { o with dropped := true } s [.dropHandles] [])
      | _, _ => bad

end Dnp3.Driver
