import Dnp3.Gen.Attrs
import Dnp3.Model.ObjectGrammar
/-!
# Attr — model of the device-attribute (group 0) object grammar

What is modelled (all total functions over octet lists, `Nat` octets):

* attribute values (`OwnedAttrValue` / `AttrValue`, `dnp3/src/app/attr.rs`): `Value`;
  `OwnedAttrValue::write` (type code, length octet, payload; `UInt::new` / `Int::new` width choice;
  `BadAttribute::BadLength` for strings longer than 255 octets): `Value.image`;
  `AttrValue::parse` with the decoded value: `parseValue` (the existing `Dnp3.App.attrValue` of
  `Model/ObjectGrammar` decides the same acceptance and consumed length without the value:
  theorem `parseValue_agrees_with_walk`);
* the attribute list (g0v255): `get_list_encoding` (`listEncoding`: type 254 with length `2n`, or
  type 255 with length `2n - 256`), `Selection::write_attr_list` (`listImage`), `parse_attr_list`
  with the `+ 256` of the extended list, `VariationListIter` (`iterList`);
* the object header the outstation and the master's `Headers::add_attribute` use for group 0
  (`HeaderWriter::write_attribute`: g0, variation, qualifier 0x00, set, set): `objHeader`,
  `parseObj` / `parseObjs` (the parser's path for such a header: `Variation::lookup`,
  `parse_start_stop_u8`, `Range::from`, `Attribute::parse_from_range`);
* the attribute database (`attrs/map.rs` `SetMap::define`, `maybe_write`) and the READ path
  (`AttrHandler::select`, `Selection::write_all`): `SetMap`, `define`, `selectHeader`,
  `writeAll` into a cursor of a given capacity, resuming across fragments.

`HeaderWriter::write_attribute` is modelled as repaired for finding D27: the header, the type and
length octets and the payload are written atomically (the cursor is rolled back when any part
fails).  `AttrValue::parse_signed_int` is modelled as repaired for finding D29: a one-octet INT is
sign-extended.

The numeric constants and tables come from `Dnp3.Gen.Attrs` (regenerated from the Rust source).
-/
namespace Dnp3.Attr
open Dnp3.Gen.Attrs Dnp3.App

/-! ## little-endian helpers -/

/-- `k` octets of `n`, least significant first (`to_le_bytes`) -/
def leBytes : Nat → Nat → List Nat
  | 0, _ => []
  | k + 1, n => (n % 256) :: leBytes k (n / 256)

/-- `from_le_bytes` -/
def ofLe : List Nat → Nat
  | [] => 0
  | b :: r => b + 256 * ofLe r

/-- two's complement value of an unsigned `bits`-bit number (`as iN`) -/
def signExt (bits : Nat) (n : Nat) : Int :=
  if n < 2 ^ (bits - 1) then (n : Int) else (n : Int) - (2 ^ bits : Nat)

/-- `x as uN` of an `i32` -/
def wrap (bits : Nat) (i : Int) : Nat := (i % ((2 ^ bits : Nat) : Int)).toNat

/-! ## values -/

/-- `OwnedAttrValue` (the first eight constructors) / `AttrValue` (all nine).  Floats are their
    IEEE-754 bit patterns; `list` holds the raw (variation, properties octet) pairs of a
    `VariationList`. -/
inductive Value
  | vstr (bs : List Nat)
  | uint (n : Nat)
  | int (i : Int)
  | f32 (bits : Nat)
  | f64 (bits : Nat)
  | ostr (bs : List Nat)
  | bstr (bs : List Nat)
  | time (t : Nat)
  | list (items : List (Nat × Nat))
deriving DecidableEq, Repr, Inhabited

/-- `OwnedAttrValue::data_type` / `AttrValue::get_type` -/
def Value.dataType : Value → DataType
  | .vstr _ => .visibleString
  | .uint _ => .unsignedInt
  | .int _ => .signedInt
  | .f32 _ | .f64 _ => .floatingPoint
  | .ostr _ => .octetString
  | .bstr _ => .bitString
  | .time _ => .dnp3Time
  | .list _ => .attrList

def allOctets (bs : List Nat) : Prop := ∀ b ∈ bs, b < 256

/-- the values an `OwnedAttrValue` can hold (what `Database::define_attr` can be given) -/
def Value.WellFormed : Value → Prop
  | .vstr bs => allOctets bs ∧ validUtf8 bs = true
  | .uint n => n < 2 ^ 32
  | .int i => -(2 ^ 31 : Int) ≤ i ∧ i < 2 ^ 31
  | .f32 b => b < 2 ^ 32
  | .f64 b => b < 2 ^ 64
  | .ostr bs => allOctets bs
  | .bstr bs => allOctets bs
  | .time t => t < 2 ^ 48
  | .list _ => False

/-- `UInt::new(..).len()` -/
def uintLen (n : Nat) : Nat := if n ≤ 255 then 1 else if n ≤ 65535 then 2 else 4

/-- `Int::new(..).len()`: the half-open ranges `i8::MIN..i8::MAX`, `i16::MIN..i16::MAX` -/
def intLen (i : Int) : Nat :=
  if -128 ≤ i ∧ i < 127 then 1 else if -32768 ≤ i ∧ i < 32767 then 2 else 4

/-- type code, length octet and payload of an owned value; `none` = `BadAttribute::BadLength`
    (a string, octet string or bit string longer than 255 octets) -/
def Value.image : Value → Option (List Nat)
  | .vstr bs => if bs.length ≤ 255 then some (DataType.visibleString.code :: bs.length :: bs) else none
  | .uint n => some (DataType.unsignedInt.code :: uintLen n :: leBytes (uintLen n) n)
  | .int i => some (DataType.signedInt.code :: intLen i :: leBytes (intLen i) (wrap (8 * intLen i) i))
  | .f32 b => some (DataType.floatingPoint.code :: 4 :: leBytes 4 b)
  | .f64 b => some (DataType.floatingPoint.code :: 8 :: leBytes 8 b)
  | .ostr bs => if bs.length ≤ 255 then some (DataType.octetString.code :: bs.length :: bs) else none
  | .bstr bs => if bs.length ≤ 255 then some (DataType.bitString.code :: bs.length :: bs) else none
  | .time t => some (DataType.dnp3Time.code :: 6 :: leBytes 6 t)
  | .list _ => none

/-! ## attribute lists (g0v255) -/

/-- `get_list_encoding`: (length octet, type) for a list of `n` entries -/
def listEncoding (n : Nat) : Option (Nat × DataType) :=
  let len := n * listEntryOctets
  if len ≤ 255 then some (len, .attrList)
  else if extListBias ≤ len ∧ len - extListBias ≤ 255 then some (len - extListBias, .extAttrList)
  else none

/-- the octets `write_attr_list` puts after the object header: type, length, (variation, properties)* -/
def listImage (items : List (Nat × Bool)) : Option (List Nat) :=
  match listEncoding items.length with
  | none => none
  | some (len, dt) => some (dt.code :: len :: items.flatMap fun (v, w) => [v, if w then 1 else 0])

/-- pairs of a `VariationList`'s data -/
def pairs : List Nat → List (Nat × Nat)
  | a :: b :: r => (a, b) :: pairs r
  | _ => []

/-- `VariationListIter`: variation and `AttrProp::new(prop).is_writable` -/
def iterList (items : List (Nat × Nat)) : List (Nat × Bool) :=
  items.map fun (v, p) => (v, p % (2 * propWritableBit) ≥ propWritableBit)

/-! ## `AttrValue::parse` with values -/

def typeOfCode (c : Nat) : Option DataType := (codeTable.find? (·.1 == c)).map (·.2)

/-- `parse_attr_list` -/
def parseList (len : Nat) (bs : List Nat) : Except AttrErr (Value × List Nat) :=
  if len % parseListModulus ≠ 0 then .error (.badAttrListLength len) else
  match attrTake len bs with
  | .error e => .error e
  | .ok (d, rest) => .ok (.list (pairs d), rest)

/-- `AttrValue::parse`: the value and the octets after it -/
def parseValue (bs : List Nat) : Except AttrErr (Value × List Nat) :=
  match bs with
  | [] => .error .read
  | t :: r1 =>
    match typeOfCode t with
    | none => .error (.unknownDataType t)
    | some dt =>
    match r1 with
    | [] => .error .read
    | len :: r =>
      match dt with
      | .visibleString =>
        match attrTake len r with
        | .error e => .error e
        | .ok (s, rest) => if validUtf8 s then .ok (.vstr s, rest) else .error .badVisibleString
      | .unsignedInt =>
        if len = 1 ∨ len = 2 ∨ len = 4 then
          match attrTake len r with
          | .error e => .error e
          | .ok (d, rest) => .ok (.uint (ofLe d), rest)
        else .error (.badIntegerLength len)
      | .signedInt =>
        if len = 1 ∨ len = 2 ∨ len = 4 then
          match attrTake len r with
          | .error e => .error e
          | .ok (d, rest) => .ok (.int (signExt (8 * len) (ofLe d)), rest)
        else .error (.badIntegerLength len)
      | .floatingPoint =>
        if len = 4 then
          match attrTake 4 r with
          | .error e => .error e
          | .ok (d, rest) => .ok (.f32 (ofLe d), rest)
        else if len = 8 then
          match attrTake 8 r with
          | .error e => .error e
          | .ok (d, rest) => .ok (.f64 (ofLe d), rest)
        else .error (.badFloatLength len)
      | .octetString =>
        match attrTake len r with
        | .error e => .error e
        | .ok (d, rest) => .ok (.ostr d, rest)
      | .bitString =>
        match attrTake len r with
        | .error e => .error e
        | .ok (d, rest) => .ok (.bstr d, rest)
      | .dnp3Time =>
        if len ≠ 6 then .error (.badTimeLength len) else
        match attrTake 6 r with
        | .error e => .error e
        | .ok (d, rest) => .ok (.time (ofLe d), rest)
      | .attrList => parseList len r
      | .extAttrList => parseList (len + parseExtListBias) r

/-- number of payload octets that a type code and a length octet imply, when the pair is
    acceptable at all (the specification of "exactly what type and length imply") -/
def impliedLen (dt : DataType) (len : Nat) : Option Nat :=
  match dt with
  | .visibleString | .octetString | .bitString => some len
  | .unsignedInt | .signedInt => if len = 1 ∨ len = 2 ∨ len = 4 then some len else none
  | .floatingPoint => if len = 4 ∨ len = 8 then some len else none
  | .dnp3Time => if len = 6 then some 6 else none
  | .attrList => if len % 2 = 0 then some len else none
  | .extAttrList => if (len + 256) % 2 = 0 then some (len + 256) else none

/-- the value that a payload of the implied length decodes to -/
def decodePayload (dt : DataType) (len : Nat) (d : List Nat) : Value :=
  match dt with
  | .visibleString => .vstr d
  | .unsignedInt => .uint (ofLe d)
  | .signedInt => .int (signExt (8 * len) (ofLe d))
  | .floatingPoint => if len = 4 then .f32 (ofLe d) else .f64 (ofLe d)
  | .octetString => .ostr d
  | .bitString => .bstr d
  | .dnp3Time => .time (ofLe d)
  | .attrList | .extAttrList => .list (pairs d)

/-! ## attribute objects: header + value -/

/-- `HeaderWriter::write_attribute` / `write_attr_list`: g0, variation, qualifier 0x00, start = stop = set -/
def objHeader (set var : Nat) : List Nat := [0, var, Dnp3.Gen.App.qRange8, set, set]

structure Obj where
  set : Nat
  var : Nat
  value : Value
deriving DecidableEq, Repr

/-- the parser's path for one group-0 object with an 8-bit range in a non-READ fragment:
    `Variation::lookup(0, var)` (0 is unknown, 254 carries no value), `parse_start_stop_u8`,
    `Range::from`, `AttrSet::from_range` (count must be one), `AttrValue::parse` -/
def parseObj (bs : List Nat) : Except ParseErr (Obj × List Nat) :=
  match bs with
  | g :: v :: q :: s :: e :: r =>
    if g ≠ 0 then .error (.unknownGroupVariation g v)      -- (other groups: outside this model)
    else if v = 0 then .error (.unknownGroupVariation 0 0)
    else if q ≠ Dnp3.Gen.App.qRange8 then .error (.unknownQualifier q)  -- (other qualifiers: outside this model)
    else if e < s then .error (.invalidRange s e)
    else if v = 254 then .error .modelGap                  -- (g0v254 has no value: outside this model)
    else if e - s + 1 ≠ 1 then .error (.badAttribute (.countNotOne (e - s + 1)))
    else match parseValue r with
      | .error err => .error (.badAttribute err)
      | .ok (val, rest) => .ok (⟨s, v, val⟩, rest)
  | _ => .error .insufficientBytes

theorem attrTake_length {n : Nat} {bs d rest : List Nat} (h : attrTake n bs = .ok (d, rest)) :
    bs = d ++ rest ∧ d.length = n := by
  unfold attrTake take? at h
  split at h
  · rename_i x hx
    split at hx
    · rename_i hl
      cases hx; cases h
      exact ⟨(List.take_append_drop n bs).symm, hl⟩
    · cases hx
  · cases h

theorem parseList_length {len : Nat} {bs rest : List Nat} {v : Value} (h : parseList len bs = .ok (v, rest)) :
    rest.length ≤ bs.length := by
  unfold parseList at h
  split at h
  · cases h
  · split at h
    · cases h
    · rename_i d r hd
      cases h
      have := (attrTake_length hd).1
      rw [this]; simp

theorem parseValue_length {bs rest : List Nat} {v : Value} (h : parseValue bs = .ok (v, rest)) :
    rest.length + 2 ≤ bs.length := by
  unfold parseValue at h
  repeat' split at h
  all_goals try (cases h; done)
  all_goals try (have := parseList_length h; simp only [List.length_cons]; omega)
  all_goals
    cases h
    have := (attrTake_length (by assumption)).1; rw [this]; simp only [List.length_cons, List.length_append]; omega

theorem parseObj_length {bs rest : List Nat} {o : Obj} (h : parseObj bs = .ok (o, rest)) :
    rest.length < bs.length := by
  unfold parseObj at h
  repeat' split at h
  all_goals first
    | (cases h; done)
    | (rename_i hv; cases h; have := parseValue_length hv; simp only [List.length_cons]; omega)

/-- a fragment's object section made of group-0 attribute objects only -/
def parseObjs (bs : List Nat) : Except ParseErr (List Obj) :=
  if bs.isEmpty then .ok [] else
  match h : parseObj bs with
  | .error e => .error e
  | .ok (o, rest) =>
    match parseObjs rest with
    | .error e => .error e
    | .ok os => .ok (o :: os)
termination_by bs.length
decreasing_by exact parseObj_length h

/-! ## the attribute database: `attrs/map.rs` -/

structure Entry where
  var : Nat
  writable : Bool
  value : Value
deriving DecidableEq, Repr

/-- `SetMap`: sets in ascending order of their id, entries in ascending order of variation
    (`BTreeMap` iteration order; `AttrSet::Default` (0) sorts before every private set) -/
abbrev SetMap := List (Nat × List Entry)

def SetMap.entries (m : SetMap) (set : Nat) : Option (List Entry) := (m.find? (·.1 == set)).map (·.2)

/-- `SetMap::get` (reserved variations are never found) -/
def SetMap.get (m : SetMap) (set var : Nat) : Option Entry :=
  if reservedVars.contains var then none else
  match m.entries set with
  | none => none
  | some es => es.find? (·.var == var)

def insertEntry (e : Entry) : List Entry → List Entry
  | [] => [e]
  | x :: r => if e.var < x.var then e :: x :: r else x :: insertEntry e r

def insertSet (set : Nat) (e : Entry) : SetMap → SetMap
  | [] => [(set, [e])]
  | (s, es) :: r =>
    if set = s then (s, insertEntry e es) :: r
    else if set < s then (set, [e]) :: (s, es) :: r
    else (s, es) :: insertSet set e r

inductive DefErr
  | alreadyDefined
  | badType (expected actual : DataType)
  | reserved (var : Nat)
  | notWritable (set var : Nat)
deriving DecidableEq, Repr

/-- `SetMap::define` (checks in source order) -/
def define (m : SetMap) (set var : Nat) (writable : Bool) (v : Value) : Except DefErr SetMap :=
  if reservedVars.contains var then .error (.reserved var) else
  -- `AnyAttribute::try_from`: only the default set has typed variations
  match (if set = 0 then (defaultSetTypes.find? (·.1 == var)).map (·.2) else none) with
  | some t => if t ≠ v.dataType then .error (.badType t v.dataType) else defineTail
  | none => defineTail
where
  defineTail : Except DefErr SetMap :=
    if set = 0 ∧ writable ∧ ¬ writableVars.contains var then .error (.notWritable set var)
    else if (m.get set var).isSome then .error .alreadyDefined
    else .ok (insertSet set ⟨var, writable, v⟩ m)

inductive WriteErr
  | attrNotDefined | setNotDefined | badType | reservedVariation | notWritable
deriving DecidableEq, Repr

def replaceEntry (var : Nat) (v : Value) : List Entry → List Entry
  | [] => []
  | x :: r => if x.var = var then { x with value := v } :: r else x :: replaceEntry var v r

/-- `SetMap::can_write` followed by `SetMap::write` (what `handle_write_attr` does around the
    application callback) for a parsed attribute -/
def writeAttrValue (m : SetMap) (set var : Nat) (v : Value) : Except WriteErr SetMap :=
  if reservedVars.contains var then .error .reservedVariation else
  match m.entries set with
  | none => .error .setNotDefined
  | some es =>
    match es.find? (·.var == var) with
    | none => .error .attrNotDefined
    | some e =>
      if ¬ e.writable then .error .notWritable
      else if e.value.dataType ≠ v.dataType then .error .badType
      else .ok (m.map fun (s, es) => if s = set then (s, replaceEntry var v es) else (s, es))

/-! ## READ: `AttrHandler::select` -/

/-- `Selected` -/
structure Selected where
  set : Nat
  cur : Nat
  stop : Nat
deriving DecidableEq, Repr

def Selected.all (set : Nat) : Selected := ⟨set, selectAllFirst, selectAllLast⟩
def Selected.single (set var : Nat) : Selected := ⟨set, var, var⟩

def IIN2_NO_FUNC_CODE_SUPPORT : Nat := 0x01
def IIN2_PARAMETER_ERROR : Nat := 0x04

/-- `Selection::push` -/
def push (sel : List Selected) (s : Selected) : List Selected × Nat :=
  if sel.length < maxSelected then (sel ++ [s], 0) else (sel, IIN2_PARAMETER_ERROR)

def pushAll (sel : List Selected) (items : List Selected) : List Selected × Nat :=
  items.foldl (fun (acc : List Selected × Nat) s => let (sel', i) := push acc.1 s; (sel', acc.2 ||| i)) (sel, 0)

/-- a READ header of group 0 as `ReadHeader::get` sees it -/
inductive ReadHdr
  | all (var : Nat)                    -- qualifier 0x06
  | specific (var start stop : Nat)    -- qualifier 0x00 / 0x01
  | unsupported                        -- any other qualifier: `ReadHeader::get` = None
deriving DecidableEq, Repr

/-- `AttrHandler::select` (and the `None` arm of `DatabaseHandle::select`) -/
def selectHeader (m : SetMap) (sel : List Selected) : ReadHdr → List Selected × Nat
  | .unsupported => (sel, IIN2_NO_FUNC_CODE_SUPPORT)
  | .all var =>
    if var = 255 then pushAll sel (m.map fun (s, _) => Selected.single s 255)
    else if var = 254 then pushAll sel (m.map fun (s, _) => Selected.all s)
    else (sel, IIN2_PARAMETER_ERROR)
  | .specific var a b =>
    -- `IndexRange::to_attr_set`
    if a ≠ b ∨ a > 255 then (sel, IIN2_PARAMETER_ERROR)
    else if var = 254 then push sel (Selected.all a)
    else if var = 255 then push sel (Selected.single a 255)
    else if (m.get a var).isSome then push sel (Selected.single a var)
    else (sel, IIN2_NO_FUNC_CODE_SUPPORT)

/-! ## READ: `Selection::write_all` -/

/-- what one step of `write_all` does to the cursor -/
inductive Step
  | wrote (bs : List Nat)   -- an object was appended
  | skip                    -- nothing to write (not defined, not encodable): go on
  | blocked                 -- `WriteError`: the cursor is where it was, `write_all` returns false
deriving DecidableEq, Repr

/-- an object of `total` octets into a cursor of capacity `cap` holding `used` octets, written
    under a transaction (rolled back on failure) -/
def putObject (cap used : Nat) (img : List Nat) : Step :=
  if used + img.length ≤ cap then .wrote img else .blocked

/-- `HeaderWriter::write_attribute` (atomic, D27 repaired): the 5-octet header is written first,
    then `OwnedAttrValue::write`; a value that cannot be encoded (`BadLength`) is detected after
    the header went in, the object is rolled back and skipped -/
def writeAttribute (cap used set var : Nat) (v : Value) : Step :=
  if used + 5 > cap then .blocked else
  match v.image with
  | none => .skip
  | some img => putObject cap used (objHeader set var ++ img)

/-- `write_attr_list` for the set's variations -/
def writeList (cap used set : Nat) (es : List Entry) : Step :=
  match listImage (es.map fun e => (e.var, e.writable)) with
  | none => .skip
  | some img => putObject cap used (objHeader set listVariation ++ img)

/-- the step for the selection's current (set, variation) -/
def stepFor (m : SetMap) (cap used set var : Nat) : Step :=
  if var = listVariation then
    match m.entries set with
    | none => .skip
    | some es => writeList cap used set es
  else
    match m.get set var with
    | none => .skip
    | some e => writeAttribute cap used set var e.value

/-- the loop of `write_all` over one `Selected`: returns the cursor content and what is left of
    the selection (`none` = finished, popped from the queue) -/
def writeSel (m : SetMap) (cap : Nat) (s : Selected) (buf : List Nat) : List Nat × Option Selected :=
  match stepFor m cap buf.length s.set s.cur with
  | .blocked => (buf, some s)
  | st =>
    let buf' := match st with | .wrote bs => buf ++ bs | _ => buf
    -- `Selected::advance`
    if s.cur = s.stop then (buf', none)
    else if h : s.cur < 255 then writeSel m cap { s with cur := s.cur + 1 } buf'
    else (buf', none)
termination_by 255 - s.cur
decreasing_by simp_wf; omega

/-- `Selection::write_all`: (cursor content, remaining selection); complete = nothing remains -/
def writeAll (m : SetMap) (cap : Nat) : List Selected → List Nat → List Nat × List Selected
  | [], buf => (buf, [])
  | s :: rest, buf =>
    match writeSel m cap s buf with
    | (buf', some s') => (buf', s' :: rest)
    | (buf', none) => writeAll m cap rest buf'

/-! ## specification of a READ: what a selection denotes, independent of any capacity -/

/-- the object the selection's current (set, variation) stands for, if any -/
def objectFor (m : SetMap) (set var : Nat) : Option (List Nat) :=
  if var = listVariation then
    match m.entries set with
    | none => none
    | some es => (listImage (es.map fun e => (e.var, e.writable))).map (objHeader set listVariation ++ ·)
  else
    match m.get set var with
    | none => none
    | some e => e.value.image.map (objHeader set var ++ ·)

/-- the object images one `Selected` denotes, in order -/
def selObjects (m : SetMap) (s : Selected) : List (List Nat) :=
  let here := (objectFor m s.set s.cur).toList
  if s.cur = s.stop then here
  else if h : s.cur < 255 then here ++ selObjects m { s with cur := s.cur + 1 }
  else here
termination_by 255 - s.cur
decreasing_by simp_wf; omega

def allObjects (m : SetMap) (sel : List Selected) : List (List Nat) := sel.flatMap (selObjects m)

/-- a READ answered over several fragments: one `write_all` per fragment into an empty cursor of
    the given capacity (`write_response_headers` once per fragment), the selection carried over -/
def series (m : SetMap) : List Nat → List Selected → List (List Nat) × List Selected
  | [], sel => ([], sel)
  | cap :: caps, sel =>
    let r := writeAll m cap sel []
    let rs := series m caps r.2
    (r.1 :: rs.1, rs.2)

/-! ## well-formedness of the attribute database (what `define` maintains) -/

def Entry.WF (e : Entry) : Prop := e.var < 256 ∧ reservedVars.contains e.var = false ∧ e.value.WellFormed

/-- sets and variations are octets, values are `OwnedAttrValue`s, and both levels are in
    ascending order without duplicates (`BTreeMap`) -/
def SetMap.WF (m : SetMap) : Prop :=
  (∀ p ∈ m, p.1 < 256 ∧ (∀ e ∈ p.2, e.WF) ∧ List.Pairwise (· < ·) (p.2.map (·.var))) ∧
  List.Pairwise (· < ·) (m.map (·.1))

/-! ## the master's request builder: `Headers::add_attribute` -> `write_attribute` -/

inductive BuildErr
  | cursor
  | badLength (n : Nat)
deriving DecidableEq, Repr

def valueLen : Value → Nat
  | .vstr bs | .ostr bs | .bstr bs => bs.length
  | _ => 0

/-- `Headers::write` of attribute headers after `start_request` (2 octets) into `cap` octets: the
    first failing header aborts the whole request (`TaskError`) -/
def buildWrite (cap : Nat) (attrs : List Obj) : Except BuildErr (List Nat) :=
  if cap < 2 then .error .cursor else
  let rec go (used : Nat) (acc : List Nat) : List Obj → Except BuildErr (List Nat)
    | [] => .ok acc
    | o :: rest =>
      match writeAttribute cap used o.set o.var o.value with
      | .blocked => .error .cursor
      | .skip => .error (.badLength (valueLen o.value))
      | .wrote bs => go (used + bs.length) (acc ++ bs) rest
  go 2 [] attrs

end Dnp3.Attr
