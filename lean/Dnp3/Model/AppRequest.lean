/-!
# Application request parsing as the outstation session needs it

Model of `ParsedFragment::parse` + `to_request` (`app/parse/parser.rs`) and of the object-header
pass (`ObjectParser`) restricted to the group/variation vocabulary the outstation engine uses.
`varInfo` covers every (group, variation) of the eight point types of the outstation database
(g1/g2, g3/g4, g10/g11, g20/g22, g21/g23, g30/g32, g40/g42, g110/g111) + frozen analogs (g31/g33) and
analog dead-bands (g34), the control and time objects the engine uses.  Every other pair is treated
as unknown to the library; the engine's generators only use unknown pairs that really are unknown
(`g99v1`, `g1v9`, …).  The complete
object grammar is the subject of C09 (`Dnp3.Model.ObjectGrammar`).
-/
namespace Dnp3

structure AppCtrl where
  fir : Bool
  fin : Bool
  con : Bool
  uns : Bool
  seq : Nat
deriving DecidableEq, Repr, Inhabited

/-- `ControlField::from` -/
def AppCtrl.ofNat (b : Nat) : AppCtrl :=
  { fir := b &&& 0x80 ≠ 0, fin := b &&& 0x40 ≠ 0, con := b &&& 0x20 ≠ 0, uns := b &&& 0x10 ≠ 0, seq := b &&& 0x0F }

/-- `ControlField::to_u8` -/
def AppCtrl.toNat (c : AppCtrl) : Nat :=
  (if c.fir then 0x80 else 0) ||| (if c.fin then 0x40 else 0) ||| (if c.con then 0x20 else 0) |||
  (if c.uns then 0x10 else 0) ||| c.seq

/-- application sequence `next` (4 bits) -/
def seq4Next (s : Nat) : Nat := if s = 15 then 0 else s + 1

/-- `FunctionCode::from` knows this octet -/
def knownFunction (f : Nat) : Bool := f ≤ 30 || f = 129 || f = 130

/-- `FunctionInfo::objects_allowed` (requests) -/
def objectsAllowed (f : Nat) : Bool :=
  !(f = 0 || f = 13 || f = 14 || f = 15 || f = 19 || f = 23 || f = 24 || f = 129 || f = 130)

-- IIN2 bits
def iin2NoFunc : Nat := 0x01
def iin2ObjUnknown : Nat := 0x02
def iin2ParamError : Nat := 0x04

/-- what a variation is, per qualifier family:
    `all` accepted with 0x06; `count`: accepted with 0x07/0x08 carrying `countSize` octets per
    object; `ranged`: accepted with 0x00/0x01, `rangedSize` octets per object outside READ
    (`some 0` = bit-packed, 1 bit each); `prefixed`: accepted with 0x17/0x28 with that object size -/
structure VarInfo where
  all : Bool := false
  count : Option Nat := none
  ranged : Option (Option Nat) := none     -- none = not ranged; some none = bits; some (some n) = n octets
  prefixed : Option Nat := none
deriving Repr, Inhabited

/-- sizes of the fixed-size event variations (object without its index prefix) -/
def evVarSize (g v : Nat) : Option Nat :=
  match g, v with
  | 2, 1 => some 1 | 2, 2 => some 7 | 2, 3 => some 3
  | 4, 1 => some 1 | 4, 2 => some 7 | 4, 3 => some 3
  | 11, 1 => some 1 | 11, 2 => some 7
  | 22, 1 => some 5 | 22, 2 => some 3 | 22, 5 => some 11 | 22, 6 => some 9
  | 23, 1 => some 5 | 23, 2 => some 3 | 23, 5 => some 11 | 23, 6 => some 9
  | 32, 1 => some 5 | 32, 2 => some 3 | 32, 3 => some 11 | 32, 4 => some 9
  | 32, 5 => some 5 | 32, 6 => some 9 | 32, 7 => some 11 | 32, 8 => some 15
  | 33, 1 => some 5 | 33, 2 => some 3 | 33, 3 => some 11 | 33, 4 => some 9
  | 33, 5 => some 5 | 33, 6 => some 9 | 33, 7 => some 11 | 33, 8 => some 15
  | 42, 1 => some 5 | 42, 2 => some 3 | 42, 3 => some 11 | 42, 4 => some 9
  | 42, 5 => some 5 | 42, 6 => some 9 | 42, 7 => some 11 | 42, 8 => some 15
  | _, _ => none

/-- sizes of the fixed-size static variations -/
def stVarSize (g v : Nat) : Option Nat :=
  match g, v with
  | 1, 2 => some 1 | 3, 2 => some 1 | 10, 2 => some 1
  | 20, 1 => some 5 | 20, 2 => some 3 | 20, 5 => some 4 | 20, 6 => some 2
  | 21, 1 => some 5 | 21, 2 => some 3 | 21, 5 => some 11 | 21, 6 => some 9 | 21, 9 => some 4 | 21, 10 => some 2
  | 30, 1 => some 5 | 30, 2 => some 3 | 30, 3 => some 4 | 30, 4 => some 2 | 30, 5 => some 5 | 30, 6 => some 9
  | 31, 1 => some 5 | 31, 2 => some 3 | 31, 3 => some 11 | 31, 4 => some 9
  | 31, 5 => some 4 | 31, 6 => some 2 | 31, 7 => some 5 | 31, 8 => some 9
  | 40, 1 => some 5 | 40, 2 => some 3 | 40, 3 => some 5 | 40, 4 => some 9
  | _, _ => none

/-- the static groups of the outstation database (+ frozen analogs) / its event groups -/
def isStaticGroup (g : Nat) : Bool := g = 1 || g = 3 || g = 10 || g = 20 || g = 21 || g = 30 || g = 31 || g = 40
def isEventGroup (g : Nat) : Bool := g = 2 || g = 4 || g = 11 || g = 22 || g = 23 || g = 32 || g = 33 || g = 42

def varInfo (g v : Nat) : Option VarInfo :=
  -- the point groups of the database: variation 0 (any variation), the packed variations, the fixed-size ones
  if isStaticGroup g then
    if v = 0 then some { all := true, ranged := some (some 0) }
    else if v = 1 ∧ (g = 1 ∨ g = 10) then some { all := true, ranged := some none }
    else if v = 1 ∧ g = 3 then some { all := true, ranged := some none }   -- double bits: size outside READ not modelled
    else match stVarSize g v with
      | some n => some { all := true, ranged := some (some n) }
      | none => none
  else if isEventGroup g then
    if v = 0 then some { all := true, count := some 0 }
    else match evVarSize g v with
      | some n => some { all := true, count := some 0, prefixed := some n }
      | none => none
  else
  match g, v with
  | 12, 1 => some { prefixed := some 11 }
  | 34, 0 => some { all := true }
  | 34, 1 => some { all := true, ranged := some (some 2) }
  | 34, 2 => some { all := true, ranged := some (some 4) }
  | 34, 3 => some { all := true, ranged := some (some 4) }
  | 41, 1 => some { prefixed := some 5 }
  | 41, 2 => some { prefixed := some 3 }
  | 41, 3 => some { prefixed := some 5 }
  | 41, 4 => some { prefixed := some 9 }
  | 50, 1 => some { count := some 6 }
  | 50, 2 => some { count := some 10 }
  | 50, 3 => some { count := some 6 }
  | 60, 1 => some { all := true }
  | 60, 2 => some { all := true, count := some 0 }
  | 60, 3 => some { all := true, count := some 0 }
  | 60, 4 => some { all := true, count := some 0 }
  | 80, 1 => some { all := true, ranged := some none }
  -- octet strings: variation 0 in a READ; a variation n is the length (only the prefixed g111 form carries data)
  | 110, 0 => some { all := true, ranged := some (some 0) }
  | 110, _ => some {}
  | 111, 0 => some { all := true, count := some 0 }
  | 111, n => some { count := some 0, prefixed := some n }
  | _, _ => none

/-- one parsed object header -/
structure ObjHdr where
  group : Nat
  var : Nat
  qual : Nat
  /-- start (ranges) or count -/
  a : Nat := 0
  /-- stop (ranges) -/
  b : Nat := 0
  /-- raw object data that followed the header (nothing for READ) -/
  data : List Nat := []
deriving DecidableEq, Repr, Inhabited

def rdU16 (lo hi : Nat) : Nat := lo + 256 * hi

/-- number of octets of `n` packed bits -/
def bitsToBytes (n : Nat) : Nat := (n + 7) / 8

/-- `ObjectParser::parse_one_inner` + loop; `fuel` = remaining octets. `Except` error = IIN2 bits
    the error maps to (`From<ObjectParseError> for Iin2`) -/
def parseObjects (isRead : Bool) : Nat → List Nat → Except Nat (List ObjHdr)
  | 0, _ => .ok []
  | _, [] => .ok []
  | fuel+1, g :: rest0 =>
    match rest0 with
    | [] => .error iin2ParamError                        -- Variation::parse: insufficient bytes
    | v :: rest1 =>
      match varInfo g v with
      | none => .error iin2ObjUnknown
      | some info =>
        match rest1 with
        | [] => .error iin2ParamError
        | q :: rest =>
          let continue_ (h : ObjHdr) (rest' : List Nat) : Except Nat (List ObjHdr) :=
            match parseObjects isRead fuel rest' with
            | .ok hs => .ok (h :: hs)
            | .error e => .error e
          let ranged (start stop : Nat) (rest' : List Nat) : Except Nat (List ObjHdr) :=
            if stop < start then .error iin2ParamError else
            match info.ranged with
            | none => .error iin2NoFunc
            | some sz =>
              let n := stop - start + 1
              let len := if isRead then 0 else match sz with | none => bitsToBytes n | some k => k * n
              if rest'.length < len then .error iin2ParamError
              else continue_ ⟨g, v, q, start, stop, rest'.take len⟩ (rest'.drop len)
          let counted (count : Nat) (rest' : List Nat) : Except Nat (List ObjHdr) :=
            match info.count with
            | none => .error iin2NoFunc
            | some k =>
              let len := k * count
              if rest'.length < len then .error iin2ParamError
              else continue_ ⟨g, v, q, count, 0, rest'.take len⟩ (rest'.drop len)
          let prefixed (isz count : Nat) (rest' : List Nat) : Except Nat (List ObjHdr) :=
            match info.prefixed with
            | none => .error iin2NoFunc
            | some k =>
              let len := (isz + k) * count
              if rest'.length < len then .error iin2ParamError
              else continue_ ⟨g, v, q, count, 0, rest'.take len⟩ (rest'.drop len)
          if q = 0x06 then
            if info.all then continue_ ⟨g, v, q, 0, 0, []⟩ rest else .error iin2NoFunc
          else if q = 0x00 then
            match rest with
            | s :: e :: r => ranged s e r
            | _ => .error iin2ParamError
          else if q = 0x01 then
            match rest with
            | s0 :: s1 :: e0 :: e1 :: r => ranged (rdU16 s0 s1) (rdU16 e0 e1) r
            | _ => .error iin2ParamError
          else if q = 0x07 then
            match rest with
            | c :: r => counted c r
            | _ => .error iin2ParamError
          else if q = 0x08 then
            match rest with
            | c0 :: c1 :: r => counted (rdU16 c0 c1) r
            | _ => .error iin2ParamError
          else if q = 0x17 then
            match rest with
            | c :: r => prefixed 1 c r
            | _ => .error iin2ParamError
          else if q = 0x28 then
            match rest with
            | c0 :: c1 :: r => prefixed 2 (rdU16 c0 c1) r
            | _ => .error iin2ParamError
          else if q = 0x5B then .error iin2ParamError     -- free format: not in the vocabulary (count/len checks)
          else .error iin2ParamError                      -- UnknownQualifier

/-- result of `ParsedFragment::parse` followed by `to_request` -/
inductive ReqParse where
  /-- `HeaderParseError::InsufficientBytes`: no reply possible (no sequence number) -/
  | insufficient
  /-- unknown function code, a response function code, FIR/FIN not both set, UNS on a non-confirm:
      `TransportRequest::Error` carrying the sequence number -/
  | headerError (seq : Nat)
  | request (ctrl : AppCtrl) (func : Nat) (objects : Except Nat (List ObjHdr)) (rawObjects : List Nat)
deriving Repr, Inhabited

def parseRequest (frag : List Nat) : ReqParse :=
  match frag with
  | c :: f :: objs =>
    let ctrl := AppCtrl.ofNat c
    if !knownFunction f then .headerError ctrl.seq else
    if f = 129 ∨ f = 130 then
      -- a response: the IIN is read first, then `to_request` fails with UnexpectedFunction
      if objs.length < 2 then .insufficient else .headerError ctrl.seq
    else if !(ctrl.fir && ctrl.fin) then .headerError ctrl.seq
    else if ctrl.uns && f ≠ 0 then .headerError ctrl.seq
    else .request ctrl f (parseObjects (f = 1) objs.length objs) objs
  | _ => .insufficient

end Dnp3
