import Dnp3.Model.LinkLayer
/-!
# Transport — model of `dnp3/src/transport/real/{header,sequence,assembler,reader,writer}.rs`
-/
namespace Dnp3

structure THeader where
  fin : Bool
  fir : Bool
  seq : Nat
deriving DecidableEq, Repr, Inhabited

/-- `Header::from_u8` -/
def THeader.ofNat (b : Nat) : THeader := { fin := b &&& 0x80 ≠ 0, fir := b &&& 0x40 ≠ 0, seq := b &&& 0x3F }

/-- `Header::to_u8` -/
def THeader.toNat (h : THeader) : Nat :=
  (if h.fin then 0x80 else 0) ||| (if h.fir then 0x40 else 0) ||| h.seq

/-- `Sequence::calc_next` -/
def seqNext (v : Nat) : Nat := if v = 63 then 0 else v + 1

structure FragInfo where
  id : Nat
  source : Nat
  broadcast : Option Nat
deriving DecidableEq, Repr, Inhabited

inductive AState where
  | empty
  | running (info : FrameInfo) (seq : Nat) (len : Nat)
  | complete (fi : FragInfo) (len : Nat)
deriving DecidableEq, Repr, Inhabited

structure Assembler where
  st : AState := .empty
  frameId : Nat := 0
  /-- the first `len` octets of the buffer (what has been accumulated) -/
  buf : List Nat := []
  cap : Nat
deriving Repr, Inhabited

def Assembler.isComplete (a : Assembler) : Bool :=
  match a.st with | .complete _ _ => true | _ => false

/-- `Assembler::append` -/
def Assembler.append (a : Assembler) (info : FrameInfo) (hdr : THeader) (acc : Nat) (data : List Nat) : Assembler :=
  let newLen := acc + data.length
  if newLen > a.cap then { a with st := .empty } else
  let buf := a.buf.take acc ++ data
  if hdr.fin then
    { a with st := .complete ⟨a.frameId, info.source, info.broadcast⟩ newLen, frameId := (a.frameId + 1) % 4294967296, buf := buf }
  else { a with st := .running info hdr.seq newLen, buf := buf }

/-- `Assembler::assemble` -/
def Assembler.assemble (a : Assembler) (info : FrameInfo) (hdr : THeader) (payload : List Nat) : Assembler :=
  let a := if hdr.fir then { a with st := .empty } else a
  if info.broadcast.isSome then
    if hdr.fir ∧ hdr.fin then a.append info hdr 0 payload else a
  else
  match a.st with
  | .complete _ _ => ({ a with st := .empty }).append info hdr 0 payload
  | .empty => if ¬ hdr.fir then a else a.append info hdr 0 payload
  | .running pinfo pseq len =>
    if hdr.seq ≠ seqNext pseq then { a with st := .empty }
    else if info ≠ pinfo then { a with st := .empty }
    else a.append info hdr len payload

/-- `Assembler::pop` -/
def Assembler.pop (a : Assembler) : Assembler × Option (FragInfo × List Nat) :=
  match a.st with
  | .complete fi len => ({ a with st := .empty }, some (fi, a.buf.take len))
  | _ => (a, none)

inductive TOut where
  | frag (fi : FragInfo) (data : List Nat)
  | linkMsg (source : Nat) (isRequest : Bool)
  | reply (bytes : List Nat)
  | err (e : PErr)
deriving DecidableEq, Repr, Inhabited

structure TReader where
  cfg : LinkCfg
  link : Reader
  sec : SecState := .notReset
  asm : Assembler
  pendingMsg : Option (Nat × Bool) := none
  /-- link-level events already parsed out of the octets received but not yet consumed by `read` -/
  queue : List LEvent := []
deriving Repr, Inhabited

def TReader.new (cfg : LinkCfg) (em : ErrMode) (rm : ReadMode) (rx : Nat) : TReader :=
  { cfg := cfg, link := Reader.new em rm rx, asm := { cap := rx } }

/-- `Reader::reset` (transport) -/
def TReader.reset (t : TReader) : TReader :=
  { t with asm := { t.asm with st := .empty }, sec := .notReset, link := t.link.reset, pendingMsg := none, queue := [] }

/-- one call of transport `Reader::read` on the queued link events.
    Returns the new state, the link replies written meanwhile, and whether it returned `Ok`
    (`some true`), an error (`some false`) or would block (`none`). -/
def TReader.read : Nat → TReader → TReader × List TOut × Option Bool
  | 0, t => (t, [], none)
  | fuel+1, t =>
    if t.asm.isComplete then (t, [], some true) else
    match t.queue with
    | [] => (t, [], none)
    | .err e :: rest => ({ t with queue := rest }, [.err e], some false)
    | .frame h payload :: rest =>
      let t := { t with queue := rest }
      let (sec', info, reply) := processHeader t.cfg t.sec h
      let t := { t with sec := sec' }
      let outs := match reply with | some r => [TOut.reply (formatReply t.cfg r)] | none => []
      match info with
      | none => let (t', o, r) := TReader.read fuel t; (t', outs ++ o, r)
      | some info =>
        match info.ftype with
        | .data =>
          match payload with
          | [] => let (t', o, r) := TReader.read fuel t; (t', outs ++ o, r)
          | tb :: data =>
            let asm := t.asm.assemble info (THeader.ofNat tb) data
            let t := { t with asm := asm }
            if asm.isComplete then (t, outs, some true)
            else let (t', o, r) := TReader.read fuel t; (t', outs ++ o, r)
        | .linkStatusRequest => ({ t with pendingMsg := some (info.source, true) }, outs, some true)
        | .linkStatusResponse => ({ t with pendingMsg := some (info.source, false) }, outs, some true)

/-- transport `Reader::pop` -/
def TReader.pop (t : TReader) : TReader × Option TOut :=
  match t.pendingMsg with
  | some (s, isReq) => ({ t with pendingMsg := none }, some (.linkMsg s isReq))
  | none =>
    let (asm, r) := t.asm.pop
    ({ t with asm := asm }, r.map fun (fi, d) => .frag fi d)

/-- the harness loop: `read` until it blocks; after every `Ok` (optionally call `read` a second
    time without popping — exercising the early-return guard —) then `pop` -/
def TReader.drain : Nat → Bool → TReader → TReader × List TOut
  | 0, _, t => (t, [])
  | fuel+1, dbl, t =>
    match t.read (t.queue.length + 2) with
    | (t, outs, none) => (t, outs)
    | (t, outs, some false) => (t, outs)
    | (t, outs, some true) =>
      let (t, outs2) := if dbl then
          match t.read (t.queue.length + 2) with | (t', o, _) => (t', o) else (t, [])
      let (t, p) := t.pop
      let (t', rest) := TReader.drain fuel dbl t
      (t', outs ++ outs2 ++ p.toList ++ rest)

/-- octets arrive on the wire, then the reader is drained -/
def TReader.feed (t : TReader) (dbl : Bool) (chunk : List Nat) : TReader × List TOut :=
  let (link', evs) := t.link.feed chunk
  let t := { t with link := link', queue := t.queue ++ evs }
  TReader.drain (t.queue.length + 2) dbl t

/-- `Writer::write`: the link frames for one fragment; returns the next sequence number -/
def segmentFrom (isMaster : Bool) (dest localAddr : Nat) : Nat → Nat → Bool → List Nat → List (List Nat) × Nat
  | 0, seq, _, _ => ([], seq)
  | fuel+1, seq, first, frag =>
    if frag.isEmpty then ([], seq) else
    let chunk := frag.take 249
    let rest := frag.drop 249
    let hdr : THeader := { fin := rest.isEmpty, fir := first, seq := seq }
    let c : Control := { func := .priUnconfirmedUserData, master := isMaster, fcb := false, fcv := false }
    let frame := encodeFrame ⟨c.toNat, dest, localAddr⟩ (hdr.toNat :: chunk)
    let (fs, s') := segmentFrom isMaster dest localAddr fuel (seqNext seq) false rest
    (frame :: fs, s')

def segment (isMaster : Bool) (dest localAddr : Nat) (seq0 : Nat) (frag : List Nat) : List (List Nat) × Nat :=
  segmentFrom isMaster dest localAddr frag.length seq0 true frag

end Dnp3
