import Dnp3.Gen.Variations
import Dnp3.Gen.Qualifiers
import Dnp3.Gen.AppCodes
/-!
# ObjectGrammar — model of the object-header grammar of `dnp3/src/app/parse/parser.rs`

`walk` mirrors `ObjectParser::one_pass` / `ObjectParser::parse` (the validating first pass behind
`HeaderCollection::parse`, called from `ParsedFragment::parse`): it is a total function from the
object octets of a fragment to either the first `ObjectParseError` or the list of header records.

The variation lookup, the five qualifier tables, the free-format table, every `SIZE`, the
qualifier / function codes and the attribute type codes are the regenerated tables of `Dnp3.Gen`.
Hand-transcribed (tied by the `parse` correspondence engine): the order of reads and checks in
`parse_one_inner` and the `parse_*` functions, `Range::from`, `BitSequence::parse`,
`RangedSequence::parse`, `CountSequence::parse`, `RangedBytesSequence::parse`,
`PrefixedBytesSequence::parse`, `Attribute::parse_from_range` / `parse_prefixed` /
`AttrValue::parse` (`app/attr.rs`), `file::Group70VarN::read` (`app/file/g70v*.rs`), and
`std::str::from_utf8` (well-formed UTF-8, Unicode table 3-7).

Octets are `Nat`; the driver only ever supplies values `< 256`.
-/
namespace Dnp3.App
open Dnp3.Gen Dnp3.Gen.App

/-! ## variations and tables -/

/-- `Variation`: `GroupGVarV` is `fixed G V`; `GroupG(v)` (groups 0, 110, 111) is `wild G v` -/
inductive Variation
  | fixed (g v : Nat)
  | wild (g v : Nat)
deriving DecidableEq, Repr, Inhabited

def Variation.group : Variation → Nat | .fixed g _ => g | .wild g _ => g
def Variation.var : Variation → Nat | .fixed _ v => v | .wild _ v => v

/-- `Variation::lookup` over the generated table (first matching arm wins, as in a Rust `match`) -/
def lookup (g v : Nat) : Option Variation :=
  match lookupTable.find? (·.1 == g) with
  | none => none
  | some (_, arms) =>
    match arms.find? (fun a => a.1 == some v || a.1 == none) with
    | some (_, some (.fixed g' v')) => some (.fixed g' v')
    | some (_, some (.wild g')) => some (.wild g' v)
    | _ => none

def patMatches (p : Pat) : Variation → Bool
  | .fixed g v => !p.wild && p.group == g && p.var == some v
  | .wild g v => p.wild && p.group == g && (p.var == none || p.var == some v)

/-- the arm of a generated qualifier table that a variation selects (`none` = the `_` arm) -/
def tableGet (t : List (Pat × Payload)) (v : Variation) : Option Payload :=
  (t.find? (fun a => patMatches a.1 v)).map (·.2)

/-- `T::SIZE` of `GroupgVarv` (0 if there is no such impl; the translator reports that case as a broken tie) -/
def fixedSize (g v : Nat) : Nat :=
  match fixedVars.find? (fun f => f.group == g && f.var == v) with
  | some f => f.size
  | none => 0

/-! ## errors -/

/-- `AttrParseError` -/
inductive AttrErr
  | read
  | unknownDataType (t : Nat)
  | badIntegerLength (n : Nat)
  | badFloatLength (n : Nat)
  | badTimeLength (n : Nat)
  | badAttrListLength (n : Nat)
  | badVisibleString
  | setIdNotU8 (n : Nat)
  | countNotOne (n : Nat)
deriving DecidableEq, Repr, Inhabited

/-- `ObjectParseError` (`unsupportedQualifierCode` is never produced by the parser) -/
inductive ParseErr
  | unknownGroupVariation (g v : Nat)
  | unknownQualifier (q : Nat)
  | insufficientBytes
  | invalidRange (start stop : Nat)
  | invalidQualifierForVariation (g v q : Nat)
  | unsupportedFreeFormatCount (n : Nat)
  | zeroLengthOctetData
  | badAttribute (e : AttrErr)
  | badEncoding
  /-- not a Rust error: a payload kind in a table where the translator never puts it
      (unreachable for the generated tables, theorem `tables_well_kinded`) -/
  | modelGap
deriving DecidableEq, Repr, Inhabited

/-! ## cursor primitives -/

/-- `ReadCursor::read_bytes` -/
def take? (n : Nat) (bs : List Nat) : Option (List Nat × List Nat) :=
  -- `n ≤ bs.length`, tested without walking the whole list
  if (bs.take n).length = n then some (bs.take n, bs.drop n) else none

def readU8 : List Nat → Option (Nat × List Nat)
  | b :: r => some (b, r)
  | [] => none

def readU16 : List Nat → Option (Nat × List Nat)
  | lo :: hi :: r => some (lo + 256 * hi, r)
  | _ => none

/-- an index / count of `wide`th (1 or 2 octets), little endian -/
def readIdx (wide : Bool) (bs : List Nat) : Option (Nat × List Nat) :=
  if wide then readU16 bs else readU8 bs

def le16 (n : Nat) : List Nat := [n % 256, n / 256]
def leIdx (wide : Bool) (n : Nat) : List Nat := if wide then le16 n else [n]
def idxSize (wide : Bool) : Nat := if wide then 2 else 1

def takeE (n : Nat) (bs : List Nat) : Except ParseErr (List Nat × List Nat) :=
  match take? n bs with
  | some x => .ok x
  | none => .error .insufficientBytes

/-! ## `std::str::from_utf8` -/

def cont (b : Nat) : Bool := 0x80 ≤ b && b ≤ 0xBF

/-- well-formed UTF-8 (Unicode 15 table 3-7), what `core::str::from_utf8` accepts -/
def validUtf8 : List Nat → Bool
  | [] => true
  | b0 :: rest =>
    if b0 < 0x80 then validUtf8 rest
    else if 0xC2 ≤ b0 ∧ b0 ≤ 0xDF then
      match rest with
      | b1 :: r => cont b1 && validUtf8 r
      | _ => false
    else if 0xE0 ≤ b0 ∧ b0 ≤ 0xEF then
      match rest with
      | b1 :: b2 :: r =>
        (if b0 = 0xE0 then 0xA0 ≤ b1 && b1 ≤ 0xBF
         else if b0 = 0xED then 0x80 ≤ b1 && b1 ≤ 0x9F
         else cont b1) && cont b2 && validUtf8 r
      | _ => false
    else if 0xF0 ≤ b0 ∧ b0 ≤ 0xF4 then
      match rest with
      | b1 :: b2 :: b3 :: r =>
        (if b0 = 0xF0 then 0x90 ≤ b1 && b1 ≤ 0xBF
         else if b0 = 0xF4 then 0x80 ≤ b1 && b1 ≤ 0x8F
         else cont b1) && cont b2 && cont b3 && validUtf8 r
      | _ => false
    else false

/-! ## group 0: `AttrValue::parse` -/

def attrTake (n : Nat) (bs : List Nat) : Except AttrErr (List Nat × List Nat) :=
  match take? n bs with
  | some x => .ok x
  | none => .error .read

/-- `AttrValue::parse`: returns the octets after the value -/
def attrValue (bs : List Nat) : Except AttrErr (List Nat) :=
  match bs with
  | [] => .error .read
  | t :: r1 =>
    if ¬ (t = attrVisibleString ∨ t = attrUnsignedInt ∨ t = attrSignedInt ∨ t = attrFloatingPoint ∨
          t = attrOctetString ∨ t = attrBitString ∨ t = attrDnp3Time ∨ t = attrAttrList ∨ t = attrExtAttrList)
    then .error (.unknownDataType t) else
    match r1 with
    | [] => .error .read
    | len :: r =>
      if t = attrVisibleString then
        match attrTake len r with
        | .error e => .error e
        | .ok (s, rest) => if validUtf8 s then .ok rest else .error .badVisibleString
      else if t = attrUnsignedInt ∨ t = attrSignedInt then
        if len = 1 ∨ len = 2 ∨ len = 4 then (attrTake len r).map (·.2) else .error (.badIntegerLength len)
      else if t = attrFloatingPoint then
        if len = 4 ∨ len = 8 then (attrTake len r).map (·.2) else .error (.badFloatLength len)
      else if t = attrOctetString ∨ t = attrBitString then (attrTake len r).map (·.2)
      else if t = attrDnp3Time then
        if len ≠ 6 then .error (.badTimeLength len) else (attrTake 6 r).map (·.2)
      else if t = attrAttrList then
        if len % 2 ≠ 0 then .error (.badAttrListLength len) else (attrTake len r).map (·.2)
      else
        -- EXT_ATTR_LIST: the length is really len + 256
        if (len + 256) % 2 ≠ 0 then .error (.badAttrListLength (len + 256)) else (attrTake (len + 256) r).map (·.2)

/-! ## group 70: `file::Group70VarN::read` on the free-format sub-cursor -/

/-- `file::ReadError` collapsed as `From<file::ReadError> for ObjectParseError` does -/
def fileTake (n : Nat) (bs : List Nat) : Except ParseErr (List Nat × List Nat) := takeE n bs

def fileU16 (bs : List Nat) : Except ParseErr (Nat × List Nat) :=
  match readU16 bs with
  | some x => .ok x
  | none => .error .insufficientBytes

/-- returns what is left of the sub-cursor after `Group70Varv::read` -/
def fileRead (v : Nat) (bs : List Nat) : Except ParseErr (List Nat) :=
  if v = 2 then
    match fileU16 bs with
    | .error e => .error e
    | .ok (off, r) =>
    if off ≠ g70v2UserNameOffset then .error .badEncoding else
    match fileU16 r with
    | .error e => .error e
    | .ok (unLen, r) =>
    if g70v2UserNameOffset + unLen > 65535 then .error .badEncoding else
    match fileU16 r with
    | .error e => .error e
    | .ok (pwOff, r) =>
    if pwOff ≠ g70v2UserNameOffset + unLen then .error .badEncoding else
    match fileU16 r with
    | .error e => .error e
    | .ok (pwLen, r) =>
    match fileTake 4 r with
    | .error e => .error e
    | .ok (_, r) =>
    match fileTake unLen r with
    | .error e => .error e
    | .ok (un, r) =>
    match fileTake pwLen r with
    | .error e => .error e
    | .ok (pw, r) =>
    if validUtf8 un && validUtf8 pw then .ok r else .error .badEncoding
  else if v = 3 then
    match fileU16 bs with
    | .error e => .error e
    | .ok (off, r) =>
    if off ≠ g70v3FileNameOffset then .error .badEncoding else
    match fileU16 r with
    | .error e => .error e
    | .ok (nameLen, r) =>
    -- time 6, permissions 2, auth key 4, file size 4, mode 2, max block size 2, request id 2
    match fileTake 22 r with
    | .error e => .error e
    | .ok (_, r) =>
    match fileTake nameLen r with
    | .error e => .error e
    | .ok (name, r) => if validUtf8 name then .ok r else .error .badEncoding
  else if v = 4 then
    -- handle 4, size 4, max block 2, request id 2, status 1, then text = read_all
    match fileTake 13 bs with
    | .error e => .error e
    | .ok (_, r) => if validUtf8 r then .ok [] else .error .badEncoding
  else if v = 5 then
    match fileTake 8 bs with
    | .error e => .error e
    | .ok (_, _) => .ok []
  else if v = 6 then
    match fileTake 9 bs with
    | .error e => .error e
    | .ok (_, r) => if validUtf8 r then .ok [] else .error .badEncoding
  else if v = 7 then
    match fileU16 bs with
    | .error e => .error e
    | .ok (off, r) =>
    if off ≠ g70v7FileNameOffset then .error .badEncoding else
    match fileU16 r with
    | .error e => .error e
    | .ok (nameLen, r) =>
    -- file type 2, size 4, time 6, permissions 2, request id 2
    match fileTake 16 r with
    | .error e => .error e
    | .ok (_, r) =>
    match fileTake nameLen r with
    | .error e => .error e
    | .ok (name, r) => if validUtf8 name then .ok r else .error .badEncoding
  else if v = 8 then
    if validUtf8 bs then .ok [] else .error .badEncoding
  else .error .modelGap

/-! ## header records -/

/-- what follows the qualifier octet -/
inductive Spec
  | all
  | range (wide : Bool) (start stop : Nat)
  | count (wide : Bool) (n : Nat)
  | countPrefix (wide : Bool) (n : Nat)
  | free (count len : Nat)
deriving DecidableEq, Repr, Inhabited

def Spec.qualifier : Spec → Nat
  | .all => qAllObjects
  | .range false _ _ => qRange8
  | .range true _ _ => qRange16
  | .count false _ => qCount8
  | .count true _ => qCount16
  | .countPrefix false _ => qCountAndPrefix8
  | .countPrefix true _ => qCountAndPrefix16
  | .free _ _ => qFreeFormat16

def Spec.bytes : Spec → List Nat
  | .all => []
  | .range w s e => leIdx w s ++ leIdx w e
  | .count w n => leIdx w n
  | .countPrefix w n => leIdx w n
  | .free c len => [c] ++ le16 len

/-- number of objects the header announces (`Range::from`: stop - start + 1) -/
def Spec.nobj : Spec → Nat
  | .all => 0
  | .range _ s e => e - s + 1
  | .count _ n => n
  | .countPrefix _ n => n
  | .free c _ => c

structure HeaderRec where
  var : Variation
  spec : Spec
  kind : Payload
  payload : List Nat
deriving DecidableEq, Repr

/-- the octets of one object header as they appear in the fragment -/
def HeaderRec.image (r : HeaderRec) : List Nat :=
  [r.var.group, r.var.var, r.spec.qualifier] ++ r.spec.bytes ++ r.payload

/-! ## one header -/

/-- `parse_start_stop_u8` / `_u16` up to and including `Range::from` -/
def parseRange (w : Bool) (bs : List Nat) : Except ParseErr (Spec × List Nat) :=
  match readIdx w bs with
  | none => .error .insufficientBytes
  | some (start, r) =>
    match readIdx w r with
    | none => .error .insufficientBytes
    | some (stop, r) =>
      -- `Range::from`
      if stop < start then .error (.invalidRange start stop) else .ok (.range w start stop, r)

def parseCount (w prefixed : Bool) (bs : List Nat) : Except ParseErr (Spec × List Nat) :=
  match readIdx w bs with
  | none => .error .insufficientBytes
  | some (n, r) => .ok (if prefixed then .countPrefix w n else .count w n, r)

/-- the head of `parse_free_format_u16`: count octet (must be 1) and 16-bit length -/
def parseFree (bs : List Nat) : Except ParseErr (Spec × List Nat) :=
  match readU8 bs with
  | none => .error .insufficientBytes
  | some (c, r) =>
    if c ≠ 1 then .error (.unsupportedFreeFormatCount c) else
    match readU16 r with
    | none => .error .insufficientBytes
    | some (len, r) => .ok (.free c len, r)

/-- `QualifierCode::parse` + the reads that precede the variation-table lookup in `parse_*` -/
def parseSpec (q : Nat) (bs : List Nat) : Except ParseErr (Spec × List Nat) :=
  if q = qAllObjects then .ok (.all, bs)
  else if q = qRange8 then parseRange false bs
  else if q = qRange16 then parseRange true bs
  else if q = qCount8 then parseCount false false bs
  else if q = qCount16 then parseCount true false bs
  else if q = qCountAndPrefix8 then parseCount false true bs
  else if q = qCountAndPrefix16 then parseCount true true bs
  else if q = qFreeFormat16 then parseFree bs
  else .error (.unknownQualifier q)

/-- the cursor reads of one table arm.  `count`/`start` come from the header, `wide` is the
    width of the prefix (count-and-prefix qualifiers) -/
def readPayload (zls : Bool) (var : Variation) (k : Payload) (start count : Nat) (wide : Bool) (bs : List Nat) :
    Except ParseErr (List Nat × List Nat) :=
  match k with
  | .none | .emptySeq | .attrNone => .ok ([], bs)
  | .bits => takeE ((count + 7) / 8) bs
  | .dbits => takeE ((count + 3) / 4) bs
  | .fixed g v => takeE (fixedSize g v * count) bs
  | .octets =>
    if var.var = 0 ∧ ¬ zls then .error .zeroLengthOctetData else takeE (var.var * count) bs
  | .attr =>
    -- `AttrSet::from_range` then `AttrValue::parse`
    if start > 255 then .error (.badAttribute (.setIdNotU8 start))
    else if count ≠ 1 then .error (.badAttribute (.countNotOne count))
    else match attrValue bs with
      | .error e => .error (.badAttribute e)
      | .ok rest => .ok (bs.take (bs.length - rest.length), rest)
  | .prefFixed g v => takeE ((idxSize wide + fixedSize g v) * count) bs
  | .prefOctets =>
    if var.var = 0 ∧ ¬ zls then .error .zeroLengthOctetData else takeE ((var.var + idxSize wide) * count) bs
  | .prefAttr =>
    if count ≠ 1 then .error (.badAttribute (.countNotOne count)) else
    match readIdx wide bs with
    | none => .error .insufficientBytes
    | some (index, r) =>
      if index > 255 then .error (.badAttribute (.setIdNotU8 index)) else
      match attrValue r with
      | .error e => .error (.badAttribute e)
      | .ok rest => .ok (bs.take (bs.length - rest.length), rest)
  | .file _ => .error .modelGap

/-- which generated table a qualifier uses (`RangedVariation::parse` dispatches on READ) -/
def tableFor (isRead : Bool) : Spec → List (Pat × Payload)
  | .all => allObjects
  | .range _ _ _ => if isRead then rangedRead else rangedNonRead
  | .count _ _ => countTable
  | .countPrefix _ _ => prefixedTable
  | .free _ _ => freeFormat

def Spec.wide : Spec → Bool
  | .range w _ _ => w | .count w _ => w | .countPrefix w _ => w | _ => false

def Spec.start : Spec → Nat
  | .range _ s _ => s | _ => 0

/-- everything after the spec: table lookup, payload read -/
def parseBody (isRead zls : Bool) (var : Variation) (spec : Spec) (bs : List Nat) :
    Except ParseErr (HeaderRec × List Nat) :=
  match spec with
  | .free _ len =>
    -- `parse_free_format_u16`: the bytes are read before the variation is looked at
    match takeE len bs with
    | .error e => .error e
    | .ok (sub, rest) =>
      match tableGet freeFormat var with
      | some (.file v) =>
        match fileRead v sub with
        | .error e => .error e
        | .ok left => if left.isEmpty then .ok (⟨var, spec, .file v, sub⟩, rest) else .error .badEncoding
      | some _ => .error .modelGap
      | none => .error (.invalidQualifierForVariation var.group var.var spec.qualifier)
  | _ =>
    match tableGet (tableFor isRead spec) var with
    | none => .error (.invalidQualifierForVariation var.group var.var spec.qualifier)
    | some k =>
      match readPayload zls var k spec.start spec.nobj spec.wide bs with
      | .error e => .error e
      | .ok (payload, rest) => .ok (⟨var, spec, k, payload⟩, rest)

/-- `ObjectParser::parse_one_inner` -/
def parseOne (isRead zls : Bool) (bs : List Nat) : Except ParseErr (HeaderRec × List Nat) :=
  match bs with
  | g :: v :: r0 =>
    match lookup g v with
    | none => .error (.unknownGroupVariation g v)
    | some var =>
      match r0 with
      | [] => .error .insufficientBytes
      | q :: r =>
        match parseSpec q r with
        | .error e => .error e
        | .ok (spec, r) => parseBody isRead zls var spec r
  | _ => .error .insufficientBytes

/-! ## progress: every successful `parseOne` strictly shortens the input -/

theorem take?_len {n : Nat} {bs p r : List Nat} (h : take? n bs = some (p, r)) : r.length ≤ bs.length := by
  unfold take? at h; split at h <;> simp at h; rw [← h.2]; simp

theorem takeE_len {n : Nat} {bs p r : List Nat} (h : takeE n bs = .ok (p, r)) : r.length ≤ bs.length := by
  unfold takeE at h; split at h
  · rename_i x hx; cases x; injection h with h; injection h with h1 h2; subst h2; exact take?_len hx
  · cases h

theorem readU8_len {bs r : List Nat} {x : Nat} (h : readU8 bs = some (x, r)) : r.length < bs.length := by
  unfold readU8 at h; split at h <;> simp at h; rw [← h.2]; simp

theorem readU16_len {bs r : List Nat} {x : Nat} (h : readU16 bs = some (x, r)) : r.length < bs.length := by
  unfold readU16 at h; split at h <;> simp at h; rw [← h.2]; simp only [List.length_cons]; omega

theorem readIdx_len {w : Bool} {bs r : List Nat} {x : Nat} (h : readIdx w bs = some (x, r)) : r.length < bs.length := by
  unfold readIdx at h; split at h
  · exact readU16_len h
  · exact readU8_len h

theorem attrTake_len {n : Nat} {bs p r : List Nat} (h : attrTake n bs = .ok (p, r)) : r.length ≤ bs.length := by
  unfold attrTake at h; split at h
  · rename_i x hx; cases x; injection h with h; injection h with h1 h2; subst h2; exact take?_len hx
  · cases h

theorem attrTake_map_len {n : Nat} {bs r : List Nat} (h : (attrTake n bs).map (·.2) = .ok r) : r.length ≤ bs.length := by
  cases hx : attrTake n bs with
  | error e => rw [hx] at h; cases h
  | ok x => cases x; rw [hx] at h; simp [Except.map] at h; subst h; exact attrTake_len hx

theorem attrValue_len {bs r : List Nat} (h : attrValue bs = .ok r) : r.length ≤ bs.length := by
  unfold attrValue at h
  repeat' split at h
  all_goals first
    | (cases h; done)
    | (have := attrTake_map_len h; simp only [List.length_cons]; omega)
    | (simp only [List.length_cons]; grind [→ attrTake_len])

theorem parseRange_len {w : Bool} {bs r : List Nat} {s : Spec} (h : parseRange w bs = .ok (s, r)) : r.length ≤ bs.length := by
  unfold parseRange at h
  repeat' split at h
  all_goals first
    | (cases h; done)
    | grind [→ readIdx_len]

theorem parseCount_len {w p : Bool} {bs r : List Nat} {s : Spec} (h : parseCount w p bs = .ok (s, r)) : r.length ≤ bs.length := by
  unfold parseCount at h
  repeat' split at h
  all_goals first
    | (cases h; done)
    | grind [→ readIdx_len]

theorem parseFree_len {bs r : List Nat} {s : Spec} (h : parseFree bs = .ok (s, r)) : r.length ≤ bs.length := by
  unfold parseFree at h
  repeat' split at h
  all_goals first
    | (cases h; done)
    | grind [→ readU8_len, → readU16_len]

theorem parseSpec_len {q : Nat} {bs r : List Nat} {s : Spec} (h : parseSpec q bs = .ok (s, r)) : r.length ≤ bs.length := by
  unfold parseSpec at h
  repeat' split at h
  all_goals first
    | (cases h; done)
    | exact parseRange_len h
    | exact parseCount_len h
    | exact parseFree_len h
    | grind

theorem readPayload_len {zls : Bool} {var : Variation} {k : Payload} {s c : Nat} {w : Bool} {bs p r : List Nat}
    (h : readPayload zls var k s c w bs = .ok (p, r)) : r.length ≤ bs.length := by
  unfold readPayload at h
  repeat' split at h
  all_goals first
    | (cases h; done)
    | exact takeE_len h
    | grind [→ readIdx_len, → attrValue_len]

theorem parseBody_len {isRead zls : Bool} {var : Variation} {spec : Spec} {bs rest : List Nat} {rec : HeaderRec}
    (h : parseBody isRead zls var spec bs = .ok (rec, rest)) : rest.length ≤ bs.length := by
  unfold parseBody at h
  repeat' split at h
  all_goals first
    | (cases h; done)
    | grind [→ takeE_len, → readPayload_len]

theorem parseOne_length {isRead zls : Bool} {bs rest : List Nat} {rec : HeaderRec}
    (h : parseOne isRead zls bs = .ok (rec, rest)) : rest.length < bs.length := by
  unfold parseOne at h
  repeat' split at h
  all_goals first
    | (cases h; done)
    | (rename_i hs; have := parseSpec_len hs; have := parseBody_len h; simp only [List.length_cons]; omega)

/-! ## the whole object section -/

/-- `ObjectParser::parse`: headers are parsed until the cursor is empty; the first error aborts.
    Well-founded on the remaining length: `parseOne_length` is the progress argument. -/
def walk (isRead zls : Bool) (bs : List Nat) : Except ParseErr (List HeaderRec) :=
  if bs.isEmpty then .ok [] else
  match h : parseOne isRead zls bs with
  | .error e => .error e
  | .ok (r, rest) =>
    match walk isRead zls rest with
    | .error e => .error e
    | .ok rs => .ok (r :: rs)
termination_by bs.length
decreasing_by exact parseOne_length h

/-- the headers parsed before the first error (what `FragmentDisplay` re-parses and prints when
    `objects` is `Err`): `ObjectParser::one_pass(..).flatten()` -/
def walkPrefix (isRead zls : Bool) (bs : List Nat) : List HeaderRec :=
  if bs.isEmpty then [] else
  match h : parseOne isRead zls bs with
  | .error _ => []
  | .ok (r, rest) => r :: walkPrefix isRead zls rest
termination_by bs.length
decreasing_by exact parseOne_length h

end Dnp3.App
