import Dnp3.Model.OutstationTrace
import Dnp3.Model.MasterTrace
/-!
# Pair — the master session model and the outstation session model joined by a wire

`Pair.step` composes `Master.step` and `Outstation.step` with two FIFO queues of wire items
(application fragments; header-only link frames), one per direction.  The wire is the
harness' relay between the two real tasks: every item carries the virtual time at which it
becomes deliverable (`due`, `none` = held back) and the number of octets it occupies on the
wire (link framing of the transport segments), so that delivering "the next n octets" is
expressible and re-chunking is *invisible*: an item reaches the receiver exactly when its last
octet has been delivered.  `cut` drops both queues (octets in flight are lost), both endpoints
see the end of the connection and a new connection is established at once.

The master's clock (`AssociationHandler::get_current_time`) is `base + now` (saturating at
2^48-1): it advances with the virtual time.

The link layer and the transport function are not in this composition: they are tied by
their own engines (C06, C08).  The correspondence engine `pair` drives the two REAL tasks
through the real link layer and transport in both directions.

Granularity: an endpoint model handles one fragment, runs until it blocks, then gets the next
one.  The relay of the correspondence engine therefore never puts the end of one fragment and
the start of the next into ONE write (inside a fragment it re-chunks freely, link frames
included): when the real outstation finds a second fragment already buffered, its idle loop
handles it before `check_unsolicited`, a (legitimate) order of handling this composition does
not express.  Merged writes are exercised by the search-only engine `pairmerge` (monitors only).
-/
namespace Dnp3.Pair
open Dnp3

def masterAddr : Nat := 1
def outstationAddr : Nat := 1024

/-- octets of one link frame carrying a transport segment of `n` application octets -/
def segWire (n : Nat) : Nat := 10 + (n + 1) + 2 * ((n + 1 + 15) / 16)

/-- octets a fragment of `len` application octets occupies on the wire (249 per segment) -/
def fragWire (len : Nat) : Nat :=
  (len / 249) * segWire 249 + (if len % 249 = 0 then 0 else segWire (len % 249))

inductive Payload where
  | frag (src dst : Nat) (data : List Nat)
  | link (ctrl dst src : Nat)
deriving Repr, Inhabited, DecidableEq

structure Item where
  /-- virtual time from which the relay forwards it; `none` = held back -/
  due : Option Nat
  /-- octets on the wire -/
  len : Nat
  p : Payload
deriving Repr, Inhabited, DecidableEq

structure Dir where
  delay : Nat := 0
  hold : Bool := false
  /-- octets of the head item already forwarded -/
  consumed : Nat := 0
  q : List Item := []
deriving Repr, Inhabited

def Dir.push (d : Dir) (now : Nat) (p : Payload) (len : Nat) : Dir :=
  { d with q := d.q ++ [⟨if d.hold then none else some (now + d.delay), len, p⟩] }

def Dir.clear (d : Dir) : Dir := { d with q := [], consumed := 0 }

def Dir.octets (d : Dir) : Nat := (d.q.map (·.len)).foldl (· + ·) 0

structure PState where
  m : Master.MState
  o : OState
  env : OEnv := {}
  now : Nat := 0
  /-- master clock = base + now; `none` = no system time -/
  base : Option Nat := none
  m2o : Dir := {}
  o2m : Dir := {}
deriving Repr, Inhabited

/-- what one op makes observable, in order; every `m` / `o` group is one activation of that
    endpoint (rendered in canonical order by the driver) -/
inductive Group where
  | m (outs : List Master.MOut)
  | o (outs : List OOut)
  | time (t : Nat)
  /-- the relay forwarded the last octet of these items (towards the outstation?) -/
  | delivered (toOutstation : Bool) (items : List Item)
  | line (s : String)
deriving Repr, Inhabited

/-- `Timestamp::MAX_VALUE` -/
def maxTs : Nat := 281474976710655

/-- what `get_current_time` returns at virtual time `now`: `base + now`, a 48-bit timestamp
    (a clock that reached the largest timestamp stays there) -/
def masterClock (base : Option Nat) (now : Nat) : Option Nat := base.map fun b => min (b + now) maxTs

/-- one step of the master model with its clock set to `masterClock base now` -/
def mstep (s : PState) (i : Master.MInput) : PState × List Master.MOut :=
  let (m, outs) := Master.step { s.m with clock := masterClock s.base s.now } i
  ({ s with m := m }, outs)

def ostep (s : PState) (i : OInput) : PState × List OOut :=
  let (o, outs) := Outstation.step s.env s.o i
  ({ s with o := o }, outs)

/-- the master's transmissions enter the wire towards the outstation -/
def enqM (s : PState) (outs : List Master.MOut) : PState :=
  outs.foldl (fun s o =>
    match o with
    | .tx dst b => { s with m2o := s.m2o.push s.now (.frag masterAddr dst b) (fragWire b.length) }
    | .txLink c d sr => { s with m2o := s.m2o.push s.now (.link c d sr) 10 }
    | _ => s) s

def enqO (s : PState) (outs : List OOut) : PState :=
  outs.foldl (fun s o =>
    match o with
    | .tx dst b => { s with o2m := s.o2m.push s.now (.frag outstationAddr dst b) (fragWire b.length) }
    | .txLink c d sr => { s with o2m := s.o2m.push s.now (.link c d sr) 10 }
    | _ => s) s

/-- hand complete items to the receiving endpoint, one after the other, at the same instant -/
def deliverItems (s : PState) (toO : Bool) (items : List Item) : PState × List Group :=
  if toO then
    let (s, outs) := items.foldl (fun (p : PState × List OOut) it =>
      match it.p with
      | .frag src dst data => let (s', x) := ostep p.1 (.rx src dst data); (s', p.2 ++ x)
      | .link .. => p) (s, [])
    (enqO s outs, [.delivered true items, .o outs])
  else
    let (s, outs) := items.foldl (fun (p : PState × List Master.MOut) it =>
      match it.p with
      | .frag src dst data => let (s', x) := mstep p.1 (.rx src dst data); (s', p.2 ++ x)
      | .link c dst src => let (s', x) := mstep p.1 (.rxLink src dst c); (s', p.2 ++ x)) (s, [])
    (enqM s outs, [.delivered false items, .m outs])

/-- length of the longest prefix of due items -/
def dueCount (now : Nat) : List Item → Nat
  | [] => 0
  | it :: rest =>
    match it.due with
    | some t => if t ≤ now then 1 + dueCount now rest else 0
    | none => 0

def pumpFuel : Nat := 400

/-- forward everything that is due, towards the outstation first, until nothing is due -/
def pump : Nat → PState → List Group → PState × List Group
  | 0, s, g => (s, g ++ [.line "pair-fuel-exhausted"])
  | fuel+1, s, g =>
    let k := dueCount s.now s.m2o.q
    if k > 0 then
      let items := s.m2o.q.take k
      let s := { s with m2o := { s.m2o with q := s.m2o.q.drop k, consumed := 0 } }
      let (s, g') := deliverItems s true items
      pump fuel s (g ++ g')
    else
      let k := dueCount s.now s.o2m.q
      if k > 0 then
        let items := s.o2m.q.take k
        let s := { s with o2m := { s.o2m with q := s.o2m.q.drop k, consumed := 0 } }
        let (s, g') := deliverItems s false items
        pump fuel s (g ++ g')
      else (s, g)

/-- items whose last octet lies within the first `c` octets: (covered, rest, octets consumed of the new head) -/
def popCovered : Nat → List Item → List Item × List Item × Nat
  | _, [] => ([], [], 0)
  | c, it :: rest =>
    if it.len ≤ c then
      let (a, r, c') := popCovered (c - it.len) rest
      (it :: a, r, c')
    else ([], it :: rest, c)

/-- the relay forwards the next `n` octets (all of them: `none`) of one direction now -/
def forceDeliver (s : PState) (toO : Bool) (n : Option Nat) : PState × List Group :=
  let d := if toO then s.m2o else s.o2m
  let c := match n with
    | none => d.octets
    | some n => min d.octets (d.consumed + n)
  let (items, rest, c') := popCovered c d.q
  let d := { d with q := rest, consumed := c' }
  let s := if toO then { s with m2o := d } else { s with o2m := d }
  deliverItems s toO items

/-- earliest time at which the head of a queue becomes due -/
def nextDue (s : PState) : Option Nat :=
  let h (d : Dir) : Option Nat := match d.q with | it :: _ => it.due | [] => none
  match h s.m2o, h s.o2m with
  | some a, some b => some (min a b)
  | some a, none => some a
  | none, some b => some b
  | none, none => none

/-- the virtual clock jumps by `d`; both endpoints run -/
def advance (s : PState) (d : Nat) : PState × List Group :=
  let s := { s with now := s.now + d }
  let (s, mo) := mstep s (.tick d)
  let s := enqM s mo
  let (s, oo) := ostep s (.tick d)
  let s := enqO s oo
  (s, [.time s.now, .m mo, .o oo])

def tickFuel : Nat := 200

/-- advance to `target`, stopping at every instant at which the relay has something to forward -/
def tickLoop : Nat → PState → Nat → List Group → PState × List Group
  | 0, s, _, g => (s, g ++ [.line "pair-fuel-exhausted"])
  | fuel+1, s, target, g =>
    let stop : Option Nat := match nextDue s with
      | some t => if t ≤ target then some t else none
      | none => none
    match stop with
    | some t =>
      let (s, g1) := advance s (t - s.now)
      let (s, g2) := pump pumpFuel s (g ++ g1)
      tickLoop fuel s target g2
    | none =>
      if target > s.now then
        let (s, g1) := advance s (target - s.now)
        pump pumpFuel s (g ++ g1)
      else (s, g)

inductive PInput where
  | add (t : PtType) (idx cls : Nat)
  /-- `count` consecutive points added by the user thread before the session gets to run -/
  | addMany (t : PtType) (start count cls : Nat)
  | txn (items : List TxnItem)
  | script (f : Script → Script)
  /-- a user request through the association handle -/
  | user (t : Master.Task)
  | msg (m : Master.Msg)
  | tick (ms : Nat)
  | setDelay (toO : Bool) (ms : Nat)
  | setHold (toO : Bool) (on : Bool)
  | deliver (toO : Bool) (n : Option Nat)
  | cut
  | mclock (base : Option Nat)
  /-- the relay inserts a fragment of its own into one direction (only between items) -/
  | inject (toO : Bool) (src dst : Nat) (data : List Nat)

def release (d : Dir) (now : Nat) : Dir :=
  { d with hold := false, q := d.q.map fun it => match it.due with | none => { it with due := some now } | some _ => it }

/-- one op: the endpoints and the relay run until nothing is runnable at the current instant -/
def step (s : PState) (inp : PInput) : PState × List Group :=
  match inp with
  | .add t idx cls =>
    let (s, oo) := ostep s (.add t idx cls)
    pump pumpFuel (enqO s oo) [.o oo]
  | .addMany t start count cls =>
    let (s, oo) := (List.range count).foldl (fun (p : PState × List OOut) i =>
      let (s', x) := ostep p.1 (.add t (start + i) cls)
      (s', p.2 ++ x)) (s, [])
    pump pumpFuel (enqO s oo) [.o oo]
  | .txn items =>
    let (s, oo) := ostep s (.txn items)
    pump pumpFuel (enqO s oo) [.o oo]
  | .script f =>
    let (s, oo) := ostep s (.setScript f)
    (s, [.o oo])
  | .user t =>
    let (s, mo) := mstep s (.user outstationAddr t)
    pump pumpFuel (enqM s mo) [.m mo]
  | .msg m =>
    let (s, mo) := mstep s (.msg m)
    pump pumpFuel (enqM s mo) [.m mo]
  | .tick ms => tickLoop tickFuel s (s.now + ms) []
  | .setDelay toO ms =>
    (if toO then { s with m2o := { s.m2o with delay := ms } } else { s with o2m := { s.o2m with delay := ms } }, [])
  | .setHold toO on =>
    if on then
      (if toO then { s with m2o := { s.m2o with hold := true } } else { s with o2m := { s.o2m with hold := true } }, [])
    else
      let s := if toO then { s with m2o := release s.m2o s.now } else { s with o2m := release s.o2m s.now }
      pump pumpFuel s []
  | .deliver toO n =>
    let (s, g) := forceDeliver s toO n
    pump pumpFuel s g
  | .cut =>
    let s := { s with m2o := s.m2o.clear, o2m := s.o2m.clear }
    -- both ends see the end of the stream; whatever they still transmit is lost
    let (s, mo) := mstep s .eof
    let (s, oo) := ostep s .cut
    -- the outstation model's `cut` includes the start of its next session: its transmissions
    -- (all of them follow the `session` line) go out on the new connection
    let s := enqO s oo
    let (s, mo2) := mstep s .connect
    pump pumpFuel (enqM s mo2) [.m mo, .o oo, .m mo2]
  | .mclock b => ({ s with base := b }, [])
  | .inject toO src dst data =>
    let d := if toO then s.m2o else s.o2m
    if d.consumed ≠ 0 then (s, [.line "bad-op"]) else
    let (s, g) := deliverItems s toO [⟨some s.now, 0, .frag src dst data⟩]
    pump pumpFuel s g

/-- the state after `cfg`: the outstation task starts its first session, the master task is
    created and connected, then the association is added -/
def start (ocfg : OCfg) (evMax : Nat) (env : OEnv) (txSize : Nat) (acfg : Master.ACfg)
    (base : Option Nat) (dm2o do2m : Nat) : PState × List Group :=
  let (o, oo) := Outstation.start ocfg evMax
  let s : PState := { m := Master.start txSize, o := o, env := env, base := base,
                      m2o := { delay := dm2o }, o2m := { delay := do2m } }
  let s := enqO s oo
  let (s, m1) := mstep s .connect
  let s := enqM s m1
  let (s, m2) := mstep s (.msg (.addAssoc outstationAddr acfg))
  pump pumpFuel (enqM s m2) [.o oo, .m m1, .m m2]

/-- run a list of ops, collecting per-op output groups -/
def run : PState → List PInput → PState × List (List Group)
  | s, [] => (s, [])
  | s, i :: is =>
    let (s', g) := step s i
    let (s'', gs) := run s' is
    (s'', g :: gs)

end Dnp3.Pair
