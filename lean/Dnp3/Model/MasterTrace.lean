import Dnp3.Model.MasterSession
/-!
# Traces of the master model

A trace is the fold of `Master.step` over an input list.  Property theorems quantify over ALL
states / inputs; `Reachable` is the set of states the task can be in.
-/
namespace Dnp3.Master

/-- the state after `cfg`: a fresh master, enabled, waiting for a connection -/
def start (txSize : Nat) : MState := { txSize := txSize }

/-- run a list of inputs, collecting per-step outputs -/
def run : MState → List MInput → MState × List (List MOut)
  | s, [] => (s, [])
  | s, i :: is =>
    let (s', o) := step s i
    let (s'', os) := run s' is
    (s'', o :: os)

inductive Reachable (txSize : Nat) : MState → Prop where
  | start : Reachable txSize (start txSize)
  | step (s : MState) (i : MInput) : Reachable txSize s → Reachable txSize (step s i).1

/-- all transmitted application fragments of a list of outputs -/
def txFrags (outs : List MOut) : List (Nat × List Nat) :=
  outs.filterMap fun o => match o with | .tx d b => some (d, b) | _ => none

/-- the requests (function code other than CONFIRM) among them -/
def txRequests (outs : List MOut) : List (Nat × List Nat) :=
  (txFrags outs).filter fun p => p.2.getD 1 0 ≠ 0

end Dnp3.Master
