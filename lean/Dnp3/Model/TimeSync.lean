/-!
# Time synchronisation — model of `master/tasks/time.rs` (master side) and of the outstation
handlers `handle_delay_measure`, `handle_record_current_time`,
`handle_write_at_last_recorded_time`, `handle_write_abs_time` (`outstation/session.rs`)

All times are milliseconds (`Duration / 2` in nanoseconds followed by `as_millis` truncation is
the floor of the half).  `maxTs = 2^48 - 1` is `Timestamp::MAX_VALUE`.
-/
namespace Dnp3.TimeSync

def maxTs : Nat := 281474976710655

inductive SyncError where
  | badOutstationDelay (reported : Nat)
  | overflow
  | stillNeedsTime
  | unexpectedObjects
  | noSystemTime
deriving DecidableEq, Repr

/-- `Timestamp::checked_add` -/
def tsAdd (t d : Nat) : Option Nat := if d > maxTs - t then none else some (t + d)

/-- `handle_delay_measure` (master): `interval` = time between sending DELAY_MEASURE and
    receiving the reply, `reported` = the g52v2 value, `clock` = master clock when the reply is
    handled.  Result: the timestamp to WRITE, or the error reported -/
def handleDelayMeasure (interval reported : Nat) (clock : Option Nat) : Except SyncError Nat :=
  if interval < reported then .error (.badOutstationDelay reported) else
  let prop := (interval - reported) / 2
  match clock with
  | none => .error .noSystemTime
  | some c =>
    match tsAdd c prop with
    | none => .error .overflow
    | some ts => .ok ts

/-- `handle_write_absolute_time` / `handle_write_last_recorded_time` (master): the final reply -/
def handleWriteReply (objectsEmpty needTime : Bool) : Except SyncError Unit :=
  if !objectsEmpty then .error .unexpectedObjects
  else if needTime then .error .stillNeedsTime
  else .ok ()

/-- outstation `handle_write_at_last_recorded_time`: `none` = PARAMETER_ERROR, no clock write -/
def outstationWriteLastRecorded (value : Nat) (recordedAt now : Nat) : Option Nat :=
  let ts := value + (now - recordedAt)
  if ts > maxTs then none else some ts

/-- the non-LAN procedure end to end.  `m0` = master clock when DELAY_MEASURE is sent; the
    master clock advances with real time.  `a b c` = one-way delays of request, reply and WRITE;
    `p` = real processing time in the outstation, `reported` what it reports.
    Returns (time handed to the outstation application, master clock at that instant) -/
def nonLan (m0 a p b c reported : Nat) : Except SyncError (Nat × Nat) :=
  let interval := a + p + b
  match handleDelayMeasure interval reported (some (m0 + interval)) with
  | .error e => .error e
  | .ok ts => .ok (ts, m0 + interval + c)

/-- the LAN procedure end to end: `m0` = master clock recorded when RECORD_CURRENT_TIME is sent,
    `a` its one-way delay, `gap` the time between the outstation recording and its receiving
    the WRITE of g50v3.  Returns (time handed to the application, master clock then) -/
def lan (m0 a gap : Nat) : Option (Nat × Nat) :=
  match outstationWriteLastRecorded m0 0 gap with
  | none => none
  | some ts => some (ts, m0 + a + gap)

end Dnp3.TimeSync
