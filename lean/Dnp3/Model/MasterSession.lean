import Dnp3.Model.Master
/-!
# Master session state machine (`MasterSession::run` and everything it calls)

`Master.step : MState → MInput → MState × List MOut`: one input, then the task runs until it
blocks again (exactly what the harness observes after `quiesce()`).
-/
namespace Dnp3.Master

inductive AutoId where | disable | integrity | enable | clearRestart | timeSync | eventScan
deriving DecidableEq, Repr

def TaskStates.get (t : TaskStates) : AutoId → AutoState
  | .disable => t.disable | .integrity => t.integrity | .enable => t.enable
  | .clearRestart => t.clearRestart | .timeSync => t.timeSync | .eventScan => t.eventScan

def TaskStates.set (t : TaskStates) (id : AutoId) (s : AutoState) : TaskStates :=
  match id with
  | .disable => { t with disable := s } | .integrity => { t with integrity := s }
  | .enable => { t with enable := s } | .clearRestart => { t with clearRestart := s }
  | .timeSync => { t with timeSync := s } | .eventScan => { t with eventScan := s }

def Assoc.failAuto (x : Assoc) (id : AutoId) (now : Nat) : Assoc :=
  { x with auto := x.auto.set id ((x.auto.get id).failure x.cfg now) }

def Assoc.doneAuto (x : Assoc) (id : AutoId) : Assoc := { x with auto := x.auto.set id .idle }

/-- `on_*_response` of the three `AutoTask`s -/
def Assoc.autoResponse (x : Assoc) (k : AutoKind) (iin1 now : Nat) : Assoc :=
  match k with
  | .clearRestart => if iin1 &&& 0x80 ≠ 0 then x.failAuto .clearRestart now else x.doneAuto .clearRestart
  | .enableUnsol => x.doneAuto .enable
  | .disableUnsol => x.doneAuto .disable

def AutoKind.id : AutoKind → AutoId
  | .clearRestart => .clearRestart | .enableUnsol => .enable | .disableUnsol => .disable

def setMode (a : Acc) (m : Mode) : Acc := ({ a.1 with mode := m }, a.2)

/-- `Task::on_task_error(association, err)`; a missing association is `None` -/
def taskOnError (a : Acc) (dest : Nat) (t : Task) (e : TaskErr) : Acc :=
  let now := a.1.now
  match t with
  | .read (.poll id _) => modAssoc a dest (·.completePoll id now)
  | .read (.integrity _) => modAssoc a dest (·.failAuto .integrity now)
  | .read (.eventScan _) => modAssoc a dest (·.failAuto .eventScan now)
  | .read (.single uid _ _) => complete a uid (.task e)
  | .nonRead (.auto k _) =>
    match e with
    | .rejectedIin2 i1 _ => modAssoc a dest (·.autoResponse k i1 now)
    | _ => modAssoc a dest (·.failAuto k.id now)
  | .nonRead (.command uid _ _) => complete a uid (.task e)
  | .nonRead (.timeSync none _) => modAssoc a dest (·.failAuto .timeSync now)
  | .nonRead (.timeSync (some u) _) => complete a u (.task e)
  | .nonRead (.restart uid _) => complete a uid (.task e)
  | .nonRead (.deadband uid _) => complete a uid (.task e)
  | .linkStatus (some u) => complete a u (.task e)
  | .linkStatus none => a

/-- `TimeSyncTask::start` -/
def tsStart (clock : Option Nat) (now : Nat) : TsState → Option TsState
  | .measureDelay _ => if clock.isSome then some (.measureDelay (some now)) else none
  | .writeAbs none => clock.map fun c => .writeAbs (some c)
  | .writeAbs (some t) => some (.writeAbs (some t))
  | .recordCurrent _ => clock.map fun c => .recordCurrent (some c)
  | .writeLast t => some (.writeLast t)

/-- `TimeSyncTask::report_error` -/
def tsReportError (a : Acc) (dest : Nat) (uid : Option Nat) (o : Outcome) : Acc :=
  match uid with
  | none => modAssoc a dest (·.failAuto .timeSync a.1.now)
  | some u => complete a u o

/-- `Task::start` -/
def startTask (a : Acc) (dest : Nat) (t : Task) : Acc × Option Task :=
  match t with
  | .nonRead (.timeSync uid st) =>
    match tsStart a.1.clock a.1.now st with
    | some st' => (a, some (.nonRead (.timeSync uid st')))
    | none => (tsReportError a dest uid .tsNoSystemTime, none)
  | t => (a, some t)

/-- `Association::priority_task` -/
def priorityTask : Nat → Acc → Nat → Acc × Option Task
  | 0, a, _ => (a, none)
  | fuel+1, a, addr =>
    match a.1.getAssoc addr with
    | none => (a, none)
    | some x =>
      match x.queue with
      | [] => (a, none)
      | t :: rest =>
        let a := modAssoc a addr fun y => { y with queue := rest }
        match startTask a addr t with
        | (a, some t) => (a, some t)
        | (a, none) => priorityTask fuel a addr

/-- `Association::next_task` -/
def assocNextTask : Nat → Acc → Nat → Acc × Next Task
  | 0, a, _ => (emit a .modelFuelExhausted, .none)
  | fuel+1, a, addr =>
    match a.1.getAssoc addr with
    | none => (a, .none)
    | some x =>
      match x.getNextTask a.1.now with
      | .now t =>
        match startTask a addr t with
        | (a, some t) => (a, .now t)
        | (a, none) => assocNextTask fuel a addr
      | .notBefore t => (a, .notBefore t)
      | .none => (a, .none)

def rotate (a : Acc) (addr : Nat) : Acc := ({ a.1 with ring := a.1.ring.erase addr ++ [addr] }, a.2)

/-- first loop of `AssociationMap::next_task`: user requests -/
def phase1 : List Nat → Acc → Acc × Option (Nat × Task)
  | [], a => (a, none)
  | addr :: rest, a =>
    match a.1.getAssoc addr with
    | none => phase1 rest a
    | some x =>
      match priorityTask (x.queue.length + 1) a addr with
      | (a, some t) => (rotate a addr, some (addr, t))
      | (a, none) => phase1 rest a

/-- second loop: automatic tasks, polls, keep-alive -/
def phase2 : List Nat → Option Nat → Acc → Acc × Next (Nat × Task)
  | [], e, a => (a, match e with | some t => .notBefore t | none => .none)
  | addr :: rest, e, a =>
    match assocNextTask 8 a addr with
    | (a, .now t) => (rotate a addr, .now (addr, t))
    | (a, .notBefore t) => phase2 rest (earliest e t) a
    | (a, .none) => phase2 rest e a

/-- `AssociationMap::next_task` -/
def nextTask (a : Acc) : Acc × Next (Nat × Task) :=
  match phase1 a.1.ring a with
  | (a, some x) => (a, .now x)
  | (a, none) => phase2 a.1.ring none a

inductive StopWhy where | link | disabled | shutdown
deriving DecidableEq, Repr

def StopWhy.err : StopWhy → TaskErr
  | .link => .link | .disabled => .disabled | .shutdown => .shutdown

/-- `Association::reset` for every association, then the session is over -/
def endSession (a : Acc) (why : StopWhy) : Acc :=
  let a := a.1.assocs.foldl (fun a x =>
    let a := x.queue.foldl (fun a t => taskOnError a x.addr t why.err) a
    modAssoc a x.addr fun y => { y with queue := [], auto := {}, integrityDone := false, lastUnsol := none }) a
  match why with
  | .link => setMode (emit a (.session "link stdio UnexpectedEof")) .offline
  | .disabled => setMode (emit a (.session "stop Disable")) .offline
  | .shutdown => setMode (emit (emit a (.session "stop Shutdown")) .taskExit) .exited

/-- the handler calls of `extract_measurements` for one parsed header -/
def deliverHeader (a : Acc) (who : Who) (h : ObjHdr) : Acc :=
  if h.group = 50 ∧ h.var = 1 then
    if h.a = 1 then emit a (.deliverAbsTime who (u48le h.data)) else a
  else if h.group = 1 ∨ h.group = 30 then
    let k := if h.group = 1 then 1 else 5
    emit a (.deliverHdr who h.group h.var h.qual
      ((List.range (h.b - h.a + 1)).map fun i => (h.a + i, (h.data.drop (k * i)).take k)))
  else if h.group = 2 ∨ h.group = 32 then
    let isz := if h.qual = 0x17 then 1 else 2
    let k := if h.group = 32 then 5 else if h.var = 1 then 1 else 7
    emit a (.deliverHdr who h.group h.var h.qual
      ((splitItems (isz + k) h.a h.data).map fun it => (if isz = 1 then it.getD 0 0 else u16le it, it.drop isz)))
  else a

def rtOf : ReadTask → ReadType
  | .poll .. => .poll
  | .integrity _ => .integrity
  | .eventScan _ => .poll
  | .single .. => .single

/-- `extract_measurements` -/
def deliver (a : Acc) (who : Who) (rt : ReadType) (r : Resp) (hs : List ObjHdr) : Acc :=
  let a := emit a (.deliverBegin who rt r.ctrl.toNat r.iin1 r.iin2)
  let a := hs.foldl (fun a h => deliverHeader a who h) a
  emit a (.deliverEnd who rt)

def notifyLinkActivity (a : Acc) (addr : Nat) : Acc := modAssoc a addr (·.onLinkActivity a.1.now)

/-- `MasterSession::handle_unsolicited` -/
def doUnsolicited (a : Acc) (src : Nat) (r : Resp) : Acc :=
  match a.1.getAssoc src with
  | none => a
  | some _ =>
    let a := modAssoc a src (·.processIin r.iin1 r.iin2)
    match a.1.getAssoc src with
    | none => a
    | some x =>
      let d := handleUnsolicited x.isIntegrityComplete x.lastUnsol r
      let a := if d.valid then modAssoc a src fun y => { y with lastUnsol := some r.key } else a
      let a :=
        if !d.valid then a
        else if d.duplicate then emit a (.unsol src true r.ctrl.seq)
        else
          let a := match r.objects with
            | some hs => deliver a (.assoc src) .unsolicited r hs
            | none => a
          emit a (.unsol src false r.ctrl.seq)
      if d.confirm then emit a (.tx src [0xD0 + r.ctrl.seq, 0]) else a

/-- `send_request`: `inl` = the error, `inr` = the sequence number used -/
def sendRequest (a : Acc) (dest func : Nat) (objs : List Nat) : Acc × Except TaskErr Nat :=
  match a.1.getAssoc dest with
  | none => (a, .error .noAssociation)
  | some x =>
    let seq := x.seq
    let a := modAssoc a dest fun y => { y with seq := seq4Next seq }
    let bytes := requestBytes seq func objs
    if bytes.length > a.1.txSize then (a, .error .writeError)
    else (emit a (.tx dest bytes), .ok seq)

def notifyResult (a : Acc) (dest : Nat) (tt : TaskType) (fc : Nat) (res : Except TaskErr Nat) : Acc :=
  if (a.1.getAssoc dest).isSome then
    emit a (match res with
      | .ok seq => .taskSuccess dest tt fc seq
      | .error e => .taskFail dest tt e)
  else a

/-- `ReadTask::complete` -/
def readComplete (a : Acc) (dest : Nat) (t : ReadTask) : Acc :=
  match t with
  | .integrity _ => modAssoc a dest fun y => { y.doneAuto .integrity with integrityDone := true }
  | .poll id _ => modAssoc a dest (·.completePoll id a.1.now)
  | .eventScan _ => modAssoc a dest (·.doneAuto .eventScan)
  | .single uid _ _ => complete a uid .ok

/-- the end of `run_read_task` -/
def finishRead (a : Acc) (dest : Nat) (t : ReadTask) (res : Except TaskErr Nat) : Acc :=
  match res with
  | .ok _ =>
    if (a.1.getAssoc dest).isSome then readComplete a dest t
    else taskOnError a dest (.read t) .noAssociation
  | .error e => taskOnError a dest (.read t) e

def cmdOutcome : CmdErr → Outcome
  | .badStatus s => .cmdBadStatus s
  | .headerCount => .cmdHeaderCount
  | .headerType => .cmdHeaderType
  | .objectCount => .cmdObjectCount
  | .objectValue => .cmdObjectValue

/-- the single count header `get_only_object_header` + `details.count()` yields: (g, v, data) when count = 1 -/
def singleCountHeader (r : Resp) : Option ObjHdr :=
  match r.objects with
  | some [h] => if h.qual = 0x07 ∨ h.qual = 0x08 then some h else none
  | _ => none

/-- `NonReadTask::handle_response`: the next step, completion, or the error to fail with.
    Every promise / auto-task bookkeeping is done here, as in the Rust. -/
def handleResponse (a : Acc) (dest : Nat) (t : NonReadTask) (r : Resp) : Acc × Except TaskErr (Option NonReadTask) :=
  let now := a.1.now
  match t with
  | .auto k _ => (modAssoc a dest (·.autoResponse k r.iin1 now), .ok none)
  | .command uid st objs =>
    match r.objects with
    | none => (complete a uid (.task .malformed), .error .malformed)
    | some recv =>
      match CommandHeaders.compare ((parseRespObjects objs.length objs).getD []) recv with
      | some e => (complete a uid (cmdOutcome e), .error .unexpectedHeaders)
      | none =>
        match st with
        | .select => (a, .ok (some (.command uid .operate objs)))
        | _ => (complete a uid .ok, .ok none)
  | .restart uid _ =>
    match r.objects with
    | some [h] =>
      if (h.qual = 0x07 ∨ h.qual = 0x08) then
        if h.group = 52 ∧ h.var = 1 ∧ h.a = 1 then (complete a uid (.okDelay (1000 * u16le h.data)), .ok none)
        else if h.group = 52 ∧ h.var = 2 ∧ h.a = 1 then (complete a uid (.okDelay (u16le h.data)), .ok none)
        else (complete a uid (.task .unexpectedHeaders), .error .unexpectedHeaders)
      else (complete a uid (.task .unexpectedHeaders), .error .unexpectedHeaders)
    | _ => (complete a uid (.task .unexpectedHeaders), .error .unexpectedHeaders)
  | .deadband uid _ =>
    if r.raw.isEmpty then (complete a uid .ok, .ok none)
    else (complete a uid (.task .unexpectedHeaders), .error .unexpectedHeaders)
  | .timeSync uid st =>
    let fail (o : Outcome) : Acc × Except TaskErr (Option NonReadTask) :=
      (tsReportError a dest uid o, .error .unexpectedHeaders)
    let success : Acc × Except TaskErr (Option NonReadTask) :=
      (match uid with
       | none => modAssoc a dest (·.doneAuto .timeSync)
       | some u => complete a u .ok, .ok none)
    match st with
    | .measureDelay t0 =>
      let interval := now - t0.getD now
      match singleCountHeader r with
      | none => fail (.task .unexpectedHeaders)
      | some h =>
        if !(h.group = 52 ∧ h.var = 2 ∧ h.a = 1) then fail (.task .unexpectedHeaders) else
        let delay := u16le h.data
        if interval < delay then fail (.tsBadDelay delay) else
        let prop := (interval - delay) / 2
        match a.1.clock with
        | none => fail .tsNoSystemTime
        | some c =>
          if c + prop > 281474976710655 then fail .tsOverflow
          else (a, .ok (some (.timeSync uid (.writeAbs (some (c + prop))))))
    | .writeAbs _ =>
      if !r.raw.isEmpty then fail (.task .unexpectedHeaders)
      else if r.iin1 &&& 0x10 ≠ 0 then fail .tsStillNeedsTime
      else success
    | .recordCurrent t =>
      if !r.raw.isEmpty then fail (.task .unexpectedHeaders)
      else (a, .ok (some (.timeSync uid (.writeLast (t.getD 0)))))
    | .writeLast _ =>
      if !r.raw.isEmpty then fail (.task .unexpectedHeaders)
      else if r.iin1 &&& 0x10 ≠ 0 then fail .tsStillNeedsTime
      else success

/-- what happened to the task in flight after an event -/
inductive Step where
  /-- still waiting (mode already updated) -/
  | waiting (a : Acc)
  /-- the application task ended: `run_task` continues with notification and the main loop -/
  | appDone (a : Acc) (dest : Nat) (tt : TaskType) (fc : Nat) (res : Except TaskErr Nat)
  /-- the link status task ended -/
  | linkDone (a : Acc) (uid : Option Nat) (res : Option TaskErr)
  /-- return to the top of `run` -/
  | loop (a : Acc)
  | stop (a : Acc) (why : StopWhy)

/-- `run_single_non_read_task` up to the wait -/
def runSingle (a : Acc) (dest : Nat) (t : NonReadTask) (tt : TaskType) (fc0 : Nat) : Step :=
  match sendRequest a dest t.function t.objects with
  | (a, .error e) => .appDone (taskOnError a dest (.nonRead t) e) dest tt fc0 (.error e)
  | (a, .ok seq) =>
    match a.1.getAssoc dest with
    | none => .appDone a dest tt fc0 (.error .noAssociation)
    | some x => .waiting (setMode a (.waitNonRead dest t seq fc0 (a.1.now + x.cfg.rto)))

/-- `run_task` up to the first wait -/
def beginTask (a : Acc) (dest : Nat) (t : Task) : Step :=
  match a.1.getAssoc dest with
  | none => .loop a
  | some x =>
    match t with
    | .linkStatus uid =>
      let a := emit a (.txLink 0xC9 dest 1)
      .waiting (setMode a (.waitLink dest uid (a.1.now + x.cfg.rto)))
    | .read rt =>
      let a := emit a (.taskStart dest rt.taskType 1 x.seq)
      match sendRequest a dest 1 (classHeaders rt.classes) with
      | (a, .error e) => .appDone (finishRead a dest rt (.error e)) dest rt.taskType 1 (.error e)
      | (a, .ok seq) => .waiting (setMode a (.waitRead dest rt seq true (a.1.now + x.cfg.rto)))
    | .nonRead nt =>
      let a := emit a (.taskStart dest nt.taskType nt.function x.seq)
      runSingle a dest nt nt.taskType nt.function

def whoOf (dest : Nat) : ReadTask → Who
  | .single uid _ true => .custom uid
  | _ => .assoc dest

/-- a fragment (already accepted by the link layer and reassembled) while a session runs -/
def onFragment (a : Acc) (src : Nat) (frag : List Nat) : Step :=
  match a.1.mode with
  | .offline | .exited => .waiting a
  | .idle _ =>
    match parseResponse frag with
    | none => .loop a
    | some r =>
      let a := notifyLinkActivity a src
      .loop (if r.unsol then doUnsolicited a src r else a)
  | .waitLink _ uid _ =>
    match parseResponse frag with
    | none => .linkDone a uid (some .unexpectedHeaders)
    | some r =>
      let a := notifyLinkActivity a src
      .linkDone (if r.unsol then doUnsolicited a src r else a) uid (some .unexpectedHeaders)
  | .waitRead dest t seq isFirst _ =>
    let fail (a : Acc) (e : TaskErr) : Step := .appDone (finishRead a dest t (.error e)) dest t.taskType 1 (.error e)
    match parseResponse frag with
    | none => fail a .transport
    | some r =>
      let a := notifyLinkActivity a src
      match processReadResponse dest seq isFirst (a.1.getAssoc dest).isSome src r with
      | .unsolicited => .waiting (doUnsolicited a src r)
      | .ignore => .waiting a
      | .fail e iinDone =>
        let a := if iinDone then modAssoc a dest (·.processIin r.iin1 r.iin2) else a
        fail a e
      | .accept confirm final =>
        let a := modAssoc a dest (·.processIin r.iin1 r.iin2)
        let a := deliver a (whoOf dest t) (rtOf t) r (r.objects.getD [])
        let a := if confirm then emit a (.tx dest [0xC0 + seq, 0]) else a
        if final then .appDone (finishRead a dest t (.ok seq)) dest t.taskType 1 (.ok seq)
        else
          match a.1.getAssoc dest with
          | none => fail a .noAssociation
          | some x =>
            let a := modAssoc a dest fun y => { y with seq := seq4Next y.seq }
            .waiting (setMode a (.waitRead dest t x.seq false (a.1.now + x.cfg.rto)))
  | .waitNonRead dest t seq fc0 _ =>
    let tt := t.taskType
    match parseResponse frag with
    | none => .appDone (taskOnError a dest (.nonRead t) .transport) dest tt fc0 (.error .transport)
    | some r =>
      let a := notifyLinkActivity a src
      match validateNonRead dest seq src r with
      | .unsolicited => .waiting (doUnsolicited a src r)
      | .ignore => .waiting a
      | .fail e => .appDone (taskOnError a dest (.nonRead t) e) dest tt fc0 (.error e)
      | .accept =>
        -- the accepted response is confirmed when it asks for it (end of `validate_non_read_response`)
        let a := if r.ctrl.con then emit a (.tx dest [0xC0 + seq, 0]) else a
        match a.1.getAssoc dest with
        | none => .appDone (taskOnError a dest (.nonRead t) .noAssociation) dest tt fc0 (.error .noAssociation)
        | some _ =>
          let a := modAssoc a dest (·.processIin r.iin1 r.iin2)
          match handleResponse a dest t r with
          | (a, .error e) => .appDone a dest tt fc0 (.error e)
          | (a, .ok none) => .appDone a dest tt fc0 (.ok seq)
          | (a, .ok (some next)) => runSingle a dest next tt fc0

/-- a link status request / response frame from `src` -/
def onLinkMsg (a : Acc) (src : Nat) : Step :=
  match a.1.mode with
  | .offline | .exited => .waiting a
  | .waitLink _ uid _ => .linkDone (notifyLinkActivity a src) uid none
  | _ => .waiting (notifyLinkActivity a src)

/-- a wait's timer fired? -/
def onTime (a : Acc) : Step :=
  let now := a.1.now
  match a.1.mode with
  | .idle (some t) => if t ≤ now then .loop a else .waiting a
  | .waitRead dest t _ _ dl =>
    if dl ≤ now then .appDone (finishRead a dest t (.error .timeout)) dest t.taskType 1 (.error .timeout) else .waiting a
  | .waitNonRead dest t _ fc0 dl =>
    if dl ≤ now then .appDone (taskOnError a dest (.nonRead t) .timeout) dest t.taskType fc0 (.error .timeout)
    else .waiting a
  | .waitLink _ uid dl => if dl ≤ now then .linkDone a uid (some .timeout) else .waiting a
  | _ => .waiting a

/-- messages from the handles -/
inductive Msg where
  | enable (on : Bool)
  | addAssoc (addr : Nat) (cfg : ACfg)
  | removeAssoc (addr : Nat)
  | queueTask (addr : Nat) (t : Task)
  | addPoll (addr : Nat) (period classes : Nat)
  | removePoll (addr id : Nat)
  | demand (addr id : Nat)
deriving Repr

/-- `process_message(is_connected)`; true = `Err(StopReason::Disable)` -/
def processMessage (a : Acc) (connected : Bool) (m : Msg) : Acc × Bool :=
  match m with
  | .enable on => (({ a.1 with enabled := on }, a.2), connected && !on)
  | .addAssoc addr cfg =>
    if (a.1.getAssoc addr).isSome then (emit a (.line "assoc err dup"), connected && !a.1.enabled)
    else
      let s := { a.1 with assocs := insertSorted (Assoc.new addr cfg a.1.now) a.1.assocs, ring := a.1.ring ++ [addr] }
      (emit (s, a.2) (.line "assoc ok"), connected && !a.1.enabled)
  | .removeAssoc addr =>
    -- the `Association` is dropped: the promises of its queued requests are dropped unanswered,
    -- which the waiting futures observe as `Shutdown`
    let a := match a.1.getAssoc addr with
      | some x => x.queue.foldl (fun a t => taskOnError a addr t .shutdown) a
      | none => a
    (({ a.1 with assocs := a.1.assocs.filter (·.addr ≠ addr), ring := a.1.ring.filter (· ≠ addr) }, a.2),
     connected && !a.1.enabled)
  | .queueTask addr t =>
    match a.1.getAssoc addr with
    | none => (taskOnError a addr t .noAssociation, false)
    | some x =>
      if !connected then (taskOnError a addr t .noConnection, false)
      else if x.queue.length < x.cfg.maxq then (modAssoc a addr fun y => { y with queue := y.queue ++ [t] }, false)
      else (taskOnError a addr t .tooManyRequests, false)
  | .addPoll addr period classes =>
    match a.1.getAssoc addr with
    | none => (emit a (.line "poll err no_association"), false)
    | some x =>
      let a := modAssoc a addr fun y =>
        { y with polls := y.polls ++ [⟨y.pollId, classes, period, a.1.now + period⟩], pollId := y.pollId + 1 }
      (emit a (.line s!"poll {x.pollId}"), false)
  | .removePoll addr id => (modAssoc a addr fun y => { y with polls := y.polls.filter (·.id ≠ id) }, false)
  | .demand addr id =>
    (modAssoc a addr fun y => { y with polls := y.polls.map fun p => if p.id = id then { p with next := a.1.now } else p }, false)

/-- a message (or the closure of the channel: `none`) arrives while a session runs or not -/
def onMessage (a : Acc) (m : Option Msg) : Step :=
  let stopErr (why : StopWhy) (a : Acc) : Step :=
    match a.1.mode with
    | .waitRead dest t _ _ _ =>
      .appDone (finishRead a dest t (.error why.err)) dest t.taskType 1 (.error why.err)
    | .waitNonRead dest t _ fc0 _ =>
      .appDone (taskOnError a dest (.nonRead t) why.err) dest t.taskType fc0 (.error why.err)
    | .waitLink _ uid _ => .linkDone a uid (some why.err)
    | .idle _ => .stop a why
    | .offline => if why = .shutdown then .waiting (setMode (emit a .taskExit) .exited) else .waiting a
    | .exited => .waiting a
  match m with
  | none => stopErr .shutdown a
  | some m =>
    match a.1.mode with
    | .exited => .waiting a
    | .offline => .waiting (processMessage a false m).1
    | mode =>
      match processMessage a true m with
      | (a, true) => stopErr .disabled a
      | (a, false) =>
        match mode with
        | .idle _ => .loop a
        | .waitLink dest uid _ =>
          -- the loop looks the association up again (`get_timeout`) after every message; the
          -- deadline was computed once, when the request went out
          match a.1.getAssoc dest with
          | none => .linkDone a uid (some .noAssociation)
          | some _ => .waiting a
        | _ => .waiting a

/-- the connection is lost -/
def onEof (a : Acc) : Step :=
  match a.1.mode with
  | .waitRead dest t _ _ _ => .appDone (finishRead a dest t (.error .link)) dest t.taskType 1 (.error .link)
  | .waitNonRead dest t _ fc0 _ => .appDone (taskOnError a dest (.nonRead t) .link) dest t.taskType fc0 (.error .link)
  | .waitLink _ uid _ => .linkDone a uid (some .link)
  | .idle _ => .stop a .link
  | _ => .waiting a

def stopOf : TaskErr → Option StopWhy
  | .shutdown => some .shutdown
  | .disabled => some .disabled
  | .link => some .link
  | _ => none

def loopFuel : Nat := 64

/-- the main loop of `run`, until the task blocks -/
def resolve : Nat → Step → Acc
  | 0, s =>
    match s with
    | .waiting a | .loop a | .stop a _ | .appDone a .. | .linkDone a .. => emit a .modelFuelExhausted
  | fuel+1, s =>
    match s with
    | .waiting a => a
    | .stop a why => endSession a why
    | .appDone a dest tt fc res =>
      let a := notifyResult a dest tt fc res
      match res with
      | .error e =>
        match stopOf e with
        | some why => endSession a why
        | none => resolve fuel (.loop a)
      | .ok _ => resolve fuel (.loop a)
    | .linkDone a uid res =>
      let a := match uid with
        | some u => complete a u (match res with | none => .ok | some e => .task e)
        | none => a
      match res.bind stopOf with
      | some why => endSession a why
      | none => resolve fuel (.loop a)
    | .loop a =>
      match nextTask a with
      | (a, .none) => setMode a (.idle none)
      | (a, .notBefore t) =>
        if t ≤ a.1.now then resolve fuel (.loop (setMode a (.idle (some t)))) else setMode a (.idle (some t))
      | (a, .now (dest, task)) => resolve fuel (beginTask a dest task)

inductive MInput where
  /-- application fragment from link address `src` to `dst` -/
  | rx (src dst : Nat) (data : List Nat)
  /-- header-only link frame (control octet) from `src` to `dst` -/
  | rxLink (src dst ctrl : Nat)
  | tick (ms : Nat)
  | msg (m : Msg)
  /-- a user request is issued through a handle future (counts as live until it resolves) -/
  | user (addr : Nat) (t : Task)
  | clock (t : Option Nat)
  /-- the peer closes the connection -/
  | eof
  /-- a new connection is available -/
  | connect
  /-- every handle not held by a pending request future is dropped -/
  | dropHandles

def masterAddr : Nat := 1

/-- the channel closes once no sender is left -/
def checkShutdown (a : Acc) : Acc :=
  if a.1.shutdownReq ∧ a.1.live = 0 then
    match a.1.mode with
    | .exited => a
    | _ => resolve loopFuel (onMessage a none)
  else a

/-- the model's step function: one input, run to quiescence -/
def step (s : MState) (inp : MInput) : MState × List MOut :=
  let a : Acc := (s, [])
  match inp with
  | .clock t => ({ s with clock := t }, [])
  | .tick ms => checkShutdown (resolve loopFuel (onTime ({ s with now := s.now + ms }, [])))
  | .rx src dst data =>
    if dst ≠ masterAddr ∨ src ≥ 0xFFF0 ∨ data.isEmpty ∨ data.length > 2048 then (s, [])
    else checkShutdown (resolve loopFuel (onFragment a src data))
  | .rxLink src dst ctrl =>
    if dst ≠ masterAddr ∨ src ≥ 0xFFF0 then (s, []) else
    match s.mode with
    | .offline | .exited => (s, [])
    | _ =>
      if ctrl = 0x0B then checkShutdown (resolve loopFuel (onLinkMsg a src))
      else if ctrl = 0x49 then
        checkShutdown (resolve loopFuel (onLinkMsg (emit a (.txLink 0x8B src masterAddr)) src))
      else (s, [])
  | .msg m => checkShutdown (resolve loopFuel (onMessage a (some m)))
  | .user addr t =>
    checkShutdown (resolve loopFuel (onMessage ({ s with live := s.live + 1 }, []) (some (.queueTask addr t))))
  | .eof => checkShutdown (resolve loopFuel (onEof a))
  | .connect =>
    match s.mode with
    | .offline => if s.enabled then checkShutdown (resolve loopFuel (.loop a)) else (s, [])
    | _ => (s, [])
  | .dropHandles => checkShutdown ({ s with shutdownReq := true }, [])

end Dnp3.Master
