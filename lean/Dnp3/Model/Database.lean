/-!
# Outstation database — executable model of `outstation/database/**`

Event buffer (`details/event/{buffer,list,writer,write_fn,traits}.rs`), static database
(`details/range/{static_db,writer,traits}.rs`), READ header mapping (`read.rs`) and response
writing (`details/database.rs`, `mod.rs`) for the two point types the harness configures:

* binary input  — static g1v2, event g2v1, `FlagsDetector`
* analog input  — static g30v1, event g32v1, dead-band 0; values are integers carried as `f64`
  (exact for |value| < 2^53)

with `EventBufferConfig::no_events()` + `max_binary = max_analog = evMax`, the default
`ClassZeroConfig`, and `max_read_request_headers` = `max(configured, 64)`.

The interface (`PtType`, `ReadHdr`, `UpdInfo`, `Db`, `Db.new`, `Db.add`, `Db.update`, `Db.select`,
`Db.writeResponse`, `Db.writeUnsolicited`, `Db.clearWritten`, `Db.reset`, `Db.unwrittenClasses`,
`Db.isOverflown`, plus `Db.readSupported`) is the contract of the session model
(`Dnp3.Model.Outstation`).  Everything else lives in `Dnp3.DbM` (helpers) or is `Db.`-prefixed.

READ headers covered (`ReadHdr.classify`): every (group, variation) the request parser accepts
with qualifiers 0x06, 0x00, 0x01, 0x07, 0x08 — g60v1..4; g1v0..2, g30v0..6, g34v0..3 (dead-bands,
always 0); g2v0..3 (g2v3 with its g51v1 common-time header), g32v0..8; the types without points
(g3, g10, g20, g21, g40, g110 static; g4, g11, g22, g23, g42, g111v0 events; g31 / g33 frozen
analogs); g0 device attributes (none defined); and the headers `ReadHeader::get` rejects
(g13, g43, g80, g102, g111vN, g50/51/52) → IIN2.0.  Not covered: qualifiers 0x17 / 0x28 / 0x5B
inside a READ (`uncovered`).  `parseReadHdrs` splits request octets; `classify = parseError`
marks what `HeaderCollection::parse` refuses (the whole request is then refused).

Conventions: indices < 65536, flags < 256 (octets), times are reduced mod 2^48
(`Timestamp::new`), event class 1..3 (anything else = no class).  `VecList` is abstracted to `List`
(`add` = append, `remove_first p`, `remove_all p`, `iter` = list order).

`insert` into a full type discards the oldest record of that type; when that record is `Written`
(carried by a response that still awaits its confirm) `written` is decremented with `total`
(the repair of D3).
-/
namespace Dnp3

inductive PtType where | binary | analog
deriving DecidableEq, Repr, Inhabited

/-- one object header of a READ request: `a`,`b` = start,stop for qualifiers 0x00/0x01,
    `a` = count for 0x07/0x08, unused for 0x06 -/
structure ReadHdr where
  group : Nat
  var : Nat
  qual : Nat
  a : Nat := 0
  b : Nat := 0
deriving DecidableEq, Repr, Inhabited

inductive UpdInfo where
  | noPoint | noEvent | created (id : Nat) | overflow (created discarded : Nat)
deriving DecidableEq, Repr, Inhabited

namespace DbM

/-! ## little-endian / two's complement / IEEE-754 helpers -/

def le16 (n : Nat) : List Nat := [n % 256, n / 256 % 256]
def le32 (n : Nat) : List Nat := [n % 256, n / 256 % 256, n / 65536 % 256, n / 16777216 % 256]
def le48 (n : Nat) : List Nat :=
  [n % 256, n / 256 % 256, n / 65536 % 256, n / 16777216 % 256, n / 4294967296 % 256, n / 1099511627776 % 256]
def le64 (n : Nat) : List Nat := le32 (n % 4294967296) ++ le32 (n / 4294967296 % 4294967296)

/-- two's complement of `v` in `bits` bits -/
def twos (bits : Nat) (v : Int) : Nat := (v % (2 ^ bits : Nat)).toNat

/-- `AnalogConversions::to_i32` / `to_i16`: saturate and report OVER_RANGE -/
def satInt (bits : Nat) (v : Int) : Int × Bool :=
  let lo : Int := - (2 ^ (bits - 1) : Nat)
  let hi : Int := (2 ^ (bits - 1) : Nat) - 1
  if v < lo then (lo, true) else if v > hi then (hi, true) else (v, false)

/-- biased exponent and stored mantissa of the nearest (ties to even) binary float with `mbits`
    mantissa bits to the positive integer `n` (no overflow handling: callers saturate first) -/
def floatParts (mbits bias : Nat) (n : Nat) : Nat × Nat :=
  let e := n.log2
  if e ≤ mbits then (e + bias, n * 2 ^ (mbits - e) - 2 ^ mbits)
  else
    let sh := e - mbits
    let q := n / 2 ^ sh
    let r := n % 2 ^ sh
    let half := 2 ^ (sh - 1)
    let q' := if r > half ∨ (r = half ∧ q % 2 = 1) then q + 1 else q
    if q' = 2 ^ (mbits + 1) then (e + 1 + bias, 0) else (e + bias, q' - 2 ^ mbits)

/-- IEEE-754 binary64 bits of `v as f64` (exact for |v| < 2^53, else nearest-even) -/
def f64Bits (v : Int) : Nat :=
  if v = 0 then 0 else
  let (e, m) := floatParts 52 1023 v.natAbs
  (if v < 0 then 2 ^ 63 else 0) + e * 2 ^ 52 + m

/-- largest finite f32 as an integer -/
def f32MaxInt : Nat := (2 ^ 24 - 1) * 2 ^ 104

/-- `to_f32`: (bits of the f32, over-range) -/
def f32Bits (v : Int) : Nat × Bool :=
  if v = 0 then (0, false) else
  if v.natAbs > f32MaxInt then ((if v < 0 then 2 ^ 31 else 0) + 0x7F7FFFFF, true) else
  let (e, m) := floatParts 23 127 v.natAbs
  ((if v < 0 then 2 ^ 31 else 0) + e * 2 ^ 23 + m, false)

/-! ## measurements, events, points -/

/-- a stored measurement: `value` is 0/1 for a binary input; `time` = `Some(Time::Synchronized t)`
    for every update made through `Db.update`, and 0 for the `Default` value (whose `None` time is
    never encoded by any static variation) -/
structure Meas where
  value : Int := 0
  flags : Nat := 2          -- `Flags::RESTART`, the constructor default
  time : Nat := 0
deriving DecidableEq, Repr, Inhabited

/-- `WireFlags::get_wire_flags` -/
def Meas.wire (t : PtType) (m : Meas) : Nat :=
  match t with
  | .binary => m.flags % 128 + (if m.value ≠ 0 then 128 else 0)
  | .analog => m.flags

def overRange (f : Nat) (o : Bool) : Nat := if o then f ||| 0x20 else f

inductive EvState where | unselected | selected | written
deriving DecidableEq, Repr, Inhabited

structure EvRec where
  id : Nat
  index : Nat
  cls : Nat               -- 1, 2, 3
  ty : PtType
  m : Meas
  defVar : Nat            -- the point's configured event variation
  selVar : Nat            -- `Variation::selected`
  st : EvState := .unselected
deriving DecidableEq, Repr, Inhabited

/-- `ClassCounter` + the two relevant fields of `TypeCounter` -/
structure Counters where
  c1 : Nat := 0
  c2 : Nat := 0
  c3 : Nat := 0
  bin : Nat := 0
  an : Nat := 0
deriving DecidableEq, Repr, Inhabited

def Counters.cls (c : Counters) : Nat → Nat
  | 1 => c.c1 | 2 => c.c2 | 3 => c.c3 | _ => 0
def Counters.ty (c : Counters) : PtType → Nat
  | .binary => c.bin | .analog => c.an

def Counters.incCls (c : Counters) : Nat → Counters
  | 1 => { c with c1 := c.c1 + 1 } | 2 => { c with c2 := c.c2 + 1 } | 3 => { c with c3 := c.c3 + 1 } | _ => c
def Counters.decCls (c : Counters) : Nat → Counters
  | 1 => { c with c1 := c.c1 - 1 } | 2 => { c with c2 := c.c2 - 1 } | 3 => { c with c3 := c.c3 - 1 } | _ => c
def Counters.incTy (c : Counters) : PtType → Counters
  | .binary => { c with bin := c.bin + 1 } | .analog => { c with an := c.an + 1 }
def Counters.decTy (c : Counters) : PtType → Counters
  | .binary => { c with bin := c.bin - 1 } | .analog => { c with an := c.an - 1 }
/-- `Counters::increment(record)` -/
def Counters.inc (c : Counters) (r : EvRec) : Counters := (c.incTy r.ty).incCls r.cls
/-- `Counters::decrement(record)` -/
def Counters.dec (c : Counters) (r : EvRec) : Counters := (c.decCls r.cls).decTy r.ty

structure Point where
  current : Meas := {}
  selected : Meas := {}
  lastEvent : Meas := {}
  cls : Nat := 0
deriving DecidableEq, Repr, Inhabited

/-- kinds of entries of the static selection queue (`SpecificVariation`) -/
inductive SelKind where
  | binary (var : Option Nat)     -- g1 : requested variation 1|2
  | analog (var : Option Nat)     -- g30: requested variation 1..6
  | deadband (var : Option Nat)   -- g34: requested variation 1..3
  | other                         -- a point type with no points configured: writes nothing
deriving DecidableEq, Repr, Inhabited

structure SelItem where
  kind : SelKind
  start : Nat
  stop : Nat
deriving DecidableEq, Repr, Inhabited

end DbM
open DbM

structure Db where
  evMax : Nat := 0
  selCap : Nat := 64
  -- event buffer
  events : List EvRec := []
  total : Counters := {}
  written : Counters := {}
  overflown : Bool := false
  next : Nat := 0
  -- static database: ascending by index, indices unique
  bins : List (Nat × Point) := []
  ans : List (Nat × Point) := []
  queue : List SelItem := []
  /-- pending device-attribute selections (`attrs::Selection`, at most 32); no attribute is ever
      defined in the modelled configuration, so they write nothing -/
  attrSel : Nat := 0
deriving Repr, Inhabited

namespace DbM
/-- `OutstationConfig::DEFAULT_MAX_READ_REQUEST_HEADERS` -/
def defaultMaxReadHeaders : Nat := 64

end DbM

def Db.new (evMax : Nat) (maxReadSel : Option Nat) : Db :=
  { evMax := evMax
    selCap := match maxReadSel with
      | some n => max n defaultMaxReadHeaders
      | none => defaultMaxReadHeaders }

/-! ## ordered point maps (`BTreeMap<u16, Point<T>>`) -/

namespace DbM
def pmLookup : List (Nat × Point) → Nat → Option Point
  | [], _ => none
  | (i, p) :: rest, k => if i = k then some p else if k < i then none else pmLookup rest k

/-- insert a new point keeping ascending order; `none` if the index exists -/
def pmInsert : List (Nat × Point) → Nat → Point → Option (List (Nat × Point))
  | [], k, p => some [(k, p)]
  | (i, q) :: rest, k, p =>
    if i = k then none
    else if k < i then some ((k, p) :: (i, q) :: rest)
    else match pmInsert rest k p with
      | some r => some ((i, q) :: r)
      | none => none

def pmSet : List (Nat × Point) → Nat → Point → List (Nat × Point)
  | [], _, _ => []
  | (i, q) :: rest, k, p => if i = k then (i, p) :: rest else (i, q) :: pmSet rest k p

end DbM

def Db.map (db : Db) : PtType → List (Nat × Point)
  | .binary => db.bins | .analog => db.ans
def Db.setMap (db : Db) (t : PtType) (m : List (Nat × Point)) : Db :=
  match t with
  | .binary => { db with bins := m } | .analog => { db with ans := m }

namespace DbM
def normClass (c : Nat) : Nat := if c = 1 ∨ c = 2 ∨ c = 3 then c else 0

end DbM

/-- `Database::add` (class 0 = no event class) -/
def Db.add (db : Db) (t : PtType) (idx cls : Nat) : Db × Bool :=
  match pmInsert (db.map t) idx { cls := normClass cls } with
  | some m => (db.setMap t m, true)
  | none => (db, false)

/-! ## event buffer -/

namespace DbM
/-- `VecList::remove_first(is_type)` -/
def removeFirstTy (t : PtType) : List EvRec → Option (EvRec × List EvRec)
  | [] => none
  | r :: rs =>
    if r.ty = t then some (r, rs)
    else match removeFirstTy t rs with
      | some (d, rs') => some (d, r :: rs')
      | none => none

inductive InsertResult where
  | typeMaxIsZero | ok (id : Nat) | overflow (created discarded : Nat)
deriving DecidableEq, Repr, Inhabited

end DbM

/-- `EventBuffer::insert`; a discarded record that is `Written` is taken out of `written` too
    (type counter, then class counter — the order of the Rust statements) -/
def Db.insert (db : Db) (idx cls : Nat) (t : PtType) (m : Meas) (defVar : Nat) : Db × InsertResult :=
  if db.evMax = 0 then (db, .typeMaxIsZero) else
  let id := db.next
  let mk : EvRec := { id := id, index := idx, cls := cls, ty := t, m := m, defVar := defVar, selVar := defVar }
  if db.total.ty t = db.evMax then
    match removeFirstTy t db.events with
    | some (d, rest) =>
      ({ db with next := id + 1, events := rest ++ [mk]
                 total := (((db.total.decTy t).decCls d.cls).incCls cls).incTy t
                 written := if d.st = .written then (db.written.decTy t).decCls d.cls else db.written
                 overflown := true },
       .overflow id d.id)
    | none =>
      ({ db with next := id + 1, events := db.events ++ [mk], total := (db.total.incCls cls).incTy t }, .ok id)
  else
    ({ db with next := id + 1, events := db.events ++ [mk], total := (db.total.incCls cls).incTy t }, .ok id)

namespace DbM
/-- `EventDetector::is_event` (flags detector for binaries, dead-band 0 for analogs) -/
def isEvent (t : PtType) (last new : Meas) : Bool :=
  last.wire t != new.wire t || (t == .analog && last.value != new.value)

def defaultEventVar : PtType → Nat
  | .binary => 1 | .analog => 1

end DbM

namespace DbM
/-- the measurement an update carries: `BinaryInput::new(value != 0, flags, Synchronized(time))` /
    `AnalogInput::new(value as f64, ..)`; `Timestamp::new` keeps 48 bits -/
def mkMeas (t : PtType) (value : Int) (flags time : Nat) : Meas :=
  { value := match t with
      | .binary => if value ≠ 0 then 1 else 0
      | .analog => value
    flags := flags, time := time % 2 ^ 48 }
end DbM

/-- `Database::update2` with `UpdateOptions::detect_event()` -/
def Db.update (db : Db) (t : PtType) (idx : Nat) (value : Int) (flags time : Nat) : Db × UpdInfo :=
  match pmLookup (db.map t) idx with
  | none => (db, .noPoint)
  | some p =>
    let m : Meas := mkMeas t value flags time
    if isEvent t p.lastEvent m then
      let db1 := db.setMap t (pmSet (db.map t) idx { p with current := m, lastEvent := m })
      if p.cls = 0 then (db1, .noEvent) else
      match db1.insert idx p.cls t m (defaultEventVar t) with
      | (db2, .typeMaxIsZero) => (db2, .noEvent)
      | (db2, .ok id) => (db2, .created id)
      | (db2, .overflow c d) => (db2, .overflow c d)
    else
      (db.setMap t (pmSet (db.map t) idx { p with current := m }), .noEvent)

namespace DbM
/-- `EventBuffer::select`: the first `limit` `Unselected` records satisfying `p` become `Selected`
    with selected variation `var` (or their default); returns the count -/
def selectEvents (p : EvRec → Bool) (var : Option Nat) : Option Nat → List EvRec → List EvRec × Nat
  | _, [] => ([], 0)
  | some 0, rs => (rs, 0)
  | limit, r :: rs =>
    if r.st = .unselected ∧ p r then
      let (rs', n) := selectEvents p var (limit.map (· - 1)) rs
      ({ r with st := .selected, selVar := var.getD r.defVar } :: rs', n + 1)
    else
      let (rs', n) := selectEvents p var limit rs
      (r :: rs', n)

/-! ### event writer (`EventWriter`, `write_fn.rs`) -/

/-- encoded size of one event object (without the 2-octet index prefix) -/
def evObjSize : PtType → Nat → Nat
  | .binary, 1 => 1 | .binary, 2 => 7 | .binary, 3 => 3
  | .analog, 1 => 5 | .analog, 2 => 3 | .analog, 3 => 11 | .analog, 4 => 9
  | .analog, 5 => 5 | .analog, 6 => 9 | .analog, 7 => 11 | .analog, 8 => 15
  | _, _ => 0

def evGroup : PtType → Nat
  | .binary => 2 | .analog => 32

/-- `EventVariation::uses_cto` -/
def usesCto (t : PtType) (v : Nat) : Bool := t == .binary && v == 3

/-- `HeaderState` + `HeaderType` of the event writer -/
structure EvCur where
  ty : PtType
  var : Nat
  count : Nat
  cto : Nat
deriving DecidableEq, Repr, Inhabited

def EvCur.start (r : EvRec) : EvCur := { ty := r.ty, var := r.selVar, count := 1, cto := r.m.time }
def EvCur.inc (c : EvCur) : EvCur := { c with count := c.count + 1 }

/-- does `r` go under the header in progress? (same type, same variation, count below u16::MAX,
    and for g2v3 a relative time that fits: all times are `Synchronized`) -/
def evContinues (c : EvCur) (r : EvRec) : Bool :=
  c.ty == r.ty && c.var == r.selVar && c.count != 65535 &&
  (!usesCto r.ty r.selVar || (c.cto ≤ r.m.time && r.m.time - c.cto ≤ 65535))

/-- octets needed by `r` given the writer state -/
def evCost (cur : Option EvCur) (r : EvRec) : Nat :=
  match cur with
  | some c =>
    if evContinues c r then 2 + evObjSize r.ty r.selVar
    else (if usesCto r.ty r.selVar then 10 else 0) + 5 + 2 + evObjSize r.ty r.selVar
  | none => (if usesCto r.ty r.selVar then 10 else 0) + 5 + 2 + evObjSize r.ty r.selVar

def evNext (cur : Option EvCur) (r : EvRec) : EvCur :=
  match cur with
  | some c => if evContinues c r then c.inc else EvCur.start r
  | none => EvCur.start r

/-- `write_events`: walk the list, write every `Selected` record until one does not fit;
    returns (list with the written records marked `Written`, written records in order, complete) -/
def evLoop (cap : Nat) : List EvRec → Nat → Option EvCur → List EvRec × List EvRec × Bool
  | [], _, _ => ([], [], true)
  | r :: rs, used, cur =>
    if r.st = .selected then
      if used + evCost cur r ≤ cap then
        let (rs', w, c) := evLoop cap rs (used + evCost cur r) (some (evNext cur r))
        ({ r with st := .written } :: rs', r :: w, c)
      else (r :: rs, [], false)
    else
      let (rs', w, c) := evLoop cap rs used cur
      (r :: rs', w, c)

/-- the object octets of one event under header state `c` (`c.cto` = the header's time) -/
def evObj (cto : Nat) (r : EvRec) : List Nat :=
  match r.ty, r.selVar with
  | .binary, 1 => [r.m.wire .binary]
  | .binary, 2 => [r.m.wire .binary] ++ le48 r.m.time
  | .binary, 3 => [r.m.wire .binary] ++ le16 (r.m.time - cto)
  | .analog, 1 => let (v, o) := satInt 32 r.m.value; [overRange r.m.flags o] ++ le32 (twos 32 v)
  | .analog, 2 => let (v, o) := satInt 16 r.m.value; [overRange r.m.flags o] ++ le16 (twos 16 v)
  | .analog, 3 => let (v, o) := satInt 32 r.m.value; [overRange r.m.flags o] ++ le32 (twos 32 v) ++ le48 r.m.time
  | .analog, 4 => let (v, o) := satInt 16 r.m.value; [overRange r.m.flags o] ++ le16 (twos 16 v) ++ le48 r.m.time
  | .analog, 5 => let (b, o) := f32Bits r.m.value; [overRange r.m.flags o] ++ le32 b
  | .analog, 6 => [r.m.flags] ++ le64 (f64Bits r.m.value)
  | .analog, 7 => let (b, o) := f32Bits r.m.value; [overRange r.m.flags o] ++ le32 b ++ le48 r.m.time
  | .analog, 8 => [r.m.flags] ++ le64 (f64Bits r.m.value) ++ le48 r.m.time
  | _, _ => []

/-- number of records after a header's first that stay under it -/
def evRunLen (c : EvCur) : List EvRec → Nat
  | [] => 0
  | r :: rs => if evContinues c r then 1 + evRunLen c.inc rs else 0

/-- g51v1 common-time-of-occurrence header (all times are synchronised) -/
def ctoHeader (time : Nat) : List Nat := [51, 1, 0x07, 1] ++ le48 time

def evHeader (r : EvRec) (count : Nat) : List Nat :=
  (if usesCto r.ty r.selVar then ctoHeader r.m.time else []) ++
  [evGroup r.ty, r.selVar, 0x28] ++ le16 count

/-- the octets `write_events` produces for the records `rs` written in this order -/
def encodeEvents : Option EvCur → List EvRec → List Nat
  | _, [] => []
  | cur, r :: rs =>
    match cur with
    | some c =>
      if evContinues c r then le16 r.index ++ evObj c.cto r ++ encodeEvents (some c.inc) rs
      else evHeader r (1 + evRunLen (EvCur.start r) rs) ++ le16 r.index ++ evObj r.m.time r
            ++ encodeEvents (some (EvCur.start r)) rs
    | none => evHeader r (1 + evRunLen (EvCur.start r) rs) ++ le16 r.index ++ evObj r.m.time r
            ++ encodeEvents (some (EvCur.start r)) rs

end DbM

/-- `EventBuffer::write_events` on the database -/
def Db.writeEvents (db : Db) (cap : Nat) : Db × List EvRec × Bool :=
  let (evs, w, c) := evLoop cap db.events 0 none
  ({ db with events := evs, written := w.foldl Counters.inc db.written }, w, c)

/-! ## static database -/

namespace DbM
/-- one static object to be written: index, (group, variation) after `promote`, value -/
structure SObj where
  idx : Nat
  g : Nat
  v : Nat
  m : Meas
deriving DecidableEq, Repr, Inhabited

/-- packed single-bit variation? (`WriteType::Bits`) -/
def isBits (g v : Nat) : Bool := g == 1 && v == 1

def stObjSize : Nat → Nat → Nat
  | 1, 2 => 1
  | 30, 1 => 5 | 30, 2 => 3 | 30, 3 => 4 | 30, 4 => 2 | 30, 5 => 5 | 30, 6 => 9
  | 34, 1 => 2 | 34, 2 => 4 | 34, 3 => 4
  | _, _ => 0

/-- `StaticVariation::promote` for g1v1 -/
def promoteBin (v : Nat) (m : Meas) : Nat :=
  if v = 1 then (if m.flags % 128 = 1 then 1 else 2) else v

def inRange (it : SelItem) (i : Nat) : Bool := it.start ≤ i && i ≤ it.stop

/-- the objects a queue entry stands for, ascending (`inner.range(range)` + variation choice) -/
def itemObjs (db : Db) (it : SelItem) : List SObj :=
  match it.kind with
  | .binary var =>
    (db.bins.filter (fun p => inRange it p.1)).map fun p =>
      { idx := p.1, g := 1, v := promoteBin (var.getD 2) p.2.selected, m := p.2.selected }
  | .analog var =>
    (db.ans.filter (fun p => inRange it p.1)).map fun p =>
      { idx := p.1, g := 30, v := var.getD 1, m := p.2.selected }
  | .deadband var =>
    (db.ans.filter (fun p => inRange it p.1)).map fun p =>
      { idx := p.1, g := 34, v := var.getD 3, m := { value := 0, flags := 0 } }
  | .other => []

/-- `State::Header` of the range writer: variation, last index, values under the header -/
structure StCur where
  g : Nat
  v : Nat
  last : Nat
  n : Nat
deriving DecidableEq, Repr, Inhabited

def stContinues (c : StCur) (o : SObj) : Bool := c.g == o.g && c.v == o.v && o.idx == c.last + 1

def stCost (cur : Option StCur) (o : SObj) : Nat :=
  match cur with
  | some c =>
    if stContinues c o then (if isBits o.g o.v then (if c.n % 8 = 0 then 1 else 0) else stObjSize o.g o.v)
    else 7 + (if isBits o.g o.v then 1 else stObjSize o.g o.v)
  | none => 7 + (if isBits o.g o.v then 1 else stObjSize o.g o.v)

def stNext (cur : Option StCur) (o : SObj) : StCur :=
  match cur with
  | some c => if stContinues c o then { c with last := o.idx, n := c.n + 1 } else { g := o.g, v := o.v, last := o.idx, n := 1 }
  | none => { g := o.g, v := o.v, last := o.idx, n := 1 }

/-- `write_typed_range`: (written objects, octets used afterwards, index at which space ran out) -/
def stLoop (cap : Nat) : List SObj → Nat → Option StCur → List SObj × Nat × Option Nat
  | [], used, _ => ([], used, none)
  | o :: os, used, cur =>
    if used + stCost cur o ≤ cap then
      let (w, u, f) := stLoop cap os (used + stCost cur o) (some (stNext cur o))
      (o :: w, u, f)
    else ([], used, some o.idx)

/-- `StaticDatabase::write`: items written (one object list per queue entry touched),
    the remaining queue, octets used -/
def qLoop (db : Db) (cap : Nat) : List SelItem → Nat → List (List SObj) × List SelItem × Nat
  | [], used => ([], [], used)
  | it :: its, used =>
    match stLoop cap (itemObjs db it) used none with
    | (w, u, none) =>
      let (ws, q, u') := qLoop db cap its u
      (w :: ws, q, u')
    | (w, u, some i) => ([w], { it with start := i } :: its, u)

def stObjBytes (o : SObj) : List Nat :=
  match o.g, o.v with
  | 1, 2 => [o.m.wire .binary]
  | 30, 1 => let (v, ov) := satInt 32 o.m.value; [overRange o.m.flags ov] ++ le32 (twos 32 v)
  | 30, 2 => let (v, ov) := satInt 16 o.m.value; [overRange o.m.flags ov] ++ le16 (twos 16 v)
  | 30, 3 => le32 (twos 32 (satInt 32 o.m.value).1)
  | 30, 4 => le16 (twos 16 (satInt 16 o.m.value).1)
  | 30, 5 => let (b, ov) := f32Bits o.m.value; [overRange o.m.flags ov] ++ le32 b
  | 30, 6 => [o.m.flags] ++ le64 (f64Bits o.m.value)
  | 34, 1 => [0, 0]
  | 34, 2 => [0, 0, 0, 0]
  | 34, 3 => [0, 0, 0, 0]
  | _, _ => []

def stRunLen (c : StCur) : List SObj → Nat
  | [] => 0
  | o :: os => if stContinues c o then 1 + stRunLen { c with last := o.idx, n := c.n + 1 } os else 0

/-- one packed octet: bit k = value of the k-th object -/
def packBits : List SObj → Nat
  | [] => 0
  | o :: os => (if o.m.value ≠ 0 then 1 else 0) + 2 * packBits os

/-- the octets the range writer produces for the objects `os` of ONE queue entry -/
def encodeStatic : Option StCur → List SObj → List Nat
  | _, [] => []
  | cur, o :: os =>
    let cont : Option StCur := match cur with
      | some c => if stContinues c o then some c else none
      | none => none
    match cont with
    | some c =>
      (if isBits o.g o.v then
         (if c.n % 8 = 0 then
            [packBits ((o :: os).take (min 8 (1 + stRunLen { c with last := o.idx, n := c.n + 1 } os)))]
          else [])
       else stObjBytes o) ++ encodeStatic (some { c with last := o.idx, n := c.n + 1 }) os
    | none =>
      [o.g, o.v, 0x01] ++ le16 o.idx ++ le16 (o.idx + stRunLen { g := o.g, v := o.v, last := o.idx, n := 1 } os) ++
        (if isBits o.g o.v then
           [packBits ((o :: os).take (min 8 (stRunLen { g := o.g, v := o.v, last := o.idx, n := 1 } os + 1)))]
         else stObjBytes o) ++
        encodeStatic (some { g := o.g, v := o.v, last := o.idx, n := 1 }) os
end DbM

/-! ## READ header mapping (`read.rs`) -/
namespace DbM

inductive ReadAct where
  | class0
  | evClass (c : Nat) (limit : Option Nat)
  | evType (t : PtType) (var : Option Nat) (limit : Option Nat)
  | evNothing                        -- event type without configured points / frozen analog events
  | stType (t : PtType) (var : Option Nat) (range : Option (Nat × Nat))
  | stDeadband (var : Option Nat) (range : Option (Nat × Nat))
  | stOther (range : Option (Nat × Nat))   -- static type without configured points
  | stNothing                        -- frozen analog inputs: known, unsupported, IIN2 = 0
  | attrAll (var : Nat)              -- g0 with 0x06 (no attributes are defined)
  | attrSpecific (var a b : Nat)     -- g0 with 0x00 / 0x01
  | noFunc                           -- parses, `ReadHeader::get` = None: IIN2.0
  | parseError                       -- rejected by the request parser (never reaches `select`)
  | uncovered                        -- outside this model: qualifiers 0x17 / 0x28 / 0x5B in a READ
deriving DecidableEq, Repr, Inhabited

def optVar (v : Nat) : Option Nat := if v = 0 then none else some v

/-- variations of group `g` that the parser accepts with qualifier 0x06 -/
def allObjVars : Nat → List Nat
  | 1 => [0, 1, 2] | 2 => [0, 1, 2, 3] | 3 => [0, 1, 2] | 4 => [0, 1, 2, 3]
  | 10 => [0, 1, 2] | 11 => [0, 1, 2] | 13 => [1, 2]
  | 20 => [0, 1, 2, 5, 6] | 21 => [0, 1, 2, 5, 6, 9, 10] | 22 => [0, 1, 2, 5, 6] | 23 => [0, 1, 2, 5, 6]
  | 30 => [0, 1, 2, 3, 4, 5, 6] | 31 => [0, 1, 2, 3, 4, 5, 6, 7, 8] | 32 => [0, 1, 2, 3, 4, 5, 6, 7, 8]
  | 33 => [0, 1, 2, 3, 4, 5, 6, 7, 8] | 34 => [0, 1, 2, 3] | 40 => [0, 1, 2, 3, 4]
  | 42 => [0, 1, 2, 3, 4, 5, 6, 7, 8] | 43 => [1, 2, 3, 4, 5, 6, 7, 8]
  | 60 => [1, 2, 3, 4] | 80 => [1] | 102 => [0, 1] | 110 => [0] | 111 => [0]
  | _ => []

/-- … with qualifiers 0x00 / 0x01 in a READ -/
def rangedVars : Nat → List Nat
  | 1 => [0, 1, 2] | 3 => [0, 1, 2] | 10 => [0, 1, 2]
  | 20 => [0, 1, 2, 5, 6] | 21 => [0, 1, 2, 5, 6, 9, 10]
  | 30 => [0, 1, 2, 3, 4, 5, 6] | 31 => [0, 1, 2, 3, 4, 5, 6, 7, 8] | 34 => [1, 2, 3] | 40 => [0, 1, 2, 3, 4]
  | 80 => [1] | 102 => [0, 1] | 110 => [0]
  | _ => []

/-- … with qualifiers 0x07 / 0x08 (g111 accepts every variation) -/
def countVars : Nat → List Nat
  | 2 => [0, 1, 2, 3] | 4 => [0, 1, 2, 3] | 11 => [0, 1, 2] | 13 => [1, 2]
  | 22 => [0, 1, 2, 5, 6] | 23 => [0, 1, 2, 5, 6]
  | 32 => [0, 1, 2, 3, 4, 5, 6, 7, 8] | 33 => [0, 1, 2, 3, 4, 5, 6, 7, 8]
  | 42 => [0, 1, 2, 3, 4, 5, 6, 7, 8] | 43 => [1, 2, 3, 4, 5, 6, 7, 8] | 60 => [2, 3, 4]
  | _ => []

/-- object size of the count-qualified variations that carry data even in a READ
    (`CountSequence::parse`): g50v1..4, g51v1/2, g52v1/2; 0 = carries none / not such a variation -/
def countDataSize : Nat → Nat → Nat
  | 50, 1 => 6 | 50, 2 => 10 | 50, 3 => 6 | 50, 4 => 11
  | 51, 1 => 6 | 51, 2 => 6 | 52, 1 => 2 | 52, 2 => 2
  | _, _ => 0

/-- what a parsed header means, by group / variation, given its range or limit -/
def classifyGV (g v : Nat) (range : Option (Nat × Nat)) (limit : Option Nat) (isCount isRange : Bool) : ReadAct :=
  match g with
  | 1 => .stType .binary (optVar v) range
  | 30 => .stType .analog (optVar v) range
  | 34 => .stDeadband (optVar v) range
  | 3 | 10 | 20 | 21 | 40 | 110 => .stOther range
  | 31 => .stNothing
  | 2 => .evType .binary (optVar v) limit
  | 32 => .evType .analog (optVar v) limit
  | 4 | 11 | 22 | 23 | 42 => .evNothing
  | 33 => .evNothing
  | 111 => if v = 0 then .evNothing else .noFunc
  | 60 => if v = 1 then (if isCount ∨ isRange then .parseError else .class0) else .evClass (v - 1) limit
  | 13 | 43 | 80 | 102 | 50 | 51 | 52 => .noFunc
  | _ => .parseError

end DbM

/-- `ObjectParser` (READ) + `ReadHeader::get` for one header -/
def ReadHdr.classify (h : ReadHdr) : ReadAct :=
  if h.group = 0 then
    -- `Variation::lookup(0, 0)` = None; every other variation of group 0 is an attribute
    if h.var = 0 ∨ h.var > 255 then .parseError
    else if h.qual = 0x06 then .attrAll h.var
    else if h.qual = 0x00 ∨ h.qual = 0x01 then (if h.b < h.a then .parseError else .attrSpecific h.var h.a h.b)
    else if h.qual = 0x17 ∨ h.qual = 0x28 ∨ h.qual = 0x5B then .uncovered
    else .parseError
  else
  if h.qual = 0x06 then
    if (allObjVars h.group).contains h.var then classifyGV h.group h.var none none false false else .parseError
  else if h.qual = 0x00 ∨ h.qual = 0x01 then
    if h.b < h.a then .parseError
    else if (rangedVars h.group).contains h.var then classifyGV h.group h.var (some (h.a, h.b)) none false true
    else .parseError
  else if h.qual = 0x07 ∨ h.qual = 0x08 then
    if h.group = 111 ∨ (countVars h.group).contains h.var ∨ countDataSize h.group h.var ≠ 0 then classifyGV h.group h.var none (some h.a) true false
    else .parseError
  else if h.qual = 0x17 ∨ h.qual = 0x28 ∨ h.qual = 0x5B then .uncovered
  else .parseError

namespace DbM
def IIN2_NO_FUNC_CODE_SUPPORT : Nat := 0x01
def IIN2_PARAMETER_ERROR : Nat := 0x04

end DbM

/-- `SelectionQueue::push_back` + `push_selection` -/
def Db.pushSel (db : Db) (it : SelItem) : Db × Nat :=
  if db.queue.length = db.selCap then (db, IIN2_PARAMETER_ERROR)
  else ({ db with queue := db.queue ++ [it] }, 0)

namespace DbM
/-- copy `current` to `selected` for every point in [start, stop] -/
def snapshot (start stop : Nat) : List (Nat × Point) → List (Nat × Point)
  | [] => []
  | (i, p) :: rest =>
    (if start ≤ i ∧ i ≤ stop then (i, { p with selected := p.current }) else (i, p)) :: snapshot start stop rest

def fullRange (m : List (Nat × Point)) : Option (Nat × Nat) :=
  match m.head?, m.getLast? with
  | some a, some b => some (a.1, b.1)
  | _, _ => none

def kindOf (t : PtType) (var : Option Nat) : SelKind :=
  match t with
  | .binary => .binary var | .analog => .analog var

end DbM

/-- `StaticDatabase::select_by_type` -/
def Db.selectStatic (db : Db) (t : PtType) (var : Option Nat) (range : Option (Nat × Nat)) : Db × Nat :=
  match (match range with | some r => some r | none => fullRange (db.map t)) with
  | none => (db, 0)
  | some (a, b) => (db.setMap t (snapshot a b (db.map t))).pushSel { kind := kindOf t var, start := a, stop := b }

/-- `select_class_zero` (binary, then analog; the other enabled types have no points) -/
def Db.selectClass0 (db : Db) : Db × Nat :=
  let (db1, i1) := db.selectStatic .binary none none
  let (db2, i2) := db1.selectStatic .analog none none
  (db2, i1 ||| i2)

/-- `DatabaseHandle::select` for one header; returns the IIN2 bits it contributes -/
def Db.select (db : Db) (h : ReadHdr) : Db × Nat :=
  match h.classify with
  | .class0 => db.selectClass0
  | .evClass c limit =>
    ({ db with events := (selectEvents (fun r => r.cls == c) none limit db.events).1 }, 0)
  | .evType t var limit =>
    ({ db with events := (selectEvents (fun r => r.ty == t) var limit db.events).1 }, 0)
  | .evNothing => (db, 0)
  | .stType t var range => db.selectStatic t var range
  | .stDeadband var range =>
    match (match range with | some r => some r | none => fullRange db.ans) with
    | none => (db, 0)
    | some (a, b) => db.pushSel { kind := .deadband var, start := a, stop := b }
  | .stOther range =>
    match range with
    | none => (db, 0)
    | some (a, b) => db.pushSel { kind := .other, start := a, stop := b }
  | .stNothing => (db, 0)
  | .attrAll var =>
    -- 254 / 255: one selection per defined set — there is none
    if var = 254 ∨ var = 255 then (db, 0) else (db, IIN2_PARAMETER_ERROR)
  | .attrSpecific var a b =>
    if a ≠ b ∨ a > 255 then (db, IIN2_PARAMETER_ERROR)
    else if var = 254 ∨ var = 255 then
      (if db.attrSel < 32 then ({ db with attrSel := db.attrSel + 1 }, 0) else (db, IIN2_PARAMETER_ERROR))
    else (db, IIN2_NO_FUNC_CODE_SUPPORT)     -- `map.exists(set, var)` is false
  | .noFunc => (db, IIN2_NO_FUNC_CODE_SUPPORT)
  | .parseError => (db, IIN2_NO_FUNC_CODE_SUPPORT)
  | .uncovered => (db, IIN2_NO_FUNC_CODE_SUPPORT)

/-- does `ReadHeader::get` return `Some` for this (parsed) header — i.e. is it supported in READ
    requests, independent of the database contents.  `Db.select` contributes
    NO_FUNC_CODE_SUPPORT (0x01) when this is false; the only other source of that bit is a g0
    header for one specific attribute that is not defined (`attrSpecific` with a variation other
    than 254 / 255), which `ReadHeader::get` accepts and `AttrHandler::select` answers with 0x01. -/
def Db.readSupported (h : ReadHdr) : Bool :=
  match h.classify with
  | .noFunc | .parseError | .uncovered => false
  | _ => true

/-! ## response writing -/

/-- `write_response_headers` into a cursor with `cap` octets left:
    (octets written, has_events, complete) -/
def Db.writeResponse (db : Db) (cap : Nat) : Db × List Nat × Bool × Bool :=
  let (db1, w, evComplete) := db.writeEvents cap
  let evBytes := encodeEvents none w
  if evComplete then
    let (ws, q, _) := qLoop db1 cap db1.queue evBytes.length
    -- `attrs.write` runs only when the static data is complete; with no attribute defined it
    -- writes nothing, drains its selection and reports completion
    ({ db1 with queue := q, attrSel := if q.isEmpty then 0 else db1.attrSel },
     evBytes ++ ws.flatMap (encodeStatic none), !w.isEmpty, q.isEmpty)
  else
    (db1, evBytes, !w.isEmpty, false)

/-- `Database::reset` -/
def Db.reset (db : Db) : Db :=
  { db with queue := [], attrSel := 0, events := db.events.map (fun r => { r with st := .unselected }), written := {} }

/-- `DatabaseHandle::write_unsolicited` (reset, select classes, write events only):
    (octets written, number of events) -/
def Db.writeUnsolicited (db : Db) (c1 c2 c3 : Bool) (cap : Nat) : Db × List Nat × Nat :=
  let db0 := db.reset
  let (evs, n) := selectEvents (fun r => (c1 && r.cls == 1) || (c2 && r.cls == 2) || (c3 && r.cls == 3)) none none db0.events
  let db1 := { db0 with events := evs }
  if n = 0 then (db1, [], 0)
  else
    let (db2, w, _) := db1.writeEvents cap
    (db2, encodeEvents none w, w.length)

/-- `is_any_full` -/
def Db.isAnyFull (db : Db) : Bool :=
  db.evMax != 0 && (db.total.bin ≥ db.evMax || db.total.an ≥ db.evMax)

/-- `clear_written_events`: released ids in order, remaining per-class totals -/
def Db.clearWritten (db : Db) : Db × List Nat × (Nat × Nat × Nat) :=
  let gone := db.events.filter (fun r => r.st == .written)
  let total := gone.foldl Counters.dec db.total
  let db1 := { db with events := db.events.filter (fun r => r.st != .written), total := total, written := {} }
  let db2 := if db1.isAnyFull then db1 else { db1 with overflown := false }
  (db2, gone.map (·.id), (total.c1, total.c2, total.c3))

/-- `unwritten_classes`; `none` = the checked subtraction panics (dev build) -/
def Db.unwrittenClasses (db : Db) : Option (Bool × Bool × Bool) :=
  if db.written.c1 > db.total.c1 ∨ db.written.c2 > db.total.c2 ∨ db.written.c3 > db.total.c3 then none
  else some (decide (db.total.c1 - db.written.c1 > 0), decide (db.total.c2 - db.written.c2 > 0),
             decide (db.total.c3 - db.written.c3 > 0))

def Db.isOverflown (db : Db) : Bool := db.overflown

/-! ## READ object-header octets → `ReadHdr` list (sizes by qualifier only; validity is
`ReadHdr.classify`) -/

namespace DbM
/-- `none` = truncated or a qualifier octet the parser does not know -/
def parseReadHdrs (fuel : Nat) (bs : List Nat) : Option (List ReadHdr) :=
  match fuel, bs with
  | _, [] => some []
  | 0, _ => none
  | fuel + 1, g :: v :: q :: rest =>
    if q = 0x06 then (parseReadHdrs fuel rest).map ({ group := g, var := v, qual := q } :: ·)
    else if q = 0x00 then
      match rest with
      | a :: b :: rest' => (parseReadHdrs fuel rest').map ({ group := g, var := v, qual := q, a := a, b := b } :: ·)
      | _ => none
    else if q = 0x01 then
      match rest with
      | a0 :: a1 :: b0 :: b1 :: rest' =>
        (parseReadHdrs fuel rest').map ({ group := g, var := v, qual := q, a := a0 + 256 * a1, b := b0 + 256 * b1 } :: ·)
      | _ => none
    else if q = 0x07 then
      match rest with
      | a :: rest' =>
        let n := a * countDataSize g v
        if rest'.length < n then none
        else (parseReadHdrs fuel (rest'.drop n)).map ({ group := g, var := v, qual := q, a := a } :: ·)
      | _ => none
    else if q = 0x08 then
      match rest with
      | a0 :: a1 :: rest' =>
        let n := (a0 + 256 * a1) * countDataSize g v
        if rest'.length < n then none
        else (parseReadHdrs fuel (rest'.drop n)).map ({ group := g, var := v, qual := q, a := a0 + 256 * a1 } :: ·)
      | _ => none
    else none
  | _, _ => none

end DbM
end Dnp3
