import Dnp3.Gen.DbTypes
import Dnp3.Gen.Qualifiers
/-!
# Outstation database — executable model of `outstation/database/**`

Event buffer (`details/event/{buffer,list,writer,write_fn,traits}.rs`), static database
(`details/range/{static_db,writer,traits}.rs`), READ header mapping (`read.rs`) and response
writing (`details/database.rs`, `mod.rs`) for ALL point types of the library's database.  The type
enumeration itself is generated (`Gen.DbT.Ty` = the variants of `enum Event`):

| type                 | static        | events        | value                              | detector            |
|----------------------|---------------|---------------|------------------------------------|---------------------|
| `binary`             | g1v1(bits),v2 | g2v1..3       | 0 / 1                              | wire flags          |
| `doubleBitBinary`    | g3v1(2 bits),v2 | g4v1..3     | 0..3 (`DoubleBit::to_byte`)        | wire flags          |
| `binaryOutputStatus` | g10v1(bits),v2| g11v1..2      | 0 / 1                              | wire flags          |
| `counter`            | g20v1,2,5,6   | g22v1,2,5,6   | u32                                | flags, dead-band    |
| `frozenCounter`      | g21v1,2,5,6,9,10 | g23v1,2,5,6 | u32                               | flags, dead-band    |
| `analog`             | g30v1..6      | g32v1..8      | integer carried as `f64`           | flags, dead-band    |
| `analogOutputStatus` | g40v1..4      | g42v1..8      | integer carried as `f64`           | flags, dead-band    |
| `octetString`        | g110v<len>    | g111v<len>    | octets (length 0..255)             | octets differ       |

(analog values and dead-bands are integers, exact for |value| < 2^53).  Per-point configured static /
event variation and dead-band, `UpdateOptions` (`update_static`, `EventMode` Detect / Force / Suppress), per-type
event buffer capacities (`EventBufferConfig`), `ClassZeroConfig`, `max_read_request_headers` =
`max(configured, 64)`.  Every update carries `Some(Time::Synchronized t)`.

Generated tables consumed here (`Dnp3.Gen.DbT`, re-extracted from the source on every run; their
well-formedness is `Dnp3.Proofs.DbTables`):
`insertable` (the slots `impl Insertable` touches), `typeCounterModify`, `countersDecrement`,
`isAnyFull`, `eventHdrTy` / `staticHdrTy` / `writeRangeTy` / `updatable` (which type a header variant,
a queue entry, a map accessor means), `classZeroOrder`, `detector`, and the three READ tables
`readAllObjects` / `readCount` / `readRange` (`ReadHeader::from_*`: variation ↦ type, requested
variation, whether the range / count is kept).  Which (group, variation) the request parser accepts
with which qualifier in a READ comes from `Gen.allObjects` / `Gen.countTable` / `Gen.rangedRead`.

The interface (`PtType`, `ReadHdr`, `UpdInfo`, `Db`, `Db.new`, `Db.add`, `Db.update`, `Db.select`,
`Db.writeResponse`, `Db.writeUnsolicited`, `Db.clearWritten`, `Db.reset`, `Db.unwrittenClasses`,
`Db.isOverflown`, plus `Db.readSupported`) is the contract of the session model
(`Dnp3.Model.Outstation`).  Everything else lives in `Dnp3.DbM` (helpers) or is `Db.`-prefixed.

Two encodings keep that interface's signatures as they were when only two types existed:
* `Db.new (evMax : Nat)`: the number is the per-type configuration, eight base-65536 digits in the
  order of `Ty` (+ a ninth digit whose low 8 bits flip the default `ClassZeroConfig`);
  `Db.newCfg` takes the configuration itself and `DbM.legacyEv n` is "binary and analog inputs `n`".
* `Db.update t idx …` with `idx ≥ 65536` addresses point `idx % 65536` of the type number
  `idx / 65536 % 16 - 1` with the update options number `idx / 65536 / 16` (`DbM.decodeUpd`; an octet
  string's octets are the base-256 digits of the value below a leading 1); `Db.updateOpt` takes type,
  index, measurement and `UpdateOptions` directly.  `Db.add t idx …` with `idx ≥ 65536` gives the point
  the dead-band `idx / 65536`; `Db.addCfg` takes the whole configuration.

READ headers covered (`ReadHdr.classify`): every (group, variation) the request parser accepts
with qualifiers 0x06, 0x00, 0x01, 0x07, 0x08; g0 device attributes (none defined); and the headers
`ReadHeader::get` rejects → IIN2.0.  Not covered: qualifiers 0x17 / 0x28 / 0x5B inside a READ
(`uncovered`).  `parseReadHdrs` splits request octets; `classify = parseError` marks what
`HeaderCollection::parse` refuses (the whole request is then refused).

Conventions: indices < 65536, flags < 256 (octets), times are reduced mod 2^48
(`Timestamp::new`), event class 1..3 (anything else = no class).  `VecList` is abstracted to `List`
(`add` = append, `remove_first p`, `remove_all p`, `iter` = list order); its capacity (the sum of the
per-type maxima) is never reached: `DbProofs.events_within_capacity`.

`insert` into a full type discards the oldest record of that type; when that record is `Written`
(carried by a response that still awaits its confirm) `written` is decremented with `total`
(the repair of D3).
-/
namespace Dnp3

/-- the point types: `Gen.DbT.Ty`, generated from `enum Event` -/
abbrev PtType := Gen.DbT.Ty

namespace PtType
export Gen.DbT.Ty (binary doubleBitBinary binaryOutputStatus counter frozenCounter analog analogOutputStatus octetString)
end PtType

/-- one object header of a READ request: `a`,`b` = start,stop for qualifiers 0x00/0x01,
    `a` = count for 0x07/0x08, unused for 0x06 -/
structure ReadHdr where
  group : Nat
  var : Nat
  qual : Nat
  a : Nat := 0
  b : Nat := 0
deriving DecidableEq, Repr, Inhabited

inductive UpdInfo where
  | noPoint | noEvent | created (id : Nat) | overflow (created discarded : Nat)
deriving DecidableEq, Repr, Inhabited

namespace DbM

/-! ## one value per point type -/

structure TyVec (α : Type) where
  binary : α
  doubleBitBinary : α
  binaryOutputStatus : α
  counter : α
  frozenCounter : α
  analog : α
  analogOutputStatus : α
  octetString : α
deriving DecidableEq, Repr, Inhabited

def TyVec.get {α : Type} (v : TyVec α) : PtType → α
  | .binary => v.binary
  | .doubleBitBinary => v.doubleBitBinary
  | .binaryOutputStatus => v.binaryOutputStatus
  | .counter => v.counter
  | .frozenCounter => v.frozenCounter
  | .analog => v.analog
  | .analogOutputStatus => v.analogOutputStatus
  | .octetString => v.octetString

def TyVec.set {α : Type} (v : TyVec α) (t : PtType) (x : α) : TyVec α :=
  match t with
  | .binary => { v with binary := x }
  | .doubleBitBinary => { v with doubleBitBinary := x }
  | .binaryOutputStatus => { v with binaryOutputStatus := x }
  | .counter => { v with counter := x }
  | .frozenCounter => { v with frozenCounter := x }
  | .analog => { v with analog := x }
  | .analogOutputStatus => { v with analogOutputStatus := x }
  | .octetString => { v with octetString := x }

def TyVec.ofFn {α : Type} (f : PtType → α) : TyVec α :=
  ⟨f .binary, f .doubleBitBinary, f .binaryOutputStatus, f .counter, f .frozenCounter, f .analog,
   f .analogOutputStatus, f .octetString⟩

def TyVec.const {α : Type} (x : α) : TyVec α := TyVec.ofFn fun _ => x

/-- position of the type in `enum Event` -/
def tyIdx : PtType → Nat
  | .binary => 0 | .doubleBitBinary => 1 | .binaryOutputStatus => 2 | .counter => 3
  | .frozenCounter => 4 | .analog => 5 | .analogOutputStatus => 6 | .octetString => 7

def tyOfIdx : Nat → PtType
  | 0 => .binary | 1 => .doubleBitBinary | 2 => .binaryOutputStatus | 3 => .counter
  | 4 => .frozenCounter | 5 => .analog | 6 => .analogOutputStatus | _ => .octetString

/-! ## little-endian / two's complement / IEEE-754 helpers -/

def le16 (n : Nat) : List Nat := [n % 256, n / 256 % 256]
def le32 (n : Nat) : List Nat := [n % 256, n / 256 % 256, n / 65536 % 256, n / 16777216 % 256]
def le48 (n : Nat) : List Nat :=
  [n % 256, n / 256 % 256, n / 65536 % 256, n / 16777216 % 256, n / 4294967296 % 256, n / 1099511627776 % 256]
def le64 (n : Nat) : List Nat := le32 (n % 4294967296) ++ le32 (n / 4294967296 % 4294967296)

/-- two's complement of `v` in `bits` bits -/
def twos (bits : Nat) (v : Int) : Nat := (v % (2 ^ bits : Nat)).toNat

/-- `AnalogConversions::to_i32` / `to_i16`: saturate and report OVER_RANGE -/
def satInt (bits : Nat) (v : Int) : Int × Bool :=
  let lo : Int := - (2 ^ (bits - 1) : Nat)
  let hi : Int := (2 ^ (bits - 1) : Nat) - 1
  if v < lo then (lo, true) else if v > hi then (hi, true) else (v, false)

/-- biased exponent and stored mantissa of the nearest (ties to even) binary float with `mbits`
    mantissa bits to the positive integer `n` (no overflow handling: callers saturate first) -/
def floatParts (mbits bias : Nat) (n : Nat) : Nat × Nat :=
  let e := n.log2
  if e ≤ mbits then (e + bias, n * 2 ^ (mbits - e) - 2 ^ mbits)
  else
    let sh := e - mbits
    let q := n / 2 ^ sh
    let r := n % 2 ^ sh
    let half := 2 ^ (sh - 1)
    let q' := if r > half ∨ (r = half ∧ q % 2 = 1) then q + 1 else q
    if q' = 2 ^ (mbits + 1) then (e + 1 + bias, 0) else (e + bias, q' - 2 ^ mbits)

/-- IEEE-754 binary64 bits of `v as f64` (exact for |v| < 2^53, else nearest-even) -/
def f64Bits (v : Int) : Nat :=
  if v = 0 then 0 else
  let (e, m) := floatParts 52 1023 v.natAbs
  (if v < 0 then 2 ^ 63 else 0) + e * 2 ^ 52 + m

/-- largest finite f32 as an integer -/
def f32MaxInt : Nat := (2 ^ 24 - 1) * 2 ^ 104

/-- `to_f32`: (bits of the f32, over-range) -/
def f32Bits (v : Int) : Nat × Bool :=
  if v = 0 then (0, false) else
  if v.natAbs > f32MaxInt then ((if v < 0 then 2 ^ 31 else 0) + 0x7F7FFFFF, true) else
  let (e, m) := floatParts 23 127 v.natAbs
  ((if v < 0 then 2 ^ 31 else 0) + e * 2 ^ 23 + m, false)

/-! ## measurements, events, points -/

/-- a stored measurement.  `value`: 0/1 for a binary input / output status, 0..3 for a double-bit input,
    the u32 of a counter, the integer an analog carries as `f64`; `octets`: an octet string's content
    (its `value`, `flags`, `time` are unused).  `time` = `Some(Time::Synchronized t)` for every update,
    and 0 for the `Default` value (whose unsynchronized zero time only g21v5 / g21v6 encode) -/
structure Meas where
  value : Int := 0
  flags : Nat := 2          -- `Flags::RESTART`, the constructor default
  time : Nat := 0
  octets : List Nat := []
deriving DecidableEq, Repr, Inhabited

/-- `WireFlags::get_wire_flags` -/
def Meas.wire (t : PtType) (m : Meas) : Nat :=
  match t with
  | .binary => m.flags % 128 + (if m.value ≠ 0 then 128 else 0)
  | .binaryOutputStatus => m.flags % 128 + (if m.value ≠ 0 then 128 else 0)
  | .doubleBitBinary => m.flags % 64 + 64 * (m.value.toNat % 4)
  | _ => m.flags

def overRange (f : Nat) (o : Bool) : Nat := if o then f ||| 0x20 else f

inductive EvState where | unselected | selected | written
deriving DecidableEq, Repr, Inhabited

structure EvRec where
  id : Nat
  index : Nat
  cls : Nat               -- 1, 2, 3
  ty : PtType
  m : Meas
  defVar : Nat            -- the point's configured event variation
  selVar : Nat            -- `Variation::selected`
  st : EvState := .unselected
deriving DecidableEq, Repr, Inhabited

/-- the variation octet the record is written with: the selected variation, or an octet string's
    length (`OctetStringLength(evt.len())`) -/
def EvRec.wvar (r : EvRec) : Nat :=
  match r.ty with
  | .octetString => r.m.octets.length
  | _ => r.selVar

/-- `ClassCounter` + `TypeCounter` -/
structure Counters where
  c1 : Nat := 0
  c2 : Nat := 0
  c3 : Nat := 0
  types : TyVec Nat := TyVec.const 0
deriving DecidableEq, Repr, Inhabited

def Counters.cls (c : Counters) : Nat → Nat
  | 1 => c.c1 | 2 => c.c2 | 3 => c.c3 | _ => 0
def Counters.ty (c : Counters) (t : PtType) : Nat := c.types.get t

def Counters.incCls (c : Counters) : Nat → Counters
  | 1 => { c with c1 := c.c1 + 1 } | 2 => { c with c2 := c.c2 + 1 } | 3 => { c with c3 := c.c3 + 1 } | _ => c
def Counters.decCls (c : Counters) : Nat → Counters
  | 1 => { c with c1 := c.c1 - 1 } | 2 => { c with c2 := c.c2 - 1 } | 3 => { c with c3 := c.c3 - 1 } | _ => c
def Counters.incTy (c : Counters) (t : PtType) : Counters := { c with types := c.types.set t (c.types.get t + 1) }
def Counters.decTy (c : Counters) (t : PtType) : Counters := { c with types := c.types.set t (c.types.get t - 1) }
/-- `Counters::increment(record)`: `TypeCounter::modify` picks the slot -/
def Counters.inc (c : Counters) (r : EvRec) : Counters := (c.incTy (Gen.DbT.typeCounterModify r.ty)).incCls r.cls
/-- `Counters::decrement(record)`: its own `match record.event` picks the slot -/
def Counters.dec (c : Counters) (r : EvRec) : Counters := (c.decCls r.cls).decTy (Gen.DbT.countersDecrement r.ty)

structure Point where
  current : Meas := {}
  selected : Meas := {}
  lastEvent : Meas := {}
  cls : Nat := 0
  /-- configured static variation (`PointConfig::s_var`; unused for octet strings) -/
  svar : Nat := 0
  /-- configured event variation (`PointConfig::e_var`) -/
  evar : Nat := 0
  /-- the detector's dead-band (`CounterConfig::deadband` … `AnalogOutputStatusConfig::deadband`; the
      binary types and octet strings have none) -/
  deadband : Nat := 0
deriving DecidableEq, Repr, Inhabited

/-- `EventMode` -/
inductive EvMode where | detect | force | suppress
deriving DecidableEq, Repr, Inhabited

/-- `UpdateOptions` (`Default` = `detect_event()`: update the static value, detect the event) -/
structure UpdOpts where
  updateStatic : Bool := true
  mode : EvMode := .detect
deriving DecidableEq, Repr, Inhabited

/-- kinds of entries of the static selection queue (`SpecificVariation`): the variant named like the
    type with the requested variation, or the analog dead-bands (g34) -/
inductive SelKind where
  | typed (t : PtType) (var : Option Nat)
  | deadband (var : Option Nat)
deriving DecidableEq, Repr, Inhabited

structure SelItem where
  kind : SelKind
  start : Nat
  stop : Nat
deriving DecidableEq, Repr, Inhabited

abbrev PMap := List (Nat × Point)

end DbM
open DbM

structure Db where
  /-- `EventBufferConfig`: maximum number of events per type -/
  evCfg : TyVec Nat := TyVec.const 0
  /-- `ClassZeroConfig` -/
  czero : TyVec Bool := TyVec.ofFn Gen.DbT.classZeroDefault
  selCap : Nat := 64
  -- event buffer
  events : List EvRec := []
  total : Counters := {}
  written : Counters := {}
  overflown : Bool := false
  next : Nat := 0
  -- static database: per type, ascending by index, indices unique
  maps : TyVec PMap := TyVec.const []
  queue : List SelItem := []
  /-- pending device-attribute selections (`attrs::Selection`, at most 32); no attribute is ever
      defined in the modelled configuration, so they write nothing -/
  attrSel : Nat := 0
deriving Repr, Inhabited

namespace DbM
/-- `OutstationConfig::DEFAULT_MAX_READ_REQUEST_HEADERS` -/
def defaultMaxReadHeaders : Nat := 64

/-- the per-type maxima a number stands for: eight base-65536 digits in the order of `Ty` -/
def evCfgOfNat (n : Nat) : TyVec Nat := TyVec.ofFn fun t => n / 65536 ^ tyIdx t % 65536

/-- … and the number a configuration (maxima < 65536) is written as -/
def evCfgToNat (c : TyVec Nat) : Nat :=
  Gen.DbT.Ty.all.foldl (fun acc t => acc + c.get t % 65536 * 65536 ^ tyIdx t) 0

/-- the ninth digit flips the default `ClassZeroConfig`, bit i = the i-th type -/
def czOfNat (n : Nat) : TyVec Bool :=
  TyVec.ofFn fun t => Gen.DbT.classZeroDefault t != (n / 65536 ^ 8 / 2 ^ tyIdx t % 2 == 1)

/-- "binary inputs and analog inputs `n` events each, nothing else" (the configuration of the
    engines before the other types were modelled) -/
def legacyEv (n : Nat) : Nat := n % 65536 + n % 65536 * 65536 ^ 5

end DbM

/-- `Database::new(max_read_selection, class_zero, event_config)` -/
def Db.newCfg (ev : TyVec Nat) (cz : TyVec Bool) (maxReadSel : Option Nat) : Db :=
  { evCfg := ev
    czero := cz
    selCap := match maxReadSel with
      | some n => max n defaultMaxReadHeaders
      | none => defaultMaxReadHeaders }

/-- the same, the configuration written as a number (`DbM.evCfgOfNat`, `DbM.czOfNat`) -/
def Db.new (evMax : Nat) (maxReadSel : Option Nat) : Db :=
  Db.newCfg (evCfgOfNat evMax) (czOfNat evMax) maxReadSel

/-! ## ordered point maps (`BTreeMap<u16, Point<T>>`) -/

namespace DbM
def pmLookup : PMap → Nat → Option Point
  | [], _ => none
  | (i, p) :: rest, k => if i = k then some p else if k < i then none else pmLookup rest k

/-- insert a new point keeping ascending order; `none` if the index exists -/
def pmInsert : PMap → Nat → Point → Option PMap
  | [], k, p => some [(k, p)]
  | (i, q) :: rest, k, p =>
    if i = k then none
    else if k < i then some ((k, p) :: (i, q) :: rest)
    else match pmInsert rest k p with
      | some r => some ((i, q) :: r)
      | none => none

def pmSet : PMap → Nat → Point → PMap
  | [], _, _ => []
  | (i, q) :: rest, k, p => if i = k then (i, p) :: rest else (i, q) :: pmSet rest k p

end DbM

def Db.map (db : Db) (t : PtType) : PMap := db.maps.get t
def Db.setMap (db : Db) (t : PtType) (m : PMap) : Db := { db with maps := db.maps.set t m }

/-- the binary-input and analog-input maps under their former names -/
abbrev Db.bins (db : Db) : PMap := db.maps.binary
abbrev Db.ans (db : Db) : PMap := db.maps.analog

/-- `T::get_map(&self.static_db)` / `T::get_mut_map` (`impl Updatable for T`) -/
def Db.getMap (db : Db) (t : PtType) : PMap := db.map (Gen.DbT.updatable t).getMap
def Db.setMutMap (db : Db) (t : PtType) (m : PMap) : Db := db.setMap (Gen.DbT.updatable t).getMutMap m
def Db.getMutMap (db : Db) (t : PtType) : PMap := db.map (Gen.DbT.updatable t).getMutMap

namespace DbM
def normClass (c : Nat) : Nat := if c = 1 ∨ c = 2 ∨ c = 3 then c else 0

/-- `T::default()` -/
def defaultMeas : PtType → Meas
  | .doubleBitBinary => { value := 3 }          -- `DoubleBit::Indeterminate`
  | .octetString => { flags := 0, octets := [0] }
  | _ => {}

/-- the variations `Db.add` configures: static g1v2 / g30v1 and event g2v1 / g32v1 for binary and analog
    inputs (as the engines always did), the library's `Default` configuration for the other types -/
def addStaticVar : PtType → Nat
  | .binary => 2 | .octetString => 0 | _ => 1
def addEventVar : PtType → Nat
  | .binaryOutputStatus => 2 | .octetString => 0 | _ => 1

end DbM

/-- `Database::add` with the point's configuration (class 0 = no event class) -/
def Db.addCfg (db : Db) (t : PtType) (idx cls svar evar deadband : Nat) : Db × Bool :=
  match pmInsert (db.getMutMap t) idx
      { current := defaultMeas t, selected := defaultMeas t, lastEvent := defaultMeas t,
        cls := normClass cls, svar := svar, evar := evar, deadband := deadband } with
  | some m => (db.setMutMap t m, true)
  | none => (db, false)

/-- `Database::add` with the configuration `addStaticVar` / `addEventVar`; the session model's entry
    point (`OInput.add`): an index ≥ 65536 carries the point's dead-band, `idx / 65536`, in front of the
    index proper -/
def Db.add (db : Db) (t : PtType) (idx cls : Nat) : Db × Bool :=
  db.addCfg t (idx % 65536) cls (addStaticVar t) (addEventVar t) (idx / 65536)

/-! ## event buffer -/

namespace DbM
/-- `VecList::remove_first(is_type)` -/
def removeFirstTy (t : PtType) : List EvRec → Option (EvRec × List EvRec)
  | [] => none
  | r :: rs =>
    if r.ty = t then some (r, rs)
    else match removeFirstTy t rs with
      | some (d, rs') => some (d, r :: rs')
      | none => none

inductive InsertResult where
  | typeMaxIsZero | ok (id : Nat) | overflow (created discarded : Nat)
deriving DecidableEq, Repr, Inhabited

end DbM

/-- `EventBuffer::insert::<T>`, every `T::…` call through the generated `Insertable` row of `t`;
    a discarded record that is `Written` is taken out of `written` too
    (type counter, then class counter — the order of the Rust statements) -/
def Db.insert (db : Db) (idx cls : Nat) (t : PtType) (m : Meas) (defVar : Nat) : Db × InsertResult :=
  let row := Gen.DbT.insertable t
  let max := db.evCfg.get row.max
  if max = 0 then (db, .typeMaxIsZero) else
  let id := db.next
  let mk : EvRec := { id := id, index := idx, cls := cls, ty := row.create, m := m, defVar := defVar, selVar := defVar }
  if db.total.ty row.count = max then
    match removeFirstTy row.isType db.events with
    | some (d, rest) =>
      ({ db with next := id + 1, events := rest ++ [mk]
                 total := (((db.total.decTy row.dec).decCls d.cls).incCls cls).incTy row.inc
                 written := if d.st = .written then (db.written.decTy row.dec).decCls d.cls else db.written
                 overflown := true },
       .overflow id d.id)
    | none =>
      ({ db with next := id + 1, events := db.events ++ [mk], total := (db.total.incCls cls).incTy row.inc }, .ok id)
  else
    ({ db with next := id + 1, events := db.events ++ [mk], total := (db.total.incCls cls).incTy row.inc }, .ok id)

namespace DbM
/-- `EventDetector::is_event`: `FlagsDetector`; `Deadband` (the flags differ, or the values differ by more
    than the dead-band: `Deadband::exceeded`, |lhs − rhs| > deadband); `OctetStringDetector` -/
def isEvent (t : PtType) (deadband : Nat) (last new : Meas) : Bool :=
  match Gen.DbT.detector t with
  | .flags => last.wire t != new.wire t
  | .deadband => last.wire t != new.wire t || decide ((new.value - last.value).natAbs > deadband)
  | .value => last.octets != new.octets

/-- the measurement an update carries: `BinaryInput::new(value != 0, flags, Synchronized(time))`,
    `DoubleBitBinaryInput::new(DoubleBit of value % 4, ..)`, `Counter::new(value as u32, ..)`,
    `AnalogInput::new(value as f64, ..)`, …; `Timestamp::new` keeps 48 bits -/
def mkMeas (t : PtType) (value : Int) (flags time : Nat) : Meas :=
  { value := match t with
      | .binary => if value ≠ 0 then 1 else 0
      | .binaryOutputStatus => if value ≠ 0 then 1 else 0
      | .doubleBitBinary => value % 4
      | .counter => value % 4294967296
      | .frozenCounter => value % 4294967296
      | .analog => value
      | .analogOutputStatus => value
      | .octetString => 0
    flags := flags, time := time % 2 ^ 48 }

/-- `OctetString::new(octets)` -/
def mkOctets (octets : List Nat) : Meas := { flags := 0, octets := octets }

/-- the octets a number stands for: its base-256 digits below the leading 1, most significant first -/
def octetsOfNat : Nat → Nat → List Nat → List Nat
  | 0, _, acc => acc
  | fuel + 1, n, acc => if n ≤ 1 then acc else octetsOfNat fuel (n / 256) (n % 256 :: acc)

def natOfOctets (bs : List Nat) : Nat := bs.foldl (fun acc b => acc * 256 + b % 256) 1

/-- the update options number `k`: 0..2 = Detect / Force / Suppress updating the static value, 3..5 = the
    same without (`update_static = false`) -/
def optsOfCode (k : Nat) : UpdOpts :=
  { updateStatic := k % 6 < 3
    mode := match k % 3 with | 0 => .detect | 1 => .force | _ => .suppress }

def codeOfOpts (o : UpdOpts) : Nat :=
  (match o.mode with | .detect => 0 | .force => 1 | .suppress => 2) + (if o.updateStatic then 0 else 3)

/-- what `Db.update t idx value flags time` addresses (see the file header): below 65536 point `idx` of
    `t` with the default options; else `idx / 65536 = 16 * options + type number + 1` -/
def decodeUpd (t : PtType) (idx : Nat) (value : Int) (flags time : Nat) : PtType × Nat × Meas × UpdOpts :=
  if idx < 65536 then (t, idx, mkMeas t value flags time, {})
  else
    let t' := tyOfIdx (idx / 65536 % 16 - 1)
    (t', idx % 65536,
     (match t' with
      | .octetString => mkOctets (octetsOfNat 300 value.toNat [])
      | _ => mkMeas t' value flags time),
     optsOfCode (idx / 65536 / 16))

/-- the index under which `Db.update` reaches point `idx` of type `t` (default options) -/
def encodeIdx (t : PtType) (idx : Nat) : Nat := (tyIdx t + 1) * 65536 + idx % 65536

/-- … with update options -/
def encodeIdxOpts (t : PtType) (idx : Nat) (o : UpdOpts) : Nat :=
  (16 * codeOfOpts o + tyIdx t + 1) * 65536 + idx % 65536

end DbM

namespace DbM
/-- does `StaticDatabase::update` produce an event for the point (and move `last_event`)?
    `Suppress`: never; `Force`: always; `Detect`: when the detector says so, comparing the new value with
    the value LAST REPORTED as an event -/
def wantsEvent (t : PtType) (p : Point) (m : Meas) : EvMode → Bool
  | .suppress => false
  | .force => true
  | .detect => isEvent t p.deadband p.lastEvent m

end DbM

/-- `Database::update2::<T>(index, value, options)` = `StaticDatabase::update` + `EventBuffer::insert`:
    the static value is replaced if `update_static`; `last_event` moves exactly when an event is wanted;
    the event is recorded if the point has a class and the type's buffer is not switched off -/
def Db.updateOpt (db : Db) (t : PtType) (idx : Nat) (m : Meas) (o : UpdOpts) : Db × UpdInfo :=
  match pmLookup (db.getMutMap t) idx with
  | none => (db, .noPoint)
  | some p =>
    let p1 : Point := if o.updateStatic then { p with current := m } else p
    if wantsEvent t p m o.mode then
      let db1 := db.setMutMap t (pmSet (db.getMutMap t) idx { p1 with lastEvent := m })
      if p.cls = 0 then (db1, .noEvent) else
      match db1.insert idx p.cls t m p.evar with
      | (db2, .typeMaxIsZero) => (db2, .noEvent)
      | (db2, .ok id) => (db2, .created id)
      | (db2, .overflow c d) => (db2, .overflow c d)
    else
      (db.setMutMap t (pmSet (db.getMutMap t) idx p1), .noEvent)

/-- `Database::update2::<T>` with `UpdateOptions::detect_event()` -/
def Db.updateM (db : Db) (t : PtType) (idx : Nat) (m : Meas) : Db × UpdInfo := db.updateOpt t idx m {}

/-- the session model's entry point (`TxnItem`), see `DbM.decodeUpd` -/
def Db.update (db : Db) (t : PtType) (idx : Nat) (value : Int) (flags time : Nat) : Db × UpdInfo :=
  db.updateOpt (decodeUpd t idx value flags time).1 (decodeUpd t idx value flags time).2.1
    (decodeUpd t idx value flags time).2.2.1 (decodeUpd t idx value flags time).2.2.2

namespace DbM
/-- `EventBuffer::select`: the first `limit` `Unselected` records satisfying `p` become `Selected`
    with selected variation `var` (or their default); returns the count -/
def selectEvents (p : EvRec → Bool) (var : Option Nat) : Option Nat → List EvRec → List EvRec × Nat
  | _, [] => ([], 0)
  | some 0, rs => (rs, 0)
  | limit, r :: rs =>
    if r.st = .unselected ∧ p r then
      let (rs', n) := selectEvents p var (limit.map (· - 1)) rs
      ({ r with st := .selected, selVar := var.getD r.defVar } :: rs', n + 1)
    else
      let (rs', n) := selectEvents p var limit rs
      (r :: rs', n)

/-! ### event writer (`EventWriter`, `write_fn.rs`) -/

/-- encoded size of one event object (without the 2-octet index prefix); an octet string's
    variation is its length -/
def evObjSize : PtType → Nat → Nat
  | .binary, 1 => 1 | .binary, 2 => 7 | .binary, 3 => 3
  | .doubleBitBinary, 1 => 1 | .doubleBitBinary, 2 => 7 | .doubleBitBinary, 3 => 3
  | .binaryOutputStatus, 1 => 1 | .binaryOutputStatus, 2 => 7
  | .counter, 1 => 5 | .counter, 2 => 3 | .counter, 5 => 11 | .counter, 6 => 9
  | .frozenCounter, 1 => 5 | .frozenCounter, 2 => 3 | .frozenCounter, 5 => 11 | .frozenCounter, 6 => 9
  | .analog, 1 => 5 | .analog, 2 => 3 | .analog, 3 => 11 | .analog, 4 => 9
  | .analog, 5 => 5 | .analog, 6 => 9 | .analog, 7 => 11 | .analog, 8 => 15
  | .analogOutputStatus, 1 => 5 | .analogOutputStatus, 2 => 3 | .analogOutputStatus, 3 => 11 | .analogOutputStatus, 4 => 9
  | .analogOutputStatus, 5 => 5 | .analogOutputStatus, 6 => 9 | .analogOutputStatus, 7 => 11 | .analogOutputStatus, 8 => 15
  | .octetString, n => n
  | _, _ => 0

def evGroup : PtType → Nat
  | .binary => 2 | .doubleBitBinary => 4 | .binaryOutputStatus => 11 | .counter => 22
  | .frozenCounter => 23 | .analog => 32 | .analogOutputStatus => 42 | .octetString => 111

/-- `EventVariation::uses_cto` (g2v3, g4v3) -/
def usesCto (t : PtType) (v : Nat) : Bool := (t == .binary || t == .doubleBitBinary) && v == 3

/-- `HeaderState` + `HeaderType` of the event writer -/
structure EvCur where
  ty : PtType
  var : Nat
  count : Nat
  cto : Nat
deriving DecidableEq, Repr, Inhabited

def EvCur.start (r : EvRec) : EvCur := { ty := r.ty, var := r.wvar, count := 1, cto := r.m.time }
def EvCur.inc (c : EvCur) : EvCur := { c with count := c.count + 1 }

/-- does `r` go under the header in progress? (same type, same variation — for an octet string: same
    length —, count below u16::MAX, and for g2v3 / g4v3 a relative time that fits: all times are
    `Synchronized`) -/
def evContinues (c : EvCur) (r : EvRec) : Bool :=
  c.ty == r.ty && c.var == r.wvar && c.count != 65535 &&
  (!usesCto r.ty r.wvar || (c.cto ≤ r.m.time && r.m.time - c.cto ≤ 65535))

/-- octets needed by `r` given the writer state -/
def evCost (cur : Option EvCur) (r : EvRec) : Nat :=
  match cur with
  | some c =>
    if evContinues c r then 2 + evObjSize r.ty r.wvar
    else (if usesCto r.ty r.wvar then 10 else 0) + 5 + 2 + evObjSize r.ty r.wvar
  | none => (if usesCto r.ty r.wvar then 10 else 0) + 5 + 2 + evObjSize r.ty r.wvar

def evNext (cur : Option EvCur) (r : EvRec) : EvCur :=
  match cur with
  | some c => if evContinues c r then c.inc else EvCur.start r
  | none => EvCur.start r

/-- `write_events`: walk the list, write every `Selected` record until one does not fit;
    returns (list with the written records marked `Written`, written records in order, complete) -/
def evLoop (cap : Nat) : List EvRec → Nat → Option EvCur → List EvRec × List EvRec × Bool
  | [], _, _ => ([], [], true)
  | r :: rs, used, cur =>
    if r.st = .selected then
      if used + evCost cur r ≤ cap then
        let (rs', w, c) := evLoop cap rs (used + evCost cur r) (some (evNext cur r))
        ({ r with st := .written } :: rs', r :: w, c)
      else (r :: rs, [], false)
    else
      let (rs', w, c) := evLoop cap rs used cur
      (r :: rs', w, c)

/-! value encodings shared by the event and the static variations -/

/-- flags (+ OVER_RANGE) and a saturated i32 / i16 (`to_i32`, `to_i16`) -/
def encI32 (m : Meas) : List Nat := let (v, o) := satInt 32 m.value; [overRange m.flags o] ++ le32 (twos 32 v)
def encI16 (m : Meas) : List Nat := let (v, o) := satInt 16 m.value; [overRange m.flags o] ++ le16 (twos 16 v)
/-- flags (+ OVER_RANGE) and an f32 (`to_f32`) -/
def encF32 (m : Meas) : List Nat := let (b, o) := f32Bits m.value; [overRange m.flags o] ++ le32 b
def encF64 (m : Meas) : List Nat := [m.flags] ++ le64 (f64Bits m.value)
/-- flags and the u32 / the u32 truncated to u16 (`self.value as u16`) -/
def encU32 (m : Meas) : List Nat := [m.flags] ++ le32 m.value.toNat
def encU16 (m : Meas) : List Nat := [m.flags] ++ le16 (m.value.toNat % 65536)

/-- the object octets of one event under a header whose common time is `cto` -/
def evObj (cto : Nat) (r : EvRec) : List Nat :=
  match r.ty, r.wvar with
  | .binary, 1 => [r.m.wire .binary]
  | .binary, 2 => [r.m.wire .binary] ++ le48 r.m.time
  | .binary, 3 => [r.m.wire .binary] ++ le16 (r.m.time - cto)
  | .doubleBitBinary, 1 => [r.m.wire .doubleBitBinary]
  | .doubleBitBinary, 2 => [r.m.wire .doubleBitBinary] ++ le48 r.m.time
  | .doubleBitBinary, 3 => [r.m.wire .doubleBitBinary] ++ le16 (r.m.time - cto)
  | .binaryOutputStatus, 1 => [r.m.wire .binaryOutputStatus]
  | .binaryOutputStatus, 2 => [r.m.wire .binaryOutputStatus] ++ le48 r.m.time
  | .counter, 1 => encU32 r.m
  | .counter, 2 => encU16 r.m
  | .counter, 5 => encU32 r.m ++ le48 r.m.time
  | .counter, 6 => encU16 r.m ++ le48 r.m.time
  | .frozenCounter, 1 => encU32 r.m
  | .frozenCounter, 2 => encU16 r.m
  | .frozenCounter, 5 => encU32 r.m ++ le48 r.m.time
  | .frozenCounter, 6 => encU16 r.m ++ le48 r.m.time
  | .analog, 1 => encI32 r.m
  | .analog, 2 => encI16 r.m
  | .analog, 3 => encI32 r.m ++ le48 r.m.time
  | .analog, 4 => encI16 r.m ++ le48 r.m.time
  | .analog, 5 => encF32 r.m
  | .analog, 6 => encF64 r.m
  | .analog, 7 => encF32 r.m ++ le48 r.m.time
  | .analog, 8 => encF64 r.m ++ le48 r.m.time
  | .analogOutputStatus, 1 => encI32 r.m
  | .analogOutputStatus, 2 => encI16 r.m
  | .analogOutputStatus, 3 => encI32 r.m ++ le48 r.m.time
  | .analogOutputStatus, 4 => encI16 r.m ++ le48 r.m.time
  | .analogOutputStatus, 5 => encF32 r.m
  | .analogOutputStatus, 6 => encF64 r.m
  | .analogOutputStatus, 7 => encF32 r.m ++ le48 r.m.time
  | .analogOutputStatus, 8 => encF64 r.m ++ le48 r.m.time
  | .octetString, _ => r.m.octets
  | _, _ => []

/-- number of records after a header's first that stay under it -/
def evRunLen (c : EvCur) : List EvRec → Nat
  | [] => 0
  | r :: rs => if evContinues c r then 1 + evRunLen c.inc rs else 0

/-- g51v1 common-time-of-occurrence header (all times are synchronised) -/
def ctoHeader (time : Nat) : List Nat := [51, 1, 0x07, 1] ++ le48 time

def evHeader (r : EvRec) (count : Nat) : List Nat :=
  (if usesCto r.ty r.wvar then ctoHeader r.m.time else []) ++
  [evGroup r.ty, r.wvar, 0x28] ++ le16 count

/-- the octets `write_events` produces for the records `rs` written in this order -/
def encodeEvents : Option EvCur → List EvRec → List Nat
  | _, [] => []
  | cur, r :: rs =>
    match cur with
    | some c =>
      if evContinues c r then le16 r.index ++ evObj c.cto r ++ encodeEvents (some c.inc) rs
      else evHeader r (1 + evRunLen (EvCur.start r) rs) ++ le16 r.index ++ evObj r.m.time r
            ++ encodeEvents (some (EvCur.start r)) rs
    | none => evHeader r (1 + evRunLen (EvCur.start r) rs) ++ le16 r.index ++ evObj r.m.time r
            ++ encodeEvents (some (EvCur.start r)) rs

end DbM

/-- `EventBuffer::write_events` on the database -/
def Db.writeEvents (db : Db) (cap : Nat) : Db × List EvRec × Bool :=
  let (evs, w, c) := evLoop cap db.events 0 none
  ({ db with events := evs, written := w.foldl Counters.inc db.written }, w, c)

/-! ## static database -/

namespace DbM
/-- one static object to be written: index, (group, variation) after `promote` (an octet string's
    variation is its length), value -/
structure SObj where
  idx : Nat
  g : Nat
  v : Nat
  m : Meas
deriving DecidableEq, Repr, Inhabited

def staticGroup : PtType → Nat
  | .binary => 1 | .doubleBitBinary => 3 | .binaryOutputStatus => 10 | .counter => 20
  | .frozenCounter => 21 | .analog => 30 | .analogOutputStatus => 40 | .octetString => 110

/-- bits per value of a packed variation (`WriteType::Bits` g1v1 / g10v1, `WriteType::DoubleBits`
    g3v1); 0 = not packed -/
def packWidth (g v : Nat) : Nat :=
  if v = 1 then (if g = 1 ∨ g = 10 then 1 else if g = 3 then 2 else 0) else 0

/-- packed variation? -/
def isBits (g v : Nat) : Bool := packWidth g v != 0

/-- values per octet of a packed variation (`BitState::next`: 8 single bits, 4 double bits) -/
def perOctet (g v : Nat) : Nat := if packWidth g v = 2 then 4 else 8

def stObjSize : Nat → Nat → Nat
  | 1, 2 => 1
  | 3, 2 => 1
  | 10, 2 => 1
  | 20, 1 => 5 | 20, 2 => 3 | 20, 5 => 4 | 20, 6 => 2
  | 21, 1 => 5 | 21, 2 => 3 | 21, 5 => 11 | 21, 6 => 9 | 21, 9 => 4 | 21, 10 => 2
  | 30, 1 => 5 | 30, 2 => 3 | 30, 3 => 4 | 30, 4 => 2 | 30, 5 => 5 | 30, 6 => 9
  | 34, 1 => 2 | 34, 2 => 4 | 34, 3 => 4
  | 40, 1 => 5 | 40, 2 => 3 | 40, 3 => 5 | 40, 4 => 9
  | 110, n => n
  | _, _ => 0

/-- `StaticVariation::promote`: the packed variation 1 of g1 / g10 (g3) is kept only if the flags
    without the state bit (bits) are exactly ONLINE -/
def promote (t : PtType) (v : Nat) (m : Meas) : Nat :=
  match t with
  | .binary => if v = 1 then (if m.flags % 128 = 1 then 1 else 2) else v
  | .binaryOutputStatus => if v = 1 then (if m.flags % 128 = 1 then 1 else 2) else v
  | .doubleBitBinary => if v = 1 then (if m.flags % 64 = 1 then 1 else 2) else v
  | _ => v

/-- `promote` for g1 (the name it had when binary inputs were the only packed type) -/
def promoteBin (v : Nat) (m : Meas) : Nat := promote .binary v m

/-- the variation octet a point is written with: requested or configured variation after `promote`;
    an octet string's length (`Variation::Group110(value.len())`) -/
def stVar (t : PtType) (var : Option Nat) (p : Point) : Nat :=
  match t with
  | .octetString => p.selected.octets.length
  | _ => promote t (var.getD p.svar) p.selected

def inRange (it : SelItem) (i : Nat) : Bool := it.start ≤ i && i ≤ it.stop

/-- the objects one point map contributes to a typed queue entry -/
def typedObjs (t : PtType) (var : Option Nat) (it : SelItem) (m : PMap) : List SObj :=
  (m.filter (fun p => inRange it p.1)).map fun p =>
    { idx := p.1, g := staticGroup t, v := stVar t var p.2, m := p.2.selected }

/-- the objects a queue entry stands for, ascending (`inner.range(range)` + variation choice);
    `write_range` picks `write_typed_range::<T>` for the entry's `SpecificVariation` -/
def itemObjs (db : Db) (it : SelItem) : List SObj :=
  match it.kind with
  | .typed k var => typedObjs (Gen.DbT.writeRangeTy k) var it (db.getMap (Gen.DbT.writeRangeTy k))
  | .deadband var =>
    -- `write_analog_dead_bands`: the point's configured dead-band in the requested variation (default g34v3)
    (db.maps.analog.filter (fun p => inRange it p.1)).map fun p =>
      { idx := p.1, g := 34, v := var.getD 3, m := { value := p.2.deadband, flags := 0 } }

/-- `State::Header` of the range writer: variation, last index, values under the header -/
structure StCur where
  g : Nat
  v : Nat
  last : Nat
  n : Nat
deriving DecidableEq, Repr, Inhabited

def stContinues (c : StCur) (o : SObj) : Bool := c.g == o.g && c.v == o.v && o.idx == c.last + 1

def stCost (cur : Option StCur) (o : SObj) : Nat :=
  match cur with
  | some c =>
    if stContinues c o then (if isBits o.g o.v then (if c.n % perOctet o.g o.v = 0 then 1 else 0) else stObjSize o.g o.v)
    else 7 + (if isBits o.g o.v then 1 else stObjSize o.g o.v)
  | none => 7 + (if isBits o.g o.v then 1 else stObjSize o.g o.v)

def stNext (cur : Option StCur) (o : SObj) : StCur :=
  match cur with
  | some c => if stContinues c o then { c with last := o.idx, n := c.n + 1 } else { g := o.g, v := o.v, last := o.idx, n := 1 }
  | none => { g := o.g, v := o.v, last := o.idx, n := 1 }

/-- `write_typed_range`: (written objects, octets used afterwards, index at which space ran out) -/
def stLoop (cap : Nat) : List SObj → Nat → Option StCur → List SObj × Nat × Option Nat
  | [], used, _ => ([], used, none)
  | o :: os, used, cur =>
    if used + stCost cur o ≤ cap then
      let (w, u, f) := stLoop cap os (used + stCost cur o) (some (stNext cur o))
      (o :: w, u, f)
    else ([], used, some o.idx)

/-- `StaticDatabase::write`: items written (one object list per queue entry touched),
    the remaining queue, octets used -/
def qLoop (db : Db) (cap : Nat) : List SelItem → Nat → List (List SObj) × List SelItem × Nat
  | [], used => ([], [], used)
  | it :: its, used =>
    match stLoop cap (itemObjs db it) used none with
    | (w, u, none) =>
      let (ws, q, u') := qLoop db cap its u
      (w :: ws, q, u')
    | (w, u, some i) => ([w], { it with start := i } :: its, u)

def stObjBytes (o : SObj) : List Nat :=
  match o.g, o.v with
  | 1, 2 => [o.m.wire .binary]
  | 3, 2 => [o.m.wire .doubleBitBinary]
  | 10, 2 => [o.m.wire .binaryOutputStatus]
  | 20, 1 => encU32 o.m
  | 20, 2 => encU16 o.m
  | 20, 5 => le32 o.m.value.toNat
  | 20, 6 => le16 (o.m.value.toNat % 65536)
  | 21, 1 => encU32 o.m
  | 21, 2 => encU16 o.m
  | 21, 5 => encU32 o.m ++ le48 o.m.time
  | 21, 6 => encU16 o.m ++ le48 o.m.time
  | 21, 9 => le32 o.m.value.toNat
  | 21, 10 => le16 (o.m.value.toNat % 65536)
  | 30, 1 => encI32 o.m
  | 30, 2 => encI16 o.m
  | 30, 3 => le32 (twos 32 (satInt 32 o.m.value).1)
  | 30, 4 => le16 (twos 16 (satInt 16 o.m.value).1)
  | 30, 5 => encF32 o.m
  | 30, 6 => encF64 o.m
  -- `ToVariation<Group34VarN> for f64`: the dead-band rounded and clamped to u16 / u32, or as f32
  | 34, 1 => le16 (min o.m.value.toNat 65535)
  | 34, 2 => le32 (min o.m.value.toNat 4294967295)
  | 34, 3 => le32 (f32Bits o.m.value).1
  | 40, 1 => encI32 o.m
  | 40, 2 => encI16 o.m
  | 40, 3 => encF32 o.m
  | 40, 4 => encF64 o.m
  | 110, n => o.m.octets.take n ++ List.replicate (n - o.m.octets.length) 0
  | _, _ => []

def stRunLen (c : StCur) : List SObj → Nat
  | [] => 0
  | o :: os => if stContinues c o then 1 + stRunLen { c with last := o.idx, n := c.n + 1 } os else 0

/-- the bit(s) one object contributes to a packed octet: `bool::to_mask` / `DoubleBit::to_byte` -/
def bitVal (w : Nat) (o : SObj) : Nat :=
  if w = 2 then o.m.value.toNat % 4 else (if o.m.value ≠ 0 then 1 else 0)

/-- one packed octet: the k-th object's value at bit position k * w -/
def packVals (w : Nat) : List SObj → Nat
  | [] => 0
  | o :: os => bitVal w o + 2 ^ w * packVals w os

/-- `packVals` for single bits -/
def packBits (os : List SObj) : Nat := packVals 1 os

/-- the octets the range writer produces for the objects `os` of ONE queue entry -/
def encodeStatic : Option StCur → List SObj → List Nat
  | _, [] => []
  | cur, o :: os =>
    let cont : Option StCur := match cur with
      | some c => if stContinues c o then some c else none
      | none => none
    match cont with
    | some c =>
      (if isBits o.g o.v then
         (if c.n % perOctet o.g o.v = 0 then
            [packVals (packWidth o.g o.v)
              ((o :: os).take (min (perOctet o.g o.v) (1 + stRunLen { c with last := o.idx, n := c.n + 1 } os)))]
          else [])
       else stObjBytes o) ++ encodeStatic (some { c with last := o.idx, n := c.n + 1 }) os
    | none =>
      [o.g, o.v, 0x01] ++ le16 o.idx ++ le16 (o.idx + stRunLen { g := o.g, v := o.v, last := o.idx, n := 1 } os) ++
        (if isBits o.g o.v then
           [packVals (packWidth o.g o.v)
             ((o :: os).take (min (perOctet o.g o.v) (stRunLen { g := o.g, v := o.v, last := o.idx, n := 1 } os + 1)))]
         else stObjBytes o) ++
        encodeStatic (some { g := o.g, v := o.v, last := o.idx, n := 1 }) os
end DbM

/-! ## READ header mapping (`read.rs`) -/
namespace DbM

inductive ReadAct where
  | class0
  | evClass (c : Nat) (limit : Option Nat)
  | evType (t : PtType) (var : Option Nat) (limit : Option Nat)   -- `t`: the `EventReadHeader` variant
  | evNothing                        -- frozen analog events: known, unsupported
  | stType (t : PtType) (var : Option Nat) (range : Option (Nat × Nat))   -- `t`: the `StaticReadHeader` variant
  | stDeadband (var : Option Nat) (range : Option (Nat × Nat))
  | stNothing                        -- frozen analog inputs: known, unsupported, IIN2 = 0
  | attrAll (var : Nat)              -- g0 with 0x06 (no attributes are defined)
  | attrSpecific (var a b : Nat)     -- g0 with 0x00 / 0x01
  | noFunc                           -- parses, `ReadHeader::get` = None: IIN2.0
  | parseError                       -- rejected by the request parser (never reaches `select`)
  | uncovered                        -- outside this model: qualifiers 0x17 / 0x28 / 0x5B in a READ
deriving DecidableEq, Repr, Inhabited

def optVar (v : Nat) : Option Nat := if v = 0 then none else some v

/-- does a pattern of the parser's qualifier tables match (group, variation)? -/
def patMatches (p : Gen.Pat) (g v : Nat) : Bool :=
  p.group == g && (match p.var with | some x => x == v | none => true)

/-- does the request parser accept (group, variation) with this family of qualifiers in a READ?
    (`AllObjectsVariation::get`, `CountVariation::parse`, `RangedVariation::parse_read`) -/
def parserAccepts (tbl : List (Gen.Pat × Gen.Payload)) (g v : Nat) : Bool := tbl.any fun pp => patMatches pp.1 g v

/-- the arm of a `ReadHeader::from_*` table that matches (group, variation) -/
def readArm (tbl : List Gen.DbT.ReadArm) (g v : Nat) : Option Gen.DbT.ReadArm :=
  tbl.find? fun a => a.group == g && a.guard == 0 && (match a.var with | some x => x == v | none => true)

/-- what the matched arm means, given the header's range or count -/
def tgtAct (t : Gen.DbT.ReadTgt) (v : Nat) (range : Option (Nat × Nat)) (limit : Option Nat) : ReadAct :=
  match t with
  | .attrAll => .attrAll v
  | .attrSpecific => .attrSpecific v (range.getD (0, 0)).1 (range.getD (0, 0)).2
  | .class0 => .class0
  | .evClass c keeps => .evClass c (if keeps then limit else none)
  | .static ty var keeps => .stType ty (var.map (·.2)) (if keeps then range else none)
  | .event ty var keeps => .evType ty (var.map (·.2)) (if keeps then limit else none)
  | .frozenAnalog _ _ => .stNothing
  | .frozenAnalogEvent _ _ => .evNothing
  | .deadBand var keeps => .stDeadband (var.map (·.2)) (if keeps then range else none)

/-- object size of the count-qualified variations that carry data even in a READ
    (`CountSequence::parse`): g50v1..4, g51v1/2, g52v1/2; 0 = carries none / not such a variation -/
def countDataSize : Nat → Nat → Nat
  | 50, 1 => 6 | 50, 2 => 10 | 50, 3 => 6 | 50, 4 => 11
  | 51, 1 => 6 | 51, 2 => 6 | 52, 1 => 2 | 52, 2 => 2
  | _, _ => 0

/-- parser acceptance, then the `from_*` arm -/
def classifyWith (accept : List (Gen.Pat × Gen.Payload)) (tbl : List Gen.DbT.ReadArm) (g v : Nat)
    (range : Option (Nat × Nat)) (limit : Option Nat) : ReadAct :=
  if parserAccepts accept g v then
    match readArm tbl g v with
    | some a => (match a.tgt with | some t => tgtAct t v range limit | none => .noFunc)
    | none => .noFunc
  else .parseError

end DbM

/-- `ObjectParser` (READ) + `ReadHeader::get` for one header -/
def ReadHdr.classify (h : ReadHdr) : ReadAct :=
  if h.group = 0 then
    -- `Variation::lookup(0, 0)` = None; every other variation of group 0 is an attribute
    if h.var = 0 ∨ h.var > 255 then .parseError
    else if h.qual = 0x06 then .attrAll h.var
    else if h.qual = 0x00 ∨ h.qual = 0x01 then (if h.b < h.a then .parseError else .attrSpecific h.var h.a h.b)
    else if h.qual = 0x17 ∨ h.qual = 0x28 ∨ h.qual = 0x5B then .uncovered
    else .parseError
  else
  if h.qual = 0x06 then classifyWith Gen.allObjects Gen.DbT.readAllObjects h.group h.var none none
  else if h.qual = 0x00 ∨ h.qual = 0x01 then
    if h.b < h.a then .parseError
    else classifyWith Gen.rangedRead Gen.DbT.readRange h.group h.var (some (h.a, h.b)) none
  else if h.qual = 0x07 ∨ h.qual = 0x08 then
    classifyWith Gen.countTable Gen.DbT.readCount h.group h.var none (some h.a)
  else if h.qual = 0x17 ∨ h.qual = 0x28 ∨ h.qual = 0x5B then .uncovered
  else .parseError

namespace DbM
def IIN2_NO_FUNC_CODE_SUPPORT : Nat := 0x01
def IIN2_PARAMETER_ERROR : Nat := 0x04

end DbM

/-- `SelectionQueue::push_back` + `push_selection` -/
def Db.pushSel (db : Db) (it : SelItem) : Db × Nat :=
  if db.queue.length = db.selCap then (db, IIN2_PARAMETER_ERROR)
  else ({ db with queue := db.queue ++ [it] }, 0)

namespace DbM
/-- copy `current` to `selected` for every point in [start, stop] -/
def snapshot (start stop : Nat) : PMap → PMap
  | [] => []
  | (i, p) :: rest =>
    (if start ≤ i ∧ i ≤ stop then (i, { p with selected := p.current }) else (i, p)) :: snapshot start stop rest

def fullRange (m : PMap) : Option (Nat × Nat) :=
  match m.head?, m.getLast? with
  | some a, some b => some (a.1, b.1)
  | _, _ => none

/-- `T::wrap(range, variation)`: the `SpecificVariation` entry (octet strings carry no variation) -/
def kindOf (t : PtType) (var : Option Nat) : SelKind :=
  .typed (Gen.DbT.updatable t).wrap (if (Gen.DbT.updatable t).wrapVar then var else none)

end DbM

/-- `StaticDatabase::select_by_type::<T>` -/
def Db.selectStatic (db : Db) (t : PtType) (var : Option Nat) (range : Option (Nat × Nat)) : Db × Nat :=
  match (match range with | some r => some r | none => fullRange (db.getMutMap t)) with
  | none => (db, 0)
  | some (a, b) => (db.setMutMap t (snapshot a b (db.getMutMap t))).pushSel { kind := kindOf t var, start := a, stop := b }

/-- `select_class_zero`: every type enabled in `ClassZeroConfig`, in the order of the source -/
def Db.selectClass0 (db : Db) : Db × Nat :=
  Gen.DbT.classZeroOrder.foldl (fun (p : Db × Nat) t =>
    if p.1.czero.get (Gen.DbT.updatable t).classZero then
      ((p.1.selectStatic t none none).1, p.2 ||| (p.1.selectStatic t none none).2)
    else p) (db, 0)

/-- `DatabaseHandle::select` for one header; returns the IIN2 bits it contributes -/
def Db.select (db : Db) (h : ReadHdr) : Db × Nat :=
  match h.classify with
  | .class0 => db.selectClass0
  | .evClass c limit =>
    ({ db with events := (selectEvents (fun r => r.cls == c) none limit db.events).1 }, 0)
  | .evType t var limit =>
    -- `select_specific_variation` goes through `T::select_variation`, `select_default_variation`
    -- through `T::is_type`
    let row := Gen.DbT.insertable (Gen.DbT.eventHdrTy t)
    let want := if var.isSome then row.select else row.isType
    ({ db with events := (selectEvents (fun r => r.ty == want) var limit db.events).1 }, 0)
  | .evNothing => (db, 0)
  | .stType t var range => db.selectStatic (Gen.DbT.staticHdrTy t) var range
  | .stDeadband var range =>
    match (match range with | some r => some r | none => fullRange db.maps.analog) with
    | none => (db, 0)
    | some (a, b) => db.pushSel { kind := .deadband var, start := a, stop := b }
  | .stNothing => (db, 0)
  | .attrAll var =>
    -- 254 / 255: one selection per defined set — there is none
    if var = 254 ∨ var = 255 then (db, 0) else (db, IIN2_PARAMETER_ERROR)
  | .attrSpecific var a b =>
    if a ≠ b ∨ a > 255 then (db, IIN2_PARAMETER_ERROR)
    else if var = 254 ∨ var = 255 then
      (if db.attrSel < 32 then ({ db with attrSel := db.attrSel + 1 }, 0) else (db, IIN2_PARAMETER_ERROR))
    else (db, IIN2_NO_FUNC_CODE_SUPPORT)     -- `map.exists(set, var)` is false
  | .noFunc => (db, IIN2_NO_FUNC_CODE_SUPPORT)
  | .parseError => (db, IIN2_NO_FUNC_CODE_SUPPORT)
  | .uncovered => (db, IIN2_NO_FUNC_CODE_SUPPORT)

/-- does `ReadHeader::get` return `Some` for this (parsed) header — i.e. is it supported in READ
    requests, independent of the database contents.  `Db.select` contributes
    NO_FUNC_CODE_SUPPORT (0x01) when this is false; the only other source of that bit is a g0
    header for one specific attribute that is not defined (`attrSpecific` with a variation other
    than 254 / 255), which `ReadHeader::get` accepts and `AttrHandler::select` answers with 0x01. -/
def Db.readSupported (h : ReadHdr) : Bool :=
  match h.classify with
  | .noFunc | .parseError | .uncovered => false
  | _ => true

/-! ## response writing -/

/-- `write_response_headers` into a cursor with `cap` octets left:
    (octets written, has_events, complete) -/
def Db.writeResponse (db : Db) (cap : Nat) : Db × List Nat × Bool × Bool :=
  let (db1, w, evComplete) := db.writeEvents cap
  let evBytes := encodeEvents none w
  if evComplete then
    let (ws, q, _) := qLoop db1 cap db1.queue evBytes.length
    -- `attrs.write` runs only when the static data is complete; with no attribute defined it
    -- writes nothing, drains its selection and reports completion
    ({ db1 with queue := q, attrSel := if q.isEmpty then 0 else db1.attrSel },
     evBytes ++ ws.flatMap (encodeStatic none), !w.isEmpty, q.isEmpty)
  else
    (db1, evBytes, !w.isEmpty, false)

/-- `Database::reset` -/
def Db.reset (db : Db) : Db :=
  { db with queue := [], attrSel := 0, events := db.events.map (fun r => { r with st := .unselected }), written := {} }

/-- `DatabaseHandle::write_unsolicited` (reset, select classes, write events only):
    (octets written, number of events) -/
def Db.writeUnsolicited (db : Db) (c1 c2 c3 : Bool) (cap : Nat) : Db × List Nat × Nat :=
  let db0 := db.reset
  let (evs, n) := selectEvents (fun r => (c1 && r.cls == 1) || (c2 && r.cls == 2) || (c3 && r.cls == 3)) none none db0.events
  let db1 := { db0 with events := evs }
  if n = 0 then (db1, [], 0)
  else
    let (db2, w, _) := db1.writeEvents cap
    (db2, encodeEvents none w, w.length)

/-- `is_full::<T>`: `T::get_max` non-zero and reached by `T::get_type_count` -/
def Db.isFull (db : Db) (t : PtType) : Bool :=
  db.evCfg.get (Gen.DbT.insertable t).max != 0 &&
    decide (db.total.ty (Gen.DbT.insertable t).count ≥ db.evCfg.get (Gen.DbT.insertable t).max)

/-- `is_any_full`: the `||` of `is_full::<T>` over the types the source lists -/
def Db.isAnyFull (db : Db) : Bool := Gen.DbT.isAnyFull.any db.isFull

/-- `clear_written_events`: released ids in order, remaining per-class totals -/
def Db.clearWritten (db : Db) : Db × List Nat × (Nat × Nat × Nat) :=
  let gone := db.events.filter (fun r => r.st == .written)
  let total := gone.foldl Counters.dec db.total
  let db1 := { db with events := db.events.filter (fun r => r.st != .written), total := total, written := {} }
  let db2 := if db1.isAnyFull then db1 else { db1 with overflown := false }
  (db2, gone.map (·.id), (total.c1, total.c2, total.c3))

/-- `unwritten_classes`; `none` = the checked subtraction panics (dev build) -/
def Db.unwrittenClasses (db : Db) : Option (Bool × Bool × Bool) :=
  if db.written.c1 > db.total.c1 ∨ db.written.c2 > db.total.c2 ∨ db.written.c3 > db.total.c3 then none
  else some (decide (db.total.c1 - db.written.c1 > 0), decide (db.total.c2 - db.written.c2 > 0),
             decide (db.total.c3 - db.written.c3 > 0))

def Db.isOverflown (db : Db) : Bool := db.overflown

/-! ## READ object-header octets → `ReadHdr` list (sizes by qualifier only; validity is
`ReadHdr.classify`) -/

namespace DbM
/-- `none` = truncated or a qualifier octet the parser does not know -/
def parseReadHdrs (fuel : Nat) (bs : List Nat) : Option (List ReadHdr) :=
  match fuel, bs with
  | _, [] => some []
  | 0, _ => none
  | fuel + 1, g :: v :: q :: rest =>
    if q = 0x06 then (parseReadHdrs fuel rest).map ({ group := g, var := v, qual := q } :: ·)
    else if q = 0x00 then
      match rest with
      | a :: b :: rest' => (parseReadHdrs fuel rest').map ({ group := g, var := v, qual := q, a := a, b := b } :: ·)
      | _ => none
    else if q = 0x01 then
      match rest with
      | a0 :: a1 :: b0 :: b1 :: rest' =>
        (parseReadHdrs fuel rest').map ({ group := g, var := v, qual := q, a := a0 + 256 * a1, b := b0 + 256 * b1 } :: ·)
      | _ => none
    else if q = 0x07 then
      match rest with
      | a :: rest' =>
        let n := a * countDataSize g v
        if rest'.length < n then none
        else (parseReadHdrs fuel (rest'.drop n)).map ({ group := g, var := v, qual := q, a := a } :: ·)
      | _ => none
    else if q = 0x08 then
      match rest with
      | a0 :: a1 :: rest' =>
        let n := (a0 + 256 * a1) * countDataSize g v
        if rest'.length < n then none
        else (parseReadHdrs fuel (rest'.drop n)).map ({ group := g, var := v, qual := q, a := a0 + 256 * a1 } :: ·)
      | _ => none
    else none
  | _, _ => none

end DbM
end Dnp3
