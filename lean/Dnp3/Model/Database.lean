/-!
# Outstation database — INTERFACE used by the session model (`Dnp3.Model.Outstation`)

Model of `outstation/database/**` (event buffer, static database, response writing) for the
point types the session engine configures: binary inputs (static g1v2, events g2v1) and analog
inputs (static g30v1, events g32v1).  THIS FILE IS A STUB (empty database) until the full model
lands; the signatures are the contract.
-/
namespace Dnp3

inductive PtType where | binary | analog
deriving DecidableEq, Repr, Inhabited

/-- one object header of a READ request: `a`,`b` = start,stop for qualifiers 0x00/0x01,
    `a` = count for 0x07/0x08, unused for 0x06 -/
structure ReadHdr where
  group : Nat
  var : Nat
  qual : Nat
  a : Nat := 0
  b : Nat := 0
deriving DecidableEq, Repr, Inhabited

inductive UpdInfo where
  | noPoint | noEvent | created (id : Nat) | overflow (created discarded : Nat)
deriving DecidableEq, Repr, Inhabited

structure Db where
  evMax : Nat := 0
deriving Repr, Inhabited

def Db.new (evMax : Nat) (_maxReadSel : Option Nat) : Db := { evMax := evMax }

/-- `Database::add` (class 0 = no event class) -/
def Db.add (db : Db) (_t : PtType) (_idx _cls : Nat) : Db × Bool := (db, false)

/-- `Database::update2` with `UpdateOptions::detect_event()` -/
def Db.update (db : Db) (_t : PtType) (_idx : Nat) (_value : Int) (_flags _time : Nat) : Db × UpdInfo :=
  (db, .noPoint)

/-- `ReadHeader::get` returns `Some` (the header is supported in READ requests) -/
def Db.readSupported (_h : ReadHdr) : Bool := true

/-- `DatabaseHandle::select` for one header; returns the IIN2 bits it contributes -/
def Db.select (db : Db) (_h : ReadHdr) : Db × Nat := (db, 0)

/-- `write_response_headers` into a cursor with `cap` octets left:
    (octets written, has_events, complete) -/
def Db.writeResponse (db : Db) (_cap : Nat) : Db × List Nat × Bool × Bool := (db, [], false, true)

/-- `DatabaseHandle::write_unsolicited` (reset, select classes, write events only):
    (octets written, number of events) -/
def Db.writeUnsolicited (db : Db) (_c1 _c2 _c3 : Bool) (_cap : Nat) : Db × List Nat × Nat := (db, [], 0)

/-- `clear_written_events`: released ids in order, remaining per-class totals -/
def Db.clearWritten (db : Db) : Db × List Nat × (Nat × Nat × Nat) := (db, [], (0, 0, 0))

/-- `Database::reset` -/
def Db.reset (db : Db) : Db := db

/-- `unwritten_classes`; `none` = the checked subtraction panics (dev build) -/
def Db.unwrittenClasses (_db : Db) : Option (Bool × Bool × Bool) := some (false, false, false)

def Db.isOverflown (_db : Db) : Bool := false

end Dnp3
