import Dnp3.Model.Crc
/-!
# Link frame encoding — model of `dnp3/src/link/format.rs` (`format_frame`)

A frame image is `05 64 LEN CTRL DST(le) SRC(le) CRC(le)` followed by the payload in blocks of
at most 16 octets, each followed by its CRC.  `payload` here is the *link* payload (transport
octet + application data), 0..=250 octets; `format_frame` builds it from `Payload{transport,
app_data}` with `app_data.len() ≤ 249`, or nothing at all for a header-only frame.
-/
namespace Dnp3

structure LHeader where
  ctrl : Nat   -- raw control octet
  dst  : Nat   -- u16
  src  : Nat   -- u16
deriving DecidableEq, Repr, Inhabited

/-- split into blocks of at most 16 octets (`chunks(16)`); recursion on fuel = length -/
def chunks16 : Nat → List Nat → List (List Nat)
  | 0, _ => []
  | _, [] => []
  | fuel+1, bs => bs.take 16 :: chunks16 fuel (bs.drop 16)

def blocks (bs : List Nat) : List (List Nat) := chunks16 bs.length bs

def encodeBlock (b : List Nat) : List Nat := b ++ le16 (calcCrc b)

def encodeBody (payload : List Nat) : List Nat := (blocks payload).flatMap encodeBlock

def headerFields (h : LHeader) (len : Nat) : List Nat :=
  [len, h.ctrl] ++ le16 h.dst ++ le16 h.src

/-- `format_frame` for a link payload of `payload.length ≤ 250` octets -/
def encodeFrame (h : LHeader) (payload : List Nat) : List Nat :=
  let hf := headerFields h (payload.length + 5)
  [0x05, 0x64] ++ hf ++ le16 (calcCrc0564 hf) ++ encodeBody payload

/-- `format_data_frame(header, Payload::new(transport, app))`: `None` = `Err(BadWrite)` -/
def formatDataFrame (h : LHeader) (transport : Nat) (app : List Nat) : Option (List Nat) :=
  if app.length > 249 then none else some (encodeFrame h (transport :: app))

/-- `format_header_only` -/
def formatHeaderOnly (h : LHeader) : List Nat := encodeFrame h []

end Dnp3
