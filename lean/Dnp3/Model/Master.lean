import Dnp3.Model.AppRequest
/-!
# Master session — model of `dnp3/src/master/{task,association,poll}.rs`, `tasks/*.rs`,
`request.rs::compare`, `app/retry.rs`

The async control flow of `MasterSession::run` (`next_task` → `run_task` / `idle_until` /
`idle_forever`, the three response-wait loops) is flattened into an explicit mode.  Inputs are:
one reassembled application fragment, a link-layer status frame, a clock advance, a message
from a handle (user request, poll management, association management, enable / disable),
loss of the connection, a new connection, closure of the message channel.  Time is
`now : Nat` in ms.  `get_current_time` is scripted (`clock`).

Response objects are parsed for a fixed vocabulary (`respVarInfo`): g1v2, g2v1, g2v2, g30v1,
g32v1, g12v1, g41v1-4, g50v1, g51v1/2, g52v1/2; anything else is an object parse error.
-/
namespace Dnp3.Master

-- ------------------------------------------------------------------------------------------
-- configuration
-- ------------------------------------------------------------------------------------------

inductive TsProc where | lan | nonlan | direct
deriving DecidableEq, Repr, Inhabited

/-- `AssociationConfig`; class sets are bit masks: class1 = 1, class2 = 2, class3 = 4, class0 = 8 -/
structure ACfg where
  rto : Nat := 5000
  dis : Nat := 7
  int : Nat := 15
  en : Nat := 7
  ts : Option TsProc := none
  ovf : Bool := true
  evscan : Nat := 0
  ka : Option Nat := none
  rmin : Nat := 1000
  rmax : Nat := 10000
  maxq : Nat := 16
deriving DecidableEq, Repr, Inhabited

-- ------------------------------------------------------------------------------------------
-- back-off and automatic task states (`app/retry.rs`, `AutoTaskState`, `TaskStates`)
-- ------------------------------------------------------------------------------------------

/-- `ExponentialBackOff::on_failure`: the delay it returns (and stores in `last`) -/
def Backoff.onFailure (rmin rmax : Nat) (last : Option Nat) : Nat :=
  match last with
  | none => rmin
  | some x => min (2 * x) rmax

inductive AutoState where
  | idle
  | pending
  | failed (last : Nat) (notBefore : Nat)
deriving DecidableEq, Repr, Inhabited

def AutoState.isIdle : AutoState → Bool
  | .idle => true
  | _ => false

/-- `AutoTaskState::failure` -/
def AutoState.failure (cfg : ACfg) (now : Nat) : AutoState → AutoState
  | .failed last _ => let d := Backoff.onFailure cfg.rmin cfg.rmax (some last); .failed d (now + d)
  | _ => let d := Backoff.onFailure cfg.rmin cfg.rmax none; .failed d (now + d)

/-- `AutoTaskState::demand` -/
def AutoState.demand : AutoState → AutoState
  | .idle => .pending
  | s => s

inductive Next (α : Type) where
  | none
  | now (a : α)
  | notBefore (t : Nat)
deriving Repr, Inhabited, DecidableEq

/-- `AutoTaskState::create_next_task` -/
def AutoState.createNext {α : Type} (st : AutoState) (now : Nat) (x : α) : Next α :=
  match st with
  | .idle => .none
  | .pending => .now x
  | .failed _ nb => if now ≥ nb then .now x else .notBefore nb

structure TaskStates where
  disable : AutoState := .pending
  integrity : AutoState := .pending
  enable : AutoState := .pending
  clearRestart : AutoState := .idle
  timeSync : AutoState := .idle
  eventScan : AutoState := .idle
deriving DecidableEq, Repr, Inhabited

inductive AutoChoice where
  | clearRestart
  | disableUnsol
  | integrity
  | timeSync (p : TsProc)
  | enableUnsol
  | eventScan (classes : Nat)
deriving DecidableEq, Repr, Inhabited

/-- `TaskStates::next` -/
def TaskStates.next (t : TaskStates) (cfg : ACfg) (evAvail : Nat) (now : Nat) : Next AutoChoice :=
  if !t.clearRestart.isIdle then t.clearRestart.createNext now .clearRestart
  else if cfg.dis ≠ 0 ∧ !t.disable.isIdle then t.disable.createNext now .disableUnsol
  else if cfg.int ≠ 0 ∧ !t.integrity.isIdle then t.integrity.createNext now .integrity
  else
    match (if !t.timeSync.isIdle then cfg.ts else none) with
    | some p => t.timeSync.createNext now (.timeSync p)
    | none =>
      if cfg.en ≠ 0 ∧ !t.enable.isIdle then t.enable.createNext now .enableUnsol
      else
        let ev := evAvail &&& cfg.evscan
        if ev ≠ 0 then t.eventScan.createNext now (.eventScan ev) else .none

-- ------------------------------------------------------------------------------------------
-- polls (`poll.rs`)
-- ------------------------------------------------------------------------------------------

structure Poll where
  id : Nat
  classes : Nat
  period : Nat
  next : Nat
deriving DecidableEq, Repr, Inhabited

def earliest (a : Option Nat) (t : Nat) : Option Nat :=
  match a with
  | none => some t
  | some x => some (min x t)

/-- `PollMap::next`: the first ready poll in id order, else the earliest `next` -/
def PollMap.next (polls : List Poll) (now : Nat) : Next Poll :=
  match polls.find? (fun p => p.next ≤ now) with
  | some p => .now p
  | none =>
    match polls.foldl (fun e p => earliest e p.next) none with
    | some t => .notBefore t
    | none => .none

-- ------------------------------------------------------------------------------------------
-- tasks
-- ------------------------------------------------------------------------------------------

inductive ReadTask where
  | poll (id : Nat) (classes : Nat)
  | integrity (classes : Nat)
  | eventScan (classes : Nat)
  | single (uid : Nat) (classes : Nat) (custom : Bool)
deriving DecidableEq, Repr, Inhabited

inductive AutoKind where | clearRestart | enableUnsol | disableUnsol
deriving DecidableEq, Repr, Inhabited

inductive CmdState where | select | operate | direct
deriving DecidableEq, Repr, Inhabited

inductive TsState where
  | measureDelay (t : Option Nat)
  | writeAbs (t : Option Nat)
  | recordCurrent (t : Option Nat)
  | writeLast (t : Nat)
deriving DecidableEq, Repr, Inhabited

inductive NonReadTask where
  | auto (k : AutoKind) (classes : Nat)
  | command (uid : Nat) (st : CmdState) (objs : List Nat)
  | timeSync (uid : Option Nat) (st : TsState)
  | restart (uid : Nat) (cold : Bool)
  | deadband (uid : Nat) (objs : List Nat)
deriving DecidableEq, Repr, Inhabited

inductive Task where
  | read (t : ReadTask)
  | nonRead (t : NonReadTask)
  | linkStatus (uid : Option Nat)
deriving DecidableEq, Repr, Inhabited

inductive TaskErr where
  | tooManyRequests | link | transport
  | rejectedIin2 (iin1 iin2 : Nat)
  | malformed | unexpectedHeaders | nonFinWithoutCon | neverFir | unexpectedFir | multiFragment
  | timeout | writeError | noAssociation | noConnection | shutdown | disabled
deriving DecidableEq, Repr, Inhabited

/-- what a user request's future resolves to -/
inductive Outcome where
  | ok
  | okDelay (ms : Nat)
  | task (e : TaskErr)
  | cmdBadStatus (s : Nat) | cmdHeaderCount | cmdHeaderType | cmdObjectCount | cmdObjectValue
  | tsNoSystemTime | tsBadDelay (d : Nat) | tsOverflow | tsStillNeedsTime
deriving DecidableEq, Repr, Inhabited

inductive TaskType where
  | userRead | periodicPoll | startupIntegrity | autoEventScan | command | clearRestartBit
  | enableUnsolicited | disableUnsolicited | timeSync | restart | writeDeadBands
deriving DecidableEq, Repr, Inhabited

inductive ReadType where | integrity | unsolicited | single | poll
deriving DecidableEq, Repr, Inhabited

inductive Who where
  | assoc (addr : Nat)
  | custom (uid : Nat)
deriving DecidableEq, Repr, Inhabited

/-- structured observable outputs, in program order -/
inductive MOut where
  | tx (dst : Nat) (bytes : List Nat)
  | txLink (ctrl dst src : Nat)
  | taskStart (addr : Nat) (t : TaskType) (fc seq : Nat)
  | taskSuccess (addr : Nat) (t : TaskType) (fc seq : Nat)
  | taskFail (addr : Nat) (t : TaskType) (e : TaskErr)
  | unsol (addr : Nat) (dup : Bool) (seq : Nat)
  | deliverBegin (who : Who) (rt : ReadType) (ctrl iin1 iin2 : Nat)
  /-- one `handle_*` call: group, variation, qualifier and the items (index, object octets) -/
  | deliverHdr (who : Who) (g v q : Nat) (items : List (Nat × List Nat))
  | deliverAbsTime (who : Who) (t : Nat)
  | deliverEnd (who : Who) (rt : ReadType)
  | complete (uid : Nat) (o : Outcome)
  | session (reason : String)
  | taskExit
  | line (s : String)
  | modelFuelExhausted
deriving DecidableEq, Repr, Inhabited

-- ------------------------------------------------------------------------------------------
-- response parsing (restricted vocabulary)
-- ------------------------------------------------------------------------------------------

def u16le (d : List Nat) : Nat := d.getD 0 0 + 256 * d.getD 1 0
def u32le (d : List Nat) : Nat := d.getD 0 0 + 256 * d.getD 1 0 + 65536 * d.getD 2 0 + 16777216 * d.getD 3 0
def u48le (d : List Nat) : Nat :=
  d.getD 0 0 + 256 * d.getD 1 0 + 65536 * d.getD 2 0 + 16777216 * d.getD 3 0 +
  4294967296 * d.getD 4 0 + 1099511627776 * d.getD 5 0
def le16 (n : Nat) : List Nat := [n % 256, n / 256 % 256]
def le48 (n : Nat) : List Nat :=
  [n % 256, n / 256 % 256, n / 65536 % 256, n / 16777216 % 256, n / 4294967296 % 256, n / 1099511627776 % 256]

/-- (ranged size, prefixed size, count size) of the response vocabulary -/
structure RVar where
  ranged : Option Nat := none
  prefixed : Option Nat := none
  count : Option Nat := none
deriving Repr, Inhabited

def respVarInfo (g v : Nat) : Option RVar :=
  match g, v with
  | 1, 2 => some { ranged := some 1 }
  | 2, 1 => some { prefixed := some 1 }
  | 2, 2 => some { prefixed := some 7 }
  | 30, 1 => some { ranged := some 5 }
  | 32, 1 => some { prefixed := some 5 }
  | 12, 1 => some { prefixed := some 11 }
  | 41, 1 => some { prefixed := some 5 }
  | 41, 2 => some { prefixed := some 3 }
  | 41, 3 => some { prefixed := some 5 }
  | 41, 4 => some { prefixed := some 9 }
  | 50, 1 => some { count := some 6 }
  | 51, 1 => some { count := some 6 }
  | 51, 2 => some { count := some 6 }
  | 52, 1 => some { count := some 2 }
  | 52, 2 => some { count := some 2 }
  | _, _ => none

/-- `ObjectParser` over the vocabulary; `none` = `ObjectParseError` -/
def parseRespObjects : Nat → List Nat → Option (List ObjHdr)
  | 0, _ => some []
  | _, [] => some []
  | fuel+1, g :: v :: q :: rest =>
    match respVarInfo g v with
    | none => none
    | some info =>
      let cont (h : ObjHdr) (rest' : List Nat) : Option (List ObjHdr) :=
        match parseRespObjects fuel rest' with
        | some hs => some (h :: hs)
        | none => none
      let ranged (start stop : Nat) (r : List Nat) : Option (List ObjHdr) :=
        if stop < start then none else
        match info.ranged with
        | none => none
        | some k =>
          let len := k * (stop - start + 1)
          if r.length < len then none else cont ⟨g, v, q, start, stop, r.take len⟩ (r.drop len)
      let counted (n : Nat) (r : List Nat) : Option (List ObjHdr) :=
        match info.count with
        | none => none
        | some k =>
          let len := k * n
          if r.length < len then none else cont ⟨g, v, q, n, 0, r.take len⟩ (r.drop len)
      let prefixed (isz n : Nat) (r : List Nat) : Option (List ObjHdr) :=
        match info.prefixed with
        | none => none
        | some k =>
          let len := (isz + k) * n
          if r.length < len then none else cont ⟨g, v, q, n, 0, r.take len⟩ (r.drop len)
      if q = 0x00 then
        match rest with
        | s :: e :: r => ranged s e r
        | _ => none
      else if q = 0x01 then
        match rest with
        | s0 :: s1 :: e0 :: e1 :: r => ranged (rdU16 s0 s1) (rdU16 e0 e1) r
        | _ => none
      else if q = 0x07 then
        match rest with
        | c :: r => counted c r
        | _ => none
      else if q = 0x08 then
        match rest with
        | c0 :: c1 :: r => counted (rdU16 c0 c1) r
        | _ => none
      else if q = 0x17 then
        match rest with
        | c :: r => prefixed 1 c r
        | _ => none
      else if q = 0x28 then
        match rest with
        | c0 :: c1 :: r => prefixed 2 (rdU16 c0 c1) r
        | _ => none
      else none
  | _+1, _ => none

structure Resp where
  ctrl : AppCtrl
  unsol : Bool
  iin1 : Nat
  iin2 : Nat
  raw : List Nat
  objects : Option (List ObjHdr)
deriving Repr, Inhabited

/-- `ParsedFragment::parse` + `to_response`; `none` = `TransportResponse::Error` -/
def parseResponse (frag : List Nat) : Option Resp :=
  match frag with
  | c :: f :: i1 :: i2 :: objs =>
    let ctrl := AppCtrl.ofNat c
    if f = 129 then
      if ctrl.uns then none
      else some ⟨ctrl, false, i1, i2, objs, parseRespObjects objs.length objs⟩
    else if f = 130 then
      if !ctrl.uns then none
      else if !(ctrl.fir && ctrl.fin) then none
      else some ⟨ctrl, true, i1, i2, objs, parseRespObjects objs.length objs⟩
    else none
  | _ => none

/-- `Iin::has_bad_request_error` -/
def badIin2 (iin2 : Nat) : Bool := iin2 &&& 0x07 ≠ 0

-- ------------------------------------------------------------------------------------------
-- pure decision functions of `task.rs`
-- ------------------------------------------------------------------------------------------

inductive NonReadVerdict where
  | unsolicited
  | ignore
  | fail (e : TaskErr)
  | accept
deriving DecidableEq, Repr, Inhabited

/-- `validate_non_read_response` -/
def validateNonRead (dest seq src : Nat) (r : Resp) : NonReadVerdict :=
  if r.unsol then .unsolicited
  else if src ≠ dest then .ignore
  else if r.ctrl.seq ≠ seq then .ignore
  else if !(r.ctrl.fir && r.ctrl.fin) then .fail .multiFragment
  else if badIin2 r.iin2 then .fail (.rejectedIin2 r.iin1 r.iin2)
  else .accept

inductive ReadVerdict where
  | unsolicited
  | ignore
  /-- `iinProcessed`: `process_iin` ran before the error was detected -/
  | fail (e : TaskErr) (iinProcessed : Bool)
  | accept (confirm : Bool) (final : Bool)
deriving DecidableEq, Repr, Inhabited

/-- `process_read_response` (decision part) -/
def processReadResponse (dest seq : Nat) (isFirst : Bool) (assocExists : Bool) (src : Nat) (r : Resp) : ReadVerdict :=
  if r.unsol then .unsolicited
  else if src ≠ dest then .ignore
  else if r.ctrl.seq ≠ seq then .ignore
  else if r.ctrl.fir && !isFirst then .fail .unexpectedFir false
  else if !r.ctrl.fir && isFirst then .fail .neverFir false
  else if !r.ctrl.fin && !r.ctrl.con then .fail .nonFinWithoutCon false
  else if badIin2 r.iin2 then .fail (.rejectedIin2 r.iin1 r.iin2) false
  else if !assocExists then .fail .noAssociation false
  else if r.objects.isNone then .fail .malformed true
  else .accept r.ctrl.con r.ctrl.fin

/-- `LastUnsolFragment`: header (control, IIN) and the raw objects (stands for their xxh64) -/
structure UnsolKey where
  ctrl : Nat
  iin1 : Nat
  iin2 : Nat
  raw : List Nat
deriving DecidableEq, Repr, Inhabited

def Resp.key (r : Resp) : UnsolKey := ⟨r.ctrl.toNat, r.iin1, r.iin2, r.raw⟩

structure UnsolDecision where
  /-- `handle_unsolicited_response` returned true -/
  valid : Bool
  duplicate : Bool
  deliver : Bool
  confirm : Bool
deriving DecidableEq, Repr, Inhabited

/-- `Association::handle_unsolicited_response` + the confirm rule of `handle_unsolicited`.
    A fragment whose objects do not parse is ignored before anything else happens (it is not
    remembered as the last fragment, not reported, not confirmed). -/
def handleUnsolicited (integrityComplete : Bool) (last : Option UnsolKey) (r : Resp) : UnsolDecision :=
  if integrityComplete || r.raw.isEmpty then
    if r.objects.isNone then ⟨false, false, false, false⟩
    else if last = some r.key then ⟨true, true, false, r.ctrl.con⟩
    else ⟨true, false, true, r.ctrl.con⟩
  else ⟨false, false, false, false⟩

-- ------------------------------------------------------------------------------------------
-- command echo comparison (`request.rs`)
-- ------------------------------------------------------------------------------------------

inductive CmdErr where
  | badStatus (s : Nat) | headerCount | headerType | objectCount | objectValue
deriving DecidableEq, Repr, Inhabited

def ctlObjSize (g v : Nat) : Option Nat :=
  match g, v with
  | 12, 1 => some 11
  | 41, 1 => some 5
  | 41, 2 => some 3
  | 41, 3 => some 5
  | 41, 4 => some 9
  | _, _ => none

/-- items (index octets ++ object octets) of a prefixed header -/
def splitItems (sz : Nat) : Nat → List Nat → List (List Nat)
  | 0, _ => []
  | n+1, d => d.take sz :: splitItems sz n (d.drop sz)

def hdrItems (h : ObjHdr) : List (List Nat) :=
  let isz := if h.qual = 0x17 then 1 else 2
  match ctlObjSize h.group h.var with
  | some k => splitItems (isz + k) h.a h.data
  | none => []

/-- `CommandHeader::compare_items`: status octet is the last octet of the object -/
def compareItems : List (List Nat) → List (List Nat) → Option CmdErr
  | [], [] => none
  | [], _ :: _ => some .objectCount
  | _ :: _, [] => some .objectCount
  | s :: ss, r :: rs =>
    let st := r.getLastD 0
    if st ≠ 0 then some (.badStatus st)
    else if r ≠ s then some .objectValue
    else compareItems ss rs

/-- `CommandHeader::compare` -/
def compareHeader (sent recv : ObjHdr) : Option CmdErr :=
  if (sent.qual = 0x17 ∨ sent.qual = 0x28) ∧ recv.qual = sent.qual ∧ recv.group = sent.group ∧ recv.var = sent.var
      ∧ (ctlObjSize sent.group sent.var).isSome then
    compareItems (hdrItems sent) (hdrItems recv)
  else some .headerType

/-- `CommandHeaders::compare`: `none` = Ok -/
def CommandHeaders.compare : List ObjHdr → List ObjHdr → Option CmdErr
  | [], [] => none
  | [], _ :: _ => some .headerCount
  | _ :: _, [] => some .headerCount
  | s :: ss, r :: rs =>
    match compareHeader s r with
    | some e => some e
    | none => CommandHeaders.compare ss rs

-- ------------------------------------------------------------------------------------------
-- associations
-- ------------------------------------------------------------------------------------------

structure Assoc where
  addr : Nat
  cfg : ACfg
  seq : Nat := 0
  lastUnsol : Option UnsolKey := none
  queue : List Task := []
  auto : TaskStates := {}
  polls : List Poll := []
  pollId : Nat := 0
  nextLinkStatus : Option Nat := none
  integrityDone : Bool := false
  evAvail : Nat := 0
deriving Repr, Inhabited

def Assoc.new (addr : Nat) (cfg : ACfg) (now : Nat) : Assoc :=
  { addr := addr, cfg := cfg, nextLinkStatus := cfg.ka.map (now + ·) }

def Assoc.isIntegrityComplete (a : Assoc) : Bool := a.cfg.int = 0 || a.integrityDone

/-- `on_link_activity` -/
def Assoc.onLinkActivity (a : Assoc) (now : Nat) : Assoc :=
  { a with nextLinkStatus := a.cfg.ka.map (now + ·) }

/-- `on_restart_iin_observed` -/
def Assoc.onRestartObserved (a : Assoc) : Assoc :=
  if a.auto.clearRestart.isIdle then
    { a with auto := { a.auto with clearRestart := a.auto.clearRestart.demand,
                                   integrity := a.auto.integrity.demand,
                                   enable := a.auto.enable.demand },
             integrityDone := false }
  else a

/-- `on_need_time_observed` -/
def Assoc.onNeedTime (a : Assoc) : Assoc := { a with auto := { a.auto with timeSync := a.auto.timeSync.demand } }

/-- `on_event_buffer_overflow_observed` -/
def Assoc.onOverflow (a : Assoc) : Assoc :=
  if a.cfg.ovf then { a with auto := { a.auto with integrity := a.auto.integrity.demand } } else a

/-- the events-available part of `process_iin` -/
def Assoc.setEvents (a : Assoc) (ev : Nat) : Assoc :=
  let a := { a with evAvail := ev }
  if ev &&& a.cfg.evscan ≠ 0 then { a with auto := { a.auto with eventScan := a.auto.eventScan.demand } } else a

/-- `process_iin` -/
def Assoc.processIin (a : Assoc) (iin1 iin2 : Nat) : Assoc :=
  let a := if iin1 &&& 0x80 ≠ 0 then a.onRestartObserved else a
  let a := if iin1 &&& 0x10 ≠ 0 then a.onNeedTime else a
  let a := if iin2 &&& 0x08 ≠ 0 then a.onOverflow else a
  a.setEvents ((iin1 >>> 1) &&& 0x07)

/-- `next_link_status_task` -/
def Assoc.nextLinkStatus? (a : Assoc) (now : Nat) : Next Task :=
  match a.nextLinkStatus with
  | none => .none
  | some t => if now ≥ t then .now (.linkStatus none) else .notBefore t

def AutoChoice.toTask (cfg : ACfg) : AutoChoice → Task
  | .clearRestart => .nonRead (.auto .clearRestart 0)
  | .disableUnsol => .nonRead (.auto .disableUnsol cfg.dis)
  | .integrity => .read (.integrity cfg.int)
  | .timeSync p => .nonRead (.timeSync none (match p with
      | .lan => .recordCurrent none | .nonlan => .measureDelay none | .direct => .writeAbs none))
  | .enableUnsol => .nonRead (.auto .enableUnsol cfg.en)
  | .eventScan c => .read (.eventScan c)

/-- `Association::get_next_task` -/
def Assoc.getNextTask (a : Assoc) (now : Nat) : Next Task :=
  match a.auto.next a.cfg a.evAvail now with
  | .now c => .now (c.toTask a.cfg)
  | .notBefore t => .notBefore t
  | .none =>
    match PollMap.next a.polls now with
    | .now p => .now (.read (.poll p.id p.classes))
    | .notBefore tp =>
      match a.nextLinkStatus? now with
      | .none => .notBefore tp
      | .now x => .now x
      | .notBefore tl => .notBefore (min tp tl)
    | .none => a.nextLinkStatus? now

/-- `PollMap::complete` -/
def Assoc.completePoll (a : Assoc) (id now : Nat) : Assoc :=
  { a with polls := a.polls.map fun p => if p.id = id then { p with next := now + p.period } else p }

-- ------------------------------------------------------------------------------------------
-- session state
-- ------------------------------------------------------------------------------------------

inductive Mode where
  /-- `idle_until t` / `idle_forever` -/
  | idle (wake : Option Nat)
  | waitRead (dest : Nat) (task : ReadTask) (seq : Nat) (isFirst : Bool) (deadline : Nat)
  | waitNonRead (dest : Nat) (task : NonReadTask) (seq : Nat) (fc0 : Nat) (deadline : Nat)
  | waitLink (dest : Nat) (uid : Option Nat) (deadline : Nat)
  /-- no session: disabled, or waiting for a connection -/
  | offline
  | exited
deriving Repr, Inhabited

structure MState where
  txSize : Nat := 2048
  now : Nat := 0
  clock : Option Nat := none
  /-- the `BTreeMap`, sorted by address -/
  assocs : List Assoc := []
  /-- the priority deque -/
  ring : List Nat := []
  mode : Mode := .offline
  enabled : Bool := true
  /-- user requests whose future has not resolved yet (each holds a clone of the channel sender) -/
  live : Nat := 0
  /-- every other handle was dropped -/
  shutdownReq : Bool := false
deriving Repr, Inhabited

abbrev Acc := MState × List MOut

def emit (a : Acc) (o : MOut) : Acc := (a.1, a.2 ++ [o])

def MState.getAssoc (s : MState) (addr : Nat) : Option Assoc := s.assocs.find? (·.addr = addr)

def MState.setAssoc (s : MState) (x : Assoc) : MState :=
  { s with assocs := s.assocs.map fun y => if y.addr = x.addr then x else y }

def modAssoc (a : Acc) (addr : Nat) (f : Assoc → Assoc) : Acc :=
  ({ a.1 with assocs := a.1.assocs.map fun y => if y.addr = addr then f y else y }, a.2)

def insertSorted (x : Assoc) : List Assoc → List Assoc
  | [] => [x]
  | y :: ys => if x.addr < y.addr then x :: y :: ys else y :: insertSorted x ys

/-- a user request's future resolves -/
def complete (a : Acc) (uid : Nat) (o : Outcome) : Acc :=
  emit ({ a.1 with live := a.1.live - 1 }, a.2) (.complete uid o)

-- ------------------------------------------------------------------------------------------
-- request formatting
-- ------------------------------------------------------------------------------------------

def eventClassHeaders (c : Nat) : List Nat :=
  (if c &&& 1 ≠ 0 then [0x3c, 0x02, 0x06] else []) ++ (if c &&& 2 ≠ 0 then [0x3c, 0x03, 0x06] else []) ++
  (if c &&& 4 ≠ 0 then [0x3c, 0x04, 0x06] else [])

/-- `Classes::write`: events first, class 0 last -/
def classHeaders (c : Nat) : List Nat :=
  eventClassHeaders c ++ (if c &&& 8 ≠ 0 then [0x3c, 0x01, 0x06] else [])

def ReadTask.classes : ReadTask → Nat
  | .poll _ c => c
  | .integrity c => c
  | .eventScan c => c
  | .single _ c _ => c

def ReadTask.taskType : ReadTask → TaskType
  | .poll .. => .periodicPoll
  | .integrity _ => .startupIntegrity
  | .eventScan _ => .autoEventScan
  | .single .. => .userRead

def NonReadTask.function : NonReadTask → Nat
  | .auto .clearRestart _ => 2
  | .auto .enableUnsol _ => 20
  | .auto .disableUnsol _ => 21
  | .command _ .select _ => 3
  | .command _ .operate _ => 4
  | .command _ .direct _ => 5
  | .timeSync _ (.measureDelay _) => 23
  | .timeSync _ (.writeAbs _) => 2
  | .timeSync _ (.recordCurrent _) => 24
  | .timeSync _ (.writeLast _) => 2
  | .restart _ cold => if cold then 13 else 14
  | .deadband .. => 2

def NonReadTask.objects : NonReadTask → List Nat
  | .auto .clearRestart _ => [0x50, 0x01, 0x00, 0x07, 0x07, 0x00]
  | .auto _ c => eventClassHeaders c
  | .command _ _ objs => objs
  | .timeSync _ (.writeAbs t) => [0x32, 0x01, 0x07, 0x01] ++ le48 (t.getD 0)
  | .timeSync _ (.writeLast t) => [0x32, 0x03, 0x07, 0x01] ++ le48 t
  | .timeSync _ _ => []
  | .restart .. => []
  | .deadband _ objs => objs

def NonReadTask.taskType : NonReadTask → TaskType
  | .auto .clearRestart _ => .clearRestartBit
  | .auto .enableUnsol _ => .enableUnsolicited
  | .auto .disableUnsol _ => .disableUnsolicited
  | .command .. => .command
  | .timeSync .. => .timeSync
  | .restart .. => .restart
  | .deadband .. => .writeDeadBands

def requestBytes (seq func : Nat) (objs : List Nat) : List Nat := [0xC0 + seq, func] ++ objs

end Dnp3.Master
