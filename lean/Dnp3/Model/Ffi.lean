import Dnp3.Gen.FfiArms
/-!
C20 — the binding layer maps every value to its namesake, losslessly.

The "model" of the binding crate's conversions is the table `Dnp3.Gen.Ffi.armsN` / `fieldsN`, regenerated from
`ffi/dnp3-ffi/src/**.rs` on every run.  This file defines what *namesake* and *lossless* mean on that table.

Names are lists of character codes (`Name`): the 4.33 kernel needs ≈5 ms for one `String` equality and ≈40 ms for one
`String.toList`, which makes whole-table `decide +kernel` on strings take minutes; on `List Nat` it takes seconds.
Everything is `Bool`-valued and structurally recursive.
-/
namespace Dnp3.Ffi
open Dnp3.Gen.Ffi

abbrev Name := List Nat

/-- the name with id `i` -/
def nm (i : Nat) : Name := nameAt i

/-- ASCII lower-casing of one character code -/
def normCode (c : Nat) : Nat := if 65 ≤ c ∧ c ≤ 90 then c + 32 else c

/-- name normalisation: case-insensitive, underscores (95) ignored (`class_1_events` ~ `Class1Events` ~ `CLASS1EVENTS`) -/
def norm (cs : Name) : Name := (cs.filter (· ≠ 95)).map normCode

/-- accessor names: a leading `get_` is not part of the name (`x.get_broadcast()` reads `broadcast`) -/
def normField : Name → Name
  | 103 :: 101 :: 116 :: 95 :: rest => norm rest
  | cs => norm cs

def lastSegAux : Name → Name → Name
  | [], acc => acc.reverse
  | 58 :: cs, _ => lastSegAux cs []
  | c :: cs, acc => lastSegAux cs (c :: acc)

/-- last `::` segment of a type path (`ffi::UpdateResult` ↦ `UpdateResult`) -/
def lastSeg (cs : Name) : Name := lastSegAux cs []

/-- a reviewed variant rename: in conversions whose source type's last segment is `lty`,
    source variant `lvar` is *meant* to become target variant `rvar` -/
structure Rename where
  lty : Name
  lvar : Name
  rvar : Name

/-- a reviewed type pairing: source type `lty` is meant to be converted to target type `rty` (last segments) -/
structure TypeRename where
  lty : Name
  rty : Name

/-- a deliberate many-to-one: in conversions from source type `lty`, several variants collapse into `rvar` -/
structure ManyToOne where
  lty : Name
  rvar : Name

/-- a reviewed field rename: target field `field` is meant to be fed from accessor `src` -/
structure FieldRename where
  field : Name
  src : Name

/-- arm kinds (see `Gen/FfiArms.lean`): 1 = delegate (`Task(err) => err.into()`: the payload is handed to another
    conversion), 2 = nested (the arm continues in a nested `match` whose arms are rows of their own) -/
def delegates (a : ArmN) : Bool := a.kind == 1 || a.kind == 2

/-- **namesake** for one arm: same variant name up to case/underscores, or a reviewed rename.
    A wildcard arm (`_ => …`, kinds 6..9) has source variant `_` and is never a namesake by itself. -/
def ArmNamesake (renames : List Rename) (a : ArmN) : Bool :=
  delegates a ||
  norm (nm a.lvar) == norm (nm a.rvar) ||
  renames.any (fun r => r.lty == lastSeg (nm a.lty) && r.lvar == nm a.lvar && r.rvar == nm a.rvar)

/-- the two enumerations related by an arm are namesakes too (or a reviewed pairing) -/
def ArmTypesNamesake (renames : List TypeRename) (a : ArmN) : Bool :=
  delegates a ||
  norm (lastSeg (nm a.lty)) == norm (lastSeg (nm a.rty)) ||
  renames.any (fun r => r.lty == lastSeg (nm a.lty) && r.rty == lastSeg (nm a.rty))

/-- two arms of one conversion lose information: different source variants, same target -/
def armsCollide (m2o : List ManyToOne) (a b : ArmN) : Bool :=
  a.impl == b.impl && !delegates a && !delegates b &&
  !(a.lty == b.lty && a.lvar == b.lvar) &&
  (a.rty == b.rty && a.rvar == b.rvar && a.wrap == b.wrap) &&
  !(m2o.any (fun m => m.lty == lastSeg (nm a.lty) && m.rvar == nm a.rvar))

def collidesWithAny (m2o : List ManyToOne) (a : ArmN) : List ArmN → Bool
  | [] => false
  | b :: rest => armsCollide m2o a b || collidesWithAny m2o a rest

/-- the leading arms of conversion `i` (the table keeps the arms of one conversion together, see `implsNondecreasing`) -/
def takeImpl (i : Nat) : List ArmN → List ArmN
  | [] => []
  | a :: rest => if a.impl == i then a :: takeImpl i rest else []

/-- conversion numbers never decrease along the table, hence the arms of one conversion are contiguous -/
def implsNondecreasing : List ArmN → Bool
  | a :: b :: rest => a.impl ≤ b.impl && implsNondecreasing (b :: rest)
  | _ => true

def injectiveGrouped (m2o : List ManyToOne) : List ArmN → Bool
  | [] => true
  | a :: rest => !(collidesWithAny m2o a (takeImpl a.impl rest)) && injectiveGrouped m2o rest

/-- **lossless**: within one conversion distinct source variants go to distinct targets
    (every unordered pair of arms of the same conversion is examined), except the deliberate collapses in `m2o` -/
def ImplInjective (m2o : List ManyToOne) (as : List ArmN) : Bool :=
  implsNondecreasing as && injectiveGrouped m2o as

/-- a renamed arm although the target enumeration (as far as the table shows it) offers a namesake of the source variant -/
def namesakeAvailable (all : List ArmN) (a : ArmN) : Bool :=
  !(delegates a) && norm (nm a.lvar) != norm (nm a.rvar) &&
  all.any (fun b => b.rty == a.rty && !(delegates b) && norm (nm b.rvar) == norm (nm a.lvar))

/-- **no crossed fields** for one assignment `field: <expr>` (field kinds, see `Gen/FfiArms.lean`):
    * 4 `nested` (a nested struct literal, whose own fields are rows) and 5 `discriminant` (an enum value delivered by the
      enclosing arm, which is a row of `armsN`) are covered elsewhere;
    * 6 `rest` (`..base`) means the literal does not assign every field itself — never accepted;
    * 3 `const` must be reviewed (`consts` lists (struct type, field));
    * 0 `accessor`, 1 `ident`, 2 `match`: the target field's name must occur on the source accessor path, or be a reviewed rename;
    * anything else (7 `expr`) is not accepted. -/
def FieldNamesake (renames : List FieldRename) (consts : List (Name × Name)) (f : FieldN) : Bool :=
  if f.kind == 4 || f.kind == 5 then true
  else if f.kind == 6 then false
  else if f.kind == 3 then consts.any (fun c => c.1 == lastSeg (nm f.ty) && c.2 == nm f.field)
  else if f.kind ≤ 2 then
    (f.chain.map (fun i => normField (nm i))).contains (normField (nm f.field)) ||
    renames.any (fun r => r.field == nm f.field && (f.chain.map nm).contains r.src)
  else false

/-- two different target fields of one struct conversion read exactly the same source accessor path -/
def fieldsShareSource (a b : FieldN) : Bool :=
  a.conv == b.conv && a.kind == 0 && b.kind == 0 && a.field != b.field && a.chain == b.chain

def sharesWithAny (a : FieldN) : List FieldN → Bool
  | [] => false
  | b :: rest => fieldsShareSource a b || sharesWithAny a rest

def takeConv (i : Nat) : List FieldN → List FieldN
  | [] => []
  | a :: rest => if a.conv == i then a :: takeConv i rest else []

def convsNondecreasing : List FieldN → Bool
  | a :: b :: rest => a.conv ≤ b.conv && convsNondecreasing (b :: rest)
  | _ => true

def distinctGrouped : List FieldN → Bool
  | [] => true
  | a :: rest => !(sharesWithAny a (takeConv a.conv rest)) && distinctGrouped rest

/-- within one struct conversion no two target fields read the same source accessor path -/
def FieldSourcesDistinct (fs : List FieldN) : Bool := convsNondecreasing fs && distinctGrouped fs

/-- struct conversions as a whole -/
def StructFieldsNamesake (renames : List FieldRename) (consts : List (Name × Name)) (fs : List FieldN) : Bool :=
  fs.all (FieldNamesake renames consts) && FieldSourcesDistinct fs

/-! ### known finding D21
`impl From<dnp3::app::Permissions> for ffi::Permissions` (ffi/dnp3-ffi/src/master/futures.rs) assigns
`group: value.world.into()` and `owner: value.group.into()`.  `isD21Row` recognises exactly the rows the translator
reads from the unchanged tree (direction native→ffi, target type `ffi::Permissions`, target field, source accessor); `d21Present` says whether the current
table still contains a crossed one. -/
def nFfiPermissions : Name := [102, 102, 105, 58, 58, 80, 101, 114, 109, 105, 115, 115, 105, 111, 110, 115]  -- "ffi::Permissions"
def nWorld : Name := [119, 111, 114, 108, 100]
def nGroup : Name := [103, 114, 111, 117, 112]
def nOwner : Name := [111, 119, 110, 101, 114]

def isD21Row (f : FieldN) : Bool :=
  f.dir == 1 && nm f.ty == nFfiPermissions &&
  ((nm f.field == nGroup && f.chain.map nm == [nWorld]) || (nm f.field == nOwner && f.chain.map nm == [nGroup]) ||
   (nm f.field == nWorld && f.chain.map nm == [nWorld]))

def d21Present : Bool :=
  fieldsN.any (fun f => nm f.field != nWorld && isD21Row f)

/-! ### known finding D22
`ffi::EmptyResponseError` has both `IinError` and `RejectedByIin2`, and the two conversions that feed it use them
the other way round: `TaskError::RejectedByIin2(_) => IinError` (macro `define_task_from_impl`, master/functions.rs)
and `WriteError::IinError(_) => RejectedByIin2` (`impl From<WriteError> for ffi::EmptyResponseError`). -/
def nEmptyResponseError : Name := [102, 102, 105, 58, 58, 69, 109, 112, 116, 121, 82, 101, 115, 112, 111, 110, 115, 101, 69, 114, 114, 111, 114]  -- "ffi::EmptyResponseError"
def nTaskError : Name := [84, 97, 115, 107, 69, 114, 114, 111, 114]  -- "TaskError"
def nWriteError : Name := [87, 114, 105, 116, 101, 69, 114, 114, 111, 114]  -- "WriteError"
def nRejectedByIin2 : Name := [82, 101, 106, 101, 99, 116, 101, 100, 66, 121, 73, 105, 110, 50]  -- "RejectedByIin2"
def nIinError : Name := [73, 105, 110, 69, 114, 114, 111, 114]  -- "IinError"

def isD22 (a : ArmN) : Bool :=
  nm a.rty == nEmptyResponseError &&
  ((nm a.lty == nTaskError && nm a.lvar == nRejectedByIin2 && nm a.rvar == nIinError) ||
   (nm a.lty == nWriteError && nm a.lvar == nIinError && nm a.rvar == nRejectedByIin2))

def d22Present : Bool := (armsN.filter isD22).length == 2

end Dnp3.Ffi
