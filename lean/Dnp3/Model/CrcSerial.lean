/-!
# Bit-serial CRC-16/DNP (reflected polynomial 0xA6BC) — the specification the table in `crc.rs`
is proved equal to.  Independent of the generated table, so the heavy syndrome check does not
re-run when only the table changes.
-/
namespace Dnp3

/-- one bit of the serial CRC: shift right, xor the reflected polynomial when a one falls out -/
def bitStep (acc : Nat) : Nat :=
  if acc % 2 = 1 then (acc / 2) ^^^ 0xA6BC else acc / 2

def bitStep8 (acc : Nat) : Nat :=
  bitStep (bitStep (bitStep (bitStep (bitStep (bitStep (bitStep (bitStep acc)))))))

/-- bit-serial CRC-16/DNP step for one byte -/
def crcStepS (acc b : Nat) : Nat := bitStep8 (acc ^^^ b)

def crcIncS (acc : Nat) (bs : List Nat) : Nat := bs.foldl crcStepS acc

def le16 (x : Nat) : List Nat := [x % 256, (x / 256) % 256]

end Dnp3
