import Dnp3.Gen.AppCodes
/-!
# AppHeader — model of `dnp3/src/app/header.rs` (`ControlField`, `Iin`, `RequestHeader`,
`ResponseHeader`), `app/sequence.rs` and of the header part of `ParsedFragment::parse`,
`to_request`, `to_response` (`app/parse/parser.rs`).

Octets are `Nat`s (`< 256` where a theorem needs it).  Masks and function codes come from the
regenerated `Dnp3.Gen.App`.
-/
namespace Dnp3.App
open Dnp3.Gen.App

/-- `ControlField` -/
structure Control where
  fir : Bool
  fin : Bool
  con : Bool
  uns : Bool
  seq : Nat
deriving DecidableEq, Repr, Inhabited

/-- `ControlField::from` (`Sequence::new` masks the low four bits) -/
def Control.ofByte (x : Nat) : Control :=
  { fir := x &&& firMask ≠ 0, fin := x &&& finMask ≠ 0, con := x &&& conMask ≠ 0,
    uns := x &&& unsMask ≠ 0, seq := x &&& seqMask }

/-- `ControlField::to_u8` -/
def Control.toByte (c : Control) : Nat :=
  (if c.fir then firMask else 0) ||| (if c.fin then finMask else 0) |||
  (if c.con then conMask else 0) ||| (if c.uns then unsMask else 0) ||| c.seq

def Control.isFirAndFin (c : Control) : Bool := c.fir && c.fin

/-- `FunctionCode::from`: the codes listed in the generated table are the known ones -/
def knownFunction (f : Nat) : Bool := functionCodes.any (·.2 == f)

def isResponseFn (f : Nat) : Bool := f == fnResponse || f == fnUnsolicitedResponse

/-- `HeaderParseError` -/
inductive HeaderErr
  | insufficient
  | unknownFunction (seq raw : Nat)
deriving DecidableEq, Repr, Inhabited

/-- the header part of a `ParsedFragment` + the raw object octets -/
structure FragHeader where
  control : Control
  function : Nat
  iin : Option (Nat × Nat)
  objects : List Nat
deriving DecidableEq, Repr, Inhabited

/-- header part of `ParsedFragment::parse_no_logging` -/
def parseHeader : List Nat → Except HeaderErr FragHeader
  | [] => .error .insufficient
  | [_] => .error .insufficient
  | c :: f :: rest =>
    let control := Control.ofByte c
    if ¬ knownFunction f then .error (.unknownFunction control.seq f) else
    if isResponseFn f then
      match rest with
      | i1 :: i2 :: objs => .ok ⟨control, f, some (i1, i2), objs⟩
      | _ => .error .insufficient
    else .ok ⟨control, f, none, rest⟩

/-- `RequestHeader::write` -/
def writeRequestHeader (c : Control) (f : Nat) : List Nat := [c.toByte, f]

/-- `ResponseHeader::write` -/
def writeResponseHeader (c : Control) (f : Nat) (iin1 iin2 : Nat) : List Nat := [c.toByte, f, iin1, iin2]

/-- `RequestValidationError` -/
inductive ReqErr | unexpectedFunction | nonFirFin | unexpectedUns
deriving DecidableEq, Repr, Inhabited

/-- `ResponseValidationError` -/
inductive RespErr | unexpectedFunction | solicitedWithUns | unsolicitedWithoutUns | unsolicitedWithoutFirFin
deriving DecidableEq, Repr, Inhabited

/-- `ParsedFragment::to_request` (validation only) -/
def validateRequest (h : FragHeader) : Except ReqErr Unit :=
  if h.iin.isSome then .error .unexpectedFunction
  else if ¬ h.control.isFirAndFin then .error .nonFirFin
  else if h.control.uns ∧ h.function ≠ fnConfirm then .error .unexpectedUns
  else .ok ()

/-- `ParsedFragment::to_response` (validation only) -/
def validateResponse (h : FragHeader) : Except RespErr Unit :=
  match h.iin with
  | none => .error .unexpectedFunction
  | some _ =>
    -- iin is `some` exactly for the two response function codes
    let unsol := h.function == fnUnsolicitedResponse
    if ¬ unsol ∧ h.control.uns then .error .solicitedWithUns
    else if unsol ∧ ¬ h.control.uns then .error .unsolicitedWithoutUns
    else if unsol ∧ ¬ h.control.isFirAndFin then .error .unsolicitedWithoutFirFin
    else .ok ()

end Dnp3.App
