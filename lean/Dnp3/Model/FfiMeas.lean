/-!
C20, master-side measurement path: the MODEL of a value crossing the binding boundary (engine `ffimeas`).

An op line of the engine spells the native values handed to `impl ReadHandler for ffi::ReadHandler`
(`<callback> <header info> ; i <index> <fields..> ; .. ; end <n>`).  The property says the foreign consumer must
observe the like-named value, unchanged: the model of the crossing is therefore the IDENTITY on the text of the value,
except for payloads written `X(p)` — data carried by a native variant whose binding-side namesake has no field for it
(`Group110(5)`, `CommandStatus::Unknown(200)`, the width of a float attribute); these are the reviewed collapses of
`Props/C20Lists.lean` and the only thing the crossing may drop.  Core Lean only (linked into `dnp3model`).
-/
namespace Dnp3.FfiMeas

/-- remove every parenthesised payload (`d` = nesting depth); an unmatched `)` is kept -/
def strip (d : Nat) : List Char → List Char
  | [] => []
  | c :: cs =>
    if c = '(' then strip (d + 1) cs
    else if c = ')' ∧ 0 < d then strip (d - 1) cs
    else if d = 0 then c :: strip 0 cs
    else strip d cs

/-- what the consumer must observe for one op line: one canonical line per piece -/
def cross (line : String) : List String :=
  (String.ofList (strip 0 line.toList)).splitOn " ; "

end Dnp3.FfiMeas
