import Dnp3.Gen.File70
import Dnp3.Model.ObjectGrammar
import Dnp3.Model.AppHeader
/-!
# File70 — model of the file-transfer objects (group 70, free-format qualifier 0x5B)

What is modelled (total functions over octet lists, `Nat` octets):

* the seven objects (`dnp3/src/app/file/g70v2.rs` … `g70v8.rs`): `FileObj`; strings are their UTF-8
  octets (so octet length ≠ character count is inside the model), `Timestamp` is its 48-bit value,
  `Permissions` its nine bits, `FileStatus` / `FileType` / `FileMode` their wire codes
  (`Other(x)` / `Reserved(x)` with a named code `x` is a second in-memory spelling of the same wire value);
* `Group70VarN::write` (`FileObj.fields`: what is written, in order, with the overflow checks of
  `byte_length` / `checked_add` directly in front of the field they guard; `writeFields` runs them
  against the free octets of the cursor);
* `HeaderWriter::write_free_format` (`writeFreeFormat`: variation, qualifier, count 1, two skipped
  octets, the object, the checked 16-bit length patched in) after `start_request` (`buildRequest`);
* `Group70VarN::read` with the decoded values (`parseObj`); the value-less `Dnp3.App.fileRead` of
  `Model/ObjectGrammar` decides the same acceptance and remainder (theorem `parseObj_agrees_with_fileRead`);
  the free-format header itself (count octet, 16-bit length, sub-cursor, `expect_empty`) is
  `Dnp3.App.parseBody` / `parseOne`;
* the master's request builders for file operations (`master/tasks/file/*.rs`): `authRequest`,
  `openRequest`, `closeRequest`, `infoRequest`, `writeBlockRequest`, and the four requests of the file
  read task (`RTask`, with its response handling: `RTask.handle`);
* `DirectoryReader::completed` (a directory listing = concatenated g70v7 objects): `parseDir`.

The outstation of this library version has no file handling: it never emits a group-70 object.

The field order / widths, the offset constants, the enum code tables, the permission bits, the request
id and the builders' struct literals come from `Dnp3.Gen.File70` (regenerated from the Rust source);
`Proofs/C09File70.lean` proves that this model's layout is that table.
-/
namespace Dnp3.File70
open Dnp3.App Dnp3.Gen.App

/-! ## little-endian helpers -/

/-- `k` octets of `n`, least significant first (`to_le_bytes`) -/
def leBytes : Nat → Nat → List Nat
  | 0, _ => []
  | k + 1, n => (n % 256) :: leBytes k (n / 256)

/-- `from_le_bytes` -/
def ofLe : List Nat → Nat
  | [] => 0
  | b :: r => b + 256 * ofLe r

def allOctets (bs : List Nat) : Prop := ∀ b ∈ bs, b < 256

/-! ## the objects -/

/-- `Group70Var2` … `Group70Var8` -/
inductive FileObj
  /-- g70v2 authentication -/
  | auth (authKey : Nat) (userName password : List Nat)
  /-- g70v3 file command -/
  | command (time perm authKey fileSize mode maxBlock requestId : Nat) (fileName : List Nat)
  /-- g70v4 file command status -/
  | commandStatus (handle fileSize maxBlock requestId status : Nat) (text : List Nat)
  /-- g70v5 file transport -/
  | transport (handle block : Nat) (data : List Nat)
  /-- g70v6 file transport status -/
  | transportStatus (handle block status : Nat) (text : List Nat)
  /-- g70v7 file descriptor -/
  | descriptor (fileType fileSize time perm requestId : Nat) (fileName : List Nat)
  /-- g70v8 file specification string -/
  | spec (s : List Nat)
deriving DecidableEq, Repr, Inhabited

def FileObj.variation : FileObj → Nat
  | .auth .. => 2 | .command .. => 3 | .commandStatus .. => 4 | .transport .. => 5
  | .transportStatus .. => 6 | .descriptor .. => 7 | .spec .. => 8

/-- a string field: octets that are well-formed UTF-8 (what a `&str` can hold) -/
def isStr (bs : List Nat) : Prop := allOctets bs ∧ validUtf8 bs = true

/-- the values the Rust structs can hold -/
def FileObj.WF : FileObj → Prop
  | .auth k u p => k < 2 ^ 32 ∧ isStr u ∧ isStr p
  | .command t pm k sz m mb rq n =>
    t < 2 ^ 48 ∧ pm < 512 ∧ k < 2 ^ 32 ∧ sz < 2 ^ 32 ∧ m < 2 ^ 16 ∧ mb < 2 ^ 16 ∧ rq < 2 ^ 16 ∧ isStr n
  | .commandStatus h sz mb rq st tx => h < 2 ^ 32 ∧ sz < 2 ^ 32 ∧ mb < 2 ^ 16 ∧ rq < 2 ^ 16 ∧ st < 256 ∧ isStr tx
  | .transport h b d => h < 2 ^ 32 ∧ b < 2 ^ 32 ∧ allOctets d
  | .transportStatus h b st tx => h < 2 ^ 32 ∧ b < 2 ^ 32 ∧ st < 256 ∧ isStr tx
  | .descriptor ft sz t pm rq n => ft < 2 ^ 16 ∧ sz < 2 ^ 32 ∧ t < 2 ^ 48 ∧ pm < 512 ∧ rq < 2 ^ 16 ∧ isStr n
  | .spec s => isStr s

/-! ## `Group70VarN::write` -/

inductive Kind | u8 | u16 | u32 | u48 | perm | bytes
deriving DecidableEq, Repr

def Kind.width : Kind → Nat
  | .u8 => 1 | .u16 => 2 | .u32 => 4 | .u48 => 6 | .perm => 2 | .bytes => 0

def Kind.name : Kind → String
  | .u8 => "u8" | .u16 => "u16" | .u32 => "u32" | .u48 => "u48" | .perm => "perm" | .bytes => "bytes"

/-- one cursor write of a `write` function.  `pre` is the check evaluated directly before it
    (`byte_length(..)?`: the string is at most 65535 octets; `checked_add`): `false` = `WriteError::Overflow` -/
structure Fld where
  what : String
  kind : Kind
  val : Nat := 0
  octets : List Nat := []
  pre : Bool := true

def Fld.image (f : Fld) : List Nat :=
  match f.kind with
  | .bytes => f.octets
  | k => leBytes k.width f.val

/-- `to_u16(x)` succeeds -/
def fitsU16 (n : Nat) : Bool := decide (n ≤ 65535)

/-- the writes of `Group70VarN::write`, in order -/
def FileObj.fields : FileObj → List Fld
  | .auth k u p =>
    [⟨"const:USER_NAME_OFFSET", .u16, g70v2UserNameOffset, [], true⟩,
     ⟨"size:user_name", .u16, u.length, [], fitsU16 u.length⟩,
     ⟨"sum:USER_NAME_OFFSET+size:user_name", .u16, g70v2UserNameOffset + u.length, [], fitsU16 (g70v2UserNameOffset + u.length)⟩,
     ⟨"size:password", .u16, p.length, [], fitsU16 p.length⟩,
     ⟨"field:auth_key", .u32, k, [], true⟩,
     ⟨"bytes:user_name", .bytes, 0, u, true⟩,
     ⟨"bytes:password", .bytes, 0, p, true⟩]
  | .command t pm k sz m mb rq n =>
    [⟨"const:FILE_NAME_OFFSET", .u16, g70v3FileNameOffset, [], true⟩,
     ⟨"size:file_name", .u16, n.length, [], fitsU16 n.length⟩,
     ⟨"field:time_of_creation", .u48, t, [], true⟩,
     ⟨"field:permissions", .perm, pm, [], true⟩,
     ⟨"field:auth_key", .u32, k, [], true⟩,
     ⟨"field:file_size", .u32, sz, [], true⟩,
     ⟨"field:mode", .u16, m, [], true⟩,
     ⟨"field:max_block_size", .u16, mb, [], true⟩,
     ⟨"field:request_id", .u16, rq, [], true⟩,
     ⟨"bytes:file_name", .bytes, 0, n, true⟩]
  | .commandStatus h sz mb rq st tx =>
    [⟨"field:file_handle", .u32, h, [], true⟩,
     ⟨"field:file_size", .u32, sz, [], true⟩,
     ⟨"field:max_block_size", .u16, mb, [], true⟩,
     ⟨"field:request_id", .u16, rq, [], true⟩,
     ⟨"field:status_code", .u8, st, [], true⟩,
     ⟨"bytes:text", .bytes, 0, tx, true⟩]
  | .transport h b d =>
    [⟨"field:file_handle", .u32, h, [], true⟩,
     ⟨"field:block_number", .u32, b, [], true⟩,
     ⟨"bytes:file_data", .bytes, 0, d, true⟩]
  | .transportStatus h b st tx =>
    [⟨"field:file_handle", .u32, h, [], true⟩,
     ⟨"field:block_number", .u32, b, [], true⟩,
     ⟨"field:status_code", .u8, st, [], true⟩,
     ⟨"bytes:text", .bytes, 0, tx, true⟩]
  | .descriptor ft sz t pm rq n =>
    [⟨"const:FILE_NAME_OFFSET", .u16, g70v7FileNameOffset, [], true⟩,
     ⟨"size:file_name", .u16, n.length, [], fitsU16 n.length⟩,
     ⟨"field:file_type", .u16, ft, [], true⟩,
     ⟨"field:file_size", .u32, sz, [], true⟩,
     ⟨"field:time_of_creation", .u48, t, [], true⟩,
     ⟨"field:permissions", .perm, pm, [], true⟩,
     ⟨"field:request_id", .u16, rq, [], true⟩,
     ⟨"bytes:file_name", .bytes, 0, n, true⟩]
  | .spec s => [⟨"bytes:file_specification", .bytes, 0, s, true⟩]

/-- (what, width) of every write: the shape the translator regenerates as `Gen.File70.writeLayout` -/
def FileObj.layout (o : FileObj) : List (String × String) := o.fields.map fun f => (f.what, f.kind.name)

/-- the octets of the object: what a successful `write` leaves behind -/
def encode (o : FileObj) : List Nat := o.fields.flatMap Fld.image

/-- no `WriteError::Overflow` inside `write`: every size / offset field is expressible in 16 bits -/
def FileObj.Encodable (o : FileObj) : Prop := ∀ f ∈ o.fields, f.pre = true

inductive WErr | cursor | overflow
deriving DecidableEq, Repr

/-- the writes of one object against `room` free octets of the `WriteCursor`: the first failing check
    (`Overflow`) or write (`scursor::WriteError`) aborts -/
def writeFields : Nat → List Fld → Except WErr (List Nat)
  | _, [] => .ok []
  | room, f :: fs =>
    if f.pre = false then .error .overflow
    else if room < f.image.length then .error .cursor
    else match writeFields (room - f.image.length) fs with
      | .ok r => .ok (f.image ++ r)
      | .error e => .error e

/-- the variations with a `FreeFormat` impl in a non-test build -/
def hasWriter (o : FileObj) : Bool := Dnp3.Gen.File70.freeFormatWriters.contains o.variation

def le16 (n : Nat) : List Nat := leBytes 2 n

/-- the six octets in front of the object: g70, variation, qualifier 0x5B, count 1, 16-bit length -/
def freeHeader (v len : Nat) : List Nat := [70, v, qFreeFormat16, 1] ++ le16 len

/-- `HeaderWriter::write_free_format` into `room` free octets: variation (2 octets), qualifier, count, two
    skipped octets (each a cursor write), the object, then `to_u16(object length)` and the patch -/
def writeFreeFormat (room : Nat) (o : FileObj) : Except WErr (List Nat) :=
  if room < 6 then .error .cursor else
  match writeFields (room - 6) o.fields with
  | .error e => .error e
  | .ok body => if 65535 < body.length then .error .overflow else .ok (freeHeader o.variation body.length ++ body)

/-- `start_request(control, function)` then `write_free_format(obj)` into a buffer of `cap` octets
    (what `MasterSession::send_request` does for a file task) -/
def buildRequest (cap : Nat) (ctrl fn : Nat) (o : FileObj) : Except WErr (List Nat) :=
  if cap < 2 then .error .cursor else
  match writeFreeFormat (cap - 2) o with
  | .error e => .error e
  | .ok img => .ok ([ctrl, fn] ++ img)

/-! ## `Group70VarN::read` -/

/-- `read_u8` / `read_u16_le` / `read_u32_le` / `Timestamp::read`: `k` octets, little endian -/
def rd (k : Nat) (bs : List Nat) : Except ParseErr (Nat × List Nat) :=
  if k ≤ bs.length then .ok (ofLe (bs.take k), bs.drop k) else .error .insufficientBytes

/-- `read_bytes(n)` -/
def tk (n : Nat) (bs : List Nat) : Except ParseErr (List Nat × List Nat) :=
  if n ≤ bs.length then .ok (bs.take n, bs.drop n) else .error .insufficientBytes

/-- `Permissions::read`: the nine defined bits of the 16-bit field -/
def permOf (raw : Nat) : Nat := raw % 512

/-- `Group70Var2::read` -/
def parseAuth (bs : List Nat) : Except ParseErr (FileObj × List Nat) :=
  match rd 2 bs with
  | .error e => .error e
  | .ok (off, r) =>
  if off ≠ g70v2UserNameOffset then .error .badEncoding else
  match rd 2 r with
  | .error e => .error e
  | .ok (unLen, r) =>
  if g70v2UserNameOffset + unLen > 65535 then .error .badEncoding else
  match rd 2 r with
  | .error e => .error e
  | .ok (pwOff, r) =>
  if pwOff ≠ g70v2UserNameOffset + unLen then .error .badEncoding else
  match rd 2 r with
  | .error e => .error e
  | .ok (pwLen, r) =>
  match rd 4 r with
  | .error e => .error e
  | .ok (key, r) =>
  match tk unLen r with
  | .error e => .error e
  | .ok (un, r) =>
  match tk pwLen r with
  | .error e => .error e
  | .ok (pw, r) =>
  if validUtf8 un && validUtf8 pw then .ok (.auth key un pw, r) else .error .badEncoding

/-- successive fixed-width reads: the values and what is left -/
def rdSeq : List Nat → List Nat → Except ParseErr (List Nat × List Nat)
  | [], bs => .ok ([], bs)
  | k :: ks, bs =>
    match rd k bs with
    | .error e => .error e
    | .ok (x, r) =>
      match rdSeq ks r with
      | .error e => .error e
      | .ok (xs, r') => .ok (x :: xs, r')

/-- `Group70Var3::read`: offset (checked), name size, then `Timestamp::read` (6 octets), `Permissions::read` (2),
    auth key (4), file size (4), mode, max block size, request id (2 each), then the name -/
def parseCommand (bs : List Nat) : Except ParseErr (FileObj × List Nat) :=
  match rd 2 bs with
  | .error e => .error e
  | .ok (off, r) =>
  if off ≠ g70v3FileNameOffset then .error .badEncoding else
  match rd 2 r with
  | .error e => .error e
  | .ok (nameLen, r) =>
  match rdSeq [6, 2, 4, 4, 2, 2, 2] r with
  | .error e => .error e
  | .ok (f, r) =>
  match tk nameLen r with
  | .error e => .error e
  | .ok (name, r) =>
  if validUtf8 name then
    .ok (.command (f.getD 0 0) (permOf (f.getD 1 0)) (f.getD 2 0) (f.getD 3 0) (f.getD 4 0) (f.getD 5 0) (f.getD 6 0) name, r)
  else .error .badEncoding

/-- `Group70Var4::read`: handle (4), file size (4), max block size (2), request id (2), status (1);
    the text is everything that is left (`read_all`) -/
def parseCommandStatus (bs : List Nat) : Except ParseErr (FileObj × List Nat) :=
  match rdSeq [4, 4, 2, 2, 1] bs with
  | .error e => .error e
  | .ok (f, r) =>
  if validUtf8 r then .ok (.commandStatus (f.getD 0 0) (f.getD 1 0) (f.getD 2 0) (f.getD 3 0) (f.getD 4 0) r, [])
  else .error .badEncoding

/-- `Group70Var5::read`: handle (4), block number (4), the data is everything that is left -/
def parseTransport (bs : List Nat) : Except ParseErr (FileObj × List Nat) :=
  match rdSeq [4, 4] bs with
  | .error e => .error e
  | .ok (f, r) => .ok (.transport (f.getD 0 0) (f.getD 1 0) r, [])

/-- `Group70Var6::read`: handle (4), block number (4), status (1), text = the rest -/
def parseTransportStatus (bs : List Nat) : Except ParseErr (FileObj × List Nat) :=
  match rdSeq [4, 4, 1] bs with
  | .error e => .error e
  | .ok (f, r) =>
  if validUtf8 r then .ok (.transportStatus (f.getD 0 0) (f.getD 1 0) (f.getD 2 0) r, []) else .error .badEncoding

/-- `Group70Var7::read`: offset (checked), name size, file type (2), file size (4), `Timestamp::read` (6),
    `Permissions::read` (2), request id (2), then the name -/
def parseDescriptor (bs : List Nat) : Except ParseErr (FileObj × List Nat) :=
  match rd 2 bs with
  | .error e => .error e
  | .ok (off, r) =>
  if off ≠ g70v7FileNameOffset then .error .badEncoding else
  match rd 2 r with
  | .error e => .error e
  | .ok (nameLen, r) =>
  match rdSeq [2, 4, 6, 2, 2] r with
  | .error e => .error e
  | .ok (f, r) =>
  match tk nameLen r with
  | .error e => .error e
  | .ok (name, r) =>
  if validUtf8 name then
    .ok (.descriptor (f.getD 0 0) (f.getD 1 0) (f.getD 2 0) (permOf (f.getD 3 0)) (f.getD 4 0) name, r)
  else .error .badEncoding

/-- `Group70Var8::read` -/
def parseSpecString (bs : List Nat) : Except ParseErr (FileObj × List Nat) :=
  if validUtf8 bs then .ok (.spec bs, []) else .error .badEncoding

/-- `FreeFormatVariation::parse` for group 70: the object and what is left of the sub-cursor -/
def parseObj (v : Nat) (bs : List Nat) : Except ParseErr (FileObj × List Nat) :=
  if v = 2 then parseAuth bs
  else if v = 3 then parseCommand bs
  else if v = 4 then parseCommandStatus bs
  else if v = 5 then parseTransport bs
  else if v = 6 then parseTransportStatus bs
  else if v = 7 then parseDescriptor bs
  else if v = 8 then parseSpecString bs
  else .error .modelGap

/-- the octets of `o` with a raw 16-bit permission field `raw` in place of the nine bits the struct keeps
    (the parser ignores the seven reserved bits).  `encode o = encodeRaw o.perm o`. -/
def encodeRaw (raw : Nat) : FileObj → List Nat
  | .command t _ k sz m mb rq n =>
    le16 g70v3FileNameOffset ++ le16 n.length ++ leBytes 6 t ++ le16 raw ++ leBytes 4 k ++ leBytes 4 sz ++
      le16 m ++ le16 mb ++ le16 rq ++ n
  | .descriptor ft sz t _ rq n =>
    le16 g70v7FileNameOffset ++ le16 n.length ++ le16 ft ++ leBytes 4 sz ++ leBytes 6 t ++ le16 raw ++ le16 rq ++ n
  | o => encode o

/-- the object with its permission bits replaced (an object without permissions is unchanged) -/
def FileObj.withPerm (pm : Nat) : FileObj → FileObj
  | .command t _ k sz m mb rq n => .command t pm k sz m mb rq n
  | .descriptor ft sz t _ rq n => .descriptor ft sz t pm rq n
  | o => o

/-! ## the master's request builders (`master/tasks/file/*.rs`) -/

def requestId : Nat := Dnp3.Gen.File70.requestId

/-- `AuthFileTask::write` / `write_auth` -/
def authRequest (user pass : List Nat) : FileObj := .auth 0 user pass
/-- `OpenFileTask::write` -/
def openRequest (name : List Nat) (authKey fileSize mode perm maxBlock : Nat) : FileObj :=
  .command 0 perm authKey fileSize mode maxBlock requestId name
/-- `CloseFileTask::write` / `write_close` -/
def closeRequest (handle : Nat) : FileObj := .commandStatus handle 0 0 requestId 0 []
/-- `GetFileInfoTask::write` -/
def infoRequest (name : List Nat) : FileObj := .descriptor 0 0 0 0 0xCAFE name
/-- `WriteBlockTask::write` -/
def writeBlockRequest (handle block : Nat) (data : List Nat) : FileObj := .transport handle block data
/-- `read::write_open` -/
def readOpenRequest (name : List Nat) (authKey maxBlock : Nat) : FileObj :=
  .command 0 0 authKey 0 1 maxBlock requestId name
/-- `read::write_read` -/
def readBlockRequest (handle block : Nat) : FileObj := .transport handle block []

def fnWrite : Nat := 2
def fnOpenFile : Nat := 25
def fnCloseFile : Nat := 26
def fnGetFileInfo : Nat := 28
def fnAuthenticateFile : Nat := 29

/-! ## the file read task (`master/tasks/file/read.rs`) -/

inductive RState
  | getAuth (user pass : List Nat)
  | openFile (key : Nat)
  | read (handle block total : Nat)
  | close (handle : Nat)
deriving DecidableEq, Repr

structure RTask where
  name : List Nat
  maxBlock : Nat
  maxSize : Nat
  state : RState
deriving DecidableEq, Repr

/-- `FileReadTask::function` and `FileReadTask::write` -/
def RTask.request (t : RTask) : Nat × FileObj :=
  match t.state with
  | .getAuth u p => (fnAuthenticateFile, authRequest u p)
  | .openFile key => (fnOpenFile, readOpenRequest t.name key t.maxBlock)
  | .read h b _ => (fnRead, readBlockRequest h b)
  | .close h => (fnCloseFile, closeRequest h)

/-- what the `FileReader` is told -/
inductive RCb
  | opened (size : Nat)
  | block (n : Nat) (data : List Nat)
  | aborted (why : String)
  | completed
deriving DecidableEq, Repr

def blockTop : Nat := Dnp3.Gen.File70.blockTopBit

/-- `FileReadTask::handle` on the object octets of a response (the reader never aborts).
    `usizeMax` bounds `total_rx` (`checked_add`). Returns the follow-up task and the callbacks. -/
def RTask.handle (t : RTask) (objs : List Nat) : Option RTask × List RCb :=
  -- `response.get_only_object_header()`
  let hdr : Option HeaderRec :=
    match walk false false objs with
    | .ok [r] => some r
    | _ => none
  match t.state with
  | .close _ => (none, [])     -- the reader was told `completed` before: it hears nothing more
  | st =>
    match hdr with
    | none => (none, [.aborted "task"])
    | some r =>
      let obj : Option FileObj :=
        match r.kind with
        | .file v => (match parseObj v r.payload with | .ok (o, _) => some o | .error _ => none)
        | _ => none
      match st with
      | .getAuth _ _ =>
        match obj with
        | some (.auth key _ _) =>
          if key = 0 then (none, [.aborted "nopermission"]) else (some { t with state := .openFile key }, [])
        | _ => (none, [.aborted "badresponse"])
      | .openFile _ =>
        match obj with
        | some (.commandStatus h sz _ _ st _) =>
          if st ≠ 0 then (none, [.aborted s!"badstatus {st}"])
          else (some { t with state := .read h 0 0 }, [.opened sz])
        | _ => (none, [.aborted "badresponse"])
      | .read h blk total =>
        match obj with
        | some (.transport _ b data) =>
          if b % blockTop ≠ blk % blockTop then (none, [.aborted "badblocknum"])
          else if total + data.length > t.maxSize then (none, [.aborted "maxlength"])
          else if b ≥ blockTop then
            (some { t with state := .close h }, [.block (b % blockTop) data, .completed])
          else if b % blockTop < blockTop - 1 then
            (some { t with state := .read h (b + 1) (total + data.length) }, [.block (b % blockTop) data])
          else (none, [.block (b % blockTop) data, .aborted "badblocknum"])
        | _ => (none, [.aborted "badresponse"])
      | .close _ => (none, [])

/-! ## `DirectoryReader::completed`: a directory listing is a concatenation of g70v7 objects -/

def parseDirFuel : Nat → List Nat → Option (List FileObj)
  | 0, bs => if bs.isEmpty then some [] else none
  | fuel + 1, bs =>
    if bs.isEmpty then some [] else
    match parseDescriptor bs with
    | .error _ => none
    | .ok (o, rest) => (parseDirFuel fuel rest).map (o :: ·)

/-- every successful `Group70Var7::read` consumes at least 20 octets: `bs.length` is enough fuel -/
def parseDir (bs : List Nat) : Option (List FileObj) := parseDirFuel bs.length bs

end Dnp3.File70
