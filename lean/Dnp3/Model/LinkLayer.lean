import Dnp3.Model.LinkReader
/-!
# Link layer addressing — model of `dnp3/src/link/{header,function,layer}.rs`

`processHeader` is transcribed arm for arm from `Layer::process_header`.
-/
namespace Dnp3

inductive Addr where
  | reserved (x : Nat) | endpoint (x : Nat) | broadcast (mode : Nat) | selfAddr
deriving DecidableEq, Repr, Inhabited

/-- broadcast modes: 0 = confirm optional (0xFFFF), 1 = mandatory (0xFFFE), 2 = not required (0xFFFD) -/
def Addr.ofNat (a : Nat) : Addr :=
  if a = 0xFFFF then .broadcast 0
  else if a = 0xFFFE then .broadcast 1
  else if a = 0xFFFD then .broadcast 2
  else if a = 0xFFFC then .selfAddr
  else if a ≥ 0xFFF0 then .reserved a
  else .endpoint a

inductive LFunc where
  | priResetLinkStates | priTestLinkStates | priConfirmedUserData | priUnconfirmedUserData
  | priRequestLinkStatus | secAck | secNack | secLinkStatus | secNotSupported | unknown (x : Nat)
deriving DecidableEq, Repr, Inhabited

def LFunc.ofNat (b : Nat) : LFunc :=
  if b = 0x40 then .priResetLinkStates else if b = 0x42 then .priTestLinkStates
  else if b = 0x43 then .priConfirmedUserData else if b = 0x44 then .priUnconfirmedUserData
  else if b = 0x49 then .priRequestLinkStatus else if b = 0x00 then .secAck
  else if b = 0x01 then .secNack else if b = 0x0B then .secLinkStatus
  else if b = 0x0F then .secNotSupported else .unknown b

def LFunc.toNat : LFunc → Nat
  | .priResetLinkStates => 0x40 | .priTestLinkStates => 0x42 | .priConfirmedUserData => 0x43
  | .priUnconfirmedUserData => 0x44 | .priRequestLinkStatus => 0x49 | .secAck => 0x00
  | .secNack => 0x01 | .secLinkStatus => 0x0B | .secNotSupported => 0x0F | .unknown x => x

structure Control where
  func : LFunc
  master : Bool
  fcb : Bool
  fcv : Bool
deriving DecidableEq, Repr, Inhabited

/-- `ControlField::from` -/
def Control.ofNat (b : Nat) : Control :=
  { func := LFunc.ofNat (b &&& 0x4F), master := b &&& 0x80 ≠ 0, fcb := b &&& 0x20 ≠ 0, fcv := b &&& 0x10 ≠ 0 }

/-- `ControlField::to_u8` -/
def Control.toNat (c : Control) : Nat :=
  (if c.master then 0x80 else 0) ||| (if c.fcb then 0x20 else 0) ||| (if c.fcv then 0x10 else 0) ||| c.func.toNat

inductive FrameType where | data | linkStatusRequest | linkStatusResponse
deriving DecidableEq, Repr, Inhabited

structure FrameInfo where
  source : Nat
  broadcast : Option Nat
  ftype : FrameType
deriving DecidableEq, Repr, Inhabited

inductive SecState where | notReset | reset (expected : Bool)
deriving DecidableEq, Repr, Inhabited

structure LinkCfg where
  isMaster : Bool
  selfAddress : Bool
  localAddr : Nat
deriving DecidableEq, Repr, Inhabited

structure Reply where
  address : Nat
  func : LFunc
deriving DecidableEq, Repr, Inhabited

/-- `Layer::process_header` -/
def processHeader (cfg : LinkCfg) (sec : SecState) (h : LHeader) : SecState × Option FrameInfo × Option Reply :=
  let c := Control.ofNat h.ctrl
  if c.master = cfg.isMaster then (sec, none, none) else
  match Addr.ofNat h.src with
  | .endpoint source =>
    let dest : Option (Option Nat) :=   -- none = ignore; some b = accepted with broadcast mode b
      match Addr.ofNat h.dst with
      | .endpoint x => if x = cfg.localAddr then some none else none
      | .selfAddr => if cfg.selfAddress then some none else none
      | .reserved _ => none
      | .broadcast m => if cfg.isMaster then none else some (some m)
    match dest with
    | none => (sec, none, none)
    | some broadcast =>
      if broadcast.isSome ∧ ¬ (c.func = .priUnconfirmedUserData ∨ c.func = .priConfirmedUserData) then
        (sec, none, none)
      else
      match c.func with
      | .priUnconfirmedUserData =>
        if c.fcv then (sec, none, none) else (sec, some ⟨source, broadcast, .data⟩, none)
      | .priResetLinkStates =>
        if c.fcv then (sec, none, none) else (.reset true, none, some ⟨source, .secAck⟩)
      | .priConfirmedUserData =>
        if ¬ c.fcv then (sec, none, none) else
        match sec with
        | .notReset => (sec, none, none)
        | .reset expected =>
          let response := if broadcast.isNone then some (Reply.mk source .secAck) else none
          if c.fcb = expected then (.reset (!expected), some ⟨source, broadcast, .data⟩, response)
          else (sec, none, response)
      | .priRequestLinkStatus =>
        if c.fcv then (sec, none, none)
        else (sec, some ⟨source, broadcast, .linkStatusRequest⟩, some ⟨source, .secLinkStatus⟩)
      | .secLinkStatus => (sec, some ⟨source, broadcast, .linkStatusResponse⟩, none)
      | _ => (sec, none, none)
  | _ => (sec, none, none)

/-- `get_header` + `format_header_fixed_size`: the 10-octet reply frame -/
def formatReply (cfg : LinkCfg) (r : Reply) : List Nat :=
  let c : Control := { func := r.func, master := cfg.isMaster, fcb := false, fcv := false }
  let first := [0x05, 0x64, 5, c.toNat] ++ le16 r.address ++ le16 cfg.localAddr
  first ++ le16 (calcCrc first)

end Dnp3
