import Dnp3.Gen.CrcTable
/-!
# CRC-16/DNP — model of `dnp3/src/link/crc.rs`

`crcIncT` transcribes `crc_increment` over the *generated* table (`Gen.crcTable`, re-extracted
from the source on every run).  `crcSerial` is an independent bit-serial CRC-16/DNP (reflected
polynomial 0xA6BC) used as the specification the table is proved equal to.
Bytes are `Nat` (< 256), accumulators are `Nat` (< 65536).
-/
namespace Dnp3

/-- one iteration of the loop in `crc_increment` -/
def crcStepT (acc b : Nat) : Nat :=
  (Gen.crcTable.getD ((acc % 256) ^^^ b) 0) ^^^ (acc / 256)

/-- `crc_increment` -/
def crcIncT (acc : Nat) (bs : List Nat) : Nat := bs.foldl crcStepT acc

/-- `calc_crc` (`!x` on u16 = xor with 0xFFFF) -/
def calcCrc (bs : List Nat) : Nat := 0xFFFF ^^^ crcIncT 0 bs

/-- `calc_crc_with_0564` -/
def calcCrc0564 (bs : List Nat) : Nat := 0xFFFF ^^^ crcIncT Gen.crcOf0564 bs

/-- one bit of the serial CRC: shift right, xor the reflected polynomial when a one falls out -/
def bitStep (acc : Nat) : Nat :=
  if acc % 2 = 1 then (acc / 2) ^^^ 0xA6BC else acc / 2

def bitStep8 (acc : Nat) : Nat :=
  bitStep (bitStep (bitStep (bitStep (bitStep (bitStep (bitStep (bitStep acc)))))))

/-- bit-serial CRC-16/DNP step for one byte -/
def crcStepS (acc b : Nat) : Nat := bitStep8 (acc ^^^ b)

def crcIncS (acc : Nat) (bs : List Nat) : Nat := bs.foldl crcStepS acc

def le16 (x : Nat) : List Nat := [x % 256, (x / 256) % 256]

end Dnp3
