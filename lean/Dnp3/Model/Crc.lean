import Dnp3.Gen.CrcTable
import Dnp3.Model.CrcSerial
/-!
# CRC-16/DNP — model of `dnp3/src/link/crc.rs`

`crcIncT` transcribes `crc_increment` over the *generated* table (`Gen.crcTable`, re-extracted
from the source on every run).  `crcSerial` is an independent bit-serial CRC-16/DNP (reflected
polynomial 0xA6BC) used as the specification the table is proved equal to.
Bytes are `Nat` (< 256), accumulators are `Nat` (< 65536).
-/
namespace Dnp3

/-- one iteration of the loop in `crc_increment` -/
def crcStepT (acc b : Nat) : Nat :=
  (Gen.crcTable.getD ((acc % 256) ^^^ b) 0) ^^^ (acc / 256)

/-- `crc_increment` -/
def crcIncT (acc : Nat) (bs : List Nat) : Nat := bs.foldl crcStepT acc

/-- `calc_crc` (`!x` on u16 = xor with 0xFFFF) -/
def calcCrc (bs : List Nat) : Nat := 0xFFFF ^^^ crcIncT 0 bs

/-- `calc_crc_with_0564` -/
def calcCrc0564 (bs : List Nat) : Nat := 0xFFFF ^^^ crcIncT Gen.crcOf0564 bs

end Dnp3
