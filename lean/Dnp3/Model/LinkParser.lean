import Dnp3.Model.LinkFrame
/-!
# Link parser — model of `dnp3/src/link/parser.rs`

`parseImpl` is one call of `Parser::parse_impl` on the unread bytes: it returns the new parser
state, the bytes left unread, and the result.  The Rust loop makes at most four state
transitions per call (sync1 → sync2 → header → body), so the model is four nested functions.
`parse` adds the discard-mode loop of `Parser::parse`: on an error roll the cursor back to the
start of *this call*, skip one octet, reset the state, retry.
-/
namespace Dnp3

inductive PState where
  | sync1 | sync2 | header
  | body (h : LHeader) (trailer : Nat)
deriving DecidableEq, Repr, Inhabited

inductive PErr where
  | start1 (b : Nat) | start2 (b : Nat) | badLen (n : Nat) | hdrCrc | bodyCrc | logic
deriving DecidableEq, Repr, Inhabited

inductive ErrMode where | discard | close
deriving DecidableEq, Repr, Inhabited

abbrev PResult := Except PErr (Option (LHeader × List Nat))

/-- `calc_trailer_length` -/
def calcTrailerLength (dataLen : Nat) : Nat :=
  let d := dataLen / 16
  let m := dataLen % 16
  if m = 0 then d * 18 else d * 18 + m + 2

def rd16 (lo hi : Nat) : Nat := lo + 256 * hi

/-- verify one trailer: blocks of 18 (`body.chunks(18)`), each `data ++ crc`.
    `none` = a CRC mismatch, `some payload` otherwise; fuel = length -/
def checkBody : Nat → List Nat → Except PErr (List Nat)
  | 0, _ => .ok []
  | _, [] => .ok []
  | fuel+1, bs =>
    let blk := bs.take 18
    if blk.length < 3 then .error .logic else
    let data := blk.take (blk.length - 2)
    let crc := blk.drop (blk.length - 2)
    match crc with
    | [lo, hi] =>
      if rd16 lo hi ≠ calcCrc data then .error .bodyCrc else
      match checkBody fuel (bs.drop 18) with
      | .ok rest => .ok (data ++ rest)
      | .error e => .error e
    | _ => .error .logic

/-- `parse_body` -/
def parseBody (h : LHeader) (trailer : Nat) (bs : List Nat) : PState × List Nat × PResult :=
  if bs.length < trailer then (.body h trailer, bs, .ok none) else
  match checkBody trailer (bs.take trailer) with
  | .ok p => (.sync1, bs.drop trailer, .ok (some (h, p)))
  | .error e => (.body h trailer, bs.drop trailer, .error e)

/-- `parse_header` (then falls through to the body state, as the loop in `parse_impl` does) -/
def parseHeader (bs : List Nat) : PState × List Nat × PResult :=
  match bs with
  | len :: ctrl :: d0 :: d1 :: s0 :: s1 :: c0 :: c1 :: rest =>
    if len < 5 then (.header, rest, .error (.badLen len)) else
    if rd16 c0 c1 ≠ calcCrc0564 [len, ctrl, d0, d1, s0, s1] then (.header, rest, .error .hdrCrc) else
    parseBody ⟨ctrl, rd16 d0 d1, rd16 s0 s1⟩ (calcTrailerLength (len - 5)) rest
  | _ => (.header, bs, .ok none)

/-- `parse_sync2` -/
def parseSync2 (bs : List Nat) : PState × List Nat × PResult :=
  match bs with
  | [] => (.sync2, [], .ok none)
  | x :: rest => if x ≠ 0x64 then (.sync2, rest, .error (.start2 x)) else parseHeader rest

/-- `parse_sync1` -/
def parseSync1 (bs : List Nat) : PState × List Nat × PResult :=
  match bs with
  | [] => (.sync1, [], .ok none)
  | x :: rest => if x ≠ 0x05 then (.sync1, rest, .error (.start1 x)) else parseSync2 rest

/-- `Parser::parse_impl` -/
def parseImpl (st : PState) (bs : List Nat) : PState × List Nat × PResult :=
  match st with
  | .sync1 => parseSync1 bs
  | .sync2 => parseSync2 bs
  | .header => parseHeader bs
  | .body h t => parseBody h t bs

/-- the discard-mode retry loop of `Parser::parse`; fuel = number of unread octets -/
def parseDiscard : Nat → PState → List Nat → PState × List Nat × PResult
  | 0, st, bs =>
    match parseImpl st bs with
    | (st', rest, .ok r) => (st', rest, .ok r)
    | (_, _, .error _) => (.sync1, bs.drop 1, .ok none)
  | fuel+1, st, bs =>
    match parseImpl st bs with
    | (st', rest, .ok r) => (st', rest, .ok r)
    | (_, _, .error _) => parseDiscard fuel .sync1 (bs.drop 1)

/-- `Parser::parse` -/
def parse (m : ErrMode) (st : PState) (bs : List Nat) : PState × List Nat × PResult :=
  match m with
  | .close => parseImpl st bs
  | .discard => parseDiscard bs.length st bs

end Dnp3
