import Dnp3.Model.LinkParser
/-!
# Link reader — model of `dnp3/src/link/reader.rs`

The `begin / end` read buffer is modelled by its two cursors plus the list of unread octets
(`pending`, of length `end_ - begin_`); the octets outside `[begin, end)` are never read again,
so they are not part of the state.  `feed` drives the loop of `read_frame` with the octets one
write to the physical layer makes available: every `io.read` takes
`min (cap - end) available` octets (what a read into `writable()` returns), and the loop stops
when a read would block.  Events are what `read_frame` returned, call after call.
-/
namespace Dnp3

inductive ReadMode where | stream | datagram
deriving DecidableEq, Repr, Inhabited

inductive LEvent where
  | frame (h : LHeader) (payload : List Nat)
  | err (e : PErr)
deriving DecidableEq, Repr, Inhabited

structure Reader where
  emode : ErrMode
  rmode : ReadMode
  cap : Nat
  begin_ : Nat := 0
  end_ : Nat := 0
  pending : List Nat := []
  pst : PState := .sync1
  /-- a Close-mode error has been returned: the session is over, nothing more is read -/
  dead : Bool := false
deriving Repr, Inhabited

/-- `num_link_frames` -/
def numLinkFrames (fragSize : Nat) : Nat :=
  if fragSize % 249 = 0 then fragSize / 249 else fragSize / 249 + 1

/-- `read_buffer_size` -/
def readBufferSize (fragSize : Nat) : Nat :=
  let n := numLinkFrames fragSize
  (if n = 0 then 292 else n * 292) + 1

def Reader.new (em : ErrMode) (rm : ReadMode) (fragSize : Nat) : Reader :=
  { emode := em, rmode := rm, cap := readBufferSize fragSize }

/-- `Reader::reset` -/
def Reader.reset (r : Reader) : Reader :=
  { r with begin_ := 0, end_ := 0, pending := [], pst := .sync1, dead := false }

/-- `read_more_data` given the octets available on the physical layer.
    Returns `none` when the read would block (nothing available). -/
def Reader.readMore (r : Reader) (avail : List Nat) : Option (Reader × List Nat) :=
  -- `if self.buffer.is_full() { self.buffer.shift_unread_bytes() }`
  let r := if r.end_ = r.cap then { r with end_ := r.end_ - r.begin_, begin_ := 0 } else r
  let n := min (r.cap - r.end_) avail.length
  if n = 0 then none else
  some ({ r with end_ := r.end_ + n, pending := r.pending ++ avail.take n }, avail.drop n)

/-- the loop of `read_frame`, iterated over successive calls until a read blocks.
    `fuel` bounds the number of loop iterations (each consumes input or returns an event). -/
def Reader.run : Nat → Reader → List Nat → Reader × List LEvent
  | 0, r, _ => (r, [])
  | fuel+1, r, avail =>
    if r.dead then (r, []) else
    if r.end_ - r.begin_ = 0 then
      -- `self.buffer.reset(); read_more_data`
      let r := { r with begin_ := 0, end_ := 0, pending := [] }
      match r.readMore avail with
      | none => (r, [])
      | some (r', avail') => Reader.run fuel r' avail'
    else
      match parse r.emode r.pst r.pending with
      | (_, _, .error e) =>
        -- `parse_buffer` returns before `advance_read`; the session ends
        ({ r with dead := true }, [.err e])
      | (pst', rest, .ok (some (h, p))) =>
        let consumed := r.pending.length - rest.length
        let r' := { r with pst := pst', pending := rest, begin_ := r.begin_ + consumed }
        let (r'', evs) := Reader.run fuel r' avail
        (r'', .frame h p :: evs)
      | (pst', rest, .ok none) =>
        let consumed := r.pending.length - rest.length
        let r' := { r with pst := pst', pending := rest, begin_ := r.begin_ + consumed }
        let r' := if r.rmode = .datagram then
                    { r' with begin_ := 0, end_ := 0, pending := [], pst := .sync1 } else r'
        match r'.readMore avail with
        | none => (r', [])
        | some (r'', avail') => Reader.run fuel r'' avail'

/-- one write of `chunk` to the physical layer, then `read_frame` called until it blocks -/
def Reader.feed (r : Reader) (chunk : List Nat) : Reader × List LEvent :=
  Reader.run (3 * chunk.length + r.pending.length + 4) r chunk

/-- successive writes -/
def Reader.feedAll (r : Reader) : List (List Nat) → Reader × List LEvent
  | [] => (r, [])
  | c :: cs =>
    let (r', e) := r.feed c
    let (r'', es) := Reader.feedAll r' cs
    (r'', e ++ es)

end Dnp3
