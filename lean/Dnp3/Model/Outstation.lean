import Dnp3.Model.AppRequest
import Dnp3.Model.Database
/-!
# Outstation session — model of `dnp3/src/outstation/session.rs` (+ `control/select.rs`,
`control/collection.rs`, `deferred.rs`, `transport/reader.rs::pop_request`)

The async control flow (`run_idle_state` → request / unsolicited / deferred read / link status
→ wait; `sol_confirm_wait`; `perform_unsolicited_response_series`) is flattened into an explicit
mode plus continuation.  Inputs are: one reassembled application fragment, a clock advance, a
database transaction, a disconnect.  Time is `now : Nat` in ms.  Both transmit buffers are kept
as octet lists because responses are re-sent by re-writing a header over whatever the buffer
now holds.  Application / control-handler answers are scripted (`Script`), identically on both
sides of the correspondence.
-/
namespace Dnp3

structure OCfg where
  sol : Nat := 2048
  unsol : Nat := 2048
  unsolicited : Bool := false
  retries : Option Nat := none
  ctimeout : Nat := 5000
  stimeout : Nat := 5000
  rdelay : Nat := 5000
  keepalive : Option Nat := none
  anymaster : Bool := false
  broadcast : Bool := true
  maxctl : Option Nat := none
  master : Nat := 1
  maxReadHeaders : Nat := 64
deriving Repr, Inhabited

/-- scripted environment: what the application / control handler answer -/
structure Script where
  appIin : Nat := 0              -- need_time=1 local=2 trouble=4 corrupt=8
  ctl : List Nat := []           -- command statuses, cyclic
  ctlPos : Nat := 0
  delayMs : Nat := 0
  restart : Nat := 0             -- 0 unsupported, 1 seconds(7), 2 milliseconds(9)
  timeResult : Nat := 0          -- 0 ok, 1 not supported, 2 parameter error
deriving Repr, Inhabited

structure Resp where
  ctrl : AppCtrl
  func : Nat          -- 0x81 | 0x82
  iin1 : Nat := 0
  iin2 : Nat := 0
  size : Nat := 0     -- total octets incl. the 4-octet header when objects were written, else 0
deriving Repr, Inhabited

structure Series where
  ecsn : Nat
  fin : Bool
deriving DecidableEq, Repr, Inhabited

structure LastReq where
  seq : Nat
  frag : List Nat          -- stands for the xxh64 digest of the raw fragment
  response : Option Resp
  series : Option Series
deriving Repr, Inhabited

structure Sel where
  seq : Nat
  frameId : Nat
  time : Nat
  objects : List Nat       -- stands for the digest of the raw object octets
deriving Repr, Inhabited

inductive UnsolState where
  | nullRequired
  | ready (deadline : Option Nat)
deriving Repr, Inhabited

structure Deferred where
  frag : List Nat
  seq : Nat
  addr : Nat
  iin2 : Nat
  hdrs : List ReadHdr
deriving Repr, Inhabited

/-- `NextIdleAction` -/
inductive NextIdle where
  | noSleep | untilEvent | until (t : Nat)
deriving Repr, Inhabited

def NextIdle.earliest (n : NextIdle) (t : Option Nat) : NextIdle :=
  match t with
  | none => n
  | some t => match n with
    | .noSleep => .noSleep
    | .untilEvent => .until t
    | .until o => .until (min t o)

inductive SolCont where
  | fromRequest
  | fromDeferred (next : NextIdle)
deriving Repr, Inhabited

inductive Mode where
  | idle (next : NextIdle)
  | solWait (series : Series) (deadline : Nat) (cont : SolCont)
  | unsolWait (resp : Resp) (isNull : Bool) (retries : Option Nat) (deadline : Nat)
  /-- a panic unwound the task: nothing runs any more -/
  | dead
deriving Repr, Inhabited

structure Frag where
  id : Nat
  src : Nat
  broadcast : Option Nat
  data : List Nat
deriving Repr, Inhabited

structure OState where
  cfg : OCfg
  script : Script := {}
  now : Nat := 0
  mode : Mode := .idle .noSleep
  restart : Bool := true
  en1 : Bool := false
  en2 : Bool := false
  en3 : Bool := false
  lastReq : Option LastReq := none
  select : Option Sel := none
  unsol : UnsolState := .nullRequired
  unsolSeq : Nat := 0
  deferred : Option Deferred := none
  lastRecorded : Option Nat := none
  lastBroadcast : Option Nat := none
  /-- `reported_broadcast` of `perform_unsolicited_response_series`: the unsolicited response awaiting
      its confirm carried IIN1.0 and no broadcast was received since it was written -/
  unsolReported : Bool := false
  solBuf : List Nat
  unsolBuf : List Nat
  db : Db
  /-- transport assembler's frame counter -/
  frameId : Nat := 0
  nextLinkStatus : Option Nat := none
  pending : Option Frag := none
  notified : Bool := false
deriving Repr, Inhabited

inductive CtlKind where | select | sbo | dop | donr
deriving DecidableEq, Repr

inductive FreezeKind where | immediate | clear | atTime
deriving DecidableEq, Repr

inductive BAction where | processed | ignoredByConfig | badHeaders | unsupported
deriving DecidableEq, Repr

/-- callbacks into the application / information / control handler, in program order -/
inductive Cb where
  | beginFragment | endFragment
  /-- `ControlSupport::select` / `operate` for one object, with the status the handler returned -/
  | control (kind : CtlKind) (g v idx : Nat) (obj : List Nat) (status : Nat)
  | writeTime (t : Nat)
  | clearRestartIin
  | coldRestart | warmRestart
  | freezeAll (k : FreezeKind)
  | freezeRange (a b : Nat) (k : FreezeKind)
  | beginConfirm
  | eventCleared (id : Nat)
  | endConfirm (c1 c2 c3 : Nat)
  | broadcast (func : Nat) (action : BAction)
  | solWait (ecsn : Nat) | solTimeout (ecsn : Nat) | solConfirmed (ecsn : Nat) | solNewRequest
  | solWrongSeq (ecsn seq : Nat) | unexpectedConfirm (uns : Bool) (seq : Nat)
  | unsolWait (seq : Nat) | unsolTimeout (seq : Nat) (retry : Bool) | unsolConfirmed (seq : Nat)
  | modelFuelExhausted
deriving DecidableEq, Repr

inductive OOut where
  | cb (c : Cb)
  | tx (dst : Nat) (bytes : List Nat)
  | txLink (ctrl dst src : Nat)
  | line (s : String)
  | panic
deriving Repr, Inhabited

def OState.init (cfg : OCfg) (evMax : Nat) : OState :=
  { cfg := cfg, solBuf := List.replicate cfg.sol 0, unsolBuf := List.replicate cfg.unsol 0,
    db := Db.new evMax none, nextLinkStatus := cfg.keepalive }

abbrev Acc := OState × List OOut

def emit (a : Acc) (o : OOut) : Acc := (a.1, a.2 ++ [o])
def emitCb (a : Acc) (c : Cb) : Acc := emit a (.cb c)

/-- overwrite `buf` from offset `off` with `data` (a write through a cursor; the caller made
    sure it fits) -/
def writeAt (buf : List Nat) (off : Nat) (data : List Nat) : List Nat :=
  buf.take off ++ data ++ buf.drop (off + data.length)

def respHeader (r : Resp) : List Nat := [r.ctrl.toNat, r.func, r.iin1, r.iin2]

def emptySolicited (seq : Nat) (iin2 : Nat) : Resp :=
  { ctrl := ⟨true, true, false, false, seq⟩, func := 0x81, iin2 := iin2 }

/-- `on_link_activity` -/
def onLinkActivity (s : OState) : OState :=
  { s with nextLinkStatus := s.cfg.keepalive.map (· + s.now) }

/-- `get_response_iin`; `none` = the checked subtraction in `unwritten_classes` panics -/
def getResponseIin (s : OState) : Option (OState × Nat × Nat) :=
  match s.db.unwrittenClasses with
  | none => none
  | some (c1, c2, c3) =>
    let iin1 := (if s.restart then 0x80 else 0) ||| (if c1 then 0x02 else 0) ||| (if c2 then 0x04 else 0) |||
      (if c3 then 0x08 else 0)
    let iin2 := if s.db.isOverflown then 0x08 else 0
    let (s, iin1) := match s.lastBroadcast with
      | some mode => (if mode ≠ 1 then { s with lastBroadcast := none } else s, iin1 ||| 0x01)
      | none => (s, iin1)
    let a := s.script.appIin
    let iin1 := iin1 ||| (if a &&& 1 ≠ 0 then 0x10 else 0) ||| (if a &&& 2 ≠ 0 then 0x20 else 0) |||
      (if a &&& 4 ≠ 0 then 0x40 else 0)
    let iin2 := iin2 ||| (if a &&& 8 ≠ 0 then 0x20 else 0)
    some (s, iin1, iin2)

/-- `repeat_solicited`: write the header over the buffer, send max(header, size) octets -/
def repeatSolicited (a : Acc) (dst : Nat) (r : Resp) : Acc :=
  let s := a.1
  let buf := writeAt s.solBuf 0 (respHeader r)
  let len := max 4 r.size
  emit ({ s with solBuf := buf }, a.2) (.tx dst (buf.take len))

/-- `write_solicited`; `none` = panic -/
def writeSolicited (a : Acc) (dst : Nat) (r : Resp) : Option (Acc × Resp) :=
  match getResponseIin a.1 with
  | none => none
  | some (s, i1, i2) =>
    let r := { r with iin1 := r.iin1 ||| i1, iin2 := r.iin2 ||| i2 }
    let r := if s.lastBroadcast = some 1 then { r with ctrl := { r.ctrl with con := true } } else r
    some (repeatSolicited (s, a.2) dst r, r)

def repeatUnsolicited (a : Acc) (r : Resp) : Acc :=
  let s := a.1
  let buf := writeAt s.unsolBuf 0 (respHeader r)
  let len := max 4 r.size
  emit ({ s with unsolBuf := buf }, a.2) (.tx s.cfg.master (buf.take len))

def writeUnsolicited (a : Acc) (r : Resp) : Option (Acc × Resp) :=
  match getResponseIin a.1 with
  | none => none
  | some (s, i1, i2) =>
    let r := { r with iin1 := r.iin1 ||| i1, iin2 := r.iin2 ||| i2 }
    some (repeatUnsolicited (s, a.2) r, r)

/-- `format_read_response` -/
def formatReadResponse (s : OState) (fir : Bool) (seq : Nat) (iin2 : Nat) : OState × Resp × Option Series :=
  let (db, bytes, hasEvents, complete) := s.db.writeResponse (s.cfg.sol - 4)
  let buf := writeAt s.solBuf 4 bytes
  let needConfirm := hasEvents || !complete
  let r : Resp := { ctrl := ⟨fir, complete, needConfirm, false, seq⟩, func := 0x81, iin2 := iin2, size := 4 + bytes.length }
  ({ s with db := db, solBuf := buf }, r, if needConfirm then some ⟨seq, complete⟩ else none)

def toReadHdr (h : ObjHdr) : ReadHdr := ⟨h.group, h.var, h.qual, h.a, h.b⟩

/-- `DatabaseHandle::select` over all headers -/
def dbSelectAll (db : Db) : List ObjHdr → Db × Nat
  | [] => (db, 0)
  | h :: hs =>
    let (db, i) := db.select (toReadHdr h)
    let (db, j) := dbSelectAll db hs
    (db, i ||| j)

def nextStatus (s : OState) : OState × Nat :=
  match s.script.ctl with
  | [] => (s, 0)
  | l => ({ s with script := { s.script with ctlPos := s.script.ctlPos + 1 } }, l.getD (s.script.ctlPos % l.length) 0)

/-- is this a control header (`to_control_header`)? -/
def isControlHdr (h : ObjHdr) : Bool :=
  (h.qual = 0x17 || h.qual = 0x28) && ((h.group = 12 && h.var = 1) || (h.group = 41 && 1 ≤ h.var && h.var ≤ 4))

def objSize (g v : Nat) : Nat :=
  match varInfo g v with
  | some { prefixed := some k, .. } => k
  | _ => 0

/-- split the items of a prefixed header: (index octets, object octets) -/
def splitItems (isz osz : Nat) : Nat → List Nat → List (List Nat × List Nat)
  | 0, _ => []
  | n+1, d => (d.take isz, (d.drop isz).take osz) :: splitItems isz osz n (d.drop (isz + osz))

def idxVal (ix : List Nat) : Nat :=
  match ix with
  | [a] => a
  | [a, b] => rdU16 a b
  | _ => 0

def u32le (d : List Nat) : Nat := d.getD 0 0 + 256 * d.getD 1 0 + 65536 * d.getD 2 0 + 16777216 * d.getD 3 0

def toSigned (bits : Nat) (v : Nat) : Int := if v ≥ 2 ^ (bits - 1) then (v : Int) - (2 ^ bits : Nat) else v

/-- canonical text of a control object for callback lines (same as the harness prints) -/
def ctlText (g v : Nat) (idx : Nat) (obj : List Nat) : String :=
  if g = 12 then s!"g12v1 {idx} {obj.getD 0 0} {obj.getD 1 0} {u32le (obj.drop 2)} {u32le (obj.drop 6)}"
  else if v = 1 then s!"g41v1 {idx} {toSigned 32 (u32le obj)}"
  else if v = 2 then s!"g41v2 {idx} {toSigned 16 (obj.getD 0 0 + 256 * obj.getD 1 0)}"
  else if v = 3 then s!"g41v3 {idx} f{u32le obj}"
  else s!"g41v4 {idx} d{u32le obj}:{u32le (obj.drop 4)}"

/-- object with its status octet (the last one) replaced -/
def withStatus (obj : List Nat) (st : Nat) : List Nat := obj.take (obj.length - 1) ++ [st]

structure CtlRun where
  acc : Acc
  /-- octets written after the response header so far -/
  out : List Nat := []
  cap : Nat
  started : Bool := false
  num : Nat := 0
  status : Nat := 0      -- first error
  /-- a write did not fit: `WriteError` -/
  overflow : Bool := false

def firstError (a b : Nat) : Nat := if a = 0 then b else a

/-- one header of `select_with_response` / `operate_with_response` / `operate_no_ack` /
    `respond_with_status` (kind = none) -/
def ctlHeader (kind : Option CtlKind) (fixedStatus : Nat) (maxctl : Option Nat) (h : ObjHdr) (r : CtlRun) : CtlRun :=
  let isz := if h.qual = 0x17 then 1 else 2
  let osz := objSize h.group h.var
  let items := splitItems isz osz h.a h.data
  let hdrBytes := [h.group, h.var, h.qual]
  let rec go (items : List (List Nat × List Nat)) (r : CtlRun) (count : Nat) (hdrOut : List Nat) (body : List Nat) : CtlRun :=
    match items with
    | [] => { r with out := r.out ++ hdrOut ++ body }
    | (ix, obj) :: rest =>
      if r.overflow then { r with out := r.out ++ hdrOut ++ body } else
      -- status: handler callback, TooManyOps, or the fixed status
      let (r, st, called) : CtlRun × Nat × Bool :=
        match kind with
        | none => (r, fixedStatus, false)
        | some k =>
          if (match maxctl with | none => true | some m => r.num < m) then
            let (s', st) := nextStatus r.acc.1
            let acc : Acc := (s', r.acc.2)
            let acc := if r.started then acc else emitCb acc .beginFragment
            let acc := emitCb acc (.control k h.group h.var (idxVal ix) obj st)
            ({ r with acc := acc, started := true }, st, true)
          else (r, 8, false)
      let _ := called
      if kind = some .donr then
        go rest { r with num := r.num + 1 } count hdrOut body
      else
        -- PrefixWriter::write (transactional): header on the first item, then index, object, patched count
        let newHdr := if count = 0 then hdrBytes ++ (if isz = 1 then [0] else [0, 0]) else hdrOut
        let item := ix ++ withStatus obj st
        let total := r.out.length + newHdr.length + body.length + item.length
        if total > r.cap then
          { r with overflow := true, out := r.out ++ hdrOut ++ body, num := r.num + 1, status := firstError r.status st }
        else
          let c := count + 1
          let cnt := if isz = 1 then [c % 256] else [c % 256, c / 256 % 256]
          let newHdr := hdrBytes ++ cnt
          go rest { r with num := r.num + 1, status := firstError r.status st } c newHdr (body ++ item)
  go items r 0 [] []

def ctlAll (kind : Option CtlKind) (fixedStatus : Nat) (maxctl : Option Nat) (hs : List ObjHdr) (r : CtlRun) : CtlRun :=
  hs.foldl (fun r h => if r.overflow then r else ctlHeader kind fixedStatus maxctl h r) r

/-- `ControlTransaction::execute` epilogue -/
def ctlFinish (r : CtlRun) : CtlRun :=
  if r.started then { r with acc := emitCb r.acc .endFragment } else r


/-- bits of a ranged bit-packed object (LSB first) -/
def bitAt (data : List Nat) (i : Nat) : Bool := (data.getD (i / 8) 0 >>> (i % 8)) &&& 1 = 1

def u48le (d : List Nat) : Nat :=
  d.getD 0 0 + 256 * d.getD 1 0 + 65536 * d.getD 2 0 + 16777216 * d.getD 3 0 +
  4294967296 * d.getD 4 0 + 1099511627776 * d.getD 5 0

def timeResultIin (s : OState) : Nat :=
  if s.script.timeResult = 0 then 0 else if s.script.timeResult = 1 then iin2NoFunc else iin2ParamError

/-- `handle_write_iin` -/
def handleWriteIin (a : Acc) (start stop : Nat) (data : List Nat) : Acc × Nat :=
  (List.range (stop - start + 1)).foldl (fun (p : Acc × Nat) i =>
    let index := start + i
    let value := bitAt data i
    if index = 7 then
      if value then (p.1, p.2 ||| iin2ParamError)
      else (emitCb ({ p.1.1 with restart := false }, p.1.2) .clearRestartIin, p.2)
    else (p.1, p.2 ||| iin2ParamError)) (a, 0)

/-- `handle_single_write_header` -/
def handleWriteHeader (a : Acc) (h : ObjHdr) : Acc × Nat :=
  if h.group = 80 ∧ h.var = 1 ∧ h.qual = 0x00 then handleWriteIin a h.a h.b h.data
  else if h.group = 50 ∧ h.var = 1 ∧ h.qual = 0x07 then
    if h.a = 1 then
      (emitCb a (.writeTime (u48le h.data)), timeResultIin a.1)
    else (a, iin2ParamError)
  else if h.group = 50 ∧ h.var = 3 ∧ h.qual = 0x07 then
    if h.a ≠ 1 then (a, iin2ParamError) else
    match a.1.lastRecorded with
    | none => (a, iin2ParamError)
    | some t0 =>
      let ts := u48le h.data + (a.1.now - t0)
      if ts > 281474976710655 then (a, iin2ParamError) else
      (emitCb ({ a.1 with lastRecorded := none }, a.2) (.writeTime ts), timeResultIin a.1)
  else (a, iin2NoFunc)

/-- `handle_write`: the IIN2 results of all headers are accumulated (`iin2 |= …`) -/
def handleWrite (a : Acc) (seq : Nat) (hs : List ObjHdr) : Acc × Resp :=
  let (a, iin2) := hs.foldl (fun (p : Acc × Nat) h => let (a', i) := handleWriteHeader p.1 h; (a', p.2 ||| i)) (a, 0)
  (a, emptySolicited seq iin2)

def handleFreezeHeader (a : Acc) (kind : FreezeKind) (h : ObjHdr) : Acc × Nat :=
  if h.group = 20 ∧ h.var = 0 ∧ h.qual = 0x06 then (emitCb a (.freezeAll kind), 0)
  else if h.group = 20 ∧ h.var = 0 ∧ (h.qual = 0x00 ∨ h.qual = 0x01) then (emitCb a (.freezeRange h.a h.b kind), 0)
  else (a, iin2NoFunc)

def handleFreeze (a : Acc) (seq : Nat) (kind : FreezeKind) (hs : List ObjHdr) : Acc × Resp :=
  let (a, iin2) := hs.foldl (fun (p : Acc × Nat) h => let (a', i) := handleFreezeHeader p.1 kind h; (a', p.2 ||| i)) (a, 0)
  (a, emptySolicited seq iin2)

/-- `handle_freeze_at_time`: a g50v2 header with exactly one object sets the timing, a header of another kind
    is frozen only after one; the IIN2 results of all headers are accumulated -/
def handleFreezeAtTime (a : Acc) (seq : Nat) (hs : List ObjHdr) : Acc × Resp :=
  let r := hs.foldl (fun (p : Acc × Nat × Bool) h =>
    if h.group = 50 ∧ h.var = 2 then
      if h.a = 1 then (p.1, p.2.1, true) else (p.1, p.2.1 ||| iin2ParamError, p.2.2)
    else if p.2.2 then
      let (a', i) := handleFreezeHeader p.1 .atTime h
      (a', p.2.1 ||| i, true)
    else (p.1, p.2.1 ||| iin2ParamError, false)) (a, 0, false)
  (r.1, emptySolicited seq r.2.1)

def handleEnableDisable (a : Acc) (enable : Bool) (seq : Nat) (hs : List ObjHdr) : Acc × Resp :=
  if !a.1.cfg.unsolicited then (a, emptySolicited seq iin2NoFunc) else
  let (s, iin2) := hs.foldl (fun (p : OState × Nat) h =>
    if h.group = 60 ∧ h.qual = 0x06 ∧ h.var = 2 then ({ p.1 with en1 := enable }, p.2)
    else if h.group = 60 ∧ h.qual = 0x06 ∧ h.var = 3 then ({ p.1 with en2 := enable }, p.2)
    else if h.group = 60 ∧ h.qual = 0x06 ∧ h.var = 4 then ({ p.1 with en3 := enable }, p.2)
    else (p.1, p.2 ||| iin2NoFunc)) (a.1, 0)
  ((s, a.2), emptySolicited seq iin2)

def singleResponse (seq iin2 size : Nat) : Resp :=
  { ctrl := ⟨true, true, false, false, seq⟩, func := 0x81, iin2 := iin2, size := size }

/-- response carrying one count-of-one object written at offset 4 -/
def countOfOne (a : Acc) (seq : Nat) (g v : Nat) (value : Nat) : Acc × Resp :=
  let bytes := [g, v, 0x07, 1, value % 256, value / 256 % 256]
  (({ a.1 with solBuf := writeAt a.1.solBuf 4 bytes }, a.2), singleResponse seq 0 10)

def handleRestart (a : Acc) (seq : Nat) (name : Cb) : Acc × Resp :=
  let a := emitCb a name
  if a.1.script.restart = 0 then (a, emptySolicited seq iin2NoFunc)
  else if a.1.script.restart = 1 then countOfOne a seq 52 1 7
  else countOfOne a seq 52 2 9

/-- `SelectState::match_operate`: `none` = ok, `some status` otherwise -/
def matchOperate (sel : Sel) (timeout now seq frameId : Nat) (objects : List Nat) : Option Nat :=
  if seq4Next sel.seq ≠ seq then some 2
  else if (sel.frameId + 1) % 4294967296 ≠ frameId then some 2
  else if sel.objects ≠ objects then some 2
  else if now - sel.time > timeout then some 1
  else none

/-- the four control functions.  The outer `Option` is kept for the callers' plumbing (`none` = panic);
    since `handle_operate` keeps its `Result<CommandStatus, WriteError>` like `handle_select` /
    `handle_direct_operate` (D1 repaired) no path returns `none`: an echo that does not fit the
    solicited buffer is truncated for all three functions (`r.overflow`; D13) -/
def handleControls (a : Acc) (func seq frameId : Nat) (hs : List ObjHdr) (raw : List Nat) : Option (Acc × Option Resp) :=
  if !(hs.all isControlHdr) then
    some (a, if func = 6 then none else some (emptySolicited seq iin2ParamError))
  else
  let cap := a.1.cfg.sol - 4
  let finish (r : CtlRun) (iin2 : Nat) : Acc × Option Resp :=
    let r := ctlFinish r
    (({ r.acc.1 with solBuf := writeAt r.acc.1.solBuf 4 r.out }, r.acc.2), some (singleResponse seq iin2 (4 + r.out.length)))
  if func = 3 then
    let r := ctlAll (some .select) 0 a.1.cfg.maxctl hs { acc := a, cap := cap }
    let r := ctlFinish r
    let s := r.acc.1
    let s := if !r.overflow ∧ r.status = 0 then { s with select := some ⟨seq, frameId, s.now, raw⟩ } else s
    let iin2 := if !r.overflow ∧ r.status = 4 then iin2ParamError else 0
    some (({ s with solBuf := writeAt s.solBuf 4 r.out }, r.acc.2), some (singleResponse seq iin2 (4 + r.out.length)))
  else if func = 4 then
    let verdict : Option Nat := match a.1.select with
      | none => some 2
      | some sel => matchOperate sel a.1.cfg.stimeout a.1.now seq frameId raw
    match verdict with
    | some st =>
      -- `respond_with_status(..).map(|_| status)`: `Err` when the echo overflows
      let r := ctlAll none st none hs { acc := a, cap := cap }
      some (finish r (if !r.overflow ∧ st = 4 then iin2ParamError else 0))
    | none =>
      let r := ctlAll (some .sbo) 0 a.1.cfg.maxctl hs { acc := a, cap := cap }
      some (finish r (if !r.overflow ∧ r.status = 4 then iin2ParamError else 0))
  else if func = 5 then
    let r := ctlAll (some .dop) 0 a.1.cfg.maxctl hs { acc := a, cap := cap }
    some (finish r (if !r.overflow ∧ r.status = 4 then iin2ParamError else 0))
  else
    let r := ctlAll (some .donr) 0 a.1.cfg.maxctl hs { acc := a, cap := cap }
    some ((ctlFinish r).acc, none)

/-- `handle_non_read`; outer `none` = panic -/
def handleNonRead (a : Acc) (func seq frameId : Nat) (hs : List ObjHdr) (raw : List Nat) : Option (Acc × Option Resp) :=
  let res : Option (Acc × Option Resp) :=
    if func = 2 then let (a, r) := handleWrite a seq hs; some (a, some r)
    else if func = 23 then let (a, r) := countOfOne a seq 52 2 a.1.script.delayMs; some (a, some r)
    else if func = 24 then some (({ a.1 with lastRecorded := some a.1.now }, a.2), some (emptySolicited seq 0))
    else if func = 13 then let (a, r) := handleRestart a seq .coldRestart; some (a, some r)
    else if func = 14 then let (a, r) := handleRestart a seq .warmRestart; some (a, some r)
    else if func = 3 ∨ func = 4 ∨ func = 5 ∨ func = 6 then handleControls a func seq frameId hs raw
    else if func = 7 then let (a, r) := handleFreeze a seq .immediate hs; some (a, some r)
    else if func = 8 then let (a, _) := handleFreeze a seq .immediate hs; some (a, none)
    else if func = 9 then let (a, r) := handleFreeze a seq .clear hs; some (a, some r)
    else if func = 10 then let (a, _) := handleFreeze a seq .clear hs; some (a, none)
    else if func = 11 then let (a, r) := handleFreezeAtTime a seq hs; some (a, some r)
    else if func = 12 then let (a, _) := handleFreezeAtTime a seq hs; some (a, none)
    else if func = 20 then let (a, r) := handleEnableDisable a true seq hs; some (a, some r)
    else if func = 21 then let (a, r) := handleEnableDisable a false seq hs; some (a, some r)
    else some (a, some (emptySolicited seq iin2NoFunc))
  match res with
  | none => none
  | some (a, none) => some (a, none)
  | some (a, some r) =>
    let extra := if objectsAllowed func then 0 else if raw.isEmpty then 0 else iin2ParamError
    some (a, some { r with iin2 := r.iin2 ||| extra })


inductive FragType where
  | malformed (iin2 : Nat)
  | newRead (hs : List ObjHdr)
  | repeatRead (resp : Option Resp) (hs : List ObjHdr)
  | newNonRead (hs : List ObjHdr)
  | repeatNonRead (resp : Option Resp)
  | broadcast (mode : Nat)
  | solConfirm (seq : Nat)
  | unsolConfirm (seq : Nat)

/-- `classify` -/
def classify (s : OState) (f : Frag) (ctrl : AppCtrl) (func : Nat) (objects : Except Nat (List ObjHdr)) : FragType :=
  if func = 0 then (if ctrl.uns then .unsolConfirm ctrl.seq else .solConfirm ctrl.seq) else
  match f.broadcast with
  | some m => .broadcast m
  | none =>
    match objects with
    | .error e => .malformed e
    | .ok hs =>
      let dup := match s.lastReq with
        | some last => if last.seq = ctrl.seq ∧ last.frag = f.data then some last.response else none
        | none => none
      match dup with
      | some resp => if func = 1 then .repeatRead resp hs else .repeatNonRead resp
      | none => if func = 1 then .newRead hs else .newNonRead hs

/-- `process_broadcast`; `none` = panic -/
def processBroadcast (a : Acc) (f : Frag) (mode : Nat) (ctrl : AppCtrl) (func : Nat)
    (objects : Except Nat (List ObjHdr)) (raw : List Nat) : Option Acc :=
  let a : Acc := ({ a.1 with lastBroadcast := some mode }, a.2)
  if !a.1.cfg.broadcast then some (emitCb a (.broadcast func .ignoredByConfig)) else
  match objects with
  | .error _ => some (emitCb a (.broadcast func .badHeaders))
  | .ok hs =>
    let seq := ctrl.seq
    let done (a : Acc) : Option Acc := some (emitCb a (.broadcast func .processed))
    if func = 2 then done (handleWrite a seq hs).1
    else if func = 6 then
      match handleControls a 6 seq f.id hs raw with
      | none => none
      | some (a, _) => done a
    else if func = 8 then done (handleFreeze a seq .immediate hs).1
    else if func = 10 then done (handleFreeze a seq .clear hs).1
    else if func = 12 then done (handleFreezeAtTime a seq hs).1
    else if func = 24 then done ({ a.1 with lastRecorded := some a.1.now }, a.2)
    else if func = 21 then done (handleEnableDisable a false seq hs).1
    else if func = 20 then done (handleEnableDisable a true seq hs).1
    else some (emitCb a (.broadcast func .unsupported))

/-- `clear_written_events` with the application callbacks -/
def clearWrittenEvents (a : Acc) : Acc :=
  let a := emitCb a .beginConfirm
  let (db, ids, (c1, c2, c3)) := a.1.db.clearWritten
  let a : Acc := ({ a.1 with db := db }, a.2)
  let a := ids.foldl (fun a id => emitCb a (.eventCleared id)) a
  emitCb a (.endConfirm c1 c2 c3)

/-- `write_error_response` for a `TransportRequest::Error`; `none` = panic.  A broadcast fragment is
    never answered -/
def writeErrorResponse (a : Acc) (dst : Nat) (broadcast : Bool) (seq : Option Nat) : Option Acc :=
  if broadcast then some a else
  match seq with
  | none => some a
  | some seq =>
    match writeSolicited a dst (emptySolicited seq iin2NoFunc) with
    | none => none
    | some (a, _) => some a

/-- what `pop_request` + `guard.get()` yields -/
inductive Popped where
  | nothing
  | error (src : Nat) (broadcast : Bool) (seq : Option Nat)
  | request (f : Frag) (ctrl : AppCtrl) (func : Nat) (objects : Except Nat (List ObjHdr)) (raw : List Nat)

/-- `pop_request(required_master_address)`: peek, parse, drop the fragments of a foreign master
    (requests and fragments with a header-level error alike) -/
def popRequest (s : OState) : OState × Popped :=
  match s.pending with
  | none => (s, .nothing)
  | some f =>
    if !s.cfg.anymaster ∧ f.src ≠ s.cfg.master then ({ s with pending := none }, .nothing) else
    match parseRequest f.data with
    | .insufficient => (s, .error f.src f.broadcast.isSome none)
    | .headerError seq => (s, .error f.src f.broadcast.isSome (some seq))
    | .request ctrl func objects raw => (s, .request f ctrl func objects raw)

inductive StepRes where
  | blocked (a : Acc)
  | panicked (a : Acc)

def die (a : Acc) : StepRes := .panicked (emit ({ a.1 with mode := .dead }, a.2) .panic)

/-- enter `sol_confirm_wait` -/
def enterSolWait (a : Acc) (series : Series) (cont : SolCont) : Acc :=
  let a := emitCb a (.solWait series.ecsn)
  ({ a.1 with mode := .solWait series (a.1.now + a.1.cfg.ctimeout) cont }, a.2)

/-- `process_request_from_idle` + the writing part of `handle_one_request_from_idle`.
    Returns the accumulator and the series to wait on; `none` = panic.  The `Bool` beside the
    request record is `ResponseType::Echo`: the stored response of a repeated non-READ request
    goes out verbatim (`repeat_solicited`), every other response through `write_solicited` -/
def handleRequestFromIdle (a : Acc) (f : Frag) (ctrl : AppCtrl) (func : Nat)
    (objects : Except Nat (List ObjHdr)) (raw : List Nat) : Option (Acc × Option Series) :=
  let seq := ctrl.seq
  let result : Option (Acc × Option (LastReq × Bool)) :=
    match classify a.1 f ctrl func objects with
    | .malformed e => some (a, some (⟨seq, f.data, some (emptySolicited seq e), none⟩, false))
    | .newRead hs | .repeatRead _ hs =>
      let (db, iin2) := dbSelectAll a.1.db hs
      let (s, r, series) := formatReadResponse { a.1 with db := db } true seq iin2
      some ((s, a.2), some (⟨seq, f.data, some r, series⟩, false))
    | .newNonRead hs =>
      match handleNonRead a func seq f.id hs raw with
      | none => none
      | some (a, r) => some (a, some (⟨seq, f.data, r, none⟩, false))
    | .repeatNonRead last =>
      let s := a.1
      -- only a retransmission of the stored SELECT itself (function, sequence number, object octets,
      -- directly following it) moves the select's frame id (`update_frame_id_on_repeat`)
      let s := match s.select with
        | some sel =>
          if func = 3 ∧ sel.seq = seq ∧ (sel.frameId + 1) % 4294967296 = f.id ∧ sel.objects = raw then
            { s with select := some { sel with frameId := f.id } }
          else s
        | none => s
      -- the record of the request stays as it is, including the confirm wait its response opened
      some ((s, a.2), some (⟨seq, f.data, last, s.lastReq.bind (·.series)⟩, true))
    | .broadcast mode =>
      match processBroadcast a f mode ctrl func objects raw with
      | none => none
      | some a => some (a, none)
    | .solConfirm _ | .unsolConfirm _ => some (a, none)
  match result with
  | none => none
  | some (a, none) => some (a, none)
  | some (a, some (lr, echo)) =>
    match lr.response with
    | none => some (({ a.1 with lastReq := some lr }, a.2), lr.series)
    | some r =>
      if echo then
        let a := repeatSolicited a f.src r
        some (({ a.1 with lastReq := some lr }, a.2), lr.series)
      else
      match writeSolicited a f.src r with
      | none => none
      | some (a, r) =>
        let series := if r.ctrl.con ∧ lr.series.isNone then some ⟨r.ctrl.seq, true⟩ else lr.series
        some (({ a.1 with lastReq := some { lr with response := some r, series := series } }, a.2), series)

/-- start an unsolicited series -/
def startUnsolSeries (a : Acc) (r : Resp) (isNull : Bool) : Option Acc :=
  match writeUnsolicited a r with
  | none => none
  | some (a, r) =>
    let a := emitCb a (.unsolWait r.ctrl.seq)
    let retries := if isNull then some 0 else a.1.cfg.retries
    some ({ a.1 with mode := .unsolWait r isNull retries (a.1.now + a.1.cfg.ctimeout),
                     unsolReported := r.iin1.testBit 0 }, a.2)

def unsolHeader (seq : Nat) (size : Nat) : Resp :=
  { ctrl := ⟨true, true, true, true, seq⟩, func := 0x82, size := size }

/-- `check_unsolicited` up to the point where it either blocks in a series (`inl`) or yields the
    next idle action (`inr`); `none` = panic -/
def checkUnsolicited (a : Acc) : Option (Acc ⊕ (Acc × NextIdle)) :=
  let s := a.1
  if !s.cfg.unsolicited then some (.inr (a, .untilEvent)) else
  match s.unsol with
  | .nullRequired =>
    let seq := s.unsolSeq
    let a : Acc := ({ s with unsolSeq := seq4Next seq }, a.2)
    match startUnsolSeries a (unsolHeader seq 0) true with
    | none => none
    | some a => some (.inl a)
  | .ready deadline =>
    if (match deadline with | some d => decide (s.now < d) | none => false) then
      some (.inr (a, .until (deadline.getD 0)))
    else if !(s.en1 || s.en2 || s.en3) then some (.inr (a, .untilEvent)) else
    let (db, bytes, count) := s.db.writeUnsolicited s.en1 s.en2 s.en3 (s.cfg.unsol - 4)
    let s := { s with db := db, unsolBuf := writeAt s.unsolBuf 4 bytes }
    if count = 0 then some (.inr ((s, a.2), .untilEvent)) else
    let seq := s.unsolSeq
    let a : Acc := ({ s with unsolSeq := seq4Next seq }, a.2)
    match startUnsolSeries a (unsolHeader seq (4 + bytes.length)) false with
    | none => none
    | some a => some (.inl a)

/-- the tail of `check_unsolicited` once a series ended: confirmed, or timeout / return to idle -/
def afterUnsolSeries (a : Acc) (isNull : Bool) (confirmed : Bool) : Acc × NextIdle :=
  if isNull then
    (({ a.1 with unsol := if confirmed then .ready none else .nullRequired }, a.2), .noSleep)
  else if confirmed then
    let a := clearWrittenEvents a
    (({ a.1 with unsol := .ready none }, a.2), .noSleep)
  else
    -- `Timeout` / `ReturnToIdle` of a data series: `database.reset()` (nothing it carried stays `Written`)
    let t := a.1.now + a.1.cfg.rdelay
    (({ a.1 with db := a.1.db.reset, unsol := .ready (some t) }, a.2), .until t)

/-- `handle_deferred_read`: `inl` = blocked in a confirm wait; `none` = panic -/
def handleDeferredRead (a : Acc) (next : NextIdle) : Option (Acc ⊕ Acc) :=
  match a.1.deferred with
  | none => some (.inr a)
  | some d =>
    let db := a.1.db.reset
    let (db, iin2) := d.hdrs.foldl (fun (p : Db × Nat) h => let (db', i) := p.1.select h; (db', p.2 ||| i)) (db, 0)
    let s := { a.1 with db := db, deferred := none, notified := true }
    let (s, r, series) := formatReadResponse s true d.seq (d.iin2 ||| iin2)
    match writeSolicited (s, a.2) d.addr r with
    | none => none
    | some (a, r) =>
      let a : Acc := ({ a.1 with lastReq := some ⟨d.seq, d.frag, some r, series⟩ }, a.2)
      let series := if r.ctrl.con ∧ series.isNone then some ⟨r.ctrl.seq, true⟩ else series
      match series with
      | some sr => some (.inl (enterSolWait a sr (.fromDeferred next)))
      | none => some (.inr a)

/-- `check_link_status` and computing what the idle wait is armed with -/
def finishPass (a : Acc) (next : NextIdle) : Acc :=
  let a := match a.1.nextLinkStatus with
    | some t =>
      if t > a.1.now then a
      else
        let a := emit a (.txLink 0x49 a.1.cfg.master 1024)
        (onLinkActivity a.1, a.2)
    | none => a
  ({ a.1 with mode := .idle (next.earliest a.1.nextLinkStatus) }, a.2)

/-- would the idle wait return at once? -/
def idleWakes (s : OState) : Bool :=
  s.pending.isSome || s.notified ||
  (match s.mode with
   | .idle .noSleep => true
   | .idle (.until t) => t ≤ s.now
   | _ => false)

/-- continue the pass after `handle_deferred_read`; `k` = what runs when the idle wait returns at once -/
def afterDeferred (k : Acc → StepRes) (a : Acc) (next : NextIdle) : StepRes :=
  let a := finishPass a next
  if idleWakes a.1 then k a else .blocked a

/-- continue the pass after `check_unsolicited` -/
def afterUnsol (k : Acc → StepRes) (a : Acc) (next : NextIdle) : StepRes :=
  match handleDeferredRead a next with
  | none => die a
  | some (.inl a) => .blocked a
  | some (.inr a) => afterDeferred k a next

/-- continue the pass after `handle_one_request_from_idle` -/
def afterRequest (k : Acc → StepRes) (a : Acc) : StepRes :=
  match checkUnsolicited a with
  | none => die a
  | some (.inl a) => .blocked a
  | some (.inr (a, next)) => afterUnsol k a next

/-- one pass of `run_idle_state` from the top, repeated while the wait returns immediately -/
def runPass : Nat → Acc → StepRes
  | 0, a => .blocked (emitCb a .modelFuelExhausted)
  | fuel+1, a =>
    let a : Acc := ({ a.1 with notified := false }, a.2)
    let (s, p) := popRequest a.1
    let a : Acc := (s, a.2)
    match p with
    | .nothing => afterRequest (runPass fuel) ({ a.1 with pending := none }, a.2)
    | .error src bc seq =>
      let a : Acc := (onLinkActivity { a.1 with pending := none }, a.2)
      match writeErrorResponse a src bc seq with
      | none => die a
      | some a => afterRequest (runPass fuel) a
    | .request f ctrl func objects raw =>
      let a : Acc := (onLinkActivity { a.1 with pending := none }, a.2)
      match handleRequestFromIdle a f ctrl func objects raw with
      | none => die a
      | some (a, some series) => .blocked (enterSolWait a series .fromRequest)
      | some (a, none) => afterRequest (runPass fuel) a


def passFuel : Nat := 64

/-- a confirm wait ended: continue the idle pass where it left off -/
def resumeAfterSol (a : Acc) (cont : SolCont) : StepRes :=
  match cont with
  | .fromRequest => afterRequest (runPass passFuel) a
  | .fromDeferred next => afterDeferred (runPass passFuel) ({ a.1 with deferred := none }, a.2) next

/-- `Confirm::NewRequest` / `Confirm::Timeout`: `database.reset()` and leave the wait -/
def abortSeries (a : Acc) (cont : SolCont) : StepRes :=
  resumeAfterSol ({ a.1 with db := a.1.db.reset }, a.2) cont

/-- a fragment arrived during `sol_confirm_wait` -/
def solWaitOnFragment (a : Acc) (series : Series) (deadline : Nat) (cont : SolCont) : StepRes :=
  let (s, p) := popRequest a.1
  let a : Acc := (s, a.2)
  let newRequest (a : Acc) : StepRes := abortSeries (emitCb a .solNewRequest) cont   -- fragment retained
  match p with
  | .nothing => .blocked ({ a.1 with pending := none }, a.2)
  | .error _ _ _ => newRequest (onLinkActivity a.1, a.2)
  | .request f ctrl func objects _ =>
    let a : Acc := (onLinkActivity a.1, a.2)
    match classify a.1 f ctrl func objects with
    | .malformed _ | .newRead _ | .newNonRead _ | .repeatNonRead _ | .broadcast _ => newRequest a
    | .repeatRead resp _ =>
      let a : Acc := ({ a.1 with pending := none }, a.2)
      let a := match resp with | some r => repeatSolicited a f.src r | none => a
      .blocked ({ a.1 with mode := .solWait series (a.1.now + a.1.cfg.ctimeout) cont }, a.2)
    | .unsolConfirm seq =>
      .blocked (emitCb ({ a.1 with pending := none }, a.2) (.unexpectedConfirm true seq))
    | .solConfirm seq =>
      let a : Acc := ({ a.1 with pending := none }, a.2)
      if seq ≠ series.ecsn then .blocked (emitCb a (.solWrongSeq series.ecsn seq)) else
      let a := emitCb a (.solConfirmed series.ecsn)
      let a := clearWrittenEvents ({ a.1 with lastBroadcast := none }, a.2)
      if series.fin then resumeAfterSol a cont else
      let ecsn := seq4Next series.ecsn
      let (s, r, next) := formatReadResponse a.1 false ecsn 0
      match writeSolicited (s, a.2) f.src r with
      | none => die a
      | some (a, r) =>
        -- the fragment just sent becomes the stored response: a repeat of the READ echoes it
        let a : Acc := ({ a.1 with lastReq := a.1.lastReq.map (fun lr => { lr with response := some r }) }, a.2)
        match next with
        | none => resumeAfterSol a cont
        | some sr => .blocked ({ a.1 with mode := .solWait sr (a.1.now + a.1.cfg.ctimeout) cont }, a.2)
  where deadline_unused := deadline

def solWaitTimeout (a : Acc) (series : Series) (cont : SolCont) : StepRes :=
  abortSeries (emitCb a (.solTimeout series.ecsn)) cont

/-- the unsolicited series ended -/
def finishUnsol (a : Acc) (isNull confirmed : Bool) : StepRes :=
  let (a, next) := afterUnsolSeries a isNull confirmed
  afterUnsol (runPass passFuel) a next

/-- `DeferredRead::set` -/
def deferredSet (s : OState) (f : Frag) (seq : Nat) (hs : List ObjHdr) : OState :=
  let (hdrs, iin2) := hs.foldl (fun (p : List ReadHdr × Nat) h =>
    let rh := toReadHdr h
    if Db.readSupported rh then
      (if p.1.length < s.cfg.maxReadHeaders then p.1 ++ [rh] else p.1, p.2)
    else (p.1, iin2ParamError)) ([], 0)
  { s with deferred := some ⟨f.data, seq, f.src, iin2, hdrs⟩ }

/-- a fragment arrived during the unsolicited confirm wait -/
def unsolWaitOnFragment (a : Acc) (resp : Resp) (isNull : Bool) : StepRes :=
  let (s, p) := popRequest a.1
  let a : Acc := ({ s with pending := none }, a.2)
  match p with
  | .nothing => .blocked a
  | .error src bc seq =>
    match writeErrorResponse ({ a.1 with deferred := none }, a.2) src bc seq with
    | none => die a
    | some a => .blocked a
  | .request f ctrl func objects raw =>
    let a : Acc := (onLinkActivity a.1, a.2)
    match classify a.1 f ctrl func objects with
    | .unsolConfirm seq =>
      if seq = resp.ctrl.seq then
        -- the confirm clears the broadcast indication only if the confirmed response reported it
        finishUnsol (emitCb ({ a.1 with lastBroadcast := if a.1.unsolReported then none else a.1.lastBroadcast }, a.2)
          (.unsolConfirmed seq)) isNull true
      else .blocked a
    | .solConfirm _ =>
      .blocked (if a.1.lastBroadcast = some 1 then ({ a.1 with lastBroadcast := none }, a.2) else a)
    | .broadcast mode =>
      match processBroadcast ({ a.1 with deferred := none }, a.2) f mode ctrl func objects raw with
      | none => die a
      | some a => .blocked ({ a.1 with unsolReported := false }, a.2)   -- `BroadcastReceived`
    | .malformed e =>
      match writeSolicited ({ a.1 with deferred := none }, a.2) f.src (emptySolicited ctrl.seq e) with
      | none => die a
      | some (a, _) => .blocked a
    | .newNonRead hs =>
      match handleNonRead ({ a.1 with deferred := none }, a.2) func ctrl.seq f.id hs raw with
      | none => die a
      | some (a, r) =>
        let written : Option (Acc × Option Resp) :=
          match r with
          | none => some (a, none)
          | some r => match writeSolicited a f.src r with
            | none => none
            | some (a, r) => some (a, some r)
        match written with
        | none => die a
        | some (a, r) =>
          let a : Acc := ({ a.1 with lastReq := some ⟨ctrl.seq, f.data, r, none⟩ }, a.2)
          if func = 21 then finishUnsol a isNull false else .blocked a
    | .newRead hs | .repeatRead _ hs => .blocked (deferredSet a.1 f ctrl.seq hs, a.2)
    | .repeatNonRead last =>
      let a := match last with | some r => repeatSolicited a f.src r | none => a
      .blocked ({ a.1 with deferred := none }, a.2)

def unsolWaitTimeout (a : Acc) (resp : Resp) (isNull : Bool) (retries : Option Nat) : StepRes :=
  let (retries', retry) : Option Nat × Bool :=
    match retries with
    | none => (none, true)
    | some 0 => (some 0, false)
    | some (n+1) => (some n, true)
  let retry := if a.1.deferred.isSome then false else retry
  let a := emitCb a (.unsolTimeout resp.ctrl.seq retry)
  if !retry then finishUnsol a isNull false else
  let a := repeatUnsolicited a resp
  .blocked ({ a.1 with mode := .unsolWait resp isNull retries' (a.1.now + a.1.cfg.ctimeout) }, a.2)

inductive TxnItem where
  | bin (idx : Nat) (v : Bool) (flags : Nat) (time : Nat)
  | an (idx : Nat) (v : Int) (flags : Nat) (time : Nat)
deriving Repr

inductive OInput where
  | rx (src dst : Nat) (data : List Nat)
  | tick (ms : Nat)
  | txn (items : List TxnItem)
  | add (t : PtType) (idx cls : Nat)
  | cut
  | setScript (f : Script → Script)

structure OEnv where
  selfaddr : Bool := false
  rx : Nat := 2048
  outstation : Nat := 1024
deriving Repr, Inhabited

def finishStep (r : StepRes) : OState × List OOut :=
  match r with
  | .blocked a => a
  | .panicked a => a

/-- let whatever is now runnable run -/
def dispatch (a : Acc) : StepRes :=
  match a.1.mode with
  | .dead => .blocked a
  | .idle _ => if idleWakes a.1 then runPass passFuel a else .blocked a
  | .solWait series deadline cont =>
    if a.1.pending.isSome then solWaitOnFragment a series deadline cont
    else if deadline ≤ a.1.now then solWaitTimeout a series cont
    else .blocked a
  | .unsolWait resp isNull retries deadline =>
    if a.1.pending.isSome then unsolWaitOnFragment a resp isNull
    else if deadline ≤ a.1.now then unsolWaitTimeout a resp isNull retries
    else .blocked a

/-- a fragment retained by `Confirm::NewRequest` is still in the transport reader: if the pass
    then blocks in another confirm wait, that wait's `read` returns at once and handles it -/
def settle : Nat → StepRes → StepRes
  | 0, r => r
  | fuel+1, r =>
    match r with
    | .panicked a => .panicked a
    | .blocked a =>
      let inWait := match a.1.mode with
        | .solWait .. => true
        | .unsolWait .. => true
        | _ => false
      if inWait && a.1.pending.isSome then settle fuel (dispatch a) else .blocked a

def updLine (u : UpdInfo) : String :=
  match u with
  | .noPoint => "upd nopoint"
  | .noEvent => "upd noevent"
  | .created id => s!"upd created {id}"
  | .overflow c d => s!"upd overflow {c} {d}"

/-- the model's step function: one input, run to quiescence -/
def Outstation.step (env : OEnv) (s : OState) (inp : OInput) : OState × List OOut :=
  if s.mode matches .dead then
    -- the task is gone (and the database mutex poisoned): nothing happens any more
    (match inp with | .setScript f => { s with script := f s.script } | _ => s, [])
  else
  match inp with
  | .setScript f => ({ s with script := f s.script }, [])
  | .rx src dst data =>
    if s.mode matches .dead then (s, []) else
    let bc : Option (Option Nat) :=
      if dst = env.outstation then some none
      else if dst = 0xFFFC then (if env.selfaddr then some none else none)
      else if dst = 0xFFFF then some (some 0)
      else if dst = 0xFFFE then some (some 1)
      else if dst = 0xFFFD then some (some 2)
      else none
    match bc with
    | none => (s, [])
    | some b =>
      if src ≥ 0xFFF0 ∨ data.isEmpty ∨ data.length > env.rx then (s, []) else
      -- a broadcast fragment must fit one transport segment (FIR and FIN)
      if b.isSome ∧ data.length > 249 then (s, []) else
      let f : Frag := ⟨s.frameId, src, b, data⟩
      let s := { s with frameId := (s.frameId + 1) % 4294967296, pending := some f }
      finishStep (settle 8 (dispatch (s, [])))
  | .tick ms =>
    let s := { s with now := s.now + ms }
    finishStep (settle 8 (dispatch (s, [])))
  | .txn items =>
    let (s, outs) := items.foldl (fun (p : OState × List OOut) it =>
      let (db, u) := match it with
        | .bin idx v flags time => p.1.db.update .binary idx (if v then 1 else 0) flags time
        | .an idx v flags time => p.1.db.update .analog idx v flags time
      ({ p.1 with db := db }, p.2 ++ [.line (updLine u)])) (s, [])
    finishStep (settle 8 (dispatch ({ s with notified := true }, outs)))
  | .add t idx cls =>
    let (db, ok) := s.db.add t idx cls
    finishStep (settle 8 (dispatch ({ s with db := db, notified := true }, [.line s!"add {if ok then 1 else 0}"])))
  | .cut =>
    if s.mode matches .dead then (s, []) else
    -- `OutstationSession::run` on a session error: `state.reset()` and `database.reset()`
    let s := { s with db := s.db.reset, lastReq := none, select := none, deferred := none, pending := none,
                      mode := .idle .noSleep }
    finishStep (settle 8 (runPass passFuel (s, [.line "session link stdio UnexpectedEof"])))

end Dnp3
