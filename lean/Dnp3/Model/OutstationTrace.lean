import Dnp3.Model.Outstation
/-!
# Traces of the outstation model

A trace is the fold of `Outstation.step` over an input list from the state the task is in after
construction (`Outstation.start`).  Property theorems quantify over ALL input lists.
-/
namespace Dnp3

/-- the state after `cfg`: construct, then let the task run until it blocks (start of the first session) -/
def Outstation.start (cfg : OCfg) (evMax : Nat) : OState × List OOut :=
  finishStep (settle 8 (runPass passFuel (OState.init cfg evMax, [])))

/-- run a list of inputs, collecting per-step outputs -/
def Outstation.run (env : OEnv) : OState → List OInput → OState × List (List OOut)
  | s, [] => (s, [])
  | s, i :: is =>
    let (s', o) := Outstation.step env s i
    let (s'', os) := Outstation.run env s' is
    (s'', o :: os)

/-- states reachable from construction -/
inductive Outstation.Reachable (cfg : OCfg) (evMax : Nat) (env : OEnv) : OState → Prop where
  | start : Reachable cfg evMax env (Outstation.start cfg evMax).1
  | step (s : OState) (i : OInput) : Reachable cfg evMax env s → Reachable cfg evMax env (Outstation.step env s i).1

/-- all transmitted application fragments of a list of outputs -/
def txFrags (outs : List OOut) : List (Nat × List Nat) :=
  outs.filterMap fun o => match o with | .tx d b => some (d, b) | _ => none

def cbs (outs : List OOut) : List Cb :=
  outs.filterMap fun o => match o with | .cb c => some c | _ => none

end Dnp3
