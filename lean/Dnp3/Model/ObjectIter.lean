import Dnp3.Model.ObjectGrammar
/-!
# ObjectIter — model of the lazy object iterators of `dnp3/src/app/parse/{range,count,bit,bytes}.rs`

The second pass (`HeaderCollection::iter`) re-parses each header and hands out sequences whose
`iter()` yields the objects.  An item is `(index?, octets)`:

* `RangeIterator<T>` / `CountIterator<T>`: `T::read` until the cursor is exhausted
  (`index.saturating_add(1)`; the `remaining` field only feeds `size_hint`);
* `BitIterator` / `DoubleBitIterator`: `pos < count`, guarded `index += 1`;
* `RangedBytesIterator`: `remaining`, `self.index += 1` (u16) guarded by `remaining > 0` after the
  decrement, i.e. only when another item follows (the repair of D2; before it the increment was
  unguarded and overflowed after the item with index 65535);
* `PrefixedBytesIterator`, and `CountIterator<Prefix<I, V>>` for fixed-size prefixed objects.

Arithmetic that can panic in the Rust (`+= 1` on a `u16`) is modelled with `Except Panic`.
-/
namespace Dnp3.App
open Dnp3.Gen

inductive Panic | addOverflow
deriving DecidableEq, Repr, Inhabited

structure Item where
  index : Option Nat
  bytes : List Nat
deriving DecidableEq, Repr, Inhabited

/-- repeated `T::read` of a `size`-octet object until fewer than `size` octets are left.
    `size = 0` would never terminate in the Rust (`T::read` of no fields always succeeds);
    no generated variation has `SIZE = 0` (theorem `sizes_positive`), the model yields nothing. -/
def chunks (size : Nat) (data : List Nat) : List (List Nat) :=
  if h : size = 0 then [] else
  if h2 : (data.take size).length = size then data.take size :: chunks size (data.drop size) else []
termination_by data.length
decreasing_by
  simp only [List.length_take] at h2
  simp only [List.length_drop]; omega

/-- `RangeIterator`: indices `start, start+1, …` saturating at 65535 -/
def withIndices (index : Nat) : List (List Nat) → List Item
  | [] => []
  | c :: cs => ⟨some index, c⟩ :: withIndices (min (index + 1) 65535) cs

def iterRanged (size start : Nat) (data : List Nat) : List Item := withIndices start (chunks size data)

/-- `CountIterator<T>` -/
def iterCount (size : Nat) (data : List Nat) : List Item := (chunks size data).map (⟨none, ·⟩)

/-- `CountIterator<Prefix<I, V>>`: the index is the leading `idxSize wide` octets of each item -/
def iterPrefixed (wide : Bool) (size : Nat) (data : List Nat) : List Item :=
  (chunks (idxSize wide + size) data).map fun c =>
    ⟨(readIdx wide c).map (·.1), c⟩

/-- `BitIterator` (`perItem = 8`, one bit per item) and `DoubleBitIterator` (`perItem = 4`, two bits).
    `bytes.get(pos / perItem)` is an array lookup. -/
def iterBitsA (perItem : Nat) (bytes : Array Nat) (count index pos : Nat) : Except Panic (List Item) :=
  if h : pos ≥ count then .ok [] else
  match bytes[pos / perItem]? with
  | none => .ok []
  | some b =>
    let width := 8 / perItem
    let value := (b >>> (width * (pos % perItem))) % (2 ^ width)
    if pos + 1 < count then
      -- `self.index += 1` on a u16 (guarded by `pos < count`)
      if index ≥ 65535 then .error .addOverflow else
      match iterBitsA perItem bytes count (index + 1) (pos + 1) with
      | .error e => .error e
      | .ok rest => .ok (⟨some index, [value]⟩ :: rest)
    else
      match iterBitsA perItem bytes count index (pos + 1) with
      | .error e => .error e
      | .ok rest => .ok (⟨some index, [value]⟩ :: rest)
termination_by count - pos
decreasing_by all_goals omega

def iterBits (perItem : Nat) (bytes : List Nat) (count index pos : Nat) : Except Panic (List Item) :=
  iterBitsA perItem bytes.toArray count index pos

/-- `RangedBytesIterator::next`, iterated -/
def iterRangedBytes (size : Nat) (data : List Nat) (index remaining : Nat) : Except Panic (List Item) :=
  match remaining with
  | 0 => .ok []
  | rem + 1 =>
    match take? size data with
    | none => .ok []
    | some (b, rest) =>
      -- `self.remaining -= 1; if self.remaining > 0 { self.index += 1 }` (u16, guarded)
      if 0 < rem then
        if index ≥ 65535 then .error .addOverflow else
        match iterRangedBytes size rest (index + 1) rem with
        | .error e => .error e
        | .ok items => .ok (⟨some index, b⟩ :: items)
      else
        match iterRangedBytes size rest index rem with
        | .error e => .error e
        | .ok items => .ok (⟨some index, b⟩ :: items)

/-- `PrefixedBytesIterator::next`, iterated: item octets = prefix ++ data -/
def iterPrefixedBytes (wide : Bool) (size : Nat) (data : List Nat) (remaining : Nat) : List Item :=
  match remaining with
  | 0 => []
  | rem + 1 =>
    match readIdx wide data with
    | none => []
    | some (idx, r) =>
      match take? size r with
      | none => []
      | some (b, rest) => ⟨some idx, leIdx wide idx ++ b⟩ :: iterPrefixedBytes wide size rest rem

/-- what iterating an accepted header yields.  `none`: the header carries no object sequence
    (or an attribute / file object whose inner structure is not itemised by this model). -/
def iterate (r : HeaderRec) : Option (Except Panic (List Item)) :=
  match r.kind with
  | .none | .attrNone | .attr | .prefAttr | .file _ => none
  | .emptySeq => some (.ok [])
  | .bits => some (iterBits 8 r.payload r.spec.nobj r.spec.start 0)
  | .dbits => some (iterBits 4 r.payload r.spec.nobj r.spec.start 0)
  | .fixed g v =>
    match r.spec with
    | .range _ s _ => some (.ok (iterRanged (fixedSize g v) s r.payload))
    | _ => some (.ok (iterCount (fixedSize g v) r.payload))
  | .octets => some (iterRangedBytes r.var.var r.payload r.spec.start r.spec.nobj)
  | .prefFixed g v => some (.ok (iterPrefixed r.spec.wide (fixedSize g v) r.payload))
  | .prefOctets => some (.ok (iterPrefixedBytes r.spec.wide r.var.var r.payload r.spec.nobj))

/-- does formatting the header at `object_values` level iterate a sequence that panics?
    (`format_objects` walks the same iterators) -/
def iterPanics (r : HeaderRec) : Bool :=
  match iterate r with
  | some (.error _) => true
  | _ => false

end Dnp3.App
