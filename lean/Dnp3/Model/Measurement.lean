import Dnp3.Gen.Conversions
/-!
# Measurement conversions (C10)

Hand-written executable model of the pure conversion logic between the outstation database and
the master's handler:

* `app/measurement.rs`   `AnalogConversions::{to_i16,to_i32,to_f32}` through the GENERATED rows
  `Dnp3.Gen.Conv.analogConvs` (guards / flags / value expressions in source order; `convInt`,
  `toF32` are interpreters of the rows), `Time`, `Flags`
* `app/extensions.rs`    `WireFlags::get_wire_flags`
* `app/types.rs`         `Timestamp::checked_add`, `DoubleBit::{from,to_bit_pair}`
* `app/gen/conversion.rs` through the GENERATED table `Dnp3.Gen.Conv.{toTable,fromTable}`:
  `toVariation` / `fromVariation` are interpreters of the table rows
* `outstation/database/details/range/traits.rs`  `promote`
* `outstation/database/details/event/write_fn.rs` `write_cto`, `to_cto_variation` and the header
  switching of `event/writer.rs`
* `master/convert.rs` `to_measurement`, `master/extract.rs` the common-time fold

Floating point: a binary64 value is decoded from its bit pattern into the exact value
`(-1)^neg * m * 2^e`; comparison and truncation are integer arithmetic.  The conversion functions
take the `f64 as f32` rounding result as a parameter `r32` (the theorems hold for any rounding);
the driver computes it with `f64ToF32Bits` (integer round-to-nearest-even) and cross-checks the
value the harness supplies (`r=`, from an independent integer implementation that is itself
self-checked against the host FPU).

Core Lean only (linked into `dnp3model`).
-/
namespace Dnp3.Meas
open Dnp3.Gen.Conv

/-! ## exact analog values -/

/-- an IEEE-754 binary64 value; `fin neg m e` is exactly `(-1)^neg * m * 2^e` -/
inductive AVal
  | nan
  | inf (neg : Bool)
  | fin (neg : Bool) (m : Nat) (e : Int)
  deriving DecidableEq, Repr

/-- decode a binary64 bit pattern -/
def AVal.ofBits (b : Nat) : AVal :=
  let neg := b / 2 ^ 63 % 2 == 1
  let ex := b / 2 ^ 52 % 2048
  let mant := b % 2 ^ 52
  if ex == 2047 then (if mant == 0 then .inf neg else .nan)
  else if ex == 0 then .fin neg mant (-1074)
  else .fin neg (mant + 2 ^ 52) (Int.ofNat ex - 1075)

/-- exact comparison `m * 2^e > K` (cross-multiplied when `e < 0`) -/
def magGt (m : Nat) (e : Int) (K : Nat) : Bool :=
  if 0 ≤ e then decide (K < m * 2 ^ e.toNat) else decide (K * 2 ^ (-e).toNat < m)

/-- integer part of `m * 2^e` (truncation toward zero of the magnitude) -/
def magTrunc (m : Nat) (e : Int) : Nat :=
  if 0 ≤ e then m * 2 ^ e.toNat else m / 2 ^ (-e).toNat

/-- `Flags::with_bits_set(Self::OVER_RANGE)`: the mask is the GENERATED `overRangeMask`
(`AnalogConversions::OVER_RANGE` resolved through util/bit.rs) -/
def OVER_RANGE : Nat := overRangeMask
def setOverRange (flags : Nat) : Nat := flags ||| OVER_RANGE

/-! ## `AnalogConversions::{to_i16,to_i32,to_f32}`: interpreters of the GENERATED rows `analogConvs`

Each method is `if <guard> { return (<flags>, <value>); }`* followed by a final pair; the rows say
which guards, in which order, with which flags / value expressions (tools/gen_conversions.py).
What a guard and a value expression MEAN on exact values is stated here. -/

/-- a guard on an exact value, for a target type with `T::MIN = -N`, `T::MAX = P` (both exactly
representable in f64, so `T::MIN.into()` / `T::MAX.into()` lose nothing): `is_nan()` holds for NaN
only; IEEE comparisons with NaN are false -/
def guardHolds (N P : Nat) (g : AGuard) (v : AVal) : Bool :=
  match g, v with
  | .isNan, .nan => true
  | .isNan, _ => false
  | _, .nan => false
  | .ltMin, .inf neg => neg
  | .gtMax, .inf neg => !neg
  | .ltMin, .fin neg m e => neg && magGt m e N
  | .gtMax, .fin neg m e => !neg && magGt m e P

/-- Rust's `v as iN` (`iN::MIN = -N`, `iN::MAX = P`), a saturating cast: NaN is 0, ±infinity and
values beyond the range give MIN / MAX, everything else is truncated toward zero -/
def castInt (N P : Nat) : AVal → Int
  | .nan => 0
  | .inf neg => if neg then -(N : Int) else (P : Int)
  | .fin neg m e =>
    let t := magTrunc m e
    if neg then (if t > N then -(N : Int) else -((t : Nat) : Int))
    else (if t > P then (P : Int) else ((t : Nat) : Int))

/-- the value expressions of an integer conversion: `0`, `T::MIN`, `T::MAX`, `self.get_value() as T` -/
def retInt (N P : Nat) (v : AVal) : ARet → Int
  | .zero => 0
  | .min => -(N : Int)
  | .max => (P : Int)
  | .cast => castInt N P v

/-- run the early returns in source order, then the final pair -/
def evalConv {α : Type} (guard : AGuard → Bool) (ret : ARet → α) (flags : Nat)
    (lastOverRange : Bool) (last : ARet) : List ABranch → Nat × α
  | [] => (if lastOverRange then setOverRange flags else flags, ret last)
  | b :: bs =>
    if guard b.guard then (if b.overRange then setOverRange flags else flags, ret b.ret)
    else evalConv guard ret flags lastOverRange last bs

def runConv {α : Type} (c : AConv) (guard : AGuard → Bool) (ret : ARet → α) (flags : Nat) : Nat × α :=
  evalConv guard ret flags c.lastOverRange c.last c.branches

/-- the generated row of a conversion method -/
def convRow (c : Conv) : Option AConv := analogConvs.find? fun r => r.conv == c

/-- an integer conversion method with `MIN = -N`, `MAX = P`, as the generated row says -/
def convInt (c : Conv) (N P : Nat) (v : AVal) (flags : Nat) : Nat × Int :=
  match convRow c with
  | some row => runConv row (fun g => guardHolds N P g v) (retInt N P v) flags
  | none => (flags, 0)

/-- `AnalogConversions::to_i16` -/
def toI16 (v : AVal) (flags : Nat) : Nat × Int := convInt .toI16 32768 32767 v flags
/-- `AnalogConversions::to_i32` -/
def toI32 (v : AVal) (flags : Nat) : Nat × Int := convInt .toI32 2147483648 2147483647 v flags

/-- `f32::MAX` = (2^24 - 1) * 2^104 -/
def F32_MAX : Nat := (2 ^ 24 - 1) * 2 ^ 104
def F32_MAX_BITS : Nat := 0x7F7FFFFF
def F32_MIN_BITS : Nat := 0xFF7FFFFF

/-- the value expressions of the float conversion as binary32 bit patterns: `0.0`, `f32::MIN`,
`f32::MAX`, `self.get_value() as f32` = the supplied rounding `r32` -/
def retF32 (r32 : Nat) : ARet → Nat
  | .zero => 0
  | .min => F32_MIN_BITS
  | .max => F32_MAX_BITS
  | .cast => r32

/-- `AnalogConversions::to_f32` as the generated row says; `r32` = the bit pattern of `v as f32`
(supplied, trusted).  `f32::MIN = -f32::MAX`. -/
def toF32 (v : AVal) (flags : Nat) (r32 : Nat) : Nat × Nat :=
  match convRow .toF32 with
  | some row => runConv row (fun g => guardHolds F32_MAX F32_MAX g v) (retF32 r32) flags
  | none => (flags, r32)

/-- `sig / 2^sh` rounded to nearest, ties to even -/
def roundNearestEven (sig sh : Nat) : Nat :=
  if sh == 0 then sig else
  let q := sig / 2 ^ sh
  let rem := sig % 2 ^ sh
  let half := 2 ^ (sh - 1)
  if rem > half || (rem == half && q % 2 == 1) then q + 1 else q

/-- bit pattern of `x as f32` for a binary64 bit pattern: IEEE-754 round to nearest even, overflow
to infinity, gradual underflow; NaN keeps its sign and top payload bits and is quieted (what the
hardware conversion does).  Used by the driver to produce `r32`; the theorems hold for any `r32`. -/
def f64ToF32Bits (b : Nat) : Nat :=
  let sign := (b / 2 ^ 63 % 2) * 2 ^ 31
  let ex := b / 2 ^ 52 % 2048
  let mant := b % 2 ^ 52
  if ex == 2047 then
    (if mant == 0 then sign + 0x7F800000 else sign + (0x7FC00000 ||| (mant / 2 ^ 29)))
  else if ex == 0 then sign
  else
    let sig := mant + 2 ^ 52
    if ex ≥ 897 then
      let q := roundNearestEven sig 29
      let ef := if q == 2 ^ 24 then ex - 896 + 1 else ex - 896
      let q := if q == 2 ^ 24 then 2 ^ 23 else q
      if ef ≥ 255 then sign + 0x7F800000 else sign + ef * 2 ^ 23 + (q - 2 ^ 23)
    else
      let sh := 926 - ex
      if sh > 54 then sign else sign + roundNearestEven sig sh

/-- bit pattern of `z as f64` for `|z| < 2^53` (exact) -/
def intToF64Bits (z : Int) : Nat :=
  if z == 0 then 0 else
  let n := z.natAbs
  let k := Nat.log2 n
  (if z < 0 then 2 ^ 63 else 0) + (1023 + k) * 2 ^ 52 + (n - 2 ^ k) * 2 ^ (52 - k)

/-- bit pattern of `x as f64` for a binary32 bit pattern (exact widening; NaN is quieted as the
hardware conversion does) -/
def f32ToF64Bits (b : Nat) : Nat :=
  let s := b / 2 ^ 31 % 2
  let ex := b / 2 ^ 23 % 256
  let mant := b % 2 ^ 23
  if ex == 255 then
    s * 2 ^ 63 + 2047 * 2 ^ 52 + (if mant == 0 then 0 else (mant * 2 ^ 29) ||| 2 ^ 51)
  else if ex == 0 then
    if mant == 0 then s * 2 ^ 63 else
    let k := Nat.log2 mant
    s * 2 ^ 63 + (k + 874) * 2 ^ 52 + (mant - 2 ^ k) * 2 ^ (52 - k)
  else s * 2 ^ 63 + (ex + 896) * 2 ^ 52 + mant * 2 ^ 29

/-! ## measurements, wire objects -/

structure Time where
  sync : Bool
  ms : Nat
  deriving DecidableEq, Repr

/-- `Timestamp::MAX_VALUE` -/
def TS_MAX : Nat := 2 ^ 48 - 1

/-- `Time::checked_add(u16)` / `Timestamp::checked_add` -/
def Time.checkedAdd (t : Time) (x : Nat) : Option Time :=
  if x > TS_MAX - t.ms then none else some ⟨t.sync, t.ms + x⟩

/-- `From<Option<Time>> for Time` : `None` is `Unsynchronized(0)` -/
def timeOrDefault : Option Time → Time
  | some t => t
  | none => ⟨false, 0⟩

/-- a measurement of any of the generated types.  `val`: bi/bo 0|1, db 0..3
(`DoubleBit::to_byte`), ct/fc the u32, ai/fa/ao the binary64 bit pattern -/
structure Meas where
  val : Nat
  flags : Nat
  time : Option Time
  deriving DecidableEq, Repr

inductive WVal
  | absent
  | u16 (n : Nat)
  | u32 (n : Nat)
  | i16 (z : Int)
  | i32 (z : Int)
  | f32 (bits : Nat)
  | f64 (bits : Nat)
  deriving DecidableEq, Repr

inductive WTime
  | absent
  | abs (ms : Nat)
  | rel (d : Nat)
  deriving DecidableEq, Repr

/-- the fields of one variation object (byte encoding of fields is C09's subject) -/
structure WObj where
  flags : Option Nat
  value : WVal
  time : WTime
  deriving DecidableEq, Repr

/-- `WireFlags::get_wire_flags` (flag octets are `< 256`):
binary / binary output: bit 7 := value; double-bit: bit 7 := high, bit 6 := low -/
def wireFlags (ty : MTy) (m : Meas) : Nat :=
  match ty with
  | .bi | .bo => m.flags % 128 + (if m.val % 2 == 1 then 128 else 0)
  | .db => m.flags % 64 + 64 * (m.val % 4)
  | _ => m.flags

/-- result of the `let (_wire_flags, _wire_value) = self.to_xxx();` prelude -/
def convResult (c : Option Conv) (m : Meas) (r32 : Nat) : Nat × WVal :=
  match c with
  | none => (m.flags, .absent)
  | some .toI16 => let (f, z) := toI16 (AVal.ofBits m.val) m.flags; (f, .i16 z)
  | some .toI32 => let (f, z) := toI32 (AVal.ofBits m.val) m.flags; (f, .i32 z)
  | some .toF32 => let (f, b) := toF32 (AVal.ofBits m.val) m.flags r32; (f, .f32 b)

/-- `ToVariation::to_variation`, interpreting one generated row -/
def toVariation (e : ToVar) (m : Meas) (r32 : Nat) : WObj :=
  let cr := convResult e.conv m r32
  { flags := match e.flags with
      | .absent => none
      | .selfFlags => some m.flags
      | .getWireFlags => some (wireFlags e.ty m)
      | .wireFlags => some cr.1
    value := match e.value with
      | .absent => .absent
      | .selfValue => (match e.vty with
          | .u32 => .u32 m.val
          | .f64 => .f64 m.val
          | _ => .absent)
      | .selfValueAsU16 => .u16 (m.val % 65536)
      | .wireValue => cr.2
    time := match e.time with
      | .absent => .absent
      | .selfTimeInto => .abs (timeOrDefault m.time).ms }

/-- `From<GroupXVarY>::from`, interpreting one generated row -/
def fromVariation (f : FromVar) (w : WObj) : Meas :=
  let wf := w.flags.getD 0
  { val := match f.value with
      | .flagsState => wf / 128 % 2
      | .flagsDoubleBit => wf / 64 % 4
      | .vValue => (match w.value with
          | .u32 n => n
          | .f64 b => b
          | .u16 n => n
          | _ => 0)
      | .vValueAsU32 => (match w.value with
          | .u16 n => n
          | .u32 n => n
          | _ => 0)
      | .vValueAsF64 => (match w.value with
          | .i16 z => intToF64Bits z
          | .i32 z => intToF64Bits z
          | .f32 b => f32ToF64Bits b
          | .f64 b => b
          | _ => 0)
    flags := match f.flags with
      | .letFlags | .newVFlags => wf
      | .online => 1
    time := match f.time with
      | .none => none
      | .someSynchronized => (match w.time with
          | .abs ms => some ⟨true, ms⟩
          | _ => none) }

def lookupTo (ty : MTy) (g v : Nat) : Option ToVar :=
  toTable.find? fun e => e.ty == ty && e.group == g && e.var == v

def lookupFrom (ty : MTy) (g v : Nat) : Option FromVar :=
  fromTable.find? fun e => e.ty == ty && e.group == g && e.var == v

/-! ## variations that are not in conversion.rs -/

/-- `ToVariationCto::to_cto_variation` (g2v3 / g4v3) -/
def toCtoVariation (ty : MTy) (m : Meas) (rel : Nat) : WObj :=
  ⟨some (wireFlags ty m), .absent, .rel rel⟩

/-- `Group2Var3::to_measurement` / `Group4Var3::to_measurement` (master/convert.rs) -/
def fromCtoVariation (ty : MTy) (w : WObj) (cto : Option Time) : Meas :=
  let wf := w.flags.getD 0
  { val := if ty == .db then wf / 64 % 4 else wf / 128 % 2
    flags := wf
    time := match w.time with
      | .rel d => cto.bind fun c => c.checkedAdd d
      | _ => none }

/-- master side of the packed formats g1v1 / g3v1 / g10v1: `From<bool>` / `From<DoubleBit>` -/
def fromPacked (v : Nat) : Meas := ⟨v, 1, none⟩

/-- flags with the state bit(s) removed: `flags.without(BIT_7)` / `flags.without(BIT_6 | BIT_7)` -/
def flagsWithoutState (ty : MTy) (flags : Nat) : Nat :=
  match ty with
  | .bi | .bo => flags % 128
  | .db => flags % 64
  | _ => flags

/-- `StaticVariation::promote`: variation 1 of g1 / g3 / g10 (packed) is kept only if the flags,
state bit(s) aside, are exactly ONLINE; every other variation is kept -/
def promote (ty : MTy) (svar : Nat) (m : Meas) : Nat :=
  match ty with
  | .bi | .bo | .db => if svar == 1 then (if flagsWithoutState ty m.flags == 1 then 1 else 2) else svar
  | _ => svar

/-! ## common time of occurrence: event writer and master fold -/

/-- one event to be written with a relative-time variation: index, wire flags, time (defaulted) -/
structure TEv where
  idx : Nat
  flags : Nat
  time : Time
  deriving DecidableEq, Repr

inductive WItem
  | cto (t : Time)
  | ev (idx flags rel : Nat)
  deriving DecidableEq, Repr

/-- `write_cto`: the event can go under the header whose common time is `c`
(same quality, not earlier, at most u16::MAX later) -/
def ctoFits (c : Time) (t : Time) : Bool :=
  c.sync == t.sync && decide (c.ms ≤ t.ms) && decide (t.ms - c.ms ≤ 65535)

/-- `EventWriter::try_write` restricted to one relative-time header type; `st` = the header in
progress (its common time and count).  `brk` = something forces a fresh header before this
event (another type / variation was written in between, or a new fragment began). -/
def writeCtoEvents : Option (Time × Nat) → List (Bool × TEv) → List WItem
  | _, [] => []
  | st, (brk, e) :: es =>
    match (if brk then none else st) with
    | some (c, count) =>
      if count < 65535 && ctoFits c e.time then
        .ev e.idx e.flags (e.time.ms - c.ms) :: writeCtoEvents (some (c, count + 1)) es
      else .cto e.time :: .ev e.idx e.flags 0 :: writeCtoEvents (some (e.time, 1)) es
    | none => .cto e.time :: .ev e.idx e.flags 0 :: writeCtoEvents (some (e.time, 1)) es

/-- `extract_measurements_inner` restricted to these items: the fold carries the last common
time; a relative-time event gets `cto.checked_add(rel)` -/
def masterFold : Option Time → List WItem → List (Nat × Nat × Option Time)
  | _, [] => []
  | _, .cto t :: r => masterFold (some t) r
  | c, .ev i f d :: r => (i, f, c.bind fun x => x.checkedAdd d) :: masterFold c r

end Dnp3.Meas
