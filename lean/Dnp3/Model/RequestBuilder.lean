import Dnp3.Model.ObjectGrammar
/-!
# RequestBuilder — model of `HeaderWriter::write_prefixed_items` (`dnp3/src/app/format/write.rs`)

The master's `CommandBuilder` (and the dead-band / freeze header builders) hand a slice of
`(value, index)` pairs to `write_prefixed_items`, which writes the variation, the count-and-prefix
qualifier, skips the count field, writes every item (`index`, then `value`) while counting them in
the index type (`u8` / `u16`), and finally patches the count in.

Every cursor operation returns `Result<_, scursor::WriteError>`; since the repair of defect D17
the count is advanced with `Index::checked_next` (`checked_add(1)`) and a count that the index type
cannot express is `WriteError::NumericOverflow` — one more way for the write to fail, reported to
the caller like "does not fit" (`TaskError::WriteError`).  Before the repair the count was advanced
with `self + 1`: a u8 count panicked (overflow checks) or wrapped to 0 on the 256th item.

`none` below is "the function returned `Err(WriteError)`"; nothing in the function can panic.
Hand-transcribed, tied by the `parse` correspondence engine (op `build`).
-/
namespace Dnp3.App
open Dnp3.Gen Dnp3.Gen.App

/-- one item of a prefixed header: the index and the octets `V::write` produces for the value -/
abbrev CmdItem := Nat × List Nat

/-- largest value of the index / count type (`u8::MAX` / `u16::MAX`) -/
def maxCount (wide : Bool) : Nat := if wide then 65535 else 255

/-- `Index::checked_next`: `self.checked_add(1)` on a u8 (`wide = false`) / u16 -/
def checkedNext (wide : Bool) (c : Nat) : Option Nat := if c < maxCount wide then some (c + 1) else none

/-- `I::COUNT_AND_PREFIX_QUALIFIER` -/
def prefixQualifier (wide : Bool) : Nat := if wide then qCountAndPrefix16 else qCountAndPrefix8

/-- the item loop of `write_prefixed_items`.  `pos` is the cursor position in a buffer of `cap`
    octets, `count` the running count, `out` the item octets written so far.  Per item:
    `i.write(cursor)?; v.write(cursor)?; count = count.checked_next().ok_or(NumericOverflow)?` -/
def writeItems (cap : Nat) (wide : Bool) (pos count : Nat) (out : List Nat) : List CmdItem → Option (Nat × List Nat)
  | [] => some (count, out)
  | (i, v) :: rest =>
    if pos + idxSize wide > cap then none else
    if pos + idxSize wide + v.length > cap then none else
    match checkedNext wide count with
    | none => none
    | some c => writeItems cap wide (pos + idxSize wide + v.length) c (out ++ (leIdx wide i ++ v)) rest

/-- `HeaderWriter::write_prefixed_items` appending to the octets `acc` already in a `cap`-octet buffer -/
def writePrefixedItems (cap : Nat) (acc : List Nat) (g v : Nat) (wide : Bool) (items : List CmdItem) : Option (List Nat) :=
  if acc.length + 2 > cap then none else                  -- `V::VARIATION.write(cursor)?`
  if acc.length + 3 > cap then none else                  -- `I::COUNT_AND_PREFIX_QUALIFIER.write(cursor)?`
  if acc.length + 3 + idxSize wide > cap then none else   -- `cursor.skip(I::SIZE)?`
  match writeItems cap wide (acc.length + 3 + idxSize wide) 0 [] items with
  | none => none
  | some (count, out) =>                                   -- `cursor.at_pos(pos_of_count, |cur| count.write(cur))`
    some (acc ++ [g, v, prefixQualifier wide] ++ leIdx wide count ++ out)

/-- the octets of the items as they appear on the wire -/
def itemOctets (wide : Bool) (items : List CmdItem) : List Nat :=
  (items.map fun it => leIdx wide it.1 ++ it.2).flatten

/-- the image of a count-and-prefix header carrying `items` -/
def prefixedImage (g v : Nat) (wide : Bool) (items : List CmdItem) : List Nat :=
  [g, v, prefixQualifier wide] ++ leIdx wide items.length ++ itemOctets wide items

/-- `CommandBuilder::build().write(..)` for the commands of one header: the builder creates no
    header when nothing was added -/
def writeCommands (cap : Nat) (acc : List Nat) (g v : Nat) (wide : Bool) (items : List CmdItem) : Option (List Nat) :=
  if items.isEmpty then some acc else writePrefixedItems cap acc g v wide items

end Dnp3.App
