import Dnp3.Gen.Variations
/-!
# Fields — generic interpreter of the generated field lists of fixed-size variations

`impl FixedSize for GroupXVarY` reads / writes its fields with `scursor` little-endian primitives
(`read_u8`, `read_u16_le`, `read_u48_le`, `read_i16_le`, `read_f32_le`, …).  At the octet level every
one of them moves `width` octets, little endian; a field value is represented by the unsigned
integer of its bit pattern (`< 256 ^ width`), so signed / floating-point fields are their raw bits.
-/
namespace Dnp3.App
open Dnp3.Gen

/-- `width` octets, little endian -/
def writeLE : Nat → Nat → List Nat
  | 0, _ => []
  | w + 1, v => (v % 256) :: writeLE w (v / 256)

def readLE : Nat → List Nat → Option (Nat × List Nat)
  | 0, bs => some (0, bs)
  | _ + 1, [] => none
  | w + 1, b :: bs =>
    match readLE w bs with
    | some (v, r) => some (b + 256 * v, r)
    | none => none

/-- `write` of a variation: the fields in order -/
def writeFields : List Field → List Nat → List Nat
  | f :: fs, v :: vs => writeLE f.ty.width v ++ writeFields fs vs
  | _, _ => []

/-- `read` of a variation: the fields in order; `none` = `ReadError` -/
def readFields : List Field → List Nat → Option (List Nat × List Nat)
  | [], bs => some ([], bs)
  | f :: fs, bs =>
    match readLE f.ty.width bs with
    | none => none
    | some (v, r) =>
      match readFields fs r with
      | none => none
      | some (vs, r') => some (v :: vs, r')

/-- one value per field, each fitting the field's width -/
def wellTyped : List Field → List Nat → Prop
  | [], [] => True
  | f :: fs, v :: vs => v < 256 ^ f.ty.width ∧ wellTyped fs vs
  | _, _ => False

def fieldsWidth (fs : List Field) : Nat := (fs.map (·.ty.width)).sum

end Dnp3.App
