import Dnp3.Model.AppHeader
import Dnp3.Model.ObjectIter
import Dnp3.Model.Fields
import Dnp3.Proofs.C09Fields
import Dnp3.Proofs.C09Walk
import Dnp3.Proofs.C09Iter
import Dnp3.Proofs.C09Builder
import Dnp3.Proofs.C09Attr
import Dnp3.Proofs.C09AttrOrder
import Dnp3.Proofs.C09File70
/-!
# C09 — What one side encodes, the other side's parser decodes to the same objects
-/
namespace Dnp3.Props.C09
open Dnp3 Dnp3.App Dnp3.Gen Dnp3.Gen.App

/-! ## the regenerated variation table -/

/-- `SIZE` is the sum of the field widths, for every `impl FixedSize` of app/variations.rs -/
theorem size_is_sum_of_fields : ∀ f ∈ fixedVars, f.size = fieldsWidth f.readFields := by decide +kernel

/-- `read` and `write` handle the same fields (names and wire types) in the same order -/
theorem read_write_same_fields : ∀ f ∈ fixedVars, f.readFields = f.writeFields := by decide +kernel

/-- no fixed-size variation is empty (a zero-size `T::read` would make `RangeIterator` / `CountIterator` spin) -/
theorem sizes_positive : ∀ f ∈ fixedVars, 0 < f.size := by decide +kernel

/-- no two `impl FixedSize` blocks claim the same group / variation -/
theorem fixed_vars_distinct : (fixedVars.map fun f => (f.group, f.var)).Nodup := by decide +kernel

def payloadKindsOk (t : List (Pat × Payload)) (allowed : Payload → Bool) : Bool := t.all fun a => allowed a.2

def fixedKnown (g v : Nat) : Bool := fixedVars.any fun f => f.group == g && f.var == v

/-- every table only uses the payload kinds the model handles for it, and every `fixed g v` / `prefFixed g v`
    refers to a variation with a `FixedSize` impl: `ParseErr.modelGap` is unreachable -/
theorem tables_well_kinded :
    payloadKindsOk allObjects (· == .none) = true ∧
    payloadKindsOk countTable (fun k => match k with | .none => true | .fixed g v => fixedKnown g v | _ => false) = true ∧
    payloadKindsOk rangedNonRead (fun k => match k with
      | .none | .bits | .dbits | .octets | .attr => true | .fixed g v => fixedKnown g v | _ => false) = true ∧
    payloadKindsOk rangedRead (fun k => match k with | .none | .emptySeq | .attrNone => true | _ => false) = true ∧
    payloadKindsOk prefixedTable (fun k => match k with
      | .prefOctets | .prefAttr => true | .prefFixed g v => fixedKnown g v | _ => false) = true ∧
    payloadKindsOk freeFormat (fun k => match k with | .file v => 2 ≤ v && v ≤ 8 | _ => false) = true := by
  decide +kernel

/-- what the translator checked about the shape of the hand-transcribed functions -/
theorem translator_shape_checks :
    toGroupAndVarMatchesNames = true ∧ rangedDispatchOnReadOnly = true ∧ zeroLengthGuards = 2 ∧
    controlFieldShapeOk = true := by decide

/-! ## object values: generic field round trip -/

/-- reading the fields that `writeFields` wrote gives them back and leaves exactly the rest -/
theorem fields_roundtrip (fs : List Field) (vs rest : List Nat) (h : wellTyped fs vs) :
    readFields fs (writeFields fs vs ++ rest) = some (vs, rest) ∧ (writeFields fs vs).length = fieldsWidth fs :=
  ⟨readFields_writeFields fs vs rest h, writeFields_length fs vs h⟩

example : wellTyped [⟨"flags", .u8⟩, ⟨"value", .i32⟩] [0x81, 0xFFFFFFFE] := ⟨by decide, by decide, trivial⟩

/-- instantiated for every generated variation: `read (write x) = x`, consuming exactly `SIZE` octets -/
theorem variation_roundtrip (f : FixedVar) (hf : f ∈ fixedVars) (vs rest : List Nat) (h : wellTyped f.writeFields vs) :
    readFields f.readFields (writeFields f.writeFields vs ++ rest) = some (vs, rest) ∧
    (writeFields f.writeFields vs).length = f.size := by
  rw [read_write_same_fields f hf, size_is_sum_of_fields f hf, read_write_same_fields f hf]
  exact fields_roundtrip _ vs rest h

/-! ## application header -/

/-- the control octet decodes to the flags and sequence number that were encoded -/
theorem control_roundtrip (fir fin con uns : Bool) (seq : Fin 16) :
    Control.ofByte (Control.toByte ⟨fir, fin, con, uns, seq.val⟩) = ⟨fir, fin, con, uns, seq.val⟩ := by
  revert fir fin con uns seq; decide

/-- and every octet is the encoding of what it decodes to -/
theorem control_byte_roundtrip : ∀ x, x < 256 → (Control.ofByte x).toByte = x := by decide +kernel

/-- a request header written by `RequestHeader::write`, followed by any object octets, parses back to
    the same control field and function, and hands exactly those octets to the object parser -/
theorem request_header_roundtrip (fir fin con uns : Bool) (seq : Fin 16) (f : Nat) (objs : List Nat)
    (hf : knownFunction f = true) (hr : isResponseFn f = false) :
    parseHeader (writeRequestHeader ⟨fir, fin, con, uns, seq.val⟩ f ++ objs) =
      .ok ⟨⟨fir, fin, con, uns, seq.val⟩, f, none, objs⟩ := by
  simp only [writeRequestHeader, List.cons_append, List.nil_append, parseHeader, control_roundtrip, hf, hr]
  simp

example : knownFunction 1 = true ∧ isResponseFn 1 = false := by decide

/-- the same for `ResponseHeader::write` (function RESPONSE or UNSOLICITED_RESPONSE), including both IIN octets -/
theorem response_header_roundtrip (fir fin con uns : Bool) (seq : Fin 16) (f iin1 iin2 : Nat) (objs : List Nat)
    (hr : isResponseFn f = true) :
    parseHeader (writeResponseHeader ⟨fir, fin, con, uns, seq.val⟩ f iin1 iin2 ++ objs) =
      .ok ⟨⟨fir, fin, con, uns, seq.val⟩, f, some (iin1, iin2), objs⟩ := by
  have hk : knownFunction f = true := by
    simp only [isResponseFn, Bool.or_eq_true, beq_iff_eq] at hr
    rcases hr with h | h <;> subst h <;> decide
  simp only [writeResponseHeader, List.cons_append, List.nil_append, parseHeader, control_roundtrip, hk, hr]
  simp

example : isResponseFn 129 = true := by decide

/-! ## the object-header walk -/

/-- **walk exactness.** If the validating pass accepts, the input is exactly the concatenation of the
    header images — every octet consumed — and every record is what its group, variation, qualifier and
    count / range imply (`RecOk`: known variation, payload kind from the regenerated table for this qualifier
    and READ / non-READ, payload length = the implied length, stop ≥ start, zero-length strings only with the
    option, free-format count 1 with the sub-cursor consumed exactly). -/
theorem walk_exact (isRead zls : Bool) (bs : List Nat) (recs : List HeaderRec)
    (h : walk isRead zls bs = .ok recs) (ok : bytesOk bs) :
    bs = (recs.map HeaderRec.image).flatten ∧ ∀ r ∈ recs, RecOk isRead zls r := by
  fun_induction walk isRead zls bs generalizing recs with
  | case1 bs hempty =>
    injection h with h; subst h
    cases bs <;> simp_all
  | case2 bs hne e he => cases h
  | case3 bs hne r rest hp e hw ih => cases h
  | case4 bs hne r rest hp rs hw ih =>
    injection h with h; subst h
    obtain ⟨e1, rok⟩ := parseOne_exact hp ok
    have okr : bytesOk rest := by rw [e1] at ok; exact bytesOk_append_right ok
    obtain ⟨e2, rsok⟩ := ih rs hw okr
    refine ⟨?_, ?_⟩
    · simp only [List.map_cons, List.flatten_cons]; rw [← e2]; exact e1
    · intro x hx
      rcases List.mem_cons.mp hx with hx | hx
      · subst hx; exact rok
      · exact rsok x hx

example : parseOne false false [1, 2, 0, 3, 4, 0x81, 0x01] =
    .ok (⟨.fixed 1 2, .range false 3 4, .fixed 1 2, [0x81, 0x01]⟩, []) ∧ bytesOk [1, 2, 0, 3, 4, 0x81, 0x01] := by
  constructor
  · rfl
  · intro b hb; simp at hb; omega

/-- READ requests carry no object data: every accepted ranged header of a READ has an empty payload -/
theorem read_carries_no_range_data (zls : Bool) (bs : List Nat) (recs : List HeaderRec)
    (h : walk true zls bs = .ok recs) (ok : bytesOk bs) :
    ∀ r ∈ recs, ∀ w a b, r.spec = .range w a b → r.payload = [] := by
  intro r hr w a b hs
  have rok := (walk_exact true zls bs recs h ok).2 r hr
  have ht := rok.inTable
  rw [hs] at ht
  simp only [tableFor, ↓reduceIte] at ht
  have hk : r.kind = .none ∨ r.kind = .emptySeq ∨ r.kind = .attrNone := by
    have hall := tables_well_kinded.2.2.2.1
    unfold tableGet at ht
    cases hf : rangedRead.find? (fun a => patMatches a.1 r.var) with
    | none => rw [hf] at ht; cases ht
    | some a =>
      rw [hf] at ht; simp only [Option.map_some, Option.some.injEq] at ht
      have hm := List.mem_of_find?_eq_some hf
      unfold payloadKindsOk at hall
      rw [List.all_eq_true] at hall
      have := hall a hm
      rw [ht] at this
      cases hk : r.kind <;> simp_all
  have hl := rok.len 0
  rcases hk with hk | hk | hk <;> (rw [hk] at hl; simp only [impliedLen, forall_const] at hl; exact List.eq_nil_of_length_eq_zero hl)

/-! ## the lazy iterators agree with the validating pass

Full statement:

  `iter_agrees`: for every header record `r` accepted by `walk` (`RecOk`), `iterate r` is never
  `some (.error _)`, yields exactly `r.spec.nobj` items whose octets concatenate to `r.payload`, with
  indices `start, start+1, …, stop`.

Proved below: the statement for octet strings under a range qualifier, for ALL ranges including those that
end at index 65535 (`iter_agrees_octets`, `ranged_bytes_iter_never_panics`), and for fixed-size objects under
range, count and count-and-prefix qualifiers (`iter_agrees_partial`).  NOT proved in Lean (tied by the `parse`
correspondence only): the packed bit / double-bit iterators and `PrefixedBytesIterator`.

History: until the repair of defect D2 `RangedBytesIterator::next` incremented its u16 index unguarded after
every item, so the octet-string part failed exactly for ranges with stop index 65535 (the former theorems
`ranged_bytes_iter_overflow` / `iter_octets_overflow_iff`).  The increment is now guarded like in the bit
iterators; the former witness is kept as a regression theorem (`ranged_bytes_iter_end_of_index_space`) and
as a corpus case of the `parse` engine (harness/corpus/C09/parse_D2.ops). -/

/-- the former D2 witness: the response fragment `… 6E 01 01 FF FF FF FF 41` is accepted by the validating pass … -/
theorem ranged_bytes_header_accepted :
    parseOne false false [110, 1, 1, 255, 255, 255, 255, 0x41] =
      .ok (⟨.wild 110 1, .range true 65535 65535, .octets, [0x41]⟩, []) := by rfl

/-- … and iterating the accepted header yields its one object, index 65535 (before the repair: u16 overflow) -/
theorem ranged_bytes_iter_end_of_index_space :
    iterate ⟨.wild 110 1, .range true 65535 65535, .octets, [0x41]⟩ = some (.ok [⟨some 65535, [0x41]⟩]) ∧
    iterate ⟨.wild 110 2, .range true 65534 65535, .octets, [1, 2, 3, 4]⟩ =
      some (.ok [⟨some 65534, [1, 2]⟩, ⟨some 65535, [3, 4]⟩]) := by
  constructor <;> rfl

/-- **no panic.** Iterating an octet-string range header whose stop index is a u16 never panics — for every
    variation octet, every range `a ≤ b ≤ 65535` and every payload (of the validated length or not) -/
theorem ranged_bytes_iter_never_panics (var : Variation) (w : Bool) (a b : Nat) (payload : List Nat)
    (hab : a ≤ b) (hb : b ≤ 65535) :
    (∃ items, iterate ⟨var, .range w a b, .octets, payload⟩ = some (.ok items)) ∧
    iterPanics ⟨var, .range w a b, .octets, payload⟩ = false := by
  obtain ⟨items, hi⟩ := iterRangedBytes_no_panic var.var (b - a + 1) payload a (by omega)
  have h : iterate ⟨var, .range w a b, .octets, payload⟩ = some (.ok items) := by
    simp only [iterate, Spec.start, Spec.nobj, hi]
  exact ⟨⟨items, h⟩, by simp only [iterPanics, h]⟩

example : (65534 : Nat) ≤ 65535 ∧ (65535 : Nat) ≤ 65535 := by decide

/-- **`iter_agrees` for octet strings**, all ranges including stop = 65535: an accepted header (payload of exactly
    `variation * count` octets) iterates to exactly the announced `b - a + 1` objects, indices `a, a+1, …, b`,
    `variation` octets each, concatenating to the payload the first pass validated; no iterator step fails -/
theorem iter_agrees_octets (var : Variation) (w : Bool) (a b : Nat) (payload : List Nat)
    (hab : a ≤ b) (hb : b ≤ 65535) (hl : payload.length = var.var * (b - a + 1)) :
    ∃ items, iterate ⟨var, .range w a b, .octets, payload⟩ = some (.ok items) ∧ items.length = b - a + 1 ∧
        items.map (·.index) = (List.range (b - a + 1)).map (fun i => some (a + i)) ∧
        (items.map (·.bytes)).flatten = payload ∧ ∀ it ∈ items, it.bytes.length = var.var := by
  obtain ⟨items, hi, rest⟩ := iterRangedBytes_spec var.var (b - a + 1) payload a hl (by omega)
  exact ⟨items, by simp only [iterate, Spec.start, Spec.nobj, hi], rest⟩

example : (0 : Nat) ≤ 65535 ∧ (65535 : Nat) ≤ 65535 ∧
    ([0x41, 0x42] : List Nat).length = (Variation.wild 110 2).var * (65535 - 65535 + 1) := by decide

/-- `iter_agrees` for fixed-size objects: an accepted header (payload of exactly `SIZE * count` octets) iterates to
    exactly `count` objects of `SIZE` octets each, whose concatenation is the payload the first pass validated;
    under a range qualifier the indices are `a, a+1, …, b`; no iterator step fails -/
theorem iter_agrees_partial (var : Variation) (g v : Nat) (payload : List Nat) (f : FixedVar)
    (hf : f ∈ fixedVars) (hg : f.group = g ∧ f.var = v) (spec : Spec)
    (hl : payload.length = fixedSize g v * spec.nobj) (hsz : 0 < fixedSize g v) :
    (∀ w a b, spec = .range w a b → a ≤ b → b ≤ 65535 →
      ∃ items, iterate ⟨var, spec, .fixed g v, payload⟩ = some (.ok items) ∧ items.length = b - a + 1 ∧
        items.map (·.bytes) = chunks (fixedSize g v) payload ∧
        (items.map (·.bytes)).flatten = payload ∧ (∀ it ∈ items, it.bytes.length = fixedSize g v) ∧
        items.map (·.index) = (List.range (b - a + 1)).map (fun i => some (a + i))) ∧
    (∀ w n, spec = .count w n →
      ∃ items, iterate ⟨var, spec, .fixed g v, payload⟩ = some (.ok items) ∧ items.length = n ∧
        (items.map (·.bytes)).flatten = payload ∧ (∀ it ∈ items, it.bytes.length = fixedSize g v)) ∧
    (∀ w n, spec = .countPrefix w n → payload.length = (idxSize w + fixedSize g v) * n →
      ∃ items, iterate ⟨var, spec, .prefFixed g v, payload⟩ = some (.ok items) ∧ items.length = n ∧
        (items.map (·.bytes)).flatten = payload ∧ (∀ it ∈ items, it.bytes.length = idxSize w + fixedSize g v)) := by
  refine ⟨?_, ?_, ?_⟩
  · intro w a b hs hab hb
    subst hs
    simp only [Spec.nobj] at hl
    obtain ⟨c1, c2, c3⟩ := chunks_spec (fixedSize g v) (b - a + 1) hsz payload hl
    obtain ⟨w1, w2⟩ := withIndices_spec (chunks (fixedSize g v) payload) a (by rw [c1]; omega)
    refine ⟨iterRanged (fixedSize g v) a payload, by simp only [iterate], ?_, ?_, ?_, ?_, ?_⟩
    · have := congrArg List.length w1
      simp only [List.length_map] at this
      simp only [iterRanged]; rw [this, c1]
    · exact w1
    · simp only [iterRanged]; rw [w1]; exact c2
    · intro it hit
      have : it.bytes ∈ (iterRanged (fixedSize g v) a payload).map (·.bytes) := List.mem_map_of_mem hit
      simp only [iterRanged] at this; rw [w1] at this; exact c3 _ this
    · simp only [iterRanged]; rw [w2, c1]
  · intro w n hs
    subst hs
    simp only [Spec.nobj] at hl
    obtain ⟨c1, c2, c3⟩ := chunks_spec (fixedSize g v) n hsz payload hl
    refine ⟨iterCount (fixedSize g v) payload, by simp only [iterate], ?_, ?_, ?_⟩
    · simp only [iterCount, List.length_map, c1]
    · have hm : (iterCount (fixedSize g v) payload).map (·.bytes) = chunks (fixedSize g v) payload := by
        simp only [iterCount, List.map_map]; exact List.map_id'' (fun _ => rfl) _
      rw [hm]; exact c2
    · intro it hit
      simp only [iterCount, List.mem_map] at hit
      obtain ⟨c, hc, rfl⟩ := hit
      exact c3 c hc
  · intro w n hs hl2
    subst hs
    have hpos : 0 < idxSize w + fixedSize g v := by omega
    obtain ⟨c1, c2, c3⟩ := chunks_spec (idxSize w + fixedSize g v) n hpos payload hl2
    refine ⟨iterPrefixed w (fixedSize g v) payload, by simp only [iterate, Spec.wide], ?_, ?_, ?_⟩
    · simp only [iterPrefixed, List.length_map, c1]
    · have hm : (iterPrefixed w (fixedSize g v) payload).map (·.bytes) = chunks (idxSize w + fixedSize g v) payload := by
        simp only [iterPrefixed, List.map_map]; exact List.map_id'' (fun _ => rfl) _
      rw [hm]; exact c2
    · intro it hit
      simp only [iterPrefixed, List.mem_map] at hit
      obtain ⟨c, hc, rfl⟩ := hit
      exact c3 c hc

example : (⟨1, 2, 1, [⟨"flags", .u8⟩], [⟨"flags", .u8⟩]⟩ : FixedVar).group = 1 ∧ fixedSize 1 2 = 1 ∧
    ([0x81, 0x01] : List Nat).length = fixedSize 1 2 * (Spec.range false 3 4).nobj := by decide

/-- every `fixed g v` payload kind of the tables has a positive `SIZE`, so `iter_agrees_partial` applies to it -/
theorem fixed_size_positive (g v : Nat) (h : fixedKnown g v = true) : 0 < fixedSize g v := by
  unfold fixedKnown at h
  rw [List.any_eq_true] at h
  obtain ⟨f, hf, hgv⟩ := h
  unfold fixedSize
  cases hfind : fixedVars.find? (fun f => f.group == g && f.var == v) with
  | none =>
    have := List.find?_eq_none.mp hfind f hf
    simp_all
  | some f' =>
    simp only
    exact sizes_positive f' (List.mem_of_find?_eq_some hfind)

/-! ## the master's count-and-prefix header writer (`CommandBuilder` → `HeaderWriter::write_prefixed_items`)

A header built by the master is either written completely — exactly its image after what was already in the
buffer, and that image parses back to the items that were built — or the write fails with a `WriteError`
(`TaskError::WriteError` to the user of the master API); `writePrefixedItems` has no third outcome.

History: until the repair of defect D17 the count was advanced with `count.increment()` (`self + 1` in the
index type): 256 commands added through `add_u8` (1 KB of g41v2 objects, well inside the 2048-octet buffer)
overflowed the u8 count on the 256th item — a panic with overflow checks, a count of 0 in front of 256 objects
without.  The count is now advanced with `checked_next` and the overflow is `WriteError::NumericOverflow`
(`count_overflow_is_write_error`; the former witness is `harness/corpus/C09/parse_D17.ops`). -/

/-- the variations `CommandBuilder` writes (`CommandHeader::write`) -/
def commandVariations : List (Nat × Nat) := [(12, 1), (41, 1), (41, 2), (41, 3), (41, 4)]

/-- they are known to `Variation::lookup`, and the count-and-prefix table hands them to the prefixed fixed-size parser -/
theorem command_variations_prefixed : ∀ gv ∈ commandVariations,
    lookup gv.1 gv.2 = some (.fixed gv.1 gv.2) ∧
    tableGet prefixedTable (.fixed gv.1 gv.2) = some (.prefFixed gv.1 gv.2) ∧ 0 < fixedSize gv.1 gv.2 := by
  decide +kernel

/-- **written completely, or a write error — nothing else.**  For every buffer capacity, every content already
    in the buffer, every variation, both index widths and every list of items (values of the variation's size):
    `write_prefixed_items` succeeds exactly when the count is expressible in the index type and header + items
    fit the rest of the buffer, and then it has appended exactly the header image; otherwise it returns a
    `WriteError`. -/
theorem prefixed_header_written_or_write_error (cap : Nat) (acc : List Nat) (g v : Nat) (wide : Bool)
    (items : List CmdItem) (hsz : ∀ it ∈ items, it.2.length = fixedSize g v) :
    writePrefixedItems cap acc g v wide items =
      if items.length ≤ maxCount wide ∧
          acc.length + 3 + idxSize wide + (idxSize wide + fixedSize g v) * items.length ≤ cap
      then some (acc ++ prefixedImage g v wide items) else none :=
  writePrefixedItems_spec cap acc g v wide (fixedSize g v) items hsz

example : ∀ it ∈ ([(7, [1, 0, 0]), (255, [0xFF, 0x7F, 4])] : List CmdItem), it.2.length = fixedSize 41 2 := by decide

/-- more items than the count field can express is a write error, whatever the items, the capacity and the
    buffer content (the former D17 overflow: 256 items with a one-octet count) -/
theorem count_overflow_is_write_error (cap : Nat) (acc : List Nat) (g v : Nat) (wide : Bool) (items : List CmdItem)
    (h : maxCount wide < items.length) : writePrefixedItems cap acc g v wide items = none :=
  writePrefixedItems_count_overflow cap acc g v wide items h

/-- the former D17 witness shape: 256 g41v2 commands with one-octet indices into a 2048-octet buffer (1024 + 6
    octets would fit) is a write error; 255 of them are written, with count octet 255 -/
theorem d17_witness_is_write_error :
    writeCommands 2048 [0xC5, 5] 41 2 false ((List.range 256).map fun i => (i % 256, [i % 256, 0, 0])) = none ∧
    (writeCommands 2048 [0xC5, 5] 41 2 false ((List.range 255).map fun i => (i, [i, 0, 0]))).map (·.take 6) =
      some [0xC5, 5, 41, 2, 0x17, 255] := by
  decide +kernel

/-- **what was written parses back to what was built.**  For every variation the count-and-prefix table lists
    as a prefixed fixed-size object (in particular every command variation), the image of a header — followed by
    anything — is parsed as that header: same variation, same count, the item octets as payload, the rest
    untouched; and iterating the parsed header yields exactly the items that were built, index and octets, in
    order. -/
theorem prefixed_header_parses_back (isRead zls : Bool) (g v : Nat) (wide : Bool) (items : List CmdItem)
    (rest : List Nat) (hl : lookup g v = some (.fixed g v))
    (ht : tableGet prefixedTable (.fixed g v) = some (.prefFixed g v))
    (hsz : ∀ it ∈ items, it.2.length = fixedSize g v) :
    parseOne isRead zls (prefixedImage g v wide items ++ rest) =
      .ok (⟨.fixed g v, .countPrefix wide items.length, .prefFixed g v, itemOctets wide items⟩, rest) ∧
    iterate ⟨.fixed g v, .countPrefix wide items.length, .prefFixed g v, itemOctets wide items⟩ =
      some (.ok (items.map fun it => ⟨some it.1, leIdx wide it.1 ++ it.2⟩)) := by
  refine ⟨parseOne_prefixedImage isRead zls g v wide items rest hl ht hsz, ?_⟩
  simp only [iterate, Spec.wide, iterPrefixed_itemOctets wide (fixedSize g v) items hsz]

example : lookup 41 2 = some (.fixed 41 2) ∧ tableGet prefixedTable (.fixed 41 2) = some (.prefFixed 41 2) :=
  ⟨(command_variations_prefixed (41, 2) (by decide)).1, (command_variations_prefixed (41, 2) (by decide)).2.1⟩

/-- the image consists of octets when the count and the indices are expressible in the index type and the
    values are octets (this is where the bound on the count matters: a count of 256 has no one-octet image) -/
theorem prefixed_image_is_octets (g v : Nat) (wide : Bool) (items : List CmdItem)
    (hg : g < 256) (hv : v < 256) (hn : items.length ≤ maxCount wide)
    (hi : ∀ it ∈ items, it.1 ≤ maxCount wide ∧ bytesOk it.2) : bytesOk (prefixedImage g v wide items) := by
  have hidx : ∀ n, n ≤ maxCount wide → bytesOk (leIdx wide n) := by
    intro n hn b hb
    cases wide
    · simp only [leIdx, Bool.false_eq_true, ↓reduceIte, List.mem_singleton] at hb
      simp only [maxCount, Bool.false_eq_true, ↓reduceIte] at hn; omega
    · simp only [leIdx, ↓reduceIte, le16, List.mem_cons, List.not_mem_nil, or_false] at hb
      simp only [maxCount, ↓reduceIte] at hn
      rcases hb with hb | hb <;> omega
  have hq : prefixQualifier wide < 256 := by cases wide <;> decide
  intro b hb
  simp only [prefixedImage, itemOctets, List.cons_append, List.nil_append, List.mem_cons, List.mem_append,
    List.mem_flatten, List.mem_map] at hb
  rcases hb with hb | hb | hb | hb | ⟨l, ⟨it, hit, rfl⟩, hb⟩
  · omega
  · omega
  · omega
  · exact hidx _ hn b hb
  · rcases List.mem_append.mp hb with hb | hb
    · exact hidx _ (hi it hit).1 b hb
    · exact (hi it hit).2 b hb

/-- **a command request is written completely and parses back to what was built, or the write fails cleanly.**
    `CommandBuilder` with the commands `items` (at least one; one variation, one index width) written after the
    request header into a `cap`-octet buffer: either the write fails (exactly when the count is not expressible
    or header + objects do not fit), or the result fits the buffer, its application header parses back to the
    control field and function that were written, its object section is exactly one header, and iterating that
    header yields exactly the commands that were built. -/
theorem command_request_roundtrip_or_write_error (cap : Nat) (fir fin con uns : Bool) (seq : Fin 16) (f : Nat)
    (g v : Nat) (wide : Bool) (items : List CmdItem)
    (hf : knownFunction f = true) (hr : isResponseFn f = false) (hgv : (g, v) ∈ commandVariations)
    (hne : items ≠ []) (hsz : ∀ it ∈ items, it.2.length = fixedSize g v) :
    let ctl : Control := ⟨fir, fin, con, uns, seq.val⟩
    let hrec : HeaderRec := ⟨.fixed g v, .countPrefix wide items.length, .prefFixed g v, itemOctets wide items⟩
    (writeCommands cap (writeRequestHeader ctl f) g v wide items = none ∧
      (maxCount wide < items.length ∨ cap < 2 + 3 + idxSize wide + (idxSize wide + fixedSize g v) * items.length)) ∨
    (∃ bytes, writeCommands cap (writeRequestHeader ctl f) g v wide items = some bytes ∧ bytes.length ≤ cap ∧
      parseHeader bytes = .ok ⟨ctl, f, none, hrec.image⟩ ∧
      walk (f == fnRead) false hrec.image = .ok [hrec] ∧
      iterate hrec = some (.ok (items.map fun it => ⟨some it.1, leIdx wide it.1 ++ it.2⟩))) := by
  intro ctl hrec
  obtain ⟨hl, ht, _⟩ := command_variations_prefixed (g, v) hgv
  have hw : writeCommands cap (writeRequestHeader ctl f) g v wide items =
      writePrefixedItems cap (writeRequestHeader ctl f) g v wide items := by
    cases items with
    | nil => exact absurd rfl hne
    | cons _ _ => rfl
  have himg : hrec.image = prefixedImage g v wide items := by
    cases wide <;> simp [hrec, HeaderRec.image, prefixedImage, Variation.group, Variation.var, Spec.qualifier,
      Spec.bytes, prefixQualifier]
  have hlen : (writeRequestHeader ctl f).length = 2 := rfl
  rw [hw, prefixed_header_written_or_write_error cap _ g v wide items hsz, hlen]
  by_cases hc : items.length ≤ maxCount wide ∧ 2 + 3 + idxSize wide + (idxSize wide + fixedSize g v) * items.length ≤ cap
  · right
    have hpb := prefixed_header_parses_back (f == fnRead) false g v wide items [] hl ht hsz
    rw [List.append_nil] at hpb
    refine ⟨writeRequestHeader ctl f ++ prefixedImage g v wide items, by simp only [hc, and_self, ↓reduceIte], ?_, ?_, ?_, hpb.2⟩
    · have := itemOctets_length wide (fixedSize g v) items hsz
      simp only [List.length_append, hlen, prefixedImage, List.length_cons, List.length_nil, leIdx_length, this]
      omega
    · rw [himg]; exact request_header_roundtrip fir fin con uns seq f _ hf hr
    · rw [himg]; exact walk_single hpb.1
  · left
    refine ⟨by simp only [hc, ↓reduceIte], ?_⟩
    omega

example : knownFunction 5 = true ∧ isResponseFn 5 = false ∧ (41, 2) ∈ commandVariations ∧
    ([(7, [1, 0, 0])] : List CmdItem) ≠ [] := by decide

/-! ## device attributes (group 0): values, lists, objects, the outstation's READ response, the master's WRITE request

Model `Dnp3.Model.Attr` (tied to the code by the regenerated `Gen/Attrs` and by differential execution, engine
`attr`).  Findings: D27 (single-attribute write without a cursor transaction) and D29 (one-octet INT read back
zero-extended) are repaired in the library and the statements below hold in full; D30 (the master's builder takes
the variations 0 and 254) is open: `build_request_parses_back_partial` + `build_request_parses_back_counterexample`. -/
section Attr
open Dnp3.Attr Dnp3.Gen.Attrs
/- `Denotes m o` (Proofs/C09Attr): the decoded object `o` is what the database `m` holds: set and variation are
   octets, the variation is neither 0 nor 254, and either (variation 255) the value is a list whose iteration gives
   the set's (variation, writable) pairs in the database's order, or the value is the value stored under
   (set, variation). -/
open Dnp3.Proofs.C09Attr (Denotes)

/-- the regenerated type-code tables are each other's inverse and agree with the constants the object walk uses -/
theorem attr_type_codes_consistent :
    (∀ dt : DataType, typeOfCode dt.code = some dt) ∧ (∀ p ∈ codeTable, p.2.code = p.1) ∧
    DataType.visibleString.code = attrVisibleString ∧ DataType.unsignedInt.code = attrUnsignedInt ∧
    DataType.signedInt.code = attrSignedInt ∧ DataType.floatingPoint.code = attrFloatingPoint ∧
    DataType.octetString.code = attrOctetString ∧ DataType.bitString.code = attrBitString ∧
    DataType.dnp3Time.code = attrDnp3Time ∧ DataType.attrList.code = attrAttrList ∧
    DataType.extAttrList.code = attrExtAttrList := by
  refine ⟨fun dt => by cases dt <;> rfl, by decide, ?_⟩
  decide

/-- what the translator read out of `get_list_encoding`, `AttrValue::parse`, `parse_attr_list`, `VariationListIter`,
    `Selected::all`, `Variation::create`, `UInt::new` / `Int::new`: writer and parser use the same list constants -/
theorem attr_translator_shape_checks :
    listEntryOctets = 2 ∧ extListBias = 256 ∧ parseExtListBias = extListBias ∧ parseListModulus = listEntryOctets ∧
    iterEntryOctets = listEntryOctets ∧ propWritableBit = 1 ∧ listVariation = 255 ∧ reservedVars = [0, 254, 255] ∧
    selectAllFirst = 0 ∧ selectAllLast = 253 ∧ maxSelected = 32 ∧
    uintWidthsShapeOk = true ∧ intWidthsShapeOk = true := by decide

/-- the default set: every typed variation of `AnyAttribute::try_from` is the `variation()` of a variant of the
    per-kind enum whose `extract` demands that type; the variations that may be defined writable are strings -/
theorem default_set_table_consistent :
    (∀ p ∈ defaultSetTypes, ∃ q ∈ kindVariations, q.2.2 = p.1 ∧ (q.1, p.2) ∈ kindType) ∧
    (∀ v ∈ writableVars, (v, DataType.visibleString) ∈ defaultSetTypes) ∧
    (defaultSetTypes.map (·.1)).Nodup ∧ (∀ p ∈ defaultSetTypes, p.1 < 256) := by decide +kernel

/-! ### attribute values (`OwnedAttrValue::write`, `AttrValue::parse`) -/

/-- parse (encode v) = v, consuming exactly the encoded octets: for every value an `OwnedAttrValue` can hold -/
theorem attr_roundtrip (v : Value) (img rest : List Nat) (hv : v.WellFormed) (h : v.image = some img) :
    parseValue (img ++ rest) = .ok (v, rest) :=
  @Dnp3.Proofs.C09AttrValue.attr_roundtrip v img rest hv h

/-- an owned value has no encoding exactly when it is a string / octet string / bit string longer than 255 octets -/
theorem attr_image_none_iff (v : Value) (hv : v.WellFormed) : v.image = none ↔ 255 < valueLen v :=
  @Dnp3.Proofs.C09AttrValue.attr_image_none_iff v hv

/-- the list of variations round-trips for EVERY length the encoding can express (0..255 entries), across the
    127/128 boundary between the plain and the extended list; the decoded `raw` does not depend on what follows -/
theorem attr_list_roundtrip (items : List (Nat × Bool)) (hn : items.length ≤ 255) :
    ∃ img raw, listImage items = some img ∧ img.length = 2 + 2 * items.length ∧
      (∀ rest : List Nat, parseValue (img ++ rest) = .ok (.list raw, rest)) ∧ iterList raw = items :=
  @Dnp3.Proofs.C09AttrValue.attr_list_roundtrip items hn

/-- beyond 255 entries there is no encoding (`get_list_encoding` = None: nothing is written) -/
theorem attr_list_unencodable (items : List (Nat × Bool)) (h : 255 < items.length) : listImage items = none :=
  @Dnp3.Proofs.C09AttrValue.attr_list_unencodable items h

/-- the boundaries of `get_list_encoding` -/
theorem list_encoding_boundaries :
    listEncoding 0 = some (0, .attrList) ∧ listEncoding 127 = some (254, .attrList) ∧
    listEncoding 128 = some (0, .extAttrList) ∧ listEncoding 129 = some (2, .extAttrList) ∧
    listEncoding 255 = some (254, .extAttrList) ∧ listEncoding 256 = none :=
  @Dnp3.Proofs.C09AttrValue.list_encoding_boundaries 

/-- for every n: the length octet written is what the parser turns back into 2n octets -/
theorem list_encoding_exact (n len : Nat) (dt : DataType) (h : listEncoding n = some (len, dt)) :
    len ≤ 255 ∧ ((dt = .attrList ∧ len = 2 * n) ∨ (dt = .extAttrList ∧ len + parseExtListBias = 2 * n)) :=
  @Dnp3.Proofs.C09AttrValue.list_encoding_exact n len dt h

/-- the parser accepts a value only if the octets present are exactly what the type code and the length octet
    imply, and conversely accepts every such octet string; the decoded value is a function of those octets -/
theorem attr_parse_accepts_only_exact (bs rest : List Nat) (v : Value) :
    parseValue bs = .ok (v, rest) ↔
      ∃ t len dt d, bs = t :: len :: (d ++ rest) ∧ typeOfCode t = some dt ∧ impliedLen dt len = some d.length ∧
        (dt = .visibleString → validUtf8 d = true) ∧ v = decodePayload dt len d :=
  @Dnp3.Proofs.C09AttrValue.attr_parse_accepts_only_exact bs rest v

/-- the typed value parser and the value-less `attrValue` of the object walk (Model/ObjectGrammar) accept the same
    octet strings, consume the same octets and report the same error -/
theorem parseValue_agrees_with_walk (bs : List Nat) : (parseValue bs).map (·.2) = attrValue bs :=
  @Dnp3.Proofs.C09AttrValue.parseValue_agrees_with_walk bs


example : (Value.int (-1)).WellFormed ∧ (Value.int (-1)).image = some [3, 1, 255] ∧
    parseValue [3, 1, 255] = .ok (.int (-1), []) := ⟨by simp [Value.WellFormed], by decide, rfl⟩
example : (Value.ostr (List.replicate 256 0)).image = none := by
  simp only [Value.image, List.length_replicate, show ¬ (256 ≤ 255) by omega, if_false]
example : parseValue [255, 1, 0] = .error (.badAttrListLength 257) ∧ parseValue [2, 3, 1, 2, 3] = .error (.badIntegerLength 3) :=
  ⟨rfl, rfl⟩

/-! ### attribute objects under the real header walk (`parseOne` / `walk` of Model/ObjectGrammar) -/

/-- the parser model of Model/Attr for one group-0 object (`parseObj`) is the real header walk restricted to that
    header form: whenever the typed value parser accepts the value, `parseOne` yields the record whose payload is exactly
    the value's octets -/
theorem parseOne_attr_object (zls : Bool) (set var : Nat) (img rest : List Nat) (v : Value)
    (hs : set < 256) (hvar : var < 256) (h0 : var ≠ 0) (h254 : var ≠ 254)
    (hv : parseValue (img ++ rest) = .ok (v, rest)) :
    parseOne false zls (objHeader set var ++ img ++ rest) =
      .ok (⟨.wild 0 var, .range false set set, .attr, img⟩, rest) ∧
    parseObj (objHeader set var ++ img ++ rest) = .ok (⟨set, var, v⟩, rest) :=
  @Dnp3.Proofs.C09AttrWalk.parseOne_attr_object zls set var img rest v hs hvar h0 h254 hv

/-- a sequence of attribute objects: the real walk accepts the concatenation and yields one record per object -/
theorem walk_attr_objects (zls : Bool) (objs : List (Obj × List Nat))
    (h : ∀ p ∈ objs, p.1.set < 256 ∧ p.1.var < 256 ∧ p.1.var ≠ 0 ∧ p.1.var ≠ 254 ∧
          ∀ rest, parseValue (p.2 ++ rest) = .ok (p.1.value, rest)) :
    walk false zls (objs.flatMap fun p => objHeader p.1.set p.1.var ++ p.2) =
      .ok (objs.map fun p => ⟨.wild 0 p.1.var, .range false p.1.set p.1.set, .attr, p.2⟩) ∧
    parseObjs (objs.flatMap fun p => objHeader p.1.set p.1.var ++ p.2) = .ok (objs.map (·.1)) :=
  @Dnp3.Proofs.C09AttrWalk.walk_attr_objects zls objs h

/-! ### the outstation's READ response (`Selection::write_all`, `write_attr_list`, `HeaderWriter::write_attribute`)

`writeAll m cap sel buf` is one call of `write_all` into a cursor of capacity `cap` already holding `buf`;
`Dnp3.Attr.allObjects m sel` is what the READ denotes, independent of any capacity. -/

/-- `write_all`: for every database, capacity, selection queue and prior cursor content, the fragment is the prior
    content plus whole objects: a prefix of what the READ denotes; the remaining queue denotes exactly the rest
    (nothing lost, nothing duplicated, nothing reordered, no partial object) -/
theorem writeAll_exact (m : SetMap) (cap : Nat) (sel : List Selected) (buf : List Nat) :
    ∃ objs : List (List Nat), (writeAll m cap sel buf).1 = buf ++ objs.flatten ∧
      Dnp3.Attr.allObjects m sel = objs ++ Dnp3.Attr.allObjects m (writeAll m cap sel buf).2 :=
  @Dnp3.Proofs.C09AttrWriter.writeAll_exact m cap sel buf

/-- the cursor never exceeds its capacity -/
theorem writeAll_within_capacity (m : SetMap) (cap : Nat) (sel : List Selected) (buf : List Nat)
    (h : buf.length ≤ cap) : (writeAll m cap sel buf).1.length ≤ cap :=
  @Dnp3.Proofs.C09AttrWriter.writeAll_within_capacity m cap sel buf h

/-- the writer stops only because the next step does not fit: if something remains, the step for the head of the
    remaining queue is `blocked` at the final cursor position -/
theorem writeAll_stops_only_when_blocked (m : SetMap) (cap : Nat) (sel : List Selected) (buf : List Nat)
    (s' : Selected) (rest' : List Selected) (h : (writeAll m cap sel buf).2 = s' :: rest') :
    stepFor m cap (writeAll m cap sel buf).1.length s'.set s'.cur = .blocked :=
  @Dnp3.Proofs.C09AttrWriter.writeAll_stops_only_when_blocked m cap sel buf s' rest' h

/-- a series of fragments (any capacities): the fragments are whole objects, their concatenation is a prefix of what
    the READ denotes, and the final queue denotes exactly what has not been sent -/
theorem series_exact (m : SetMap) (caps : List Nat) (sel : List Selected) :
    ∃ objss : List (List (List Nat)), (series m caps sel).1 = objss.map List.flatten ∧
      Dnp3.Attr.allObjects m sel = objss.flatten ++ Dnp3.Attr.allObjects m (series m caps sel).2 :=
  @Dnp3.Proofs.C09AttrWriter.series_exact m caps sel

/-- progress: with a capacity that can hold any single object (517 octets), a fragment written into an empty cursor
    either completes the READ or carries at least one object -/
theorem writeAll_progress (m : SetMap) (cap : Nat) (sel : List Selected) (hcap : 517 ≤ cap)
    (h : (writeAll m cap sel []).2 ≠ []) : (writeAll m cap sel []).1 ≠ [] :=
  @Dnp3.Proofs.C09AttrWriter.writeAll_progress m cap sel hcap h

/-- `define` keeps the database well-formed and records exactly the new attribute -/
theorem define_preserves_wf (m m' : SetMap) (set var : Nat) (w : Bool) (v : Value)
    (hm : m.WF) (hs : set < 256) (hvar : var < 256) (hv : v.WellFormed) (h : define m set var w v = .ok m') :
    m'.WF ∧ m'.get set var = some ⟨var, w, v⟩ ∧
      ∀ s x, (s, x) ≠ (set, var) → m'.get s x = m.get s x :=
  @Dnp3.Proofs.C09AttrWriter.define_preserves_wf m m' set var w v hm hs hvar hv h

/-- `define` refuses a variation that is already there: a defined attribute is never overwritten -/
theorem define_never_overwrites (m : SetMap) (set var : Nat) (w : Bool) (v : Value) (e : Entry)
    (h : m.get set var = some e) : ∃ err, define m set var w v = .error err :=
  @Dnp3.Proofs.C09AttrWriter.define_never_overwrites m set var w v e h


/-- `Selected::all(set)` (variations 0..=253 visited with `get`) denotes exactly the set's entries, in the database's
    (ascending) order, each once; entries whose value has no encoding are left out -/
theorem selObjects_all (m : SetMap) (hm : m.WF) (set : Nat) :
    selObjects m (Selected.all set) =
      ((m.entries set).getD []).filterMap fun e => e.value.image.map (objHeader set e.var ++ ·) :=
  @Dnp3.Proofs.C09AttrOrder.selObjects_all m hm set

/-- the list object (g0v255) enumerates the same entries in the same order -/
theorem objectFor_list (m : SetMap) (set : Nat) (es : List Entry) (h : m.entries set = some es) :
    objectFor m set listVariation =
      (listImage (es.map fun e => (e.var, e.writable))).map (objHeader set listVariation ++ ·) :=
  @Dnp3.Proofs.C09AttrOrder.objectFor_list m set es h


/-- ONE FRAGMENT.  For every well-formed attribute database, every selection queue and every
    capacity, the fragment `write_all` produces into an empty cursor is accepted by the library's
    parser, consuming every octet, as a sequence of group-0 objects each of which is what the
    database holds (`Denotes`): no fragment ends inside an object. -/
theorem response_fragment_parses_back (m : SetMap) (hm : m.WF) (cap : Nat) (sel : List Selected) (zls : Bool)
    (hsel : ∀ s ∈ sel, s.set < 256 ∧ s.cur < 256) :
    ∃ objs : List Obj, parseObjs (writeAll m cap sel []).1 = .ok objs ∧ (∀ o ∈ objs, Denotes m o) ∧
      ∃ recs, walk false zls (writeAll m cap sel []).1 = .ok recs ∧ recs.length = objs.length :=
  @Dnp3.Proofs.C09Attr.response_fragment_parses_back m hm cap sel zls hsel

/-- A SERIES of fragments at any capacities: every fragment is accepted by the parser as whole
    objects the database denotes, the object images of the fragments concatenated are a prefix of
    what the READ denotes, and when the series is complete they are all of it. -/
theorem response_series_parses_back (m : SetMap) (hm : m.WF) (caps : List Nat) (sel : List Selected) (zls : Bool)
    (hsel : ∀ s ∈ sel, s.set < 256 ∧ s.cur < 256) :
    (∀ frag ∈ (series m caps sel).1, ∃ objs : List Obj, parseObjs frag = .ok objs ∧ (∀ o ∈ objs, Denotes m o) ∧
        ∃ recs, walk false zls frag = .ok recs ∧ recs.length = objs.length) ∧
    (∃ rest, (Dnp3.Attr.allObjects m sel).flatten = ((series m caps sel).1).flatten ++ rest) ∧
    ((series m caps sel).2 = [] → ((series m caps sel).1).flatten = (Dnp3.Attr.allObjects m sel).flatten) :=
  @Dnp3.Proofs.C09Attr.response_series_parses_back m hm caps sel zls hsel

example : Dnp3.Proofs.C09AttrWriter.exMap.WF ∧
    (∀ s ∈ [Selected.all 1, Selected.single 1 255], s.set < 256 ∧ s.cur < 256) ∧
    (writeAll Dnp3.Proofs.C09AttrWriter.exMap 12 [Selected.all 1, Selected.single 1 255] []).1 = [0, 5, 0, 1, 1, 2, 1, 42] := by
  refine ⟨by simp [Dnp3.Proofs.C09AttrWriter.exMap, SetMap.WF, Entry.WF, Value.WellFormed, reservedVars], by decide, by decide +kernel⟩

/-! ### the master's WRITE request (`Headers::add_attribute`) -/

/-- THE MASTER'S REQUEST.  FULL statement (false for the unchanged code, finding D30: `Headers::add_attribute`
    takes the variations 0 and 254, see `build_request_parses_back_counterexample`):
      ∀ cap attrs body, (∀ o ∈ attrs, o.set < 256 ∧ o.var < 256 ∧ o.value.WellFormed) →
        buildWrite cap attrs = .ok body → parseObjs body = .ok attrs
    proved for attributes whose variation is neither 0 nor 254: a request that was built is accepted by the
    parser, consuming every octet, as exactly the attributes given, in order. -/
theorem build_request_parses_back_partial (cap : Nat) (attrs : List Obj) (body : List Nat)
    (hw : ∀ o ∈ attrs, o.set < 256 ∧ o.var < 256 ∧ o.var ≠ 0 ∧ o.var ≠ 254 ∧ o.value.WellFormed)
    (h : buildWrite cap attrs = .ok body) :
    2 + body.length ≤ cap ∧ parseObjs body = .ok attrs ∧
    ∃ recs, walk false false body = .ok recs ∧ recs.length = attrs.length :=
  @Dnp3.Proofs.C09Attr.build_request_parses_back_partial cap attrs body hw h

/-- the counterexample (replayed on the real code by engine `attr`, witness findings/D30.ops): variation 0 is built
    but the parser rejects it as an unknown object … -/
theorem build_request_parses_back_counterexample :
    buildWrite 2048 [⟨1, 0, .uint 42⟩] = .ok [0, 0, 0, 1, 1, 2, 1, 42] ∧
    parseObj [0, 0, 0, 1, 1, 2, 1, 42] = .error (.unknownGroupVariation 0 0) ∧
    parseOne false false [0, 0, 0, 1, 1, 2, 1, 42] = .error (.unknownGroupVariation 0 0) ∧
    
    buildWrite 2048 [⟨1, 254, .uint 42⟩] = .ok [0, 254, 0, 1, 1, 2, 1, 42] ∧
    parseOne false false [0, 254, 0, 1, 1, 2, 1, 42] = .ok (⟨.fixed 0 254, .range false 1 1, .none, []⟩, [2, 1, 42]) :=
  @Dnp3.Proofs.C09AttrWalk.build_request_parses_back_counterexample 

end Attr

/-! ## file-transfer objects (group 70, free-format qualifier 0x5B): the seven objects, the free-format header, the master's file requests

Model `Dnp3.Model.File70` (tied to the code by the regenerated `Gen/File70` — field order and widths of every `write` /
`read`, offset constants, `byte_length`, enum codes, permission bits, the struct literals of the master's builders,
the steps of `write_free_format` — and by differential execution, engine `file70`).  Strings are their UTF-8 octets:
a name whose octet length differs from its character count is an ordinary value here.  Enumerations (`FileStatus`,
`FileType`, `FileMode`) are their wire codes: `Other(x)` / `Reserved(x)` with a named code is a second in-memory
spelling of the same wire value (e.g. `GetFileInfoTask` writes `FileType::Other(0)`, which reads back as `Directory`).
`Group70Var6::write` and `Group70Var8::write` exist only under `#[cfg(test)]`; the outstation of this library version
emits no group-70 object at all.  No statement of this section fails on the unchanged code. -/
section File70
open Dnp3.File70 Dnp3.Gen.File70
/- `ExactObj v bs rest o` (Proofs/C09File70): `o` has variation `v`, is a value its struct can hold (`o.WF`), every size /
   offset field is expressible (`o.Encodable`), and there is a raw 16-bit permission field `raw` with
   `o.withPerm (permOf raw) = o` and `bs = encodeRaw raw o ++ rest` — the octets are exactly the encoding of `o` (offsets
   the constants, size fields the octet lengths of the strings) followed by `rest`.
   `freeRec o`: the record ⟨g70 v, free-format count 1 length |encode o|, file v, encode o⟩ of the object walk. -/
open Dnp3.Proofs.C09File70 (ExactObj freeRec)

/-- what each `write` function writes, in order, with which width: the model's field list is the regenerated one -/
theorem layout_tied : ∀ o : FileObj, writeLayout.lookup o.variation = some o.layout :=
  @Dnp3.Proofs.C09File70.layout_tied 

/-- every `read` function reads the widths its `write` function writes, in the same order -/
theorem read_layout_tied : ∀ v ∈ [2, 3, 4, 5, 6, 7, 8],
    (readLayout.lookup v).map (·.map (·.2)) = (writeLayout.lookup v).map (·.map (·.2)) :=
  @Dnp3.Proofs.C09File70.read_layout_tied 

/-- the early returns of the `read` functions are the ones the model transcribes: the offset comparisons against the
    constants, the checked sum of g70v2, one `from_utf8` per string; each `read_bytes` takes the size read for it -/
theorem read_checks_tied :
    readChecks = [
      (2, ["user_name_offset!=USER_NAME_OFFSET", "password_offset!=implied_password_offset",
           "implied_password_offset=USER_NAME_OFFSET+user_name_length", "utf8*2",
           "u16binds:user_name_offset,user_name_length,password_offset,password_length"]),
      (3, ["file_name_offset!=FILE_NAME_OFFSET", "utf8*1", "u16binds:file_name_offset,file_name_length,max_block_size,request_id"]),
      (4, ["utf8*1", "u16binds:max_block_size,request_id"]),
      (5, ["utf8*0", "u16binds:"]),
      (6, ["utf8*1", "u16binds:"]),
      (7, ["file_name_offset!=FILE_NAME_OFFSET", "utf8*1", "u16binds:file_name_offset,file_name_length,request_id"]),
      (8, ["utf8*1", "u16binds:"])] ∧
    (readLayout.lookup 2).map (·.filterMap fun r => if r.2 = "bytes" then some r.1 else none) = some ["user_name_length", "password_length"] ∧
    (readLayout.lookup 3).map (·.filterMap fun r => if r.2 = "bytes" then some r.1 else none) = some ["file_name_length"] ∧
    (readLayout.lookup 7).map (·.filterMap fun r => if r.2 = "bytes" then some r.1 else none) = some ["file_name_length"] ∧
    offsetConsts = [(2, "USER_NAME_OFFSET", g70v2UserNameOffset), (3, "FILE_NAME_OFFSET", g70v3FileNameOffset),
      (7, "FILE_NAME_OFFSET", g70v7FileNameOffset)] :=
  @Dnp3.Proofs.C09File70.read_checks_tied 

/-- **the size fields count octets**: `byte_length` hands `s.len()` — the length of the string in octets — to `to_u16` -/
theorem byte_length_counts_octets : byteLengthExpr = "s.len()" :=
  @Dnp3.Proofs.C09File70.byte_length_counts_octets 

/-- the enumerations are coded injectively (`new` and `to_u8` / `to_u16` were checked to be mutually inverse by the
    translator), so a wire code stands for one value -/
theorem enum_codes_distinct :
    (fileStatusCodes.map (·.1)).Nodup ∧ (fileStatusCodes.map (·.2)).Nodup ∧ (∀ p ∈ fileStatusCodes, p.1 < 256) ∧
    (fileTypeCodes.map (·.1)).Nodup ∧ (fileTypeCodes.map (·.2)).Nodup ∧
    (fileModeCodes.map (·.1)).Nodup ∧ (fileModeCodes.map (·.2)).Nodup ∧ blockTopBit = 2 ^ 31 :=
  @Dnp3.Proofs.C09File70.enum_codes_distinct 

/-- the permission bits: the bit `Permissions::read` tests for (who, what) is the bit `Permissions::value` sets for it,
    and the nine bits are exactly bits 0..8 (`permOf` keeps them, the seven others are ignored) -/
theorem permission_bits_consistent :
    (∀ r ∈ permReadBits, ∃ s ∈ permShifts, ∃ b ∈ permSetBits, s.1 = r.1 ∧ b.1 = r.2.1 ∧ 2 ^ r.2.2 = b.2 * 2 ^ s.2) ∧
    permReadBits.map (·.2.2) = [0, 1, 2, 3, 4, 5, 6, 7, 8] ∧ permReadBits.length = permShifts.length * permSetBits.length :=
  @Dnp3.Proofs.C09File70.permission_bits_consistent 

/-- the struct literals of the master's request builders are the ones the model's `authRequest` … `readBlockRequest`
    transcribe, the function codes are the ones `RTask.request` and the driver use, `write_free_format` has the
    steps `writeFreeFormat` models, and only g70v2 / v3 / v4 / v5 / v7 have a writer -/
theorem builders_tied :
    builders = [
      ("mod::write_auth", 2, [("auth_key", "0"), ("user_name", "&credentials.user_name"), ("password", "&credentials.password")]),
      ("mod::write_close", 4, [("file_handle", "handle.into()"), ("file_size", "0"), ("max_block_size", "0"),
        ("request_id", "REQUEST_ID"), ("status_code", "FileStatus::Success"), ("text", "\"\"")]),
      ("authenticate::write", 2, [("auth_key", "0"), ("user_name", "&self.credentials.user_name"), ("password", "&self.credentials.password")]),
      ("open::write", 3, [("time_of_creation", "Timestamp::zero()"), ("permissions", "self.request.permissions"),
        ("auth_key", "self.request.auth_key.into()"), ("file_size", "self.request.file_size"), ("mode", "self.request.file_mode"),
        ("max_block_size", "self.request.max_block_size"), ("request_id", "REQUEST_ID"), ("file_name", "&self.request.file_name")]),
      ("close::write", 4, [("file_handle", "self.handle.into()"), ("file_size", "0"), ("max_block_size", "0"),
        ("request_id", "REQUEST_ID"), ("status_code", "FileStatus::Success"), ("text", "\"\"")]),
      ("get_info::write", 7, [("file_type", "FileType::Other(0)"), ("file_size", "0"), ("time_of_creation", "Timestamp::zero()"),
        ("permissions", "Default::default()"), ("request_id", "0xCAFE"), ("file_name", "self.file_name.as_str()")]),
      ("write_block::write", 5, [("file_handle", "self.request.handle.into()"), ("block_number", "self.request.block_number.wire_value()"),
        ("file_data", "&self.request.block_data")]),
      ("read::write_open", 3, [("time_of_creation", "Timestamp::zero()"), ("permissions", "Permissions::default()"),
        ("auth_key", "key.into()"), ("file_size", "0"), ("mode", "FileMode::Read"), ("max_block_size", "settings.config.max_block_size"),
        ("request_id", "REQUEST_ID"), ("file_name", "&settings.name.0")]),
      ("read::write_read", 5, [("file_handle", "rs.handle.into()"), ("block_number", "rs.block.wire_value()"), ("file_data", "&[]")])] ∧
    taskFunctions = [("authenticate", ["AuthenticateFile"]), ("open", ["OpenFile"]), ("close", ["CloseFile"]),
      ("get_info", ["GetFileInfo"]), ("write_block", ["Write"]), ("read", ["AuthenticateFile", "CloseFile", "OpenFile", "Read"])] ∧
    (("AuthenticateFile", fnAuthenticateFile) ∈ functionCodes ∧ ("OpenFile", fnOpenFile) ∈ functionCodes ∧
      ("CloseFile", fnCloseFile) ∈ functionCodes ∧ ("GetFileInfo", fnGetFileInfo) ∈ functionCodes ∧
      ("Write", File70.fnWrite) ∈ functionCodes ∧ ("Read", fnRead) ∈ functionCodes) ∧
    (fileModeCodes.lookup 1 = some "Read" ∧ fileStatusCodes.lookup 0 = some "Success") ∧
    freeFormatWriters = [2, 3, 4, 5, 7] ∧
    writeFreeFormatSteps = ["variation", "qualifier:FreeFormat16", "count:1", "skip:2", "object", "length:u16:checked", "patch:length"] ∧
    Dnp3.Gen.File70.requestId < 2 ^ 16 :=
  @Dnp3.Proofs.C09File70.builders_tied 

/-- **parse (encode o) = o**, consuming exactly the encoded octets: every variation, every field value, every
    string (as its UTF-8 octets) whose sizes the 16-bit size / offset fields can express -/
theorem file_object_roundtrip (o : FileObj) (hwf : o.WF) (he : o.Encodable) :
    parseObj o.variation (encode o) = .ok (o, []) :=
  @Dnp3.Proofs.C09File70.file_object_roundtrip o hwf he

/-- the objects that carry their own sizes (g70v2, v3, v7) are parsed back whatever follows them: the size
    fields alone decide how many octets are consumed (a directory listing is a concatenation of g70v7 objects) -/
theorem file_object_roundtrip_sized (o : FileObj) (rest : List Nat) (hwf : o.WF) (he : o.Encodable)
    (hv : o.variation = 2 ∨ o.variation = 3 ∨ o.variation = 7) :
    parseObj o.variation (encode o ++ rest) = .ok (o, rest) :=
  @Dnp3.Proofs.C09File70.file_object_roundtrip_sized o rest hwf he hv

/-- **the parser accepts an object only if the octets are exactly what it implies**: an accepted object has the
    variation asked for, is a value the struct can hold, its offsets are the constants and its size fields the
    lengths of its strings (the octets are `encodeRaw raw o`: the encoding of `o`, the seven reserved bits of a
    permission field being whatever `raw` holds), nothing is skipped, and the objects without size fields
    (g70v4, v5, v6, v8) take everything -/
theorem file_parse_accepts_only_exact (v : Nat) (bs rest : List Nat) (o : FileObj) (hb : allOctets bs)
    (h : parseObj v bs = .ok (o, rest)) :
    ExactObj v bs rest o ∧ ((v = 4 ∨ v = 5 ∨ v = 6 ∨ v = 8) → rest = []) :=
  @Dnp3.Proofs.C09File70.file_parse_accepts_only_exact v bs rest o hb h

/-- the raw permission field of an object is its nine bits when the struct wrote it -/
theorem encodeRaw_canonical (o : FileObj) (pm : Nat) (h : o.withPerm pm = o) : encodeRaw pm o = encode o :=
  @Dnp3.Proofs.C09File70.encodeRaw_canonical o pm h

/-- the typed parser and the value-less `fileRead` of the object walk (Model/ObjectGrammar) accept the same octet
    strings, leave the same remainder of the sub-cursor and report the same error, for every variation -/
theorem parseObj_agrees_with_fileRead (v : Nat) (bs : List Nat) : (parseObj v bs).map (·.2) = fileRead v bs :=
  @Dnp3.Proofs.C09File70.parseObj_agrees_with_fileRead v bs

/-- `write_free_format` succeeds exactly when no size overflows and header + object fit; then it has written
    exactly the six header octets (count 1, the length of the object) and the object -/
theorem writeFreeFormat_ok_iff (room : Nat) (o : FileObj) (img : List Nat) :
    writeFreeFormat room o = .ok img ↔
      o.Encodable ∧ (encode o).length ≤ 65535 ∧ 6 + (encode o).length ≤ room ∧
      img = freeHeader o.variation (encode o).length ++ encode o :=
  @Dnp3.Proofs.C09File70.writeFreeFormat_ok_iff room o img

theorem free_header_parses_back (isRead zls : Bool) (o : FileObj) (rest : List Nat) (hwf : o.WF) (he : o.Encodable)
    (hl : (encode o).length ≤ 65535) :
    parseOne isRead zls (freeHeader o.variation (encode o).length ++ encode o ++ rest) = .ok (freeRec o, rest) :=
  @Dnp3.Proofs.C09File70.free_header_parses_back isRead zls o rest hwf he hl

/-- **a free-format header is accepted only if the octets present are exactly what it implies**: the count is 1,
    the 16-bit length is the length of the object, the input is the header image followed by the rest, and the
    object inside is an exact encoding (offsets the constants, size fields the string lengths, nothing left over) -/
theorem free_header_accepts_only_exact (isRead zls : Bool) (bs rest : List Nat) (rec : HeaderRec) (c len : Nat)
    (h : parseOne isRead zls bs = .ok (rec, rest)) (ok : bytesOk bs) (hs : rec.spec = .free c len) :
    c = 1 ∧ len = rec.payload.length ∧ bs = rec.image ++ rest ∧
      ∃ v o, rec.kind = .file v ∧ parseObj v rec.payload = .ok (o, []) ∧ ExactObj v rec.payload [] o :=
  @Dnp3.Proofs.C09File70.free_header_accepts_only_exact isRead zls bs rest rec c len h ok hs

/-- **a file request is written completely and parses back to the object that was built, or the write fails.**
    `start_request(control, function)` + `write_free_format(o)` into `cap` octets: either the write fails —
    exactly when a size field overflows, the object is longer than 65535 octets or header + object do not fit — or
    the fragment fits the buffer, its application header parses back to the control field and function written,
    its object section is exactly one free-format header (count 1, length = the object's length), and the object
    in it parses back to `o`, every octet consumed. -/
theorem file_request_roundtrip_or_write_error (cap : Nat) (fir fin con uns : Bool) (seq : Fin 16) (fn : Nat) (o : FileObj)
    (hf : knownFunction fn = true) (hr : isResponseFn fn = false) (hwf : o.WF) :
    let ctl : Control := ⟨fir, fin, con, uns, seq.val⟩
    ((∃ e, buildRequest cap ctl.toByte fn o = .error e) ∧
      (¬ o.Encodable ∨ 65535 < (encode o).length ∨ cap < 8 + (encode o).length)) ∨
    (∃ frag, buildRequest cap ctl.toByte fn o = .ok frag ∧ frag.length = 8 + (encode o).length ∧ frag.length ≤ cap ∧
      parseHeader frag = .ok ⟨ctl, fn, none, (freeRec o).image⟩ ∧
      walk (fn == fnRead) false (freeRec o).image = .ok [freeRec o] ∧
      (freeRec o).spec = .free 1 (encode o).length ∧
      parseObj o.variation (freeRec o).payload = .ok (o, [])) :=
  @Dnp3.Proofs.C09File70.file_request_roundtrip_or_write_error cap fir fin con uns seq fn o hf hr hwf

/-- every object the master's file tasks build is a value of its struct whenever the arguments are values of their
    Rust types (strings UTF-8, `u32` / `u16` numbers, nine permission bits) -/
theorem master_request_objects_wf (name user pass data : List Nat) (key size mode perm maxBlock handle block : Nat)
    (hn : isStr name) (hu : isStr user) (hp : isStr pass) (hd : allOctets data)
    (hk : key < 2 ^ 32) (hs : size < 2 ^ 32) (hm : mode < 2 ^ 16) (hpm : perm < 512) (hmb : maxBlock < 2 ^ 16)
    (hh : handle < 2 ^ 32) (hb : block < 2 ^ 32) :
    (authRequest user pass).WF ∧ (openRequest name key size mode perm maxBlock).WF ∧ (closeRequest handle).WF ∧
    (infoRequest name).WF ∧ (writeBlockRequest handle block data).WF ∧ (readOpenRequest name key maxBlock).WF ∧
    (readBlockRequest handle block).WF :=
  @Dnp3.Proofs.C09File70.master_request_objects_wf name user pass data key size mode perm maxBlock handle block hn hu hp hd hk hs hm hpm hmb hh hb

/-- a directory listing made of well-formed file descriptors is read back as exactly those descriptors -/
theorem directory_roundtrip (objs : List FileObj) (h : ∀ o ∈ objs, o.variation = 7 ∧ o.WF ∧ o.Encodable) :
    parseDir (objs.flatMap encode) = some objs :=
  @Dnp3.Proofs.C09File70.directory_roundtrip objs h


/-! ### the file read task (`master/tasks/file/read.rs`): AUTHENTICATE, OPEN, READ …, CLOSE

`RTaskWF t` (Proofs/C09File70): the task holds values of its Rust types — file name (and credentials) UTF-8, block size
a `u16`, auth key / file handle / block number `u32`.  `runResponses t rs`: the task after the responses `rs` (each the
object octets of a response fragment), `none` once a response ended it. -/
open Dnp3.Proofs.C09File70 (RTaskWF runResponses)

/-- whatever response arrives, the follow-up task again holds values of its Rust types -/
theorem rtask_handle_wf (t t' : RTask) (objs : List Nat) (cbs : List RCb) (h : RTaskWF t) (hb : allOctets objs)
    (hh : t.handle objs = (some t', cbs)) : RTaskWF t' :=
  @Dnp3.Proofs.C09File70.rtask_handle_wf t t' objs cbs h hb hh

/-- **every request the file read task ever sends parses back.**  From a task started with a UTF-8 file name (and
    credentials), after ANY sequence of responses (octet strings), the request of the state reached — AUTHENTICATE
    g70v2, OPEN g70v3, READ g70v5, CLOSE g70v4 — is an object of its struct; so by
    `file_request_roundtrip_or_write_error` it is written completely and parsed back to what was built, or the write
    fails -/
theorem read_task_requests_wf (t t' : RTask) (responses : List (List Nat)) (h : RTaskWF t)
    (hb : ∀ objs ∈ responses, allOctets objs) (hr : runResponses t responses = some t') :
    RTaskWF t' ∧ t'.request.2.WF :=
  @Dnp3.Proofs.C09File70.read_task_requests_wf t t' responses h hb hr


example : RTaskWF ⟨[0x64, 0xC3, 0xA9], 1024, 4096, .openFile 0⟩ ∧
    runResponses ⟨[0x64, 0xC3, 0xA9], 1024, 4096, .openFile 0⟩ [[70, 4, 0x5B, 1, 13, 0, 9, 0, 0, 0, 100, 0, 0, 0, 0, 2, 0x53, 0x46, 0]] =
      some ⟨[0x64, 0xC3, 0xA9], 1024, 4096, .read 9 0 0⟩ := by
  refine ⟨⟨?_, by decide, (by show (0 : Nat) < 2 ^ 32; decide)⟩, ?_⟩
  · simp only [isStr, allOctets]; decide
  · have hw : walk false false [70, 4, 0x5B, 1, 13, 0, 9, 0, 0, 0, 100, 0, 0, 0, 0, 2, 0x53, 0x46, 0] =
        .ok [⟨.fixed 70 4, .free 1 13, .file 4, [9, 0, 0, 0, 100, 0, 0, 0, 0, 2, 0x53, 0x46, 0]⟩] :=
      Dnp3.App.walk_single rfl
    have hp : parseObj 4 [9, 0, 0, 0, 100, 0, 0, 0, 0, 2, 0x53, 0x46, 0] = .ok (.commandStatus 9 100 512 18003 0 [], []) := rfl
    simp only [runResponses, RTask.handle, hw, hp]
    rfl

/-! ### non-vacuity: names whose octet length is not their character count -/

/-- "dé" (3 octets, 2 characters) as the name of a file descriptor -/
example : (FileObj.descriptor 1 0 0 0x1FF 7 [0x64, 0xC3, 0xA9]).WF ∧ (FileObj.descriptor 1 0 0 0x1FF 7 [0x64, 0xC3, 0xA9]).Encodable ∧
    encode (.descriptor 1 0 0 0x1FF 7 [0x64, 0xC3, 0xA9]) = [20, 0, 3, 0, 1, 0, 0, 0, 0, 0, 0, 0, 0, 0, 0, 0, 0xFF, 1, 7, 0, 0x64, 0xC3, 0xA9] ∧
    parseObj 7 [20, 0, 3, 0, 1, 0, 0, 0, 0, 0, 0, 0, 0, 0, 0, 0, 0xFF, 1, 7, 0, 0x64, 0xC3, 0xA9] = .ok (.descriptor 1 0 0 0x1FF 7 [0x64, 0xC3, 0xA9], []) := by
  refine ⟨?_, ?_, rfl, rfl⟩
  · simp only [FileObj.WF, isStr, allOctets]; decide
  · simp only [FileObj.Encodable, FileObj.fields]; decide
/-- the same octets with the size field holding the character count (2) are rejected: an octet is left in the sub-cursor -/
example : parseOne false false ([70, 7, 0x5B, 1, 23, 0] ++ [20, 0, 2, 0, 1, 0, 0, 0, 0, 0, 0, 0, 0, 0, 0, 0, 0xFF, 1, 7, 0, 0x64, 0xC3, 0xA9]) = .error .badEncoding := by
  rfl
/-- a four-octet character as a password -/
example : (FileObj.auth 0 [0x72] [0xF0, 0x9F, 0x93, 0x84]).WF ∧ (FileObj.auth 0 [0x72] [0xF0, 0x9F, 0x93, 0x84]).Encodable ∧
    parseObj 2 (encode (.auth 0 [0x72] [0xF0, 0x9F, 0x93, 0x84])) = .ok (.auth 0 [0x72] [0xF0, 0x9F, 0x93, 0x84], []) := by
  refine ⟨?_, ?_, rfl⟩
  · simp only [FileObj.WF, isStr, allOctets]; decide
  · simp only [FileObj.Encodable, FileObj.fields]; decide
example : knownFunction fnAuthenticateFile = true ∧ isResponseFn fnAuthenticateFile = false ∧ isStr [0x64, 0xC3, 0xA9] := by
  refine ⟨by decide, by decide, ?_⟩
  simp only [isStr, allOctets]; decide
/-- a size the 16-bit field cannot express: `write` fails with `Overflow`, nothing is sent -/
example : ∀ n : List Nat, 65535 < n.length → ¬ (FileObj.descriptor 0 0 0 0 0 n).Encodable := by
  intro n hn he
  have := Dnp3.Proofs.C09File70.encodable_descriptor he
  omega

end File70

end Dnp3.Props.C09
